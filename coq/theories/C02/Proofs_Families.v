(* C02 - the read bound (safe) and the exact need + fuel bound (live) of every machine family. *)
From Coq Require Import List Bool Arith ZArith Lia String.
From AL Require Import C08.Model C02.Machine C02.Spec C02.MachineLemmas.
Import ListNotations.
Local Open Scope nat_scope.

Ltac step_cases H := unfold safe_step, live_step; cbn [step];
  match goal with |- context [match ?s with _ => _ end] => destruct s end.

(* ------------------------------------------------------------------ mealy *)
Section MealyP.
Context {A B Sg : Type} (delta : Sg -> A -> Sg * B) (s0 : Sg) (c : nat -> bool).

Lemma mealy_safe : safe c need_id (mealy delta s0).
Proof.
  exists (fun s r y => match s with MIdle _ => r <= y | MOut _ _ => r <= S y | MFin => r <= y end).
  split; [cbn; lia|].
  intros s r y HI. unfold safe_step, need_id. destruct s as [g|g o|]; cbn [step mealy].
  - unfold bump. repeat split.
    + destruct (c 0); lia.
    + intro x. destruct (delta g x). destruct (c 0); lia.
    + exact HI.
  - split; [exact HI|exact HI].
  - lia.
Qed.

Lemma mealy_live : c 0 = true -> live c need_id (mealy delta s0) 1.
Proof.
  intro C0.
  exists (fun s r y n => match s with MIdle _ => r = y /\ 1 <= n | MOut _ _ => r = S y | MFin => False end).
  split; [cbn; lia|].
  intros s r y n HP. unfold live_step, need_id. destruct s as [g|g o|]; cbn [step mealy]; try contradiction.
  - destruct HP as [Hr Hn]. destruct n as [|n']; [lia|]. exists n'. split; [reflexivity|].
    intro x. destruct (delta g x). unfold bump. rewrite C0. lia.
  - split; [exact HP|]. lia.
Qed.
End MealyP.

(* ------------------------------------------------------------------ zip *)

Section ZipP.
Context {A : Type} (order : list nat) (c : nat -> bool).

Lemma cnt_cons i l : cnt c (i :: l) = bump c i 0 + cnt c l.
Proof. unfold cnt, bump. cbn [filter]. destruct (c i); reflexivity. Qed.

Lemma mzip_safe : safe c (need_zipc c order) (@mzip A order).
Proof.
  exists (fun s r y => match s with
                       | ZGo todo _ => r + cnt c todo <= S y * cnt c order
                       | ZFin => r <= S y * cnt c order end).
  split; [cbn [init mzip]; lia|].
  intros s r y HI. unfold safe_step, need_zipc. destruct s as [[|i todo] acc|]; cbn [step mzip].
  - split; [cbn [cnt filter List.length] in HI; lia|]. cbn [cnt filter List.length] in HI. cbn. fold (cnt c order). lia.
  - rewrite cnt_cons in HI. unfold bump in *. repeat split.
    + destruct (c i); lia.
    + intros _. destruct (c i); lia.
    + destruct (c i); lia.
  - exact HI.
Qed.

Lemma mzip_live : live c (need_zipc c order) (@mzip A order) (List.length order).
Proof.
  exists (fun s r y n => match s with
                         | ZGo todo _ => r + cnt c todo = S y * cnt c order /\ List.length todo <= n
                         | ZFin => False end).
  split; [cbn [init mzip]; lia|].
  intros s r y n HP. unfold live_step, need_zipc. destruct s as [[|i todo] acc|]; cbn [step mzip]; try contradiction.
  - destruct HP as [Hr Hn]. cbn [cnt filter List.length] in Hr. split; [lia|]. split; [|lia]. cbn. fold (cnt c order). lia.
  - destruct HP as [Hr Hn]. rewrite cnt_cons in Hr. cbn [List.length] in Hn. destruct n as [|n']; [lia|].
    exists n'. split; [reflexivity|]. intros _. unfold bump in *. destruct (c i); split; lia.
Qed.
End ZipP.

Lemma cnt_only_count_occ i l : cnt (only i) l = count_occ Nat.eq_dec l i.
Proof.
  unfold cnt, only. induction l as [|x l IH]; [reflexivity|]. cbn [filter count_occ].
  destruct (Nat.eq_dec x i) as [E|E].
  - subst. rewrite Nat.eqb_refl. cbn. f_equal. exact IH.
  - apply Nat.eqb_neq in E. rewrite E. exact IH.
Qed.
Lemma need_zipc_only i order k : need_zipc (only i) order k = need_zip order i k.
Proof. unfold need_zipc, need_zip. rewrite cnt_only_count_occ. reflexivity. Qed.

(* ------------------------------------------------------------------ skip, limit, takewhile *)
Section SkipP.
Context {A : Type} (n : nat) (c : nat -> bool).

Lemma mskip_safe : safe c (need_skip n) (@mskip A n).
Proof.
  exists (fun s r y => match s with
                       | KSkip j => r + j <= n + y /\ (0 < j -> y = 0)
                       | KOut _ => r <= n + S y
                       | KFin => r <= n + S y end).
  split; [cbn; lia|].
  intros s r y HI. unfold safe_step, need_skip, bump. destruct s as [[|j]|v|]; cbn [step mskip].
  - destruct HI as [H1 H2]. repeat split; try (intros _); try destruct (c 0); lia.
  - destruct HI as [H1 H2]. repeat split; try (intros _); try destruct (c 0); lia.
  - split; [exact HI|]. split; [lia|lia].
  - exact HI.
Qed.

Lemma mskip_live : c 0 = true -> live c (need_skip n) (@mskip A n) (S n).
Proof.
  intro C0.
  exists (fun s r y b => match s with
                         | KSkip j => r + j = n + y /\ (0 < j -> y = 0) /\ j + 1 <= b
                         | KOut _ => r = n + S y
                         | KFin => False end).
  split; [cbn; lia|].
  intros s r y b HP. unfold live_step, need_skip, bump. destruct s as [[|j]|v|]; cbn [step mskip]; try contradiction; rewrite ?C0.
  - destruct HP as [H1 [H2 H3]]. destruct b as [|b']; [lia|]. exists b'. split; [reflexivity|]. intros _. lia.
  - destruct HP as [H1 [H2 H3]]. destruct b as [|b']; [lia|]. exists b'. split; [reflexivity|]. intros _. lia.
  - split; [exact HP|]. lia.
Qed.
End SkipP.

Section LimitP.
Context {A : Type} (n : nat) (c : nat -> bool).
Lemma mlimit_safe : safe c (need_limit n) (@mlimit A n).
Proof.
  exists (fun s r y => match s with
                       | LGo j => r <= y /\ y + j = n
                       | LOut _ j => r <= S y /\ S y + j = n
                       | LFin => r <= y /\ y < n end).
  split; [cbn; lia|].
  intros s r y HI. unfold safe_step, need_limit, bump. destruct s as [[|j]|v j|]; cbn [step mlimit].
  - lia.
  - repeat split; try (intros _); try destruct (c 0); lia.
  - repeat split; lia.
  - lia.
Qed.
End LimitP.

Section TakeWhileP.
Context {A : Type} (p : A -> bool) (c : nat -> bool).
Lemma mtakewhile_safe : safe c need_id (mtakewhile p).
Proof.
  exists (fun s r y => match s with TGo => r <= y | TOut _ => r <= S y | TFin => r <= S y end).
  split; [cbn; lia|].
  intros s r y HI. unfold safe_step, need_id, bump. destruct s as [|v|]; cbn [step mtakewhile].
  - repeat split; try (intro x; destruct (p x)); try destruct (c 0); lia.
  - split; lia.
  - exact HI.
Qed.
End TakeWhileP.

(* ------------------------------------------------------------------ chain of sources *)

Section ChainP.
Context {A : Type} (order : list nat) (c : nat -> bool).
Lemma mchain_safe : safe c (need_chainc c order) (@mchain A order).
Proof.
  exists (fun s r y => match s with
                       | CGo todo => r <= need_chainc c order y /\ incl todo order
                       | COut _ todo => r <= need_chainc c order (S y) /\ incl todo order end).
  split; [cbn [init mchain]; unfold need_chainc; split; [destruct (existsb c order); lia|apply incl_refl]|].
  intros s r y HI. unfold safe_step. destruct s as [[|i todo]|v todo]; cbn [step mchain].
  - destruct HI as [H1 _]. unfold need_chainc in *. destruct (existsb c order); lia.
  - destruct HI as [H1 H2].
    assert (Hb : bump c i r <= need_chainc c order (S y)).
    { unfold need_chainc, bump in *. destruct (existsb c order) eqn:Ex.
      - destruct (c i); lia.
      - assert (Hi : c i = false).
        { destruct (c i) eqn:Ci; [|reflexivity]. exfalso.
          assert (existsb c order = true) by (apply existsb_exists; exists i; split; [apply H2; left; reflexivity|exact Ci]).
          congruence. }
        rewrite Hi. lia. }
    repeat split; try assumption.
    intros a Ha. apply H2. right. exact Ha.
  - destruct HI as [H1 H2]. split; [exact H1|]. split; assumption.
Qed.
End ChainP.

Lemma need_chainc_only i order k : need_chainc (only i) order k = need_chain order i k.
Proof.
  unfold need_chainc, need_chain. destruct (in_dec Nat.eq_dec i order) as [Hin|Hin].
  - assert (existsb (only i) order = true) as ->; [|reflexivity].
    apply existsb_exists. exists i. split; [exact Hin|apply Nat.eqb_refl].
  - destruct (existsb (only i) order) eqn:Ex; [|reflexivity].
    apply existsb_exists in Ex. destruct Ex as [x [Hx Hc]]. apply Nat.eqb_eq in Hc. subst. contradiction.
Qed.

(* ------------------------------------------------------------------ pad *)
Section PadP.
Context {A : Type} (pad : A) (left right : nat) (c : nat -> bool).
Lemma mpad_safe : safe c (need_pad left) (mpad pad left right).
Proof.
  exists (fun s r y => match s with
                       | PLeft j => r = 0 /\ y + j = left
                       | PMid => r + left <= y
                       | POut _ => r + left <= S y
                       | PRight _ => r + left <= y end).
  split; [cbn; lia|].
  intros s r y HI. unfold safe_step, need_pad, bump. destruct s as [[|j]| |v|[|j]]; cbn [step mpad].
  - repeat split; try (intros _); try destruct (c 0); lia.
  - split; lia.
  - repeat split; try (intros _); try destruct (c 0); lia.
  - split; lia.
  - lia.
  - split; lia.
Qed.

Lemma mpad_live : c 0 = true -> live c (need_pad left) (mpad pad left right) 1.
Proof.
  intro C0.
  exists (fun s r y b => match s with
                         | PLeft j => r = 0 /\ y + j = left /\ 1 <= b
                         | PMid => r + left = y /\ 1 <= b
                         | POut _ => r + left = S y
                         | PRight _ => False end).
  split; [cbn; lia|].
  intros s r y b HP. unfold live_step, need_pad, bump. destruct s as [[|j]| |v|j]; cbn [step mpad]; try contradiction; rewrite ?C0.
  - destruct b as [|b']; [lia|]. exists b'. split; [reflexivity|]. intros _. lia.
  - split; lia.
  - destruct b as [|b']; [lia|]. exists b'. split; [reflexivity|]. intros _. lia.
  - split; lia.
Qed.
End PadP.

(* ------------------------------------------------------------------ parallel, cycle, zcross *)
Section ParP.
Context {A : Type} (n : nat) (c : nat -> bool).
Lemma mparallel_safe : safe c need_id (@mparallel A n).
Proof.
  exists (fun s r y => match s with QIdle => r <= y | QBranch _ _ => r <= S y | QFin => r <= y end).
  split; [cbn; lia|].
  intros s r y HI. unfold safe_step, need_id, bump. destruct s as [|[|j] v|]; cbn [step mparallel].
  - repeat split; try (intros _); try destruct (c 0); lia.
  - split; lia.
  - exact HI.
  - lia.
Qed.
Lemma mparallel_live : c 0 = true -> live c need_id (@mparallel A n) (S n).
Proof.
  intro C0.
  exists (fun s r y b => match s with QIdle => r = y /\ S n <= b | QBranch j _ => r = S y /\ j <= b | QFin => False end).
  split; [cbn; lia|].
  intros s r y b HP. unfold live_step, need_id, bump. destruct s as [|[|j] v|]; cbn [step mparallel]; try contradiction; rewrite ?C0.
  - destruct b as [|b']; [lia|]. exists b'. split; [reflexivity|]. intros _. lia.
  - split; lia.
  - destruct b as [|b']; [lia|]. exists b'. split; [reflexivity|]. lia.
Qed.
End ParP.

Section CycleP.
Context {A : Type} (c : nat -> bool).
Lemma mcycle_safe : safe c need_id (@mcycle A).
Proof.
  exists (fun s r y => match s with YGo _ => r <= y | YOut _ _ => r <= S y | YRep _ _ => r <= y end).
  split; [cbn; lia|].
  intros s r y HI. unfold safe_step, need_id, bump. destruct s as [sv|v sv|[|v cur] [|w sv]]; cbn [step mcycle].
  - repeat split; try (intros _); try destruct (c 0); lia.
  - split; lia.
  - lia.
  - exact HI.
  - split; lia.
  - split; lia.
Qed.
Lemma mcycle_live : c 0 = true -> live c need_id (@mcycle A) 1.
Proof.
  intro C0.
  exists (fun s r y b => match s with YGo _ => r = y /\ 1 <= b | YOut _ _ => r = S y | YRep _ _ => False end).
  split; [cbn; lia|].
  intros s r y b HP. unfold live_step, need_id, bump. destruct s as [sv|v sv|cur sv]; cbn [step mcycle]; try contradiction; rewrite ?C0.
  - destruct b as [|b']; [lia|]. exists b'. split; [reflexivity|]. intros _. lia.
  - split; lia.
Qed.
End CycleP.

Section ZcrossP.
Context {A : Type} (sgn : A -> bool) (c : nat -> bool).
Lemma mzcross_safe : safe c need_id (mzcross sgn).
Proof.
  exists (fun s r y => match s with XA | XB | XFin => r <= y | XAOut _ | XBOut _ => r <= S y end).
  split; [cbn; lia|].
  intros s r y HI. unfold safe_step, need_id, bump. destruct s as [|v| |v|]; cbn [step mzcross].
  - repeat split; try (intros _); try destruct (c 0); lia.
  - split; [lia|]. destruct (sgn v); lia.
  - repeat split; try (intros _); try destruct (c 0); lia.
  - split; lia.
  - lia.
Qed.
Lemma mzcross_live : c 0 = true -> live c need_id (mzcross sgn) 1.
Proof.
  intro C0.
  exists (fun s r y b => match s with XA | XB => r = y /\ 1 <= b | XAOut _ | XBOut _ => r = S y | XFin => False end).
  split; [cbn; lia|].
  intros s r y b HP. unfold live_step, need_id, bump. destruct s as [|v| |v|]; cbn [step mzcross]; try contradiction; rewrite ?C0.
  - destruct b as [|b']; [lia|]. exists b'. split; [reflexivity|]. intros _. lia.
  - split; [lia|]. destruct (sgn v); lia.
  - destruct b as [|b']; [lia|]. exists b'. split; [reflexivity|]. intros _. lia.
  - split; lia.
Qed.
End ZcrossP.

(* ------------------------------------------------------------------ attack with a sustain stream; refused calls *)
Section AttackP.
Context {A : Type} (o : A) (n : nat) (c : nat -> bool).
Lemma mattack_safe : safe c (need_attack n) (mattack o n).
Proof.
  exists (fun s r y => match s with
                       | AInit => r = 0 /\ y = 0
                       | ALine j => (0 < j -> y + j = n /\ r <= 1) /\ (j = 0 -> n <= y /\ r + n <= 1 + y)
                       | AOut _ => n <= y /\ r + n <= 2 + y
                       | AFin => r <= need_attack n (S y)
                       | AErr => True end).
  split; [cbn; lia|].
  intros s r y HI. unfold safe_step, need_attack, bump. destruct s as [|[|j]|v| |]; cbn [step mattack].
  - destruct HI as [Hr Hy]. subst. repeat split; try (intros _); try destruct (c 0); lia.
  - destruct HI as [_ H0]. specialize (H0 eq_refl). repeat split; try (intros _); try destruct (c 0); lia.
  - destruct HI as [H1 _]. specialize (H1 ltac:(lia)). split; [lia|]. split; intros; lia.
  - split; [lia|]. split; intros; lia.
  - exact HI.
  - exact Logic.I.
Qed.

Lemma mattack_live : c 0 = true -> live c (need_attack n) (mattack o n) 2.
Proof.
  intro C0.
  exists (fun s r y b => match s with
                         | AInit => r = 0 /\ y = 0 /\ 2 <= b
                         | ALine j => (0 < j -> y + j = n /\ r = 1) /\ (j = 0 -> n <= y /\ r + n = 1 + y /\ 1 <= b)
                         | AOut _ => n <= y /\ r + n = 2 + y
                         | AFin => False
                         | AErr => False end).
  split; [cbn; lia|].
  intros s r y b HP. unfold live_step, need_attack, bump.
  destruct s as [|[|j]|v| |]; cbn [step mattack]; try contradiction; rewrite ?C0.
  - destruct HP as [Hr [Hy Hb]]. subst. destruct b as [|b']; [lia|]. exists b'. split; [reflexivity|].
    intros _. split; intros; lia.
  - destruct HP as [_ H0]. specialize (H0 eq_refl). destruct b as [|b']; [lia|]. exists b'. split; [reflexivity|].
    intros _. lia.
  - destruct HP as [H1 _]. specialize (H1 ltac:(lia)). split; [lia|]. split; intros; lia.
  - split; [lia|]. split; intros; lia.
Qed.
End AttackP.

Lemma mraise_safe {A B} (e : string) c need : safe c need (@mraise A B e).
Proof. exists (fun _ _ _ => True). split; [exact Logic.I|]. intros s r y _. exact Logic.I. Qed.
