(* C02 - Everything is lazy: no read before demand, bounded read per output.
   Only statements; every proof is [exact lemma]. *)
From Coq Require Import List Bool Arith ZArith String.
From AL Require Import C08.Model C02.Machine C02.Spec C02.MachineLemmas C02.GSafe C02.Tight C02.GTight C02.Model C02.Check
  C02.Proofs_Families C02.Proofs_Blocks C02.Proofs_Data C02.Proofs_Tee C02.Proofs_Resample C02.Proofs_Pipeline C02.Proofs_Filter C02.Proofs_Tight C02.Proofs_Corollaries.
Import ListNotations.
Local Open Scope nat_scope.

(* ------------------------------------------------------------------ construction *)
(* A stage that has not been asked for anything has done nothing, whatever the machine, the
   sources and the fuel: constructors build machines, they do not step them. *)
Theorem C02_construct_reads_nothing : forall (I O : Type) (m : machine I O) (E : env I) (fuel : nat) (s : st m) (e : est E),
  run m E fuel 0 s e = [].
Proof. exact (@run_zero). Qed.
Print Assumptions C02_construct_reads_nothing.

Theorem C02_model_constructs_lazily : forall ds : list srcd, ctrace CLazy ds = [].
Proof. exact model_constructs_lazily. Qed.
Print Assumptions C02_model_constructs_lazily.

(* construction in the model: nothing is touched, a refused call raises without touching anything, and the only
   construction-time reads are the documented prefix (at most n items of the parameter source, nothing else) *)
Theorem C02_model_construction_ok : forall (ck : ckind) (ds : list srcd), ck <> CEager -> ctor_ok ck (ctrace ck ds) = true.
Proof. exact model_ctor_ok. Qed.
Print Assumptions C02_model_construction_ok.

(* ------------------------------------------------------------------ the two transfer principles *)
(* A step-closed invariant ([safe]) bounds the reads of EVERY run: any environment (finite, endless,
   raising), any fuel, any number k of demands; the judgement [tr_ok] checks every read, yield and stop. *)
Theorem C02_bounded_on_every_source : forall (I O : Type) (c : nat -> bool) (need : nat -> nat) (m : machine I O),
  safe c need m -> forall (E : env I) (fuel k : nat) (e : est E),
  tr_ok c need 0 0 (run m E fuel k (init m) e) = true.
Proof. exact (@safe_run). Qed.
Print Assumptions C02_bounded_on_every_source.

(* On sources that never end a [live] machine gives its first k+1 outputs within an explicit fuel
   bound (finite time), reads exactly [need (k+1)] items for them, and never stops or raises. *)
Theorem C02_productive : forall (I O : Type) (c : nat -> bool) (need : nat -> nat) (m : machine I O) (B : nat),
  live c need m B -> forall E : env I, endless E -> forall (k fuel : nat) (e : est E),
  S k * (B + 1) <= fuel ->
  nyields (run m E fuel (S k) (init m) e) = S k /\
  count_reads c (run m E fuel (S k) (init m) e) = need (S k) /\
  clean (run m E fuel (S k) (init m) e) = true /\
  tr_exact c need 0 0 (run m E fuel (S k) (init m) e) = true.
Proof. exact (@live_run). Qed.
Print Assumptions C02_productive.

(* more fuel does not change a trace that did not run out of fuel *)
Theorem C02_run_mono : forall (I O : Type) (m : machine I O) (E : env I) (fuel fuel' k : nat) (s : st m) (e : est E),
  fuel <= fuel' -> no_out (run m E fuel k s e) = true -> run m E fuel' k s e = run m E fuel k s e.
Proof. exact (@run_mono). Qed.
Print Assumptions C02_run_mono.

(* ------------------------------------------------------------------ needs compose *)
Theorem C02_compose_reads : forall (I M O : Type) (m2 : machine M O) (m1 : machine I M) (c : nat -> bool) (n1 n2 : nat -> nat),
  mono n1 -> mono n2 -> safe c n1 m1 -> safe every n2 m2 ->
  safe c (fun k => n1 (n2 k)) (comp m2 m1).
Proof. exact (@safe_comp). Qed.
Print Assumptions C02_compose_reads.

Theorem C02_compose_reads_exact : forall (I M O : Type) (m2 : machine M O) (m1 : machine I M) (c : nat -> bool)
  (n1 n2 : nat -> nat) (B1 B2 : nat),
  n1 0 = 0 -> live c n1 m1 B1 -> live every n2 m2 B2 ->
  live c (fun k => n1 (n2 k)) (comp m2 m1) (B2 * (B1 + 2)).
Proof. exact (@live_comp). Qed.
Print Assumptions C02_compose_reads_exact.

(* ------------------------------------------------------------------ families: bound on every source *)
Theorem C02_mealy_bounded : forall (A B Sg : Type) (delta : Sg -> A -> Sg * B) (s0 : Sg) (c : nat -> bool),
  safe c need_id (mealy delta s0).
Proof. exact (@mealy_safe). Qed.
Print Assumptions C02_mealy_bounded.

Theorem C02_mzip_bounded : forall (A : Type) (order : list nat) (c : nat -> bool), safe c (need_zipc c order) (@mzip A order).
Proof. exact (@mzip_safe). Qed.
Print Assumptions C02_mzip_bounded.

Theorem C02_mskip_bounded : forall (A : Type) (n : nat) (c : nat -> bool), safe c (need_skip n) (@mskip A n).
Proof. exact (@mskip_safe). Qed.
Print Assumptions C02_mskip_bounded.

Theorem C02_mlimit_bounded : forall (A : Type) (n : nat) (c : nat -> bool), safe c (need_limit n) (@mlimit A n).
Proof. exact (@mlimit_safe). Qed.
Print Assumptions C02_mlimit_bounded.

Theorem C02_mtakewhile_bounded : forall (A : Type) (p : A -> bool) (c : nat -> bool), safe c need_id (mtakewhile p).
Proof. exact (@mtakewhile_safe). Qed.
Print Assumptions C02_mtakewhile_bounded.

Theorem C02_mchain_bounded : forall (A : Type) (order : list nat) (c : nat -> bool), safe c (need_chainc c order) (@mchain A order).
Proof. exact (@mchain_safe). Qed.
Print Assumptions C02_mchain_bounded.

Theorem C02_mpad_bounded : forall (A : Type) (pad : A) (left right : nat) (c : nat -> bool),
  safe c (need_pad left) (mpad pad left right).
Proof. exact (@mpad_safe). Qed.
Print Assumptions C02_mpad_bounded.

(* blocks: both hop <= size and hop > size *)
Theorem C02_mblocks_bounded : forall (A : Type) (size hop : nat) (pad : A) (c : nat -> bool),
  1 <= size -> 1 <= hop -> safe c (need_blocks size hop) (mblocks size hop pad).
Proof. exact (@mblocks_safe). Qed.
Print Assumptions C02_mblocks_bounded.

Theorem C02_mbatched_bounded : forall (A : Type) (n : nat) (c : nat -> bool), 1 <= n -> safe c (need_blocks n n) (@mbatched A n).
Proof. exact (@mbatched_safe). Qed.
Print Assumptions C02_mbatched_bounded.

Theorem C02_mparallel_bounded : forall (A : Type) (n : nat) (c : nat -> bool), safe c need_id (@mparallel A n).
Proof. exact (@mparallel_safe). Qed.
Print Assumptions C02_mparallel_bounded.

(* tee: whatever the order in which the n copies are pulled, the source is read no further than the
   copy that was asked most often (need_tee = max over the copies of their number of demands) *)
Theorem C02_mtee_bounded : forall (A : Type) (n : nat) (sched : list nat) (c : nat -> bool),
  Forall (fun ch => ch < n) sched -> safe c (need_tee n sched) (@mtee A n sched).
Proof. exact (@mtee_safe). Qed.
Print Assumptions C02_mtee_bounded.

Theorem C02_mola_bounded : forall (A B : Type) (o : B) (size hop : nat) (auto : bool) (c : nat -> bool),
  1 <= hop -> safe c (need_ola hop) (@mola A B o size hop auto).
Proof. exact (@mola_safe). Qed.
Print Assumptions C02_mola_bounded.

Theorem C02_mresample_bounded : forall (A B : Type) (o : B) (n0 : nat) (idx0 thr stp one : Z) (c : nat -> bool),
  (0 < one)%Z -> (0 <= stp)%Z -> safe c (need_resample n0 idx0 thr stp one) (@mresample A B o n0 idx0 thr stp one).
Proof. exact (@mresample_safe). Qed.
Print Assumptions C02_mresample_bounded.

(* resample with old / new given as a Stream (step stream = source 1): the input is read as for a constant step,
   the step stream one item per output ALREADY delivered (k-1 for k outputs): no look-ahead of a whole step *)
Theorem C02_mresample_tv_bounded : forall (A B : Type) (o : B) (n0 : nat) (idx0 thr stp one : Z) (c : nat -> bool),
  (0 < one)%Z -> (0 <= stp)%Z ->
  safe c (need_resample_tv c n0 idx0 thr stp one) (@mresample_tv A B o n0 idx0 thr stp one).
Proof. exact (@mresample_tv_safe). Qed.
Print Assumptions C02_mresample_tv_bounded.

(* attack(a, d, sustain stream): one item of look-ahead (the decay target) at the first demand, then one item per
   output after the n = len_a + len_d samples of the two lines; exact and productive on an endless sustain *)
Theorem C02_mattack_bounded : forall (A : Type) (o : A) (n : nat) (c : nat -> bool), safe c (need_attack n) (mattack o n).
Proof. exact (@mattack_safe). Qed.
Print Assumptions C02_mattack_bounded.
Theorem C02_mattack_need : forall (A : Type) (o : A) (n : nat) (c : nat -> bool), c 0 = true ->
  live c (need_attack n) (mattack o n) 2.
Proof. exact (@mattack_live). Qed.
Print Assumptions C02_mattack_need.

Theorem C02_mcycle_bounded : forall (A : Type) (c : nat -> bool), safe c need_id (@mcycle A).
Proof. exact (@mcycle_safe). Qed.
Print Assumptions C02_mcycle_bounded.

Theorem C02_mzcross_bounded : forall (A : Type) (sgn : A -> bool) (c : nat -> bool), safe c need_id (mzcross sgn).
Proof. exact (@mzcross_safe). Qed.
Print Assumptions C02_mzcross_bounded.

(* ------------------------------------------------------------------ families: exact need on endless sources *)
Theorem C02_mealy_need : forall (A : Type) (E : env A), endless E ->
  forall (B Sg : Type) (delta : Sg -> A -> Sg * B) (s0 : Sg) (k fuel : nat) (e : est E), S k * 2 <= fuel ->
  reads 0 (run (mealy delta s0) E fuel (S k) (init _) e) = S k /\
  nyields (run (mealy delta s0) E fuel (S k) (init _) e) = S k /\
  clean (run (mealy delta s0) E fuel (S k) (init _) e) = true.
Proof. exact (@mealy_need). Qed.
Print Assumptions C02_mealy_need.

Theorem C02_mzip_need : forall (A : Type) (E : env A), endless E ->
  forall (order : list nat) (i k fuel : nat) (e : est E), S k * (List.length order + 1) <= fuel ->
  reads i (run (@mzip A order) E fuel (S k) (init _) e) = S k * count_occ Nat.eq_dec order i /\
  nyields (run (@mzip A order) E fuel (S k) (init _) e) = S k /\
  clean (run (@mzip A order) E fuel (S k) (init _) e) = true.
Proof. exact (@mzip_need). Qed.
Print Assumptions C02_mzip_need.

Theorem C02_mskip_need : forall (A : Type) (E : env A), endless E ->
  forall (n k fuel : nat) (e : est E), S k * (S n + 1) <= fuel ->
  reads 0 (run (@mskip A n) E fuel (S k) (init _) e) = n + S k /\
  nyields (run (@mskip A n) E fuel (S k) (init _) e) = S k /\
  clean (run (@mskip A n) E fuel (S k) (init _) e) = true.
Proof. exact (@mskip_need). Qed.
Print Assumptions C02_mskip_need.

Theorem C02_mpad_need : forall (A : Type) (E : env A), endless E ->
  forall (pad : A) (left right k fuel : nat) (e : est E), S k * 2 <= fuel ->
  reads 0 (run (mpad pad left right) E fuel (S k) (init _) e) = S k - left /\
  nyields (run (mpad pad left right) E fuel (S k) (init _) e) = S k /\
  clean (run (mpad pad left right) E fuel (S k) (init _) e) = true.
Proof. exact (@mpad_need). Qed.
Print Assumptions C02_mpad_need.

(* j+1 blocks cost exactly j*hop + size items *)
Theorem C02_mblocks_need : forall (A : Type) (E : env A), endless E ->
  forall (size hop : nat) (pad : A) (j fuel : nat) (e : est E), 1 <= size -> 1 <= hop -> S j * (size + hop + 1) <= fuel ->
  reads 0 (run (mblocks size hop pad) E fuel (S j) (init _) e) = j * hop + size /\
  nyields (run (mblocks size hop pad) E fuel (S j) (init _) e) = S j /\
  clean (run (mblocks size hop pad) E fuel (S j) (init _) e) = true.
Proof. exact (@mblocks_need). Qed.
Print Assumptions C02_mblocks_need.

Theorem C02_mparallel_need : forall (A : Type) (E : env A), endless E ->
  forall (n k fuel : nat) (e : est E), S k * (S n + 1) <= fuel ->
  reads 0 (run (@mparallel A n) E fuel (S k) (init _) e) = S k /\
  nyields (run (@mparallel A n) E fuel (S k) (init _) e) = S k /\
  clean (run (@mparallel A n) E fuel (S k) (init _) e) = true.
Proof. exact (@mparallel_need). Qed.
Print Assumptions C02_mparallel_need.

(* sample k (0-based) of an overlap-add needs k/hop + 1 blocks *)
Theorem C02_mola_need : forall (A : Type) (E : env A), endless E ->
  forall (B : Type) (o : B) (size hop : nat) (auto : bool) (k fuel : nat) (e : est E), 1 <= hop -> S k * 2 <= fuel ->
  reads 0 (run (@mola A B o size hop auto) E fuel (S k) (init _) e) = k / hop + 1 /\
  nyields (run (@mola A B o size hop auto) E fuel (S k) (init _) e) = S k /\
  clean (run (@mola A B o size hop auto) E fuel (S k) (init _) e) = true.
Proof. exact (@mola_need). Qed.
Print Assumptions C02_mola_need.

(* STFT wrapper = overlap-add o per-block processing o blocks: sample k needs (k/hop)*hop + size items *)
Theorem C02_stft_need : forall (A : Type) (E : env A), endless E ->
  forall (B Sg C : Type) (size hop : nat) (pad : A) (delta : Sg -> list A -> Sg * B) (s0 : Sg) (o : C)
         (k fuel : nat) (e : est E),
  1 <= size -> 1 <= hop -> S k * (size + hop + 5) <= fuel ->
  reads 0 (run (mstft size hop pad delta s0 o) E fuel (S k) (init _) e) = (k / hop) * hop + size /\
  nyields (run (mstft size hop pad delta s0 o) E fuel (S k) (init _) e) = S k /\
  clean (run (mstft size hop pad delta s0 o) E fuel (S k) (init _) e) = true.
Proof. exact (@mstft_need). Qed.
Print Assumptions C02_stft_need.

Theorem C02_mbatched_need : forall (A : Type) (n : nat) (c : nat -> bool), 1 <= n -> c 0 = true ->
  live c (need_blocks n n) (@mbatched A n) n.
Proof. exact (@mbatched_live). Qed.
Print Assumptions C02_mbatched_need.

(* resample: look-ahead n0, then exactly ceil((idx0 + k*step - thr)/one) further items (when positive)
   for output k+1; outputs keep coming within rs_bound steps *)
Theorem C02_mresample_need : forall (A B : Type) (o : B) (n0 : nat) (idx0 thr stp one : Z) (c : nat -> bool),
  (0 < one)%Z -> (0 <= stp)%Z -> (thr - one < idx0 <= thr)%Z -> c 0 = true ->
  live c (need_resample n0 idx0 thr stp one) (@mresample A B o n0 idx0 thr stp one) (rs_bound n0 stp one).
Proof. exact (@mresample_live). Qed.
Print Assumptions C02_mresample_need.

Theorem C02_mcycle_need : forall (A : Type) (c : nat -> bool), c 0 = true -> live c need_id (@mcycle A) 1.
Proof. exact (@mcycle_live). Qed.
Print Assumptions C02_mcycle_need.

Theorem C02_mzcross_need : forall (A : Type) (sgn : A -> bool) (c : nat -> bool), c 0 = true -> live c need_id (mzcross sgn) 1.
Proof. exact (@mzcross_live). Qed.
Print Assumptions C02_mzcross_need.

(* filter: the (k+1)-th output costs 1 + (index of the (k+1)-th passing item) reads - exact, data dependent *)
Theorem C02_mfilter_need : forall (A : Type) (p : A -> bool) (f : nat -> A) (idx k fuel : nat),
  npass p f 0 (S idx) = S k -> p (f idx) = true -> S idx + S k <= fuel ->
  reads 0 (run (mfilter p) (stream_env f) fuel (S k) (init _) 0) = S idx /\
  nyields (run (mfilter p) (stream_env f) fuel (S k) (init _) 0) = S k /\
  clean (run (mfilter p) (stream_env f) fuel (S k) (init _) 0) = true.
Proof. exact (@mfilter_need). Qed.
Print Assumptions C02_mfilter_need.

(* denotation: what a Mealy stage yields for k demands on a finite source is the first k items of
   its list semantics (nothing more is computed than was asked for) *)
Theorem C02_trace_yields : forall (A B Sg : Type) (delta : Sg -> A -> Sg * B) (s0 : Sg) (xs : list A) (g : Sg) (k fuel : nat),
  2 * k <= fuel ->
  yields (run (mealy delta s0) list_env fuel k (MIdle g : st (mealy delta s0)) xs) = firstn k (mealy_den delta g xs).
Proof. exact (@mealy_trace_yields). Qed.
Print Assumptions C02_trace_yields.

(* ------------------------------------------------------------------ the stage table, chains of any depth *)
(* Every pipeline (first stage + any list of further stages) of admissible stages satisfies the
   checker used on the implementation's traces, for every source configuration of the harness,
   every number of demands, every source index. *)
(* closed-form need for pipelines WITHOUT filter stages (their need does not depend on the data); the
   statement for every pipeline, filters included, is C02_pipeline_bounded / C02_pipeline_safe below *)
Theorem C02_pipeline_bounded_data_independent : forall (first : stage) (rest : list stage),
  stage_ok first -> Forall stage_ok rest ->
  forall (ds : list srcd) (k i : nat), etr_ok (only i) (pneed first rest i) 0 0 (ptrace first rest ds k) = true.
Proof. exact model_bounded. Qed.
Print Assumptions C02_pipeline_bounded_data_independent.

(* the same on arbitrary environments, as a [safe] certificate *)
Theorem C02_pipeline_safe_data_independent : forall (first : stage) (rest : list stage) (c : nat -> bool),
  stage_ok first -> Forall stage_ok rest -> safe c (pneedc first rest c) (pmach first rest).
Proof. exact pmach_safe. Qed.
Print Assumptions C02_pipeline_safe_data_independent.

(* exact composed need and explicit fuel bound for chains of any depth on endless sources *)
(* productivity ("first outputs in finite time", explicit fuel) for pipelines of stages that never end by
   themselves on endless sources: [stage_live] = Mealy, zip, skip, pad, blocks, batched, parallel, overlap-add,
   resample, cycle, zcross.  Exact counts for ALL admissible stages (with horizons for the self-ending ones) are
   C02_pipeline_exact / C02_filter_pipeline_exact below. *)
Theorem C02_pipeline_productive : forall (first : stage) (rest : list stage),
  stage_live first -> Forall stage_live rest ->
  forall E : env nat, endless E -> forall (k fuel : nat) (e : est E),
  S k * (pbound (sbound first) rest + 1) <= fuel ->
  reads 0 (run (pmach first rest) E fuel (S k) (init _) e) = pneed first rest 0 (S k) /\
  nyields (run (pmach first rest) E fuel (S k) (init _) e) = S k /\
  clean (run (pmach first rest) E fuel (S k) (init _) e) = true.
Proof. exact pipeline_exact. Qed.
Print Assumptions C02_pipeline_productive.

(* ------------------------------------------------------------------ data-indexed needs: filters in pipelines *)
(* [gsafe c m A]: whenever m is about to read a counted source, having been delivered the items h and having
   yielded ys, [A h ys] holds.  Every counted read of every run, on every environment, happens at such a moment. *)
Theorem C02_bounded_data_indexed : forall (I O : Type) (c : nat -> bool) (m : machine I O) (A : list I -> list O -> Prop),
  gsafe c m A -> forall (E : env I) (fuel k : nat) (e : est E), run_ok c m A E fuel k (init m) e [] [].
Proof. exact (@gsafe_run). Qed.
Print Assumptions C02_bounded_data_indexed.

(* the data independent certificates (all the families above) are instances: A h ys := |h|+1 <= need (|ys|+1) *)
Theorem C02_data_independent_instance : forall (I O : Type) (c : nat -> bool) (m : machine I O) (n : nat -> nat),
  safe c n m -> gsafe c m (fun h ys => S (List.length h) <= n (S (List.length ys))).
Proof. exact (@safe_gsafe). Qed.
Print Assumptions C02_data_independent_instance.

(* filter: a read is allowed only while every passing item seen so far has been yielded, i.e. item |h|+1 is read
   only if the (|ys|+1)-th passing item is not among h: reads <= 1 + index of the k-th passing item, any data *)
Theorem C02_mfilter_bounded : forall (A : Type) (p : A -> bool) (c : nat -> bool),
  gsafe c (mfilter p) (fun h ys => List.length (filter p h) <= List.length ys).
Proof. exact (@mfilter_gsafe). Qed.
Print Assumptions C02_mfilter_bounded.

(* needs compose for arbitrary data-indexed A: m2 o m1 may read after (h, ys) only if, for the intermediate items
   hm that m1 produced from h, m1 may read after (h, hm) and m2 may read after (hm, ys) *)
Theorem C02_compose_reads_data_indexed : forall (I M O : Type) (m2 : machine M O) (m1 : machine I M) (c : nat -> bool)
  (A1 : list I -> list M -> Prop) (A2 : list M -> list O -> Prop),
  gsafe c m1 A1 -> gsafe every m2 A2 ->
  gsafe c (comp m2 m1) (fun h ys => exists hm, (exists s1, reach c m1 s1 h hm) /\ A1 h hm /\ A2 hm ys).
Proof. exact (@gsafe_comp). Qed.
Print Assumptions C02_compose_reads_data_indexed.

(* every pipeline of the stage table - filters at ANY position, any depth, any data, any environment *)
Theorem C02_pipeline_safe : forall (first : stage) (rest : list stage) (c : nat -> bool),
  stage_okf first -> Forall stage_okf rest -> gsafe c (pmach first rest) (pallow first rest c).
Proof. exact pmach_gsafe. Qed.
Print Assumptions C02_pipeline_safe.

(* the checker used on the implementation's traces holds for the model on every case the harness can generate:
   the first stage may be a filter (x mod m = r, r < m, on the counting sources), the later stages any admissible
   stage; the closed form need of a filter is r + (N-1)*m + 1 for the N outputs the later stages need.
   (A filter at a later position has no closed form in the source items: its bound is C02_pipeline_safe.) *)
Theorem C02_pipeline_bounded : forall (first : stage) (rest : list stage),
  stage_ok1 first -> Forall stage_ok rest ->
  forall (ds : list srcd) (k i : nat), etr_ok (only i) (pneed first rest i) 0 0 (ptrace first rest ds k) = true.
Proof. exact model_bounded_all. Qed.
Print Assumptions C02_pipeline_bounded.

(* ------------------------------------------------------------------ exact counts with horizons *)
(* [tight c need ok m]: while the sources deliver items, output j (for ok j) is yielded after exactly need j
   counted items, and m does not stop by itself before an output inside the horizon ok. *)
Theorem C02_exact_on_runs : forall (I O : Type) (c : nat -> bool) (need : nat -> nat) (ok : nat -> bool) (m : machine I O),
  tight c need ok m -> forall (E : env I) (fuel k : nat) (e : est E), run_exact c need ok m E fuel k (init m) e 0 0.
Proof. exact (@tight_run). Qed.
Print Assumptions C02_exact_on_runs.

Theorem C02_compose_reads_exact_horizon : forall (I M O : Type) (m2 : machine M O) (m1 : machine I M) (c : nat -> bool)
  (n1 n2 : nat -> nat) (ok1 ok2 : nat -> bool),
  n1 0 = 0 -> mono n2 -> (forall a b, a <= b -> ok1 b = true -> ok1 a = true) ->
  tight c n1 ok1 m1 -> tight every n2 ok2 m2 -> safe every n2 m2 ->
  tight c (fun k => n1 (n2 k)) (fun k => ok2 k && ok1 (n2 k)) (comp m2 m1).
Proof. exact (@tight_comp). Qed.
Print Assumptions C02_compose_reads_exact_horizon.

(* limit n: output k <= n costs exactly min n k = k items; it stops by itself only after n outputs *)
Theorem C02_mlimit_need : forall (A : Type) (n : nat) (c : nat -> bool), c 0 = true ->
  tight c (need_limit n) (fun k => k <=? n) (@mlimit A n).
Proof. exact (@mlimit_tight). Qed.
Print Assumptions C02_mlimit_need.

(* tee pulled along a schedule: demand k (k <= |sched|) has cost exactly the maximum over the copies of the
   number of demands addressed to them among the first k *)
Theorem C02_mtee_need : forall (A : Type) (n : nat) (sched : list nat) (c : nat -> bool),
  c 0 = true -> Forall (fun ch => ch < n) sched ->
  tight c (need_tee n sched) (fun k => k <=? List.length sched) (@mtee A n sched).
Proof. exact (@mtee_tight). Qed.
Print Assumptions C02_mtee_need.

(* Pipelines of any depth: exact composed need inside the composed horizon [pok].  Horizons of the stages ([sok]):
   unbounded for Mealy, zip, skip, pad, blocks, batched, parallel, overlap-add, resample, cycle, zcross; k <= n for
   limit n; k <= |sched| for tee; EMPTY for takewhile, chain of sources, resample with a step stream and a nat-need
   filter - these end by themselves depending on the data or on another source, so only their bounds
   (C02_*_bounded, C02_pipeline_safe) are claimed.  A filter as first stage has its exact data-indexed statement
   in C02_filter_pipeline_exact. *)
Theorem C02_pipeline_exact : forall (first : stage) (rest : list stage) (c : nat -> bool),
  c 0 = true -> stage_okx first -> Forall stage_ok rest ->
  tight c (pneedc first rest c) (pok first rest) (pmach first rest).
Proof. exact pmach_tight. Qed.
Print Assumptions C02_pipeline_exact.

(* data-indexed exactness: output j is yielded when the delivered items h satisfy X h j *)
Theorem C02_exact_data_indexed : forall (I O : Type) (c : nat -> bool) (X : list I -> nat -> Prop) (ok : nat -> bool)
  (m : machine I O), gtight c X ok m ->
  forall (E : env I) (fuel k : nat) (e : est E), run_exacth c X ok m E fuel k (init m) e [] 0.
Proof. exact (@gtight_run). Qed.
Print Assumptions C02_exact_data_indexed.

(* filter, any predicate, any data: output j is yielded exactly when the items read end with the j-th passing one *)
Theorem C02_mfilter_exact : forall (A : Type) (p : A -> bool) (c : nat -> bool), c 0 = true ->
  gtight c (ends_with_pass p) (fun _ => true) (mfilter p).
Proof. exact (@mfilter_gtight). Qed.
Print Assumptions C02_mfilter_exact.

(* filter followed by any pipeline of admissible stages: output k is yielded exactly when the items read end with
   the N(k)-th passing item, N the composed need of the later stages *)
Theorem C02_filter_pipeline_exact : forall (m r : nat) (rest : list stage), Forall stage_ok rest ->
  gtight (only 0)
    (fun h k => ends_with_pass (fun x => Nat.eqb (x mod m) r) h (fold_right (fun g k' => sneedc g every k') k rest))
    (fold_ok (fun _ => true) rest) (pmach (GFilter m r) rest).
Proof. exact filter_pipeline_exact. Qed.
Print Assumptions C02_filter_pipeline_exact.

(* ------------------------------------------------------------------ non-vacuity *)
(* the STFT pipeline of the stage table on an endless counter: 3 items for the first two samples,
   then 2 items (hop) per 2 samples - the trace observed on the real stft wrapper *)
Example C02_example_stft_trace :
  ptrace (GBlocks 3 2) [GMealy; GOla 3 2 false] [SInf] 5 =
  [ER 0; ER 0; ER 0; EY; EY; ER 0; ER 0; EY; EY; ER 0; ER 0; EY].
Proof. vm_compute. reflexivity. Qed.
Print Assumptions C02_example_stft_trace.

(* a finite source: blocks(3,2) pads, the overlap-add flushes its memory, nothing is read after the end *)
Example C02_example_finite :
  ptrace (GBlocks 3 2) [GMealy; GOla 3 2 false] [SFin 4] 9 =
  [ER 0; ER 0; ER 0; EY; EY; ER 0; EE 0; EY; EY; EY; ES].
Proof. vm_compute. reflexivity. Qed.
Print Assumptions C02_example_finite.

(* the hypotheses of the pipeline theorems are satisfiable, and endless environments exist *)
Example C02_example_tee :
  Forall (fun ch => ch < 2) [0; 0; 1; 1; 1; 0; 1] /\
  map (need_tee 2 [0; 0; 1; 1; 1; 0; 1]) [1; 2; 3; 4; 5; 6; 7] = [1; 2; 2; 2; 3; 3; 4] /\
  ptrace (GTee 2 [0; 0; 1; 1; 1; 0; 1]) [] [SInf] 7 = [ER 0; EY; ER 0; EY; EY; EY; ER 0; EY; EY; ER 0; EY].
Proof. split; [repeat constructor|vm_compute; split; reflexivity]. Qed.
Print Assumptions C02_example_tee.

(* horizons and data-indexed hypotheses are not vacuous: limit 3 then blocks(2,1) gives exactly two blocks
   (the third would need a 4th item); a filter x mod 3 = 1 followed by blocks(2,2) needs items up to 4 (the 2nd
   passing item) for its first block, and the judgement of the harness accepts that trace *)
Example C02_example_horizon :
  map (pok (GLimit 3) [GBlocks 2 1]) [1; 2; 3] = [true; true; false] /\
  map (pneed (GLimit 3) [GBlocks 2 1] 0) [1; 2] = [2; 3] /\
  stage_ok1 (GFilter 3 1) /\ Forall stage_ok [GBlocks 2 2] /\
  ptrace (GFilter 3 1) [GBlocks 2 2] [SInf] 1 = [ER 0; ER 0; ER 0; ER 0; ER 0; EY] /\
  pneed (GFilter 3 1) [GBlocks 2 2] 0 1 = 5.
Proof. vm_compute. repeat split; auto with arith. Qed.
Print Assumptions C02_example_horizon.

Example C02_example_hyps :
  stage_ok (GBlocks 3 2) /\ Forall stage_ok [GMealy; GOla 3 2 false] /\
  stage_live (GBlocks 3 2) /\ Forall stage_live [GMealy; GOla 3 2 false] /\
  endless (stream_env (fun n : nat => n)) /\
  pneed (GBlocks 3 2) [GMealy; GOla 3 2 false] 0 5 = 7.
Proof.
  repeat split; try (cbn; auto with arith); try (repeat constructor; cbn; auto with arith).
  apply stream_env_endless.
Qed.
Print Assumptions C02_example_hyps.

(* one element of read-ahead is rejected by the judgement *)
Example C02_example_readahead_rejected :
  etr_ok (only 0) need_id 0 0 [ER 0; EY; ER 0; EY] = true /\
  etr_ok (only 0) need_id 0 0 [ER 0; ER 0; EY; ER 0; EY] = false.
Proof. vm_compute. split; reflexivity. Qed.
Print Assumptions C02_example_readahead_rejected.
