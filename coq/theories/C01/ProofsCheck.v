(* C01 - the boolean checkers of Check.v against the theorems: on every well-formed expression
   case the model's observation IS the specified observation (so corr implies holds there), for
   whatever oracle table the case carries. *)
From Coq Require Import List String Bool Arith ZArith.
From AL Require Import Base.CaseLib C01.OpDefs C01.Gen_OpTable C01.Model C01.Spec C01.Check C01.Proofs.
Import ListNotations.
Open Scope string_scope.

Lemma model_expr_meets_spec_lemma (c : ecase) :
  wfb term (e_expr c) = true ->
  model_expr c =
  items_of (spec_obs term (e_cap c) (len_spec term (e_expr c))
                     (val_at term (o_opsem (e_tbl c)) (o_unsem (e_tbl c)) o_attrsem o_callsem (e_expr c))).
Proof.
  intro Hw. apply wfb_wf in Hw. unfold model_expr.
  destruct (expr_total_lemma term (o_opsem (e_tbl c)) (o_unsem (e_tbl c)) o_attrsem o_callsem _ Hw) as [s E].
  rewrite E. f_equal. apply expr_observation_lemma; assumption.
Qed.

Lemma corr_expr_holds_lemma (c : ecase) : corr_expr c = true -> holds_expr c = true.
Proof.
  unfold corr_expr, holds_expr. intro H. destruct (wfb term (e_expr c)) eqn:Hw; [|reflexivity].
  rewrite <- (model_expr_meets_spec_lemma c Hw). exact H.
Qed.

Lemma model_bin_meets_spec_lemma (c : bcase) o : spec_bin c = Some o -> model_bin c = o.
Proof.
  unfold spec_bin, model_bin. destruct (spec_lookup (b_dname c)) as [[[f r] a]|] eqn:Hl; [|discriminate].
  destruct a as [|[|[|a]]]; try (destruct r; discriminate).
  - destruct r; [discriminate|]. destruct (b_others c) as [|o1 t]; [|discriminate].
    intro H. inversion H; subst; clear H.
    destruct (un_pointwise_lemma term (o_opsem (b_tbl c)) (o_unsem (b_tbl c)) _ _ (b_self c) Hl) as [s [E [P L]]].
    rewrite E. f_equal. apply observe_sound; assumption.
  - destruct (b_others c) as [|o1 [|o2 t]] eqn:Eo; try (destruct r; discriminate).
    + destruct o1 as [|t|k]; [destruct r; discriminate| |];
      intro H; assert (H' : Some (items_of (spec_obs term (b_cap c) (bin_len term (b_self c) (nth 0 (b_others c) OIgnored))
                             (bin_at term (o_opsem (b_tbl c)) f r (b_self c) (nth 0 (b_others c) OIgnored)))) = Some o)
        by (rewrite Eo; destruct r; exact H);
      clear H; rewrite Eo in H'; simpl in H'; inversion H'; subst; clear H'.
      * destruct (bin_total_lemma term (o_opsem (b_tbl c)) (o_unsem (b_tbl c)) _ _ _ (b_self c) (OIter t) Hl) as [s E];
          [discriminate|].
        rewrite E. f_equal. apply observe_sound.
        -- apply (bin_pointwise_lemma _ _ _ _ _ _ _ _ _ Hl E).
        -- apply (bin_length_lemma _ _ _ _ _ _ _ _ _ Hl E).
      * destruct (bin_total_lemma term (o_opsem (b_tbl c)) (o_unsem (b_tbl c)) _ _ _ (b_self c) (OScalar k) Hl) as [s E];
          [discriminate|].
        rewrite E. f_equal. apply observe_sound.
        -- apply (bin_pointwise_lemma _ _ _ _ _ _ _ _ _ Hl E).
        -- apply (bin_length_lemma _ _ _ _ _ _ _ _ _ Hl E).
    + destruct o1; destruct r; discriminate.
Qed.

Lemma corr_bin_holds_lemma (c : bcase) : corr_bin c = true -> holds_bin c = true.
Proof.
  unfold corr_bin, holds_bin. intro H. destruct (spec_bin c) as [o|] eqn:E; [|reflexivity].
  rewrite <- (model_bin_meets_spec_lemma c o E). exact H.
Qed.

(* objects of the non-vacuity examples of Prop.v *)
Definition ex_x : lseq term := Inf (cyc [TVar "x" 0; TVar "x" 1; TVar "x" 2] TOpaque).   (* Stream(x0, x1, x2): endless *)
Definition ex_y : lseq term := Fin [TVar "y" 0; TVar "y" 1; TVar "y" 2; TVar "y" 3].
(* 2 * x + y *)
Definition ex_expr : sexpr term := Bin "__add__" (BinS "__rmul__" (Leaf ex_x) (TCst 2%Z)) (Leaf ex_y).
