(* C01 - record types and string helpers shared by the generated table (Gen_OpTable.v)
   and the hand-written model.  No proofs in this file. *)
From Coq Require Import List String Bool Arith.
Import ListNotations.
Open Scope string_scope.

(* one OpMethod instance: the six attributes set by OpMethod._insert;
   op_func is the NAME looked up in the operator module ("__add__") *)
Record opentry := mk_op {
  op_name : string; op_symbol : string; op_rev : bool;
  op_dname : string; op_arity : nat; op_func : string }.

(* Python s[n:] on strings *)
Fixpoint sdrop (n : nat) (s : string) : string :=
  match n, s with
  | O, _ => s
  | S n', EmptyString => EmptyString
  | S n', String _ r => sdrop n' r
  end.

(* one elementwise(name, pos)(target) wrapper: exported function name, keyword name,
   position (None = keyword only), description of the wrapped object *)
Record wrapper := mk_wrapper {
  w_fname : string; w_name : string; w_pos : option nat; w_target : string }.

(* undecorated delegating one-liners *)
Inductive derived :=
| DApply (fname g : string) (consts : list nat)      (* def f(x): return g(x, c1, ...) *)
| DCompose (fname g h : string).                     (* def f(x): return g(h(x)) *)

Definition opentry_eqb (a b : opentry) : bool :=
  String.eqb (op_name a) (op_name b) && String.eqb (op_symbol a) (op_symbol b) &&
  Bool.eqb (op_rev a) (op_rev b) && String.eqb (op_dname a) (op_dname b) &&
  Nat.eqb (op_arity a) (op_arity b) && String.eqb (op_func a) (op_func b).

Fixpoint str_nodup (l : list string) : bool :=
  match l with
  | [] => true
  | x :: r => negb (existsb (String.eqb x) r) && str_nodup r
  end.

Definition str_mem (x : string) (l : list string) : bool := existsb (String.eqb x) l.
