(* C01 - Stream operators and broadcast functions act element by element.
   A, opsem, unsem, attrsem, callsem, f are universally quantified: the theorems hold for every
   element type and every meaning of Python's element-level operators (the oracle).
   lseq A = Fin (list A) | Inf (nat -> A): finite and endless iterables. *)
From Coq Require Import List String Bool Arith ZArith.
From AL Require Import Base.CaseLib C01.OpDefs C01.Gen_OpTable C01.Model C01.Spec C01.Check C01.Proofs C01.ProofsCheck.
Import ListNotations.
Open Scope string_scope.

(* The table regenerated from OpMethod._initialize/_insert and the dispatch dictionary of
   AbstractOperatorOverloaderMeta.__new__: 35 pairwise-distinct dunders; each has the intended
   operator function, reflected flag and arity (rshift is not reflected; rrshift, ror, rand, rxor,
   rpow, rmod, rmatmul ... use the plain function with swapped arguments), is built by the template
   of its shape, is not overridden in class Stream; every intended dunder is present; all operators
   are selected and none excluded. *)
Theorem C01_optable_complete :
  List.length gen_optable = 35 /\
  NoDup (map op_dname gen_optable) /\
  (forall e, In e gen_optable ->
     spec_lookup (op_dname e) = Some (op_func e, op_rev e, op_arity e) /\
     builder_of e = spec_builder (op_rev e) (op_arity e) /\
     ~ In (op_dname e) gen_stream_namespace) /\
  (forall d v, spec_lookup d = Some v -> exists e, In e gen_optable /\ op_dname e = d) /\
  gen_operators = "all" /\ gen_without = None.
Proof. exact optable_complete_lemma. Qed.
Print Assumptions C01_optable_complete.

(* Each installed dunder is the template of its shape applied to its operator function ... *)
Theorem C01_dunder_is_template :
  forall A (opsem : string -> A -> A -> A) (unsem : string -> A -> A) d f r a self others,
  spec_lookup d = Some (f, r, a) ->
  dunder_model A opsem unsem d self others =
    match r, a with
    | false, 1 => match others with [] => unary_tpl A unsem f self | _ => DTypeError end
    | false, 2 => match others with [o] => binary_tpl A opsem f self o | _ => DTypeError end
    | true, 2 => match others with [o] => rbinary_tpl A opsem f self o | _ => DTypeError end
    | _, _ => DNoAttr
    end.
Proof. exact dunder_char. Qed.
Print Assumptions C01_dunder_is_template.

(* ... and no other operator dunder exists on Stream. *)
Theorem C01_no_other_dunder :
  forall A (opsem : string -> A -> A -> A) (unsem : string -> A -> A) d self others,
  spec_lookup d = None -> dunder_model A opsem unsem d self others = DNoAttr.
Proof. exact dunder_unknown. Qed.
Print Assumptions C01_no_other_dunder.

(* Binary and reflected operators: the i-th output is the operator applied to the i-th elements
   (stream element first, unless reflected); a non-iterable operand is repeated at every position. *)
Theorem C01_bin_pointwise :
  forall A (opsem : string -> A -> A -> A) (unsem : string -> A -> A) d f r self o s,
  spec_lookup d = Some (f, r, 2) -> dunder_model A opsem unsem d self [o] = DStream s ->
  forall i, lnth s i =
    match lnth self i, operand_at A o i with
    | Some a, Some b => Some (if r then opsem f b a else opsem f a b)
    | _, _ => None
    end.
Proof. exact bin_pointwise_lemma. Qed.
Print Assumptions C01_bin_pointwise.

(* The result ends exactly when the shortest iterable operand ends (omin: None = endless); a
   non-iterable operand never bounds it, an endless operand is cut by a finite one. *)
Theorem C01_bin_length :
  forall A (opsem : string -> A -> A -> A) (unsem : string -> A -> A) d f r self o s,
  spec_lookup d = Some (f, r, 2) -> dunder_model A opsem unsem d self [o] = DStream s ->
  llen s = omin (llen self) (match o with OIter t => llen t | _ => None end).
Proof. exact bin_length_lemma. Qed.
Print Assumptions C01_bin_length.

(* Every binary dunder accepts every operand that is not an instance of an ignored class. *)
Theorem C01_bin_total :
  forall A (opsem : string -> A -> A -> A) (unsem : string -> A -> A) d f r self o,
  spec_lookup d = Some (f, r, 2) -> o <> OIgnored -> exists s, dunder_model A opsem unsem d self [o] = DStream s.
Proof. exact bin_total_lemma. Qed.
Print Assumptions C01_bin_total.

(* Unary operators. *)
Theorem C01_un_pointwise :
  forall A (opsem : string -> A -> A -> A) (unsem : string -> A -> A) d f self,
  spec_lookup d = Some (f, false, 1) ->
  exists s, dunder_model A opsem unsem d self [] = DStream s /\
            (forall i, lnth s i = option_map (unsem f) (lnth self i)) /\ llen s = llen self.
Proof. exact un_pointwise_lemma. Qed.
Print Assumptions C01_un_pointwise.

(* Arbitrarily nested expressions (no bound on the depth): a tree evaluates to a Stream exactly when
   it is well-formed (only the 35 dunders, each with its number of operands, no "__next__" attribute), ... *)
Theorem C01_expr_total :
  forall A opsem unsem attrsem callsem (e : sexpr A),
  wf A e <-> exists s, eval A opsem unsem attrsem callsem e = Some s.
Proof. exact eval_iff_wf. Qed.
Print Assumptions C01_expr_total.

(* ... its i-th element is the pointwise interpreter's value at i (which only reads the i-th
   elements of the leaves and the repeated scalars), ... *)
Theorem C01_expr_pointwise :
  forall A opsem unsem attrsem callsem (e : sexpr A) s,
  wf A e -> eval A opsem unsem attrsem callsem e = Some s ->
  forall i, lnth s i = val_at A opsem unsem attrsem callsem e i.
Proof. exact expr_pointwise_lemma. Qed.
Print Assumptions C01_expr_pointwise.

(* ... and it is exactly as long as its shortest iterable operand: *)
Theorem C01_expr_length :
  forall A opsem unsem attrsem callsem (e : sexpr A) s,
  wf A e -> eval A opsem unsem attrsem callsem e = Some s ->
  llen s = fold_right omin None (map llen (leaves A e)).
Proof. exact expr_length_lemma. Qed.
Print Assumptions C01_expr_length.

(* the same without omin: endless iff every iterable operand is endless; otherwise its length is
   attained by one iterable operand and is below the length of every finite one. *)
Theorem C01_expr_length_shortest :
  forall A opsem unsem attrsem callsem (e : sexpr A) s,
  wf A e -> eval A opsem unsem attrsem callsem e = Some s ->
  match llen s with
  | None => forall t, In t (leaves A e) -> llen t = None
  | Some m => (exists t, In t (leaves A e) /\ llen t = Some m) /\
              (forall t n, In t (leaves A e) -> llen t = Some n -> m <= n)
  end.
Proof. exact expr_length_shortest_lemma. Qed.
Print Assumptions C01_expr_length_shortest.

(* What list(islice(expr, cap)) shows is what the index-wise specification shows, for every cap. *)
Theorem C01_expr_observation :
  forall A opsem unsem attrsem callsem (e : sexpr A) s cap,
  wf A e -> eval A opsem unsem attrsem callsem e = Some s ->
  observe A cap s = spec_obs A cap (len_spec A e) (val_at A opsem unsem attrsem callsem e).
Proof. exact expr_observation_lemma. Qed.
Print Assumptions C01_expr_observation.

(* Stream.__getattr__, Stream.__call__ (on the stream of attributes) and abs() are element-wise
   and keep the length. *)
Theorem C01_getattr_call_pointwise :
  forall A (unsem : string -> A -> A) (attrsem : string -> A -> A)
         (callsem : A -> list A -> list (string * A) -> A) name args kw (s : lseq A),
  name <> "__next__" ->
  exists r, getattr_model A attrsem name s = Some r /\
            (forall i, lnth r i = option_map (attrsem name) (lnth s i)) /\ llen r = llen s /\
            (forall i, lnth (call_model A callsem r args kw) i
                       = option_map (fun a => callsem (attrsem name a) args kw) (lnth s i)) /\
            llen (call_model A callsem r args kw) = llen s /\
            (forall i, lnth (abs_model A unsem s) i = option_map (unsem "abs") (lnth s i)) /\
            llen (abs_model A unsem s) = llen s.
Proof. exact getattr_call_lemma. Qed.
Print Assumptions C01_getattr_call_pointwise.

(* elementwise: a broadcasting function returns the same kind of container it was given
   (list, tuple, deque, set, frozenset, Stream; a generator for generator, range, map, zip, filter,
   enumerate, zip_longest; a Stream for a subclass of Stream).  kw is a dictionary (distinct keys);
   eagerly built kinds need a finite input. *)
Theorem C01_elementwise_kind :
  forall A eqA (f : list (pyval A) -> list (string * pyval A) -> A) name pos args kw k vals,
  NoDup (map fst kw) ->
  spec_primary A name pos args kw = Some (PCont k vals) ->
  (is_eager k = true -> exists l, vals = Fin l) ->
  exists data, ew_model A eqA f name pos args kw = EVal (PCont (spec_kind k) data).
Proof. exact elementwise_kind_lemma. Qed.
Print Assumptions C01_elementwise_kind.

(* scalar in, scalar out; a string is a scalar *)
Theorem C01_elementwise_scalar :
  forall A eqA (f : list (pyval A) -> list (string * pyval A) -> A) name pos args kw a,
  NoDup (map fst kw) ->
  spec_primary A name pos args kw = Some (PScalar a) \/ spec_primary A name pos args kw = Some (PStr a) ->
  ew_model A eqA f name pos args kw = EVal (PScalar (f args kw)).
Proof. exact elementwise_scalar_lemma. Qed.
Print Assumptions C01_elementwise_scalar.

(* i-th value out = the function of the i-th value in, every secondary argument unchanged; same length *)
Theorem C01_elementwise_values :
  forall A eqA (f : list (pyval A) -> list (string * pyval A) -> A) name pos args kw k vals k' data,
  NoDup (map fst kw) ->
  spec_primary A name pos args kw = Some (PCont k vals) ->
  is_setlike k = false ->
  ew_model A eqA f name pos args kw = EVal (PCont k' data) ->
  k' = spec_kind k /\
  (forall i, lnth data i = option_map (spec_call A f name pos args kw) (lnth vals i)) /\
  llen data = llen vals.
Proof. exact elementwise_values_lemma. Qed.
Print Assumptions C01_elementwise_values.

(* sets: the result is the set of the function's values *)
Theorem C01_elementwise_set_values :
  forall A eqA (f : list (pyval A) -> list (string * pyval A) -> A),
  (forall x y, eqA x y = true <-> x = y) ->
  forall name pos args kw k l k' data,
  NoDup (map fst kw) ->
  spec_primary A name pos args kw = Some (PCont k (Fin l)) ->
  is_setlike k = true ->
  ew_model A eqA f name pos args kw = EVal (PCont k' data) ->
  k' = k /\ exists l', data = Fin l' /\ NoDup l' /\
  forall y, In y l' <-> exists x, In x l /\ y = spec_call A f name pos args kw x.
Proof. exact elementwise_set_lemma. Qed.
Print Assumptions C01_elementwise_set_values.

(* Every name of the regenerated _math_names and the 13 other broadcast functions is wrapped by
   elementwise(<non-empty keyword>, 0): the first positional argument (or that keyword) is broadcast. *)
Theorem C01_math_wrappers_covered :
  (forall n, In n (gen_math_names ++ spec_extra_wrapped)%list ->
     exists w, In w gen_wrappers /\ w_fname w = n /\ w_pos w = Some 0 /\ w_name w <> "") /\
  (forall w, In w gen_wrappers -> w_pos w = Some 0 /\ w_name w <> "") /\
  NoDup (map w_fname gen_wrappers).
Proof. exact math_wrappers_covered_lemma. Qed.
Print Assumptions C01_math_wrappers_covered.

(* The checkers used on the generated cases: whenever an observation equals the model's output it
   also equals the specified output (expressions with existing dunders; one-dunder calls the text covers). *)
Theorem C01_corr_expr_implies_holds : forall c : ecase, corr_expr c = true -> holds_expr c = true.
Proof. exact corr_expr_holds_lemma. Qed.
Print Assumptions C01_corr_expr_implies_holds.

Theorem C01_corr_bin_implies_holds : forall c : bcase, corr_bin c = true -> holds_bin c = true.
Proof. exact corr_bin_holds_lemma. Qed.
Print Assumptions C01_corr_bin_implies_holds.

(* ------------------------------------------------------------------ non-vacuity *)
(* ex_expr (ProofsCheck.v) is 2 * x + y with x = Stream(x0, x1, x2) (endless) and y = Stream([y0, y1, y2, y3]) *)

Example C01_example_wf : wf term ex_expr.
Proof. simpl. repeat split; repeat eexists. Qed.
Print Assumptions C01_example_wf.

(* the endless operand is cut by the finite one; the scalar 2 is repeated; 2 is the LEFT factor *)
Example C01_example_eval :
  option_map (observe term 8) (eval term (o_opsem []) (o_unsem []) o_attrsem o_callsem ex_expr) =
  Some ([TOp2 "__add__" (TOp2 "__mul__" (TCst 2%Z) (TVar "x" 0)) (TVar "y" 0);
         TOp2 "__add__" (TOp2 "__mul__" (TCst 2%Z) (TVar "x" 1)) (TVar "y" 1);
         TOp2 "__add__" (TOp2 "__mul__" (TCst 2%Z) (TVar "x" 2)) (TVar "y" 2);
         TOp2 "__add__" (TOp2 "__mul__" (TCst 2%Z) (TVar "x" 0)) (TVar "y" 3)], true).
Proof. vm_compute. reflexivity. Qed.
Print Assumptions C01_example_eval.

(* elementwise("x", 0)(f)((e0, e1), b): a tuple of f(e0, b), f(e1, b) *)
Example C01_example_elementwise :
  ew_model term term_eqb (o_func [] "f") "x" (Some 0)
           [PCont KTuple (Fin [TVar "e" 0; TVar "e" 1]); PScalar (TVar "b" 0)] [] =
  EVal (PCont KTuple (Fin [TCall (TVar "f" 0) [TVar "e" 0; TVar "b" 0] [] [];
                           TCall (TVar "f" 0) [TVar "e" 1; TVar "b" 0] [] []])).
Proof. vm_compute. reflexivity. Qed.
Print Assumptions C01_example_elementwise.

(* the hypotheses of the elementwise theorems are satisfiable: a range given by keyword *)
Example C01_example_primary :
  spec_primary term "x" (Some 0) [] [("x", PCont KRange (Fin [TCst 0%Z; TCst 1%Z]))] = Some (PCont KRange (Fin [TCst 0%Z; TCst 1%Z]))
  /\ NoDup (map fst [("x", PCont KRange (Fin [TCst 0%Z; TCst 1%Z]))])
  /\ spec_kind KRange = KGen.
Proof. split; [reflexivity|split; [repeat constructor; intros []|reflexivity]]. Qed.
Print Assumptions C01_example_primary.

(* A broadcasting function applied to a Stream (or a subclass) in its broadcast position gives the
   Stream of the function's values with the other arguments fixed; this is the FunE node of the
   expression trees, so the expr_* theorems cover operators and broadcast functions nested in any order. *)
Theorem C01_elementwise_on_stream :
  forall A eqA (f : list (pyval A) -> list (string * pyval A) -> A) name before s after kw k,
  is_streamcls k = true ->
  ew_model A eqA f name (Some (List.length before)) (before ++ PCont k s :: after)%list kw
  = EVal (PCont KStream (lmap (fun x => f (before ++ PScalar x :: after)%list kw) s)).
Proof. exact ew_on_stream. Qed.
Print Assumptions C01_elementwise_on_stream.
