(* C01 - live operands: expressions over Python LISTS that are mutated (append / extend / truncate /
   setitem) after the expression was built and between two pulls.  The operators read their operands
   lazily, position by position, through iter(list): a list iterator keeps an index, sees items appended
   later, and is exhausted FOR GOOD the first time its index is not below the current length.
   map(f, it1, it2) asks it1 first and does not ask it2 when it1 is exhausted.
   Pull machine over a heap of list cells; no proofs in this file. *)
From Coq Require Import List String Bool Arith.
From AL Require Import C01.OpDefs C01.Gen_OpTable C01.Model.
Import ListNotations.
Open Scope string_scope.

Section Live.
Variable A : Type.
Variable opsem : string -> A -> A -> A.
Variable unsem : string -> A -> A.
(* which template built a dunder and around which operator function: the model instantiates it with
   the regenerated table (dunder_shape below), the specification with the intended one *)
Variable dunder_shape : string -> option (string * string).

Definition heap := list (list A).
Definition cell_get (h : heap) (c : nat) : list A := nth c h [].
Fixpoint cell_set (h : heap) (c : nat) (l : list A) : heap :=
  match h, c with
  | [], _ => []
  | _ :: r, O => l :: r
  | x :: r, S c' => x :: cell_set r c' l
  end.

(* expressions with the state of every list iterator inside *)
Inductive lexpr :=
| LLeaf (cell idx : nat) (dead : bool)                       (* Stream(cell): holds iter(list) *)
| LUn (d : string) (e : lexpr)
| LBin (d : string) (e o : lexpr)                            (* other is a Stream expression *)
| LBinL (d : string) (e : lexpr) (cell idx : nat) (dead : bool)   (* other is the list itself: iter(other) when built *)
| LBinS (d : string) (e : lexpr) (c : A).

(* next() of a list iterator *)
Definition pull_list (h : heap) (cell idx : nat) (dead : bool) : option A * nat * bool :=
  if dead then (None, idx, true)
  else match nth_error (cell_get h cell) idx with
       | Some a => (Some a, S idx, false)
       | None => (None, idx, true)
       end.


(* next() of the Stream an expression denotes; the expression with its iterators advanced *)
Fixpoint pull (h : heap) (e : lexpr) : option A * lexpr :=
  match e with
  | LLeaf c i dd => let '(r, i', d') := pull_list h c i dd in (r, LLeaf c i' d')
  | LUn d e1 =>
    let '(r, e1') := pull h e1 in
    (match dunder_shape d, r with
     | Some (f, b), Some a => if String.eqb b "__unary__" then Some (unsem f a) else None
     | _, _ => None
     end, LUn d e1')
  | LBinS d e1 c =>
    let '(r, e1') := pull h e1 in
    (match dunder_shape d, r with
     | Some (f, b), Some a =>
       if String.eqb b "__binary__" then Some (opsem f a c)
       else if String.eqb b "__rbinary__" then Some (opsem f c a) else None
     | _, _ => None
     end, LBinS d e1' c)
  | LBin d e1 e2 =>
    match dunder_shape d with
    | Some (f, b) =>
      if String.eqb b "__binary__" then          (* map(f, iter(self), iter(other)) *)
        let '(r1, e1') := pull h e1 in
        match r1 with
        | None => (None, LBin d e1' e2)
        | Some a => let '(r2, e2') := pull h e2 in
                    (match r2 with Some x => Some (opsem f a x) | None => None end, LBin d e1' e2')
        end
      else if String.eqb b "__rbinary__" then    (* map(f, iter(other), iter(self)) *)
        let '(r2, e2') := pull h e2 in
        match r2 with
        | None => (None, LBin d e1 e2')
        | Some x => let '(r1, e1') := pull h e1 in
                    (match r1 with Some a => Some (opsem f x a) | None => None end, LBin d e1' e2')
        end
      else (None, e)
    | None => (None, e)
    end
  | LBinL d e1 c i dd =>
    match dunder_shape d with
    | Some (f, b) =>
      if String.eqb b "__binary__" then
        let '(r1, e1') := pull h e1 in
        match r1 with
        | None => (None, LBinL d e1' c i dd)
        | Some a => let '(r2, i', d') := pull_list h c i dd in
                    (match r2 with Some x => Some (opsem f a x) | None => None end, LBinL d e1' c i' d')
        end
      else if String.eqb b "__rbinary__" then
        let '(r2, i', d') := pull_list h c i dd in
        match r2 with
        | None => (None, LBinL d e1 c i' d')
        | Some x => let '(r1, e1') := pull h e1 in
                    (match r1 with Some a => Some (opsem f x a) | None => None end, LBinL d e1' c i' d')
        end
      else (None, e)
    | None => (None, e)
    end
  end.

(* what the caller does between construction and the end of consumption *)
Inductive event :=
| EPull
| EExtend (cell : nat) (items : list A)        (* append / extend *)
| ETrunc (cell : nat) (k : nat)                (* del l[k:] *)
| ESet (cell : nat) (i : nat) (x : A).         (* l[i] = x *)

Fixpoint set_nth (l : list A) (i : nat) (x : A) : list A :=
  match l, i with
  | [], _ => []
  | _ :: r, O => x :: r
  | y :: r, S i' => y :: set_nth r i' x
  end.

(* the outputs of the pulls, in order: Some v, or None for StopIteration *)
Fixpoint run_events (h : heap) (e : lexpr) (evs : list event) : list (option A) :=
  match evs with
  | [] => []
  | EPull :: r => let '(o, e') := pull h e in o :: run_events h e' r
  | EExtend c items :: r => run_events (cell_set h c (cell_get h c ++ items)) e r
  | ETrunc c k :: r => run_events (cell_set h c (firstn k (cell_get h c))) e r
  | ESet c i x :: r => run_events (cell_set h c (set_nth (cell_get h c) i x)) e r
  end.
End Live.

(* (operator function, builder name) from the regenerated table and dispatch dictionary *)
Definition gen_shape (d : string) : option (string * string) :=
  match find_op d with
  | None => None
  | Some e => if str_mem d gen_stream_namespace then None
              else match builder_of e with Some b => Some (op_func e, b) | None => None end
  end.

Arguments LLeaf {A} cell idx dead.
Arguments LUn {A} d e.
Arguments LBin {A} d e o.
Arguments LBinL {A} d e cell idx dead.
Arguments LBinS {A} d e c.
Arguments EPull {A}.
Arguments EExtend {A} cell items.
Arguments ETrunc {A} cell k.
Arguments ESet {A} cell i x.
