(* C01 - symbolic element type (free term algebra), case records and the boolean checkers
   evaluated by vm_compute on every generated case:
     corr_* : implementation's observation = model's output
     holds_*: implementation's observation = what the index-wise specification demands. *)
From Coq Require Import List String Bool Arith ZArith.
From AL Require Import Base.CaseLib C01.OpDefs C01.Gen_OpTable C01.Model C01.Spec.
Import ListNotations.
Open Scope string_scope.

(* ------------------------------------------------------------------ terms *)
Inductive term :=
| TVar (s : string) (i : nat)            (* i-th symbolic element of source s *)
| TCst (z : Z)                           (* a Python int *)
| TLit (s : string)                      (* a concrete value in canonical text form *)
| TOp2 (f : string) (a b : term)         (* operator.f(a, b) *)
| TOp1 (f : string) (a : term)           (* operator.f(a), abs(a) *)
| TAttr (n : string) (a : term)          (* getattr(a, n) *)
| TCall (f : term) (args : list term) (kwn : list string) (kwv : list term)   (* f(args, kwn=kwv) *)
| TOpaque.                               (* something that is not an element *)

Fixpoint term_eqb (a b : term) : bool :=
  match a, b with
  | TVar s i, TVar s' i' => String.eqb s s' && Nat.eqb i i'
  | TCst z, TCst z' => Z.eqb z z'
  | TLit s, TLit s' => String.eqb s s'
  | TOp2 f x y, TOp2 f' x' y' => String.eqb f f' && term_eqb x x' && term_eqb y y'
  | TOp1 f x, TOp1 f' x' => String.eqb f f' && term_eqb x x'
  | TAttr n x, TAttr n' x' => String.eqb n n' && term_eqb x x'
  | TCall f l kn kv, TCall f' l' kn' kv' =>
    term_eqb f f' &&
    (fix go (u v : list term) : bool :=
       match u, v with
       | [], [] => true
       | x :: r, y :: r' => term_eqb x y && go r r'
       | _, _ => false
       end) l l' &&
    list_eqb String.eqb kn kn' &&
    (fix go (u v : list term) : bool :=
       match u, v with
       | [], [] => true
       | x :: r, y :: r' => term_eqb x y && go r r'
       | _, _ => false
       end) kv kv'
  | TOpaque, TOpaque => true
  | _, _ => false
  end.

(* ------------------------------------------------------------------ oracles *)
(* tbl maps an application term to its value; used for concrete elements (the harness fills it
   with operator.* / math.* applied by itself); on symbolic elements the table is empty and an
   application stays a term *)
Definition tbl_t := list (term * term).
Fixpoint tlookup (t : term) (tbl : tbl_t) : option term :=
  match tbl with
  | [] => None
  | (k, v) :: r => if term_eqb k t then Some v else tlookup t r
  end.
Definition via (tbl : tbl_t) (t : term) : term :=
  match tlookup t tbl with Some r => r | None => t end.

(* the symbolic elements of source "boom" raise ZeroDivisionError in every operator (class Boom of
   harness/C01_sym.py); an element operation that raises is the literal "raise:<Exception>" *)
Definition is_boom (t : term) : bool :=
  match t with TVar s _ => String.eqb s "boom" | _ => false end.
Definition o_opsem (tbl : tbl_t) (f : string) (a b : term) : term :=
  if is_boom a || is_boom b then TLit "raise:ZeroDivisionError" else via tbl (TOp2 f a b).
Definition o_unsem (tbl : tbl_t) (f : string) (a : term) : term :=
  if is_boom a then TLit "raise:ZeroDivisionError" else via tbl (TOp1 f a).
Definition o_attrsem (n : string) (a : term) : term := TAttr n a.
Definition o_callsem (a : term) (args : list term) (kw : list (string * term)) : term :=
  TCall a args (map fst kw) (map snd kw).

(* how a function sees an argument: elements as themselves, a tuple as the tuple of its items,
   any other container as an opaque object *)
Definition pv_term (v : pyval term) : term :=
  match v with
  | PScalar a => a
  | PStr a => a
  | PCont KTuple (Fin l) => TCall (TVar "tuple" 0) l [] []
  | PCont _ _ => TOpaque
  end.
(* ------------------------------------------------------------------ observations of a stream *)
(* an element operation that raises is tabulated as TLit "raise:<Exception>"; iteration
   stops there with that exception *)
Definition is_raise (t : term) : option string :=
  match t with
  | TLit s => if String.prefix "raise:" s then Some s else None
  | _ => None
  end.
Fixpoint first_raise (l : list term) : option string :=
  match l with
  | [] => None
  | t :: r => match is_raise t with Some e => Some e | None => first_raise r end
  end.

(* the decorated function applied to its arguments; an argument whose own computation raised
   (composition of two wrappers over a lazy container) passes the exception on *)
Definition o_func (tbl : tbl_t) (fname : string) (args : list (pyval term))
           (kw : list (string * pyval term)) : term :=
  let a := map pv_term args in
  let kv := map (fun kv => pv_term (snd kv)) kw in
  match first_raise (a ++ kv) with
  | Some e => TLit e
  | None => via tbl (TCall (TVar fname 0) a (map fst kw) kv)
  end.

Fixpoint scan (l : list term) : list term * option string :=
  match l with
  | [] => ([], None)
  | t :: r =>
    match is_raise t with
    | Some e => ([], Some e)
    | None => let '(p, st) := scan r in (t :: p, st)
    end
  end.
(* items seen by list(islice(it, cap)) and how it finished: "ended" (StopIteration before cap items),
   "more" (cap items delivered) or "raise:<Exception>" *)
Definition finish (o : list term * bool) : list term * string :=
  let '(p, e) := scan (fst o) in
  (p, match e with Some x => x | None => if snd o then "ended" else "more" end).

Inductive sobs :=
| SNotImpl                                   (* the dunder returned NotImplemented *)
| SItems (l : list term) (st : string)       (* a Stream: items and finish *)
| SRaise (e : string).                       (* the call itself raised *)

Definition sobs_eqb (a b : sobs) : bool :=
  match a, b with
  | SNotImpl, SNotImpl => true
  | SItems l s, SItems l' s' => list_eqb term_eqb l l' && String.eqb s s'
  | SRaise e, SRaise e' => String.eqb e e'
  | _, _ => false
  end.

(* a Stream built by an operator is a map object: an exception raised for the elements of one position
   is what next() raises at THAT position, and the following positions are still delivered.  The
   observer catches it, records TLit "raise:<Exception>" in its place and keeps pulling: the i-th
   observation is the operator applied to the i-th elements, or the exception it raises. *)
Definition items_of (o : list term * bool) : sobs :=
  SItems (fst o) (if snd o then "ended" else "more").

(* ------------------------------------------------------------------ family bin: one dunder call *)
Record bcase := BC {
  b_dname : string; b_self : lseq term; b_others : list (operand term);
  b_tbl : tbl_t; b_cap : nat; b_obs : sobs }.

Definition model_bin (c : bcase) : sobs :=
  match dunder_model term (o_opsem (b_tbl c)) (o_unsem (b_tbl c)) (b_dname c) (b_self c) (b_others c) with
  | DNotImplemented => SNotImpl
  | DStream s => items_of (observe term (b_cap c) s)
  | DNoAttr => SRaise "AttributeError"
  | DTypeError => SRaise "TypeError"
  end.
Definition corr_bin (c : bcase) : bool := sobs_eqb (b_obs c) (model_bin c).

(* what the property text demands; it is silent about ignored classes, unknown dunders and
   wrong argument counts *)
Definition spec_bin (c : bcase) : option sobs :=
  match spec_lookup (b_dname c), b_others c with
  | Some (f, false, 1), [] =>
    Some (items_of (spec_obs term (b_cap c) (llen (b_self c))
                             (fun i => option_map (o_unsem (b_tbl c) f) (lnth (b_self c) i))))
  | Some (_, _, 2), [OIgnored] => None
  | Some (f, r, 2), [o] =>
    Some (items_of (spec_obs term (b_cap c) (bin_len term (b_self c) o)
                             (bin_at term (o_opsem (b_tbl c)) f r (b_self c) o)))
  | _, _ => None
  end.
Definition holds_bin (c : bcase) : bool :=
  match spec_bin c with Some o => sobs_eqb (b_obs c) o | None => true end.

(* ------------------------------------------------------------------ family expr: expression trees *)
Record ecase := EC { e_expr : sexpr term; e_tbl : tbl_t; e_cap : nat; e_obs : sobs }.

Definition model_expr (c : ecase) : sobs :=
  match eval term (o_opsem (e_tbl c)) (o_unsem (e_tbl c)) o_attrsem o_callsem (e_expr c) with
  | Some s => items_of (observe term (e_cap c) s)
  | None => SRaise "AttributeError"
  end.
Definition corr_expr (c : ecase) : bool := sobs_eqb (e_obs c) (model_expr c).
Definition holds_expr (c : ecase) : bool :=
  if wfb term (e_expr c) then
    sobs_eqb (e_obs c)
      (items_of (spec_obs term (e_cap c) (len_spec term (e_expr c))
                          (val_at term (o_opsem (e_tbl c)) (o_unsem (e_tbl c)) o_attrsem o_callsem (e_expr c))))
  else true.

(* ------------------------------------------------------------------ family ew / math: broadcasting *)
Inductive wobs :=
| WScalar (t : term)
| WCont (k : ckind) (items : list term) (st : string) (lazy_ok : bool)
| WRaise (e : string).

Fixpoint subset_b (l1 l2 : list term) : bool :=
  match l1 with [] => true | x :: r => existsb (term_eqb x) l2 && subset_b r l2 end.
Fixpoint nodup_b (l : list term) : bool :=
  match l with [] => true | x :: r => negb (existsb (term_eqb x) r) && nodup_b r end.

(* lazy results must have consumed nothing before iteration and one source item per output *)
Definition wobs_eqb (o : wobs) (m : wobs) : bool :=
  match o, m with
  | WScalar t, WScalar t' => term_eqb t t'
  | WCont k l st lz, WCont k' l' st' _ =>
    ckind_eqb k k' && String.eqb st st' &&
    (if is_setlike k then subset_b l l' && subset_b l' l && nodup_b l && Nat.eqb (List.length l) (List.length l')
     else list_eqb term_eqb l l') &&
    (if is_eager k then true else lz)
  | WRaise e, WRaise e' => String.eqb e e'
  | _, _ => false
  end.

(* an eagerly built container whose construction meets a raising element: the call raises *)
Definition wcont (k : ckind) (p : list term) (st : string) : wobs :=
  if is_eager k && String.prefix "raise:" st then WRaise (sdrop 6 st) else WCont k p st true.

(* scalar in, scalar out; if the function raises on it, so does the call *)
Definition wscalar (t : term) : wobs :=
  match is_raise t with Some e => WRaise (sdrop 6 e) | None => WScalar t end.

Definition wobs_of (cap : nat) (r : ewres term) : wobs :=
  match r with
  | ERaise e => WRaise e
  | EVal (PCont k vals) => let '(p, st) := finish (observe term cap vals) in wcont k p st
  | EVal v => wscalar (pv_term v)
  end.

Record wcase := WC {
  w_ename : string; w_epos : option nat; w_fn : string;
  w_args : list (pyval term); w_kw : list (string * pyval term);
  w_tbl : tbl_t; w_cap : nat; w_obs : wobs }.

Definition model_ew (c : wcase) : wobs :=
  wobs_of (w_cap c) (ew_model term term_eqb (o_func (w_tbl c) (w_fn c)) (w_ename c) (w_epos c) (w_args c) (w_kw c)).
Definition corr_ew (c : wcase) : bool := wobs_eqb (w_obs c) (model_ew c).

Definition dedup_t := dedup term term_eqb.
(* the specification: kind preserved, i-th value = function of the i-th value, the other arguments unchanged *)
Definition spec_ew_with (ename : string) (epos : option nat) (fn : string) (tbl : tbl_t) (cap : nat)
           (args : list (pyval term)) (kw : list (string * pyval term)) : option wobs :=
  match spec_primary term ename epos args kw with
  | None => None                                 (* no broadcast argument given: not covered by the text *)
  | Some (PCont k vals) =>
    if is_eager k && (match vals with Inf _ => true | Fin _ => false end) then None else
    let call := spec_call term (o_func tbl fn) ename epos args kw in
    let '(p, st) := finish (spec_obs term cap (llen vals) (fun i => option_map call (lnth vals i))) in
    Some (wcont (spec_kind k) (if is_setlike k then dedup_t p else p) st)
  | Some _ => Some (wscalar (o_func tbl fn args kw))
  end.
Definition holds_ew (c : wcase) : bool :=
  match spec_ew_with (w_ename c) (w_epos c) (w_fn c) (w_tbl c) (w_cap c) (w_args c) (w_kw c) with
  | Some o => wobs_eqb (w_obs c) o
  | None => true
  end.

(* the math / dB / MIDI functions: the (name, pos) pair comes from the regenerated wrapper table *)
Record mcase := MC {
  m_fname : string; m_args : list (pyval term); m_kw : list (string * pyval term);
  m_tbl : tbl_t; m_cap : nat; m_obs : wobs }.

Definition find_wrapper (n : string) : option wrapper :=
  find (fun w => String.eqb (w_fname w) n) (rev gen_wrappers).   (* a later definition rebinds the name *)
Definition resolve_alias (n : string) : string :=
  match find (fun a => String.eqb (fst a) n) (rev gen_aliases) with Some a => snd a | None => n end.
Definition derived_name (d : derived) : string :=
  match d with DApply n _ _ => n | DCompose n _ _ => n end.
Definition find_derived (n : string) : option derived :=
  find (fun d => String.eqb (derived_name d) n) (rev gen_derived).

Definition call_wrapper (tbl : tbl_t) (g : string) (args : list (pyval term))
           (kw : list (string * pyval term)) : ewres term :=
  match find_wrapper g with
  | Some w => ew_model term term_eqb (o_func tbl g) (w_name w) (w_pos w) args kw
  | None => ERaise "NameError"
  end.

Definition math_model (tbl : tbl_t) (fname : string) (args : list (pyval term))
           (kw : list (string * pyval term)) : ewres term :=
  let n := resolve_alias fname in
  match find_derived n with
  | Some (DApply _ g cs) =>
    call_wrapper tbl (resolve_alias g) (args ++ map (fun c => PScalar (TCst (Z.of_nat c))) cs) kw
  | Some (DCompose _ g h) =>
    match call_wrapper tbl (resolve_alias h) args kw with
    | EVal v => call_wrapper tbl (resolve_alias g) [v] []
    | r => r
    end
  | None => call_wrapper tbl n args kw
  end.
Definition corr_math (c : mcase) : bool :=
  wobs_eqb (m_obs c) (wobs_of (m_cap c) (math_model (m_tbl c) (m_fname c) (m_args c) (m_kw c))).

(* specification for the named functions, written without the generated tables: the broadcast
   argument is the first positional one, or the keyword the harness used (m_kw's first key) *)
Definition spec_math_plain (tbl : tbl_t) (cap : nat) (fn : string) (args : list (pyval term))
           (kw : list (string * pyval term)) : option wobs :=
  let ename := match args, kw with [], (k, _) :: _ => k | _, _ => "" end in
  spec_ew_with ename (Some 0) fn tbl cap args kw.

Definition wobs_as_pyval (o : wobs) : option (pyval term) :=
  match o with
  | WScalar t => Some (PScalar t)
  | WCont k l st _ => if String.eqb st "ended" then Some (PCont k (Fin l)) else None
  | WRaise _ => None
  end.

Definition spec_math (c : mcase) : option wobs :=
  let fn := m_fname c in
  if String.eqb fn "ln" then spec_math_plain (m_tbl c) (m_cap c) "log" (m_args c) (m_kw c)
  else if String.eqb fn "log10" then spec_math_plain (m_tbl c) (m_cap c) "log" (m_args c ++ [PScalar (TCst 10)]) (m_kw c)
  else if String.eqb fn "log2" then spec_math_plain (m_tbl c) (m_cap c) "log" (m_args c ++ [PScalar (TCst 2)]) (m_kw c)
  else if String.eqb fn "str2freq" then
    match spec_math_plain (m_tbl c) 1000 "str2midi" (m_args c) (m_kw c) with
    | Some o => match wobs_as_pyval o with
                | Some v => spec_math_plain (m_tbl c) (m_cap c) "midi2freq" [v] []
                | None => None
                end
    | None => None
    end
  else if String.eqb fn "freq2str" then
    match spec_math_plain (m_tbl c) 1000 "freq2midi" (m_args c) (m_kw c) with
    | Some o => match wobs_as_pyval o with
                | Some v => spec_math_plain (m_tbl c) (m_cap c) "midi2str" [v] []
                | None => None
                end
    | None => None
    end
  else spec_math_plain (m_tbl c) (m_cap c) fn (m_args c) (m_kw c).
Definition holds_math (c : mcase) : bool :=
  match spec_math c with Some o => wobs_eqb (m_obs c) o | None => true end.
