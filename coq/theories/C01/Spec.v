(* C01 - what the property promises, written without the generated table and without the
   zip/map structure of the implementation: index-wise ("the i-th output is the operator applied
   to the i-th elements"), with lengths as a minimum over the iterable operands.
   Definitions only. *)
From Coq Require Import List String Bool Arith.
From AL Require Import C01.OpDefs C01.Model.
Import ListNotations.
Open Scope string_scope.

(* ------------------------------------------------------------------ the intended operator table *)
(* dunder name -> (function of the operator module, operands swapped?, number of operands) *)
Definition spec_ops : list (string * (string * bool * nat)) :=
  [ ("__add__", ("__add__", false, 2)); ("__radd__", ("__add__", true, 2)); ("__pos__", ("__pos__", false, 1));
    ("__sub__", ("__sub__", false, 2)); ("__rsub__", ("__sub__", true, 2)); ("__neg__", ("__neg__", false, 1));
    ("__mul__", ("__mul__", false, 2)); ("__rmul__", ("__mul__", true, 2));
    ("__truediv__", ("__truediv__", false, 2)); ("__rtruediv__", ("__truediv__", true, 2));
    ("__floordiv__", ("__floordiv__", false, 2)); ("__rfloordiv__", ("__floordiv__", true, 2));
    ("__mod__", ("__mod__", false, 2)); ("__rmod__", ("__mod__", true, 2));
    ("__pow__", ("__pow__", false, 2)); ("__rpow__", ("__pow__", true, 2));
    ("__rshift__", ("__rshift__", false, 2)); ("__rrshift__", ("__rshift__", true, 2));
    ("__lshift__", ("__lshift__", false, 2)); ("__rlshift__", ("__lshift__", true, 2));
    ("__invert__", ("__invert__", false, 1));
    ("__and__", ("__and__", false, 2)); ("__rand__", ("__and__", true, 2));
    ("__or__", ("__or__", false, 2)); ("__ror__", ("__or__", true, 2));
    ("__xor__", ("__xor__", false, 2)); ("__rxor__", ("__xor__", true, 2));
    ("__lt__", ("__lt__", false, 2)); ("__le__", ("__le__", false, 2)); ("__eq__", ("__eq__", false, 2));
    ("__ne__", ("__ne__", false, 2)); ("__gt__", ("__gt__", false, 2)); ("__ge__", ("__ge__", false, 2));
    ("__matmul__", ("__matmul__", false, 2)); ("__rmatmul__", ("__matmul__", true, 2)) ].

Fixpoint spec_lookup_in (l : list (string * (string * bool * nat))) (d : string) : option (string * bool * nat) :=
  match l with
  | [] => None
  | (k, v) :: r => if String.eqb k d then Some v else spec_lookup_in r d
  end.
Definition spec_lookup (d : string) : option (string * bool * nat) := spec_lookup_in spec_ops d.

(* which template builds a dunder of the given shape *)
Definition spec_builder (rev : bool) (arity : nat) : option string :=
  match rev, arity with
  | false, 1 => Some "__unary__"
  | false, 2 => Some "__binary__"
  | true, 2 => Some "__rbinary__"
  | _, _ => None
  end.

(* the 13 broadcast functions that are not generated from _math_names *)
Definition spec_extra_wrapped : list string :=
  ["log"; "log1p"; "cexp"; "phase"; "factorial"; "dB10"; "dB20"; "sign"; "absolute";
   "midi2freq"; "str2midi"; "freq2midi"; "midi2str"].

(* ------------------------------------------------------------------ lengths *)
(* minimum where None is "endless" *)
Definition omin (a b : option nat) : option nat :=
  match a, b with
  | Some x, Some y => Some (Nat.min x y)
  | Some x, None => Some x
  | None, y => y
  end.

Section Spec.
Variable A : Type.
Variable opsem : string -> A -> A -> A.
Variable unsem : string -> A -> A.
Variable attrsem : string -> A -> A.
Variable callsem : A -> list A -> list (string * A) -> A.

(* the i-th element an operand contributes: a non-iterable is repeated at every position *)
Definition operand_at (o : operand A) (i : nat) : option A :=
  match o with
  | OScalar c => Some c
  | OIter s => lnth s i
  | OIgnored => None
  end.
(* a non-iterable never bounds the length *)
Definition operand_len (o : operand A) : option nat :=
  match o with
  | OIter s => llen s
  | _ => None
  end.

(* operator applied to the i-th elements, "self" element first unless the dunder is a reflected one *)
Definition apply2 (func : string) (rev : bool) (a b : A) : A :=
  if rev then opsem func b a else opsem func a b.

Definition bin_at (func : string) (rev : bool) (self : lseq A) (o : operand A) (i : nat) : option A :=
  match lnth self i, operand_at o i with
  | Some a, Some b => Some (apply2 func rev a b)
  | _, _ => None
  end.
Definition bin_len (self : lseq A) (o : operand A) : option nat := omin (llen self) (operand_len o).

(* ------------------------------------------------------------------ expressions *)
(* pointwise interpreter: the value of the expression at position i, from the i-th
   elements of its leaves only *)
Fixpoint val_at (e : sexpr A) (i : nat) : option A :=
  match e with
  | Leaf s => lnth s i
  | Un d e1 =>
    match spec_lookup d, val_at e1 i with
    | Some (f, false, 1), Some a => Some (unsem f a)
    | _, _ => None
    end
  | Bin d e1 e2 =>
    match spec_lookup d, val_at e1 i, val_at e2 i with
    | Some (f, r, 2), Some a, Some b => Some (apply2 f r a b)
    | _, _, _ => None
    end
  | BinI d e1 o =>
    match spec_lookup d, val_at e1 i, lnth o i with
    | Some (f, r, 2), Some a, Some b => Some (apply2 f r a b)
    | _, _, _ => None
    end
  | BinS d e1 c =>
    match spec_lookup d, val_at e1 i with
    | Some (f, r, 2), Some a => Some (apply2 f r a c)
    | _, _ => None
    end
  | AbsE e1 => option_map (unsem "abs") (val_at e1 i)
  | AttrE n e1 => option_map (attrsem n) (val_at e1 i)
  | CallE e1 args kw => option_map (fun a => callsem a args kw) (val_at e1 i)
  | FunE g e1 => option_map g (val_at e1 i)
  end.

(* the iterable operands of an expression *)
Fixpoint leaves (e : sexpr A) : list (lseq A) :=
  match e with
  | Leaf s => [s]
  | Un _ e1 | BinS _ e1 _ | AbsE e1 | AttrE _ e1 | CallE e1 _ _ | FunE _ e1 => leaves e1
  | Bin _ e1 e2 => leaves e1 ++ leaves e2
  | BinI _ e1 o => leaves e1 ++ [o]
  end.

(* shortest iterable operand *)
Definition len_spec (e : sexpr A) : option nat :=
  fold_right omin None (map llen (leaves e)).

(* expressions that only use operator dunders that exist, with the right number of operands *)
Fixpoint wf (e : sexpr A) : Prop :=
  match e with
  | Leaf _ => True
  | Un d e1 => (exists f, spec_lookup d = Some (f, false, 1)) /\ wf e1
  | Bin d e1 e2 => (exists f r, spec_lookup d = Some (f, r, 2)) /\ wf e1 /\ wf e2
  | BinI d e1 _ | BinS d e1 _ => (exists f r, spec_lookup d = Some (f, r, 2)) /\ wf e1
  | AbsE e1 | CallE e1 _ _ | FunE _ e1 => wf e1
  | AttrE n e1 => n <> "__next__" /\ wf e1
  end.

Fixpoint wfb (e : sexpr A) : bool :=
  match e with
  | Leaf _ => true
  | Un d e1 => match spec_lookup d with Some (_, false, 1) => wfb e1 | _ => false end
  | Bin d e1 e2 => match spec_lookup d with Some (_, _, 2) => wfb e1 && wfb e2 | _ => false end
  | BinI d e1 _ | BinS d e1 _ => match spec_lookup d with Some (_, _, 2) => wfb e1 | _ => false end
  | AbsE e1 | CallE e1 _ _ | FunE _ e1 => wfb e1
  | AttrE n e1 => negb (String.eqb n "__next__") && wfb e1
  end.

(* ------------------------------------------------------------------ observations *)
(* what list(islice(result, cap)) shows of a sequence given index-wise *)
Definition prefix_at (at_ : nat -> option A) (n : nat) : list A :=
  flat_map (fun i => match at_ i with Some a => [a] | None => [] end) (seq 0 n).
Definition ended_by (len : option nat) (n : nat) : bool :=
  match len with Some L => Nat.ltb L n | None => false end.
Definition spec_obs (cap : nat) (len : option nat) (at_ : nat -> option A) : list A * bool :=
  (prefix_at at_ cap, ended_by len cap).
(* the same for a model sequence *)
Definition observe (cap : nat) (s : lseq A) : list A * bool := (ltake cap s, lended cap s).
End Spec.

(* ------------------------------------------------------------------ elementwise *)
(* "returns the same kind of container it was given"; a subclass of Stream gives a Stream and
   every generator-like input gives a generator *)
Definition spec_kind (k : ckind) : ckind :=
  match k with
  | KList => KList | KTuple => KTuple | KDeque => KDeque | KSet => KSet | KFrozenset => KFrozenset
  | KStream | KStreamSub => KStream
  | KGen | KRange | KMap | KZip | KFilter | KEnumerate | KZipLongest => KGen
  end.

Section SpecEw.
Variable A : Type.
Variable f : list (pyval A) -> list (string * pyval A) -> A.

Fixpoint replace_nth {T} (n : nat) (x : T) (l : list T) : list T :=
  match l, n with
  | [], _ => []
  | _ :: r, O => x :: r
  | y :: r, S n' => y :: replace_nth n' x r
  end.
Definition kw_replace (name : string) (x : pyval A) (kw : list (string * pyval A)) : list (string * pyval A) :=
  map (fun kv => if String.eqb (fst kv) name then (fst kv, x) else kv) kw.
Fixpoint kw_first (name : string) (kw : list (string * pyval A)) : option (pyval A) :=
  match kw with
  | [] => None
  | kv :: r => if String.eqb (fst kv) name then Some (snd kv) else kw_first name r
  end.

(* where the broadcast argument is: Some (Some p) = positional argument p, Some None = keyword *)
Definition spec_where (name : string) (pos : option nat) (nargs : nat) : option nat :=
  let pos' := match pos with Some p => Some p | None => if String.eqb name "" then Some 0 else None end in
  match pos' with
  | Some p => if Nat.ltb p nargs then Some p else None
  | None => None
  end.
Definition spec_primary (name : string) (pos : option nat) (args : list (pyval A))
           (kw : list (string * pyval A)) : option (pyval A) :=
  match spec_where name pos (List.length args) with
  | Some p => nth_error args p
  | None => kw_first name kw
  end.
(* the call made for element x: every secondary argument unchanged *)
Definition spec_call (name : string) (pos : option nat) (args : list (pyval A))
           (kw : list (string * pyval A)) (x : A) : A :=
  match spec_where name pos (List.length args) with
  | Some p => f (replace_nth p (PScalar x) args) kw
  | None => f args (kw_replace name (PScalar x) kw)
  end.
End SpecEw.
