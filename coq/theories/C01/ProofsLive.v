(* C01 - the live pull machine (Live.v) against the sequence model (Model.v): when nobody touches the
   lists, n pulls deliver exactly the first n positions of the expression's value. *)
From Coq Require Import List String Bool Arith Lia.
From AL Require Import C01.OpDefs C01.Gen_OpTable C01.Model C01.Spec C01.Live C01.Proofs.
Import ListNotations.
Open Scope string_scope.

Section LiveProofs.
Variable A : Type.
Variable opsem : string -> A -> A -> A.
Variable unsem : string -> A -> A.
Variable attrsem : string -> A -> A.
Variable callsem : A -> list A -> list (string * A) -> A.
Variable h : heap A.

Notation pullx := (pull A opsem unsem gen_shape h).

(* what a list iterator still has to deliver (the list is not modified any more) *)
Definition rem_list (cell idx : nat) (dead : bool) : list A :=
  if dead then [] else skipn idx (cell_get A h cell).

(* what an expression still has to deliver *)
Fixpoint rem (e : lexpr A) : list A :=
  match e with
  | LLeaf c i dd => rem_list c i dd
  | LUn d e1 =>
    match gen_shape d with
    | Some (f, b) => if String.eqb b "__unary__" then map (unsem f) (rem e1) else []
    | None => []
    end
  | LBinS d e1 c =>
    match gen_shape d with
    | Some (f, b) =>
      if String.eqb b "__binary__" then map (fun a => opsem f a c) (rem e1)
      else if String.eqb b "__rbinary__" then map (fun a => opsem f c a) (rem e1) else []
    | None => []
    end
  | LBin d e1 e2 =>
    match gen_shape d with
    | Some (f, b) =>
      if String.eqb b "__binary__" then zip_ll (opsem f) (rem e1) (rem e2)
      else if String.eqb b "__rbinary__" then zip_ll (opsem f) (rem e2) (rem e1) else []
    | None => []
    end
  | LBinL d e1 c i dd =>
    match gen_shape d with
    | Some (f, b) =>
      if String.eqb b "__binary__" then zip_ll (opsem f) (rem e1) (rem_list c i dd)
      else if String.eqb b "__rbinary__" then zip_ll (opsem f) (rem_list c i dd) (rem e1) else []
    | None => []
    end
  end.

Lemma skipn_hd_tl (l : list A) i :
  nth_error l i = hd_error (skipn i l) /\ skipn (S i) l = tl (skipn i l).
Proof.
  revert l. induction i as [|i IH]; intros [|x r]; simpl; try (split; reflexivity).
  apply (IH r).
Qed.

Lemma pull_list_rem c i dd :
  let '(r, i', d') := pull_list A h c i dd in
  r = hd_error (rem_list c i dd) /\ rem_list c i' d' = tl (rem_list c i dd).
Proof.
  unfold pull_list, rem_list. destruct dd; [split; reflexivity|].
  destruct (skipn_hd_tl (cell_get A h c) i) as [E1 E2].
  destruct (nth_error (cell_get A h c) i) as [a|] eqn:E.
  - split; [exact E1|exact E2].
  - split; [exact E1|]. destruct (skipn i (cell_get A h c)); [reflexivity|discriminate].
Qed.

Lemma pull_rem e : fst (pullx e) = hd_error (rem e) /\ rem (snd (pullx e)) = tl (rem e).
Proof.
  induction e as [c i dd|d e IH|d e1 IH1 e2 IH2|d e IH c i dd|d e IH c]; simpl.
  - pose proof (pull_list_rem c i dd) as K. destruct (pull_list A h c i dd) as [[r i'] d']. exact K.
  - destruct (pullx e) as [r e'] eqn:E. simpl in IH. destruct IH as [H1 H2]. simpl.
    destruct (gen_shape d) as [[f b]|]; [|split; [destruct r; reflexivity|reflexivity]].
    destruct (String.eqb b "__unary__"); rewrite ?H2.
    + rewrite H1. split; destruct (rem e); reflexivity.
    + split; [destruct r; reflexivity|reflexivity].
  - destruct (gen_shape d) as [[f b]|] eqn:G; [|split; [reflexivity|simpl; rewrite G; reflexivity]].
    destruct (String.eqb b "__binary__") eqn:B1.
    + destruct (pullx e1) as [r1 e1'] eqn:E1. simpl in IH1. destruct IH1 as [H1 H2].
      destruct r1 as [a|]; simpl.
      * destruct (pullx e2) as [r2 e2'] eqn:E2. simpl in IH2. destruct IH2 as [K1 K2]. simpl.
        simpl; rewrite ?G, ?B1, ?B2. rewrite H2, K2, K1. destruct (rem e1) as [|a' r1']; [discriminate|]. injection H1 as ->.
        destruct (rem e2) as [|x r2']; simpl; split; try reflexivity.
        destruct r1'; reflexivity.
      * simpl; rewrite ?G, ?B1, ?B2. rewrite H2. destruct (rem e1); [split; reflexivity|discriminate].
    + destruct (String.eqb b "__rbinary__") eqn:B2; [|split; [reflexivity|simpl; rewrite G, B1, B2; reflexivity]].
      destruct (pullx e2) as [r2 e2'] eqn:E2. simpl in IH2. destruct IH2 as [K1 K2].
      destruct r2 as [x|]; simpl.
      * destruct (pullx e1) as [r1 e1'] eqn:E1. simpl in IH1. destruct IH1 as [H1 H2]. simpl.
        simpl; rewrite ?G, ?B1, ?B2. rewrite H2, K2, H1. destruct (rem e2) as [|x' r2']; [discriminate|]. injection K1 as ->.
        destruct (rem e1) as [|a r1']; simpl; split; try reflexivity.
        destruct r2'; reflexivity.
      * simpl; rewrite ?G, ?B1, ?B2. rewrite K2. destruct (rem e2); [split; reflexivity|discriminate].
  - destruct (gen_shape d) as [[f b]|] eqn:G; [|split; [reflexivity|simpl; rewrite G; reflexivity]].
    pose proof (pull_list_rem c i dd) as K.
    destruct (String.eqb b "__binary__") eqn:B1.
    + destruct (pullx e) as [r1 e1'] eqn:E1. simpl in IH. destruct IH as [H1 H2].
      destruct r1 as [a|]; simpl.
      * destruct (pull_list A h c i dd) as [[r2 i'] d']. destruct K as [K1 K2]. simpl.
        simpl; rewrite ?G, ?B1, ?B2. rewrite H2, K2, K1. destruct (rem e) as [|a' r1']; [discriminate|]. injection H1 as ->.
        destruct (rem_list c i dd) as [|x r2']; simpl; split; try reflexivity.
        destruct r1'; reflexivity.
      * simpl; rewrite ?G, ?B1, ?B2. rewrite H2. destruct (rem e); [split; reflexivity|discriminate].
    + destruct (String.eqb b "__rbinary__") eqn:B2; [|split; [reflexivity|simpl; rewrite G, B1, B2; reflexivity]].
      destruct (pull_list A h c i dd) as [[r2 i'] d']. destruct K as [K1 K2].
      destruct r2 as [x|]; simpl.
      * destruct (pullx e) as [r1 e1'] eqn:E1. simpl in IH. destruct IH as [H1 H2]. simpl.
        simpl; rewrite ?G, ?B1, ?B2. rewrite H2, K2, H1. destruct (rem_list c i dd) as [|x' r2']; [discriminate|]. injection K1 as ->.
        destruct (rem e) as [|a r1']; simpl; split; try reflexivity.
        destruct r2'; reflexivity.
      * simpl; rewrite ?G, ?B1, ?B2. rewrite K2. destruct (rem_list c i dd); [split; reflexivity|discriminate].
  - destruct (pullx e) as [r e'] eqn:E. simpl in IH. destruct IH as [H1 H2]. simpl.
    destruct (gen_shape d) as [[f b]|]; [|split; [destruct r; reflexivity|reflexivity]].
    destruct (String.eqb b "__binary__"); rewrite ?H2.
    + rewrite H1. split; destruct (rem e); reflexivity.
    + destruct (String.eqb b "__rbinary__"); rewrite ?H2.
      * rewrite H1. split; destruct (rem e); reflexivity.
      * split; [destruct r; reflexivity|reflexivity].
Qed.
End LiveProofs.

Section LiveStatic.
Variable A : Type.
Variable opsem : string -> A -> A -> A.
Variable unsem : string -> A -> A.
Variable attrsem : string -> A -> A.
Variable callsem : A -> list A -> list (string * A) -> A.
Variable h : heap A.

Lemma nth_error_tl (l : list A) i : nth_error l (S i) = nth_error (tl l) i.
Proof. destruct l; [destruct i|]; reflexivity. Qed.

(* n pulls with no event in between deliver the first n remaining items, then StopIteration for good *)
Lemma run_pulls n : forall e,
  run_events A opsem unsem gen_shape h e (repeat EPull n) = map (nth_error (rem A opsem unsem h e)) (seq 0 n).
Proof.
  induction n as [|n IH]; intro e; [reflexivity|].
  simpl repeat. simpl run_events.
  destruct (pull_rem A opsem unsem h e) as [H1 H2].
  destruct (pull A opsem unsem gen_shape h e) as [o e']. simpl in H1, H2.
  rewrite IH, H2. simpl. f_equal.
  - rewrite H1. destruct (rem A opsem unsem h e); reflexivity.
  - rewrite <- seq_shift, map_map. apply map_ext. intro i. symmetry. apply nth_error_tl.
Qed.

(* a freshly built expression (every list iterator at position 0) as an expression of Model.v over the
   CURRENT contents of the cells *)
Fixpoint fresh (e : lexpr A) : bool :=
  match e with
  | LLeaf _ i dd => Nat.eqb i 0 && negb dd
  | LUn _ e1 | LBinS _ e1 _ => fresh e1
  | LBin _ e1 e2 => fresh e1 && fresh e2
  | LBinL _ e1 _ i dd => fresh e1 && Nat.eqb i 0 && negb dd
  end.
Fixpoint to_sexpr (e : lexpr A) : sexpr A :=
  match e with
  | LLeaf c _ _ => Leaf (Fin (cell_get A h c))
  | LUn d e1 => Un d (to_sexpr e1)
  | LBinS d e1 c => BinS d (to_sexpr e1) c
  | LBin d e1 e2 => Bin d (to_sexpr e1) (to_sexpr e2)
  | LBinL d e1 c _ _ => BinI d (to_sexpr e1) (Fin (cell_get A h c))
  end.

Lemma dunder_via_shape d self others :
  dunder_model A opsem unsem d self others =
  match gen_shape d with
  | None => DNoAttr
  | Some (f, b) =>
    if String.eqb b "__binary__" then match others with [o] => binary_tpl A opsem f self o | _ => DTypeError end
    else if String.eqb b "__rbinary__" then match others with [o] => rbinary_tpl A opsem f self o | _ => DTypeError end
    else if String.eqb b "__unary__" then match others with [] => unary_tpl A unsem f self | _ => DTypeError end
    else DNoAttr
  end.
Proof.
  unfold dunder_model, gen_shape. destruct (find_op d) as [e|]; [|reflexivity].
  destruct (str_mem d gen_stream_namespace); [reflexivity|].
  destruct (builder_of e); reflexivity.
Qed.

Lemma eval_rem e : fresh e = true -> forall s,
  eval A opsem unsem attrsem callsem (to_sexpr e) = Some s -> s = Fin (rem A opsem unsem h e).
Proof.
  induction e as [c i dd|d e IH|d e1 IH1 e2 IH2|d e IH c i dd|d e IH c]; simpl; intros Hf s E.
  - apply andb_true_iff in Hf as [Hi Hd]. apply Nat.eqb_eq in Hi. apply negb_true_iff in Hd. subst.
    inversion E. reflexivity.
  - destruct (eval A opsem unsem attrsem callsem (to_sexpr e)) as [s1|]; [|discriminate].
    rewrite (IH Hf s1 eq_refl) in E. rewrite dunder_via_shape in E.
    destruct (gen_shape d) as [[f b]|]; [|discriminate].
    destruct (String.eqb b "__binary__"); [discriminate|].
    destruct (String.eqb b "__rbinary__"); [discriminate|].
    destruct (String.eqb b "__unary__"); [|discriminate]. inversion E. reflexivity.
  - apply andb_true_iff in Hf as [Hf1 Hf2].
    destruct (eval A opsem unsem attrsem callsem (to_sexpr e1)) as [s1|]; [|discriminate].
    destruct (eval A opsem unsem attrsem callsem (to_sexpr e2)) as [s2|]; [|discriminate].
    rewrite (IH1 Hf1 s1 eq_refl), (IH2 Hf2 s2 eq_refl) in E. rewrite dunder_via_shape in E.
    destruct (gen_shape d) as [[f b]|]; [|discriminate].
    destruct (String.eqb b "__binary__"); [inversion E; reflexivity|].
    destruct (String.eqb b "__rbinary__"); [inversion E; reflexivity|].
    destruct (String.eqb b "__unary__"); discriminate.
  - apply andb_true_iff in Hf as [Hf Hd]. apply andb_true_iff in Hf as [Hf1 Hi].
    apply Nat.eqb_eq in Hi. apply negb_true_iff in Hd. subst.
    destruct (eval A opsem unsem attrsem callsem (to_sexpr e)) as [s1|]; [|discriminate].
    rewrite (IH Hf1 s1 eq_refl) in E. rewrite dunder_via_shape in E.
    destruct (gen_shape d) as [[f b]|]; [|discriminate].
    destruct (String.eqb b "__binary__"); [inversion E; reflexivity|].
    destruct (String.eqb b "__rbinary__"); [inversion E; reflexivity|].
    destruct (String.eqb b "__unary__"); discriminate.
  - destruct (eval A opsem unsem attrsem callsem (to_sexpr e)) as [s1|]; [|discriminate].
    rewrite (IH Hf s1 eq_refl) in E. rewrite dunder_via_shape in E.
    destruct (gen_shape d) as [[f b]|]; [|discriminate].
    destruct (String.eqb b "__binary__"); [inversion E; reflexivity|].
    destruct (String.eqb b "__rbinary__"); [inversion E; reflexivity|].
    destruct (String.eqb b "__unary__"); discriminate.
Qed.

(* With no mutation the pull machine IS the sequence model: the k-th pull delivers position k of the
   expression's value over the current lists, and StopIteration from its end on. *)
Lemma live_static_lemma e s n :
  fresh e = true -> eval A opsem unsem attrsem callsem (to_sexpr e) = Some s ->
  run_events A opsem unsem gen_shape h e (repeat EPull n) = map (lnth s) (seq 0 n).
Proof.
  intros Hf E. rewrite run_pulls, (eval_rem e Hf s E). reflexivity.
Qed.
End LiveStatic.

Section LiveBuiltThenMutated.
Variable A : Type.
Variable opsem : string -> A -> A -> A.
Variable unsem : string -> A -> A.
Variable attrsem : string -> A -> A.
Variable callsem : A -> list A -> list (string * A) -> A.

Definition is_mutation (ev : event A) : bool := match ev with EPull => false | _ => true end.
(* the heap after a list of mutations *)
Fixpoint apply_muts (h : heap A) (evs : list (event A)) : heap A :=
  match evs with
  | [] => h
  | EPull :: r => apply_muts h r
  | EExtend c items :: r => apply_muts (cell_set A h c (cell_get A h c ++ items)) r
  | ETrunc c k :: r => apply_muts (cell_set A h c (firstn k (cell_get A h c))) r
  | ESet c i x :: r => apply_muts (cell_set A h c (set_nth A (cell_get A h c) i x)) r
  end.

Lemma run_after_muts muts : forall h e rest,
  forallb is_mutation muts = true ->
  run_events A opsem unsem gen_shape h e (muts ++ rest) =
  run_events A opsem unsem gen_shape (apply_muts h muts) e rest.
Proof.
  induction muts as [|ev r IH]; intros h e rest Hm; [reflexivity|].
  simpl in Hm. apply andb_true_iff in Hm as [H1 H2].
  destruct ev; simpl in *; try discriminate; apply IH; exact H2.
Qed.

(* An expression built over lists that are appended to / truncated / overwritten BEFORE it is consumed
   has the value of the same expression over the lists as they are when consumption starts: the operand
   lengths are not frozen when the expression is built. *)
Lemma live_reads_at_consumption_lemma h e muts s n :
  fresh A e = true -> forallb is_mutation muts = true ->
  eval A opsem unsem attrsem callsem (to_sexpr A (apply_muts h muts) e) = Some s ->
  run_events A opsem unsem gen_shape h e (muts ++ repeat EPull n) = map (lnth s) (seq 0 n).
Proof.
  intros Hf Hm E. rewrite run_after_muts by exact Hm.
  apply (live_static_lemma A opsem unsem attrsem callsem (apply_muts h muts) e s n Hf E).
Qed.
End LiveBuiltThenMutated.
