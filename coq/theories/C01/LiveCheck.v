(* C01 - checkers of the live-operand family: corr uses the regenerated table, holds the intended one. *)
From Coq Require Import List String Bool Arith ZArith.
From AL Require Import Base.CaseLib C01.OpDefs C01.Gen_OpTable C01.Model C01.Spec C01.Check C01.Live.
Import ListNotations.
Open Scope string_scope.

(* the intended shape of a dunder: operator function and template *)
Definition spec_shape (d : string) : option (string * string) :=
  match spec_lookup d with
  | Some (f, r, a) => match spec_builder r a with Some b => Some (f, b) | None => None end
  | None => None
  end.

Record lcase := LC {
  l_heap : list (list term); l_expr : lexpr term; l_events : list (event term);
  l_obs : list (option term) }.

Definition lobs_eqb := list_eqb (option_eqb term_eqb).

Definition corr_live (c : lcase) : bool :=
  lobs_eqb (l_obs c) (run_events term (o_opsem []) (o_unsem []) gen_shape (l_heap c) (l_expr c) (l_events c)).
(* the text: the i-th output is the operator applied to the i-th elements and the result ends when the
   shortest iterable operand ends; for an operand that changes while the result is consumed these are the
   elements / the end its iterator meets at the moment the position is asked for *)
Definition holds_live (c : lcase) : bool :=
  lobs_eqb (l_obs c) (run_events term (o_opsem []) (o_unsem []) spec_shape (l_heap c) (l_expr c) (l_events c)).
