(* C01 - proofs: the regenerated operator table is the intended one, and the model
   (zip / map structure of the three templates) is index-wise what Spec.v says, for every
   oracle, every sequence (finite or endless) and every expression tree. *)
From Coq Require Import List String Bool Arith Lia.
From AL Require Import C01.OpDefs C01.Gen_OpTable C01.Model C01.Spec.
Import ListNotations.
Open Scope string_scope.

(* ------------------------------------------------------------------ lazy sequences *)
Section LseqLemmas.
Context {A B C : Type}.

Lemma lnth_lmap (f : A -> B) s i : lnth (lmap f s) i = option_map f (lnth s i).
Proof. destruct s as [l|g]; simpl; [apply nth_error_map|reflexivity]. Qed.

Lemma llen_lmap (f : A -> B) s : llen (lmap f s) = llen s.
Proof. destruct s as [l|g]; simpl; [rewrite map_length|]; reflexivity. Qed.

Lemma zip_ll_nth (f : A -> B -> C) l1 : forall l2 i,
  nth_error (zip_ll f l1 l2) i =
  match nth_error l1 i, nth_error l2 i with Some a, Some b => Some (f a b) | _, _ => None end.
Proof.
  induction l1 as [|a r IH]; intros [|b r2] [|i]; simpl; try reflexivity.
  - destruct (nth_error r i); reflexivity.
  - apply IH.
Qed.

Lemma zip_ll_len (f : A -> B -> C) l1 : forall l2,
  List.length (zip_ll f l1 l2) = Nat.min (List.length l1) (List.length l2).
Proof. induction l1 as [|a r IH]; intros [|b r2]; simpl; try reflexivity. rewrite IH. reflexivity. Qed.

Lemma zip_lf_nth (f : A -> B -> C) g l : forall off i,
  nth_error (zip_lf f l g off) i =
  match nth_error l i with Some a => Some (f a (g (off + i))) | None => None end.
Proof.
  induction l as [|a r IH]; intros off [|i]; simpl; try reflexivity.
  - rewrite Nat.add_0_r. reflexivity.
  - rewrite IH. replace (S off + i) with (off + S i) by lia. reflexivity.
Qed.

Lemma zip_lf_len (f : A -> B -> C) g l : forall off, List.length (zip_lf f l g off) = List.length l.
Proof. induction l as [|a r IH]; intro off; simpl; [|rewrite IH]; reflexivity. Qed.

Lemma zip_fl_nth (f : A -> B -> C) g l : forall off i,
  nth_error (zip_fl f g l off) i =
  match nth_error l i with Some b => Some (f (g (off + i)) b) | None => None end.
Proof.
  induction l as [|a r IH]; intros off [|i]; simpl; try reflexivity.
  - rewrite Nat.add_0_r. reflexivity.
  - rewrite IH. replace (S off + i) with (off + S i) by lia. reflexivity.
Qed.

Lemma zip_fl_len (f : A -> B -> C) g l : forall off, List.length (zip_fl f g l off) = List.length l.
Proof. induction l as [|a r IH]; intro off; simpl; [|rewrite IH]; reflexivity. Qed.

(* map(f, s, t): i-th item = f of the i-th items, as long as both have one *)
Lemma lnth_lzip (f : A -> B -> C) s t i :
  lnth (lzip f s t) i =
  match lnth s i, lnth t i with Some a, Some b => Some (f a b) | _, _ => None end.
Proof.
  destruct s as [l1|g1], t as [l2|g2]; simpl.
  - apply zip_ll_nth.
  - rewrite zip_lf_nth. reflexivity.
  - rewrite zip_fl_nth. reflexivity.
  - reflexivity.
Qed.

(* ... and it stops with the shorter one; an endless one never bounds it *)
Lemma llen_lzip (f : A -> B -> C) s t : llen (lzip f s t) = omin (llen s) (llen t).
Proof.
  destruct s as [l1|g1], t as [l2|g2]; simpl.
  - rewrite zip_ll_len. reflexivity.
  - rewrite zip_lf_len. reflexivity.
  - rewrite zip_fl_len. reflexivity.
  - reflexivity.
Qed.
End LseqLemmas.

Lemma omin_comm a b : omin a b = omin b a.
Proof. destruct a, b; simpl; try reflexivity. rewrite Nat.min_comm. reflexivity. Qed.
Lemma omin_assoc a b c : omin a (omin b c) = omin (omin a b) c.
Proof. destruct a, b, c; simpl; try reflexivity. rewrite Nat.min_assoc. reflexivity. Qed.
Lemma omin_None_r a : omin a None = a.
Proof. destruct a; reflexivity. Qed.
Lemma omin_None_l a : omin None a = a.
Proof. reflexivity. Qed.

Lemma fold_omin_app l1 l2 :
  fold_right omin None (l1 ++ l2) = omin (fold_right omin None l1) (fold_right omin None l2).
Proof.
  induction l1 as [|a r IH]; simpl; [reflexivity|]. rewrite IH. apply omin_assoc.
Qed.

(* the shortest of a list of lengths: a lower bound that is attained (or every one is endless) *)
Lemma fold_omin_spec (l : list (option nat)) :
  match fold_right omin None l with
  | None => forall x, In x l -> x = None
  | Some m => In (Some m) l /\ forall n, In (Some n) l -> m <= n
  end.
Proof.
  induction l as [|a r IH]; simpl.
  - intros x [].
  - destruct (fold_right omin None r) as [m|], a as [x|]; simpl.
    + destruct IH as [Hin Hle]. split.
      * destruct (Nat.min_spec x m) as [[_ E]|[_ E]]; rewrite E; [left; reflexivity|right; exact Hin].
      * intros n [E|Hn]; [inversion E; subst; apply Nat.le_min_l|].
        etransitivity; [apply Nat.le_min_r|apply Hle; exact Hn].
    + destruct IH as [Hin Hle]. split; [right; exact Hin|].
      intros n [E|Hn]; [discriminate|apply Hle; exact Hn].
    + split; [left; reflexivity|]. intros n [E|Hn]; [inversion E; subst; apply Nat.le_refl|].
      apply IH in Hn. discriminate.
    + intros y [E|Hy]; [symmetry; exact E|apply IH; exact Hy].
Qed.

(* ------------------------------------------------------------------ the table *)
Lemma spec_lookup_in_In l d v : spec_lookup_in l d = Some v -> In (d, v) l.
Proof.
  induction l as [|[k w] r IH]; simpl; [discriminate|].
  destruct (String.eqb k d) eqn:E.
  - intro H. inversion H; subst. apply String.eqb_eq in E. subst. left. reflexivity.
  - intro H. right. apply IH. exact H.
Qed.

Definition opt_str_eqb (a b : option string) : bool :=
  match a, b with Some x, Some y => String.eqb x y | None, None => true | _, _ => false end.
Lemma opt_str_eqb_eq a b : opt_str_eqb a b = true -> a = b.
Proof.
  destruct a, b; simpl; try discriminate; try reflexivity.
  intro H. apply String.eqb_eq in H. subst. reflexivity.
Qed.

(* one intended entry against the regenerated table and dispatch dictionary *)
Definition check_spec_entry (x : string * (string * bool * nat)) : bool :=
  let '(d, (f, r, a)) := x in
  match find_op d with
  | Some e =>
    String.eqb (op_dname e) d && String.eqb (op_func e) f && Bool.eqb (op_rev e) r && Nat.eqb (op_arity e) a &&
    negb (str_mem d gen_stream_namespace) &&
    opt_str_eqb (builder_of e) (spec_builder r a) &&
    match spec_builder r a with Some _ => true | None => false end
  | None => false
  end.

Lemma spec_entries_ok : forallb check_spec_entry spec_ops = true.
Proof. vm_compute. reflexivity. Qed.

(* one regenerated entry against the intended table *)
Definition check_gen_entry (e : opentry) : bool :=
  match spec_lookup (op_dname e) with
  | Some (f, r, a) =>
    String.eqb (op_func e) f && Bool.eqb (op_rev e) r && Nat.eqb (op_arity e) a &&
    opt_str_eqb (builder_of e) (spec_builder r a) && negb (str_mem (op_dname e) gen_stream_namespace)
  | None => false
  end.
Lemma gen_entries_ok : forallb check_gen_entry gen_optable = true.
Proof. vm_compute. reflexivity. Qed.

Lemma gen_dnames_nodup : str_nodup (map op_dname gen_optable) = true.
Proof. vm_compute. reflexivity. Qed.

Lemma str_mem_In x l : str_mem x l = true <-> In x l.
Proof.
  unfold str_mem. rewrite existsb_exists. split.
  - intros [y [Hy E]]. apply String.eqb_eq in E. subst. exact Hy.
  - intro H. exists x. split; [exact H|apply String.eqb_refl].
Qed.

Lemma str_nodup_NoDup l : str_nodup l = true -> NoDup l.
Proof.
  induction l as [|x r IH]; simpl; intro H; [constructor|].
  apply andb_true_iff in H as [H1 H2]. constructor; [|apply IH; exact H2].
  intro Hin. apply str_mem_In in Hin. unfold str_mem in Hin. rewrite Hin in H1. discriminate.
Qed.

Lemma find_op_In d e : find_op d = Some e -> In e gen_optable /\ op_dname e = d.
Proof.
  unfold find_op. intro H. apply find_some in H as [Hin E].
  apply in_rev in Hin. apply String.eqb_eq in E. split; assumption.
Qed.

Lemma spec_entry_facts d f r a :
  spec_lookup d = Some (f, r, a) ->
  exists e, find_op d = Some e /\ op_dname e = d /\ op_func e = f /\ op_rev e = r /\ op_arity e = a /\
            str_mem d gen_stream_namespace = false /\ builder_of e = spec_builder r a /\
            spec_builder r a <> None.
Proof.
  intro H. apply spec_lookup_in_In in H.
  pose proof (proj1 (forallb_forall _ _) spec_entries_ok _ H) as K.
  unfold check_spec_entry in K. destruct (find_op d) as [e|]; [|discriminate].
  repeat (apply andb_true_iff in K as [K ?]).
  exists e. split; [reflexivity|].
  apply String.eqb_eq in K. apply String.eqb_eq in H5. apply Bool.eqb_prop in H4. apply Nat.eqb_eq in H3.
  apply negb_true_iff in H2. apply opt_str_eqb_eq in H1.
  repeat split; try assumption.
  destruct (spec_builder r a); [discriminate|discriminate].
Qed.

(* a dunder of the intended table IS the template of its shape applied to its operator function *)
Lemma dunder_char A (opsem : string -> A -> A -> A) (unsem : string -> A -> A) d f r a self others :
  spec_lookup d = Some (f, r, a) ->
  dunder_model A opsem unsem d self others =
    match r, a with
    | false, 1 => match others with [] => unary_tpl A unsem f self | _ => DTypeError end
    | false, 2 => match others with [o] => binary_tpl A opsem f self o | _ => DTypeError end
    | true, 2 => match others with [o] => rbinary_tpl A opsem f self o | _ => DTypeError end
    | _, _ => DNoAttr
    end.
Proof.
  intro H. destruct (spec_entry_facts _ _ _ _ H) as [e [Hf [_ [Ef [Er [Ea [Hn [Hb Hs]]]]]]]].
  unfold dunder_model. rewrite Hf, Hn, Hb, Ef.
  destruct r; destruct a as [|[|[|a]]]; simpl in *; try congruence; reflexivity.
Qed.

(* nothing but those 35 is installed *)
Lemma dunder_unknown A (opsem : string -> A -> A -> A) (unsem : string -> A -> A) d self others :
  spec_lookup d = None -> dunder_model A opsem unsem d self others = DNoAttr.
Proof.
  intro H. unfold dunder_model. destruct (find_op d) as [e|] eqn:E; [|reflexivity].
  apply find_op_In in E as [Hin Ed].
  pose proof (proj1 (forallb_forall _ _) gen_entries_ok _ Hin) as K.
  unfold check_gen_entry in K. rewrite Ed, H in K. discriminate.
Qed.

Lemma optable_complete_lemma :
  List.length gen_optable = 35 /\
  NoDup (map op_dname gen_optable) /\
  (forall e, In e gen_optable ->
     spec_lookup (op_dname e) = Some (op_func e, op_rev e, op_arity e) /\
     builder_of e = spec_builder (op_rev e) (op_arity e) /\
     ~ In (op_dname e) gen_stream_namespace) /\
  (forall d v, spec_lookup d = Some v -> exists e, In e gen_optable /\ op_dname e = d) /\
  gen_operators = "all" /\ gen_without = None.
Proof.
  split; [vm_compute; reflexivity|].
  split; [apply str_nodup_NoDup, gen_dnames_nodup|].
  split; [|split; [|split; vm_compute; reflexivity]].
  - intros e Hin. pose proof (proj1 (forallb_forall _ _) gen_entries_ok _ Hin) as K.
    unfold check_gen_entry in K. destruct (spec_lookup (op_dname e)) as [[[f r] a]|]; [|discriminate].
    repeat (apply andb_true_iff in K as [K ?]).
    apply String.eqb_eq in K. apply Bool.eqb_prop in H2. apply Nat.eqb_eq in H1.
    apply opt_str_eqb_eq in H0. apply negb_true_iff in H. subst.
    split; [reflexivity|]. split; [exact H0|].
    intro Hin'. apply str_mem_In in Hin'. congruence.
  - intros d [[f r] a] H. destruct (spec_entry_facts _ _ _ _ H) as [e [Hf [Ed _]]].
    exists e. split; [apply (find_op_In _ _ Hf)|exact Ed].
Qed.

(* ------------------------------------------------------------------ one operator *)
Section OpProofs.
Variable A : Type.
Variable opsem : string -> A -> A -> A.
Variable unsem : string -> A -> A.
Variable attrsem : string -> A -> A.
Variable callsem : A -> list A -> list (string * A) -> A.

Notation dunder := (dunder_model A opsem unsem).
Notation evalx := (eval A opsem unsem attrsem callsem).
Notation val := (val_at A opsem unsem attrsem callsem).

Lemma bin_result d f r self o :
  spec_lookup d = Some (f, r, 2) ->
  dunder d self [o] =
  match o with
  | OIgnored => DNotImplemented
  | OIter t => DStream (if r then lzip (opsem f) t self else lzip (opsem f) self t)
  | OScalar c => DStream (lmap (fun a => apply2 A opsem f r a c) self)
  end.
Proof.
  intro H. rewrite (dunder_char A opsem unsem _ _ _ _ self [o] H).
  destruct r, o; reflexivity.
Qed.

Lemma bin_pointwise_lemma d f r self o s :
  spec_lookup d = Some (f, r, 2) -> dunder d self [o] = DStream s ->
  forall i, lnth s i = bin_at A opsem f r self o i.
Proof.
  intros H E i. rewrite (bin_result _ _ _ _ _ H) in E. unfold bin_at, apply2.
  destruct o as [|t|c]; [discriminate| |]; inversion E; subst; clear E; simpl.
  - destruct r; rewrite lnth_lzip; destruct (lnth self i), (lnth t i); reflexivity.
  - rewrite lnth_lmap. destruct (lnth self i); reflexivity.
Qed.

Lemma bin_length_lemma d f r self o s :
  spec_lookup d = Some (f, r, 2) -> dunder d self [o] = DStream s ->
  llen s = bin_len A self o.
Proof.
  intros H E. rewrite (bin_result _ _ _ _ _ H) in E. unfold bin_len.
  destruct o as [|t|c]; [discriminate| |]; inversion E; subst; clear E; simpl.
  - destruct r; rewrite llen_lzip; [apply omin_comm|reflexivity].
  - rewrite llen_lmap, omin_None_r. reflexivity.
Qed.

Lemma bin_total_lemma d f r self o :
  spec_lookup d = Some (f, r, 2) -> o <> OIgnored -> exists s, dunder d self [o] = DStream s.
Proof.
  intros H Ho. rewrite (bin_result _ _ _ _ _ H). destruct o; [congruence| |]; eexists; reflexivity.
Qed.

Lemma un_pointwise_lemma d f self :
  spec_lookup d = Some (f, false, 1) ->
  exists s, dunder d self [] = DStream s /\
            (forall i, lnth s i = option_map (unsem f) (lnth self i)) /\ llen s = llen self.
Proof.
  intro H. rewrite (dunder_char A opsem unsem _ _ _ _ self [] H). unfold unary_tpl.
  eexists. split; [reflexivity|]. split; [intro i; apply lnth_lmap|apply llen_lmap].
Qed.

(* ------------------------------------------------------------------ expression trees *)
Lemma len_spec_bin d e1 e2 : len_spec A (Bin d e1 e2) = omin (len_spec A e1) (len_spec A e2).
Proof. unfold len_spec. simpl. rewrite map_app. apply fold_omin_app. Qed.
Lemma len_spec_bini d e1 o : len_spec A (BinI d e1 o) = omin (len_spec A e1) (llen o).
Proof. unfold len_spec. simpl. rewrite map_app, fold_omin_app. simpl. rewrite omin_None_r. reflexivity. Qed.

Lemma expr_total_lemma e : wf A e -> exists s, evalx e = Some s.
Proof.
  induction e as [s|d e IH|d e1 IH1 e2 IH2|d e IH o|d e IH c|e IH|n e IH|e IH args kw|g e IH]; simpl.
  - intros _. eexists; reflexivity.
  - intros [[f Hf] Hw]. destruct (IH Hw) as [s Es]. rewrite Es.
    destruct (un_pointwise_lemma _ _ s Hf) as [s' [E _]]. rewrite E. eexists; reflexivity.
  - intros [[f [r Hf]] [Hw1 Hw2]]. destruct (IH1 Hw1) as [s1 E1]. destruct (IH2 Hw2) as [s2 E2].
    rewrite E1, E2, (bin_result _ _ _ _ _ Hf). eexists; reflexivity.
  - intros [[f [r Hf]] Hw]. destruct (IH Hw) as [s1 E1].
    rewrite E1, (bin_result _ _ _ _ _ Hf). eexists; reflexivity.
  - intros [[f [r Hf]] Hw]. destruct (IH Hw) as [s1 E1].
    rewrite E1, (bin_result _ _ _ _ _ Hf). eexists; reflexivity.
  - intro Hw. destruct (IH Hw) as [s1 E1]. rewrite E1. eexists; reflexivity.
  - intros [Hn Hw]. destruct (IH Hw) as [s1 E1]. rewrite E1. unfold getattr_model.
    destruct (String.eqb n "__next__") eqn:E; [apply String.eqb_eq in E; contradiction|].
    eexists; reflexivity.
  - intro Hw. destruct (IH Hw) as [s1 E1]. rewrite E1. eexists; reflexivity.
  - intro Hw. destruct (IH Hw) as [s1 E1]. rewrite E1. eexists; reflexivity.
Qed.

Lemma expr_sem_lemma e : wf A e -> forall s, evalx e = Some s ->
  (forall i, lnth s i = val e i) /\ llen s = len_spec A e.
Proof.
  induction e as [s0|d e IH|d e1 IH1 e2 IH2|d e IH o|d e IH c|e IH|n e IH|e IH args kw|g e IH]; simpl.
  - intros _ s E. inversion E; subst. split; [reflexivity|].
    unfold len_spec. simpl. rewrite omin_None_r. reflexivity.
  - intros [[f Hf] Hw] s E. destruct (evalx e) as [s1|] eqn:E1; [|discriminate].
    destruct (IH Hw s1 eq_refl) as [P Ln].
    destruct (un_pointwise_lemma _ _ s1 Hf) as [s' [E' [P' L']]]. rewrite E' in E. simpl in E.
    inversion E; subst. split.
    + intro i. rewrite P', P, Hf. destruct (val e i); reflexivity.
    + rewrite L', Ln. reflexivity.
  - intros [[f [r Hf]] [Hw1 Hw2]] s E.
    destruct (evalx e1) as [s1|] eqn:E1; [|discriminate].
    destruct (evalx e2) as [s2|] eqn:E2; [|discriminate].
    destruct (IH1 Hw1 s1 eq_refl) as [P1 L1]. destruct (IH2 Hw2 s2 eq_refl) as [P2 L2].
    destruct (dunder d s1 [OIter s2]) as [|s'| |] eqn:Ed; try discriminate. simpl in E. inversion E; subst.
    split.
    + intro i. rewrite (bin_pointwise_lemma _ _ _ _ _ _ Hf Ed). unfold bin_at. simpl.
      rewrite Hf, P1, P2. destruct (val e1 i), (val e2 i); reflexivity.
    + rewrite (bin_length_lemma _ _ _ _ _ _ Hf Ed), len_spec_bin. unfold bin_len. simpl.
      rewrite L1, L2. reflexivity.
  - intros [[f [r Hf]] Hw] s E.
    destruct (evalx e) as [s1|] eqn:E1; [|discriminate].
    destruct (IH Hw s1 eq_refl) as [P1 L1].
    destruct (dunder d s1 [OIter o]) as [|s'| |] eqn:Ed; try discriminate. simpl in E. inversion E; subst.
    split.
    + intro i. rewrite (bin_pointwise_lemma _ _ _ _ _ _ Hf Ed). unfold bin_at. simpl.
      rewrite Hf, P1. destruct (val e i), (lnth o i); reflexivity.
    + rewrite (bin_length_lemma _ _ _ _ _ _ Hf Ed), len_spec_bini. unfold bin_len. simpl.
      rewrite L1. reflexivity.
  - intros [[f [r Hf]] Hw] s E.
    destruct (evalx e) as [s1|] eqn:E1; [|discriminate].
    destruct (IH Hw s1 eq_refl) as [P1 L1].
    destruct (dunder d s1 [OScalar c]) as [|s'| |] eqn:Ed; try discriminate. simpl in E. inversion E; subst.
    split.
    + intro i. rewrite (bin_pointwise_lemma _ _ _ _ _ _ Hf Ed). unfold bin_at. simpl.
      rewrite Hf, P1. destruct (val e i); reflexivity.
    + rewrite (bin_length_lemma _ _ _ _ _ _ Hf Ed). unfold bin_len. simpl.
      rewrite omin_None_r, L1. reflexivity.
  - intros Hw s E. destruct (evalx e) as [s1|] eqn:E1; [|discriminate].
    destruct (IH Hw s1 eq_refl) as [P1 L1]. inversion E; subst. unfold abs_model. split.
    + intro i. rewrite lnth_lmap, P1. reflexivity.
    + rewrite llen_lmap. exact L1.
  - intros [Hn Hw] s E. destruct (evalx e) as [s1|] eqn:E1; [|discriminate].
    destruct (IH Hw s1 eq_refl) as [P1 L1]. unfold getattr_model in E.
    destruct (String.eqb n "__next__"); [discriminate|]. inversion E; subst. split.
    + intro i. rewrite lnth_lmap, P1. reflexivity.
    + rewrite llen_lmap. exact L1.
  - intros Hw s E. destruct (evalx e) as [s1|] eqn:E1; [|discriminate].
    destruct (IH Hw s1 eq_refl) as [P1 L1]. inversion E; subst. unfold call_model. split.
    + intro i. rewrite lnth_lmap, P1. reflexivity.
    + rewrite llen_lmap. exact L1.  - intros Hw s E. destruct (evalx e) as [s1|] eqn:E1; [|discriminate].
    destruct (IH Hw s1 eq_refl) as [P1 L1]. inversion E; subst. split.
    + intro i. rewrite lnth_lmap, P1. reflexivity.
    + rewrite llen_lmap. exact L1.
Qed.

Lemma expr_pointwise_lemma e s : wf A e -> evalx e = Some s -> forall i, lnth s i = val e i.
Proof. intros Hw E. exact (proj1 (expr_sem_lemma e Hw s E)). Qed.
Lemma expr_length_lemma e s : wf A e -> evalx e = Some s ->
  llen s = fold_right omin None (map llen (leaves A e)).
Proof. intros Hw E. exact (proj2 (expr_sem_lemma e Hw s E)). Qed.

Lemma wfb_wf e : wfb A e = true <-> wf A e.
Proof.
  induction e as [s0|d e IH|d e1 IH1 e2 IH2|d e IH o|d e IH c|e IH|n e IH|e IH args kw|g e IH]; simpl.
  - split; auto.
  - destruct (spec_lookup d) as [[[f r] a]|].
    + destruct r; [split; [discriminate|intros [[f' H] _]; discriminate]|].
      destruct a as [|[|a]]; try (split; [discriminate|intros [[f' H] _]; discriminate]).
      rewrite IH. split; [intro H; split; [exists f; reflexivity|exact H]|intros [_ H]; exact H].
    + split; [discriminate|intros [[f' H] _]; discriminate].
  - destruct (spec_lookup d) as [[[f r] a]|].
    + destruct a as [|[|[|a]]]; try (split; [discriminate|intros [[f' [r' H]] _]; discriminate]).
      rewrite andb_true_iff, IH1, IH2.
      split; [intro H; split; [exists f, r; reflexivity|exact H]|intros [_ H]; exact H].
    + split; [discriminate|intros [[f' [r' H]] _]; discriminate].
  - destruct (spec_lookup d) as [[[f r] a]|].
    + destruct a as [|[|[|a]]]; try (split; [discriminate|intros [[f' [r' H]] _]; discriminate]).
      rewrite IH. split; [intro H; split; [exists f, r; reflexivity|exact H]|intros [_ H]; exact H].
    + split; [discriminate|intros [[f' [r' H]] _]; discriminate].
  - destruct (spec_lookup d) as [[[f r] a]|].
    + destruct a as [|[|[|a]]]; try (split; [discriminate|intros [[f' [r' H]] _]; discriminate]).
      rewrite IH. split; [intro H; split; [exists f, r; reflexivity|exact H]|intros [_ H]; exact H].
    + split; [discriminate|intros [[f' [r' H]] _]; discriminate].
  - exact IH.
  - rewrite andb_true_iff, negb_true_iff, IH. split; intros [H1 H2]; split; try assumption.
    + intro E. subst. discriminate.
    + destruct (String.eqb n "__next__") eqn:E; [apply String.eqb_eq in E; contradiction|reflexivity].
  - exact IH.  - exact IH.
Qed.

(* ------------------------------------------------------------------ observations *)
Lemma flat_map_nil {T U} (g : T -> list U) l : (forall x, In x l -> g x = []) -> flat_map g l = [].
Proof.
  induction l as [|x r IH]; simpl; intro H; [reflexivity|].
  rewrite (H x (or_introl eq_refl)), IH; [reflexivity|]. intros y Hy. apply H. right. exact Hy.
Qed.
Lemma flat_map_map {T U V} (g : U -> list V) (h : T -> U) l : flat_map g (map h l) = flat_map (fun x => g (h x)) l.
Proof. induction l as [|x r IH]; simpl; [|rewrite IH]; reflexivity. Qed.

Definition olist (x : option A) : list A := match x with Some a => [a] | None => [] end.

Lemma firstn_prefix (l : list A) : forall n,
  firstn n l = flat_map (fun i => olist (nth_error l i)) (seq 0 n).
Proof.
  induction l as [|a r IH]; intro n.
  - rewrite firstn_nil. symmetry. apply flat_map_nil. intros i _. destruct i; reflexivity.
  - destruct n as [|n]; [reflexivity|]. simpl. f_equal.
    rewrite <- seq_shift, flat_map_map. apply IH.
Qed.

Lemma tabulate_prefix (g : nat -> A) : forall n off,
  tabulate g off n = flat_map (fun i => [g i]) (seq off n).
Proof. induction n as [|n IH]; intro off; simpl; [|rewrite IH]; reflexivity. Qed.

Lemma ltake_prefix (s : lseq A) n : ltake n s = prefix_at A (lnth s) n.
Proof.
  unfold prefix_at. destruct s as [l|g]; simpl.
  - apply firstn_prefix.
  - apply tabulate_prefix.
Qed.

(* a sequence with the specified items and length is observed as the specification says *)
Lemma observe_sound cap (s : lseq A) at_ len :
  (forall i, lnth s i = at_ i) -> llen s = len -> observe A cap s = spec_obs A cap len at_.
Proof.
  intros P Ln. unfold observe, spec_obs. f_equal.
  - rewrite ltake_prefix. unfold prefix_at. apply flat_map_ext. intro i. rewrite P. reflexivity.
  - subst. destruct s; reflexivity.
Qed.

Lemma expr_observation_lemma e s cap :
  wf A e -> evalx e = Some s -> observe A cap s = spec_obs A cap (len_spec A e) (val e).
Proof.
  intros Hw E. destruct (expr_sem_lemma e Hw s E) as [P Ln]. apply observe_sound; assumption.
Qed.

(* ------------------------------------------------------------------ getattr / call / abs *)
Lemma getattr_call_lemma name args kw (s : lseq A) :
  name <> "__next__" ->
  exists r, getattr_model A attrsem name s = Some r /\
            (forall i, lnth r i = option_map (attrsem name) (lnth s i)) /\ llen r = llen s /\
            (forall i, lnth (call_model A callsem r args kw) i
                       = option_map (fun a => callsem (attrsem name a) args kw) (lnth s i)) /\
            llen (call_model A callsem r args kw) = llen s /\
            (forall i, lnth (abs_model A unsem s) i = option_map (unsem "abs") (lnth s i)) /\
            llen (abs_model A unsem s) = llen s.
Proof.
  intro Hn. unfold getattr_model, call_model, abs_model.
  destruct (String.eqb name "__next__") eqn:E; [apply String.eqb_eq in E; contradiction|].
  eexists. split; [reflexivity|].
  repeat split; intros; rewrite ?lnth_lmap, ?llen_lmap; try reflexivity.
  destruct (lnth s i); reflexivity.
Qed.
End OpProofs.

(* ------------------------------------------------------------------ elementwise *)
Section EwProofs.
Variable A : Type.
Variable eqA : A -> A -> bool.
Variable f : list (pyval A) -> list (string * pyval A) -> A.

Lemma kw_get_first name (kw : list (string * pyval A)) : kw_get A name kw = kw_first A name kw.
Proof. induction kw as [|[k v] r IH]; simpl; [reflexivity|]. rewrite IH. reflexivity. Qed.

Lemma replace_nth_split {T} (x : T) : forall l p, p < List.length l ->
  replace_nth p x l = (firstn p l ++ [x] ++ skipn (S p) l)%list.
Proof.
  induction l as [|y r IH]; intros p Hp; simpl in Hp; [lia|].
  destruct p as [|p]; simpl; [reflexivity|]. rewrite IH by lia. reflexivity.
Qed.

Lemma kw_replace_absent name x (kw : list (string * pyval A)) :
  ~ In name (map fst kw) -> kw_replace A name x kw = kw.
Proof.
  induction kw as [|[k v] r IH]; simpl; intro H; [reflexivity|].
  unfold kw_replace in *. simpl.
  destruct (String.eqb k name) eqn:E.
  - apply String.eqb_eq in E. subst. exfalso. apply H. left. reflexivity.
  - f_equal. apply IH. intro Hin. apply H. right. exact Hin.
Qed.

(* on a dictionary (distinct keys) that has the key, replacing the first entry = replacing every entry *)
Lemma kw_set_replace name x (kw : list (string * pyval A)) :
  NoDup (map fst kw) -> kw_first A name kw <> None -> kw_set A name x kw = kw_replace A name x kw.
Proof.
  induction kw as [|[k v] r IH]; simpl; intros Hd Hk; [congruence|].
  inversion Hd as [|? ? Hnin Hd']; subst.
  unfold kw_replace. simpl. destruct (String.eqb k name) eqn:E.
  - apply String.eqb_eq in E. subst. f_equal. symmetry. apply (kw_replace_absent name x r Hnin).
  - f_equal. apply IH; assumption.
Qed.

Definition ew_expected (name : string) (pos : option nat) (args : list (pyval A))
           (kw : list (string * pyval A)) (mcall : A -> A) : ewres A :=
  match spec_primary A name pos args kw with
  | None => ERaise "KeyError"
  | Some (PCont k vals) =>
    let data := lmap mcall vals in
    if is_somegen k then EVal (PCont KGen data)
    else if is_streamcls k then EVal (PCont KStream data)
    else match data with
         | Fin l => EVal (PCont k (Fin (if is_setlike k then dedup A eqA l else l)))
         | Inf _ => ERaise "Hang"
         end
  | Some _ => EVal (PScalar (f args kw))
  end.

Lemma ew_shape name pos args kw :
  NoDup (map fst kw) ->
  exists mcall,
    (spec_primary A name pos args kw <> None -> forall x, mcall x = spec_call A f name pos args kw x) /\
    ew_model A eqA f name pos args kw = ew_expected name pos args kw mcall.
Proof.
  intro Hd. unfold ew_model, ew_expected, spec_primary, spec_call, spec_where.
  set (pos' := match pos with Some p => Some p | None => if String.eqb name "" then Some 0 else None end).
  destruct pos' as [p|].
  - destruct (Nat.ltb p (List.length args)) eqn:Ep.
    + apply Nat.ltb_lt in Ep.
      exists (fun x => f (firstn p args ++ [PScalar x] ++ skipn (S p) args)%list kw). split.
      * intros _ x. rewrite replace_nth_split by exact Ep. reflexivity.
      * destruct (nth_error args p) as [[a|a|k vals]|]; reflexivity.
    + exists (fun x => f args (kw_set A name (PScalar x) kw)). split.
      * intros Hp x. rewrite kw_set_replace; [reflexivity|exact Hd|exact Hp].
      * rewrite kw_get_first. destruct (kw_first A name kw) as [[a|a|k vals]|]; reflexivity.
  - exists (fun x => f args (kw_set A name (PScalar x) kw)). split.
    + intros Hp x. rewrite kw_set_replace; [reflexivity|exact Hd|exact Hp].
    + rewrite kw_get_first. destruct (kw_first A name kw) as [[a|a|k vals]|]; reflexivity.
Qed.

(* scalar in, scalar out; a string is a scalar *)
Lemma elementwise_scalar_lemma name pos args kw a :
  NoDup (map fst kw) ->
  spec_primary A name pos args kw = Some (PScalar a) \/ spec_primary A name pos args kw = Some (PStr a) ->
  ew_model A eqA f name pos args kw = EVal (PScalar (f args kw)).
Proof.
  intros Hd H. destruct (ew_shape name pos args kw Hd) as [mc [_ E]]. rewrite E. unfold ew_expected.
  destruct H as [H|H]; rewrite H; reflexivity.
Qed.

(* same kind of container out as in *)
Lemma elementwise_kind_lemma name pos args kw k vals :
  NoDup (map fst kw) ->
  spec_primary A name pos args kw = Some (PCont k vals) ->
  (is_eager k = true -> exists l, vals = Fin l) ->
  exists data, ew_model A eqA f name pos args kw = EVal (PCont (spec_kind k) data).
Proof.
  intros Hd H He. destruct (ew_shape name pos args kw Hd) as [mc [_ E]]. rewrite E. unfold ew_expected.
  rewrite H. destruct k; simpl; try (eexists; reflexivity);
    (destruct He as [l El]; [reflexivity|subst; simpl; eexists; reflexivity]).
Qed.

Lemma option_map_ext {T U} (g h : T -> U) (o : option T) : (forall x, g x = h x) -> option_map g o = option_map h o.
Proof. intro H. destruct o; simpl; [rewrite H|]; reflexivity. Qed.

(* ordered containers: i-th value out = function of the i-th value in, other arguments unchanged; same length *)
Lemma elementwise_values_lemma name pos args kw k vals k' data :
  NoDup (map fst kw) ->
  spec_primary A name pos args kw = Some (PCont k vals) ->
  is_setlike k = false ->
  ew_model A eqA f name pos args kw = EVal (PCont k' data) ->
  k' = spec_kind k /\
  (forall i, lnth data i = option_map (spec_call A f name pos args kw) (lnth vals i)) /\
  llen data = llen vals.
Proof.
  intros Hd H Hs. destruct (ew_shape name pos args kw Hd) as [mc [Hm E]]. rewrite E. unfold ew_expected.
  rewrite H. assert (Hm' : forall x, mc x = spec_call A f name pos args kw x) by (apply Hm; congruence).
  assert (P : forall i, lnth (lmap mc vals) i = option_map (spec_call A f name pos args kw) (lnth vals i))
    by (intro i; rewrite lnth_lmap; apply option_map_ext; exact Hm').
  pose proof (llen_lmap mc vals) as L.
  destruct k; simpl in *; try discriminate; intro R;
    try (inversion R; subst; split; [reflexivity|split; [exact P|exact L]]);
    (destruct vals as [l|g]; simpl in *; [|discriminate]; inversion R; subst;
     split; [reflexivity|split; [exact P|exact L]]).
Qed.

Hypothesis eqA_spec : forall x y, eqA x y = true <-> x = y.

Lemma dedup_In l y : In y (dedup A eqA l) <-> In y l.
Proof.
  induction l as [|x r IH]; simpl; [tauto|].
  destruct (existsb (eqA x) r) eqn:E.
  - rewrite IH. split; [intro H; right; exact H|].
    intros [H|H]; [|exact H]. subst. apply existsb_exists in E as [z [Hz Ez]].
    apply eqA_spec in Ez. subst. exact Hz.
  - simpl. rewrite IH. tauto.
Qed.

Lemma dedup_NoDup l : NoDup (dedup A eqA l).
Proof.
  induction l as [|x r IH]; simpl; [constructor|].
  destruct (existsb (eqA x) r) eqn:E; [exact IH|].
  constructor; [|exact IH]. rewrite dedup_In. intro Hin.
  assert (existsb (eqA x) r = true) by (apply existsb_exists; exists x; split; [exact Hin|apply eqA_spec; reflexivity]).
  congruence.
Qed.

(* sets: no repeated value, and a value is in the result iff it is the function of a member *)
Lemma elementwise_set_lemma name pos args kw k l k' data :
  NoDup (map fst kw) ->
  spec_primary A name pos args kw = Some (PCont k (Fin l)) ->
  is_setlike k = true ->
  ew_model A eqA f name pos args kw = EVal (PCont k' data) ->
  k' = k /\ exists l', data = Fin l' /\ NoDup l' /\
  forall y, In y l' <-> exists x, In x l /\ y = spec_call A f name pos args kw x.
Proof.
  intros Hd H Hs. destruct (ew_shape name pos args kw Hd) as [mc [Hm E]]. rewrite E. unfold ew_expected.
  rewrite H. assert (Hm' : forall x, mc x = spec_call A f name pos args kw x) by (apply Hm; congruence).
  destruct k; simpl in *; try discriminate; intro R; inversion R; subst;
    (split; [reflexivity|]; eexists; split; [reflexivity|]; split; [apply dedup_NoDup|];
     intro y; rewrite dedup_In, in_map_iff; split;
     [intros [x [Ex Hx]]; exists x; split; [exact Hx|rewrite <- Hm'; symmetry; exact Ex]
     |intros [x [Hx Ex]]; exists x; split; [rewrite Hm'; symmetry; exact Ex|exact Hx]]).
Qed.
End EwProofs.

(* ------------------------------------------------------------------ the wrapper table *)
Definition wrapper_ok (w : wrapper) : bool :=
  match w_pos w with Some 0 => negb (String.eqb (w_name w) "") | _ => false end.

Lemma wrappers_all_ok : forallb wrapper_ok gen_wrappers = true.
Proof. vm_compute. reflexivity. Qed.

Definition covered (n : string) : bool :=
  existsb (fun w => String.eqb (w_fname w) n && wrapper_ok w) gen_wrappers.
Lemma wrappers_cover : forallb covered (gen_math_names ++ spec_extra_wrapped)%list = true.
Proof. vm_compute. reflexivity. Qed.
Lemma wrapper_names_nodup : str_nodup (map w_fname gen_wrappers) = true.
Proof. vm_compute. reflexivity. Qed.

Lemma math_wrappers_covered_lemma :
  (forall n, In n (gen_math_names ++ spec_extra_wrapped)%list ->
     exists w, In w gen_wrappers /\ w_fname w = n /\ w_pos w = Some 0 /\ w_name w <> "") /\
  (forall w, In w gen_wrappers -> w_pos w = Some 0 /\ w_name w <> "") /\
  NoDup (map w_fname gen_wrappers).
Proof.
  assert (K : forall w, wrapper_ok w = true -> w_pos w = Some 0 /\ w_name w <> "").
  { intros w H. unfold wrapper_ok in H. destruct (w_pos w) as [[|p]|]; try discriminate.
    split; [reflexivity|]. intro E. rewrite E in H. discriminate. }
  split; [|split].
  - intros n Hn. pose proof (proj1 (forallb_forall _ _) wrappers_cover _ Hn) as C.
    unfold covered in C. apply existsb_exists in C as [w [Hw C]].
    apply andb_true_iff in C as [C1 C2]. apply String.eqb_eq in C1.
    exists w. destruct (K w C2). repeat split; assumption.
  - intros w Hw. apply K. apply (proj1 (forallb_forall _ _) wrappers_all_ok _ Hw).
  - apply str_nodup_NoDup, wrapper_names_nodup.
Qed.

(* "the result ends exactly when the shortest iterable operand ends" *)
Lemma expr_length_shortest_lemma A opsem unsem attrsem callsem (e : sexpr A) s :
  wf A e -> eval A opsem unsem attrsem callsem e = Some s ->
  match llen s with
  | None => forall t, In t (leaves A e) -> llen t = None
  | Some m => (exists t, In t (leaves A e) /\ llen t = Some m) /\
              (forall t n, In t (leaves A e) -> llen t = Some n -> m <= n)
  end.
Proof.
  intros Hw E. destruct (expr_sem_lemma A opsem unsem attrsem callsem e Hw s E) as [_ L].
  rewrite L. unfold len_spec. pose proof (fold_omin_spec (map llen (leaves A e))) as K.
  destruct (fold_right omin None (map llen (leaves A e))) as [m|].
  - destruct K as [Hin Hle]. split.
    + apply in_map_iff in Hin as [t [Et Ht]]. exists t. split; assumption.
    + intros t n Ht En. apply Hle. rewrite <- En. apply in_map. exact Ht.
  - intros t Ht. apply K. apply in_map. exact Ht.
Qed.

(* ------------------------------------------------------------------ wf is exactly "evaluates" *)
Lemma dunder_stream_shape A (opsem : string -> A -> A -> A) (unsem : string -> A -> A) d self others s :
  dunder_model A opsem unsem d self others = DStream s ->
  exists f r a, spec_lookup d = Some (f, r, a) /\
    ((r = false /\ a = 1 /\ others = []) \/ (a = 2 /\ exists o, others = [o])).
Proof.
  intro H. destruct (spec_lookup d) as [[[f r] a]|] eqn:E.
  - rewrite (dunder_char A opsem unsem _ _ _ _ self others E) in H. exists f, r, a. split; [reflexivity|].
    destruct r; destruct a as [|[|[|a]]]; try discriminate;
      destruct others as [|o [|o2 t]]; try discriminate.
    + right. split; [reflexivity|]. exists o. reflexivity.
    + left. repeat split.
    + right. split; [reflexivity|]. exists o. reflexivity.
  - rewrite (dunder_unknown A opsem unsem d self others E) in H. discriminate.
Qed.

Lemma eval_some_wf A opsem unsem attrsem callsem (e : sexpr A) :
  forall s, eval A opsem unsem attrsem callsem e = Some s -> wf A e.
Proof.
  induction e as [s0|d e IH|d e1 IH1 e2 IH2|d e IH o|d e IH c|e IH|n e IH|e IH args kw|g e IH]; simpl; intros s E.
  - exact I.
  - destruct (eval A opsem unsem attrsem callsem e) as [s1|] eqn:E1; [|discriminate].
    split; [|apply (IH s1 eq_refl)].
    destruct (dunder_model A opsem unsem d s1 []) as [|s'| |] eqn:Ed; try discriminate.
    destruct (dunder_stream_shape _ _ _ _ _ _ _ Ed) as [f [r [a [Hl [[Hr [Ha _]]|[_ [o Ho]]]]]]]; [|discriminate].
    subst. exists f. exact Hl.
  - destruct (eval A opsem unsem attrsem callsem e1) as [s1|] eqn:E1; [|discriminate].
    destruct (eval A opsem unsem attrsem callsem e2) as [s2|] eqn:E2; [|discriminate].
    split; [|split; [apply (IH1 s1 eq_refl)|apply (IH2 s2 eq_refl)]].
    destruct (dunder_model A opsem unsem d s1 [OIter s2]) as [|s'| |] eqn:Ed; try discriminate.
    destruct (dunder_stream_shape _ _ _ _ _ _ _ Ed) as [f [r [a [Hl [[_ [_ Ho]]|[Ha _]]]]]]; [discriminate|].
    subst. exists f, r. exact Hl.
  - destruct (eval A opsem unsem attrsem callsem e) as [s1|] eqn:E1; [|discriminate].
    split; [|apply (IH s1 eq_refl)].
    destruct (dunder_model A opsem unsem d s1 [OIter o]) as [|s'| |] eqn:Ed; try discriminate.
    destruct (dunder_stream_shape _ _ _ _ _ _ _ Ed) as [f [r [a [Hl [[_ [_ Ho]]|[Ha _]]]]]]; [discriminate|].
    subst. exists f, r. exact Hl.
  - destruct (eval A opsem unsem attrsem callsem e) as [s1|] eqn:E1; [|discriminate].
    split; [|apply (IH s1 eq_refl)].
    destruct (dunder_model A opsem unsem d s1 [OScalar c]) as [|s'| |] eqn:Ed; try discriminate.
    destruct (dunder_stream_shape _ _ _ _ _ _ _ Ed) as [f [r [a [Hl [[_ [_ Ho]]|[Ha _]]]]]]; [discriminate|].
    subst. exists f, r. exact Hl.
  - destruct (eval A opsem unsem attrsem callsem e) as [s1|] eqn:E1; [|discriminate]. apply (IH s1 eq_refl).
  - destruct (eval A opsem unsem attrsem callsem e) as [s1|] eqn:E1; [|discriminate].
    split; [|apply (IH s1 eq_refl)]. unfold getattr_model in E.
    intro En. subst. simpl in E. discriminate.
  - destruct (eval A opsem unsem attrsem callsem e) as [s1|] eqn:E1; [|discriminate]. apply (IH s1 eq_refl).  - destruct (eval A opsem unsem attrsem callsem e) as [s1|] eqn:E1; [|discriminate]. apply (IH s1 eq_refl).
Qed.

Lemma eval_iff_wf A opsem unsem attrsem callsem (e : sexpr A) :
  wf A e <-> exists s, eval A opsem unsem attrsem callsem e = Some s.
Proof.
  split; [apply expr_total_lemma|]. intros [s E]. apply (eval_some_wf _ _ _ _ _ _ _ E).
Qed.

(* a broadcasting function applied to a Stream (or a subclass of it) at its broadcast position is the
   Stream of the function's values, the other arguments fixed: the FunE node of expressions *)
Lemma ew_on_stream A eqA (f : list (pyval A) -> list (string * pyval A) -> A) name before s after kw k :
  is_streamcls k = true ->
  ew_model A eqA f name (Some (List.length before)) (before ++ PCont k s :: after)%list kw
  = EVal (PCont KStream (lmap (fun x => f (before ++ PScalar x :: after)%list kw) s)).
Proof.
  intro Hk. unfold ew_model.
  assert (Hlt : Nat.ltb (List.length before) (List.length (before ++ PCont k s :: after)%list) = true).
  { apply Nat.ltb_lt. rewrite app_length. simpl. lia. }
  rewrite Hlt.
  rewrite nth_error_app2 by lia. rewrite Nat.sub_diag. simpl nth_error. cbv iota.
  rewrite firstn_app, Nat.sub_diag, firstn_all. simpl firstn. rewrite app_nil_r.
  replace (skipn (S (List.length before)) (before ++ PCont k s :: after)%list) with after.
  2:{ replace (S (List.length before)) with (List.length (before ++ [PCont k s])%list)
        by (rewrite app_length; simpl; lia).
      replace (before ++ PCont k s :: after)%list with ((before ++ [PCont k s]) ++ after)%list
        by (rewrite <- app_assoc; reflexivity).
      rewrite skipn_app, Nat.sub_diag, skipn_all. reflexivity. }
  destruct k; simpl in Hk; try discriminate; reflexivity.
Qed.
