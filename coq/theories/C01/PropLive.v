(* C01 - live operands (lists mutated between construction and consumption and between pulls). *)
From Coq Require Import List String Bool Arith ZArith.
From AL Require Import Base.CaseLib C01.OpDefs C01.Gen_OpTable C01.Model C01.Spec C01.Check C01.Live C01.LiveCheck
  C01.Proofs C01.ProofsLive.
Import ListNotations.
Open Scope string_scope.

(* Untouched lists: n pulls of the machine = positions 0..n-1 of the sequence model's value
   (None = StopIteration), for every expression, heap and oracle. *)
Theorem C01_live_static_agrees :
  forall A opsem unsem attrsem callsem (h : heap A) (e : lexpr A) s n,
  fresh A e = true -> eval A opsem unsem attrsem callsem (to_sexpr A h e) = Some s ->
  run_events A opsem unsem gen_shape h e (repeat EPull n) = map (lnth s) (seq 0 n).
Proof. exact live_static_lemma. Qed.
Print Assumptions C01_live_static_agrees.

(* Lists changed after the expression was built and before it is consumed: the result is the value
   over the lists as they are when consumption starts (lengths are not frozen at construction). *)
Theorem C01_live_reads_at_consumption :
  forall A opsem unsem attrsem callsem (h : heap A) (e : lexpr A) muts s n,
  fresh A e = true -> forallb (is_mutation A) muts = true ->
  eval A opsem unsem attrsem callsem (to_sexpr A (apply_muts A h muts) e) = Some s ->
  run_events A opsem unsem gen_shape h e (muts ++ repeat EPull n) = map (lnth s) (seq 0 n).
Proof. exact live_reads_at_consumption_lemma. Qed.
Print Assumptions C01_live_reads_at_consumption.

(* non-vacuity: y = Stream([x0, x1, x2]) + mem with mem = [m0] used as feedback memory (each output is
   appended to mem before the next pull): three outputs, then the end of x. *)
Example C01_live_feedback_example :
  run_events term (o_opsem []) (o_unsem []) gen_shape
    [[TVar "x" 0; TVar "x" 1; TVar "x" 2]; [TVar "m" 0]]
    (LBinL "__add__" (LLeaf 0 0 false) 1 0 false)
    [EPull; EExtend 1 [TOp2 "__add__" (TVar "x" 0) (TVar "m" 0)];
     EPull; EExtend 1 [TOp2 "__add__" (TVar "x" 1) (TOp2 "__add__" (TVar "x" 0) (TVar "m" 0))];
     EPull; EPull] =
  [Some (TOp2 "__add__" (TVar "x" 0) (TVar "m" 0));
   Some (TOp2 "__add__" (TVar "x" 1) (TOp2 "__add__" (TVar "x" 0) (TVar "m" 0)));
   Some (TOp2 "__add__" (TVar "x" 2) (TOp2 "__add__" (TVar "x" 1) (TOp2 "__add__" (TVar "x" 0) (TVar "m" 0))));
   None].
Proof. vm_compute. reflexivity. Qed.
Print Assumptions C01_live_feedback_example.
