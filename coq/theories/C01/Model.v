(* C01 - executable model of
     StreamMeta.__binary__/__rbinary__/__unary__, the installation of the 35 dunders by
     AbstractOperatorOverloaderMeta.__new__ from the OpMethod table (Gen_OpTable.v, regenerated
     from lazy_core.py on every run), Stream.__getattr__/__call__/__abs__ (lazy_stream.py)
     and the elementwise decorator (lazy_misc.py).
   The meaning of Python's operators ON ELEMENTS is a section variable (an oracle), not an axiom.
   No proofs in this file. *)
From Coq Require Import List String Bool Arith.
From AL Require Import C01.OpDefs C01.Gen_OpTable.
Import ListNotations.
Open Scope string_scope.

(* ------------------------------------------------------------------ lazy sequences *)
(* what iterating a Python iterable produces: finitely many items, or endlessly many *)
Inductive lseq (A : Type) := Fin (l : list A) | Inf (f : nat -> A).
Arguments Fin {A} l.
Arguments Inf {A} f.

Section Lseq.
Context {A B C : Type}.

Definition lnth (s : lseq A) (i : nat) : option A :=
  match s with Fin l => nth_error l i | Inf f => Some (f i) end.

(* None = endless *)
Definition llen (s : lseq A) : option nat :=
  match s with Fin l => Some (List.length l) | Inf _ => None end.

(* map(f, it) *)
Definition lmap (f : A -> B) (s : lseq A) : lseq B :=
  match s with Fin l => Fin (map f l) | Inf g => Inf (fun i => f (g i)) end.

(* list against function, [off] = index of the head *)
Fixpoint zip_lf (f : A -> B -> C) (l : list A) (g : nat -> B) (off : nat) : list C :=
  match l with [] => [] | a :: r => f a (g off) :: zip_lf f r g (S off) end.
Fixpoint zip_fl (f : A -> B -> C) (g : nat -> A) (l : list B) (off : nat) : list C :=
  match l with [] => [] | b :: r => f (g off) b :: zip_fl f g r (S off) end.
Fixpoint zip_ll (f : A -> B -> C) (l1 : list A) (l2 : list B) : list C :=
  match l1, l2 with
  | a :: r1, b :: r2 => f a b :: zip_ll f r1 r2
  | _, _ => []
  end.

(* map(f, it1, it2): stops with the first iterator that stops *)
Definition lzip (f : A -> B -> C) (s : lseq A) (t : lseq B) : lseq C :=
  match s, t with
  | Fin l1, Fin l2 => Fin (zip_ll f l1 l2)
  | Fin l1, Inf g => Fin (zip_lf f l1 g 0)
  | Inf g, Fin l2 => Fin (zip_fl f g l2 0)
  | Inf g1, Inf g2 => Inf (fun i => f (g1 i) (g2 i))
  end.

Fixpoint tabulate (f : nat -> A) (off n : nat) : list A :=
  match n with O => [] | S n' => f off :: tabulate f (S off) n' end.

(* the first n items (itertools.islice) *)
Definition ltake (n : nat) (s : lseq A) : list A :=
  match s with Fin l => firstn n l | Inf f => tabulate f 0 n end.

(* did iteration stop before n items were produced? *)
Definition lended (n : nat) (s : lseq A) : bool :=
  match s with Fin l => Nat.ltb (List.length l) n | Inf _ => false end.
End Lseq.

(* it.cycle(l) / Stream(a, b, c); d is only the default of nth (unused when l <> []) *)
Definition cyc {A} (l : list A) (d : A) : nat -> A := fun i => nth (i mod List.length l) l d.

(* ------------------------------------------------------------------ operators *)
Section Ops.
Variable A : Type.
(* oracles: operator.<func>(a, b), operator.<func>(a) and abs(a), getattr(a, name), a applied to args and kwargs *)
Variable opsem : string -> A -> A -> A.
Variable unsem : string -> A -> A.
Variable attrsem : string -> A -> A.
Variable callsem : A -> list A -> list (string * A) -> A.

(* the "other" argument of a dunder, classified as the code classifies it *)
Inductive operand :=
| OIgnored                 (* isinstance(other, cls.__ignored_classes__) *)
| OIter (s : lseq A)       (* isinstance(other, Iterable): Stream, list, tuple, generator, ... *)
| OScalar (a : A).         (* anything else *)

Inductive dres :=
| DNotImplemented
| DStream (s : lseq A)
| DNoAttr                  (* no such operator dunder / not built from a template *)
| DTypeError.              (* wrong number of arguments *)

(* StreamMeta.__binary__ *)
Definition binary_tpl (func : string) (self : lseq A) (other : operand) : dres :=
  match other with
  | OIgnored => DNotImplemented
  | OIter o => DStream (lzip (opsem func) self o)
  | OScalar c => DStream (lmap (fun a => opsem func a c) self)
  end.

(* StreamMeta.__rbinary__ *)
Definition rbinary_tpl (func : string) (self : lseq A) (other : operand) : dres :=
  match other with
  | OIgnored => DNotImplemented
  | OIter o => DStream (lzip (opsem func) o self)
  | OScalar c => DStream (lmap (fun a => opsem func c a) self)
  end.

(* StreamMeta.__unary__ *)
Definition unary_tpl (func : string) (self : lseq A) : dres :=
  DStream (lmap (unsem func) self).

(* AbstractOperatorOverloaderMeta.__new__: setattr in table order, so the last entry with a
   given dunder name is the one that stays *)
Definition find_op (dname : string) : option opentry :=
  find (fun e => String.eqb (op_dname e) dname) (rev gen_optable).

Fixpoint assoc_ra (k : bool * nat) (l : list ((bool * nat) * string)) : option string :=
  match l with
  | [] => None
  | ((r, a), v) :: t =>
    let rest := assoc_ra k t in     (* a dict display keeps the LAST value of a repeated key *)
    match rest with
    | Some _ => rest
    | None => if Bool.eqb r (fst k) && Nat.eqb a (snd k) then Some v else None
    end
  end.
Definition builder_of (e : opentry) : option string := assoc_ra (op_rev e, op_arity e) gen_dispatch.

(* getattr(Stream, dname)(self, *others) *)
Definition dunder_model (dname : string) (self : lseq A) (others : list operand) : dres :=
  match find_op dname with
  | None => DNoAttr
  | Some e =>
    if str_mem dname gen_stream_namespace then DNoAttr     (* defined by hand: no template *)
    else match builder_of e with
    | None => DNoAttr                                      (* KeyError while building the class *)
    | Some b =>
      if String.eqb b "__binary__" then
        match others with [o] => binary_tpl (op_func e) self o | _ => DTypeError end
      else if String.eqb b "__rbinary__" then
        match others with [o] => rbinary_tpl (op_func e) self o | _ => DTypeError end
      else if String.eqb b "__unary__" then
        match others with [] => unary_tpl (op_func e) self | _ => DTypeError end
      else DNoAttr
    end
  end.

(* Stream.__abs__ = self.map(abs) *)
Definition abs_model (self : lseq A) : lseq A := lmap (unsem "abs") self.

(* Stream.__getattr__ *)
Definition getattr_model (name : string) (self : lseq A) : option (lseq A) :=
  if String.eqb name "__next__" then None              (* AttributeError *)
  else Some (lmap (attrsem name) self).

(* Stream.__call__ *)
Definition call_model (self : lseq A) (args : list A) (kw : list (string * A)) : lseq A :=
  lmap (fun a => callsem a args kw) self.

(* expressions built through the public operators; every leaf is its own fresh source *)
Inductive sexpr :=
| Leaf (s : lseq A)                                  (* Stream(iterable) / Stream(a, b, ...) *)
| Un (dname : string) (e : sexpr)                    (* getattr(e, dname)() *)
| Bin (dname : string) (e o : sexpr)                 (* getattr(e, dname)(o), o a Stream expression *)
| BinI (dname : string) (e : sexpr) (o : lseq A)     (* ... o a list / tuple / generator *)
| BinS (dname : string) (e : sexpr) (c : A)          (* ... o a non-iterable *)
| AbsE (e : sexpr)                                   (* abs(e) *)
| AttrE (name : string) (e : sexpr)                  (* e.name through Stream.__getattr__ *)
| CallE (e : sexpr) (args : list A) (kw : list (string * A))    (* e called with args and kw *)
| FunE (g : A -> A) (e : sexpr).      (* wrapped(e, ...): an elementwise-decorated function applied to a Stream
                                         expression, g = the function with its other arguments fixed; a Stream of
                                         g's values by the elementwise model (Proofs.ew_on_stream) *)

Definition dres_stream (d : dres) : option (lseq A) :=
  match d with DStream s => Some s | _ => None end.

Fixpoint eval (e : sexpr) : option (lseq A) :=
  match e with
  | Leaf s => Some s
  | Un d e1 =>
    match eval e1 with Some s => dres_stream (dunder_model d s []) | None => None end
  | Bin d e1 e2 =>
    match eval e1, eval e2 with
    | Some s, Some o => dres_stream (dunder_model d s [OIter o])
    | _, _ => None
    end
  | BinI d e1 o =>
    match eval e1 with Some s => dres_stream (dunder_model d s [OIter o]) | None => None end
  | BinS d e1 c =>
    match eval e1 with Some s => dres_stream (dunder_model d s [OScalar c]) | None => None end
  | AbsE e1 => match eval e1 with Some s => Some (abs_model s) | None => None end
  | AttrE n e1 => match eval e1 with Some s => getattr_model n s | None => None end
  | CallE e1 args kw => match eval e1 with Some s => Some (call_model s args kw) | None => None end
  | FunE g e1 => match eval e1 with Some s => Some (lmap g s) | None => None end
  end.
End Ops.

Arguments OIgnored {A}.
Arguments OIter {A} s.
Arguments OScalar {A} a.
Arguments DNotImplemented {A}.
Arguments DStream {A} s.
Arguments DNoAttr {A}.
Arguments DTypeError {A}.
Arguments Leaf {A} s.
Arguments Un {A} dname e.
Arguments Bin {A} dname e o.
Arguments BinI {A} dname e o.
Arguments BinS {A} dname e c.
Arguments AbsE {A} e.
Arguments AttrE {A} name e.
Arguments CallE {A} e args kw.
Arguments FunE {A} g e.

(* ------------------------------------------------------------------ elementwise *)
(* the classes elementwise distinguishes (plus the ones it does not, to state that) *)
Inductive ckind :=
| KList | KTuple | KDeque | KSet | KFrozenset
| KStream | KStreamSub                                (* Stream and a subclass of Stream *)
| KGen | KRange | KMap | KZip | KFilter | KEnumerate | KZipLongest.   (* SOME_GEN_TYPES *)

Definition ckind_eqb (a b : ckind) : bool :=
  match a, b with
  | KList, KList | KTuple, KTuple | KDeque, KDeque | KSet, KSet | KFrozenset, KFrozenset
  | KStream, KStream | KStreamSub, KStreamSub | KGen, KGen | KRange, KRange | KMap, KMap
  | KZip, KZip | KFilter, KFilter | KEnumerate, KEnumerate | KZipLongest, KZipLongest => true
  | _, _ => false
  end.

(* isinstance(arg, SOME_GEN_TYPES) *)
Definition is_somegen (k : ckind) : bool :=
  match k with KGen | KRange | KMap | KZip | KFilter | KEnumerate | KZipLongest => true | _ => false end.
(* issubclass(type(arg), Stream) *)
Definition is_streamcls (k : ckind) : bool :=
  match k with KStream | KStreamSub => true | _ => false end.
(* containers whose constructor drops repeated items *)
Definition is_setlike (k : ckind) : bool :=
  match k with KSet | KFrozenset => true | _ => false end.
(* containers built eagerly by type(arg)(data) *)
Definition is_eager (k : ckind) : bool := negb (is_somegen k) && negb (is_streamcls k).

Section Elementwise.
Variable A : Type.
Variable eqA : A -> A -> bool.

Inductive pyval :=
| PScalar (a : A)                       (* not Iterable *)
| PStr (a : A)                          (* Iterable, but an instance of STR_TYPES *)
| PCont (k : ckind) (vals : lseq A).    (* Iterable: what iterating it yields *)

(* oracle for the decorated function: func applied to args and kwargs *)
Variable f : list pyval -> list (string * pyval) -> A.

Inductive ewres := EVal (v : pyval) | ERaise (e : string).

Fixpoint kw_get (name : string) (kw : list (string * pyval)) : option pyval :=
  match kw with
  | [] => None
  | (k, v) :: r => if String.eqb k name then Some v else kw_get name r
  end.
(* dict(it.chain(iteritems(kwargs), [(name, x)])): the key keeps its place, the value is replaced *)
Fixpoint kw_set (name : string) (x : pyval) (kw : list (string * pyval)) : list (string * pyval) :=
  match kw with
  | [] => [(name, x)]
  | (k, v) :: r => if String.eqb k name then (k, x) :: r else (k, v) :: kw_set name x r
  end.

Fixpoint dedup (l : list A) : list A :=
  match l with
  | [] => []
  | x :: r => if existsb (eqA x) r then dedup r else x :: dedup r
  end.

(* the wrapper returned by elementwise(name, pos)(func), called with args / kwargs *)
Definition ew_model (name : string) (pos0 : option nat)
           (args : list pyval) (kwargs : list (string * pyval)) : ewres :=
  let pos := match pos0 with
             | None => if String.eqb name "" then Some 0 else None
             | Some p => Some p
             end in
  let positional := match pos with Some p => Nat.ltb p (List.length args) | None => false end in
  let p := match pos with Some p => p | None => 0 end in
  match (if positional then nth_error args p else kw_get name kwargs) with
  | None => ERaise "KeyError"
  | Some arg =>
    match arg with
    | PCont k vals =>        (* isinstance(arg, Iterable) and not isinstance(arg, STR_TYPES) *)
      let data :=
        if positional
        then lmap (fun x => f (firstn p args ++ [PScalar x] ++ skipn (S p) args) kwargs) vals
        else lmap (fun x => f args (kw_set name (PScalar x) kwargs)) vals in
      if is_somegen k then EVal (PCont KGen data)
      else if is_streamcls k then EVal (PCont KStream data)
      else match data with
           | Fin l => EVal (PCont k (Fin (if is_setlike k then dedup l else l)))
           | Inf _ => ERaise "Hang"     (* type_arg(data) on endless data never returns *)
           end
    | _ => EVal (PScalar (f args kwargs))
    end
  end.
End Elementwise.

Arguments PScalar {A} a.
Arguments PStr {A} a.
Arguments PCont {A} k vals.
Arguments EVal {A} v.
Arguments ERaise {A} e.
