(* C03 - take / islice / list(it) on the heap against take_seq on lassos. *)
From Coq Require Import List Bool ZArith Lia.
From AL Require Import C03.Spec C03.Model C03.Abs C03.AbsL C03.Proofs_Abs C03.Proofs_Leq C03.Proofs_Leq2
  C03.Proofs_AbsL C03.Proofs_PullL.
Import ListNotations.

Definition lfinite (s : lseq) (l : list Z) : Prop := cyc s = [] /\ dv s = false /\ pre s = l.

Lemma lfinite_stop : forall s, lnext s = PStop -> lfinite s [].
Proof. intros s H. rewrite (lnext_stop s H). repeat split. Qed.

Lemma lfinite_cons : forall s x s' l, lnext s = PItem x s' -> lfinite s' l -> lfinite s (x :: l).
Proof.
  intros [p c d] x s' l H (A & B & C). unfold lnext in H. cbn [pre cyc dv] in H. destruct p as [|y p].
  - destruct c as [|y c]; [destruct d; discriminate|]. inversion H; subst. cbn in A. discriminate.
  - inversion H; subst. cbn in *. subst. repeat split.
Qed.

Lemma lfinite_leq : forall s t l, leq s t -> lfinite s l -> lfinite t l.
Proof.
  intros [p c d] [q c' d'] l [j [k H]] (A & B & C). cbn in *. subst.
  unfold unroll in H. cbn [pre cyc dv] in H. inversion H as [[H1 H2 H3]]. subst.
  rewrite !reps_nil, !app_nil_r in H1. subst. repeat split.
Qed.

Lemma take_seq_leq : forall c s t, leq s t ->
  fst (take_seq c s) = fst (take_seq c t) /\ leq (snd (take_seq c s)) (snd (take_seq c t)).
Proof.
  intros c s t H. unfold take_seq. destruct (take_count c) as [| |n].
  - pose proof (lnext_leq s t H) as P.
    destruct (lnext s) as [x s'| |], (lnext t) as [y t'| |]; cbn in P; try contradiction; cbn; auto.
    destruct P as [-> P]. auto.
  - destruct (leq_cyc s t H) as [Hc Hd]. rewrite <- Hc, <- Hd.
    destruct (cyc s) eqn:Ec; [|cbn; auto]. destruct (dv s) eqn:Ed; [cbn; auto|].
    assert (F : lfinite t (pre s)) by (apply (lfinite_leq s t); [exact H|repeat split; assumption]).
    destruct F as (_ & _ & F). rewrite F. cbn. split; [reflexivity|apply leq_refl].
  - destruct (ltake_leq n s t H) as (A & B & C).
    destruct (ltake n s) as [[l1 r1] d1], (ltake n t) as [[l2 r2] d2]. cbn in *. subst.
    destruct d2; cbn; auto.
Qed.

Lemma pull_n_soundL : forall fuel n h b it h' it' l d,
  wfHL h -> (b <= length h)%nat -> wfI h b it ->
  pull_n fuel n h it = (h', it', l, d) -> d = false ->
  stableL h b h' /\ wfI h' b it' /\
  exists r, ltake n (absL (heap_valsL h) it) = (l, r, false) /\ leq r (absL (heap_valsL h') it').
Proof.
  intros fuel n. induction n as [|n IH]; intros h b it h' it' l d Hh Hb Hw Hp Hd.
  - cbn in Hp. inversion Hp; subst. split; [apply stableL_refl; exact Hh|]. split; [exact Hw|].
    eexists. split; [reflexivity|apply leq_refl].
  - cbn [pull_n] in Hp. destruct (pull fuel h it) as [[h1 it1] r1] eqn:E. destruct r1 as [x| |].
    + destruct (pull_n fuel n h1 it1) as [[[h2 it2] l2] d2] eqn:E2. inversion Hp; subst; clear Hp.
      assert (Hr : RItem x <> RFuel) by congruence.
      destruct (pull_soundL _ _ _ _ _ _ _ Hh Hb Hw E Hr) as (S1 & W1 & [a' [M1 M2]]).
      destruct (stableL_wf _ _ _ S1) as (Hh1 & L1 & E1).
      assert (Hb1 : (b <= length h1)%nat) by lia.
      destruct (IH _ _ _ _ _ _ _ Hh1 Hb1 W1 E2 eq_refl) as (S2 & W2 & [r2 [Q1 Q2]]).
      split; [eapply stableL_trans; eauto|]. split; [exact W2|].
      destruct (ltake_leq n _ _ M2) as (A & B & C). rewrite Q1 in A, B, C. cbn in A, B, C.
      cbn [ltake]. rewrite M1. destruct (ltake n a') as [[la ra] da]. cbn in A, B, C. subst.
      eexists. split; [reflexivity|]. eapply leq_trans; eauto.
    + inversion Hp; subst; clear Hp. assert (Hr : RStop <> RFuel) by congruence.
      destruct (pull_soundL _ _ _ _ _ _ _ Hh Hb Hw E Hr) as (S1 & W1 & [M1 M2]).
      split; [exact S1|]. split; [exact W1|]. cbn [ltake]. rewrite M1. eexists. split; [reflexivity|].
      rewrite (lnext_stop _ M1), (lnext_stop _ M2). apply leq_refl.
    + inversion Hp; subst. discriminate.
Qed.

Lemma pull_all_soundL : forall fuel k h b it h' it' l d,
  wfHL h -> (b <= length h)%nat -> wfI h b it ->
  pull_all k fuel h it = (h', it', l, d) -> d = false ->
  stableL h b h' /\ wfI h' b it' /\
  lfinite (absL (heap_valsL h) it) l /\ lnext (absL (heap_valsL h') it') = PStop.
Proof.
  intros fuel k. induction k as [|k IH]; intros h b it h' it' l d Hh Hb Hw Hp Hd.
  - cbn in Hp. inversion Hp; subst. discriminate.
  - cbn [pull_all] in Hp. destruct (pull fuel h it) as [[h1 it1] r1] eqn:E. destruct r1 as [x| |].
    + destruct (pull_all k fuel h1 it1) as [[[h2 it2] l2] d2] eqn:E2. inversion Hp; subst; clear Hp.
      assert (Hr : RItem x <> RFuel) by congruence.
      destruct (pull_soundL _ _ _ _ _ _ _ Hh Hb Hw E Hr) as (S1 & W1 & [a' [M1 M2]]).
      destruct (stableL_wf _ _ _ S1) as (Hh1 & L1 & E1).
      assert (Hb1 : (b <= length h1)%nat) by lia.
      destruct (IH _ _ _ _ _ _ _ Hh1 Hb1 W1 E2 eq_refl) as (S2 & W2 & F & Q).
      split; [eapply stableL_trans; eauto|]. split; [exact W2|]. split; [|exact Q].
      apply (lfinite_cons _ _ _ _ M1). apply (lfinite_leq _ _ _ (leq_sym _ _ M2)). exact F.
    + inversion Hp; subst; clear Hp. assert (Hr : RStop <> RFuel) by congruence.
      destruct (pull_soundL _ _ _ _ _ _ _ Hh Hb Hw E Hr) as (S1 & W1 & [M1 M2]).
      split; [exact S1|]. split; [exact W1|]. split; [apply lfinite_stop; exact M1|exact M2].
    + inversion Hp; subst. discriminate.
Qed.

(* Stream.take(n) on the held iterator = take_seq on any equivalent remaining sequence *)
Lemma take_iter_soundL : forall fuel c h b it h' it' ob s,
  wfHL h -> (b <= length h)%nat -> wfI h b it ->
  take_iter fuel c h it = (h', it', ob) -> ob <> ODiverge ->
  leq (absL (heap_valsL h) it) s ->
  stableL h b h' /\ wfI h' b it' /\
  fst (take_seq c s) = ob /\ leq (absL (heap_valsL h') it') (snd (take_seq c s)).
Proof.
  intros fuel c h b it h' it' ob s Hh Hb Hw Hp Hob Hs.
  destruct (take_seq_leq c _ _ Hs) as [T1 T2]. rewrite <- T1.
  assert (Hgoal : stableL h b h' /\ wfI h' b it' /\
    fst (take_seq c (absL (heap_valsL h) it)) = ob /\
    leq (absL (heap_valsL h') it') (snd (take_seq c (absL (heap_valsL h) it)))).
  2:{ destruct Hgoal as (A & B & C & D). refine (conj A (conj B (conj C _))). eapply leq_trans; eauto. }
  clear T1 T2 Hs s. unfold take_seq. unfold take_iter in Hp. destruct (take_count c) as [| |n].
  - destruct (pull fuel h it) as [[h1 it1] r1] eqn:E. inversion Hp; subst; clear Hp.
    assert (Hr : r1 <> RFuel) by (destruct r1; congruence).
    destruct (pull_soundL _ _ _ _ _ _ _ Hh Hb Hw E Hr) as (S1 & W1 & M).
    split; [exact S1|]. split; [exact W1|]. destruct r1 as [x| |]; [| |contradiction].
    + destruct M as [a' [M1 M2]]. rewrite M1. cbn. split; [reflexivity|apply leq_sym; exact M2].
    + destruct M as [M1 M2]. rewrite M1. cbn. split; [reflexivity|].
      rewrite (lnext_stop _ M1), (lnext_stop _ M2). apply leq_refl.
  - destruct (pull_all fuel fuel h it) as [[[h1 it1] l1] d1] eqn:E. inversion Hp; subst; clear Hp.
    destruct d1; [congruence|].
    destruct (pull_all_soundL _ _ _ _ _ _ _ _ _ Hh Hb Hw E eq_refl) as (S1 & W1 & (F1 & F2 & F3) & Q).
    split; [exact S1|]. split; [exact W1|]. rewrite F1, F2, F3. cbn. split; [reflexivity|].
    rewrite (lnext_stop _ Q). apply leq_refl.
  - destruct (pull_n fuel n h it) as [[[h1 it1] l1] d1] eqn:E. inversion Hp; subst; clear Hp.
    destruct d1; [congruence|].
    destruct (pull_n_soundL _ _ _ _ _ _ _ _ _ Hh Hb Hw E eq_refl) as (S1 & W1 & [r [Q1 Q2]]).
    split; [exact S1|]. split; [exact W1|]. rewrite Q1. cbn. split; [reflexivity|apply leq_sym; exact Q2].
Qed.
