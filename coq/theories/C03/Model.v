(* C03 - implementation-level model: the iterator objects that the methods of
   audiolazy.Stream build (list iterator, itertools.cycle / repeat, map, filter,
   chain, the skipper generator, islice, tee branches over shared buffer
   cells), mutated in place by next().  A non-tee iterator object has exactly
   one owner (the Stream or the iterator wrapping it), so it is stored inside
   its owner; tee buffer cells are the only shared objects and live in a heap
   (list of cells, index = address, allocation order).  Definitions only. *)
From Coq Require Import List Bool ZArith String.
From AL Require Import C03.Spec.
Import ListNotations.
Open Scope Z_scope.

Inductive iter :=
  | IList (rem : list Z)                    (* iter(list) *)
  | ICycle (saved rem : list Z)             (* itertools.cycle: rest of this pass, then saved again *)
  | IRepeat (x : Z)                         (* itertools.repeat *)
  | IMap (f : efun) (src : iter)
  | IFilter (p : epred) (src : iter)
  | IChain (a b : iter)                     (* itertools.chain(a, b), still in a *)
  | IChainB (b : iter)                      (* ... a exhausted and dropped *)
  | ISkip (src : iter) (n : nat)            (* skipper generator, n items still to drop *)
  | IDone                                   (* a generator that has returned *)
  | ILimit (src : iter) (n : nat)           (* itertools.islice(src, n) *)
  | ITee (cell : nat) (idx : nat).          (* tee branch: buffer cell, items already read *)

(* tee buffer: the wrapped iterator and every item pulled from it so far *)
Record cell := Cell { c_src : iter; c_items : list Z }.
Definition heap := list cell.

Inductive res := RItem (z : Z) | RStop | RFuel.

(* next(it): new heap, the iterator after the call, result.  One unit of fuel
   per nested / repeated call (filter loops, skipping, reading through tees). *)
Fixpoint pull (fuel : nat) (h : heap) (it : iter) : heap * iter * res :=
  match fuel with
  | O => (h, it, RFuel)
  | S k =>
    match it with
    | IList [] => (h, it, RStop)
    | IList (x :: l) => (h, IList l, RItem x)
    | ICycle sv (x :: r) => (h, ICycle sv r, RItem x)
    | ICycle [] [] => (h, it, RStop)
    | ICycle (x :: r) [] => (h, ICycle (x :: r) r, RItem x)
    | IRepeat x => (h, it, RItem x)
    | IMap f s =>
        let '(h', s', r) := pull k h s in
        (h', IMap f s', match r with RItem x => RItem (ef f x) | _ => r end)
    | IFilter p s =>
        let '(h', s', r) := pull k h s in
        match r with
        | RItem x => if ep p x then (h', IFilter p s', r) else pull k h' (IFilter p s')
        | _ => (h', IFilter p s', r)
        end
    | IChain a b =>
        let '(h', a', r) := pull k h a in
        match r with
        | RStop => pull k h' (IChainB b)
        | _ => (h', IChain a' b, r)
        end
    | IChainB b => let '(h', b', r) := pull k h b in (h', IChainB b', r)
    | ISkip s (S n) =>
        let '(h', s', r) := pull k h s in
        match r with
        | RItem _ => pull k h' (ISkip s' n)
        | RStop => (h', IDone, RStop)
        | RFuel => (h', ISkip s' (S n), RFuel)
        end
    | ISkip s O =>
        let '(h', s', r) := pull k h s in
        match r with
        | RStop => (h', IDone, RStop)
        | _ => (h', ISkip s' O, r)
        end
    | IDone => (h, IDone, RStop)
    | ILimit s O => (h, it, RStop)
    | ILimit s (S n) =>
        let '(h', s', r) := pull k h s in
        match r with
        | RItem _ => (h', ILimit s' n, r)
        | RStop => (h', ILimit s' O, r)
        | RFuel => (h', ILimit s' (S n), r)
        end
    | ITee c idx =>
        match nth_error h c with
        | None => (h, it, RStop)
        | Some (Cell src items) =>
            match nth_error items idx with
            | Some x => (h, ITee c (S idx), RItem x)
            | None =>
                let '(h', src', r) := pull k h src in
                match r with
                | RItem x => (set_nth c (Cell src' (items ++ [x])) h', ITee c (S idx), r)
                | _ => (set_nth c (Cell src' items) h', it, r)
                end
            end
        end
    end
  end.

(* itertools.tee(it, n): a tee branch is copied (same cell, same position),
   anything else is wrapped in a new buffer cell; n = 0 touches nothing *)
Definition tee_iter (h : heap) (it : iter) (n : nat) : heap * list iter :=
  match n, it with
  | O, _ => (h, [])
  | _, ITee _ _ => (h, repeat it n)
  | _, _ => (h ++ [Cell it []], repeat (ITee (List.length h) O) n)
  end.

(* list(islice(it, n)) *)
Fixpoint pull_n (fuel n : nat) (h : heap) (it : iter) : heap * iter * list Z * bool :=
  match n with
  | O => (h, it, [], false)
  | S m =>
      let '(h', it', r) := pull fuel h it in
      match r with
      | RItem x => let '(h'', it'', l, d) := pull_n fuel m h' it' in (h'', it'', x :: l, d)
      | RStop => (h', it', [], false)
      | RFuel => (h', it', [], true)
      end
  end.

(* list(it): at most [k] items *)
Fixpoint pull_all (k fuel : nat) (h : heap) (it : iter) : heap * iter * list Z * bool :=
  match k with
  | O => (h, it, [], true)
  | S m =>
      let '(h', it', r) := pull fuel h it in
      match r with
      | RItem x => let '(h'', it'', l, d) := pull_all m fuel h' it' in (h'', it'', x :: l, d)
      | RStop => (h', it', [], false)
      | RFuel => (h', it', [], true)
      end
  end.

(* Stream.take(n) on the iterator held by the Stream *)
Definition take_iter (fuel : nat) (c : count) (h : heap) (it : iter) : heap * iter * obs :=
  match take_count c with
  | TNext => let '(h', it', r) := pull fuel h it in
             (h', it', match r with
                       | RItem x => OItem x
                       | RStop => ORaise "StopIteration"
                       | RFuel => ODiverge
                       end)
  | TAll => let '(h', it', l, d) := pull_all fuel fuel h it in
            (h', it', if d then ODiverge else OItems l)
  | TN n => let '(h', it', l, d) := pull_n fuel n h it in
            (h', it', if d then ODiverge else OItems l)
  end.

Definition src_iter (p : pool) : iter :=
  match p with
  | PFin l => IList l
  | PCyc [x] => IRepeat x
  | PCyc l => ICycle l l
  end.

(* ---- objects ---- *)
Inductive obj := XStream (it : iter) | XHub (its : list iter) | XDead.
Record istate := IS { i_heap : heap; i_objs : list obj }.

Inductive ires := IOk (it : iter) | IDead | IErr (e : string).
Definition skip_i (c : count) (it : iter) : ires :=
  match round_count c with inl z => IOk (ISkip it (Z.to_nat z)) | inr _ => IDead end.
Definition limit_i (c : count) (it : iter) : ires :=
  match round_count c with inl z => IOk (ILimit it (Z.to_nat z)) | inr e => IErr e end.

(* self._iters.pop() *)
Definition pop_last (l : list iter) : option (list iter * iter) :=
  match rev l with [] => None | x :: r => Some (rev r, x) end.

Definition iapply (st : istate) (i : nat) (t : iter -> ires) : istate * obs :=
  let '(IS h os) := st in
  match nth_error os i with
  | Some (XStream it) =>
      match t it with
      | IOk it' => (IS h (set_nth i (XStream it') os), OSelf)
      | IDead => (IS h (set_nth i XDead os), OSelf)
      | IErr e => (st, ORaise e)
      end
  | Some (XHub its) =>
      match pop_last its with
      | None => (st, ORaise "IndexError")
      | Some (its', it) =>
          let os' := set_nth i (XHub its') os in
          match t it with
          | IOk it' => (IS h (os' ++ [XStream it']), ONew (List.length os))
          | IDead => (IS h (os' ++ [XDead]), ONew (List.length os))
          | IErr e => (IS h os', ORaise e)
          end
      end
  | _ => (st, OBad)
  end.

(* iter(obj) handed to a new owner *)
Definition igive (st : istate) (i : nat) : option (istate * iter) + string :=
  let '(IS h os) := st in
  match nth_error os i with
  | Some (XStream it) => inl (Some (IS h (set_nth i XDead os), it))
  | Some (XHub its) =>
      match pop_last its with
      | None => inr "IndexError"%string
      | Some (its', it) => inl (Some (IS h (set_nth i (XHub its') os), it))
      end
  | _ => inl None
  end.

(* obj.copy(): a, b = tee(data); data = a; the new iterator b *)
Definition icopy (st : istate) (i : nat) : option (istate * iter) + string :=
  let '(IS h os) := st in
  match nth_error os i with
  | Some (XStream it) =>
      match tee_iter h it 2 with
      | (h', [a; b]) => inl (Some (IS h' (set_nth i (XStream a) os), b))
      | _ => inl None
      end
  | Some (XHub (it :: rest)) =>
      match tee_iter h it 2 with
      | (h', [a; b]) => inl (Some (IS h' (set_nth i (XHub (a :: rest)) os), b))
      | _ => inl None
      end
  | Some (XHub []) => inr "IndexError"%string
  | _ => inl None
  end.

Definition itake (fuel : nat) (st : istate) (i : nat) (c : count) : istate * obs :=
  let '(IS h os) := st in
  match nth_error os i with
  | Some (XStream it) =>
      let '(h', it', ob) := take_iter fuel c h it in (IS h' (set_nth i (XStream it') os), ob)
  | Some (XHub _) => (st, ORaise "AttributeError")
  | _ => (st, OBad)
  end.

(* [iter(arg) for arg in args], left to right *)
Fixpoint igather (st : istate) (args : list marg) : (istate * list iter) + (istate * obs) :=
  match args with
  | [] => inl (st, [])
  | MFresh l :: r =>
      match igather st r with
      | inl (st', its) => inl (st', IList l :: its)
      | inr e => inr e
      end
  | MObj j :: r =>
      match igive st j with
      | inl (Some (st1, it)) =>
          match igather st1 r with
          | inl (st', its) => inl (st', it :: its)
          | inr e => inr e
          end
      | inl None => inr (st, OBad)
      | inr e => inr (st, ORaise e)
      end
  end.
(* itertools.chain(a, b, c ..) as nested two-argument chains *)
Definition chain_of (its : list iter) : iter :=
  match its with [] => IDone | a :: r => fold_left IChain r a end.

Definition istep (fuel : nat) (st : istate) (o : op) : istate * obs :=
  match o with
  | ONext i =>
      match nth_error (i_objs st) i with
      | Some (XStream _) => itake fuel st i CNone
      | _ => (st, OBad)
      end
  | OTake i c => itake fuel st i c
  | OPeek i c =>                      (* self.copy().take(n) *)
      match icopy st i with
      | inl (Some (IS h os, b)) =>
          let '(h', _, ob) := take_iter fuel c h b in (IS h' os, ob)
      | inl None => (st, OBad)
      | inr e => (st, ORaise e)
      end
  | OCopy i =>
      match icopy st i with
      | inl (Some (IS h os, b)) => (IS h (os ++ [XStream b]), ONew (List.length os))
      | inl None => (st, OBad)
      | inr e => (st, ORaise e)
      end
  | OSkip i c => iapply st i (skip_i c)
  | OLimit i c => iapply st i (limit_i c)
  | OAppend i p => iapply st i (fun it => IOk (IChain it (src_iter p)))
  | OMap i f => iapply st i (fun it => IOk (IMap f it))
  | OFilter i p => iapply st i (fun it => IOk (IFilter p it))
  | OThub i n =>                      (* StreamTeeHub(data, n): list(tee(iter(data), n)) *)
      match igive st i with
      | inl (Some (IS h os, it)) =>
          let '(h', its) := tee_iter h it n in
          (IS h' (os ++ [XHub its]), ONew (List.length os))
      | inl None => (st, OBad)
      | inr e => (st, ORaise e)
      end
  | OUse i =>                         (* Stream(hub) *)
      match nth_error (i_objs st) i with
      | Some (XHub _) =>
          match igive st i with
          | inl (Some (IS h os, it)) => (IS h (os ++ [XStream it]), ONew (List.length os))
          | inl None => (st, OBad)
          | inr e => (st, ORaise e)
          end
      | _ => (st, OBad)
      end
  | OTee i O =>
      match nth_error (i_objs st) i with
      | Some (XStream _) | Some (XHub _) => (st, ONews (List.length (i_objs st)) O)
      | _ => (st, OBad)
      end
  | OTee i n =>                       (* tuple(Stream(cp) for cp in tee(data, n)) *)
      match igive st i with
      | inl (Some (IS h os, it)) =>
          let '(h', its) := tee_iter h it n in
          (IS h' (os ++ map XStream its), ONews (List.length os) n)
      | inl None => (st, OBad)
      | inr e => (st, ORaise e)
      end
  | OThubVal z _ => (st, OItem z)
  | OTeeVal z n => (st, OItems (repeat z n))
  | OAppendObj i j =>                 (* chain(self._data, Stream(obj)._data) *)
      if Nat.eqb i j then (st, OBad) else
      match nth_error (i_objs st) i with
      | Some (XStream _) =>
          match igive st j with
          | inl (Some (st', itj)) => iapply st' i (fun it => IOk (IChain it itj))
          | inl None => (st, OBad)
          | inr e => (st, ORaise e)
          end
      | _ => (st, OBad)
      end
  | OMutateResult _ => (st, OSelf)   (* take / peek build a new container from the items *)
  | ORefused e => (st, ORaise e)     (* the exception is raised before any iterator is created or advanced *)
  | OMulti tgt ((_ :: _ :: _) as args) =>
      match tgt with
      | None =>
          match igather st args with
          | inl (IS h os, its) => (IS h (os ++ [XStream (chain_of its)]), ONew (List.length (i_objs st)))
          | inr (st', ob) => (st', ob)
          end
      | Some i =>
          match nth_error (i_objs st) i with
          | Some (XStream _) =>
              match igather st args with
              | inl (st', its) => iapply st' i (fun it => IOk (IChain it (chain_of its)))
              | inr (st', ob) => (st', ob)
              end
          | _ => (st, OBad)
          end
      end
  | OMulti _ _ => (st, OBad)
  end.

Fixpoint irun (fuel : nat) (st : istate) (ops : list op) : list obs :=
  match ops with
  | [] => []
  | o :: r => let '(st', ob) := istep fuel st o in ob :: irun fuel st' r
  end.

Definition init (ps : list pool) : istate := IS [] (map (fun p => XStream (src_iter p)) ps).
