(* C03 - one next() on the heap is one step on the abstract lassos (periodic sources included). *)
From Coq Require Import List Bool ZArith Lia.
From AL Require Import C03.Spec C03.Model C03.Abs C03.AbsL C03.Proofs_Abs C03.Proofs_Leq C03.Proofs_Leq2 C03.Proofs_AbsL C03.Proofs_Pull.
Import ListNotations.

(* values of h' are those of h, up to the equivalence *)
Definition vsame (h h' : heap) : Prop :=
  forall n d, (d < n)%nat -> leq (nth d (valsL_upto h' n) lempty) (nth d (valsL_upto h n) lempty).

Definition stableL (h : heap) (b : nat) (h' : heap) : Prop :=
  length h' = length h /\ ext h h' /\ wfHL h' /\ vsame h h' /\
  (forall d, (b <= d)%nat -> nth_error h' d = nth_error h d).

Definition postL (h : heap) (b : nat) (it : iter) (h' : heap) (it' : iter) (r : res) : Prop :=
  stableL h b h' /\ wfI h' b it' /\
  match r with
  | RItem x => exists a', lnext (absL (heap_valsL h) it) = PItem x a' /\ leq a' (absL (heap_valsL h') it')
  | RStop => lnext (absL (heap_valsL h) it) = PStop /\ lnext (absL (heap_valsL h') it') = PStop
  | RFuel => False
  end.

Lemma vsame_refl : forall h, vsame h h.
Proof. intros h n d _. apply leq_refl. Qed.

Lemma stableL_refl : forall h b, wfHL h -> stableL h b h.
Proof. intros h b Hh. unfold stableL. auto using ext_refl, vsame_refl. Qed.

Lemma stableL_trans : forall h1 h2 h3 b, stableL h1 b h2 -> stableL h2 b h3 -> stableL h1 b h3.
Proof.
  intros h1 h2 h3 b (A1 & A2 & A3 & A4 & A5) (B1 & B2 & B3 & B4 & B5).
  refine (conj _ (conj _ (conj B3 (conj _ _)))).
  - congruence.
  - eapply ext_trans; eauto.
  - intros n d Hd. eapply leq_trans; [apply B4|apply A4]; exact Hd.
  - intros d Hd. rewrite B5 by exact Hd. apply A5. exact Hd.
Qed.

Lemma covers_le : forall h b b' v, (b <= b')%nat -> covers h b' v -> covers h b v.
Proof. intros h b b' v Hle C c cl Hc Hn. apply C; [lia|exact Hn]. Qed.

(* an iterator that was not touched keeps its value *)
Lemma absL_stable : forall h b h' o, stableL h b h' -> wfHL h -> wfI h (length h) o ->
  leq (absL (heap_valsL h') o) (absL (heap_valsL h) o).
Proof.
  intros h b h' o (A1 & A2 & A3 & A4 & A5) Hh Hw. apply (absL_ext h (length h)); [exact Hw| | |].
  - unfold heap_valsL. rewrite A1. apply covers_upto. exact A2.
  - apply heap_valsL_covers. exact Hh.
  - intros c Hc. unfold heap_valsL. rewrite A1. apply A4. exact Hc.
Qed.

Lemma postL_same : forall h b it it' r, wfHL h -> wfI h b it' ->
  match r with
  | RItem x => exists a', lnext (absL (heap_valsL h) it) = PItem x a' /\ leq a' (absL (heap_valsL h) it')
  | RStop => lnext (absL (heap_valsL h) it) = PStop /\ lnext (absL (heap_valsL h) it') = PStop
  | RFuel => False
  end -> postL h b it h it' r.
Proof. intros. unfold postL. auto using stableL_refl. Qed.

(* a first call that leaves the abstract value of the whole iterator unchanged, then a second call *)
Lemma postL_chain : forall h b it h1 it1 h2 it2 r, stableL h b h1 ->
  leq (absL (heap_valsL h) it) (absL (heap_valsL h1) it1) ->
  postL h1 b it1 h2 it2 r -> postL h b it h2 it2 r.
Proof.
  intros h b it h1 it1 h2 it2 r S1 Ha (S2 & W & P). split; [eapply stableL_trans; eauto|]. split; [exact W|].
  destruct r as [x| |]; [|destruct P as [P1 P2]; split; [|exact P2]|exact P].
  - destruct P as [a' [P1 P2]]. destruct (leq_item _ _ _ _ (leq_sym _ _ Ha) P1) as [a [Q1 Q2]].
    exists a. split; [exact Q1|]. eapply leq_trans; [apply leq_sym; exact Q2|exact P2].
  - eapply leq_stop; [apply leq_sym; exact Ha|exact P1].
Qed.

Lemma stableL_wf : forall h b h', stableL h b h' -> wfHL h' /\ length h' = length h /\ ext h h'.
Proof. intros h b h' (A1 & A2 & A3 & _). auto. Qed.

Lemma absL_stable_sym : forall h b h' o bb, stableL h b h' -> wfHL h -> (bb <= length h)%nat -> wfI h bb o ->
  leq (absL (heap_valsL h) o) (absL (heap_valsL h') o).
Proof.
  intros h b h' o bb S Hh Hb Hw. apply leq_sym. apply (absL_stable h b h' o S Hh).
  eapply wfI_weaken; eauto.
Qed.

Lemma nth_heap_upto : forall g c d, (d < c)%nat -> (c <= length g)%nat ->
  nth d (heap_valsL g) lempty = nth d (valsL_upto g c) lempty.
Proof. intros g c d Hd Hc. unfold heap_valsL. rewrite !valsL_upto_nth_lt by lia. reflexivity. Qed.

Lemma absL_upto_eq : forall g c it, wfI g c it -> (c <= length g)%nat ->
  absL (heap_valsL g) it = absL (valsL_upto g c) it.
Proof. intros g c it Hw Hc. apply (absL_ext_eq g c); [exact Hw|]. intros d Hd. apply nth_heap_upto; assumption. Qed.

Lemma tee_updateL : forall h h1 c src items src1 extra,
  wfHL h -> nth_error h c = Some (Cell src items) -> stableL h c h1 -> wfI h1 c src1 ->
  leq (lpre items (absL (heap_valsL h) src)) (lpre (items ++ extra) (absL (heap_valsL h1) src1)) ->
  let h2 := set_nth c (Cell src1 (items ++ extra)) h1 in
  stableL h (S c) h2 /\ nth_error h2 c = Some (Cell src1 (items ++ extra)).
Proof.
  intros h h1 c src items src1 extra Hh Hc S1 Hw1 Hv h2.
  destruct S1 as (L1 & E1 & Hh1 & V1 & F1).
  assert (Hclt : (c < length h)%nat) by (apply nth_error_Some; congruence).
  assert (Hc1 : nth_error h1 c = Some (Cell src items)) by (rewrite F1 by lia; exact Hc).
  assert (He12 : ext h1 h2).
  { apply (ext_set_nth h1 c (Cell src items)); [exact Hc1|]. cbn. rewrite app_length. lia. }
  assert (Hc2 : nth_error h2 c = Some (Cell src1 (items ++ extra))) by (apply nth_error_set_nth_eq; lia).
  split; [|exact Hc2]. refine (conj _ (conj _ (conj _ (conj _ _)))).
  - unfold h2. rewrite set_nth_length. exact L1.
  - eapply ext_trans; eauto.
  - intros d cl Hd. destruct (Nat.eq_dec c d) as [<-|Hne].
    + rewrite Hc2 in Hd. inversion Hd; subst. cbn [c_src]. eapply wfI_ext; eauto.
    + unfold h2 in Hd. rewrite nth_error_set_nth_ne in Hd by exact Hne. eapply wfI_ext; [exact He12|]. apply (Hh1 d cl Hd).
  - intros n d Hd. eapply leq_trans; [|apply V1; exact Hd].
    apply (valsL_set_nth_leq h1 c); auto; [lia|].
    rewrite Hc1. cbn [cell_valL c_items c_src].
    rewrite <- (absL_upto_eq h1 c src1 Hw1 ltac:(lia)).
    eapply leq_trans; [apply leq_sym; exact Hv|]. apply lpre_leq.
    apply (absL_ext h c); [apply (Hh c _ Hc)|apply heap_valsL_covers; exact Hh|apply covers_upto; exact E1|].
    intros d0 Hd0. rewrite (nth_heap_upto h c d0 Hd0 ltac:(lia)). apply leq_sym. apply V1. exact Hd0.
  - intros d Hd. unfold h2. rewrite nth_error_set_nth_ne by lia. apply F1. lia.
Qed.

Lemma stableL_weaken : forall h b1 b2 h', (b1 <= b2)%nat -> stableL h b1 h' -> stableL h b2 h'.
Proof.
  intros h b1 b2 h' Hle (A1 & A2 & A3 & A4 & A5).
  refine (conj A1 (conj A2 (conj A3 (conj A4 _)))). intros d Hd. apply A5. lia.
Qed.

(* the value of a source seen from the cell that wraps it does not depend on the cell itself *)
Lemma absL_after_set : forall h1 c new it, wfI h1 c it -> (c < length h1)%nat ->
  wfI (set_nth c new h1) c it ->
  absL (heap_valsL (set_nth c new h1)) it = absL (heap_valsL h1) it.
Proof.
  intros h1 c new it Hw Hc Hw2.
  rewrite (absL_upto_eq (set_nth c new h1) c it Hw2) by (rewrite set_nth_length; lia).
  rewrite valsL_upto_set_below by lia. symmetry. apply absL_upto_eq; [exact Hw|lia].
Qed.

Lemma pull_soundL : forall fuel h b it h' it' r,
  wfHL h -> (b <= length h)%nat -> wfI h b it ->
  pull fuel h it = (h', it', r) -> r <> RFuel -> postL h b it h' it' r.
Proof.
  induction fuel as [|k IH]; intros h b it h' it' r Hh Hb Hw Hp Hr.
  - cbn in Hp. inversion Hp; subst. congruence.
  - destruct it as [l|sv rm|x|f s|p s|a c|s|s n| |s n|c idx]; cbn [pull] in Hp; cbn [wfI] in Hw.
    + destruct l as [|x l]; inversion Hp; subst; apply postL_same; auto; cbn; auto.
      eexists. split; [reflexivity|apply leq_refl].
    + destruct sv as [|y sv], rm as [|x rm]; inversion Hp; subst; apply postL_same; auto; cbn; auto;
        eexists; (split; [reflexivity|apply leq_refl]).
    + inversion Hp; subst. apply postL_same; auto. eexists. split; [reflexivity|apply leq_refl].
    + destruct (pull k h s) as [[h1 s1] r1] eqn:E. inversion Hp; subst. clear Hp.
      assert (Hr1 : r1 <> RFuel) by (destruct r1; congruence).
      destruct (IH _ _ _ _ _ _ Hh Hb Hw E Hr1) as (S1 & W1 & M). split; [exact S1|]. split; [exact W1|].
      cbn [absL]. rewrite !lnext_lmap. destruct r1 as [x| |]; [|destruct M as [M1 M2]; rewrite M1, M2; auto|exact M].
      destruct M as [a' [M1 M2]]. rewrite M1. eexists. split; [reflexivity|]. apply lmap_leq. exact M2.
    + (* IFilter *)
      destruct (pull k h s) as [[h1 s1] r1] eqn:E. destruct r1 as [x| |].
      * assert (Hr1 : RItem x <> RFuel) by congruence.
        destruct (IH _ _ _ _ _ _ Hh Hb Hw E Hr1) as (S1 & W1 & [a' [M1 M2]]).
        destruct (stableL_wf _ _ _ S1) as (Hh1 & L1 & E1).
        destruct (ep p x) eqn:Ep.
        -- inversion Hp; subst. split; [exact S1|]. split; [exact W1|]. cbn [absL].
           rewrite (lnext_lfilter_keep _ _ _ _ M1 Ep). eexists. split; [reflexivity|]. apply lfilter_leq. exact M2.
        -- apply (postL_chain h b _ h1 (IFilter p s1)); [exact S1| |].
           ++ cbn [absL]. eapply leq_trans; [apply (lnext_lfilter_drop _ _ _ _ M1 Ep)|]. apply lfilter_leq. exact M2.
           ++ apply (IH h1 b (IFilter p s1)); auto. lia.
      * inversion Hp; subst.
        destruct (IH _ _ _ _ _ _ Hh Hb Hw E Hr) as (S1 & W1 & [M1 M2]).
        split; [exact S1|]. split; [exact W1|]. cbn [absL]. split; apply lnext_lfilter_stop; assumption.
      * inversion Hp; subst. congruence.
    + (* IChain *)
      destruct Hw as [Hwa Hwc].
      destruct (pull k h a) as [[h1 a1] r1] eqn:E. destruct r1 as [x| |].
      * inversion Hp; subst.
        destruct (IH _ _ _ _ _ _ Hh Hb Hwa E Hr) as (S1 & W1 & [a' [M1 M2]]).
        destruct (stableL_wf _ _ _ S1) as (Hh1 & L1 & E1).
        split; [exact S1|]. split; [cbn [wfI]; split; [exact W1|eapply wfI_ext; eauto]|]. cbn [absL].
        rewrite (lnext_lappend_item _ _ _ _ M1). eexists. split; [reflexivity|].
        eapply leq_trans; [apply lappend_leq_l; exact M2|]. apply lappend_leq_r.
        apply (absL_stable_sym h b h' c b); auto.
      * assert (Hr1 : RStop <> RFuel) by congruence.
        destruct (IH _ _ _ _ _ _ Hh Hb Hwa E Hr1) as (S1 & W1 & [M1 M2]).
        destruct (stableL_wf _ _ _ S1) as (Hh1 & L1 & E1).
        apply (postL_chain h b _ h1 (IChainB c)); [exact S1| |].
        -- cbn [absL]. rewrite (lappend_stop _ _ M1). apply (absL_stable_sym h b h1 c b); auto.
        -- apply (IH h1 b (IChainB c)); auto; [lia|]. cbn [wfI]. eapply wfI_ext; eauto.
      * inversion Hp; subst. congruence.
    + (* IChainB *)
      destruct (pull k h s) as [[h1 s1] r1] eqn:E. inversion Hp; subst. clear Hp.
      destruct (IH _ _ _ _ _ _ Hh Hb Hw E Hr) as (S1 & W1 & M). split; [exact S1|]. split; [exact W1|exact M].
    + (* ISkip *)
      destruct n as [|n]; cbn [pull] in Hp.
      * destruct (pull k h s) as [[h1 s1] r1] eqn:E. destruct r1 as [x| |]; inversion Hp; subst; clear Hp.
        -- destruct (IH _ _ _ _ _ _ Hh Hb Hw E Hr) as (S1 & W1 & M). split; [exact S1|]. split; [exact W1|exact M].
        -- destruct (IH _ _ _ _ _ _ Hh Hb Hw E Hr) as (S1 & W1 & [M1 M2]).
           split; [exact S1|]. split; [exact I|]. cbn [absL]. rewrite ldrop_0. split; [exact M1|reflexivity].
        -- congruence.
      * destruct (pull k h s) as [[h1 s1] r1] eqn:E. destruct r1 as [x| |].
        -- assert (Hr1 : RItem x <> RFuel) by congruence.
           destruct (IH _ _ _ _ _ _ Hh Hb Hw E Hr1) as (S1 & W1 & [a' [M1 M2]]).
           destruct (stableL_wf _ _ _ S1) as (Hh1 & L1 & E1).
           apply (postL_chain h b _ h1 (ISkip s1 n)); [exact S1| |].
           ++ cbn [absL]. rewrite (ldrop_S_item _ _ _ _ M1). apply ldrop_leq. exact M2.
           ++ apply (IH h1 b (ISkip s1 n)); auto. lia.
        -- inversion Hp; subst; clear Hp.
           destruct (IH _ _ _ _ _ _ Hh Hb Hw E Hr) as (S1 & W1 & [M1 M2]).
           split; [exact S1|]. split; [exact I|]. cbn [absL]. rewrite (ldrop_stop _ _ M1). split; reflexivity.
        -- inversion Hp; subst. congruence.
    + (* IDone *)
      inversion Hp; subst. apply postL_same; cbn; auto.
    + (* ILimit *)
      destruct n as [|n]; cbn [pull] in Hp.
      * inversion Hp; subst. apply postL_same; cbn; auto.
      * destruct (pull k h s) as [[h1 s1] r1] eqn:E. destruct r1 as [x| |]; inversion Hp; subst; clear Hp.
        -- destruct (IH _ _ _ _ _ _ Hh Hb Hw E Hr) as (S1 & W1 & [a' [M1 M2]]).
           split; [exact S1|]. split; [exact W1|]. cbn [absL]. rewrite (llimit_S_item _ _ _ _ M1).
           eexists. split; [reflexivity|]. rewrite (llimit_eq n _ _ M2). apply leq_refl.
        -- destruct (IH _ _ _ _ _ _ Hh Hb Hw E Hr) as (S1 & W1 & [M1 M2]).
           split; [exact S1|]. split; [exact W1|]. cbn [absL]. rewrite (llimit_stop _ _ M1). split; reflexivity.
        -- congruence.
    + (* ITee *)
      destruct Hw as [Hcb [cl [Hc Hidx]]]. rewrite Hc in Hp. destruct cl as [src items].
      cbn [c_items] in Hidx.
      assert (Hv : nth c (heap_valsL h) lempty = lpre items (absL (heap_valsL h) src))
        by (rewrite (heap_valsL_nth h c _ Hh Hc); reflexivity).
      destruct (nth_error items idx) as [x|] eqn:Ex.
      * inversion Hp; subst. assert (Hlt : (idx < length items)%nat) by (apply nth_error_Some; congruence).
        apply postL_same; auto.
        -- cbn [wfI]. split; [exact Hcb|]. exists (Cell src items). split; [exact Hc|]. cbn. lia.
        -- cbn [absL]. rewrite Hv, !lskip_lpre by lia. rewrite (skipn_nth_error _ _ _ Ex).
           rewrite lnext_lpre_cons. eexists. split; [reflexivity|apply leq_refl].
      * assert (Hlen : idx = length items) by (apply nth_error_None in Ex; lia). subst idx.
        pose proof (Hh c _ Hc) as Hws. cbn [c_src] in Hws.
        assert (Hcl : (c <= length h)%nat) by lia.
        assert (Ha : absL (heap_valsL h) (ITee c (length items)) = absL (heap_valsL h) src).
        { cbn [absL]. rewrite Hv, lskip_lpre by lia. rewrite skipn_all. apply lpre_nil. }
        destruct (pull k h src) as [[h1 src1] r1] eqn:E. destruct r1 as [x| |].
        -- inversion Hp; subst; clear Hp.
           destruct (IH _ _ _ _ _ _ Hh Hcl Hws E Hr) as (S1 & W1 & [a' [M1 M2]]).
           destruct (stableL_wf _ _ _ S1) as (Hh1 & L1 & E1).
           assert (Hcond : leq (lpre items (absL (heap_valsL h) src)) (lpre (items ++ [x]) (absL (heap_valsL h1) src1))).
           { eapply leq_trans; [apply (lpre_snoc _ _ _ _ M1)|]. apply lpre_leq. exact M2. }
           destruct (tee_updateL h h1 c src items src1 [x] Hh Hc S1 W1 Hcond) as [T1 T2].
           destruct (stableL_wf _ _ _ T1) as (Hh2 & L2 & E2).
           split; [apply (stableL_weaken h (S c) b); [lia|exact T1]|]. split.
           ++ cbn [wfI]. split; [lia|]. eexists. split; [exact T2|]. cbn. rewrite app_length. cbn. lia.
           ++ rewrite Ha. exists a'. split; [exact M1|]. cbn [absL].
              rewrite (heap_valsL_nth _ c _ Hh2 T2). cbn [c_items c_src].
              rewrite lskip_lpre by (rewrite app_length; cbn; lia).
              replace (S (length items)) with (length (items ++ [x])) by (rewrite app_length; cbn; lia).
              rewrite skipn_all, lpre_nil.
              rewrite absL_after_set; [exact M2|exact W1|lia|]. eapply wfI_ext; [|exact W1].
              apply (ext_set_nth h1 c (Cell src items)); [|cbn; rewrite app_length; lia].
              destruct S1 as (_ & _ & _ & _ & F1). rewrite F1 by lia. exact Hc.
        -- inversion Hp; subst; clear Hp.
           destruct (IH _ _ _ _ _ _ Hh Hcl Hws E Hr) as (S1 & W1 & [M1 M2]).
           destruct (stableL_wf _ _ _ S1) as (Hh1 & L1 & E1).
           assert (Hcond : leq (lpre items (absL (heap_valsL h) src)) (lpre (items ++ []) (absL (heap_valsL h1) src1))).
           { rewrite (lnext_stop _ M1), (lnext_stop _ M2), app_nil_r. apply leq_refl. }
           destruct (tee_updateL h h1 c src items src1 [] Hh Hc S1 W1 Hcond) as [T1 T2].
           rewrite app_nil_r in T1, T2.
           destruct (stableL_wf _ _ _ T1) as (Hh2 & L2 & E2).
           split; [apply (stableL_weaken h (S c) b); [lia|exact T1]|]. split.
           ++ cbn [wfI]. split; [lia|]. eexists. split; [exact T2|]. cbn. lia.
           ++ rewrite Ha. split; [exact M1|]. cbn [absL].
              rewrite (heap_valsL_nth _ c _ Hh2 T2). cbn [c_items c_src].
              rewrite lskip_lpre by lia. rewrite skipn_all, lpre_nil.
              rewrite absL_after_set; [exact M2|exact W1|lia|]. eapply wfI_ext; [|exact W1].
              apply (ext_set_nth h1 c (Cell src items)); [|cbn; lia].
              destruct S1 as (_ & _ & _ & _ & F1). rewrite F1 by lia. exact Hc.
        -- inversion Hp; subst. congruence.
Qed.
