(* C03 - list-level (remaining-sequence) model of audiolazy.Stream histories.
   Every live Stream is represented by what it will still yield: a "lasso"
   [pre ++ cyc ++ cyc ++ ...] (cyc = [] : finite), optionally diverging after
   [pre] (dv = true: a filter that rejects a whole period never yields again).
   Definitions only, no proofs. *)
From Coq Require Import List Bool ZArith String.
Import ListNotations.
Open Scope Z_scope.

Record lseq := LS { pre : list Z; cyc : list Z; dv : bool }.
Definition fin (l : list Z) : lseq := LS l [] false.
Definition lempty : lseq := LS [] [] false.
Definition ldiv : lseq := LS [] [] true.

Inductive pull := PItem (z : Z) (s : lseq) | PStop | PDiv.

Definition lnext (s : lseq) : pull :=
  match pre s with
  | x :: p => PItem x (LS p (cyc s) (dv s))
  | [] => match cyc s with
          | x :: c => PItem x (LS c (cyc s) (dv s))     (* start the next period *)
          | [] => if dv s then PDiv else PStop
          end
  end.

(* up to n items: (items, rest, reached a diverging point) *)
Fixpoint ltake (n : nat) (s : lseq) : list Z * lseq * bool :=
  match n with
  | O => ([], s, false)
  | S k => match lnext s with
           | PItem x s' => let '(l, s'', d) := ltake k s' in (x :: l, s'', d)
           | PStop => ([], s, false)
           | PDiv => ([], s, true)
           end
  end.

Definition ldrop (n : nat) (s : lseq) : lseq :=
  let '(_, s', d) := ltake n s in if d then ldiv else s'.
Definition llimit (n : nat) (s : lseq) : lseq :=
  let '(l, _, d) := ltake n s in LS l [] d.

(* the count argument n of take / peek / skip / limit *)
Inductive count := CNone | CInt (z : Z) | CFlt (num : Z) (den : positive) | CInf | CNegInf | CNan.
Inductive tcount := TNext | TAll | TN (n : nat).

(* take: None -> next; +inf -> everything; float -> rint(n) if n > 0 else 0
   (rint of a positive float = floor (n + 1/2)); then islice(max(n, 0)) *)
Definition take_count (c : count) : tcount :=
  match c with
  | CNone => TNext
  | CInf => TAll
  | CInt z => TN (Z.to_nat (Z.max z 0))
  | CFlt n d => TN (if 0 <? n then Z.to_nat ((2 * n + Zpos d) / (2 * Zpos d)) else O)
  | CNegInf | CNan => TN O
  end.

(* skip / limit: int(round(n)), Python 3 round = half to even; errors by name *)
Definition round_half_even (n : Z) (d : positive) : Z :=
  let q := n / Zpos d in
  let r := n - q * Zpos d in
  match 2 * r ?= Zpos d with
  | Lt => q
  | Gt => q + 1
  | Eq => if Z.even q then q else q + 1
  end.
Definition round_count (c : count) : Z + string :=
  match c with
  | CInt z => inl z
  | CFlt n d => inl (round_half_even n d)
  | CNone => inr "TypeError"%string
  | CInf | CNegInf => inr "OverflowError"%string
  | CNan => inr "ValueError"%string
  end.

(* append / map / filter on remaining sequences *)
Definition lappend (s t : lseq) : lseq :=
  match cyc s, dv s with
  | [], false => LS (pre s ++ pre t) (cyc t) (dv t)
  | _, _ => s                      (* the appended part is never reached *)
  end.
Definition lmap (f : Z -> Z) (s : lseq) : lseq := LS (map f (pre s)) (map f (cyc s)) (dv s).
Definition is_nil {A} (l : list A) : bool := match l with [] => true | _ => false end.
Definition lfilter (p : Z -> bool) (s : lseq) : lseq :=
  LS (filter p (pre s)) (filter p (cyc s))
     (dv s || (negb (is_nil (cyc s)) && is_nil (filter p (cyc s)))).

(* the closed sets of element functions / predicates used in histories *)
Inductive efun := FAdd (c : Z) | FMul (c : Z).
(* PTruthy: filter(None) / filter(bool): keep the truthy items (for integers: the non-zero ones) *)
Inductive epred := PEven | PGt (c : Z) | PTruthy.
Definition ef (f : efun) (x : Z) : Z := match f with FAdd c => x + c | FMul c => x * c end.
Definition ep (p : epred) (x : Z) : bool :=
  match p with PEven => Z.even x | PGt c => c <? x | PTruthy => negb (x =? 0) end.

(* a source: Stream(list) or Stream(a, b, ...) (periodic; one value: repeat) *)
Inductive pool := PFin (l : list Z) | PCyc (l : list Z).
Definition pool_seq (p : pool) : lseq :=
  match p with PFin l => fin l | PCyc l => LS [] l false end.

(* ---- objects, operations, observations ---- *)
Inductive entry :=
  | EStream (s : lseq)              (* a Stream *)
  | EHub (s : lseq) (uses : nat)    (* a StreamTeeHub with [uses] copies left *)
  | EDead.                          (* must not be touched again (see harness RULE) *)
Definition state := list entry.

Inductive obs :=
  | OItems (l : list Z) | OItem (z : Z) | ORaise (e : string)
  | ONew (id : nat) | ONews (first n : nat) | OSelf | ODiverge | OBad.

(* an argument of a multi-argument Stream(..) / append(..): an existing object or a fresh list *)
Inductive marg := MObj (j : nat) | MFresh (l : list Z).

Inductive op :=
  | ONext (i : nat) | OTake (i : nat) (c : count) | OPeek (i : nat) (c : count)
  | OSkip (i : nat) (c : count) | OLimit (i : nat) (c : count) | OCopy (i : nat)
  | OAppend (i : nat) (p : pool) | OMap (i : nat) (f : efun) | OFilter (i : nat) (p : epred)
  | OThub (i n : nat) | OUse (i : nat) | OTee (i n : nat)
  | OThubVal (z : Z) (n : nat) | OTeeVal (z : Z) (n : nat)
  | OAppendObj (i j : nat)          (* s_i.append(obj_j), obj_j an existing Stream or hub *)
  | OMutateResult (m : nat)         (* the caller mutates, in place, the container a take/peek returned *)
  | ORefused (e : string)           (* a call that is refused with exception e (mixed arguments, bad constructor ..) *)
  | OMulti (tgt : option nat) (args : list marg).
      (* Stream(a, b, ..) (tgt = None: a new object) or s_i.append(a, b, ..) (tgt = Some i), two or more iterables *)

Fixpoint set_nth {A} (i : nat) (x : A) (l : list A) : list A :=
  match l, i with
  | [], _ => []
  | _ :: t, O => x :: t
  | h :: t, S k => h :: set_nth k x t
  end.

(* take(n) on a remaining sequence: observation and what remains *)
Definition take_seq (c : count) (s : lseq) : obs * lseq :=
  match take_count c with
  | TNext => match lnext s with
             | PItem x s' => (OItem x, s')
             | PStop => (ORaise "StopIteration", s)
             | PDiv => (ODiverge, s)
             end
  | TAll => match cyc s, dv s with
            | [], false => (OItems (pre s), lempty)
            | _, _ => (ODiverge, s)
            end
  | TN n => let '(l, s', d) := ltake n s in
            if d then (ODiverge, s) else (OItems l, s')
  end.

(* in-place methods: new remaining sequence, or dead (lazy error), or error *)
Inductive tres := TOk (s : lseq) | TDead | TErr (e : string).
Definition skip_t (c : count) (s : lseq) : tres :=
  match round_count c with inl z => TOk (ldrop (Z.to_nat z) s) | inr _ => TDead end.
Definition limit_t (c : count) (s : lseq) : tres :=
  match round_count c with inl z => TOk (llimit (Z.to_nat z) s) | inr e => TErr e end.

(* s.method(..) on a Stream mutates it and returns it; on a StreamTeeHub it is
   Stream(hub).method(..): one use is consumed and a new Stream is returned *)
Definition apply_t (st : state) (i : nat) (t : lseq -> tres) : state * obs :=
  match nth_error st i with
  | Some (EStream s) =>
      match t s with
      | TOk s' => (set_nth i (EStream s') st, OSelf)
      | TDead => (set_nth i EDead st, OSelf)
      | TErr e => (st, ORaise e)
      end
  | Some (EHub s (S u)) =>
      let st' := set_nth i (EHub s u) st in
      match t s with
      | TOk s' => (st' ++ [EStream s'], ONew (List.length st))
      | TDead => (st' ++ [EDead], ONew (List.length st))
      | TErr e => (st', ORaise e)
      end
  | Some (EHub _ O) => (st, ORaise "IndexError")
  | _ => (st, OBad)
  end.

(* iter(obj) handed to a new owner: a Stream gives its own iterator away (dead),
   a hub gives one of its copies *)
Definition give (st : state) (i : nat) : option (state * lseq) + string :=
  match nth_error st i with
  | Some (EStream s) => inl (Some (set_nth i EDead st, s))
  | Some (EHub s (S u)) => inl (Some (set_nth i (EHub s u) st, s))
  | Some (EHub _ O) => inr "IndexError"%string
  | _ => inl None
  end.

Definition do_take (st : state) (i : nat) (c : count) : state * obs :=
  match nth_error st i with
  | Some (EStream s) => let '(ob, s') := take_seq c s in (set_nth i (EStream s') st, ob)
  | Some (EHub _ _) => (st, ORaise "AttributeError")
  | _ => (st, OBad)
  end.

(* chain of iter(arg) for every arg: every argument gives up its iterator NOW, left to right
   (a hub is charged one use, a Stream hands over its own iterator); an IndexError of a later
   hub leaves the earlier ones charged *)
Fixpoint gather (st : state) (args : list marg) : (state * list lseq) + (state * obs) :=
  match args with
  | [] => inl (st, [])
  | MFresh l :: r =>
      match gather st r with
      | inl (st', ss) => inl (st', fin l :: ss)
      | inr e => inr e
      end
  | MObj j :: r =>
      match give st j with
      | inl (Some (st1, s)) =>
          match gather st1 r with
          | inl (st', ss) => inl (st', s :: ss)
          | inr e => inr e
          end
      | inl None => inr (st, OBad)
      | inr e => inr (st, ORaise e)
      end
  end.
Definition lchain (ss : list lseq) : lseq :=
  match ss with [] => lempty | s :: r => fold_left lappend r s end.

Definition step (st : state) (o : op) : state * obs :=
  match o with
  | ONext i =>
      match nth_error st i with
      | Some (EStream _) => do_take st i CNone
      | _ => (st, OBad)
      end
  | OTake i c => do_take st i c
  | OPeek i c =>
      match nth_error st i with
      | Some (EStream s) | Some (EHub s (S _)) => (st, fst (take_seq c s))
      | Some (EHub _ O) => (st, ORaise "IndexError")
      | _ => (st, OBad)
      end
  | OCopy i =>
      match nth_error st i with
      | Some (EStream s) | Some (EHub s (S _)) => (st ++ [EStream s], ONew (List.length st))
      | Some (EHub _ O) => (st, ORaise "IndexError")
      | _ => (st, OBad)
      end
  | OSkip i c => apply_t st i (skip_t c)
  | OLimit i c => apply_t st i (limit_t c)
  | OAppend i p => apply_t st i (fun s => TOk (lappend s (pool_seq p)))
  | OMap i f => apply_t st i (fun s => TOk (lmap (ef f) s))
  | OFilter i p => apply_t st i (fun s => TOk (lfilter (ep p) s))
  | OThub i n =>
      match give st i with
      | inl (Some (st', s)) => (st' ++ [EHub s n], ONew (List.length st))
      | inl None => (st, OBad)
      | inr e => (st, ORaise e)
      end
  | OUse i =>
      match nth_error st i with
      | Some (EHub s (S u)) => (set_nth i (EHub s u) st ++ [EStream s], ONew (List.length st))
      | Some (EHub _ O) => (st, ORaise "IndexError")
      | _ => (st, OBad)
      end
  | OTee i O =>       (* itertools.tee(x, 0) returns () without calling iter(x) *)
      match nth_error st i with
      | Some (EStream _) | Some (EHub _ _) => (st, ONews (List.length st) O)
      | _ => (st, OBad)
      end
  | OTee i n =>
      match give st i with
      | inl (Some (st', s)) => (st' ++ repeat (EStream s) n, ONews (List.length st) n)
      | inl None => (st, OBad)
      | inr e => (st, ORaise e)
      end
  | OThubVal z _ => (st, OItem z)
  | OTeeVal z n => (st, OItems (repeat z n))
  | OAppendObj i j =>
      (* chain(self._data, Stream(obj)._data): Stream(obj) calls iter(obj) NOW: a hub is
         charged one use at append time (IndexError if none is left, nothing changed); a
         plain Stream hands over its own iterator (shared: it must not be touched again) *)
      if Nat.eqb i j then (st, OBad) else
      match nth_error st i with
      | Some (EStream _) =>
          match give st j with
          | inl (Some (st', s)) => apply_t st' i (fun si => TOk (lappend si s))
          | inl None => (st, OBad)
          | inr e => (st, ORaise e)
          end
      | _ => (st, OBad)
      end
  | OMutateResult _ => (st, OSelf)   (* returned containers are fresh values: no object changes *)
  | ORefused e => (st, ORaise e)     (* a refused call builds nothing and changes NOTHING *)
  | OMulti tgt ((_ :: _ :: _) as args) =>
      match tgt with
      | None =>
          match gather st args with
          | inl (st', ss) => (st' ++ [EStream (lchain ss)], ONew (List.length st))
          | inr (st', ob) => (st', ob)
          end
      | Some i =>
          match nth_error st i with
          | Some (EStream _) =>
              match gather st args with
              | inl (st', ss) => apply_t st' i (fun si => TOk (lappend si (lchain ss)))
              | inr (st', ob) => (st', ob)
              end
          | _ => (st, OBad)
          end
      end
  | OMulti _ _ => (st, OBad)
  end.

Fixpoint run (st : state) (ops : list op) : list obs :=
  match ops with
  | [] => []
  | o :: r => let '(st', ob) := step st o in ob :: run st' r
  end.

(* ---- vocabulary of the theorems ---- *)
(* the object an operation is applied to *)
Definition target (o : op) : option nat :=
  match o with
  | ONext i | OTake i _ | OPeek i _ | OSkip i _ | OLimit i _ | OCopy i | OAppend i _
  | OMap i _ | OFilter i _ | OThub i _ | OUse i | OTee i _ => Some i
  | OThubVal _ _ | OTeeVal _ _ => None
  | OAppendObj i _ => Some i
  | OMutateResult _ | ORefused _ => None
  | OMulti tgt _ => tgt
  end.
(* the other objects the operation reads / uses up *)
Definition marg_obj (a : marg) : list nat := match a with MObj j => [j] | MFresh _ => [] end.
Definition uses (o : op) : list nat :=
  match o with
  | OAppendObj _ j => [j]
  | OMulti _ args => flat_map marg_obj args
  | _ => []
  end.

(* the state after a history *)
Fixpoint final (st : state) (ops : list op) : state :=
  match ops with [] => st | o :: r => final (fst (step st o)) r end.

(* histories over finite sources only (no periodic Stream(a, b, ..) in the pool or appended) *)
Definition fin_op (o : op) : Prop :=
  match o with OAppend _ (PCyc _) => False | OMulti _ _ => False | _ => True end.
Definition fin_pool (p : pool) : Prop := match p with PFin _ => True | PCyc _ => False end.
