(* C03 - one next() on the implementation-level heap is one step on the abstract sequences (finite sources). *)
From Coq Require Import List Bool ZArith String Lia.
From AL Require Import C03.Spec C03.Model C03.Abs C03.Proofs_Abs.
Import ListNotations.

Definition post (h : heap) (b : nat) (it : iter) (h' : heap) (it' : iter) (r : res) : Prop :=
  List.length h' = List.length h /\ ext h h' /\ wfH h' /\ wfI h' b it' /\ finI it' /\
  (forall n, vals_upto h' n = vals_upto h n) /\
  (forall d, (b <= d)%nat -> nth_error h' d = nth_error h d) /\
  match r with
  | RItem x => absI (heap_vals h) it = x :: absI (heap_vals h) it'
  | RStop => absI (heap_vals h) it = [] /\ absI (heap_vals h) it' = []
  | RFuel => False
  end.

Ltac mkpost := unfold post; refine (conj _ (conj _ (conj _ (conj _ (conj _ (conj _ (conj _ _))))))).

Lemma post_same : forall h b it it' r, wfH h -> wfI h b it' -> finI it' ->
  match r with
  | RItem x => absI (heap_vals h) it = x :: absI (heap_vals h) it'
  | RStop => absI (heap_vals h) it = [] /\ absI (heap_vals h) it' = []
  | RFuel => False
  end -> post h b it h it' r.
Proof.
  intros. mkpost; auto using ext_refl.
Qed.

Lemma heap_vals_eq : forall h h', List.length h' = List.length h ->
  (forall n, vals_upto h' n = vals_upto h n) -> heap_vals h' = heap_vals h.
Proof. intros h h' Hl Hv. unfold heap_vals. rewrite Hl. apply Hv. Qed.

(* a first call that leaves the abstract value of the whole iterator unchanged, then a second call *)
Lemma post_chain : forall h b it h1 it1 h2 it2 r,
  List.length h1 = List.length h -> ext h h1 -> (forall n, vals_upto h1 n = vals_upto h n) ->
  (forall d, (b <= d)%nat -> nth_error h1 d = nth_error h d) ->
  absI (heap_vals h) it = absI (heap_vals h) it1 ->
  post h1 b it1 h2 it2 r -> post h b it h2 it2 r.
Proof.
  intros h b it h1 it1 h2 it2 r Hl He Hv Hfr Ha (P1 & P2 & P3 & P4 & P5 & P6 & P8 & P7).
  rewrite (heap_vals_eq _ _ Hl Hv) in P7.
  mkpost; auto.
  - congruence.
  - eapply ext_trans; eauto.
  - intros n. rewrite P6. apply Hv.
  - intros d Hd. rewrite P8 by exact Hd. apply Hfr. exact Hd.
  - rewrite Ha. exact P7.
Qed.

Lemma skipn_nth_error : forall (l : list Z) i x, nth_error l i = Some x -> skipn i l = x :: skipn (S i) l.
Proof.
  induction l as [|a l IH]; intros i x H; [destruct i; discriminate|].
  destruct i; cbn in *; [congruence|]. apply IH. exact H.
Qed.

Lemma absI_upto : forall h0 h c it, wfI h0 c it -> (c <= List.length h)%nat ->
  absI (heap_vals h) it = absI (vals_upto h c) it.
Proof.
  intros h0 h c it Hw Hc. apply (absI_ext h0 c); [exact Hw|].
  intros d Hd. unfold heap_vals. rewrite !vals_upto_nth_lt by lia. reflexivity.
Qed.

Lemma tee_update : forall h h1 c src items src1 extra,
  wfH h -> nth_error h c = Some (Cell src items) ->
  List.length h1 = List.length h -> ext h h1 -> wfH h1 -> wfI h1 c src1 -> finI src1 ->
  (forall n, vals_upto h1 n = vals_upto h n) ->
  (forall d, (c <= d)%nat -> nth_error h1 d = nth_error h d) ->
  absI (heap_vals h) src = extra ++ absI (heap_vals h) src1 ->
  let h2 := set_nth c (Cell src1 (items ++ extra)) h1 in
  List.length h2 = List.length h /\ ext h h2 /\ wfH h2 /\
  (forall n, vals_upto h2 n = vals_upto h n) /\
  (forall d, (c < d)%nat -> nth_error h2 d = nth_error h d) /\
  nth_error h2 c = Some (Cell src1 (items ++ extra)).
Proof.
  intros h h1 c src items src1 extra Hh Hc Hl He Hh1 Hw1 Hf1 Hv Hfr Ha h2.
  assert (Hclt : (c < List.length h)%nat) by (apply nth_error_Some; congruence).
  assert (Hc1 : nth_error h1 c = Some (Cell src items)) by (rewrite Hfr by lia; exact Hc).
  assert (He12 : ext h1 h2).
  { apply (ext_set_nth h1 c (Cell src items)); [exact Hc1|]. cbn. rewrite app_length. lia. }
  assert (Hc2 : nth_error h2 c = Some (Cell src1 (items ++ extra))).
  { apply nth_error_set_nth_eq. lia. }
  refine (conj _ (conj _ (conj _ (conj _ (conj _ Hc2))))).
  - unfold h2. rewrite set_nth_length. exact Hl.
  - eapply ext_trans; eauto.
  - intros d cl Hd. destruct (Nat.eq_dec c d) as [<-|Hne].
    + rewrite Hc2 in Hd. inversion Hd; subst. cbn [c_src]. split; [|exact Hf1].
      eapply wfI_ext; eauto.
    + unfold h2 in Hd. rewrite nth_error_set_nth_ne in Hd by exact Hne.
      destruct (Hh1 d cl Hd) as [A B]. split; [|exact B]. eapply wfI_ext; eauto.
  - intros n. unfold h2. rewrite vals_set_nth; [apply Hv|lia|].
    rewrite Hc1. cbn [cell_val c_items c_src]. rewrite Hv.
    destruct (Hh c _ Hc) as [Hws _]. cbn [c_src] in Hws.
    rewrite <- (absI_upto h h c src) by (auto; lia).
    rewrite <- (absI_upto h1 h c src1) by (auto; lia).
    rewrite Ha, app_assoc. reflexivity.
  - intros d Hd. unfold h2. rewrite nth_error_set_nth_ne by lia. apply Hfr. lia.
Qed.

Lemma skipn_app_len : forall (l r : list Z), skipn (List.length l) (l ++ r) = r.
Proof. induction l as [|a l IH]; intros r; cbn; auto. Qed.

Lemma pull_sound : forall fuel h b it h' it' r,
  wfH h -> (b <= List.length h)%nat -> wfI h b it -> finI it ->
  pull fuel h it = (h', it', r) -> r <> RFuel -> post h b it h' it' r.
Proof.
  induction fuel as [|k IH]; intros h b it h' it' r Hh Hb Hw Hf Hp Hr.
  - cbn in Hp. inversion Hp; subst. congruence.
  - destruct it as [l|sv rm|x|f s|p s|a c|s|s n| |s n|c idx]; cbn [pull] in Hp; cbn [wfI finI] in Hw, Hf.
    + destruct l as [|x l]; inversion Hp; subst; apply post_same; auto; cbn; auto.
    + contradiction.
    + contradiction.
    + destruct (pull k h s) as [[h1 s1] r1] eqn:E. inversion Hp; subst. clear Hp.
      assert (Hr1 : r1 <> RFuel) by (destruct r1; congruence).
      destruct (IH _ _ _ _ _ _ Hh Hb Hw Hf E Hr1) as (P1 & P2 & P3 & P4 & P5 & P6 & P8 & P7).
      mkpost; auto.
      destruct r1; cbn [absI]; [rewrite P7; reflexivity| |contradiction].
      destruct P7 as [Q1 Q2]. rewrite Q1, Q2. auto.
    + (* IFilter *)
      destruct (pull k h s) as [[h1 s1] r1] eqn:E. destruct r1 as [x| |].
      * assert (Hr1 : RItem x <> RFuel) by congruence.
        destruct (IH _ _ _ _ _ _ Hh Hb Hw Hf E Hr1) as (P1 & P2 & P3 & P4 & P5 & P6 & P8 & P7).
        destruct (ep p x) eqn:Ep.
        -- inversion Hp; subst. mkpost; auto.
           cbn [absI]. rewrite P7. cbn [filter]. rewrite Ep. reflexivity.
        -- assert (Hb1 : (b <= List.length h1)%nat) by lia.
           apply (post_chain h b _ h1 (IFilter p s1)); auto.
           cbn [absI]. rewrite P7. cbn [filter]. rewrite Ep. reflexivity.
      * inversion Hp; subst.
        destruct (IH _ _ _ _ _ _ Hh Hb Hw Hf E Hr) as (P1 & P2 & P3 & P4 & P5 & P6 & P8 & P7).
        mkpost; auto. cbn [absI]. destruct P7 as [Q1 Q2]. rewrite Q1, Q2. auto.
      * inversion Hp; subst. congruence.
    + (* IChain *)
      destruct Hw as [Hwa Hwc]. destruct Hf as [Hfa Hfc].
      destruct (pull k h a) as [[h1 a1] r1] eqn:E. destruct r1 as [x| |].
      * inversion Hp; subst.
        destruct (IH _ _ _ _ _ _ Hh Hb Hwa Hfa E Hr) as (P1 & P2 & P3 & P4 & P5 & P6 & P8 & P7).
        mkpost; auto.
        -- cbn [wfI]. split; [exact P4|]. eapply wfI_ext; eauto.
        -- cbn [finI]. auto.
        -- cbn [absI]. rewrite P7. reflexivity.
      * assert (Hr1 : RStop <> RFuel) by congruence.
        destruct (IH _ _ _ _ _ _ Hh Hb Hwa Hfa E Hr1) as (P1 & P2 & P3 & P4 & P5 & P6 & P8 & P7).
        assert (Hb1 : (b <= List.length h1)%nat) by lia.
        apply (post_chain h b _ h1 (IChainB c)); auto.
        -- cbn [absI]. destruct P7 as [Q1 Q2]. rewrite Q1. reflexivity.
        -- apply (IH h1 b (IChainB c)); auto. cbn [wfI]. eapply wfI_ext; eauto.
      * inversion Hp; subst. congruence.
    + (* IChainB *)
      destruct (pull k h s) as [[h1 s1] r1] eqn:E. inversion Hp; subst. clear Hp.
      destruct (IH _ _ _ _ _ _ Hh Hb Hw Hf E Hr) as (P1 & P2 & P3 & P4 & P5 & P6 & P8 & P7).
      mkpost; auto.
    + (* ISkip *)
      destruct n as [|n]; cbn [pull] in Hp.
      * destruct (pull k h s) as [[h1 s1] r1] eqn:E. destruct r1 as [x| |]; inversion Hp; subst; clear Hp.
        -- destruct (IH _ _ _ _ _ _ Hh Hb Hw Hf E Hr) as (P1 & P2 & P3 & P4 & P5 & P6 & P8 & P7).
           mkpost; auto.
        -- destruct (IH _ _ _ _ _ _ Hh Hb Hw Hf E Hr) as (P1 & P2 & P3 & P4 & P5 & P6 & P8 & P7).
           mkpost; cbn [wfI finI absI skipn]; auto. split; [apply P7|reflexivity].
        -- congruence.
      * destruct (pull k h s) as [[h1 s1] r1] eqn:E. destruct r1 as [x| |].
        -- assert (Hr1 : RItem x <> RFuel) by congruence.
           destruct (IH _ _ _ _ _ _ Hh Hb Hw Hf E Hr1) as (P1 & P2 & P3 & P4 & P5 & P6 & P8 & P7).
           assert (Hb1 : (b <= List.length h1)%nat) by lia.
           apply (post_chain h b _ h1 (ISkip s1 n)); auto.
           cbn [absI]. rewrite P7. reflexivity.
        -- inversion Hp; subst; clear Hp.
           destruct (IH _ _ _ _ _ _ Hh Hb Hw Hf E Hr) as (P1 & P2 & P3 & P4 & P5 & P6 & P8 & P7).
           mkpost; cbn [wfI finI absI]; auto. destruct P7 as [Q1 Q2]. rewrite Q1. auto.
        -- inversion Hp; subst. congruence.
    + (* IDone *)
      inversion Hp; subst. apply post_same; cbn; auto.
    + (* ILimit *)
      destruct n as [|n]; cbn [pull] in Hp.
      * inversion Hp; subst. apply post_same; cbn; auto.
      * destruct (pull k h s) as [[h1 s1] r1] eqn:E. destruct r1 as [x| |]; inversion Hp; subst; clear Hp.
        -- destruct (IH _ _ _ _ _ _ Hh Hb Hw Hf E Hr) as (P1 & P2 & P3 & P4 & P5 & P6 & P8 & P7).
           mkpost; auto. cbn [absI]. rewrite P7. reflexivity.
        -- destruct (IH _ _ _ _ _ _ Hh Hb Hw Hf E Hr) as (P1 & P2 & P3 & P4 & P5 & P6 & P8 & P7).
           mkpost; auto. cbn [absI]. destruct P7 as [Q1 Q2]. rewrite Q1. auto.
        -- congruence.
    + (* ITee *)
      destruct Hw as [Hcb [cl [Hc Hidx]]]. rewrite Hc in Hp. destruct cl as [src items].
      cbn [c_items] in Hidx. destruct (nth_error items idx) as [x|] eqn:Ex.
      * inversion Hp; subst. apply post_same; auto.
        -- cbn [wfI]. split; [exact Hcb|]. exists (Cell src items). split; [exact Hc|]. cbn.
           assert (idx < List.length items)%nat by (apply nth_error_Some; congruence). lia.
        -- cbn [absI]. rewrite (heap_vals_nth h' c _ Hh Hc). cbn [c_items c_src].
           apply skipn_nth_error. rewrite nth_error_app1; [exact Ex|].
           apply nth_error_Some. congruence.
      * assert (Hlen : idx = List.length items).
        { apply nth_error_None in Ex. lia. }
        subst idx. destruct (Hh c _ Hc) as [Hws Hfs]. cbn [c_src] in Hws, Hfs.
        assert (Hcl : (c <= List.length h)%nat) by lia.
        assert (Hv : nth c (heap_vals h) [] = items ++ absI (heap_vals h) src)
          by (rewrite (heap_vals_nth h c _ Hh Hc); reflexivity).
        destruct (pull k h src) as [[h1 src1] r1] eqn:E. destruct r1 as [x| |].
        -- inversion Hp; subst; clear Hp.
           destruct (IH _ _ _ _ _ _ Hh Hcl Hws Hfs E Hr) as (P1 & P2 & P3 & P4 & P5 & P6 & P8 & P7).
           destruct (tee_update h h1 c src items src1 [x] Hh Hc P1 P2 P3 P4 P5 P6 P8 P7)
             as (T1 & T2 & T3 & T4 & T5 & T6).
           mkpost; auto.
           ++ cbn [wfI]. split; [lia|]. eexists. split; [exact T6|]. cbn. rewrite app_length. cbn. lia.
           ++ intros d Hd. apply T5. lia.
           ++ cbn [absI]. rewrite Hv, P7. rewrite skipn_app_len.
              replace (items ++ x :: absI (heap_vals h) src1) with ((items ++ [x]) ++ absI (heap_vals h) src1)
                by (rewrite <- app_assoc; reflexivity).
              replace (S (List.length items)) with (List.length (items ++ [x]))
                by (rewrite app_length; cbn; lia).
              rewrite skipn_app_len. reflexivity.
        -- inversion Hp; subst; clear Hp.
           destruct (IH _ _ _ _ _ _ Hh Hcl Hws Hfs E Hr) as (P1 & P2 & P3 & P4 & P5 & P6 & P8 & P7).
           destruct P7 as [Q1 Q2].
           assert (Ha : absI (heap_vals h) src = [] ++ absI (heap_vals h) src1) by (rewrite Q1, Q2; reflexivity).
           destruct (tee_update h h1 c src items src1 [] Hh Hc P1 P2 P3 P4 P5 P6 P8 Ha)
             as (T1 & T2 & T3 & T4 & T5 & T6).
           rewrite app_nil_r in *.
           mkpost; auto.
           ++ cbn [wfI]. split; [lia|]. eexists. split; [exact T6|]. cbn. lia.
           ++ intros d Hd. apply T5. lia.
           ++ cbn [absI]. rewrite Hv, Q1, app_nil_r. rewrite skipn_all. auto.
        -- inversion Hp; subst. congruence.
Qed.
