(* C03 - simulation between the implementation-level state and the list model (finite sources). *)
From Coq Require Import List Bool ZArith String Lia.
From AL Require Import C03.Spec C03.Model C03.Abs C03.Proofs_Abs C03.Proofs_Pull C03.Proofs_Fin C03.Proofs_Take.
Import ListNotations.

(* heap changes that keep every existing iterator meaningful with the same value *)
Definition pres (h h' : heap) : Prop :=
  (List.length h <= List.length h')%nat /\ ext h h' /\ wfH h' /\
  (forall c, (c < List.length h)%nat -> nth c (heap_vals h') [] = nth c (heap_vals h) []).

Lemma pres_refl : forall h, wfH h -> pres h h.
Proof. intros h Hh. unfold pres. auto using ext_refl. Qed.

Lemma pres_trans : forall h1 h2 h3, pres h1 h2 -> pres h2 h3 -> pres h1 h3.
Proof.
  intros h1 h2 h3 (A1 & A2 & A3 & A4) (B1 & B2 & B3 & B4).
  refine (conj _ (conj _ (conj B3 _))); [lia|eapply ext_trans; eauto|].
  intros c Hc. rewrite B4 by lia. apply A4. exact Hc.
Qed.

Lemma stable_pres : forall h b h', stable h b h' -> pres h h'.
Proof.
  intros h b h' S. pose proof (stable_vals _ _ _ S) as V. destruct S as (A1 & A2 & A3 & A4 & A5).
  refine (conj _ (conj A2 (conj A3 _))); [lia|]. intros c _. rewrite V. reflexivity.
Qed.

Lemma okI_pres : forall h h' it, pres h h' -> okI h it ->
  okI h' it /\ absI (heap_vals h') it = absI (heap_vals h) it.
Proof.
  intros h h' it (A1 & A2 & A3 & A4) [Hw Hf]. split.
  - split; [|exact Hf]. eapply wfI_weaken; [exact A1|]. eapply wfI_ext; eauto.
  - apply (absI_ext h (List.length h)); auto.
Qed.

Lemma vals_upto_app : forall h cl n, (n <= List.length h)%nat ->
  vals_upto (h ++ [cl]) n = vals_upto h n.
Proof.
  intros h cl n. induction n as [|n IH]; intros Hn; [reflexivity|].
  cbn [vals_upto]. rewrite IH by lia. rewrite nth_error_app1 by lia. reflexivity.
Qed.

(* wrapping an iterator in a new buffer cell *)
Lemma alloc_pres : forall h it, wfH h -> okI h it ->
  let h' := h ++ [Cell it []] in
  pres h h' /\ okI h' (ITee (List.length h) O) /\
  absI (heap_vals h') (ITee (List.length h) O) = absI (heap_vals h) it.
Proof.
  intros h it Hh [Hw Hf] h'.
  assert (Hl : List.length h' = S (List.length h)) by (unfold h'; rewrite app_length; cbn; lia).
  assert (He : ext h h').
  { intros c cl Hc. exists cl. split; [|lia]. unfold h'. rewrite nth_error_app1; [exact Hc|].
    apply nth_error_Some. congruence. }
  assert (Hn : nth_error h' (List.length h) = Some (Cell it [])).
  { unfold h'. rewrite nth_error_app2 by lia. rewrite Nat.sub_diag. reflexivity. }
  assert (Hh' : wfH h').
  { intros c cl Hc. destruct (Nat.lt_ge_cases c (List.length h)) as [Hlt|Hge].
    - unfold h' in Hc. rewrite nth_error_app1 in Hc by exact Hlt.
      destruct (Hh c cl Hc) as [A B]. split; [|exact B]. eapply wfI_ext; eauto.
    - assert (c = List.length h).
      { assert (c < List.length h')%nat by (apply nth_error_Some; congruence). lia. }
      subst c. rewrite Hn in Hc. inversion Hc; subst. cbn [c_src]. split; [|exact Hf].
      eapply wfI_ext; eauto. }
  assert (Hv : heap_vals h' = heap_vals h ++ [absI (heap_vals h) it]).
  { unfold heap_vals at 1. rewrite Hl. cbn [vals_upto]. unfold h' at 1 2.
    rewrite vals_upto_app by lia. fold h'. rewrite Hn. reflexivity. }
  split; [|split].
  - refine (conj _ (conj He (conj Hh' _))); [lia|].
    intros c Hc. rewrite Hv. rewrite app_nth1; [reflexivity|].
    unfold heap_vals. rewrite vals_upto_length. exact Hc.
  - split; [|exact I]. cbn [wfI]. split; [lia|]. eexists. split; [exact Hn|]. cbn. lia.
  - cbn [absI skipn]. rewrite Hv. rewrite app_nth2; unfold heap_vals; rewrite vals_upto_length; [|lia].
    rewrite Nat.sub_diag. reflexivity.
Qed.

Lemma tee_iter_sound : forall h it n h' its, wfH h -> okI h it ->
  tee_iter h it n = (h', its) ->
  pres h h' /\ List.length its = n /\
  Forall (fun a => okI h' a /\ absI (heap_vals h') a = absI (heap_vals h) it) its.
Proof.
  intros h it n h' its Hh Hok Ht. destruct n as [|m].
  - cbn in Ht. inversion Ht; subst. auto using pres_refl.
  - assert (Hcopy : forall c i, it = ITee c i -> tee_iter h it (S m) = (h, repeat it (S m)))
      by (intros c i ->; reflexivity).
    assert (Hnew : (forall c i, it <> ITee c i) ->
                   tee_iter h it (S m) = (h ++ [Cell it []], repeat (ITee (List.length h) O) (S m)))
      by (intros Hne; destruct it; try reflexivity; exfalso; eapply Hne; reflexivity).
    assert (Hgen : (forall c i, it <> ITee c i) ->
      pres h h' /\ List.length its = S m /\
      Forall (fun a => okI h' a /\ absI (heap_vals h') a = absI (heap_vals h) it) its).
    { intros Hne. rewrite (Hnew Hne) in Ht. injection Ht as E1 E2. subst h' its.
      pose proof (alloc_pres h it Hh Hok) as A. cbv zeta in A. destruct A as (A1 & A2 & A3).
      split; [exact A1|split; [exact (repeat_length _ (S m))|]].
      apply Forall_forall. intros a Ha. apply (repeat_spec (S m)) in Ha. subst a. auto. }
    destruct it as [l|sv rm|x|f s|p s|a c|s|s k| |s k|c idx];
      try (apply Hgen; intros; discriminate).
    rewrite (Hcopy c idx eq_refl) in Ht. injection Ht as E1 E2. subst h' its.
    split; [apply pres_refl; exact Hh|split; [exact (repeat_length _ (S m))|]].
    apply Forall_forall. intros a Ha. apply (repeat_spec (S m)) in Ha. subst a. auto.
Qed.

(* ---- the simulation relation ---- *)
Definition Rit (h : heap) (l : list Z) (it : iter) : Prop := okI h it /\ absI (heap_vals h) it = l.

Definition Robj (h : heap) (o : obj) (e : entry) : Prop :=
  match o, e with
  | XStream it, EStream s => exists l, s = fin l /\ Rit h l it
  | XHub its, EHub s u => exists l, s = fin l /\ u = List.length its /\ Forall (Rit h l) its
  | XDead, EDead => True
  | _, _ => False
  end.

Definition R (ist : istate) (st : state) : Prop :=
  wfH (i_heap ist) /\ Forall2 (Robj (i_heap ist)) (i_objs ist) st.

Lemma Rit_pres : forall h h' l it, pres h h' -> Rit h l it -> Rit h' l it.
Proof.
  intros h h' l it Hp [Hok Ha]. destruct (okI_pres _ _ _ Hp Hok) as [A B].
  split; [exact A|congruence].
Qed.

Lemma Robj_pres : forall h h' o e, pres h h' -> Robj h o e -> Robj h' o e.
Proof.
  intros h h' o e Hp. destruct o as [it|its|], e as [s|s u|]; cbn; auto.
  - intros [l [Hs Hr]]. exists l. split; [exact Hs|]. eapply Rit_pres; eauto.
  - intros [l [Hs [Hu Hr]]]. exists l. split; [exact Hs|split; [exact Hu|]].
    eapply Forall_impl; [|exact Hr]. intros a. apply Rit_pres. exact Hp.
Qed.

Lemma Robjs_pres : forall h h' os st, pres h h' ->
  Forall2 (Robj h) os st -> Forall2 (Robj h') os st.
Proof.
  intros h h' os st Hp HF. induction HF; constructor; auto. eapply Robj_pres; eauto.
Qed.
