(* C03 - with enough fuel every operation on finite sources finishes: the refinement without a fuel hypothesis. *)
From Coq Require Import List Bool ZArith String Lia.
From AL Require Import C03.Spec C03.Model C03.Abs C03.Proofs_Abs C03.Proofs_Pull C03.Proofs_Fin C03.Proofs_Take
  C03.Proofs_Fuel C03.Proofs_Sim C03.Proofs_Step C03.Proofs_Refine.
Import ListNotations.

Lemma pull_settles : forall h b it, wfH h -> (b <= List.length h)%nat -> wfI h b it -> finI it ->
  exists f0 h' it' r, r <> RFuel /\ forall f, (f0 <= f)%nat -> pull f h it = (h', it', r).
Proof.
  intros h b it Hh Hb Hw Hf. destruct (pull_terminates b (sz it) it h (le_n _) Hh Hb Hw Hf) as [f0 H0].
  destruct (pull f0 h it) as [[h' it'] r] eqn:E. cbn [snd] in H0.
  exists f0, h', it', r. split; [exact H0|]. intros f Hle. eapply pull_mono; eauto.
Qed.

Lemma pull_n_settles : forall n h b it, wfH h -> (b <= List.length h)%nat -> wfI h b it -> finI it ->
  exists f0 h' it' l, forall f, (f0 <= f)%nat -> pull_n f n h it = (h', it', l, false).
Proof.
  induction n as [|n IH]; intros h b it Hh Hb Hw Hf.
  - exists O, h, it, []. reflexivity.
  - destruct (pull_settles h b it Hh Hb Hw Hf) as (f1 & h1 & it1 & r1 & Hr1 & H1).
    pose proof (H1 f1 (le_n _)) as E.
    destruct r1 as [x| |]; try congruence.
    + destruct (pull_sound _ _ _ _ _ _ _ Hh Hb Hw Hf E Hr1) as (P1 & P2 & P3 & P4 & P5 & P6 & P8 & P7).
      destruct (IH h1 b it1 P3 ltac:(lia) P4 P5) as (f2 & h2 & it2 & l2 & H2).
      exists (Nat.max f1 f2), h2, it2, (x :: l2). intros f Hle. cbn [pull_n].
      rewrite (H1 f ltac:(lia)), (H2 f ltac:(lia)). reflexivity.
    + exists f1, h1, it1, []. intros f Hle. cbn [pull_n]. rewrite (H1 f Hle). reflexivity.
Qed.

Lemma pull_all_settles : forall m h b it, wfH h -> (b <= List.length h)%nat -> wfI h b it -> finI it ->
  (List.length (absI (heap_vals h) it) <= m)%nat ->
  exists f0 h' it' l, forall f k, (f0 <= f)%nat -> (m < k)%nat -> pull_all k f h it = (h', it', l, false).
Proof.
  induction m as [|m IH]; intros h b it Hh Hb Hw Hf Hm;
    destruct (pull_settles h b it Hh Hb Hw Hf) as (f1 & h1 & it1 & r1 & Hr1 & H1);
    pose proof (H1 f1 (le_n _)) as E;
    pose proof (pull_sound _ _ _ _ _ _ _ Hh Hb Hw Hf E Hr1) as P;
    pose proof (stable_vals _ _ _ (post_stable _ _ _ _ _ _ P)) as V;
    destruct P as (P1 & P2 & P3 & P4 & P5 & P6 & P8 & P7);
    destruct r1 as [x| |]; try congruence.
  - rewrite P7 in Hm. cbn in Hm. lia.
  - exists f1, h1, it1, []. intros f k Hle Hk. destruct k; [lia|]. cbn [pull_all]. rewrite (H1 f Hle). reflexivity.
  - assert (Hm1 : (List.length (absI (heap_vals h1) it1) <= m)%nat).
    { rewrite V. rewrite P7 in Hm. cbn in Hm. lia. }
    destruct (IH h1 b it1 P3 ltac:(lia) P4 P5 Hm1) as (f2 & h2 & it2 & l2 & H2).
    exists (Nat.max f1 f2), h2, it2, (x :: l2). intros f k Hle Hk. destruct k; [lia|]. cbn [pull_all].
    rewrite (H1 f ltac:(lia)), (H2 f k ltac:(lia) ltac:(lia)). reflexivity.
  - exists f1, h1, it1, []. intros f k Hle Hk. destruct k; [lia|]. cbn [pull_all]. rewrite (H1 f Hle). reflexivity.
Qed.

Lemma take_iter_settles : forall c h b it, wfH h -> (b <= List.length h)%nat -> wfI h b it -> finI it ->
  exists f0 h' it' ob, ob <> ODiverge /\ forall f, (f0 <= f)%nat -> take_iter f c h it = (h', it', ob).
Proof.
  intros c h b it Hh Hb Hw Hf. unfold take_iter. destruct (take_count c) as [| |n].
  - destruct (pull_settles h b it Hh Hb Hw Hf) as (f1 & h1 & it1 & r1 & Hr1 & H1).
    exists f1, h1, it1. eexists. split; [|intros f Hle; rewrite (H1 f Hle); reflexivity].
    destruct r1; congruence.
  - destruct (pull_all_settles _ h b it Hh Hb Hw Hf (le_n _)) as (f1 & h1 & it1 & l1 & H1).
    exists (Nat.max f1 (S (List.length (absI (heap_vals h) it)))), h1, it1, (OItems l1).
    split; [discriminate|]. intros f Hle. rewrite (H1 f f ltac:(lia) ltac:(lia)). reflexivity.
  - destruct (pull_n_settles n h b it Hh Hb Hw Hf) as (f1 & h1 & it1 & l1 & H1).
    exists f1, h1, it1, (OItems l1). split; [discriminate|]. intros f Hle. rewrite (H1 f Hle). reflexivity.
Qed.

Lemma iapply_nd : forall st i t, snd (iapply st i t) <> ODiverge.
Proof.
  intros [h os] i t. unfold iapply. destruct (nth_error os i) as [[it|its|]|]; try (cbn; discriminate).
  - destruct (t it); cbn; discriminate.
  - destruct (pop_last its) as [[its' it]|]; [|cbn; discriminate]. destruct (t it); cbn; discriminate.
Qed.

Definition settles (ist : istate) (o : op) : Prop :=
  exists f0 ist' ob, ob <> ODiverge /\ forall f, (f0 <= f)%nat -> istep f ist o = (ist', ob).

Lemma settles_const : forall ist o, (forall f, istep f ist o = istep O ist o) ->
  snd (istep O ist o) <> ODiverge -> settles ist o.
Proof.
  intros ist o Hc Hnd. exists O, (fst (istep O ist o)), (snd (istep O ist o)).
  split; [exact Hnd|]. intros f _. rewrite Hc. destruct (istep O ist o); reflexivity.
Qed.

Lemma itake_settles : forall h os st i c, R (IS h os) st ->
  exists f0 ist' ob, ob <> ODiverge /\ forall f, (f0 <= f)%nat -> itake f (IS h os) i c = (ist', ob).
Proof.
  intros h os st i c HR. pose proof (R_lookup h os st i HR) as Hl. assert (Hh : wfH h) by apply HR.
  unfold itake. destruct (nth_error os i) as [[it|its|]|], (nth_error st i) as [[s|s u|]|]; cbn in Hl; try contradiction;
    try (exists O; do 2 eexists; split; [|intros; reflexivity]; discriminate).
  destruct Hl as [l [_ [[Hw Hf] _]]].
  destruct (take_iter_settles c h _ it Hh (le_n _) Hw Hf) as (f0 & h1 & it1 & ob & Hob & H1).
  exists f0. do 2 eexists. split; [exact Hob|]. intros f Hle. rewrite (H1 f Hle). reflexivity.
Qed.

Lemma peek_settles : forall h os st i c, R (IS h os) st -> settles (IS h os) (OPeek i c).
Proof.
  intros h os st i c HR. pose proof (icopy_sim h os st i HR) as Hc. unfold settles. cbn [istep].
  destruct (icopy (IS h os) i) as [[[[h1 os1] b]|]|e].
  - destruct Hc as [l [_ [HR1 [[[Hw Hf] _] _]]]]. assert (Hh1 : wfH h1) by apply HR1.
    destruct (take_iter_settles c h1 _ b Hh1 (le_n _) Hw Hf) as (f0 & h2 & it2 & ob & Hob & H1).
    exists f0. do 2 eexists. split; [exact Hob|]. intros f Hle. rewrite (H1 f Hle). reflexivity.
  - exists O. do 2 eexists. split; [|intros; reflexivity]. discriminate.
  - exists O. do 2 eexists. split; [|intros; reflexivity]. discriminate.
Qed.

Lemma igather_nd : forall args st st' ob, igather st args = inr (st', ob) -> ob <> ODiverge.
Proof.
  induction args as [|a args IH]; intros st st' ob H; cbn [igather] in H; [discriminate|].
  destruct a as [j|l].
  - destruct (igive st j) as [[[st1 it]|]|e]; try (inversion H; subst; discriminate).
    destruct (igather st1 args) as [[st2 its]|[st2 ob2]] eqn:E; [discriminate|].
    inversion H; subst. eapply IH; eauto.
  - destruct (igather st args) as [[st2 its]|[st2 ob2]] eqn:E; [discriminate|].
    inversion H; subst. eapply IH; eauto.
Qed.

Lemma istep_settles : forall h os st o, R (IS h os) st -> settles (IS h os) o.
Proof.
  intros h os st o HR.
  destruct o as [i|i c|i c|i c|i c|i|i p|i f|i p|i n|i|i n|z n|z n|i j|m|e|tgt args].
  - unfold settles. cbn [istep i_objs]. destruct (nth_error os i) as [[it|its|]|] eqn:Eo;
      try (exists O; do 2 eexists; split; [|intros; reflexivity]; discriminate).
    apply (itake_settles h os st i CNone HR).
  - unfold settles. cbn [istep]. apply (itake_settles h os st i c HR).
  - apply (peek_settles h os st i c HR).
  - apply settles_const; [reflexivity|apply iapply_nd].
  - apply settles_const; [reflexivity|apply iapply_nd].
  - apply settles_const; [reflexivity|]. cbn [istep].
    destruct (icopy (IS h os) i) as [[[[h1 os1] b]|]|e]; cbn; discriminate.
  - apply settles_const; [reflexivity|apply iapply_nd].
  - apply settles_const; [reflexivity|apply iapply_nd].
  - apply settles_const; [reflexivity|apply iapply_nd].
  - apply settles_const; [reflexivity|]. cbn [istep].
    destruct (igive (IS h os) i) as [[[[h1 os1] it]|]|e]; try (cbn; discriminate).
    destruct (tee_iter h1 it n); cbn; discriminate.
  - apply settles_const; [reflexivity|]. cbn [istep i_objs].
    destruct (nth_error os i) as [[it|its|]|]; try (cbn; discriminate).
    destruct (igive (IS h os) i) as [[[[h1 os1] it]|]|e]; cbn; discriminate.
  - apply settles_const; [reflexivity|]. destruct n as [|n]; cbn [istep i_objs].
    + destruct (nth_error os i) as [[it|its|]|]; cbn; discriminate.
    + destruct (igive (IS h os) i) as [[[[h1 os1] it]|]|e]; try (cbn; discriminate).
      destruct (tee_iter h1 it (S n)); cbn; discriminate.
  - apply settles_const; [reflexivity|cbn; discriminate].
  - apply settles_const; [reflexivity|cbn; discriminate].
  - apply settles_const; [reflexivity|]. cbn [istep i_objs]. destruct (Nat.eqb i j); [cbn; discriminate|].
    destruct (nth_error os i) as [[it|its|]|]; try (cbn; discriminate).
    destruct (igive (IS h os) j) as [[[ist1 itj]|]|e]; try (cbn; discriminate). apply iapply_nd.
  - apply settles_const; [reflexivity|cbn; discriminate].
  - apply settles_const; [reflexivity|cbn; discriminate].
  - apply settles_const; [reflexivity|]. cbn [istep i_objs].
    destruct args as [|a [|b args]]; try (cbn; discriminate). destruct tgt as [i|].
    + destruct (nth_error os i) as [[it|its|]|]; try (cbn; discriminate).
      destruct (igather (IS h os) (a :: b :: args)) as [[st1 its]|[st1 ob1]] eqn:E; [apply iapply_nd|].
      cbn [snd]. eapply igather_nd; eauto.
    + destruct (igather (IS h os) (a :: b :: args)) as [[[h1 os1] its]|[st1 ob1]] eqn:E; [cbn; discriminate|].
      cbn [snd]. eapply igather_nd; eauto.
Qed.

Lemma run_total : forall ops ist st, R ist st -> Forall fin_op ops ->
  exists f0, forall f, (f0 <= f)%nat -> irun f ist ops = run st ops.
Proof.
  induction ops as [|o ops IH]; intros [h os] st HR Hf; [exists O; reflexivity|].
  inversion Hf as [|? ? Hfo Hfr]; subst.
  destruct (istep_settles h os st o HR) as (f1 & ist' & ob & Hob & H1).
  destruct (step_sim f1 h os st o HR Hfo ist' ob (H1 f1 (le_n _)) Hob) as [st' [Hs HR']].
  destruct (IH ist' st' HR' Hfr) as [f2 H2].
  exists (Nat.max f1 f2). intros f Hle. cbn [irun run]. rewrite (H1 f ltac:(lia)), Hs.
  rewrite (H2 f ltac:(lia)). reflexivity.
Qed.

(* Every history over finite sources: with enough fuel (and any larger amount)
   the implementation-level run equals the list model's run, observable by observable. *)
Theorem refines_list_model_finite_total : forall ps ops,
  Forall fin_pool ps -> Forall fin_op ops ->
  exists f0, forall fuel, (f0 <= fuel)%nat ->
    irun fuel (init ps) ops = run (map (fun p => EStream (pool_seq p)) ps) ops.
Proof. intros ps ops Hp Ho. apply run_total; auto using R_init. Qed.
