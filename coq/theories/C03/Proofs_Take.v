(* C03 - take / islice / list(it) on the implementation-level heap. *)
From Coq Require Import List Bool ZArith String Lia.
From AL Require Import C03.Spec C03.Model C03.Abs C03.Proofs_Abs C03.Proofs_Pull C03.Proofs_Fin.
Import ListNotations.

(* what every operation preserves of the heap *)
Definition stable (h : heap) (b : nat) (h' : heap) : Prop :=
  List.length h' = List.length h /\ ext h h' /\ wfH h' /\
  (forall n, vals_upto h' n = vals_upto h n) /\
  (forall d, (b <= d)%nat -> nth_error h' d = nth_error h d).

Lemma stable_refl : forall h b, wfH h -> stable h b h.
Proof. intros h b Hh. unfold stable. auto using ext_refl. Qed.

Lemma stable_trans : forall h1 h2 h3 b, stable h1 b h2 -> stable h2 b h3 -> stable h1 b h3.
Proof.
  intros h1 h2 h3 b (A1 & A2 & A3 & A4 & A5) (B1 & B2 & B3 & B4 & B5).
  refine (conj _ (conj _ (conj B3 (conj _ _)))).
  - congruence.
  - eapply ext_trans; eauto.
  - intros n. rewrite B4. apply A4.
  - intros d Hd. rewrite B5 by exact Hd. apply A5. exact Hd.
Qed.

Lemma stable_vals : forall h b h', stable h b h' -> heap_vals h' = heap_vals h.
Proof. intros h b h' (A1 & _ & _ & A4 & _). apply heap_vals_eq; auto. Qed.

Lemma post_stable : forall h b it h' it' r, post h b it h' it' r -> stable h b h'.
Proof. intros h b it h' it' r (P1 & P2 & P3 & P4 & P5 & P6 & P8 & P7). unfold stable. auto. Qed.

Lemma pull_n_sound : forall fuel n h b it h' it' l d,
  wfH h -> (b <= List.length h)%nat -> wfI h b it -> finI it ->
  pull_n fuel n h it = (h', it', l, d) -> d = false ->
  stable h b h' /\ wfI h' b it' /\ finI it' /\
  l = firstn n (absI (heap_vals h) it) /\
  absI (heap_vals h) it' = skipn n (absI (heap_vals h) it).
Proof.
  intros fuel n. induction n as [|n IH]; intros h b it h' it' l d Hh Hb Hw Hf Hp Hd.
  - cbn in Hp. inversion Hp; subst. auto using stable_refl.
  - cbn [pull_n] in Hp. destruct (pull fuel h it) as [[h1 it1] r1] eqn:E.
    destruct r1 as [x| |].
    + destruct (pull_n fuel n h1 it1) as [[[h2 it2] l2] d2] eqn:E2. inversion Hp; subst; clear Hp.
      assert (Hr : RItem x <> RFuel) by congruence.
      pose proof (pull_sound _ _ _ _ _ _ _ Hh Hb Hw Hf E Hr) as P.
      pose proof (post_stable _ _ _ _ _ _ P) as S1.
      destruct P as (P1 & P2 & P3 & P4 & P5 & P6 & P8 & P7).
      assert (Hb1 : (b <= List.length h1)%nat) by lia.
      destruct (IH _ _ _ _ _ _ _ P3 Hb1 P4 P5 E2 eq_refl) as (S2 & Q1 & Q2 & Q3 & Q4).
      rewrite (stable_vals _ _ _ S1) in Q3, Q4.
      refine (conj (stable_trans _ _ _ _ S1 S2) (conj Q1 (conj Q2 _))).
      rewrite P7. cbn [firstn skipn]. split; [rewrite Q3; reflexivity|exact Q4].
    + inversion Hp; subst; clear Hp.
      assert (Hr : RStop <> RFuel) by congruence.
      pose proof (pull_sound _ _ _ _ _ _ _ Hh Hb Hw Hf E Hr) as P.
      pose proof (post_stable _ _ _ _ _ _ P) as S1.
      destruct P as (P1 & P2 & P3 & P4 & P5 & P6 & P8 & [Q1 Q2]).
      refine (conj S1 (conj P4 (conj P5 _))). rewrite Q1, Q2. auto.
    + inversion Hp; subst. discriminate.
Qed.

Lemma pull_all_sound : forall fuel k h b it h' it' l d,
  wfH h -> (b <= List.length h)%nat -> wfI h b it -> finI it ->
  pull_all k fuel h it = (h', it', l, d) -> d = false ->
  stable h b h' /\ wfI h' b it' /\ finI it' /\
  l = absI (heap_vals h) it /\ absI (heap_vals h) it' = [].
Proof.
  intros fuel k. induction k as [|k IH]; intros h b it h' it' l d Hh Hb Hw Hf Hp Hd.
  - cbn in Hp. inversion Hp; subst. discriminate.
  - cbn [pull_all] in Hp. destruct (pull fuel h it) as [[h1 it1] r1] eqn:E.
    destruct r1 as [x| |].
    + destruct (pull_all k fuel h1 it1) as [[[h2 it2] l2] d2] eqn:E2. inversion Hp; subst; clear Hp.
      assert (Hr : RItem x <> RFuel) by congruence.
      pose proof (pull_sound _ _ _ _ _ _ _ Hh Hb Hw Hf E Hr) as P.
      pose proof (post_stable _ _ _ _ _ _ P) as S1.
      destruct P as (P1 & P2 & P3 & P4 & P5 & P6 & P8 & P7).
      assert (Hb1 : (b <= List.length h1)%nat) by lia.
      destruct (IH _ _ _ _ _ _ _ P3 Hb1 P4 P5 E2 eq_refl) as (S2 & Q1 & Q2 & Q3 & Q4).
      rewrite (stable_vals _ _ _ S1) in Q3, Q4.
      refine (conj (stable_trans _ _ _ _ S1 S2) (conj Q1 (conj Q2 _))).
      rewrite P7. split; [rewrite Q3; reflexivity|exact Q4].
    + inversion Hp; subst; clear Hp.
      assert (Hr : RStop <> RFuel) by congruence.
      pose proof (pull_sound _ _ _ _ _ _ _ Hh Hb Hw Hf E Hr) as P.
      pose proof (post_stable _ _ _ _ _ _ P) as S1.
      destruct P as (P1 & P2 & P3 & P4 & P5 & P6 & P8 & [Q1 Q2]).
      refine (conj S1 (conj P4 (conj P5 _))). rewrite Q1, Q2. auto.
    + inversion Hp; subst. discriminate.
Qed.

(* Stream.take(n) on the held iterator = take_seq on its abstract value *)
Lemma take_iter_sound : forall fuel c h b it h' it' ob,
  wfH h -> (b <= List.length h)%nat -> wfI h b it -> finI it ->
  take_iter fuel c h it = (h', it', ob) -> ob <> ODiverge ->
  stable h b h' /\ wfI h' b it' /\ finI it' /\
  take_seq c (fin (absI (heap_vals h) it)) = (ob, fin (absI (heap_vals h) it')).
Proof.
  intros fuel c h b it h' it' ob Hh Hb Hw Hf Hp Hob.
  rewrite take_seq_fin. unfold take_iter in Hp. destruct (take_count c) as [| |n].
  - destruct (pull fuel h it) as [[h1 it1] r1] eqn:E. inversion Hp; subst; clear Hp.
    assert (Hr : r1 <> RFuel) by (destruct r1; congruence).
    pose proof (pull_sound _ _ _ _ _ _ _ Hh Hb Hw Hf E Hr) as P.
    pose proof (post_stable _ _ _ _ _ _ P) as S1.
    destruct P as (P1 & P2 & P3 & P4 & P5 & P6 & P8 & P7).
    refine (conj S1 (conj P4 (conj P5 _))).
    destruct r1 as [x| |]; [rewrite P7; reflexivity| |contradiction].
    destruct P7 as [Q1 Q2]. rewrite Q1, Q2. reflexivity.
  - destruct (pull_all fuel fuel h it) as [[[h1 it1] l1] d1] eqn:E. inversion Hp; subst; clear Hp.
    destruct d1; [congruence|].
    destruct (pull_all_sound _ _ _ _ _ _ _ _ _ Hh Hb Hw Hf E eq_refl) as (S1 & Q1 & Q2 & Q3 & Q4).
    refine (conj S1 (conj Q1 (conj Q2 _))). rewrite Q3, Q4. reflexivity.
  - destruct (pull_n fuel n h it) as [[[h1 it1] l1] d1] eqn:E. inversion Hp; subst; clear Hp.
    destruct d1; [congruence|].
    destruct (pull_n_sound _ _ _ _ _ _ _ _ _ Hh Hb Hw Hf E eq_refl) as (S1 & Q1 & Q2 & Q3 & Q4).
    refine (conj S1 (conj Q1 (conj Q2 _))). rewrite Q3, Q4. reflexivity.
Qed.
