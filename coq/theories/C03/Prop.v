(* C03 - the proved statements, each closed by [exact] on a lemma of Proofs_*.v.
   Spec.v = the immutable list model (each object = its remaining sequence);
   Model.v = the iterator objects the code builds, with shared tee buffers. *)
From Coq Require Import List Bool ZArith String.
From AL Require Import C03.Spec C03.Model C03.Proofs_Refine C03.Proofs_Total C03.Proofs_RefineL C03.Proofs_Spec C03.Proofs_Periodic.
Import ListNotations.
Open Scope Z_scope.

(* REFINEMENT.  For every pool of finite and periodic streams (Stream(list),
   Stream(a, b, ..), Stream(a)) and every history of any length (next take peek
   skip limit copy append (of a list, of periodic values, of an existing Stream
   or hub) multi-argument Stream(a, b, ..) / append(a, b, ..) over existing objects
   and fresh lists, map filter thub Stream(hub) tee, refused calls, any counts): whenever the
   implementation-level model (iterator objects, shared tee buffers) finishes
   every call within its fuel, every observable - returned container / item /
   StopIteration / IndexError / AttributeError / ids of new objects - equals the
   list model's.  (Calls that do not terminate in Python - take(inf) of an
   endless stream, a filter rejecting a whole period - are exactly what the fuel
   hypothesis leaves out.)  Proof: forward simulation; abs = remaining sequence
   as a lasso, up to unrolling whole periods into the prefix. *)
Theorem C03_refines_list_model : forall fuel ps ops,
  ~ In ODiverge (irun fuel (init ps) ops) ->
  irun fuel (init ps) ops = run (map (fun p => EStream (pool_seq p)) ps) ops.
Proof. exact refines_list_model. Qed.
Print Assumptions C03_refines_list_model.

(* Over FINITE sources no fuel hypothesis is needed: iterators always halt, so
   from some amount of fuel on the two runs coincide.  ([fin_op] leaves out appended periodic
   values and the multi-argument operation OMulti, which the theorem above covers.) *)
Theorem C03_refines_list_model_finite_total : forall ps ops,
  Forall fin_pool ps -> Forall fin_op ops ->
  exists f0, forall fuel, (f0 <= fuel)%nat ->
    irun fuel (init ps) ops = run (map (fun p => EStream (pool_seq p)) ps) ops.
Proof. exact refines_list_model_finite_total. Qed.
Print Assumptions C03_refines_list_model_finite_total.

(* copies / tee outputs / hub uses are independent: operations on OTHER objects
   never change what an object will yield, in any interleaving *)
Theorem C03_copies_independent : forall ops st j e,
  nth_error st j = Some e -> Forall (fun o => target o <> Some j /\ ~ In j (uses o)) ops ->
  nth_error (final st ops) j = Some e.
Proof. exact copies_independent. Qed.
Print Assumptions C03_copies_independent.

Theorem C03_copy_same_sequence : forall st i s, nth_error st i = Some (EStream s) ->
  step st (OCopy i) = (st ++ [EStream s], ONew (List.length st)).
Proof. exact copy_same_sequence. Qed.
Print Assumptions C03_copy_same_sequence.

Theorem C03_step_local : forall st1 st2 o i, target o = Some i -> uses o = [] ->
  nth_error st1 i = nth_error st2 i -> List.length st1 = List.length st2 ->
  snd (step st1 o) = snd (step st2 o).
Proof. exact step_local. Qed.
Print Assumptions C03_step_local.

Theorem C03_peek_removes_nothing : forall st i c, fst (step st (OPeek i c)) = st.
Proof. exact peek_removes_nothing. Qed.
Print Assumptions C03_peek_removes_nothing.

Theorem C03_peek_sees_what_take_returns : forall st i c s, nth_error st i = Some (EStream s) ->
  snd (step st (OPeek i c)) = snd (step st (OTake i c)).
Proof. exact peek_sees_what_take_returns. Qed.
Print Assumptions C03_peek_sees_what_take_returns.

(* take(n): the count classes *)
Theorem C03_take_spec : forall l : list Z,
  (forall c s, (exists z, c = CInt z /\ z <= 0) \/ c = CNegInf \/ c = CNan \/
               (exists n d, c = CFlt n d /\ n <= 0) -> take_seq c s = (OItems [], s)) /\
  (forall z, 0 <= z -> take_seq (CInt z) (fin l) =
                       (OItems (firstn (Z.to_nat z) l), fin (skipn (Z.to_nat z) l))) /\
  (forall z, Z.of_nat (List.length l) <= z -> take_seq (CInt z) (fin l) = (OItems l, fin [])) /\
  (forall n d, 0 < n -> exists k, 0 <= k /\ 2 * n - Zpos d < 2 * Zpos d * k <= 2 * n + Zpos d /\
                                  take_seq (CFlt n d) (fin l) = take_seq (CInt k) (fin l)) /\
  take_seq CInf (fin l) = (OItems l, fin []) /\
  (forall x, take_seq CNone (fin (x :: l)) = (OItem x, fin l)) /\
  take_seq CNone (fin []) = (ORaise "StopIteration", fin []).
Proof. exact take_spec. Qed.
Print Assumptions C03_take_spec.

(* periodic Stream(a, b, ..): take(n) is the first n items of a b .. a b .. (never short, no error) *)
Theorem C03_take_periodic : forall l z, l <> [] -> 0 <= z ->
  fst (take_seq (CInt z) (pool_seq (PCyc l))) =
  OItems (firstn (Z.to_nat z) (List.concat (repeat l (Z.to_nat z)))).
Proof. exact take_periodic. Qed.
Print Assumptions C03_take_periodic.

Theorem C03_skip_limit_spec : forall (l : list Z) c z, round_count c = inl z ->
  match c with
  | CInt z' => z = z'
  | CFlt n d => 2 * n - Zpos d <= 2 * Zpos d * z <= 2 * n + Zpos d /\
                (2 * Zpos d * z = 2 * n - Zpos d \/ 2 * Zpos d * z = 2 * n + Zpos d -> Z.even z = true)
  | _ => False
  end /\
  skip_t c (fin l) = TOk (fin (skipn (Z.to_nat z) l)) /\
  limit_t c (fin l) = TOk (fin (firstn (Z.to_nat z) l)).
Proof. exact skip_limit_spec. Qed.
Print Assumptions C03_skip_limit_spec.

(* thub *)
Theorem C03_thub_creates_hub : forall st i s n, nth_error st i = Some (EStream s) ->
  step st (OThub i n) = (set_nth i EDead st ++ [EHub s n], ONew (List.length st)).
Proof. exact thub_creates_hub. Qed.
Print Assumptions C03_thub_creates_hub.

Theorem C03_thub_exactly_n_uses : forall n st h s, nth_error st h = Some (EHub s n) ->
  run st (repeat (OUse h) n ++ [OUse h]) =
  map ONew (seq (List.length st) n) ++ [ORaise "IndexError"] /\
  final st (repeat (OUse h) n) = set_nth h (EHub s O) st ++ repeat (EStream s) n.
Proof. exact thub_exactly_n_uses. Qed.
Print Assumptions C03_thub_exactly_n_uses.

Theorem C03_hub_peek_copy_consume_no_use : forall st h s u c, nth_error st h = Some (EHub s u) ->
  nth_error (fst (step st (OPeek h c))) h = Some (EHub s u) /\
  nth_error (fst (step st (OCopy h))) h = Some (EHub s u) /\
  step st (OTake h c) = (st, ORaise "AttributeError").
Proof. exact hub_peek_copy_consume_no_use. Qed.
Print Assumptions C03_hub_peek_copy_consume_no_use.

(* s.append(hub) is one of the hub's n uses, taken AT THE TIME of the append *)
Theorem C03_append_hub_charges_use : forall st i j si s u, i <> j ->
  nth_error st i = Some (EStream si) -> nth_error st j = Some (EHub s u) ->
  step st (OAppendObj i j) =
  match u with
  | S u' => (set_nth i (EStream (lappend si s)) (set_nth j (EHub s u') st), OSelf)
  | O => (st, ORaise "IndexError")
  end.
Proof. exact append_hub_charges_use. Qed.
Print Assumptions C03_append_hub_charges_use.

(* returned containers are values: mutating one in place afterwards changes no live object *)
Theorem C03_mutating_a_result_changes_nothing : forall st m, step st (OMutateResult m) = (st, OSelf).
Proof. exact mutating_a_result_changes_nothing. Qed.
Print Assumptions C03_mutating_a_result_changes_nothing.

(* multi-argument construction: a hub among the arguments is charged exactly one use, at construction *)
Theorem C03_multi_hub_charged_at_construction : forall st j s u l, nth_error st j = Some (EHub s u) ->
  step st (OMulti None [MObj j; MFresh l]) =
  match u with
  | S u' => (set_nth j (EHub s u') st ++ [EStream (lappend s (fin l))], ONew (List.length st))
  | O => (st, ORaise "IndexError")
  end.
Proof. exact multi_hub_charged_at_construction. Qed.
Print Assumptions C03_multi_hub_charged_at_construction.

(* filter(None): keep the truthy items *)
Theorem C03_filter_none_keeps_truthy : forall st i l, nth_error st i = Some (EStream (fin l)) ->
  step st (OFilter i PTruthy) =
  (set_nth i (EStream (fin (filter (fun x => negb (x =? 0)) l))) st, OSelf).
Proof. exact filter_none_keeps_truthy. Qed.
Print Assumptions C03_filter_none_keeps_truthy.

(* error paths: a refused call changes nothing (hub uses, remaining sequences of every object) *)
Theorem C03_refused_call_changes_nothing : forall st e, step st (ORefused e) = (st, ORaise e).
Proof. exact refused_call_changes_nothing. Qed.
Print Assumptions C03_refused_call_changes_nothing.

Theorem C03_thub_noniterable_is_identity : forall st z n, step st (OThubVal z n) = (st, OItem z).
Proof. exact thub_noniterable_is_identity. Qed.
Print Assumptions C03_thub_noniterable_is_identity.

Theorem C03_tee_noniterable_repeats : forall st z n, step st (OTeeVal z n) = (st, OItems (repeat z n)).
Proof. exact tee_noniterable_repeats. Qed.
Print Assumptions C03_tee_noniterable_repeats.

(* Non-vacuity: a history with a copy consumed in interleaving with its origin,
   a filter, a map, an append, skip/limit with float counts, a count beyond the
   end, a hub with two uses and the IndexError; fuel 50 is enough (no ODiverge),
   the pool and the operations are finite, both models agree. *)
Definition C03_example_pool : list pool := [PFin [1; 2; 3; 4; 5; 6]].
Definition C03_example_ops : list op :=
  [OCopy 0; OTake 0 (CInt 2); OPeek 1 (CFlt 5 2); OFilter 1 PEven; OTake 0 (CInt 9);
   OMap 1 (FMul 10); OAppend 1 (PFin [7]); OSkip 1 (CFlt 1 2); OThub 1 2; OUse 2; OPeek 2 CNone;
   OUse 2; OUse 2; OTake 3 CInf; OLimit 4 (CFlt 3 2); OTake 4 (CInt 5); OTake 4 CNone; OTake 2 CNone].
Definition C03_example_obs : list obs :=
  [ONew 1; OItems [1; 2]; OItems [1; 2; 3]; OSelf; OItems [3; 4; 5; 6];
   OSelf; OSelf; OSelf; ONew 2; ONew 3; OItem 20;
   ONew 4; ORaise "IndexError"; OItems [20; 40; 60; 7]; OSelf; OItems [20; 40]; ORaise "StopIteration";
   ORaise "AttributeError"].
Example C03_example_impl : irun 50 (init C03_example_pool) C03_example_ops = C03_example_obs.
Proof. vm_compute. reflexivity. Qed.
Print Assumptions C03_example_impl.
Example C03_example_spec :
  run (map (fun p => EStream (pool_seq p)) C03_example_pool) C03_example_ops = C03_example_obs.
Proof. vm_compute. reflexivity. Qed.
Print Assumptions C03_example_spec.
Example C03_example_periodic :
  take_seq (CInt 5) (pool_seq (PCyc [1; 2])) = (OItems [1; 2; 1; 2; 1], LS [2] [1; 2] false).
Proof. vm_compute. reflexivity. Qed.
Print Assumptions C03_example_periodic.
(* periodic source, copies consumed in interleaving across the period boundary, filter, hub *)
Definition C03_example_cyc_ops : list op :=
  [OCopy 0; OTake 0 (CInt 3); OTee 1 2; OTake 2 (CInt 5); OFilter 3 PEven; OTake 3 (CInt 2);
   OTake 0 (CInt 2); OAppend 2 (PFin [9]); OLimit 2 (CInt 3); OTake 2 CInf; OThub 0 1; OPeek 4 (CInt 3);
   OAppendObj 3 4; OUse 4; OTake 3 (CInt 1)].
Definition C03_example_cyc_obs : list obs :=
  [ONew 1; OItems [1; 2; 3]; ONews 2 2; OItems [1; 2; 3; 1; 2]; OSelf; OItems [2; 2];
   OItems [1; 2]; OSelf; OSelf; OItems [3; 1; 2]; ONew 4; OItems [3; 1; 2];
   OSelf; ORaise "IndexError"; OItems [2]].
Example C03_example_cyc :
  irun 60 (init [PCyc [1; 2; 3]]) C03_example_cyc_ops = C03_example_cyc_obs /\
  ~ In ODiverge (irun 60 (init [PCyc [1; 2; 3]]) C03_example_cyc_ops).
Proof.
  assert (E : irun 60 (init [PCyc [1; 2; 3]]) C03_example_cyc_ops = C03_example_cyc_obs)
    by (vm_compute; reflexivity).
  split; [exact E|]. rewrite E. cbn. intuition discriminate.
Qed.
Print Assumptions C03_example_cyc.
Example C03_example_hypotheses :
  Forall fin_pool C03_example_pool /\ Forall fin_op C03_example_ops /\
  ~ In ODiverge (irun 50 (init C03_example_pool) C03_example_ops).
Proof.
  split; [repeat constructor|split; [repeat constructor|]].
  rewrite C03_example_impl. cbn. intuition discriminate.
Qed.
Print Assumptions C03_example_hypotheses.
