(* C03 - abstraction of the implementation-level heap to remaining sequences,
   periodic sources included (lassos).  Definitions only. *)
From Coq Require Import List Bool ZArith.
From AL Require Import C03.Spec C03.Model C03.Abs.
Import ListNotations.

(* tee buffers: items already read in front of what the wrapped iterator will yield *)
Definition lpre (l : list Z) (s : lseq) : lseq := LS (l ++ pre s) (cyc s) (dv s).
Definition lskip (i : nat) (s : lseq) : lseq := LS (skipn i (pre s)) (cyc s) (dv s).

Fixpoint absL (vals : list lseq) (it : iter) : lseq :=
  match it with
  | IList l => fin l
  | ICycle sv rem => LS rem sv false
  | IRepeat x => LS [] [x] false
  | IMap f s => lmap (ef f) (absL vals s)
  | IFilter p s => lfilter (ep p) (absL vals s)
  | IChain a b => lappend (absL vals a) (absL vals b)
  | IChainB b => absL vals b
  | ISkip s n => ldrop n (absL vals s)
  | IDone => lempty
  | ILimit s n => llimit n (absL vals s)
  | ITee c idx => lskip idx (nth c vals lempty)
  end.

Definition cell_valL (vals : list lseq) (oc : option cell) : lseq :=
  match oc with
  | Some c => lpre (c_items c) (absL vals (c_src c))
  | None => lempty
  end.

Fixpoint valsL_upto (h : heap) (n : nat) : list lseq :=
  match n with
  | O => []
  | S m => let v := valsL_upto h m in v ++ [cell_valL v (nth_error h m)]
  end.
Definition heap_valsL (h : heap) : list lseq := valsL_upto h (List.length h).

(* every cell only refers to older cells (no finiteness requirement) *)
Definition wfHL (h : heap) : Prop :=
  forall c cl, nth_error h c = Some cl -> wfI h c (c_src cl).
