(* C03 - basic facts about the lasso abstraction of the heap. *)
From Coq Require Import List Bool ZArith Lia.
From AL Require Import C03.Spec C03.Model C03.Abs C03.AbsL C03.Proofs_Abs C03.Proofs_Leq C03.Proofs_Leq2.
Import ListNotations.

Lemma valsL_upto_length : forall h n, length (valsL_upto h n) = n.
Proof.
  intros h n. induction n as [|n IH]; cbn [valsL_upto]; [reflexivity|].
  rewrite app_length, IH. cbn. lia.
Qed.

Lemma valsL_upto_nth_lt : forall h n c, (c < n)%nat ->
  nth c (valsL_upto h n) lempty = cell_valL (valsL_upto h c) (nth_error h c).
Proof.
  intros h n. induction n as [|n IH]; intros c Hc; [lia|].
  cbn [valsL_upto]. destruct (Nat.eq_dec c n) as [->|Hne].
  - rewrite app_nth2 by (rewrite valsL_upto_length; lia).
    rewrite valsL_upto_length, Nat.sub_diag. reflexivity.
  - rewrite app_nth1 by (rewrite valsL_upto_length; lia). apply IH. lia.
Qed.

Lemma absL_ext_eq : forall h b v1 v2 it, wfI h b it ->
  (forall c, (c < b)%nat -> nth c v1 lempty = nth c v2 lempty) -> absL v1 it = absL v2 it.
Proof.
  intros h b v1 v2 it. induction it as [l|sv rm|x|f s IH|p s IH|a IHa c IHc|s IH|s IH n| |s IH n|c idx];
    intros Hwf Hv; cbn [absL wfI] in *; try reflexivity.
  - rewrite IH; auto.
  - rewrite IH; auto.
  - destruct Hwf as [Ha Hc]. rewrite IHa, IHc; auto.
  - auto.
  - rewrite IH; auto.
  - rewrite IH; auto.
  - destruct Hwf as [Hlt _]. rewrite Hv; auto.
Qed.

(* the values cover the buffered items of the cells below b *)
Definition covers (h : heap) (b : nat) (v : list lseq) : Prop :=
  forall c cl, (c < b)%nat -> nth_error h c = Some cl ->
  (length (c_items cl) <= length (pre (nth c v lempty)))%nat.

Lemma absL_ext : forall h b v1 v2 it, wfI h b it -> covers h b v1 -> covers h b v2 ->
  (forall c, (c < b)%nat -> leq (nth c v1 lempty) (nth c v2 lempty)) -> leq (absL v1 it) (absL v2 it).
Proof.
  intros h b v1 v2 it. induction it as [l|sv rm|x|f s IH|p s IH|a IHa c IHc|s IH|s IH n| |s IH n|c idx];
    intros Hwf C1 C2 Hv; cbn [absL wfI] in *; try apply leq_refl.
  - apply lmap_leq; auto.
  - apply lfilter_leq; auto.
  - destruct Hwf as [Ha Hc]. eapply leq_trans; [apply lappend_leq_l|apply lappend_leq_r]; auto.
  - auto.
  - apply ldrop_leq; auto.
  - rewrite (llimit_eq n _ _ (IH Hwf C1 C2 Hv)). apply leq_refl.
  - destruct Hwf as [Hlt [cl [Hc Hi]]]. apply lskip_leq; auto.
    + specialize (C1 c cl Hlt Hc). lia.
    + specialize (C2 c cl Hlt Hc). lia.
Qed.

Lemma heap_valsL_nth : forall h c cl, wfHL h -> nth_error h c = Some cl ->
  nth c (heap_valsL h) lempty = lpre (c_items cl) (absL (heap_valsL h) (c_src cl)).
Proof.
  intros h c cl Hwf Hc. unfold heap_valsL.
  assert (Hlt : (c < length h)%nat) by (apply nth_error_Some; congruence).
  rewrite valsL_upto_nth_lt by exact Hlt. rewrite Hc. cbn [cell_valL]. f_equal.
  apply (absL_ext_eq h c); [apply (Hwf c cl Hc)|].
  intros d Hd. rewrite !valsL_upto_nth_lt by lia. reflexivity.
Qed.

Lemma heap_valsL_covers : forall h b, wfHL h -> covers h b (heap_valsL h).
Proof.
  intros h b Hh c cl _ Hc. rewrite (heap_valsL_nth h c cl Hh Hc). unfold lpre. cbn [pre].
  rewrite app_length. lia.
Qed.

Lemma covers_upto : forall g g' n, ext g g' -> covers g n (valsL_upto g' n).
Proof.
  intros g g' n He c cl Hc Hn. rewrite valsL_upto_nth_lt by exact Hc.
  destruct (He c cl Hn) as [cl' [Hn' Hl]]. rewrite Hn'. unfold cell_valL, lpre. cbn [pre].
  rewrite app_length. lia.
Qed.

Lemma valsL_upto_set_below : forall g c new n, (n <= c)%nat ->
  valsL_upto (set_nth c new g) n = valsL_upto g n.
Proof.
  intros g c new n. induction n as [|n IH]; intros Hn; [reflexivity|].
  cbn [valsL_upto]. rewrite IH by lia. rewrite nth_error_set_nth_ne by lia. reflexivity.
Qed.

(* overwriting cell c by a cell with an equivalent value keeps every value, up to the equivalence *)
Lemma valsL_set_nth_leq : forall g c new, (c < length g)%nat -> wfHL g ->
  ext g (set_nth c new g) ->
  leq (cell_valL (valsL_upto g c) (Some new)) (cell_valL (valsL_upto g c) (nth_error g c)) ->
  forall n d, (d < n)%nat ->
  leq (nth d (valsL_upto (set_nth c new g) n) lempty) (nth d (valsL_upto g n) lempty).
Proof.
  intros g c new Hc Hg He Hv n d. revert n.
  induction d as [d IHd] using lt_wf_ind. intros n Hd.
  rewrite !valsL_upto_nth_lt by exact Hd.
  destruct (Nat.lt_total d c) as [Hlt|[->|Hgt]].
  - rewrite valsL_upto_set_below by lia. rewrite nth_error_set_nth_ne by lia. apply leq_refl.
  - rewrite valsL_upto_set_below by lia. rewrite nth_error_set_nth_eq by exact Hc. exact Hv.
  - rewrite nth_error_set_nth_ne by lia. destruct (nth_error g d) as [cl|] eqn:Ed; [|apply leq_refl].
    cbn [cell_valL]. apply lpre_leq. apply (absL_ext g d).
    + apply (Hg d cl Ed).
    + apply covers_upto. exact He.
    + apply covers_upto. apply ext_refl.
    + intros e He'. apply IHd; lia.
Qed.
