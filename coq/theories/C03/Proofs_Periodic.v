(* C03 - the list model on periodic sequences: take(n) is the prefix of the endless repetition. *)
From Coq Require Import List Bool ZArith Lia.
From AL Require Import C03.Spec.
Import ListNotations.

Definition reps (c : list Z) (n : nat) : list Z := concat (repeat c n).

Lemma reps_comm : forall c n, c ++ reps c n = reps c n ++ c.
Proof.
  intros c n. unfold reps. induction n as [|n IH]; cbn [repeat concat]; [rewrite app_nil_r; reflexivity|].
  rewrite <- app_assoc, <- IH. reflexivity.
Qed.

Lemma reps_length : forall c n, c <> [] -> (n <= List.length (reps c n))%nat.
Proof.
  intros c n Hc. unfold reps. induction n as [|n IH]; cbn [repeat concat]; [cbn; lia|].
  rewrite app_length. destruct c; [congruence|]. cbn [List.length]. lia.
Qed.

Lemma firstn_app_le : forall (a b : list Z) n, (n <= List.length a)%nat -> firstn n (a ++ b) = firstn n a.
Proof.
  intros a b n H. rewrite firstn_app. replace (n - List.length a)%nat with O by lia.
  cbn. rewrite app_nil_r. reflexivity.
Qed.

Lemma ltake_periodic : forall n p c, c <> [] ->
  exists r, ltake n (LS p c false) = (firstn n (p ++ reps c n), r, false).
Proof.
  induction n as [|n IH]; intros p c Hc; [eexists; reflexivity|].
  cbn [ltake]. unfold lnext. cbn [pre cyc dv]. destruct p as [|y p].
  - destruct c as [|x c]; [congruence|].
    destruct (IH c (x :: c) Hc) as [r Hr]. rewrite Hr. exists r. reflexivity.
  - destruct (IH p c Hc) as [r Hr]. rewrite Hr. exists r.
    assert (E : firstn n (p ++ reps c (S n)) = firstn n (p ++ reps c n)).
    { change (reps c (S n)) with (c ++ reps c n). rewrite reps_comm, app_assoc.
      apply firstn_app_le. rewrite app_length. pose proof (reps_length c n Hc). lia. }
    cbn [app firstn]. rewrite E. reflexivity.
Qed.

(* Stream(a, b, ..).take(n), n >= 0: the first n items of a b .. a b .. ; never short, never an error *)
Theorem take_periodic : forall l z, l <> [] -> (0 <= z)%Z ->
  fst (take_seq (CInt z) (pool_seq (PCyc l))) = OItems (firstn (Z.to_nat z) (reps l (Z.to_nat z))).
Proof.
  intros l z Hl Hz. unfold take_seq. cbn [take_count pool_seq]. rewrite Z.max_l by lia.
  destruct (ltake_periodic (Z.to_nat z) [] l Hl) as [r Hr]. rewrite Hr. reflexivity.
Qed.
