(* C03 - fuel: a finished call is unchanged by more fuel; iterators over finite sources always finish. *)
From Coq Require Import List Bool ZArith String Lia.
From AL Require Import C03.Spec C03.Model C03.Abs C03.Proofs_Abs C03.Proofs_Pull C03.Proofs_Fin C03.Proofs_Take.
Import ListNotations.

Ltac inner IH E k' :=
  match goal with
  | |- context [pull k' ?h ?s] =>
      match type of E with
      | pull _ h s = (?h1, ?s1, ?r1) =>
          let H := fresh "Hm" in
          assert (H : pull k' h s = (h1, s1, r1)); [apply (IH _ _ _ _ _ E); [congruence|lia]|rewrite H; clear H]
      end
  end.

Lemma pull_mono : forall f h it h' it' r, pull f h it = (h', it', r) -> r <> RFuel ->
  forall f', (f <= f')%nat -> pull f' h it = (h', it', r).
Proof.
  induction f as [|k IH]; intros h it h' it' r Hp Hr f' Hle.
  - cbn in Hp. inversion Hp; subst. congruence.
  - destruct f' as [|k']; [lia|]. assert (Hk : (k <= k')%nat) by lia.
    destruct it as [l|sv rm|x|g s|p s|a c|s|s n| |s n|c idx]; cbn [pull] in *; try exact Hp.
    + destruct (pull k h s) as [[h1 s1] r1] eqn:E. inversion Hp; subst.
      destruct r1; try congruence; inner IH E k'; reflexivity.
    + destruct (pull k h s) as [[h1 s1] r1] eqn:E. destruct r1 as [x| |].
      * inner IH E k'. destruct (ep p x); [exact Hp|]. apply (IH _ _ _ _ _ Hp Hr). lia.
      * inner IH E k'. exact Hp.
      * inversion Hp; subst. congruence.
    + destruct (pull k h a) as [[h1 a1] r1] eqn:E. destruct r1 as [x| |].
      * inner IH E k'. exact Hp.
      * inner IH E k'. apply (IH _ _ _ _ _ Hp Hr). lia.
      * inversion Hp; subst. congruence.
    + destruct (pull k h s) as [[h1 s1] r1] eqn:E. inversion Hp; subst.
      inner IH E k'. reflexivity.
    + destruct n as [|n].
      * destruct (pull k h s) as [[h1 s1] r1] eqn:E. destruct r1 as [x| |].
        -- inner IH E k'. exact Hp.
        -- inner IH E k'. exact Hp.
        -- inversion Hp; subst. congruence.
      * destruct (pull k h s) as [[h1 s1] r1] eqn:E. destruct r1 as [x| |].
        -- inner IH E k'. apply (IH _ _ _ _ _ Hp Hr). lia.
        -- inner IH E k'. exact Hp.
        -- inversion Hp; subst. congruence.
    + destruct n as [|n]; [exact Hp|].
      destruct (pull k h s) as [[h1 s1] r1] eqn:E. destruct r1 as [x| |].
      * inner IH E k'. exact Hp.
      * inner IH E k'. exact Hp.
      * inversion Hp; subst. congruence.
    + destruct (nth_error h c) as [[src items]|]; [|exact Hp].
      destruct (nth_error items idx); [exact Hp|].
      destruct (pull k h src) as [[h1 s1] r1] eqn:E. destruct r1 as [x| |].
      * inner IH E k'. exact Hp.
      * inner IH E k'. exact Hp.
      * inversion Hp; subst. congruence.
Qed.

(* number of iterator objects nested in one; next() never increases it *)
Fixpoint sz (it : iter) : nat :=
  match it with
  | IMap _ s | IFilter _ s | IChainB s | ISkip s _ | ILimit s _ => S (sz s)
  | IChain a b => S (S (sz a + sz b))
  | _ => 1
  end.

Lemma pull_sz : forall f h it h' it' r, pull f h it = (h', it', r) -> (sz it' <= sz it)%nat.
Proof.
  induction f as [|k IH]; intros h it h' it' r Hp.
  - cbn in Hp. inversion Hp; subst. lia.
  - destruct it as [l|sv rm|x|g s|p s|a c|s|s n| |s n|c idx]; cbn [pull] in Hp.
    + destruct l; inversion Hp; subst; cbn; lia.
    + destruct rm, sv; inversion Hp; subst; cbn; lia.
    + inversion Hp; subst. lia.
    + destruct (pull k h s) as [[h1 s1] r1] eqn:E. inversion Hp; subst.
      apply IH in E. cbn. lia.
    + destruct (pull k h s) as [[h1 s1] r1] eqn:E. apply IH in E. destruct r1 as [x| |].
      * destruct (ep p x); [inversion Hp; subst; cbn; lia|]. apply IH in Hp. cbn in *. lia.
      * inversion Hp; subst. cbn. lia.
      * inversion Hp; subst. cbn. lia.
    + destruct (pull k h a) as [[h1 a1] r1] eqn:E. apply IH in E. destruct r1 as [x| |].
      * inversion Hp; subst. cbn. lia.
      * apply IH in Hp. cbn in *. lia.
      * inversion Hp; subst. cbn. lia.
    + destruct (pull k h s) as [[h1 s1] r1] eqn:E. apply IH in E. inversion Hp; subst. cbn. lia.
    + destruct n as [|n]; destruct (pull k h s) as [[h1 s1] r1] eqn:E; apply IH in E; destruct r1 as [x| |];
        try (inversion Hp; subst; cbn; lia).
      apply IH in Hp. cbn in *. lia.
    + inversion Hp; subst. lia.
    + destruct n as [|n]; [inversion Hp; subst; lia|].
      destruct (pull k h s) as [[h1 s1] r1] eqn:E. apply IH in E.
      destruct r1; inversion Hp; subst; cbn; lia.
    + destruct (nth_error h c) as [[src items]|]; [|inversion Hp; subst; lia].
      destruct (nth_error items idx); [inversion Hp; subst; cbn; lia|].
      destruct (pull k h src) as [[h1 s1] r1] eqn:E.
      destruct r1; inversion Hp; subst; cbn; lia.
Qed.

Lemma sz_pos : forall it, (1 <= sz it)%nat.
Proof. destruct it; cbn; lia. Qed.

Definition halts (h : heap) (it : iter) : Prop := exists f, snd (pull f h it) <> RFuel.

(* one level: the wrapped iterator halts, the wrapper adds one call *)
Lemma halts_wrap : forall h s (wrap : iter -> iter),
  (forall k h1 s1 r1, pull k h s = (h1, s1, r1) -> r1 <> RFuel -> snd (pull (S k) h (wrap s)) <> RFuel) ->
  halts h s -> halts h (wrap s).
Proof.
  intros h s wrap Hw [f Hf]. destruct (pull f h s) as [[h1 s1] r1] eqn:E. cbn [snd] in Hf.
  exists (S f). eapply Hw; eauto.
Qed.

Section Terminate.
Variable b : nat.
Variable n : nat.
(* induction hypotheses: smaller iterators (same cell bound) and older cells *)
Hypothesis IHn : forall it h, (sz it <= n)%nat -> wfH h -> (b <= List.length h)%nat -> wfI h b it -> finI it -> halts h it.

Lemma halts_filter : forall p m h s, (sz s <= n)%nat -> wfH h -> (b <= List.length h)%nat ->
  wfI h b s -> finI s -> (List.length (absI (heap_vals h) s) <= m)%nat -> halts h (IFilter p s).
Proof.
  intros p m. induction m as [|m IHm]; intros h s Hs Hh Hb Hw Hf Hm.
  - destruct (IHn s h Hs Hh Hb Hw Hf) as [f1 H1]. destruct (pull f1 h s) as [[h1 s1] r1] eqn:E. cbn [snd] in H1.
    exists (S f1). cbn [pull]. rewrite E. destruct r1 as [x| |]; cbn [snd]; try congruence.
    destruct (pull_sound _ _ _ _ _ _ _ Hh Hb Hw Hf E H1) as (_ & _ & _ & _ & _ & _ & _ & P7).
    rewrite P7 in Hm. cbn in Hm. lia.
  - destruct (IHn s h Hs Hh Hb Hw Hf) as [f1 H1]. destruct (pull f1 h s) as [[h1 s1] r1] eqn:E. cbn [snd] in H1.
    destruct r1 as [x| |]; try congruence.
    + destruct (ep p x) eqn:Ep.
      * exists (S f1). cbn [pull]. rewrite E, Ep. cbn. congruence.
      * pose proof (pull_sound _ _ _ _ _ _ _ Hh Hb Hw Hf E H1) as P.
        pose proof (stable_vals _ _ _ (post_stable _ _ _ _ _ _ P)) as V.
        destruct P as (P1 & P2 & P3 & P4 & P5 & P6 & P8 & P7).
        assert (Hs1 : (sz s1 <= n)%nat) by (pose proof (pull_sz _ _ _ _ _ _ E); lia).
        assert (Hm1 : (List.length (absI (heap_vals h1) s1) <= m)%nat).
        { rewrite V. rewrite P7 in Hm. cbn in Hm. lia. }
        destruct (IHm h1 s1 Hs1 P3 ltac:(lia) P4 P5 Hm1) as [f2 H2].
        destruct (pull f2 h1 (IFilter p s1)) as [[h2 s2] r2] eqn:E2. cbn [snd] in H2.
        exists (S (Nat.max f1 f2)). cbn [pull].
        rewrite (pull_mono _ _ _ _ _ _ E H1 (Nat.max f1 f2) ltac:(lia)). rewrite Ep.
        rewrite (pull_mono _ _ _ _ _ _ E2 H2 (Nat.max f1 f2) ltac:(lia)). exact H2.
    + exists (S f1). cbn [pull]. rewrite E. cbn. congruence.
Qed.
End Terminate.

Lemma halts_skip : forall b n,
  (forall it h, (sz it <= n)%nat -> wfH h -> (b <= List.length h)%nat -> wfI h b it -> finI it -> halts h it) ->
  forall cnt h s, (sz s <= n)%nat -> wfH h -> (b <= List.length h)%nat -> wfI h b s -> finI s ->
  halts h (ISkip s cnt).
Proof.
  intros b n IHn cnt. induction cnt as [|cnt IHc]; intros h s Hs Hh Hb Hw Hf;
    destruct (IHn s h Hs Hh Hb Hw Hf) as [f1 H1]; destruct (pull f1 h s) as [[h1 s1] r1] eqn:E; cbn [snd] in H1.
  - exists (S f1). cbn [pull]. rewrite E. destruct r1; cbn; congruence.
  - destruct r1 as [x| |]; try congruence.
    + destruct (pull_sound _ _ _ _ _ _ _ Hh Hb Hw Hf E H1) as (P1 & P2 & P3 & P4 & P5 & P6 & P8 & P7).
      assert (Hs1 : (sz s1 <= n)%nat) by (pose proof (pull_sz _ _ _ _ _ _ E); lia).
      destruct (IHc h1 s1 Hs1 P3 ltac:(lia) P4 P5) as [f2 H2].
      destruct (pull f2 h1 (ISkip s1 cnt)) as [[h2 s2] r2] eqn:E2. cbn [snd] in H2.
      exists (S (Nat.max f1 f2)). cbn [pull].
      rewrite (pull_mono _ _ _ _ _ _ E H1 (Nat.max f1 f2) ltac:(lia)).
      rewrite (pull_mono _ _ _ _ _ _ E2 H2 (Nat.max f1 f2) ltac:(lia)). exact H2.
    + exists (S f1). cbn [pull]. rewrite E. cbn. congruence.
Qed.

(* every well-formed iterator over finite sources halts *)
Lemma pull_terminates : forall b n it h, (sz it <= n)%nat -> wfH h -> (b <= List.length h)%nat ->
  wfI h b it -> finI it -> halts h it.
Proof.
  induction b as [b IHb] using lt_wf_ind. induction n as [|n IHn]; intros it h Hs Hh Hb Hw Hf.
  - pose proof (sz_pos it). lia.
  - destruct it as [l|sv rm|x|g s|p s|a c|s|s cnt| |s cnt|c idx]; cbn [sz wfI finI] in *; try contradiction.
    + exists 1%nat. destruct l; cbn; congruence.
    + destruct (IHn s h ltac:(lia) Hh Hb Hw Hf) as [f1 H1]. destruct (pull f1 h s) as [[h1 s1] r1] eqn:E.
      exists (S f1). cbn [pull]. rewrite E. cbn [snd] in *. destruct r1; congruence.
    + apply (halts_filter b n IHn p (List.length (absI (heap_vals h) s))); auto; lia.
    + destruct Hw as [Hwa Hwc]. destruct Hf as [Hfa Hfc].
      destruct (IHn a h ltac:(lia) Hh Hb Hwa Hfa) as [f1 H1]. destruct (pull f1 h a) as [[h1 a1] r1] eqn:E.
      cbn [snd] in H1. destruct r1 as [x| |]; try congruence.
      * exists (S f1). cbn [pull]. rewrite E. cbn. congruence.
      * destruct (pull_sound _ _ _ _ _ _ _ Hh Hb Hwa Hfa E H1) as (P1 & P2 & P3 & P4 & P5 & P6 & P8 & P7).
        pose proof (sz_pos a).
        destruct (IHn (IChainB c) h1 ltac:(cbn; lia) P3 ltac:(lia) (wfI_ext _ _ _ _ P2 Hwc) Hfc) as [f2 H2].
        destruct (pull f2 h1 (IChainB c)) as [[h2 s2] r2] eqn:E2. cbn [snd] in H2.
        exists (S (Nat.max f1 f2)). cbn [pull].
        rewrite (pull_mono _ _ _ _ _ _ E H1 (Nat.max f1 f2) ltac:(lia)).
        rewrite (pull_mono _ _ _ _ _ _ E2 H2 (Nat.max f1 f2) ltac:(lia)). exact H2.
    + destruct (IHn s h ltac:(lia) Hh Hb Hw Hf) as [f1 H1]. destruct (pull f1 h s) as [[h1 s1] r1] eqn:E.
      exists (S f1). cbn [pull]. rewrite E. cbn [snd] in *. exact H1.
    + apply (halts_skip b n IHn); auto; lia.
    + exists 1%nat. cbn. congruence.
    + destruct cnt as [|cnt]; [exists 1%nat; cbn; congruence|].
      destruct (IHn s h ltac:(lia) Hh Hb Hw Hf) as [f1 H1]. destruct (pull f1 h s) as [[h1 s1] r1] eqn:E.
      exists (S f1). cbn [pull]. rewrite E. cbn [snd] in *. destruct r1; cbn; congruence.
    + destruct Hw as [Hcb [cl [Hc Hidx]]]. destruct cl as [src items].
      destruct (nth_error items idx) as [x|] eqn:Ex.
      * exists 1%nat. cbn [pull]. rewrite Hc, Ex. cbn. congruence.
      * destruct (Hh c _ Hc) as [Hws Hfs]. cbn [c_src] in Hws, Hfs.
        destruct (IHb c Hcb (sz src) src h (le_n _) Hh ltac:(lia) Hws Hfs) as [f1 H1].
        destruct (pull f1 h src) as [[h1 s1] r1] eqn:E. cbn [snd] in H1.
        exists (S f1). cbn [pull]. rewrite Hc, Ex, E. destruct r1; cbn; congruence.
Qed.
