(* C03 - the refinement theorem: implementation-level histories = list-model histories (finite sources). *)
From Coq Require Import List Bool ZArith String Lia.
From AL Require Import C03.Spec C03.Model C03.Abs C03.Proofs_Abs C03.Proofs_Pull C03.Proofs_Fin
  C03.Proofs_Take C03.Proofs_Sim C03.Proofs_Step.
Import ListNotations.

Definition sim_goal (fuel : nat) (h : heap) (os : list obj) (st : state) (o : op) : Prop :=
  forall ist' ob, istep fuel (IS h os) o = (ist', ob) -> ob <> ODiverge ->
  exists st', step st o = (st', ob) /\ R ist' st'.

Lemma sim_next : forall fuel h os st i, R (IS h os) st -> sim_goal fuel h os st (ONext i).
Proof.
  intros fuel h os st i HR ist' ob Hi Hob. pose proof (R_lookup h os st i HR) as Hl.
  cbn [istep step i_objs] in *.
  destruct (nth_error os i) as [[it|its|]|] eqn:Eo, (nth_error st i) as [[s|s u|]|] eqn:Es;
    cbn in Hl; try contradiction;
    try (inversion Hi; subst; eexists; split; [reflexivity|exact HR]).
  eapply itake_sim; eauto.
Qed.

Lemma sim_take : forall fuel h os st i c, R (IS h os) st -> sim_goal fuel h os st (OTake i c).
Proof. intros fuel h os st i c HR ist' ob Hi Hob. cbn [istep step] in *. eapply itake_sim; eauto. Qed.

Lemma sim_peek : forall fuel h os st i c, R (IS h os) st -> sim_goal fuel h os st (OPeek i c).
Proof.
  intros fuel h os st i c HR ist' ob Hi Hob. pose proof (icopy_sim h os st i HR) as Hc.
  cbn [istep step] in *.
  destruct (icopy (IS h os) i) as [[[[h1 os1] b]|]|e].
  - destruct Hc as [l [Hst [HR1 [[[Hw Hf] Ha] Hlen]]]].
    assert (Hh1 : wfH h1) by apply HR1.
    destruct (take_iter fuel c h1 b) as [[h2 b2] ob2] eqn:E. inversion Hi; subst; clear Hi.
    destruct (take_iter_sound _ _ _ _ _ _ _ _ Hh1 (le_n _) Hw Hf E Hob) as (S1 & _ & _ & Q3).
    exists st. split.
    + destruct Hst as [Hst|[u Hst]]; rewrite Hst, Q3; reflexivity.
    + destruct HR1 as [_ HF]. split; [apply S1|]. cbn [i_heap i_objs] in *.
      eapply Robjs_pres; [eapply stable_pres; exact S1|exact HF].
  - inversion Hi; subst. exists st. split; [|exact HR].
    destruct (nth_error st i) as [[s|s u|]|]; try contradiction; reflexivity.
  - destruct Hc as [-> [s Hs]]. inversion Hi; subst. exists st. split; [|exact HR].
    rewrite Hs. reflexivity.
Qed.

Lemma sim_copy : forall fuel h os st i, R (IS h os) st -> sim_goal fuel h os st (OCopy i).
Proof.
  intros fuel h os st i HR ist' ob Hi Hob. pose proof (icopy_sim h os st i HR) as Hc.
  pose proof (R_length _ _ _ HR) as Hlen0.
  cbn [istep step] in *.
  destruct (icopy (IS h os) i) as [[[[h1 os1] b]|]|e].
  - destruct Hc as [l [Hst [HR1 [Hb Hlen]]]]. inversion Hi; subst; clear Hi.
    exists (st ++ [EStream (fin l)]). split.
    + rewrite Hlen, Hlen0. destruct Hst as [Hst|[u Hst]]; rewrite Hst; reflexivity.
    + apply (R_pres_app h1 h1); [exact HR1|apply pres_refl; apply HR1|].
      constructor; [|constructor]. cbn. eauto.
  - inversion Hi; subst. exists st. split; [|exact HR].
    destruct (nth_error st i) as [[s|s u|]|]; try contradiction; reflexivity.
  - destruct Hc as [-> [s Hs]]. inversion Hi; subst. exists st. split; [|exact HR].
    rewrite Hs. reflexivity.
Qed.

Lemma sim_thub : forall fuel h os st i n, R (IS h os) st -> sim_goal fuel h os st (OThub i n).
Proof.
  intros fuel h os st i n HR ist' ob Hi Hob. pose proof (igive_sim h os st i HR) as Hg.
  pose proof (R_length _ _ _ HR) as Hlen0.
  cbn [istep step] in *.
  destruct (igive (IS h os) i) as [[[[h1 os1] it]|]|e], (give st i) as [[[st1 s]|]|e']; try contradiction.
  - destruct Hg as (-> & HR1 & Hlen & l & -> & [Hok Ha]).
    destruct (tee_iter h it n) as [h2 its] eqn:Et. inversion Hi; subst; clear Hi.
    destruct (tee_iter_sound _ _ _ _ _ (proj1 HR) Hok Et) as (Hp & Hl & HF).
    eexists. split; [rewrite Hlen, Hlen0; reflexivity|].
    apply (R_pres_app h h2); [exact HR1|exact Hp|]. constructor; [|constructor].
    cbn. eexists. split; [reflexivity|]. split; [congruence|].
    eapply Forall_impl; [|exact HF]. intros a [A B]. split; [exact A|exact B].
  - inversion Hi; subst. eexists. split; [reflexivity|exact HR].
  - subst e'. inversion Hi; subst. eexists. split; [reflexivity|exact HR].
Qed.

Lemma Robj_streams : forall h l its n, List.length its = n -> Forall (Rit h l) its ->
  Forall2 (Robj h) (map XStream its) (repeat (EStream (fin l)) n).
Proof.
  intros h l its. induction its as [|a its IH]; intros n Hn HF; subst n; cbn; constructor.
  - inversion HF; subst. cbn. eauto.
  - apply IH; [reflexivity|]. inversion HF; auto.
Qed.

Lemma sim_tee : forall fuel h os st i n, R (IS h os) st -> sim_goal fuel h os st (OTee i n).
Proof.
  intros fuel h os st i n HR ist' ob Hi Hob. pose proof (R_length _ _ _ HR) as Hlen0.
  destruct n as [|n].
  - pose proof (R_lookup h os st i HR) as Hl. cbn [istep step i_objs] in *.
    destruct (nth_error os i) as [[it|its|]|], (nth_error st i) as [[s|s u|]|]; cbn in Hl; try contradiction;
      inversion Hi; subst; rewrite ?Hlen0; eexists; (split; [reflexivity|exact HR]).
  - pose proof (igive_sim h os st i HR) as Hg. cbn [istep step] in *.
    destruct (igive (IS h os) i) as [[[[h1 os1] it]|]|e], (give st i) as [[[st1 s]|]|e']; try contradiction.
    + destruct Hg as (-> & HR1 & Hlen & l & -> & [Hok Ha]).
      destruct (tee_iter h it (S n)) as [h2 its] eqn:Et. inversion Hi; subst; clear Hi.
      destruct (tee_iter_sound _ _ _ _ _ (proj1 HR) Hok Et) as (Hp & Hl & HF).
      eexists. split; [rewrite Hlen, Hlen0; reflexivity|].
      apply (R_pres_app h h2); [exact HR1|exact Hp|].
      apply Robj_streams; [exact Hl|]. eapply Forall_impl; [|exact HF]. intros a [A B]. split; [exact A|exact B].
    + inversion Hi; subst. eexists. split; [reflexivity|exact HR].
    + subst e'. inversion Hi; subst. eexists. split; [reflexivity|exact HR].
Qed.

Lemma sim_use : forall fuel h os st i, R (IS h os) st -> sim_goal fuel h os st (OUse i).
Proof.
  intros fuel h os st i HR ist' ob Hi Hob. pose proof (R_length _ _ _ HR) as Hlen0.
  pose proof (R_lookup h os st i HR) as Hl. pose proof (igive_sim h os st i HR) as Hg.
  cbn [istep step i_objs] in *. unfold give in Hg.
  destruct (nth_error os i) as [[it|its|]|], (nth_error st i) as [[s|s u|]|]; cbn in Hl; try contradiction;
    try (inversion Hi; subst; eexists; split; [reflexivity|exact HR]).
  destruct (igive (IS h os) i) as [[[[h1 os1] it]|]|e]; destruct u as [|u]; try contradiction.
  - destruct Hg as (-> & HR1 & Hlen & l & -> & Hr). inversion Hi; subst; clear Hi.
    eexists. split; [rewrite Hlen, Hlen0; reflexivity|].
    apply (R_pres_app h h); [exact HR1|apply pres_refl; apply HR|]. constructor; [|constructor]. cbn. eauto.
  - subst e. inversion Hi; subst. eexists. split; [reflexivity|exact HR].
Qed.

Lemma sim_appendobj : forall fuel h os st i j, R (IS h os) st -> sim_goal fuel h os st (OAppendObj i j).
Proof.
  intros fuel h os st i j HR ist' ob Hi Hob.
  pose proof (R_lookup h os st i HR) as Hl. pose proof (igive_sim h os st j HR) as Hg.
  cbn [istep step i_objs] in *. destruct (Nat.eqb i j).
  { inversion Hi; subst. eexists. split; [reflexivity|exact HR]. }
  destruct (nth_error os i) as [[it|its|]|], (nth_error st i) as [[s|s u|]|]; cbn in Hl; try contradiction;
    try (inversion Hi; subst; eexists; split; [reflexivity|exact HR]).
  destruct (igive (IS h os) j) as [[[[h1 os1] itj]|]|e], (give st j) as [[[st1 sj]|]|e']; try contradiction.
  - destruct Hg as (-> & HR1 & Hlen & lj & -> & Hr).
    eapply iapply_sim; [apply (tcorr_append_obj h itj lj Hr)|exact HR1|exact Hi].
  - inversion Hi; subst. eexists. split; [reflexivity|exact HR].
  - subst e'. inversion Hi; subst. eexists. split; [reflexivity|exact HR].
Qed.

Lemma step_sim : forall fuel h os st o, R (IS h os) st -> fin_op o -> sim_goal fuel h os st o.
Proof.
  intros fuel h os st o HR Hfo. destruct o as [i|i c|i c|i c|i c|i|i p|i f|i p|i n|i|i n|z n|z n|i j|m|e|tgt args].
  - apply sim_next; exact HR.
  - apply sim_take; exact HR.
  - apply sim_peek; exact HR.
  - intros ist' ob Hi _. cbn [istep step] in *. eapply iapply_sim; eauto using tcorr_skip.
  - intros ist' ob Hi _. cbn [istep step] in *. eapply iapply_sim; eauto using tcorr_limit.
  - apply sim_copy; exact HR.
  - destruct p as [l2|l2]; [|contradiction].
    intros ist' ob Hi _. cbn [istep step] in *. eapply iapply_sim; eauto using tcorr_append.
  - intros ist' ob Hi _. cbn [istep step] in *. eapply iapply_sim; eauto using tcorr_map.
  - intros ist' ob Hi _. cbn [istep step] in *. eapply iapply_sim; eauto using tcorr_filter.
  - apply sim_thub; exact HR.
  - apply sim_use; exact HR.
  - apply sim_tee; exact HR.
  - intros ist' ob Hi _. cbn in *. inversion Hi; subst. eexists. split; [reflexivity|exact HR].
  - intros ist' ob Hi _. cbn in *. inversion Hi; subst. eexists. split; [reflexivity|exact HR].
  - apply sim_appendobj; exact HR.
  - intros ist' ob Hi _. cbn in *. inversion Hi; subst. eexists. split; [reflexivity|exact HR].
  - intros ist' ob Hi _. cbn in *. inversion Hi; subst. eexists. split; [reflexivity|exact HR].
  - contradiction.
Qed.

Lemma run_sim : forall fuel ops ist st, R ist st -> Forall fin_op ops ->
  ~ In ODiverge (irun fuel ist ops) -> irun fuel ist ops = run st ops.
Proof.
  intros fuel ops. induction ops as [|o ops IH]; intros [h os] st HR Hf Hnd; [reflexivity|].
  cbn [irun run] in *. destruct (istep fuel (IS h os) o) as [ist' ob] eqn:E.
  inversion Hf as [|? ? Hfo Hfr]; subst.
  assert (Hob : ob <> ODiverge) by (intros ->; apply Hnd; left; reflexivity).
  destruct (step_sim fuel h os st o HR Hfo ist' ob E Hob) as [st' [Hs HR']].
  rewrite Hs. f_equal. apply IH; auto. intros Hin. apply Hnd. right. exact Hin.
Qed.

Lemma R_init : forall ps, Forall fin_pool ps -> R (init ps) (map (fun p => EStream (pool_seq p)) ps).
Proof.
  intros ps Hf. split.
  - intros c cl Hc. destruct c; discriminate.
  - cbn [init i_heap i_objs]. induction Hf as [|p ps Hp Hf IH]; cbn [map]; constructor; [|exact IH].
    destruct p as [l|l]; [|contradiction]. cbn. exists l. split; [reflexivity|].
    split; [split; exact I|reflexivity].
Qed.

(* Every history over finite sources: as long as the implementation-level run
   never runs out of fuel, every observable equals the list model's. *)
Theorem refines_list_model_finite : forall fuel ps ops,
  Forall fin_pool ps -> Forall fin_op ops ->
  ~ In ODiverge (irun fuel (init ps) ops) ->
  irun fuel (init ps) ops = run (map (fun p => EStream (pool_seq p)) ps) ops.
Proof. intros fuel ps ops Hp Ho Hnd. apply run_sim; auto using R_init. Qed.
