(* C03 - basic facts about the abstraction of the heap. *)
From Coq Require Import List Bool ZArith String Lia.
From AL Require Import C03.Spec C03.Model C03.Abs.
Import ListNotations.

Lemma vals_upto_length : forall h n, List.length (vals_upto h n) = n.
Proof.
  intros h n. induction n as [|n IH]; cbn [vals_upto]; [reflexivity|].
  rewrite app_length, IH. cbn. lia.
Qed.

Lemma vals_upto_nth_lt : forall h n c, (c < n)%nat ->
  nth c (vals_upto h n) [] = cell_val (vals_upto h c) (nth_error h c).
Proof.
  intros h n. induction n as [|n IH]; intros c Hc; [lia|].
  cbn [vals_upto]. destruct (Nat.eq_dec c n) as [->|Hne].
  - rewrite app_nth2 by (rewrite vals_upto_length; lia).
    rewrite vals_upto_length, Nat.sub_diag. reflexivity.
  - rewrite app_nth1 by (rewrite vals_upto_length; lia). apply IH. lia.
Qed.

(* absI only looks at the cells a well-formed iterator can refer to *)
Lemma absI_ext : forall h b v1 v2 it, wfI h b it ->
  (forall c, (c < b)%nat -> nth c v1 [] = nth c v2 []) ->
  absI v1 it = absI v2 it.
Proof.
  intros h b v1 v2 it. induction it as [l|sv rm|x|f s IH|p s IH|a IHa c IHc|s IH|s IH n| |s IH n|c idx];
    intros Hwf Hv; cbn [absI wfI] in *; try reflexivity.
  - rewrite IH; auto.
  - rewrite IH; auto.
  - destruct Hwf as [Ha Hc]. rewrite IHa, IHc; auto.
  - auto.
  - rewrite IH; auto.
  - rewrite IH; auto.
  - destruct Hwf as [Hlt _]. rewrite Hv; auto.
Qed.

Lemma wfI_weaken : forall h b b' it, (b <= b')%nat -> wfI h b it -> wfI h b' it.
Proof.
  intros h b b' it Hle. induction it; cbn [wfI]; intros Hwf; auto.
  - destruct Hwf; split; auto.
  - destruct Hwf as [Hlt Hex]. split; [lia|exact Hex].
Qed.

(* the value of cell c computed over the whole heap *)
Lemma heap_vals_nth : forall h c cl, wfH h -> nth_error h c = Some cl ->
  nth c (heap_vals h) [] = c_items cl ++ absI (heap_vals h) (c_src cl).
Proof.
  intros h c cl Hwf Hc. unfold heap_vals.
  assert (Hlt : (c < List.length h)%nat) by (apply nth_error_Some; congruence).
  rewrite vals_upto_nth_lt by exact Hlt. rewrite Hc. cbn [cell_val]. f_equal.
  destruct (Hwf c cl Hc) as [Hw _].
  apply (absI_ext h c); [exact Hw|].
  intros d Hd. rewrite !vals_upto_nth_lt by lia. reflexivity.
Qed.

(* heaps only grow: same addresses, buffers get longer *)
Definition ext (h h' : heap) : Prop :=
  forall c cl, nth_error h c = Some cl ->
    exists cl', nth_error h' c = Some cl' /\ (List.length (c_items cl) <= List.length (c_items cl'))%nat.

Lemma ext_refl : forall h, ext h h.
Proof. intros h c cl H. exists cl. split; [exact H|lia]. Qed.

Lemma ext_trans : forall h1 h2 h3, ext h1 h2 -> ext h2 h3 -> ext h1 h3.
Proof.
  intros h1 h2 h3 H12 H23 c cl H. destruct (H12 c cl H) as [cl2 [H2 L2]].
  destruct (H23 c cl2 H2) as [cl3 [H3 L3]]. exists cl3. split; [exact H3|lia].
Qed.

Lemma wfI_ext : forall h h' b it, ext h h' -> wfI h b it -> wfI h' b it.
Proof.
  intros h h' b it He. induction it; cbn [wfI]; intros Hwf; auto.
  - destruct Hwf; split; auto.
  - destruct Hwf as [Hlt [cl [Hc Hi]]]. split; [exact Hlt|].
    destruct (He _ _ Hc) as [cl' [Hc' Hl]]. exists cl'. split; [exact Hc'|lia].
Qed.

Lemma nth_error_set_nth_eq : forall {A} (l : list A) i x, (i < List.length l)%nat ->
  nth_error (set_nth i x l) i = Some x.
Proof.
  intros A l. induction l as [|a l IH]; intros i x Hi; cbn in Hi; [lia|].
  destruct i; cbn; [reflexivity|]. apply IH. lia.
Qed.

Lemma nth_error_set_nth_ne : forall {A} (l : list A) i j x, i <> j ->
  nth_error (set_nth i x l) j = nth_error l j.
Proof.
  intros A l. induction l as [|a l IH]; intros i j x Hne; [destruct i; reflexivity|].
  destruct i, j; cbn; try reflexivity; [congruence|]. apply IH. congruence.
Qed.

Lemma set_nth_length : forall {A} (l : list A) i x, List.length (set_nth i x l) = List.length l.
Proof.
  intros A l. induction l as [|a l IH]; intros i x; [destruct i; reflexivity|].
  destruct i; cbn; [reflexivity|]. rewrite IH. reflexivity.
Qed.

Lemma ext_set_nth : forall h c cl new, nth_error h c = Some cl ->
  (List.length (c_items cl) <= List.length (c_items new))%nat -> ext h (set_nth c new h).
Proof.
  intros h c cl new Hc Hl d cd Hd. destruct (Nat.eq_dec c d) as [<-|Hne].
  - exists new. split.
    + apply nth_error_set_nth_eq. apply nth_error_Some. congruence.
    + congruence.
  - exists cd. split; [rewrite nth_error_set_nth_ne by exact Hne; exact Hd|lia].
Qed.

(* overwriting a cell by one of the same value changes no value *)
Lemma vals_set_nth : forall h c new, (c < List.length h)%nat ->
  cell_val (vals_upto h c) (Some new) = cell_val (vals_upto h c) (nth_error h c) ->
  forall n, vals_upto (set_nth c new h) n = vals_upto h n.
Proof.
  intros h c new Hc Hv n. induction n as [|n IH]; [reflexivity|].
  cbn [vals_upto]. rewrite IH. f_equal. f_equal.
  destruct (Nat.eq_dec c n) as [<-|Hne].
  - rewrite nth_error_set_nth_eq by exact Hc. exact Hv.
  - rewrite nth_error_set_nth_ne by exact Hne. reflexivity.
Qed.
