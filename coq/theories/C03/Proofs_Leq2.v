(* C03 - one next() through each list-model operation, up to unrolling. *)
From Coq Require Import List Bool ZArith Lia.
From AL Require Import C03.Spec C03.AbsL C03.Proofs_Periodic C03.Proofs_Leq.
Import ListNotations.

Lemma lnext_stop : forall s, lnext s = PStop -> s = lempty.
Proof.
  intros [p c d] H. unfold lnext in H. cbn [pre cyc dv] in H.
  destruct p; [|discriminate]. destruct c; [|discriminate]. destruct d; [discriminate|reflexivity].
Qed.

Lemma leq_stop : forall s t, leq s t -> lnext s = PStop -> lnext t = PStop.
Proof.
  intros s t H Hs. pose proof (lnext_leq s t H) as P. rewrite Hs in P.
  destruct (lnext t); cbn in P; try contradiction. reflexivity.
Qed.

Lemma leq_item : forall s t x s', leq s t -> lnext s = PItem x s' ->
  exists t', lnext t = PItem x t' /\ leq s' t'.
Proof.
  intros s t x s' H Hs. pose proof (lnext_leq s t H) as P. rewrite Hs in P.
  destruct (lnext t) as [y t'| |]; cbn in P; try contradiction. destruct P as [-> P]. eauto.
Qed.

Lemma lnext_lmap : forall f s, lnext (lmap f s) =
  match lnext s with PItem x s' => PItem (f x) (lmap f s') | PStop => PStop | PDiv => PDiv end.
Proof.
  intros f [p c d]. unfold lnext, lmap. cbn [pre cyc dv]. destruct p as [|x p]; [|reflexivity].
  destruct c as [|x c]; [destruct d; reflexivity|reflexivity].
Qed.

Lemma lnext_lfilter_keep : forall p s x s', lnext s = PItem x s' -> p x = true ->
  lnext (lfilter p s) = PItem x (lfilter p s').
Proof.
  intros p [q c d] x s' H Hp. unfold lnext, lfilter in *. cbn [pre cyc dv] in *. destruct q as [|y q].
  - destruct c as [|y c]; [destruct d; discriminate|]. inversion H; subst. cbn [filter pre cyc dv]. rewrite Hp.
    cbn [filter is_nil negb andb]. reflexivity.
  - inversion H; subst. cbn [filter pre cyc dv]. rewrite Hp. reflexivity.
Qed.

Lemma lnext_lfilter_drop : forall p s x s', lnext s = PItem x s' -> p x = false ->
  leq (lfilter p s) (lfilter p s').
Proof.
  intros p [q c d] x s' H Hp. unfold lnext in H. cbn [pre cyc dv] in H. destruct q as [|y q].
  - destruct c as [|y c]; [destruct d; discriminate|]. inversion H; subst.
    unfold lfilter. cbn [pre cyc dv filter]. rewrite Hp. cbn [is_nil negb andb].
    exists 1%nat, O. unfold unroll. cbn [pre cyc dv]. unfold reps. cbn. rewrite !app_nil_r. reflexivity.
  - inversion H; subst. unfold lfilter. cbn [pre cyc dv filter]. rewrite Hp. apply leq_refl.
Qed.

Lemma lnext_lfilter_stop : forall p s, lnext s = PStop -> lnext (lfilter p s) = PStop.
Proof. intros p s H. rewrite (lnext_stop s H). reflexivity. Qed.

Lemma lnext_lappend_item : forall a b x a', lnext a = PItem x a' ->
  lnext (lappend a b) = PItem x (lappend a' b).
Proof.
  intros [p c d] b x a' H. unfold lnext in H. cbn [pre cyc dv] in H. unfold lappend. cbn [pre cyc dv].
  destruct p as [|y p].
  - destruct c as [|y c]; [destruct d; discriminate|]. inversion H; subst. cbn [cyc dv]. exact H || reflexivity.
  - inversion H; subst. cbn [cyc dv]. destruct c; [destruct d|]; reflexivity.
Qed.

Lemma lappend_stop : forall a b, lnext a = PStop -> lappend a b = b.
Proof. intros a [p c d] H. rewrite (lnext_stop a H). reflexivity. Qed.

Lemma ldrop_0 : forall a, ldrop 0 a = a.
Proof. reflexivity. Qed.

Lemma ldrop_S_item : forall n a x a', lnext a = PItem x a' -> ldrop (S n) a = ldrop n a'.
Proof.
  intros n a x a' H. unfold ldrop. cbn [ltake]. rewrite H.
  destruct (ltake n a') as [[l r] d]. reflexivity.
Qed.

Lemma ldrop_stop : forall n a, lnext a = PStop -> ldrop n a = lempty.
Proof.
  intros n a H. pose proof (lnext_stop a H) as E. destruct n; [exact E|].
  unfold ldrop. cbn [ltake]. rewrite H. exact E.
Qed.

Lemma llimit_0 : forall a, llimit 0 a = lempty.
Proof. reflexivity. Qed.

Lemma llimit_S_item : forall n a x a', lnext a = PItem x a' ->
  lnext (llimit (S n) a) = PItem x (llimit n a').
Proof.
  intros n a x a' H. unfold llimit. cbn [ltake]. rewrite H.
  destruct (ltake n a') as [[l r] d]. reflexivity.
Qed.

Lemma llimit_stop : forall n a, lnext a = PStop -> llimit n a = lempty.
Proof.
  intros n a H. destruct n; [reflexivity|]. unfold llimit. cbn [ltake]. rewrite H. reflexivity.
Qed.

Lemma lpre_nil : forall s, lpre [] s = s.
Proof. intros [p c d]. reflexivity. Qed.

Lemma lpre_leq : forall l s t, leq s t -> leq (lpre l s) (lpre l t).
Proof.
  intros l. apply op_leq. intros j [p c d]. unfold lpre, unroll. cbn [pre cyc dv].
  rewrite app_assoc. reflexivity.
Qed.

Lemma lskip_leq : forall i s t, (i <= length (pre s))%nat -> (i <= length (pre t))%nat ->
  leq s t -> leq (lskip i s) (lskip i t).
Proof.
  intros i [p c d] [q c' d'] Hs Ht [j [k H]]. cbn [pre] in Hs, Ht. exists j, k.
  unfold unroll, lskip in *. cbn [pre cyc dv] in *. inversion H as [[H1 H2 H3]].
  f_equal. rewrite <- H2.
  assert (E : skipn i (p ++ reps c j) = skipn i (q ++ reps c' k)) by (rewrite H1; reflexivity).
  rewrite !skipn_app in E. replace (i - length p)%nat with O in E by lia.
  replace (i - length q)%nat with O in E by lia. cbn [skipn] in E. rewrite <- H2 in E. exact E.
Qed.

Lemma lskip_lpre : forall i l s, (i <= length l)%nat -> lskip i (lpre l s) = lpre (skipn i l) s.
Proof.
  intros i l [p c d] H. unfold lskip, lpre. cbn [pre cyc dv]. rewrite skipn_app.
  replace (i - length l)%nat with O by lia. reflexivity.
Qed.

Lemma lnext_lpre_cons : forall x l s, lnext (lpre (x :: l) s) = PItem x (lpre l s).
Proof. intros x l [p c d]. reflexivity. Qed.

(* the wrapped iterator yields x: buffering x changes nothing *)
Lemma lpre_snoc : forall l s x s', lnext s = PItem x s' -> leq (lpre l s) (lpre (l ++ [x]) s').
Proof.
  intros l [p c d] x s' H. unfold lnext in H. cbn [pre cyc dv] in H. destruct p as [|y p].
  - destruct c as [|y c]; [destruct d; discriminate|]. inversion H; subst.
    exists 1%nat, O. unfold unroll, lpre. cbn [pre cyc dv]. unfold reps. cbn [repeat concat].
    rewrite !app_nil_r, <- app_assoc. reflexivity.
  - inversion H; subst. unfold lpre. cbn [pre cyc dv]. rewrite <- app_assoc. apply leq_refl.
Qed.
