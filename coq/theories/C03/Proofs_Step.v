(* C03 - each operation of a history is simulated by the list model (finite sources). *)
From Coq Require Import List Bool ZArith String Lia.
From AL Require Import C03.Spec C03.Model C03.Abs C03.Proofs_Abs C03.Proofs_Pull C03.Proofs_Fin
  C03.Proofs_Take C03.Proofs_Sim.
Import ListNotations.

Lemma Forall2_lookup : forall {A B} (P : A -> B -> Prop) l1 l2 i, Forall2 P l1 l2 ->
  match nth_error l1 i, nth_error l2 i with
  | Some a, Some b => P a b
  | None, None => True
  | _, _ => False
  end.
Proof.
  intros A B P l1 l2 i HF. revert i. induction HF as [|a b l1 l2 Hab HF IH]; intros i.
  - destruct i; exact I.
  - destruct i; cbn; [exact Hab|apply IH].
Qed.

Lemma Forall2_set_nth : forall {A B} (P : A -> B -> Prop) l1 l2 i a b, Forall2 P l1 l2 ->
  P a b -> Forall2 P (set_nth i a l1) (set_nth i b l2).
Proof.
  intros A B P l1 l2 i a b HF Hab. revert i. induction HF as [|a0 b0 l1 l2 H0 HF IH]; intros i.
  - destruct i; constructor.
  - destruct i; cbn; constructor; auto.
Qed.

Lemma R_lookup : forall h os st i, R (IS h os) st ->
  match nth_error os i, nth_error st i with
  | Some o, Some e => Robj h o e
  | None, None => True
  | _, _ => False
  end.
Proof. intros h os st i [_ HF]. apply Forall2_lookup. exact HF. Qed.

Lemma R_pres_set : forall h h' os st i o e, R (IS h os) st -> pres h h' -> Robj h' o e ->
  R (IS h' (set_nth i o os)) (set_nth i e st).
Proof.
  intros h h' os st i o e [Hh HF] Hp Ho. split; [apply Hp|]. cbn [i_heap i_objs] in *.
  apply Forall2_set_nth; [|exact Ho]. eapply Robjs_pres; eauto.
Qed.

Lemma R_pres_app : forall h h' os st os2 st2, R (IS h os) st -> pres h h' ->
  Forall2 (Robj h') os2 st2 -> R (IS h' (os ++ os2)) (st ++ st2).
Proof.
  intros h h' os st os2 st2 [Hh HF] Hp H2. split; [apply Hp|]. cbn [i_heap i_objs] in *.
  apply Forall2_app; [|exact H2]. eapply Robjs_pres; eauto.
Qed.

Lemma R_length : forall h os st, R (IS h os) st -> List.length os = List.length st.
Proof. intros h os st [_ HF]. cbn in HF. induction HF; cbn; auto. Qed.

Lemma itake_sim : forall fuel h os st i c ist' ob, R (IS h os) st ->
  itake fuel (IS h os) i c = (ist', ob) -> ob <> ODiverge ->
  exists st', do_take st i c = (st', ob) /\ R ist' st'.
Proof.
  intros fuel h os st i c ist' ob HR Hi Hob. pose proof (R_lookup h os st i HR) as Hl.
  assert (Hh : wfH h) by apply HR.
  unfold itake in Hi. unfold do_take.
  destruct (nth_error os i) as [[it|its|]|], (nth_error st i) as [[s|s u|]|]; cbn in Hl; try contradiction.
  - destruct Hl as [l [-> [[Hw Hf] Ha]]].
    destruct (take_iter fuel c h it) as [[h1 it1] ob1] eqn:E. inversion Hi; subst; clear Hi.
    destruct (take_iter_sound _ _ _ _ _ _ _ _ Hh (le_n _) Hw Hf E Hob) as (S1 & Q1 & Q2 & Q3).
    rewrite Q3. eexists. split; [reflexivity|].
    apply (R_pres_set h h1); [exact HR|eapply stable_pres; exact S1|].
    cbn. eexists. split; [reflexivity|].
    pose proof (stable_vals _ _ _ S1) as V. destruct S1 as (L1 & _).
    split; [split; [rewrite L1; exact Q1|exact Q2]|]. rewrite V. reflexivity.
  - inversion Hi; subst. eexists. split; [reflexivity|exact HR].
  - inversion Hi; subst. eexists. split; [reflexivity|exact HR].
  - inversion Hi; subst. eexists. split; [reflexivity|exact HR].
Qed.

Lemma pop_last_none : forall l, pop_last l = None -> l = [].
Proof.
  intros l H. unfold pop_last in H. destruct (rev l) as [|x r] eqn:E; [|discriminate].
  rewrite <- (rev_involutive l), E. reflexivity.
Qed.

Lemma pop_last_some : forall l l' x, pop_last l = Some (l', x) -> l = l' ++ [x].
Proof.
  intros l l' x H. unfold pop_last in H. destruct (rev l) as [|y r] eqn:E; [discriminate|].
  inversion H; subst. rewrite <- (rev_involutive l), E. reflexivity.
Qed.

(* a method of the implementation and its list-model counterpart *)
Definition tcorr (h : heap) (ti : iter -> ires) (ts : lseq -> tres) : Prop :=
  forall it l, wfH h -> Rit h l it ->
  match ti it, ts (fin l) with
  | IOk it', TOk s' => exists l', s' = fin l' /\ Rit h l' it'
  | IDead, TDead => True
  | IErr e, TErr e' => e = e'
  | _, _ => False
  end.

Lemma iapply_sim : forall ti ts h os st i ist' ob, tcorr h ti ts -> R (IS h os) st ->
  iapply (IS h os) i ti = (ist', ob) ->
  exists st', apply_t st i ts = (st', ob) /\ R ist' st'.
Proof.
  intros ti ts h os st i ist' ob Ht HR Hi. pose proof (R_lookup h os st i HR) as Hl.
  assert (Hh : wfH h) by apply HR. pose proof (R_length _ _ _ HR) as Hlen.
  unfold iapply in Hi. unfold apply_t.
  destruct (nth_error os i) as [[it|its|]|], (nth_error st i) as [[s|s u|]|]; cbn in Hl; try contradiction.
  - destruct Hl as [l [-> Hr]]. specialize (Ht it l Hh Hr).
    destruct (ti it) as [it'| |e], (ts (fin l)) as [s'| |e']; try contradiction; inversion Hi; subst; clear Hi.
    + destruct Ht as [l' [-> Hr']]. eexists. split; [reflexivity|].
      apply (R_pres_set h h); [exact HR|apply pres_refl; exact Hh|]. cbn. eauto.
    + eexists. split; [reflexivity|].
      apply (R_pres_set h h); [exact HR|apply pres_refl; exact Hh|]. exact I.
    + eexists. split; [reflexivity|exact HR].
  - destruct Hl as [l [-> [-> HF]]]. destruct (pop_last its) as [[its' it]|] eqn:Ep.
    + apply pop_last_some in Ep. subst its. rewrite app_length. cbn [List.length]. rewrite Nat.add_1_r.
      apply Forall_app in HF. destruct HF as [HF' Hit]. inversion Hit as [|? ? Hr _]; subst.
      specialize (Ht it l Hh Hr).
      assert (HR' : R (IS h (set_nth i (XHub its') os)) (set_nth i (EHub (fin l) (List.length its')) st)).
      { apply (R_pres_set h h); [exact HR|apply pres_refl; exact Hh|]. cbn. eauto. }
      destruct (ti it) as [it'| |e], (ts (fin l)) as [s'| |e']; try contradiction; inversion Hi; subst; clear Hi.
      * destruct Ht as [l' [-> Hr']]. rewrite Hlen. eexists. split; [reflexivity|].
        apply (R_pres_app h h); [exact HR'|apply pres_refl; exact Hh|].
        constructor; [|constructor]. cbn. eauto.
      * rewrite Hlen. eexists. split; [reflexivity|].
        apply (R_pres_app h h); [exact HR'|apply pres_refl; exact Hh|].
        constructor; [|constructor]. exact I.
      * eexists. split; [reflexivity|exact HR'].
    + apply pop_last_none in Ep. subst its. inversion Hi; subst. cbn [List.length].
      eexists. split; [reflexivity|exact HR].
  - inversion Hi; subst. eexists. split; [reflexivity|exact HR].
  - inversion Hi; subst. eexists. split; [reflexivity|exact HR].
Qed.

Lemma tcorr_skip : forall c h, tcorr h (skip_i c) (skip_t c).
Proof.
  intros c h it l Hh [[Hw Hf] Ha]. unfold skip_i, skip_t. destruct (round_count c) as [z|e]; [|exact I].
  rewrite ldrop_fin. eexists. split; [reflexivity|]. split; [split; assumption|].
  cbn [absI]. rewrite Ha. reflexivity.
Qed.

Lemma tcorr_limit : forall c h, tcorr h (limit_i c) (limit_t c).
Proof.
  intros c h it l Hh [[Hw Hf] Ha]. unfold limit_i, limit_t. destruct (round_count c) as [z|e]; [|reflexivity].
  rewrite llimit_fin. eexists. split; [reflexivity|]. split; [split; assumption|].
  cbn [absI]. rewrite Ha. reflexivity.
Qed.

Lemma tcorr_append : forall l2 h,
  tcorr h (fun it => IOk (IChain it (src_iter (PFin l2)))) (fun s => TOk (lappend s (pool_seq (PFin l2)))).
Proof.
  intros l2 h it l Hh [[Hw Hf] Ha]. cbn [src_iter pool_seq]. rewrite lappend_fin.
  eexists. split; [reflexivity|]. split; [split; cbn; auto|].
  cbn [absI]. rewrite Ha. reflexivity.
Qed.

Lemma tcorr_map : forall f h, tcorr h (fun it => IOk (IMap f it)) (fun s => TOk (lmap (ef f) s)).
Proof.
  intros f h it l Hh [[Hw Hf] Ha]. rewrite lmap_fin.
  eexists. split; [reflexivity|]. split; [split; assumption|].
  cbn [absI]. rewrite Ha. reflexivity.
Qed.

Lemma tcorr_filter : forall p h, tcorr h (fun it => IOk (IFilter p it)) (fun s => TOk (lfilter (ep p) s)).
Proof.
  intros p h it l Hh [[Hw Hf] Ha]. rewrite lfilter_fin.
  eexists. split; [reflexivity|]. split; [split; assumption|].
  cbn [absI]. rewrite Ha. reflexivity.
Qed.

(* iter(obj) handed over to a new owner *)
Lemma igive_sim : forall h os st i, R (IS h os) st ->
  match igive (IS h os) i, give st i with
  | inl (Some (IS h' os', it)), inl (Some (st', s)) =>
      h' = h /\ R (IS h os') st' /\ List.length os' = List.length os /\ exists l, s = fin l /\ Rit h l it
  | inl None, inl None => True
  | inr e, inr e' => e = e'
  | _, _ => False
  end.
Proof.
  intros h os st i HR. pose proof (R_lookup h os st i HR) as Hl.
  assert (Hh : wfH h) by apply HR.
  unfold igive, give.
  destruct (nth_error os i) as [[it|its|]|], (nth_error st i) as [[s|s u|]|]; cbn in Hl; try contradiction; auto.
  - destruct Hl as [l [-> Hr]]. split; [reflexivity|]. split; [|split; [apply set_nth_length|eauto]].
    apply (R_pres_set h h); [exact HR|apply pres_refl; exact Hh|exact I].
  - destruct Hl as [l [-> [-> HF]]]. destruct (pop_last its) as [[its' it]|] eqn:Ep.
    + apply pop_last_some in Ep. subst its. rewrite app_length. cbn [List.length]. rewrite Nat.add_1_r.
      apply Forall_app in HF. destruct HF as [HF' Hit]. inversion Hit as [|? ? Hr _]; subst.
      split; [reflexivity|]. split; [|split; [apply set_nth_length|eauto]].
      apply (R_pres_set h h); [exact HR|apply pres_refl; exact Hh|]. cbn. eauto.
    + apply pop_last_none in Ep. subst its. reflexivity.
Qed.

Lemma set_nth_same : forall {A} (l : list A) i e, nth_error l i = Some e -> set_nth i e l = l.
Proof.
  intros A l. induction l as [|a l IH]; intros i e H; destruct i; cbn in *; try discriminate.
  - congruence.
  - f_equal. apply IH. exact H.
Qed.

(* obj.copy(): the object keeps one branch, the other is returned *)
Lemma icopy_sim : forall h os st i, R (IS h os) st ->
  match icopy (IS h os) i with
  | inl (Some (IS h' os', b)) =>
      exists l, (nth_error st i = Some (EStream (fin l)) \/ exists u, nth_error st i = Some (EHub (fin l) (S u))) /\
                R (IS h' os') st /\ Rit h' l b /\ List.length os' = List.length os
  | inl None => match nth_error st i with Some (EStream _) | Some (EHub _ _) => False | _ => True end
  | inr e => e = "IndexError"%string /\ exists s, nth_error st i = Some (EHub s O)
  end.
Proof.
  intros h os st i HR. pose proof (R_lookup h os st i HR) as Hl.
  assert (Hh : wfH h) by apply HR.
  unfold icopy.
  destruct (nth_error os i) as [[it|its|]|] eqn:Eo, (nth_error st i) as [[s|s u|]|] eqn:Es;
    cbn in Hl; try contradiction; auto.
  - destruct Hl as [l [-> [Hok Ha]]].
    destruct (tee_iter h it 2) as [h' its] eqn:Et.
    destruct (tee_iter_sound _ _ _ _ _ Hh Hok Et) as (Hp & Hlen & HF).
    destruct its as [|a [|b [|c r]]]; try discriminate Hlen.
    inversion HF as [|? ? [Hoka Haa] HF2]; subst. inversion HF2 as [|? ? [Hokb Hab] _]; subst.
    exists (absI (heap_vals h) it). split; [left; reflexivity|]. split; [|split; [split; auto|apply set_nth_length]].
    rewrite <- (set_nth_same _ _ _ Es). apply (R_pres_set h h'); [exact HR|exact Hp|]. cbn. eexists. split; [reflexivity|].
    split; auto.
  - destruct Hl as [l [-> [-> HF0]]]. destruct its as [|it rest]; [split; eauto|].
    inversion HF0 as [|? ? [Hok Ha] HFr]; subst.
    destruct (tee_iter h it 2) as [h' its] eqn:Et.
    destruct (tee_iter_sound _ _ _ _ _ Hh Hok Et) as (Hp & Hlen & HF).
    destruct its as [|a [|b [|c r]]]; try discriminate Hlen.
    inversion HF as [|? ? [Hoka Haa] HF2]; subst. inversion HF2 as [|? ? [Hokb Hab] _]; subst.
    exists (absI (heap_vals h) it). split; [right; eexists; reflexivity|].
    split; [|split; [split; auto|apply set_nth_length]].
    rewrite <- (set_nth_same _ _ _ Es). apply (R_pres_set h h'); [exact HR|exact Hp|]. cbn. eexists. split; [reflexivity|].
    split; [reflexivity|]. constructor; [split; auto|].
    eapply Forall_impl; [|exact HFr]. intros x. apply Rit_pres. exact Hp.
Qed.

(* appending the iterator obtained from another object *)
Lemma tcorr_append_obj : forall h itj lj, Rit h lj itj ->
  tcorr h (fun it => IOk (IChain it itj)) (fun s => TOk (lappend s (fin lj))).
Proof.
  intros h itj lj [[Hwj Hfj] Haj] it l Hh [[Hw Hf] Ha]. rewrite lappend_fin.
  eexists. split; [reflexivity|]. split; [split; cbn; auto|].
  cbn [absI]. rewrite Ha, Haj. reflexivity.
Qed.
