(* C03 - the refinement theorem with periodic sources: implementation-level histories = list-model histories. *)
From Coq Require Import List Bool ZArith Lia.
From AL Require Import C03.Spec C03.Model C03.Abs C03.AbsL C03.Proofs_Abs C03.Proofs_Leq C03.Proofs_Leq2
  C03.Proofs_AbsL C03.Proofs_PullL C03.Proofs_TakeL C03.Proofs_Step C03.Proofs_SimL C03.Proofs_StepL.
Import ListNotations.

Definition sim_goalL (fuel : nat) (h : heap) (os : list obj) (st : state) (o : op) : Prop :=
  forall ist' ob, istep fuel (IS h os) o = (ist', ob) -> ob <> ODiverge ->
  exists st', step st o = (st', ob) /\ RL ist' st'.

Lemma simL_next : forall fuel h os st i, RL (IS h os) st -> sim_goalL fuel h os st (ONext i).
Proof.
  intros fuel h os st i HR ist' ob Hi Hob. pose proof (RL_lookup h os st i HR) as Hl.
  cbn [istep step i_objs] in *.
  destruct (nth_error os i) as [[it|its|]|] eqn:Eo, (nth_error st i) as [[s|s u|]|] eqn:Es;
    cbn in Hl; try contradiction;
    try (inversion Hi; subst; eexists; split; [reflexivity|exact HR]).
  eapply itake_simL; eauto.
Qed.

Lemma simL_take : forall fuel h os st i c, RL (IS h os) st -> sim_goalL fuel h os st (OTake i c).
Proof. intros fuel h os st i c HR ist' ob Hi Hob. cbn [istep step] in *. eapply itake_simL; eauto. Qed.

Lemma simL_peek : forall fuel h os st i c, RL (IS h os) st -> sim_goalL fuel h os st (OPeek i c).
Proof.
  intros fuel h os st i c HR ist' ob Hi Hob. pose proof (icopy_simL h os st i HR) as Hc.
  cbn [istep step] in *.
  destruct (icopy (IS h os) i) as [[[[h1 os1] b]|]|e].
  - destruct Hc as [s [Hst [HR1 [[Hw Ha] Hlen]]]].
    assert (Hh1 : wfHL h1) by apply HR1.
    destruct (take_iter fuel c h1 b) as [[h2 b2] ob2] eqn:E. inversion Hi; subst; clear Hi.
    destruct (take_iter_soundL _ _ _ _ _ _ _ _ s Hh1 (le_n _) Hw E Hob Ha) as (S1 & _ & Q2 & _).
    exists st. split.
    + destruct Hst as [Hst|[u Hst]]; rewrite Hst, Q2; reflexivity.
    + destruct HR1 as [_ HF]. split; [apply S1|]. cbn [i_heap i_objs] in *.
      eapply Robjs_pres; [exact Hh1|eapply stableL_presL; exact S1|exact HF].
  - inversion Hi; subst. exists st. split; [|exact HR].
    destruct (nth_error st i) as [[s|s u|]|]; try contradiction; reflexivity.
  - destruct Hc as [-> [s Hs]]. inversion Hi; subst. exists st. split; [|exact HR].
    rewrite Hs. reflexivity.
Qed.

Lemma simL_copy : forall fuel h os st i, RL (IS h os) st -> sim_goalL fuel h os st (OCopy i).
Proof.
  intros fuel h os st i HR ist' ob Hi Hob. pose proof (icopy_simL h os st i HR) as Hc.
  pose proof (RL_length _ _ _ HR) as Hlen0.
  cbn [istep step] in *.
  destruct (icopy (IS h os) i) as [[[[h1 os1] b]|]|e].
  - destruct Hc as [s [Hst [HR1 [Hb Hlen]]]]. inversion Hi; subst; clear Hi.
    exists (st ++ [EStream s]). split.
    + rewrite Hlen, Hlen0. destruct Hst as [Hst|[u Hst]]; rewrite Hst; reflexivity.
    + apply (RL_pres_app h1 h1); [exact HR1|apply presL_refl; apply HR1|].
      constructor; [|constructor]. exact Hb.
  - inversion Hi; subst. exists st. split; [|exact HR].
    destruct (nth_error st i) as [[s|s u|]|]; try contradiction; reflexivity.
  - destruct Hc as [-> [s Hs]]. inversion Hi; subst. exists st. split; [|exact HR].
    rewrite Hs. reflexivity.
Qed.

Lemma simL_thub : forall fuel h os st i n, RL (IS h os) st -> sim_goalL fuel h os st (OThub i n).
Proof.
  intros fuel h os st i n HR ist' ob Hi Hob. pose proof (igive_simL h os st i HR) as Hg.
  pose proof (RL_length _ _ _ HR) as Hlen0.
  cbn [istep step] in *.
  destruct (igive (IS h os) i) as [[[[h1 os1] it]|]|e], (give st i) as [[[st1 s]|]|e']; try contradiction.
  - destruct Hg as (-> & HR1 & Hlen & Hr).
    destruct (tee_iter h it n) as [h2 its] eqn:Et. inversion Hi; subst; clear Hi.
    destruct (tee_iter_soundL _ _ _ _ _ s (proj1 HR) Hr Et) as (Hp & Hl & HF).
    eexists. split; [rewrite Hlen, Hlen0; reflexivity|].
    apply (RL_pres_app h h2); [exact HR1|exact Hp|]. constructor; [|constructor].
    cbn. split; [congruence|exact HF].
  - inversion Hi; subst. eexists. split; [reflexivity|exact HR].
  - subst e'. inversion Hi; subst. eexists. split; [reflexivity|exact HR].
Qed.

Lemma Robj_streamsL : forall h s its n, length its = n -> Forall (Rit h s) its ->
  Forall2 (Robj h) (map XStream its) (repeat (EStream s) n).
Proof.
  intros h s its. induction its as [|a its IH]; intros n Hn HF; subst n; cbn; constructor.
  - inversion HF; subst. assumption.
  - apply IH; [reflexivity|]. inversion HF; auto.
Qed.

Lemma simL_tee : forall fuel h os st i n, RL (IS h os) st -> sim_goalL fuel h os st (OTee i n).
Proof.
  intros fuel h os st i n HR ist' ob Hi Hob. pose proof (RL_length _ _ _ HR) as Hlen0.
  destruct n as [|n].
  - pose proof (RL_lookup h os st i HR) as Hl. cbn [istep step i_objs] in *.
    destruct (nth_error os i) as [[it|its|]|], (nth_error st i) as [[s|s u|]|]; cbn in Hl; try contradiction;
      inversion Hi; subst; rewrite ?Hlen0; eexists; (split; [reflexivity|exact HR]).
  - pose proof (igive_simL h os st i HR) as Hg. cbn [istep step] in *.
    destruct (igive (IS h os) i) as [[[[h1 os1] it]|]|e], (give st i) as [[[st1 s]|]|e']; try contradiction.
    + destruct Hg as (-> & HR1 & Hlen & Hr).
      destruct (tee_iter h it (S n)) as [h2 its] eqn:Et. inversion Hi; subst; clear Hi.
      destruct (tee_iter_soundL _ _ _ _ _ s (proj1 HR) Hr Et) as (Hp & Hl & HF).
      eexists. split; [rewrite Hlen, Hlen0; reflexivity|].
      apply (RL_pres_app h h2); [exact HR1|exact Hp|]. apply Robj_streamsL; assumption.
    + inversion Hi; subst. eexists. split; [reflexivity|exact HR].
    + subst e'. inversion Hi; subst. eexists. split; [reflexivity|exact HR].
Qed.

Lemma simL_use : forall fuel h os st i, RL (IS h os) st -> sim_goalL fuel h os st (OUse i).
Proof.
  intros fuel h os st i HR ist' ob Hi Hob. pose proof (RL_length _ _ _ HR) as Hlen0.
  pose proof (RL_lookup h os st i HR) as Hl. pose proof (igive_simL h os st i HR) as Hg.
  cbn [istep step i_objs] in *. unfold give in Hg.
  destruct (nth_error os i) as [[it|its|]|], (nth_error st i) as [[s|s u|]|]; cbn in Hl; try contradiction;
    try (inversion Hi; subst; eexists; split; [reflexivity|exact HR]).
  destruct (igive (IS h os) i) as [[[[h1 os1] it]|]|e]; destruct u as [|u]; try contradiction.
  - destruct Hg as (-> & HR1 & Hlen & Hr). inversion Hi; subst; clear Hi.
    eexists. split; [rewrite Hlen, Hlen0; reflexivity|].
    apply (RL_pres_app h h); [exact HR1|apply presL_refl; apply HR|]. constructor; [|constructor]. exact Hr.
  - subst e. inversion Hi; subst. eexists. split; [reflexivity|exact HR].
Qed.

Lemma simL_appendobj : forall fuel h os st i j, RL (IS h os) st -> sim_goalL fuel h os st (OAppendObj i j).
Proof.
  intros fuel h os st i j HR ist' ob Hi Hob.
  pose proof (RL_lookup h os st i HR) as Hl. pose proof (igive_simL h os st j HR) as Hg.
  cbn [istep step i_objs] in *. destruct (Nat.eqb i j).
  { inversion Hi; subst. eexists. split; [reflexivity|exact HR]. }
  destruct (nth_error os i) as [[it|its|]|], (nth_error st i) as [[s|s u|]|]; cbn in Hl; try contradiction;
    try (inversion Hi; subst; eexists; split; [reflexivity|exact HR]).
  destruct (igive (IS h os) j) as [[[[h1 os1] itj]|]|e], (give st j) as [[[st1 sj]|]|e']; try contradiction.
  - destruct Hg as (-> & HR1 & Hlen & Hr).
    eapply iapply_simL; [apply (tcorrL_append_obj h itj sj Hr)|exact HR1|exact Hi].
  - inversion Hi; subst. eexists. split; [reflexivity|exact HR].
  - subst e'. inversion Hi; subst. eexists. split; [reflexivity|exact HR].
Qed.

Lemma Rit_chain2 : forall h a b ia ib, Rit h a ia -> Rit h b ib -> Rit h (lappend a b) (IChain ia ib).
Proof.
  intros h a b ia ib [Wa Ha] [Wb Hb]. split; [cbn [wfI]; split; assumption|].
  cbn [absL]. eapply leq_trans; [apply lappend_leq_l; exact Ha|]. apply lappend_leq_r. exact Hb.
Qed.

Lemma Rit_chain : forall h ss its, Forall2 (Rit h) ss its -> ss <> [] -> Rit h (lchain ss) (chain_of its).
Proof.
  intros h ss its HF Hne. destruct HF as [|a ia rs ri Ha HF]; [congruence|]. clear Hne.
  unfold lchain, chain_of. revert a ia Ha. induction HF as [|b ib rs ri Hb HF IH]; intros a ia Ha; cbn [fold_left].
  - exact Ha.
  - apply IH. apply Rit_chain2; assumption.
Qed.

Lemma igather_simL : forall args h os st, RL (IS h os) st ->
  match igather (IS h os) args, gather st args with
  | inl (IS h' os', its), inl (st', ss) =>
      h' = h /\ RL (IS h os') st' /\ length os' = length os /\ Forall2 (Rit h) ss its
  | inr (ist', ob), inr (st', ob') => ob = ob' /\ RL ist' st'
  | _, _ => False
  end.
Proof.
  induction args as [|a args IH]; intros h os st HR; cbn [igather gather].
  - refine (conj eq_refl (conj HR (conj eq_refl _))). constructor.
  - destruct a as [j|l].
    + pose proof (igive_simL h os st j HR) as Hg.
      destruct (igive (IS h os) j) as [[[[h1 os1] it]|]|e], (give st j) as [[[st1 s]|]|e']; try contradiction.
      * destruct Hg as (-> & HR1 & Hlen & Hr). specialize (IH h os1 st1 HR1).
        destruct (igather (IS h os1) args) as [[[h2 os2] its]|[ist2 ob2]],
                 (gather st1 args) as [[st2 ss]|[st2 ob2']]; try contradiction.
        -- destruct IH as (-> & HR2 & Hlen2 & HF). refine (conj eq_refl (conj HR2 (conj _ _))); [congruence|].
           constructor; assumption.
        -- exact IH.
      * split; [reflexivity|exact HR].
      * subst e'. split; [reflexivity|exact HR].
    + specialize (IH h os st HR).
      destruct (igather (IS h os) args) as [[[h2 os2] its]|[ist2 ob2]],
               (gather st args) as [[st2 ss]|[st2 ob2']]; try contradiction.
      * destruct IH as (-> & HR2 & Hlen2 & HF). refine (conj eq_refl (conj HR2 (conj Hlen2 _))). constructor; [|exact HF].
        split; [exact I|apply leq_refl].
      * exact IH.
Qed.

Lemma gather_nonempty : forall st a r st' ss, gather st (a :: r) = inl (st', ss) -> ss <> [].
Proof.
  intros st a r st' ss H. cbn [gather] in H. destruct a as [j|l].
  - destruct (give st j) as [[[st1 s]|]|e]; try discriminate.
    destruct (gather st1 r) as [[st2 ss2]|e2]; inversion H; subst; discriminate.
  - destruct (gather st r) as [[st2 ss2]|e2]; inversion H; subst; discriminate.
Qed.

Lemma simL_multi : forall fuel h os st tgt args, RL (IS h os) st -> sim_goalL fuel h os st (OMulti tgt args).
Proof.
  intros fuel h os st tgt args HR ist' ob Hi Hob. pose proof (RL_length _ _ _ HR) as Hlen0.
  cbn [istep step i_objs] in *.
  destruct args as [|a [|b args]]; try (inversion Hi; subst; eexists; split; [reflexivity|exact HR]).
  pose proof (igather_simL (a :: b :: args) h os st HR) as Hg.
  destruct tgt as [i|].
  - pose proof (RL_lookup h os st i HR) as Hl.
    destruct (nth_error os i) as [[it|its|]|], (nth_error st i) as [[s|s u|]|]; cbn in Hl; try contradiction;
      try (inversion Hi; subst; eexists; split; [reflexivity|exact HR]).
    destruct (igather (IS h os) (a :: b :: args)) as [[[h1 os1] its]|[ist1 ob1]],
             (gather st (a :: b :: args)) as [[st1 ss]|[st1 ob1']] eqn:Eg; try contradiction.
    + destruct Hg as (-> & HR1 & Hlen & HF).
      assert (Hne : ss <> []) by (eapply gather_nonempty; eauto).
      eapply iapply_simL; [apply (tcorrL_append_obj h _ _ (Rit_chain h ss its HF Hne))|exact HR1|exact Hi].
    + destruct Hg as [-> HR1]. inversion Hi; subst. eexists. split; [reflexivity|exact HR1].
  - destruct (igather (IS h os) (a :: b :: args)) as [[[h1 os1] its]|[ist1 ob1]],
             (gather st (a :: b :: args)) as [[st1 ss]|[st1 ob1']] eqn:Eg; try contradiction.
    + destruct Hg as (-> & HR1 & Hlen & HF). inversion Hi; subst; clear Hi.
      assert (Hne : ss <> []) by (eapply gather_nonempty; eauto).
      eexists. split; [rewrite Hlen0; reflexivity|].
      apply (RL_pres_app h h); [exact HR1|apply presL_refl; apply HR|]. constructor; [|constructor].
      exact (Rit_chain h ss its HF Hne).
    + destruct Hg as [-> HR1]. inversion Hi; subst. eexists. split; [reflexivity|exact HR1].
Qed.

Lemma step_simL : forall fuel h os st o, RL (IS h os) st -> sim_goalL fuel h os st o.
Proof.
  intros fuel h os st o HR. destruct o as [i|i c|i c|i c|i c|i|i p|i f|i p|i n|i|i n|z n|z n|i j|m|e|tgt args].
  - apply simL_next; exact HR.
  - apply simL_take; exact HR.
  - apply simL_peek; exact HR.
  - intros ist' ob Hi _. cbn [istep step] in *. eapply iapply_simL; eauto using tcorrL_skip.
  - intros ist' ob Hi _. cbn [istep step] in *. eapply iapply_simL; eauto using tcorrL_limit.
  - apply simL_copy; exact HR.
  - intros ist' ob Hi _. cbn [istep step] in *. eapply iapply_simL; eauto using tcorrL_append.
  - intros ist' ob Hi _. cbn [istep step] in *. eapply iapply_simL; eauto using tcorrL_map.
  - intros ist' ob Hi _. cbn [istep step] in *. eapply iapply_simL; eauto using tcorrL_filter.
  - apply simL_thub; exact HR.
  - apply simL_use; exact HR.
  - apply simL_tee; exact HR.
  - intros ist' ob Hi _. cbn in *. inversion Hi; subst. eexists. split; [reflexivity|exact HR].
  - intros ist' ob Hi _. cbn in *. inversion Hi; subst. eexists. split; [reflexivity|exact HR].
  - apply simL_appendobj; exact HR.
  - intros ist' ob Hi _. cbn in *. inversion Hi; subst. eexists. split; [reflexivity|exact HR].
  - intros ist' ob Hi _. cbn in *. inversion Hi; subst. eexists. split; [reflexivity|exact HR].
  - apply simL_multi; exact HR.
Qed.

Lemma run_simL : forall fuel ops ist st, RL ist st ->
  ~ In ODiverge (irun fuel ist ops) -> irun fuel ist ops = run st ops.
Proof.
  intros fuel ops. induction ops as [|o ops IH]; intros [h os] st HR Hnd; [reflexivity|].
  cbn [irun run] in *. destruct (istep fuel (IS h os) o) as [ist' ob] eqn:E.
  assert (Hob : ob <> ODiverge) by (intros ->; apply Hnd; left; reflexivity).
  destruct (step_simL fuel h os st o HR ist' ob E Hob) as [st' [Hs HR']].
  rewrite Hs. f_equal. apply IH; auto. intros Hin. apply Hnd. right. exact Hin.
Qed.

Lemma RL_init : forall ps, RL (init ps) (map (fun p => EStream (pool_seq p)) ps).
Proof.
  intros ps. split.
  - intros c cl Hc. destruct c; discriminate.
  - cbn [init i_heap i_objs]. induction ps as [|p ps IH]; cbn [map]; constructor; [|exact IH].
    cbn. split; [apply src_iter_wf|apply src_iter_abs].
Qed.

(* Every history from any pool of finite and periodic streams: whenever the
   implementation-level run finishes every call within its fuel, every observable
   equals the list model's. *)
Theorem refines_list_model : forall fuel ps ops,
  ~ In ODiverge (irun fuel (init ps) ops) ->
  irun fuel (init ps) ops = run (map (fun p => EStream (pool_seq p)) ps) ops.
Proof. intros fuel ps ops Hnd. apply run_simL; [apply RL_init|exact Hnd]. Qed.
