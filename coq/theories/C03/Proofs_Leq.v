(* C03 - remaining sequences up to unrolling whole periods into the prefix. *)
From Coq Require Import List Bool ZArith Lia.
From AL Require Import C03.Spec C03.Proofs_Periodic.
Import ListNotations.

Definition unroll (j : nat) (s : lseq) : lseq := LS (pre s ++ reps (cyc s) j) (cyc s) (dv s).
Definition leq (s t : lseq) : Prop := exists j k, unroll j s = unroll k t.

Lemma reps_add : forall c a b, reps c (a + b) = reps c a ++ reps c b.
Proof.
  intros c a b. unfold reps. induction a as [|a IH]; cbn [Nat.add repeat concat]; [reflexivity|].
  rewrite IH, app_assoc. reflexivity.
Qed.

Lemma reps_nil : forall n, reps [] n = [].
Proof. induction n as [|n IH]; [reflexivity|]. unfold reps in *. cbn. exact IH. Qed.

Lemma unroll_0 : forall s, unroll 0 s = s.
Proof. intros [p c d]. unfold unroll. cbn. rewrite app_nil_r. reflexivity. Qed.

Lemma unroll_unroll : forall a b s, unroll a (unroll b s) = unroll (b + a) s.
Proof. intros a b [p c d]. unfold unroll. cbn [pre cyc dv]. rewrite reps_add, app_assoc. reflexivity. Qed.

Lemma leq_refl : forall s, leq s s.
Proof. intros s. exists O, O. reflexivity. Qed.

Lemma leq_sym : forall s t, leq s t -> leq t s.
Proof. intros s t [j [k H]]. exists k, j. symmetry. exact H. Qed.

Lemma leq_trans : forall s t u, leq s t -> leq t u -> leq s u.
Proof.
  intros s t u [j [k H1]] [j' [k' H2]]. exists (j + j')%nat, (k' + k)%nat.
  rewrite <- !unroll_unroll. rewrite H1, <- H2. rewrite !unroll_unroll. f_equal. lia.
Qed.

Lemma leq_unroll : forall j s, leq (unroll j s) s.
Proof. intros j s. exists O, j. apply unroll_0. Qed.

Lemma leq_cyc : forall s t, leq s t -> cyc s = cyc t /\ dv s = dv t.
Proof. intros s t [j [k H]]. unfold unroll in H. inversion H. auto. Qed.

(* results of next() up to the equivalence *)
Definition peq (a b : pull) : Prop :=
  match a, b with
  | PItem x s, PItem y t => x = y /\ leq s t
  | PStop, PStop => True
  | PDiv, PDiv => True
  | _, _ => False
  end.

Lemma peq_refl : forall a, peq a a.
Proof. intros [x s| |]; cbn; auto using leq_refl. Qed.
Lemma peq_sym : forall a b, peq a b -> peq b a.
Proof. intros [x s| |] [y t| |]; cbn; try tauto. intros [-> H]. split; [reflexivity|apply leq_sym; exact H]. Qed.
Lemma peq_trans : forall a b c, peq a b -> peq b c -> peq a c.
Proof.
  intros [x s| |] [y t| |] [z u| |]; cbn; try tauto.
  intros [-> H1] [-> H2]. split; [reflexivity|eapply leq_trans; eauto].
Qed.

Lemma lnext_unroll : forall j s, peq (lnext (unroll j s)) (lnext s).
Proof.
  intros j [p c d]. unfold unroll, lnext. cbn [pre cyc dv]. destruct p as [|x p].
  - destruct c as [|x c].
    + rewrite reps_nil. cbn. destruct d; exact I.
    + destruct j as [|j]; [cbn; split; [reflexivity|apply leq_refl]|].
      change (reps (x :: c) (S j)) with ((x :: c) ++ reps (x :: c) j). cbn [app].
      split; [reflexivity|]. apply (leq_unroll j (LS c (x :: c) d)).
  - cbn [app]. split; [reflexivity|]. apply (leq_unroll j (LS p c d)).
Qed.

Lemma lnext_leq : forall s t, leq s t -> peq (lnext s) (lnext t).
Proof.
  intros s t [j [k H]]. eapply peq_trans; [apply peq_sym; apply (lnext_unroll j)|].
  rewrite H. apply lnext_unroll.
Qed.

Lemma ltake_leq : forall n s t, leq s t ->
  fst (fst (ltake n s)) = fst (fst (ltake n t)) /\ snd (ltake n s) = snd (ltake n t) /\
  leq (snd (fst (ltake n s))) (snd (fst (ltake n t))).
Proof.
  induction n as [|n IH]; intros s t H; [cbn; auto|].
  cbn [ltake]. pose proof (lnext_leq s t H) as Hp.
  destruct (lnext s) as [x s'| |], (lnext t) as [y t'| |]; cbn in Hp; try contradiction; cbn; auto.
  destruct Hp as [-> H']. destruct (IH s' t' H') as (A & B & C).
  destruct (ltake n s') as [[l1 r1] d1], (ltake n t') as [[l2 r2] d2]. cbn in *. subst. auto.
Qed.

Lemma ldrop_leq : forall n s t, leq s t -> leq (ldrop n s) (ldrop n t).
Proof.
  intros n s t H. unfold ldrop. destruct (ltake_leq n s t H) as (A & B & C).
  destruct (ltake n s) as [[l1 r1] d1], (ltake n t) as [[l2 r2] d2]. cbn in *. subst.
  destruct d2; [apply leq_refl|exact C].
Qed.

Lemma llimit_eq : forall n s t, leq s t -> llimit n s = llimit n t.
Proof.
  intros n s t H. unfold llimit. destruct (ltake_leq n s t H) as (A & B & C).
  destruct (ltake n s) as [[l1 r1] d1], (ltake n t) as [[l2 r2] d2]. cbn in *. subst. reflexivity.
Qed.

Lemma lmap_unroll : forall f j s, lmap f (unroll j s) = unroll j (lmap f s).
Proof.
  intros f j [p c d]. unfold lmap, unroll. cbn [pre cyc dv]. f_equal. rewrite map_app. f_equal.
  unfold reps. induction j as [|j IH]; cbn [repeat concat map]; [reflexivity|]. rewrite map_app, IH. reflexivity.
Qed.

Lemma filter_reps : forall (p : Z -> bool) c j, filter p (reps c j) = reps (filter p c) j.
Proof.
  intros p c j. unfold reps. induction j as [|j IH]; cbn [repeat concat filter]; [reflexivity|].
  rewrite filter_app, IH. reflexivity.
Qed.

Lemma lfilter_unroll : forall p j s, lfilter p (unroll j s) = unroll j (lfilter p s).
Proof.
  intros p j [q c d]. unfold lfilter, unroll. cbn [pre cyc dv]. f_equal.
  rewrite filter_app, filter_reps. reflexivity.
Qed.

Lemma op_leq : forall (f : lseq -> lseq), (forall j s, f (unroll j s) = unroll j (f s)) ->
  forall s t, leq s t -> leq (f s) (f t).
Proof.
  intros f Hf s t [j [k H]]. exists j, k. rewrite <- !Hf, H. reflexivity.
Qed.

Lemma lmap_leq : forall f s t, leq s t -> leq (lmap f s) (lmap f t).
Proof. intros f. apply op_leq. apply lmap_unroll. Qed.

Lemma lfilter_leq : forall p s t, leq s t -> leq (lfilter p s) (lfilter p t).
Proof. intros p. apply op_leq. apply lfilter_unroll. Qed.

Lemma lappend_leq_l : forall s t u, leq s t -> leq (lappend s u) (lappend t u).
Proof.
  intros s t u H. destruct (leq_cyc s t H) as [Hc Hd]. unfold lappend. rewrite <- Hc, <- Hd.
  destruct (cyc s) eqn:Ec; [|exact H]. destruct (dv s); [exact H|].
  destruct H as [j [k H]]. unfold unroll in H. rewrite <- Hc, Ec, !reps_nil, !app_nil_r in H.
  inversion H. apply leq_refl.
Qed.

Lemma lappend_leq_r : forall s t u, leq t u -> leq (lappend s t) (lappend s u).
Proof.
  intros s t u [j [k H]]. unfold lappend. destruct (cyc s); [|apply leq_refl]. destruct (dv s); [apply leq_refl|].
  exists j, k. unfold unroll in *. cbn [pre cyc dv]. inversion H as [[H1 H2 H3]].
  rewrite <- !app_assoc, H1, H2, H3. reflexivity.
Qed.
