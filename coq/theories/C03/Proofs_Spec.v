(* C03 - the user-visible claims proved on the list model. *)
From Coq Require Import List Bool ZArith String Lia.
From AL Require Import C03.Spec C03.Proofs_Abs C03.Proofs_Fin C03.Proofs_Step.
Import ListNotations.

Lemma nth_error_set_nth_other : forall {A} (l : list A) i j x, i <> j ->
  nth_error (set_nth i x l) j = nth_error l j.
Proof. intros. apply nth_error_set_nth_ne. assumption. Qed.

Lemma nth_error_app_old : forall {A} (l r : list A) j, (j < List.length l)%nat ->
  nth_error (l ++ r) j = nth_error l j.
Proof. intros. apply nth_error_app1. assumption. Qed.

Ltac frame_tac :=
  repeat match goal with
  | |- context [nth_error (_ ++ _) _] => rewrite nth_error_app_old by (rewrite ?set_nth_length; assumption)
  | |- context [nth_error (set_nth _ _ _) _] => rewrite nth_error_set_nth_other by congruence
  end; try reflexivity.

Lemma apply_t_frame : forall st i t j, (j < List.length st)%nat -> i <> j ->
  nth_error (fst (apply_t st i t)) j = nth_error st j.
Proof.
  intros st i t j Hj Hne. unfold apply_t.
  destruct (nth_error st i) as [[s|s [|u]|]|]; cbn [fst]; try reflexivity.
  - destruct (t s); cbn [fst]; frame_tac.
  - destruct (t s); cbn [fst]; frame_tac.
Qed.

Lemma give_frame : forall st i st' s j, give st i = inl (Some (st', s)) -> i <> j ->
  nth_error st' j = nth_error st j /\ List.length st' = List.length st.
Proof.
  intros st i st' s j Hg Hne. unfold give in Hg.
  destruct (nth_error st i) as [[s0|s0 [|u]|]|]; inversion Hg; subst;
    (split; [frame_tac|apply set_nth_length]).
Qed.

Definition gstate (r : (state * list lseq) + (state * obs)) : state :=
  match r with inl (s, _) => s | inr (s, _) => s end.

Lemma gather_frame : forall args st, List.length (gstate (gather st args)) = List.length st /\
  forall j, ~ In j (flat_map marg_obj args) -> nth_error (gstate (gather st args)) j = nth_error st j.
Proof.
  induction args as [|a args IH]; intros st; cbn [gather]; [cbn; auto|].
  destruct a as [k|l].
  - destruct (give st k) as [[[st1 s]|]|e] eqn:Eg; try (cbn; auto).
    destruct (IH st1) as [L F]. destruct (give_frame _ _ _ _ (S k) Eg (n_Sn k)) as [_ L1].
    assert (G : gstate (match gather st1 args with inl (st', ss) => inl (st', s :: ss) | inr e => inr e end)
                = gstate (gather st1 args)) by (destruct (gather st1 args) as [[? ?]|[? ?]]; reflexivity).
    rewrite G. split; [congruence|]. intros j Hj. cbn [flat_map marg_obj app] in Hj.
    rewrite F by (intros Hin; apply Hj; right; exact Hin).
    assert (Hk : k <> j) by (intros ->; apply Hj; left; reflexivity).
    apply (give_frame _ _ _ _ j Eg Hk).
  - destruct (IH st) as [L F].
    assert (G : gstate (match gather st args with inl (st', ss) => inl (st', fin l :: ss) | inr e => inr e end)
                = gstate (gather st args)) by (destruct (gather st args) as [[? ?]|[? ?]]; reflexivity).
    rewrite G. split; [exact L|]. intros j Hj. apply F. exact Hj.
Qed.

Lemma gather_fresh : forall args, flat_map marg_obj args = [] ->
  exists ss, forall st, gather st args = inl (st, ss).
Proof.
  induction args as [|a args IH]; intros H; [exists []; reflexivity|].
  destruct a as [k|l]; [discriminate|]. cbn [flat_map marg_obj app] in H.
  destruct (IH H) as [ss Hs]. exists (fin l :: ss). intros st. cbn [gather]. rewrite Hs. reflexivity.
Qed.

(* an operation on one object leaves every other existing object as it was *)
Theorem step_frame : forall st o j, (j < List.length st)%nat -> target o <> Some j -> ~ In j (uses o) ->
  nth_error (fst (step st o)) j = nth_error st j.
Proof.
  intros st o j Hj Ht Harg.
  destruct o as [i|i c|i c|i c|i c|i|i p|i f|i p|i n|i|i n|z n|z n|i k|m|e|tgt args]; cbn [target uses] in Ht, Harg;
    try (assert (Hne : i <> j) by congruence); cbn [step].
  - destruct (nth_error st i) as [[s|s u|]|]; try reflexivity. unfold do_take.
    destruct (nth_error st i) as [[s1|s1 u1|]|]; try reflexivity.
    destruct (take_seq CNone s1). cbn [fst]. frame_tac.
  - unfold do_take. destruct (nth_error st i) as [[s1|s1 u1|]|]; try reflexivity.
    destruct (take_seq c s1). cbn [fst]. frame_tac.
  - destruct (nth_error st i) as [[s|s [|u]|]|]; reflexivity.
  - apply apply_t_frame; assumption.
  - apply apply_t_frame; assumption.
  - destruct (nth_error st i) as [[s|s [|u]|]|]; cbn [fst]; frame_tac.
  - apply apply_t_frame; assumption.
  - apply apply_t_frame; assumption.
  - apply apply_t_frame; assumption.
  - destruct (give st i) as [[[st' s]|]|e] eqn:Eg; try reflexivity. cbn [fst].
    destruct (give_frame _ _ _ _ j Eg Hne) as [A B]. rewrite nth_error_app_old by lia. exact A.
  - destruct (nth_error st i) as [[s|s [|u]|]|]; cbn [fst]; frame_tac.
  - destruct n as [|n].
    + destruct (nth_error st i) as [[s|s u|]|]; reflexivity.
    + destruct (give st i) as [[[st' s]|]|e] eqn:Eg; try reflexivity. cbn [fst].
      destruct (give_frame _ _ _ _ j Eg Hne) as [A B]. rewrite nth_error_app_old by lia. exact A.
  - reflexivity.
  - reflexivity.
  - destruct (Nat.eqb i k); [reflexivity|].
    destruct (nth_error st i) as [[s|s u|]|]; try reflexivity.
    destruct (give st k) as [[[st' s']|]|e] eqn:Eg; try reflexivity.
    assert (Hk : k <> j) by (intros ->; apply Harg; left; reflexivity).
    destruct (give_frame _ _ _ _ j Eg Hk) as [A B].
    rewrite apply_t_frame; [exact A|lia|exact Hne].
  - reflexivity.
  - reflexivity.
  - destruct args as [|a [|b args]]; try reflexivity.
    destruct (gather_frame (a :: b :: args) st) as [L F]. specialize (F j Harg).
    destruct tgt as [i|].
    + assert (Hne : i <> j) by congruence.
      destruct (nth_error st i) as [[s|s u|]|]; try reflexivity.
      destruct (gather st (a :: b :: args)) as [[st' ss]|[st' ob]]; cbn [gstate] in L, F; cbn [fst].
      * rewrite apply_t_frame; [exact F|lia|exact Hne].
      * exact F.
    + destruct (gather st (a :: b :: args)) as [[st' ss]|[st' ob]]; cbn [gstate] in L, F; cbn [fst].
      * rewrite nth_error_app_old by lia. exact F.
      * exact F.
Qed.

Lemma apply_t_length : forall st i t, (List.length st <= List.length (fst (apply_t st i t)))%nat.
Proof.
  intros st i t. unfold apply_t.
  destruct (nth_error st i) as [[s|s [|u]|]|]; cbn [fst]; try lia;
    destruct (t s); cbn [fst]; rewrite ?app_length, ?set_nth_length; lia.
Qed.

Lemma give_length : forall st i st' s, give st i = inl (Some (st', s)) -> List.length st' = List.length st.
Proof.
  intros st i st' s Hg. unfold give in Hg.
  destruct (nth_error st i) as [[s0|s0 [|u]|]|]; inversion Hg; subst; apply set_nth_length.
Qed.

Lemma step_length : forall st o, (List.length st <= List.length (fst (step st o)))%nat.
Proof.
  intros st o.
  destruct o as [i|i c|i c|i c|i c|i|i p|i f|i p|i n|i|i n|z n|z n|i k|m|e|tgt args]; cbn [step];
    try apply apply_t_length; try (cbn; lia).
  - destruct (nth_error st i) as [[s|s u|]|]; try (cbn; lia). unfold do_take.
    destruct (nth_error st i) as [[s1|s1 u1|]|]; try (cbn; lia).
    destruct (take_seq CNone s1). cbn [fst]. rewrite set_nth_length. lia.
  - unfold do_take. destruct (nth_error st i) as [[s1|s1 u1|]|]; try (cbn; lia).
    destruct (take_seq c s1). cbn [fst]. rewrite set_nth_length. lia.
  - destruct (nth_error st i) as [[s|s [|u]|]|]; cbn; lia.
  - destruct (nth_error st i) as [[s|s [|u]|]|]; cbn [fst]; rewrite ?app_length; lia.
  - destruct (give st i) as [[[st' s]|]|e] eqn:Eg; cbn [fst]; try lia.
    rewrite app_length, (give_length _ _ _ _ Eg). lia.
  - destruct (nth_error st i) as [[s|s [|u]|]|]; cbn [fst]; rewrite ?app_length, ?set_nth_length; lia.
  - destruct n as [|n].
    + destruct (nth_error st i) as [[s|s u|]|]; cbn; lia.
    + destruct (give st i) as [[[st' s]|]|e] eqn:Eg; cbn [fst]; try lia.
      rewrite app_length, (give_length _ _ _ _ Eg). lia.
  - destruct (Nat.eqb i k); [cbn; lia|].
    destruct (nth_error st i) as [[s|s u|]|]; try (cbn; lia).
    destruct (give st k) as [[[st' s']|]|e] eqn:Eg; try (cbn; lia).
    rewrite <- (give_length _ _ _ _ Eg). apply apply_t_length.
  - destruct args as [|a [|b args]]; try (cbn; lia).
    destruct (gather_frame (a :: b :: args) st) as [L _].
    destruct tgt as [i|].
    + destruct (nth_error st i) as [[s|s u|]|]; try (cbn; lia).
      destruct (gather st (a :: b :: args)) as [[st' ss]|[st' ob]]; cbn [gstate] in L; cbn [fst]; [|lia].
      rewrite <- L. apply apply_t_length.
    + destruct (gather st (a :: b :: args)) as [[st' ss]|[st' ob]]; cbn [gstate] in L; cbn [fst];
        rewrite ?app_length; lia.
Qed.

(* Whatever is done, in any order and number, to the OTHER objects (the stream
   it was copied from, sibling copies, tee outputs, hub uses ...), an object
   keeps exactly its remaining sequence (and a hub its number of uses). *)
Theorem copies_independent : forall ops st j e,
  nth_error st j = Some e -> Forall (fun o => target o <> Some j /\ ~ In j (uses o)) ops ->
  nth_error (final st ops) j = Some e.
Proof.
  induction ops as [|o ops IH]; intros st j e Hj Hf; [exact Hj|].
  inversion Hf as [|? ? [Ho Ha] Hr]; subst. cbn [final]. apply IH; [|exact Hr].
  rewrite step_frame; [exact Hj| |exact Ho|exact Ha]. apply nth_error_Some. congruence.
Qed.

(* copy(): the origin is unchanged and the new object has the same remaining sequence *)
Theorem copy_same_sequence : forall st i s, nth_error st i = Some (EStream s) ->
  step st (OCopy i) = (st ++ [EStream s], ONew (List.length st)).
Proof. intros st i s H. cbn [step]. rewrite H. reflexivity. Qed.

(* the observation of an operation depends only on the object it is applied to
   (and on how many objects exist, for the id of a new one) *)
Theorem step_local : forall st1 st2 o i, target o = Some i -> uses o = [] ->
  nth_error st1 i = nth_error st2 i -> List.length st1 = List.length st2 ->
  snd (step st1 o) = snd (step st2 o).
Proof.
  intros st1 st2 o i Ht Harg Hn Hl.
  destruct o as [k|k c|k c|k c|k c|k|k p|k f|k p|k n|k|k n|z n|z n|k k2|m|e|tgt args]; cbn [target uses] in Ht, Harg;
    try discriminate Harg; inversion Ht; subst; cbn [step]; unfold do_take, apply_t, give; rewrite <- ?Hn, ?Hl.
  - destruct (nth_error st1 i) as [[s|s u|]|]; try reflexivity. destruct (take_seq CNone s); reflexivity.
  - destruct (nth_error st1 i) as [[s|s u|]|]; try reflexivity. destruct (take_seq c s); reflexivity.
  - destruct (nth_error st1 i) as [[s|s [|u]|]|]; reflexivity.
  - destruct (nth_error st1 i) as [[s|s [|u]|]|]; try reflexivity; destruct (skip_t c s); reflexivity.
  - destruct (nth_error st1 i) as [[s|s [|u]|]|]; try reflexivity; destruct (limit_t c s); reflexivity.
  - destruct (nth_error st1 i) as [[s|s [|u]|]|]; reflexivity.
  - destruct (nth_error st1 i) as [[s|s [|u]|]|]; reflexivity.
  - destruct (nth_error st1 i) as [[s|s [|u]|]|]; reflexivity.
  - destruct (nth_error st1 i) as [[s|s [|u]|]|]; reflexivity.
  - destruct (nth_error st1 i) as [[s|s [|u]|]|]; reflexivity.
  - destruct (nth_error st1 i) as [[s|s [|u]|]|]; reflexivity.
  - destruct n as [|n]; rewrite <- ?Hn, ?Hl; destruct (nth_error st1 i) as [[s|s [|u]|]|]; reflexivity.
  - destruct args as [|a [|b args]]; try reflexivity.
    destruct (gather_fresh _ Harg) as [ss Hs]. rewrite !Hs.
    destruct (nth_error st1 i) as [[s|s [|u]|]|]; rewrite <- ?Hn; reflexivity.
Qed.

(* peek: nothing is removed, from no object *)
Theorem peek_removes_nothing : forall st i c, fst (step st (OPeek i c)) = st.
Proof. intros st i c. cbn [step]. destruct (nth_error st i) as [[s|s [|u]|]|]; reflexivity. Qed.

Theorem peek_sees_what_take_returns : forall st i c s, nth_error st i = Some (EStream s) ->
  snd (step st (OPeek i c)) = snd (step st (OTake i c)).
Proof.
  intros st i c s H. cbn [step]. unfold do_take. rewrite H. destruct (take_seq c s). reflexivity.
Qed.

Open Scope Z_scope.

(* rint of a positive float n/d: the nearest integer, halves go up *)
Lemma take_count_float : forall n d, 0 < n ->
  exists k, take_count (CFlt n d) = TN (Z.to_nat k) /\ 0 <= k /\
            2 * n - Zpos d < 2 * Zpos d * k <= 2 * n + Zpos d.
Proof.
  intros n d Hn. exists ((2 * n + Zpos d) / (2 * Zpos d)). cbn [take_count].
  destruct (0 <? n) eqn:E; [|apply Z.ltb_ge in E; lia]. split; [reflexivity|].
  assert (Hd : 0 < 2 * Zpos d) by lia.
  pose proof (Z.div_mod (2 * n + Zpos d) (2 * Zpos d) ltac:(lia)) as Hdm.
  pose proof (Z.mod_pos_bound (2 * n + Zpos d) (2 * Zpos d) Hd) as Hb.
  split; [apply Z.div_pos; lia|]. lia.
Qed.

Theorem take_spec : forall l : list Z,
  (* negative, zero, -inf, nan, non-positive float: nothing, nothing removed *)
  (forall c s, (exists z, c = CInt z /\ z <= 0) \/ c = CNegInf \/ c = CNan \/
               (exists n d, c = CFlt n d /\ n <= 0) -> take_seq c s = (OItems [], s)) /\
  (* integer count: the first n remaining items; fewer, WITHOUT error, when fewer remain *)
  (forall z, 0 <= z -> take_seq (CInt z) (fin l) =
                       (OItems (firstn (Z.to_nat z) l), fin (skipn (Z.to_nat z) l))) /\
  (forall z, Z.of_nat (List.length l) <= z -> take_seq (CInt z) (fin l) = (OItems l, fin [])) /\
  (* positive float: as the integer count rint(n) *)
  (forall n d, 0 < n -> exists k, 0 <= k /\ 2 * n - Zpos d < 2 * Zpos d * k <= 2 * n + Zpos d /\
                                  take_seq (CFlt n d) (fin l) = take_seq (CInt k) (fin l)) /\
  (* inf: everything *)
  take_seq CInf (fin l) = (OItems l, fin []) /\
  (* None: the next item, outside a container, or StopIteration *)
  (forall x, take_seq CNone (fin (x :: l)) = (OItem x, fin l)) /\
  take_seq CNone (fin []) = (ORaise "StopIteration", fin []).
Proof.
  intros l. repeat split.
  - intros c s H. unfold take_seq.
    assert (Hc : take_count c = TN O).
    { destruct H as [[z [-> Hz]]|[->|[->|[n [d [-> Hn]]]]]]; cbn [take_count]; try reflexivity.
      - rewrite Z.max_r by lia. reflexivity.
      - destruct (0 <? n) eqn:E; [apply Z.ltb_lt in E; lia|reflexivity]. }
    rewrite Hc. reflexivity.
  - intros z Hz. rewrite take_seq_fin. cbn [take_count]. rewrite Z.max_l by lia. reflexivity.
  - intros z Hz. rewrite take_seq_fin. cbn [take_count]. rewrite Z.max_l by lia.
    rewrite firstn_all2, skipn_all2 by lia. reflexivity.
  - intros n d Hn. destruct (take_count_float n d Hn) as [k [Hk [Hk0 Hb]]].
    exists k. split; [exact Hk0|split; [exact Hb|]]. rewrite !take_seq_fin, Hk. cbn [take_count].
    rewrite Z.max_l by lia. reflexivity.
Qed.

(* int(round(n/d)): the nearest integer, halves go to the even neighbour *)
Lemma round_half_even_spec : forall n d, let k := round_half_even n d in
  2 * n - Zpos d <= 2 * Zpos d * k <= 2 * n + Zpos d /\
  (2 * Zpos d * k = 2 * n - Zpos d \/ 2 * Zpos d * k = 2 * n + Zpos d -> Z.even k = true).
Proof.
  intros n d. unfold round_half_even.
  pose proof (Z.div_mod n (Zpos d) ltac:(lia)) as Hdm.
  pose proof (Z.mod_pos_bound n (Zpos d) ltac:(lia)) as Hb.
  set (q := n / Zpos d) in *. set (m := n mod Zpos d) in *.
  assert (Hr : n - q * Zpos d = m) by lia. rewrite Hr.
  destruct (2 * m ?= Zpos d) eqn:E.
  - apply Z.compare_eq in E. destruct (Z.even q) eqn:Ev.
    + split; [lia|]. intros _. exact Ev.
    + split; [lia|]. intros _. rewrite Z.even_add, Ev. reflexivity.
  - rewrite Z.compare_lt_iff in E. split; [lia|]. intros [H|H]; lia.
  - rewrite Z.compare_gt_iff in E. split; [lia|]. intros [H|H]; lia.
Qed.

Theorem skip_limit_spec : forall (l : list Z) c z, round_count c = inl z ->
  (* the count really is the rounded argument *)
  match c with
  | CInt z' => z = z'
  | CFlt n d => 2 * n - Zpos d <= 2 * Zpos d * z <= 2 * n + Zpos d /\
                (2 * Zpos d * z = 2 * n - Zpos d \/ 2 * Zpos d * z = 2 * n + Zpos d -> Z.even z = true)
  | _ => False
  end /\
  (* skip drops that prefix (everything when it is longer than what remains, nothing when negative) *)
  skip_t c (fin l) = TOk (fin (skipn (Z.to_nat z) l)) /\
  (* limit keeps that prefix, i.e. drops the rest *)
  limit_t c (fin l) = TOk (fin (firstn (Z.to_nat z) l)).
Proof.
  intros l c z Hc. unfold skip_t, limit_t. rewrite Hc, ldrop_fin, llimit_fin.
  split; [|split; reflexivity].
  destruct c as [|z'|n d| | |]; cbn [round_count] in Hc; try discriminate; inversion Hc; subst.
  - reflexivity.
  - apply round_half_even_spec.
Qed.

Lemma set_nth_twice_app : forall {A} (l : list A) h a b c, (h < List.length l)%nat ->
  set_nth h a (set_nth h b l ++ c) = set_nth h a l ++ c.
Proof.
  intros A l. induction l as [|e l IH]; intros h a b c Hlt; cbn in Hlt; [lia|].
  destruct h; cbn; [reflexivity|]. f_equal. apply IH. lia.
Qed.

(* thub: exactly n uses, then IndexError; each use sees the whole remaining sequence *)
Theorem thub_exactly_n_uses : forall n st h s, nth_error st h = Some (EHub s n) ->
  run st (repeat (OUse h) n ++ [OUse h]) =
  map ONew (seq (List.length st) n) ++ [ORaise "IndexError"] /\
  final st (repeat (OUse h) n) = set_nth h (EHub s O) st ++ repeat (EStream s) n.
Proof.
  induction n as [|n IH]; intros st h s Hh.
  - cbn [repeat app run step seq map final]. rewrite Hh. split; [reflexivity|].
    rewrite app_nil_r. symmetry. apply set_nth_same. exact Hh.
  - cbn [repeat app run step seq map final fst]. rewrite Hh. cbn [fst].
    assert (Hlt : (h < List.length st)%nat) by (apply nth_error_Some; congruence).
    assert (Hh' : nth_error (set_nth h (EHub s n) st ++ [EStream s]) h = Some (EHub s n)).
    { rewrite nth_error_app1 by (rewrite set_nth_length; exact Hlt). apply nth_error_set_nth_eq. exact Hlt. }
    destruct (IH _ _ _ Hh') as [A B]. rewrite A, B. rewrite app_length, set_nth_length. cbn [List.length].
    rewrite Nat.add_1_r. split; [reflexivity|].
    rewrite set_nth_twice_app by exact Hlt. rewrite <- app_assoc. reflexivity.
Qed.

(* thub(stream, n): a hub over the whole remaining sequence with n uses *)
Theorem thub_creates_hub : forall st i s n, nth_error st i = Some (EStream s) ->
  step st (OThub i n) = (set_nth i EDead st ++ [EHub s n], ONew (List.length st)).
Proof. intros st i s n H. cbn [step]. unfold give. rewrite H. reflexivity. Qed.

(* peek and copy on a hub consume no use; hub.take raises AttributeError *)
Theorem hub_peek_copy_consume_no_use : forall st h s u c, nth_error st h = Some (EHub s u) ->
  nth_error (fst (step st (OPeek h c))) h = Some (EHub s u) /\
  nth_error (fst (step st (OCopy h))) h = Some (EHub s u) /\
  step st (OTake h c) = (st, ORaise "AttributeError").
Proof.
  intros st h s u c H. assert (Hlt : (h < List.length st)%nat) by (apply nth_error_Some; congruence).
  split; [rewrite peek_removes_nothing; exact H|]. split.
  - cbn [step]. rewrite H. destruct u; cbn [fst]; [exact H|]. rewrite nth_error_app1 by exact Hlt. exact H.
  - cbn [step]. unfold do_take. rewrite H. reflexivity.
Qed.

Theorem thub_noniterable_is_identity : forall st z n, step st (OThubVal z n) = (st, OItem z).
Proof. reflexivity. Qed.

Theorem tee_noniterable_repeats : forall st z n, step st (OTeeVal z n) = (st, OItems (repeat z n)).
Proof. reflexivity. Qed.

(* s.append(hub): the hub is charged one use at the time of the append (like
   Stream(hub)); without a use left it is an IndexError and nothing changes *)
Theorem append_hub_charges_use : forall st i j si s u, i <> j ->
  nth_error st i = Some (EStream si) -> nth_error st j = Some (EHub s u) ->
  step st (OAppendObj i j) =
  match u with
  | S u' => (set_nth i (EStream (lappend si s)) (set_nth j (EHub s u') st), OSelf)
  | O => (st, ORaise "IndexError")
  end.
Proof.
  intros st i j si s u Hne Hi Hj. cbn [step]. apply Nat.eqb_neq in Hne. rewrite Hne, Hi.
  unfold give. rewrite Hj. destruct u as [|u']; [reflexivity|].
  unfold apply_t. apply Nat.eqb_neq in Hne.
  rewrite nth_error_set_nth_ne by congruence. rewrite Hi. reflexivity.
Qed.

(* the container returned by take / peek is a fresh value: whatever the caller does to it changes no object *)
Theorem mutating_a_result_changes_nothing : forall st m, step st (OMutateResult m) = (st, OSelf).
Proof. reflexivity. Qed.

(* a refused call (TypeError / ValueError ...) leaves every object exactly as it was *)
Theorem refused_call_changes_nothing : forall st e, step st (ORefused e) = (st, ORaise e).
Proof. reflexivity. Qed.

(* Stream(hub, list): the hub is charged exactly one use at construction; without a use left
   the call raises IndexError and nothing changes *)
Theorem multi_hub_charged_at_construction : forall st j s u l, nth_error st j = Some (EHub s u) ->
  step st (OMulti None [MObj j; MFresh l]) =
  match u with
  | S u' => (set_nth j (EHub s u') st ++ [EStream (lappend s (fin l))], ONew (List.length st))
  | O => (st, ORaise "IndexError")
  end.
Proof.
  intros st j s u l H. cbn [step gather]. unfold give. rewrite H. destruct u as [|u']; reflexivity.
Qed.

(* s.filter(None) (the documented special value of the built-in filter): keeps exactly the truthy
   items, in order; nothing else changes; the stream stays usable (no error at the first pull) *)
Theorem filter_none_keeps_truthy : forall st i l, nth_error st i = Some (EStream (fin l)) ->
  step st (OFilter i PTruthy) =
  (set_nth i (EStream (fin (filter (fun x => negb (x =? 0)%Z) l))) st, OSelf).
Proof. intros st i l H. cbn [step]. unfold apply_t. rewrite H. reflexivity. Qed.
