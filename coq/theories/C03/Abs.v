(* C03 - abstraction of the implementation-level heap to remaining sequences
   (finite sources), and the well-formedness invariant.  Definitions only. *)
From Coq Require Import List Bool ZArith String Lia.
From AL Require Import C03.Spec C03.Model.
Import ListNotations.
Open Scope Z_scope.

(* what an iterator will still yield, given the value (buffered items followed
   by what the wrapped iterator will yield) of every buffer cell *)
Fixpoint absI (vals : list (list Z)) (it : iter) : list Z :=
  match it with
  | IList l => l
  | ICycle _ _ | IRepeat _ => []            (* endless sources: excluded by [finI] *)
  | IMap f s => map (ef f) (absI vals s)
  | IFilter p s => filter (ep p) (absI vals s)
  | IChain a b => absI vals a ++ absI vals b
  | IChainB b => absI vals b
  | ISkip s n => skipn n (absI vals s)
  | IDone => []
  | ILimit s n => firstn n (absI vals s)
  | ITee c idx => skipn idx (nth c vals [])
  end.

Definition cell_val (vals : list (list Z)) (oc : option cell) : list Z :=
  match oc with
  | Some c => c_items c ++ absI vals (c_src c)
  | None => []
  end.

(* values of the first n cells, oldest first: a cell only refers to older ones *)
Fixpoint vals_upto (h : heap) (n : nat) : list (list Z) :=
  match n with
  | O => []
  | S m => let v := vals_upto h m in v ++ [cell_val v (nth_error h m)]
  end.
Definition heap_vals (h : heap) : list (list Z) := vals_upto h (List.length h).

(* no endless source inside *)
Fixpoint finI (it : iter) : Prop :=
  match it with
  | ICycle _ _ | IRepeat _ => False
  | IList _ | IDone | ITee _ _ => True
  | IMap _ s | IFilter _ s | IChainB s | ISkip s _ | ILimit s _ => finI s
  | IChain a b => finI a /\ finI b
  end.

(* every tee branch inside points to a cell older than [b], at a position
   inside the buffered items *)
Fixpoint wfI (h : heap) (b : nat) (it : iter) : Prop :=
  match it with
  | IList _ | ICycle _ _ | IRepeat _ | IDone => True
  | IMap _ s | IFilter _ s | IChainB s | ISkip s _ | ILimit s _ => wfI h b s
  | IChain a c => wfI h b a /\ wfI h b c
  | ITee c idx => (c < b)%nat /\
                  exists cl, nth_error h c = Some cl /\ (idx <= List.length (c_items cl))%nat
  end.

Definition wfH (h : heap) : Prop :=
  forall c cl, nth_error h c = Some cl -> wfI h c (c_src cl) /\ finI (c_src cl).

Definition okI (h : heap) (it : iter) : Prop := wfI h (List.length h) it /\ finI it.
