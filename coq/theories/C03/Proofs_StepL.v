(* C03 - each operation of a history is simulated by the list model (periodic sources included). *)
From Coq Require Import List Bool ZArith Lia.
From AL Require Import C03.Spec C03.Model C03.Abs C03.AbsL C03.Proofs_Abs C03.Proofs_Leq C03.Proofs_Leq2
  C03.Proofs_AbsL C03.Proofs_PullL C03.Proofs_TakeL C03.Proofs_Step C03.Proofs_SimL.
Import ListNotations.

Lemma itake_simL : forall fuel h os st i c ist' ob, RL (IS h os) st ->
  itake fuel (IS h os) i c = (ist', ob) -> ob <> ODiverge ->
  exists st', do_take st i c = (st', ob) /\ RL ist' st'.
Proof.
  intros fuel h os st i c ist' ob HR Hi Hob. pose proof (RL_lookup h os st i HR) as Hl.
  assert (Hh : wfHL h) by apply HR.
  unfold itake in Hi. unfold do_take.
  destruct (nth_error os i) as [[it|its|]|], (nth_error st i) as [[s|s u|]|]; cbn in Hl; try contradiction.
  - destruct Hl as [Hw Ha].
    destruct (take_iter fuel c h it) as [[h1 it1] ob1] eqn:E. inversion Hi; subst; clear Hi.
    destruct (take_iter_soundL _ _ _ _ _ _ _ _ s Hh (le_n _) Hw E Hob Ha) as (S1 & Q1 & Q2 & Q3).
    destruct (take_seq c s) as [ob' s'] eqn:Et. cbn in Q2, Q3. subst ob'.
    eexists. split; [reflexivity|].
    apply (RL_pres_set h h1); [exact HR|eapply stableL_presL; exact S1|].
    cbn. destruct S1 as (L1 & _). split; [rewrite L1; exact Q1|exact Q3].
  - inversion Hi; subst. eexists. split; [reflexivity|exact HR].
  - inversion Hi; subst. eexists. split; [reflexivity|exact HR].
  - inversion Hi; subst. eexists. split; [reflexivity|exact HR].
Qed.

Definition tcorrL (h : heap) (ti : iter -> ires) (ts : lseq -> tres) : Prop :=
  forall it s, wfHL h -> Rit h s it ->
  match ti it, ts s with
  | IOk it', TOk s' => Rit h s' it'
  | IDead, TDead => True
  | IErr e, TErr e' => e = e'
  | _, _ => False
  end.

Lemma iapply_simL : forall ti ts h os st i ist' ob, tcorrL h ti ts -> RL (IS h os) st ->
  iapply (IS h os) i ti = (ist', ob) ->
  exists st', apply_t st i ts = (st', ob) /\ RL ist' st'.
Proof.
  intros ti ts h os st i ist' ob Ht HR Hi. pose proof (RL_lookup h os st i HR) as Hl.
  assert (Hh : wfHL h) by apply HR. pose proof (RL_length _ _ _ HR) as Hlen.
  unfold iapply in Hi. unfold apply_t.
  destruct (nth_error os i) as [[it|its|]|], (nth_error st i) as [[s|s u|]|]; cbn in Hl; try contradiction.
  - specialize (Ht it s Hh Hl).
    destruct (ti it) as [it'| |e], (ts s) as [s'| |e']; try contradiction; inversion Hi; subst; clear Hi.
    + eexists. split; [reflexivity|].
      apply (RL_pres_set h h); [exact HR|apply presL_refl; exact Hh|]. exact Ht.
    + eexists. split; [reflexivity|].
      apply (RL_pres_set h h); [exact HR|apply presL_refl; exact Hh|]. exact I.
    + eexists. split; [reflexivity|exact HR].
  - destruct Hl as [-> HF]. destruct (pop_last its) as [[its' it]|] eqn:Ep.
    + apply pop_last_some in Ep. subst its. rewrite app_length. cbn [length]. rewrite Nat.add_1_r.
      apply Forall_app in HF. destruct HF as [HF' Hit]. inversion Hit as [|? ? Hr _]; subst.
      specialize (Ht it s Hh Hr).
      assert (HR' : RL (IS h (set_nth i (XHub its') os)) (set_nth i (EHub s (length its')) st)).
      { apply (RL_pres_set h h); [exact HR|apply presL_refl; exact Hh|]. cbn. auto. }
      destruct (ti it) as [it'| |e], (ts s) as [s'| |e']; try contradiction; inversion Hi; subst; clear Hi.
      * rewrite Hlen. eexists. split; [reflexivity|].
        apply (RL_pres_app h h); [exact HR'|apply presL_refl; exact Hh|].
        constructor; [|constructor]. exact Ht.
      * rewrite Hlen. eexists. split; [reflexivity|].
        apply (RL_pres_app h h); [exact HR'|apply presL_refl; exact Hh|].
        constructor; [|constructor]. exact I.
      * eexists. split; [reflexivity|exact HR'].
    + apply pop_last_none in Ep. subst its. inversion Hi; subst. cbn [length].
      eexists. split; [reflexivity|exact HR].
  - inversion Hi; subst. eexists. split; [reflexivity|exact HR].
  - inversion Hi; subst. eexists. split; [reflexivity|exact HR].
Qed.

Lemma tcorrL_skip : forall c h, tcorrL h (skip_i c) (skip_t c).
Proof.
  intros c h it s Hh [Hw Ha]. unfold skip_i, skip_t. destruct (round_count c) as [z|e]; [|exact I].
  split; [exact Hw|]. cbn [absL]. apply ldrop_leq. exact Ha.
Qed.

Lemma tcorrL_limit : forall c h, tcorrL h (limit_i c) (limit_t c).
Proof.
  intros c h it s Hh [Hw Ha]. unfold limit_i, limit_t. destruct (round_count c) as [z|e]; [|reflexivity].
  split; [exact Hw|]. cbn [absL]. rewrite (llimit_eq _ _ _ Ha). apply leq_refl.
Qed.

Lemma src_iter_abs : forall vals p, leq (absL vals (src_iter p)) (pool_seq p).
Proof.
  intros vals [l|l]; cbn [src_iter pool_seq]; [apply leq_refl|].
  destruct l as [|x [|y l]]; cbn [absL]; try apply leq_refl.
  exists O, 1%nat. unfold unroll. cbn [pre cyc dv]. unfold Proofs_Periodic.reps. cbn [repeat concat].
  rewrite !app_nil_r. reflexivity.
Qed.

Lemma src_iter_wf : forall h b p, wfI h b (src_iter p).
Proof. intros h b [l|l]; cbn; auto. destruct l as [|x [|y l]]; cbn; auto. Qed.

Lemma tcorrL_append : forall p h,
  tcorrL h (fun it => IOk (IChain it (src_iter p))) (fun s => TOk (lappend s (pool_seq p))).
Proof.
  intros p h it s Hh [Hw Ha]. split; [cbn [wfI]; split; [exact Hw|apply src_iter_wf]|].
  cbn [absL]. eapply leq_trans; [apply lappend_leq_l; exact Ha|]. apply lappend_leq_r. apply src_iter_abs.
Qed.

Lemma tcorrL_map : forall f h, tcorrL h (fun it => IOk (IMap f it)) (fun s => TOk (lmap (ef f) s)).
Proof. intros f h it s Hh [Hw Ha]. split; [exact Hw|]. cbn [absL]. apply lmap_leq. exact Ha. Qed.

Lemma tcorrL_filter : forall p h, tcorrL h (fun it => IOk (IFilter p it)) (fun s => TOk (lfilter (ep p) s)).
Proof. intros p h it s Hh [Hw Ha]. split; [exact Hw|]. cbn [absL]. apply lfilter_leq. exact Ha. Qed.

Lemma tcorrL_append_obj : forall h itj sj, Rit h sj itj ->
  tcorrL h (fun it => IOk (IChain it itj)) (fun s => TOk (lappend s sj)).
Proof.
  intros h itj sj [Hwj Haj] it s Hh [Hw Ha]. split; [cbn [wfI]; split; assumption|].
  cbn [absL]. eapply leq_trans; [apply lappend_leq_l; exact Ha|]. apply lappend_leq_r. exact Haj.
Qed.

Lemma igive_simL : forall h os st i, RL (IS h os) st ->
  match igive (IS h os) i, give st i with
  | inl (Some (IS h' os', it)), inl (Some (st', s)) =>
      h' = h /\ RL (IS h os') st' /\ length os' = length os /\ Rit h s it
  | inl None, inl None => True
  | inr e, inr e' => e = e'
  | _, _ => False
  end.
Proof.
  intros h os st i HR. pose proof (RL_lookup h os st i HR) as Hl. assert (Hh : wfHL h) by apply HR.
  unfold igive, give.
  destruct (nth_error os i) as [[it|its|]|], (nth_error st i) as [[s|s u|]|]; cbn in Hl; try contradiction; auto.
  - split; [reflexivity|]. split; [|split; [apply set_nth_length|exact Hl]].
    apply (RL_pres_set h h); [exact HR|apply presL_refl; exact Hh|exact I].
  - destruct Hl as [-> HF]. destruct (pop_last its) as [[its' it]|] eqn:Ep.
    + apply pop_last_some in Ep. subst its. rewrite app_length. cbn [length]. rewrite Nat.add_1_r.
      apply Forall_app in HF. destruct HF as [HF' Hit]. inversion Hit as [|? ? Hr _]; subst.
      split; [reflexivity|]. split; [|split; [apply set_nth_length|exact Hr]].
      apply (RL_pres_set h h); [exact HR|apply presL_refl; exact Hh|]. cbn. auto.
    + apply pop_last_none in Ep. subst its. reflexivity.
Qed.

Import String.

Lemma icopy_simL : forall h os st i, RL (IS h os) st ->
  match icopy (IS h os) i with
  | inl (Some (IS h' os', b)) =>
      exists s, (nth_error st i = Some (EStream s) \/ exists u, nth_error st i = Some (EHub s (S u))) /\
                RL (IS h' os') st /\ Rit h' s b /\ List.length os' = List.length os
  | inl None => match nth_error st i with Some (EStream _) | Some (EHub _ _) => False | _ => True end
  | inr e => e = "IndexError"%string /\ exists s, nth_error st i = Some (EHub s O)
  end.
Proof.
  intros h os st i HR. pose proof (RL_lookup h os st i HR) as Hl. assert (Hh : wfHL h) by apply HR.
  unfold icopy.
  destruct (nth_error os i) as [[it|its|]|] eqn:Eo, (nth_error st i) as [[s|s u|]|] eqn:Es;
    cbn in Hl; try contradiction; auto.
  - destruct (tee_iter h it 2) as [h' its] eqn:Et.
    destruct (tee_iter_soundL _ _ _ _ _ s Hh Hl Et) as (Hp & Hlen & HF).
    destruct its as [|a [|b [|c r]]]; try discriminate Hlen.
    inversion HF as [|? ? Ha HF2]; subst. inversion HF2 as [|? ? Hb _]; subst.
    exists s. split; [left; reflexivity|]. split; [|split; [exact Hb|apply set_nth_length]].
    rewrite <- (set_nth_same _ _ _ Es). apply (RL_pres_set h h'); [exact HR|exact Hp|]. exact Ha.
  - destruct Hl as [-> HF0]. destruct its as [|it rest]; [split; eauto|].
    inversion HF0 as [|? ? Hit HFr]; subst.
    destruct (tee_iter h it 2) as [h' its] eqn:Et.
    destruct (tee_iter_soundL _ _ _ _ _ s Hh Hit Et) as (Hp & Hlen & HF).
    destruct its as [|a [|b [|c r]]]; try discriminate Hlen.
    inversion HF as [|? ? Ha HF2]; subst. inversion HF2 as [|? ? Hb _]; subst.
    exists s. split; [right; eexists; reflexivity|].
    split; [|split; [exact Hb|apply set_nth_length]].
    rewrite <- (set_nth_same _ _ _ Es). apply (RL_pres_set h h'); [exact HR|exact Hp|]. cbn.
    split; [reflexivity|]. constructor; [exact Ha|].
    eapply Forall_impl; [|exact HFr]. intros x. apply Rit_pres; assumption.
Qed.
