(* C03 - case record and boolean checkers for the generated history files. *)
From Coq Require Import List Bool ZArith String.
From AL Require Import Base.CaseLib C03.Spec C03.Model.
Import ListNotations.

Definition pool_entry (p : pool) : entry := EStream (pool_seq p).

Definition obs_eqb (a b : obs) : bool :=
  match a, b with
  | OItems x, OItems y => list_eqb Z.eqb x y
  | OItem x, OItem y => Z.eqb x y
  | ORaise x, ORaise y => String.eqb x y
  | ONew x, ONew y => Nat.eqb x y
  | ONews x n, ONews y m => Nat.eqb x y && Nat.eqb n m
  | OSelf, OSelf => true
  | _, _ => false     (* ODiverge / OBad never match: such histories are out of scope *)
  end.

Record hcase := HC { h_pool : list pool; h_ops : list op; h_obs : list obs }.

Definition holds_hist (c : hcase) : bool :=
  list_eqb obs_eqb (h_obs c) (run (map pool_entry (h_pool c)) (h_ops c)).
(* implementation-level model; the fuel bounds nesting depth / filter and skip
   loops of one next() and the length of take(inf): ample for generated cases *)
Definition check_fuel : nat := 2000.
Definition corr_hist (c : hcase) : bool :=
  list_eqb obs_eqb (h_obs c) (irun check_fuel (init (h_pool c)) (h_ops c)).
