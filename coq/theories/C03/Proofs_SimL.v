(* C03 - simulation relation between the implementation-level state and the list model (lassos). *)
From Coq Require Import List Bool ZArith Lia.
From AL Require Import C03.Spec C03.Model C03.Abs C03.AbsL C03.Proofs_Abs C03.Proofs_Leq C03.Proofs_Leq2
  C03.Proofs_AbsL C03.Proofs_PullL C03.Proofs_TakeL C03.Proofs_Step.
Import ListNotations.

Definition presL (h h' : heap) : Prop :=
  (length h <= length h')%nat /\ ext h h' /\ wfHL h' /\
  (forall c, (c < length h)%nat -> leq (nth c (heap_valsL h') lempty) (nth c (heap_valsL h) lempty)).

Lemma presL_refl : forall h, wfHL h -> presL h h.
Proof. intros h Hh. unfold presL. repeat split; auto using ext_refl. intros. apply leq_refl. Qed.

Lemma stableL_presL : forall h b h', stableL h b h' -> presL h h'.
Proof.
  intros h b h' (A1 & A2 & A3 & A4 & A5). refine (conj _ (conj A2 (conj A3 _))); [lia|].
  intros c Hc. unfold heap_valsL. rewrite A1. apply A4. exact Hc.
Qed.

Definition Rit (h : heap) (s : lseq) (it : iter) : Prop :=
  wfI h (length h) it /\ leq (absL (heap_valsL h) it) s.

Lemma Rit_pres : forall h h' s it, wfHL h -> presL h h' -> Rit h s it -> Rit h' s it.
Proof.
  intros h h' s it Hh (A1 & A2 & A3 & A4) [Hw Ha]. split.
  - eapply wfI_weaken; [exact A1|]. eapply wfI_ext; eauto.
  - eapply leq_trans; [|exact Ha]. apply (absL_ext h (length h)); auto.
    + apply (covers_le h (length h) (length h')); [exact A1|]. unfold heap_valsL. apply covers_upto. exact A2.
    + apply heap_valsL_covers. exact Hh.
Qed.

Lemma Rit_leq : forall h s t it, leq s t -> Rit h s it -> Rit h t it.
Proof. intros h s t it H [Hw Ha]. split; [exact Hw|eapply leq_trans; eauto]. Qed.

Lemma valsL_upto_app : forall h cl n, (n <= length h)%nat -> valsL_upto (h ++ [cl]) n = valsL_upto h n.
Proof.
  intros h cl n. induction n as [|n IH]; intros Hn; [reflexivity|].
  cbn [valsL_upto]. rewrite IH by lia. rewrite nth_error_app1 by lia. reflexivity.
Qed.

Lemma lskip_0 : forall s, lskip 0 s = s.
Proof. intros [p c d]. reflexivity. Qed.

(* wrapping an iterator in a new buffer cell *)
Lemma alloc_presL : forall h it, wfHL h -> wfI h (length h) it ->
  let h' := h ++ [Cell it []] in
  presL h h' /\ wfI h' (length h') (ITee (length h) O) /\
  absL (heap_valsL h') (ITee (length h) O) = absL (heap_valsL h) it.
Proof.
  intros h it Hh Hw h'.
  assert (Hl : length h' = S (length h)) by (unfold h'; rewrite app_length; cbn; lia).
  assert (He : ext h h').
  { intros c cl Hc. exists cl. split; [|lia]. unfold h'. rewrite nth_error_app1; [exact Hc|].
    apply nth_error_Some. congruence. }
  assert (Hn : nth_error h' (length h) = Some (Cell it [])).
  { unfold h'. rewrite nth_error_app2 by lia. rewrite Nat.sub_diag. reflexivity. }
  assert (Hh' : wfHL h').
  { intros c cl Hc. destruct (Nat.lt_ge_cases c (length h)) as [Hlt|Hge].
    - unfold h' in Hc. rewrite nth_error_app1 in Hc by exact Hlt. eapply wfI_ext; [exact He|]. apply (Hh c cl Hc).
    - assert (c = length h).
      { assert (c < length h')%nat by (apply nth_error_Some; congruence). lia. }
      subst c. rewrite Hn in Hc. inversion Hc; subst. cbn [c_src]. eapply wfI_ext; eauto. }
  assert (Hv : heap_valsL h' = heap_valsL h ++ [absL (heap_valsL h) it]).
  { unfold heap_valsL at 1. rewrite Hl. cbn [valsL_upto]. unfold h' at 1 2.
    rewrite valsL_upto_app by lia. fold h'. rewrite Hn. cbn [cell_valL c_items c_src]. rewrite lpre_nil. reflexivity. }
  split; [|split].
  - refine (conj _ (conj He (conj Hh' _))); [lia|].
    intros c Hc. rewrite Hv. rewrite app_nth1; [apply leq_refl|].
    unfold heap_valsL. rewrite valsL_upto_length. exact Hc.
  - cbn [wfI]. split; [lia|]. eexists. split; [exact Hn|]. cbn. lia.
  - cbn [absL]. rewrite Hv. rewrite app_nth2; unfold heap_valsL; rewrite valsL_upto_length; [|lia].
    rewrite Nat.sub_diag. cbn [nth]. apply lskip_0.
Qed.

Lemma tee_iter_soundL : forall h it n h' its s, wfHL h -> Rit h s it ->
  tee_iter h it n = (h', its) ->
  presL h h' /\ length its = n /\ Forall (Rit h' s) its.
Proof.
  intros h it n h' its s Hh [Hw Ha] Ht. destruct n as [|m].
  - cbn in Ht. inversion Ht; subst. auto using presL_refl.
  - assert (Hcopy : forall c i, it = ITee c i -> tee_iter h it (S m) = (h, repeat it (S m)))
      by (intros c i ->; reflexivity).
    assert (Hnew : (forall c i, it <> ITee c i) ->
                   tee_iter h it (S m) = (h ++ [Cell it []], repeat (ITee (length h) O) (S m)))
      by (intros Hne; destruct it; try reflexivity; exfalso; eapply Hne; reflexivity).
    assert (Hgen : (forall c i, it <> ITee c i) ->
      presL h h' /\ length its = S m /\ Forall (Rit h' s) its).
    { intros Hne. rewrite (Hnew Hne) in Ht. injection Ht as E1 E2. subst h' its.
      pose proof (alloc_presL h it Hh Hw) as A. cbv zeta in A. destruct A as (A1 & A2 & A3).
      split; [exact A1|split; [exact (repeat_length _ (S m))|]].
      apply Forall_forall. intros a Hin. apply (repeat_spec (S m)) in Hin. subst a.
      split; [exact A2|]. rewrite A3. exact Ha. }
    destruct it as [l|sv rm|x|f s0|p s0|a c|s0|s0 k| |s0 k|c idx];
      try (apply Hgen; intros; discriminate).
    rewrite (Hcopy c idx eq_refl) in Ht. injection Ht as E1 E2. subst h' its.
    split; [apply presL_refl; exact Hh|split; [exact (repeat_length _ (S m))|]].
    apply Forall_forall. intros a Hin. apply (repeat_spec (S m)) in Hin. subst a. split; assumption.
Qed.

(* ---- the simulation relation ---- *)
Definition Robj (h : heap) (o : obj) (e : entry) : Prop :=
  match o, e with
  | XStream it, EStream s => Rit h s it
  | XHub its, EHub s u => u = length its /\ Forall (Rit h s) its
  | XDead, EDead => True
  | _, _ => False
  end.

Definition RL (ist : istate) (st : state) : Prop :=
  wfHL (i_heap ist) /\ Forall2 (Robj (i_heap ist)) (i_objs ist) st.

Lemma Robj_pres : forall h h' o e, wfHL h -> presL h h' -> Robj h o e -> Robj h' o e.
Proof.
  intros h h' o e Hh Hp. destruct o as [it|its|], e as [s|s u|]; cbn; auto.
  - apply Rit_pres; assumption.
  - intros [Hu Hr]. split; [exact Hu|]. eapply Forall_impl; [|exact Hr]. intros a. apply Rit_pres; assumption.
Qed.

Lemma Robjs_pres : forall h h' os st, wfHL h -> presL h h' ->
  Forall2 (Robj h) os st -> Forall2 (Robj h') os st.
Proof. intros h h' os st Hh Hp HF. induction HF; constructor; auto. eapply Robj_pres; eauto. Qed.

Lemma RL_lookup : forall h os st i, RL (IS h os) st ->
  match nth_error os i, nth_error st i with
  | Some o, Some e => Robj h o e
  | None, None => True
  | _, _ => False
  end.
Proof. intros h os st i [_ HF]. apply Forall2_lookup. exact HF. Qed.

Lemma RL_pres_set : forall h h' os st i o e, RL (IS h os) st -> presL h h' -> Robj h' o e ->
  RL (IS h' (set_nth i o os)) (set_nth i e st).
Proof.
  intros h h' os st i o e [Hh HF] Hp Ho. split; [apply Hp|]. cbn [i_heap i_objs] in *.
  apply Forall2_set_nth; [|exact Ho]. eapply Robjs_pres; eauto.
Qed.

Lemma RL_pres_app : forall h h' os st os2 st2, RL (IS h os) st -> presL h h' ->
  Forall2 (Robj h') os2 st2 -> RL (IS h' (os ++ os2)) (st ++ st2).
Proof.
  intros h h' os st os2 st2 [Hh HF] Hp H2. split; [apply Hp|]. cbn [i_heap i_objs] in *.
  apply Forall2_app; [|exact H2]. eapply Robjs_pres; eauto.
Qed.

Lemma RL_length : forall h os st, RL (IS h os) st -> length os = length st.
Proof. intros h os st [_ HF]. cbn in HF. induction HF; cbn; auto. Qed.
