(* C03 - the list model on finite remaining sequences [fin l]. *)
From Coq Require Import List Bool ZArith String Lia.
From AL Require Import C03.Spec.
Import ListNotations.

Lemma lnext_fin : forall l,
  lnext (fin l) = match l with x :: p => PItem x (fin p) | [] => PStop end.
Proof. intros [|x p]; reflexivity. Qed.

Lemma ltake_fin : forall n l, ltake n (fin l) = (firstn n l, fin (skipn n l), false).
Proof.
  induction n as [|n IH]; intros l; [reflexivity|].
  cbn [ltake]. rewrite lnext_fin. destruct l as [|x p]; [reflexivity|].
  rewrite IH. reflexivity.
Qed.

Lemma ldrop_fin : forall n l, ldrop n (fin l) = fin (skipn n l).
Proof. intros n l. unfold ldrop. rewrite ltake_fin. reflexivity. Qed.

Lemma llimit_fin : forall n l, llimit n (fin l) = fin (firstn n l).
Proof. intros n l. unfold llimit. rewrite ltake_fin. reflexivity. Qed.

Lemma lappend_fin : forall a b, lappend (fin a) (fin b) = fin (a ++ b).
Proof. reflexivity. Qed.

Lemma lmap_fin : forall f l, lmap f (fin l) = fin (map f l).
Proof. reflexivity. Qed.

Lemma lfilter_fin : forall p l, lfilter p (fin l) = fin (filter p l).
Proof. reflexivity. Qed.

Lemma take_seq_fin : forall c l,
  take_seq c (fin l) =
  match take_count c with
  | TNext => match l with x :: p => (OItem x, fin p) | [] => (ORaise "StopIteration", fin l) end
  | TAll => (OItems l, fin [])
  | TN n => (OItems (firstn n l), fin (skipn n l))
  end.
Proof.
  intros c l. unfold take_seq. destruct (take_count c) as [| |n].
  - rewrite lnext_fin. destruct l; reflexivity.
  - reflexivity.
  - rewrite ltake_fin. reflexivity.
Qed.
