(* C10 - acorr, lag_matrix and toeplitz are the documented sums / tables. *)
From Coq Require Import List Bool Arith ZArith QArith Qcanon Lia.
From AL Require Import Base.CaseLib C10.Model C10.Spec C10.Proofs_Sum.
Import ListNotations.
Open Scope Qc_scope.

Lemma acorr_lags_is_sum blk lags : acorr_lags blk lags = map (acorr_sum blk) (seq 0 lags).
Proof.
  unfold acorr_lags. apply map_ext. intro tau. rewrite sum_range_sumn. unfold acorr_sum.
  symmetry. apply sumn_extend; [lia|].
  intros n Hn. replace (nth (0 + n + tau) blk 0) with 0; [ring|symmetry; apply nth_overflow; lia].
Qed.

Lemma acorr_is_sum blk lag :
  acorr blk lag = map (acorr_sum blk) (seq 0 (match lag with None => length blk | Some m => S m end)).
Proof. destruct lag; apply acorr_lags_is_sum. Qed.

Lemma lag_table_is_sum blk rows p :
  lag_table blk rows p = table rows rows (fun j i => lag_sum blk p i j).
Proof.
  unfold lag_table, table. apply map_ext. intro j. apply map_ext. intro i.
  rewrite sum_range_sumn. reflexivity.
Qed.

Lemma lag_matrix_is_sum blk m :
  lag_matrix blk (Some m) =
  if (length blk <=? m)%nat then Err ValueError
  else Ok (table (S m) (S m) (fun j i => lag_sum blk m i j)).
Proof. cbn [lag_matrix]. destruct (length blk <=? m)%nat; [reflexivity|]. rewrite lag_table_is_sum. reflexivity. Qed.

Lemma lag_matrix_none_is_sum blk :
  lag_matrix blk None = Ok (table (length blk) (length blk) (fun j i => lag_sum blk (length blk - 1) i j)).
Proof. cbn [lag_matrix]. rewrite lag_table_is_sum. reflexivity. Qed.

Lemma toeplitz_is_table v : toeplitz v = table (length v) (length v) (fun j i => cf v (dist i j)).
Proof.
  unfold toeplitz, table. apply map_ext. intro j. apply map_ext. intro i.
  rewrite absdiff_dist. reflexivity.
Qed.

(* entry-wise reading of a table *)
Lemma table_nth n m f j i : (j < n)%nat -> (i < m)%nat -> nth i (nth j (table n m f) []) 0 = f j i.
Proof.
  intros Hj Hi. unfold table.
  rewrite (nth_indep _ [] (map (fun i => f 0%nat i) (seq 0 m))) by (rewrite map_length, seq_length; exact Hj).
  rewrite (map_nth (fun j => map (fun i => f j i) (seq 0 m)) (seq 0 n) O j).
  rewrite seq_nth by exact Hj. cbn [Nat.add].
  rewrite (nth_indep _ 0 (f j O)) by (rewrite map_length, seq_length; exact Hi).
  rewrite (map_nth (fun i => f j i) (seq 0 m) O i). rewrite seq_nth by exact Hi. reflexivity.
Qed.

Lemma table_length n m f : length (table n m f) = n.
Proof. unfold table. rewrite map_length, seq_length. reflexivity. Qed.

Lemma lag_sum_sym x p i j : lag_sum x p i j = lag_sum x p j i.
Proof. unfold lag_sum. apply sumn_ext. intros t _. ring. Qed.
