(* C10 - the proved statements, each closed by [exact] on a lemma of Proofs_*.v.
   Statements are spelled out over Model.v (the line-by-line model of lazy_lpc.py /
   lazy_analysis.py, tied to /repo by the correspondence check) and Spec.v (defining sums). *)
From Coq Require Import List Bool Arith ZArith QArith Qcanon.
From AL Require Import Base.CaseLib C10.Model C10.Spec C10.Proofs_Sum C10.Proofs_Tab C10.Proofs_Lev
  C10.Proofs_Kac C10.Proofs_Kcv C10.Check C10.Proofs_Check C10.TabLib C10.Gen_Tables C10.Proofs_Gen C10.Proofs_Complete C10.Proofs_Scale.
Import ListNotations.
Open Scope Qc_scope.

(* ------------------------------------------------------------------ tables *)
(* acorr(blk, max_lag)[tau] = sum_n blk[n] blk[n+tau] over the zero-extended block, max_lag+1 entries
   (len(blk) entries when max_lag is omitted) *)
Theorem C10_acorr_is_sum : forall blk lag,
  acorr blk lag = map (acorr_sum blk) (seq 0 (match lag with None => length blk | Some m => S m end)).
Proof. exact acorr_is_sum. Qed.
Print Assumptions C10_acorr_is_sum.

(* lag_matrix(blk, m): ValueError when m >= len(blk), else the (m+1)x(m+1) table of
   sum_{n=m}^{N-1} blk[n-i] blk[n-j] *)
Theorem C10_lag_matrix_is_sum : forall blk m,
  lag_matrix blk (Some m) =
  if (length blk <=? m)%nat then Err ValueError
  else Ok (table (S m) (S m) (fun j i => lag_sum blk m i j)).
Proof. exact lag_matrix_is_sum. Qed.
Print Assumptions C10_lag_matrix_is_sum.

Theorem C10_lag_matrix_default_is_sum : forall blk,
  lag_matrix blk None = Ok (table (length blk) (length blk) (fun j i => lag_sum blk (length blk - 1) i j)).
Proof. exact lag_matrix_none_is_sum. Qed.
Print Assumptions C10_lag_matrix_default_is_sum.

Theorem C10_toeplitz_is_table : forall v,
  toeplitz v = table (length v) (length v) (fun j i => cf v (dist i j)).
Proof. exact toeplitz_is_table. Qed.
Print Assumptions C10_toeplitz_is_table.

(* what "table" means entry by entry *)
Theorem C10_table_entry : forall n m f j i, (j < n)%nat -> (i < m)%nat ->
  nth i (nth j (table n m f) []) 0 = f j i.
Proof. exact table_nth. Qed.
Print Assumptions C10_table_entry.

(* ------------------------------------------------------------------ levinson_durbin *)
(* For EVERY lag list r (any length, any rational entries, positive definite or not) and every order p:
   if levinson_durbin(r, p) returns (i.e. the recursion did not divide by zero), the result a is monic, has
   exactly p+1 coefficients, solves the Yule-Walker equations sum_j a_j r|i-j| = 0 for i = 1..p (r read
   as zero beyond its end, which is the code's zero extension for p >= len(r)), and the stored error
   inner(A, A) equals sum_j a_j r_j. *)
Theorem C10_levinson_normal_eq : forall r p a e,
  levinson_durbin r (Some p) = Ok (a, e) ->
  length a = S p /\ cf a 0 = 1 /\
  (forall i, (1 <= i <= p)%nat -> yw_row r a i = 0) /\
  e = dot a r.
Proof. exact levinson_spec. Qed.
Print Assumptions C10_levinson_normal_eq.

Theorem C10_levinson_monic : forall r p a e,
  levinson_durbin r (Some p) = Ok (a, e) -> length a = S p /\ cf a 0 = 1.
Proof. exact levinson_monic. Qed.
Print Assumptions C10_levinson_monic.

Theorem C10_levinson_error : forall r p a e,
  levinson_durbin r (Some p) = Ok (a, e) -> e = dot a r.
Proof. exact levinson_error. Qed.
Print Assumptions C10_levinson_error.

(* order omitted: p = len(r) - 1 *)
Theorem C10_levinson_default_order : forall r a e,
  levinson_durbin r None = Ok (a, e) ->
  let p := (length r - 1)%nat in
  length a = S p /\ cf a 0 = 1 /\ (forall i, (1 <= i <= p)%nat -> yw_row r a i = 0) /\ e = dot a r.
Proof. exact levinson_spec_none. Qed.
Print Assumptions C10_levinson_default_order.

(* the same for what the caller reads: filt.numerator drops trailing zero coefficients *)
Theorem C10_levinson_numerator : forall r p a e,
  levinson_durbin r (Some p) = Ok (a, e) ->
  (length (strip0 a) <= S p)%nat /\ cf (strip0 a) 0 = 1 /\
  (forall i, (1 <= i <= p)%nat -> yw_row r (strip0 a) i = 0) /\ e = dot (strip0 a) r.
Proof. exact levinson_numerator_spec. Qed.
Print Assumptions C10_levinson_numerator.

(* The guard, exactly.  The only exception for a given order is ParCorError; order 0 always returns;
   order p+1 raises exactly when order p raises or the order-p prediction error (the divisor
   inner(B, B) of step p+1) is zero. *)
Theorem C10_levinson_only_parcor : forall r p e, levinson_durbin r (Some p) = Err e -> e = ParCorError.
Proof. exact levinson_only_parcor. Qed.
Print Assumptions C10_levinson_only_parcor.

Theorem C10_levinson_order0 : forall r, levinson_durbin r (Some O) = Ok ([1], cf r 0).
Proof. exact levinson_order0. Qed.
Print Assumptions C10_levinson_order0.

Theorem C10_levinson_guard : forall r p,
  levinson_durbin r (Some (S p)) = Err ParCorError <->
  levinson_durbin r (Some p) = Err ParCorError \/ exists a, levinson_durbin r (Some p) = Ok (a, 0).
Proof. exact levinson_guard. Qed.
Print Assumptions C10_levinson_guard.

(* non-vacuity: the docstring example, order 3 (acorr of [2,2,0,0,-1,-1,0,0,1,1]) *)
Example C10_levinson_example :
  levinson_durbin (map (fun z => qc z 1) [12; 6; 0; -3; -6; -3; 0; 2; 4; 2]%Z) (Some 3%nat)
  = Ok ([1; qc (-5) 8; qc 1 4; qc 1 8], qc 63 8).
Proof. exact levinson_example. Qed.
Print Assumptions C10_levinson_example.

(* non-vacuity of the guard: r = [1, 1] has zero order-1 error, so order 2 raises *)
Example C10_levinson_guard_example :
  levinson_durbin [1; 1] (Some 1%nat) = Ok ([1; - (1)], 0) /\
  levinson_durbin [1; 1] (Some 2%nat) = Err ParCorError.
Proof. exact levinson_guard_example. Qed.
Print Assumptions C10_levinson_guard_example.

(* ------------------------------------------------------------------ lpc.kautocor *)
(* For every block x (any length, any rational samples) and order p: if lpc.kautocor(x, p) returns a with
   error e then a is monic with p+1 coefficients, solves the autocorrelation normal equations
   sum_j a_j R(|i-j|) = 0 (i = 1..p) for R(tau) = sum_n x(n) x(n+tau) (the defining sum, not the code's acorr),
   e is the energy of a convolved with the zero-extended block (all len(x)+p outputs), and that energy is
   minimal among ALL monic filters with p+1 coefficients. *)
Theorem C10_kautocor_minimises : forall x p a e,
  kautocor x (Some p) = Ok (a, e) ->
  length a = S p /\ cf a 0 = 1 /\
  (forall i, (1 <= i <= p)%nat -> ac_row x a i = 0) /\
  e = energy_full a x /\
  (forall a', length a' = S p -> cf a' 0 = 1 -> energy_full a x <= energy_full a' x).
Proof. exact kautocor_spec. Qed.
Print Assumptions C10_kautocor_minimises.

Theorem C10_kautocor_error_is_energy : forall x p a e,
  kautocor x (Some p) = Ok (a, e) -> e = energy_full a x.
Proof. exact kautocor_error_is_energy. Qed.
Print Assumptions C10_kautocor_error_is_energy.

(* order omitted: p = len(x) - 1 *)
Theorem C10_kautocor_default_order : forall x a e,
  kautocor x None = Ok (a, e) ->
  let p := (length x - 1)%nat in
  length a = S p /\ cf a 0 = 1 /\
  (forall i, (1 <= i <= p)%nat -> ac_row x a i = 0) /\
  e = energy_full a x /\
  (forall a', length a' = S p -> cf a' 0 = 1 -> energy_full a x <= energy_full a' x).
Proof. exact kautocor_spec_none. Qed.
Print Assumptions C10_kautocor_default_order.

(* the energy of ANY filter against the block is the Toeplitz quadratic form of the defining autocorrelation *)
Theorem C10_energy_is_toeplitz_form : forall a x,
  energy_full a x = qform (fun i j => acorr_sum x (dist i j)) a.
Proof. exact energy_full_qform. Qed.
Print Assumptions C10_energy_is_toeplitz_form.

(* ------------------------------------------------------------------ lpc.kcovar *)
(* For every block x and order p: when lpc.kcovar(x, p) returns a with error e, then 1 <= p < len(x), a is monic
   with p+1 coefficients, satisfies the covariance normal equations sum_j a_j phi(i,j) = 0 (i = 1..p) for
   phi(i,j) = sum_{n=p}^{N-1} x(n-i) x(n-j), and e is the residual energy sum_{n>=p} (sum_j a_j x(n-j))^2. *)
Theorem C10_kcovar_normal_eq : forall x p a e,
  kcovar x (Some p) = Ok (a, e) ->
  (1 <= p < length x)%nat /\ length a = S p /\ cf a 0 = 1 /\
  (forall i, (1 <= i <= p)%nat -> cov_row x a p i = 0) /\
  e = energy_cov a x p.
Proof. exact kcovar_spec. Qed.
Print Assumptions C10_kcovar_normal_eq.

Theorem C10_kcovar_error_is_residual_energy : forall x p a e,
  kcovar x (Some p) = Ok (a, e) -> e = energy_cov a x p.
Proof. exact kcovar_error_is_residual_energy. Qed.
Print Assumptions C10_kcovar_error_is_residual_energy.

Theorem C10_kcovar_default_order : forall x a e,
  kcovar x None = Ok (a, e) ->
  let p := (length x - 1)%nat in
  (1 <= p)%nat /\ length a = S p /\ cf a 0 = 1 /\
  (forall i, (1 <= i <= p)%nat -> cov_row x a p i = 0) /\
  e = energy_cov a x p.
Proof. exact kcovar_spec_none. Qed.
Print Assumptions C10_kcovar_default_order.

Theorem C10_kcovar_order_too_large : forall x p, (length x <= p)%nat -> kcovar x (Some p) = Err ValueError.
Proof. exact kcovar_order_too_large. Qed.
Print Assumptions C10_kcovar_order_too_large.

(* non-vacuity: the docstring example of lpc.kautocor, and a kcovar run *)
Example C10_kautocor_example :
  kautocor (map (fun z => qc z 1) [-1; 0; 1; 0; -1; 0; 1; 0; -1; 0; 1; 0; -1; 0; 1; 0]%Z) (Some 2%nat)
  = Ok ([1; 0; qc 7 8], qc 15 8).
Proof. exact kautocor_example. Qed.
Print Assumptions C10_kautocor_example.

Example C10_kcovar_example :
  kcovar (map (fun z => qc z 1) [1; 2; 3; -1; 1]%Z) (Some 2%nat)
  = Ok ([1; qc (-8) 171; qc (-46) 171], qc 1681 171).
Proof. exact kcovar_example. Qed.
Print Assumptions C10_kcovar_example.

(* ------------------------------------------------------------------ the run-time checkers are sound *)
(* Independently of the model: whenever the boolean checker of Check.v evaluates to true on a filter (a, e)
   OBSERVED from the implementation, that filter has the property.  For kautocor the decidable test (monic,
   normal equations, e = energy) implies minimality among ALL monic filters of order <= p. *)
Theorem C10_holds_lev_sound : forall c a e, holds_lev c = true -> l_obs c = FOk a e ->
  let p := match l_order c with None => (length (l_r c) - 1)%nat | Some p => p end in
  cf a 0 = 1 /\ (length a <= S p)%nat /\
  (forall i, (1 <= i <= p)%nat -> yw_row (l_r c) a i = 0) /\ e = dot a (l_r c).
Proof. exact holds_lev_sound. Qed.
Print Assumptions C10_holds_lev_sound.

Theorem C10_holds_kac_sound : forall c a e, holds_kac c = true -> a_obs c = FOk a e ->
  let x := a_blk c in
  let p := match a_order c with None => (length x - 1)%nat | Some p => p end in
  cf a 0 = 1 /\ (length a <= S p)%nat /\
  (forall i, (1 <= i <= p)%nat -> ac_row x a i = 0) /\
  e = energy_full a x /\
  (forall a', (length a' <= S p)%nat -> cf a' 0 = 1 -> energy_full a x <= energy_full a' x).
Proof. exact holds_kac_sound. Qed.
Print Assumptions C10_holds_kac_sound.

Theorem C10_holds_kcv_sound : forall c a e, holds_kcv c = true -> c_obs c = FOk a e ->
  let x := c_blk c in
  let p := match c_order c with None => (length x - 1)%nat | Some p => p end in
  cf a 0 = 1 /\ (length a <= S p)%nat /\
  (forall i, (1 <= i <= p)%nat -> cov_row x a p i = 0) /\
  e = energy_cov a x p.
Proof. exact holds_kcv_sound. Qed.
Print Assumptions C10_holds_kcv_sound.

(* ------------------------------------------------------------------ the translated source *)
(* Gen_Tables.v is regenerated from the Python source of acorr / lag_matrix / toeplitz on every run
   (harness/C10_translate.py, integers as Z).  The generated definitions are the hand-written table
   models above, for every block and every max_lag >= 0 or omitted ... *)
Theorem C10_gen_acorr_is_model : forall blk lag, gen_acorr blk (option_map Z.of_nat lag) = acorr blk lag.
Proof. exact gen_acorr_eq. Qed.
Print Assumptions C10_gen_acorr_is_model.

Theorem C10_gen_lag_matrix_is_model : forall blk lag,
  gen_lag_matrix blk (option_map Z.of_nat lag) = lag_matrix blk lag.
Proof. exact gen_lag_matrix_eq. Qed.
Print Assumptions C10_gen_lag_matrix_is_model.

Theorem C10_gen_toeplitz_is_model : forall v, gen_toeplitz v = toeplitz v.
Proof. exact gen_toeplitz_eq. Qed.
Print Assumptions C10_gen_toeplitz_is_model.

(* ... and for ANY integer max_lag the translated acorr is the list of the max(0, max_lag+1) defining sums;
   a negative max_lag gives the empty table in lag_matrix (it is not rejected) *)
Theorem C10_gen_acorr_is_sum : forall blk z,
  gen_acorr blk (Some z) = map (acorr_sum blk) (seq 0 (Z.to_nat (z + 1))).
Proof. exact gen_acorr_is_sum. Qed.
Print Assumptions C10_gen_acorr_is_sum.

Theorem C10_gen_lag_matrix_negative : forall blk z, (z < 0)%Z -> gen_lag_matrix blk (Some z) = Ok [].
Proof. exact gen_lag_matrix_negative. Qed.
Print Assumptions C10_gen_lag_matrix_negative.

(* ------------------------------------------------------------------ the run-time checkers are complete w.r.t. the model *)
(* If the implementation's observation equals the model's output on a case, the property checker accepts it
   (by the theorems above): a holds_* failure can only occur together with a broken correspondence. *)
Theorem C10_corr_lev_implies_holds : forall c, corr_lev c = true -> holds_lev c = true.
Proof. exact corr_lev_holds. Qed.
Print Assumptions C10_corr_lev_implies_holds.

Theorem C10_corr_kac_implies_holds : forall c, corr_kac c = true -> holds_kac c = true.
Proof. exact corr_kac_holds. Qed.
Print Assumptions C10_corr_kac_implies_holds.

Theorem C10_corr_kcv_implies_holds : forall c, corr_kcv c = true -> holds_kcv c = true.
Proof. exact corr_kcv_holds. Qed.
Print Assumptions C10_corr_kcv_implies_holds.

Theorem C10_corr_tab_implies_holds : forall c, corr_tab c = true -> holds_tab c = true.
Proof. exact corr_tab_holds. Qed.
Print Assumptions C10_corr_tab_implies_holds.

Theorem C10_corr_tabz_implies_holds : forall c, corr_tabz c = true -> holds_tabz c = true.
Proof. exact corr_tabz_holds. Qed.
Print Assumptions C10_corr_tabz_implies_holds.

(* call histories: each call of a history is judged on its own (current) block contents, whatever was computed,
   returned or modified before; and the per-call theorems above make the property checker follow from the tie *)
Theorem C10_hist_calls_independent : forall c1 c2,
  corr_hist (c1 ++ c2) = corr_hist c1 && corr_hist c2 /\
  holds_hist (c1 ++ c2) = holds_hist c1 && holds_hist c2.
Proof. exact hist_calls_independent. Qed.
Print Assumptions C10_hist_calls_independent.

Theorem C10_corr_hist_implies_holds : forall c, corr_hist c = true -> holds_hist c = true.
Proof. exact corr_hist_holds. Qed.
Print Assumptions C10_corr_hist_implies_holds.

(* ------------------------------------------------------------------ the property is scale free *)
(* rescale d (Ok (a, e)) = Ok (a, d * e), rescale d (Err x) = Err x.  For every c <> 0 (as small or large as one likes,
   negative included for the lags): multiplying the lags by c keeps the coefficients AND the outcome (filter or
   ParCorError) of levinson_durbin and multiplies the stored error by c; multiplying the block by c does the same
   for lpc.kautocor and lpc.kcovar (all their exceptions included) with the factor c * c.  In particular no
   absolute threshold on an energy can be part of a correct implementation. *)
Theorem C10_levinson_scale_free : forall c r order, c <> 0 ->
  levinson_durbin (scale c r) order = rescale c (levinson_durbin r order).
Proof. exact levinson_scale. Qed.
Print Assumptions C10_levinson_scale_free.

Theorem C10_kautocor_scale_free : forall c x order, c <> 0 ->
  kautocor (scale c x) order = rescale (c * c) (kautocor x order).
Proof. exact kautocor_scale. Qed.
Print Assumptions C10_kautocor_scale_free.

Theorem C10_kcovar_scale_free : forall c x order, c <> 0 ->
  kcovar (scale c x) order = rescale (c * c) (kcovar x order).
Proof. exact kcovar_scale. Qed.
Print Assumptions C10_kcovar_scale_free.
