(* C10 - model of audiolazy.lazy_analysis.acorr / lag_matrix and of
   audiolazy.lazy_lpc.toeplitz / levinson_durbin / lpc.kautocor / lpc.kcovar.

   ZFilter objects are modelled by their list of numerator coefficients
   (index = power of z^-1).  The ZFilter/Poly arithmetic used by the code
   (sum, product by a scalar, reversal "f(1/z) * z**-m", division by a scalar)
   is plain polynomial arithmetic on these lists: that it really is, is the
   job of properties C05/C07, not of this file.
   Exceptions are explicit values.  No proofs in this file. *)
From Coq Require Import List Bool Arith ZArith QArith Qcanon.
From AL Require Import Base.CaseLib.
Import ListNotations.
Open Scope Qc_scope.

Inductive exn := ParCorError | ZeroDivisionError | ValueError | IndexError.
Inductive result (T : Type) := Ok (x : T) | Err (e : exn).
Arguments Ok {T} x.
Arguments Err {T} e.

(* ---------------------------------------------------------------- sums *)
(* sum(f(i, x) for i, x in enumerate(l))  (exact arithmetic: the order of the
   additions is irrelevant) *)
Fixpoint sum_enum_from {T : Type} (f : nat -> T -> Qc) (i : nat) (l : list T) : Qc :=
  match l with
  | [] => 0
  | x :: t => f i x + sum_enum_from f (S i) t
  end.
Definition sum_enum {T : Type} (f : nat -> T -> Qc) (l : list T) : Qc := sum_enum_from f 0 l.

(* sum(f(n) for n in xrange(lo, lo + cnt)) *)
Fixpoint sum_range (f : nat -> Qc) (lo cnt : nat) : Qc :=
  match cnt with
  | O => 0
  | S c => f lo + sum_range f (S lo) c
  end.

(* abs(i - j) on naturals *)
Definition absdiff (i j : nat) : nat := (i - j) + (j - i).

(* ---------------------------------------------------------------- tables *)
(* acorr(blk, max_lag):
     [sum(blk[n] * blk[n + tau] for n in xrange(len(blk) - tau)) for tau in xrange(max_lag + 1)]
   [lags] is the number of entries (max_lag + 1). *)
Definition acorr_lags (blk : list Qc) (lags : nat) : list Qc :=
  map (fun tau => sum_range (fun n => nth n blk 0 * nth (n + tau) blk 0) 0 (length blk - tau))
      (seq 0 lags).
(* max_lag=None means len(blk) - 1, i.e. len(blk) entries *)
Definition acorr (blk : list Qc) (max_lag : option nat) : list Qc :=
  match max_lag with
  | None => acorr_lags blk (length blk)
  | Some m => acorr_lags blk (S m)
  end.

(* lag_matrix(blk, max_lag):
     [[sum(blk[n - i] * blk[n - j] for n in xrange(max_lag, len(blk)))
       for i in xrange(max_lag + 1)] for j in xrange(max_lag + 1)]            *)
Definition lag_table (blk : list Qc) (rows max_lag : nat) : list (list Qc) :=
  map (fun j => map (fun i =>
         sum_range (fun n => nth (n - i) blk 0 * nth (n - j) blk 0) max_lag (length blk - max_lag))
         (seq 0 rows)) (seq 0 rows).
Definition lag_matrix (blk : list Qc) (max_lag : option nat) : result (list (list Qc)) :=
  match max_lag with
  | None => Ok (lag_table blk (length blk) (length blk - 1))   (* empty block: no row at all *)
  | Some m => if length blk <=? m then Err ValueError else Ok (lag_table blk (S m) m)
  end.

(* toeplitz(vect) = [[vect[abs(i-j)] for i in xrange(len(vect))] for j in xrange(len(vect))] *)
Definition toeplitz (vect : list Qc) : list (list Qc) :=
  map (fun j => map (fun i => nth (absdiff i j) vect 0) (seq 0 (length vect))) (seq 0 (length vect)).

(* ---------------------------------------------------------------- coefficient lists *)
Fixpoint padd (a b : list Qc) : list Qc :=       (* polynomial sum *)
  match a, b with
  | [], _ => b
  | _, [] => a
  | x :: a', y :: b' => (x + y) :: padd a' b'
  end.
Definition scale (c : Qc) (a : list Qc) : list Qc := map (Qcmult c) a.
Definition popp (a : list Qc) : list Qc := map Qcopp a.
Definition psub (a b : list Qc) : list Qc := padd a (popp b).      (* self + (-other) *)
Definition unit (m : nat) : list Qc := repeat 0 m ++ [1].          (* z ** -m *)
Definition psum (l : list (list Qc)) : list Qc := fold_right padd [] l.

(* Poly drops zero coefficients, so [numerator] ends at the highest non-zero one *)
Fixpoint strip0 (a : list Qc) : list Qc :=
  match a with
  | [] => []
  | x :: t => match strip0 t with
              | [] => if Qc_eqb x 0 then [] else [x]
              | t' => x :: t'
              end
  end.

(* "inner": sum(K[i][j] * ai * bj for i, ai in enumerate(a) for j, bj in enumerate(b)) *)
Definition inner (K : nat -> nat -> Qc) (a b : list Qc) : Qc :=
  sum_enum (fun i ai => sum_enum (fun j bj => K i j * ai * bj) b) a.

(* ---------------------------------------------------------------- levinson_durbin *)
Definition toep (acdata : list Qc) : nat -> nat -> Qc := fun i j => nth (absdiff i j) acdata 0.

(* Stream(acdata).append(0).take(order + 1), used when order >= len(acdata) *)
Definition extend (acdata : list Qc) (order : nat) : list Qc :=
  acdata ++ repeat 0 (S order - length acdata).

(* for m in xrange(1, order + 1):  (A has the coefficients of powers 0 .. m-1)
     B = A(1 / z) * z ** -m                      B_j = A_(m-j): a 0 then A reversed
     A -= inner(A, z ** -m) / inner(B, B) * B    ZeroDivisionError -> None        *)
Fixpoint lev_loop (acdata : list Qc) (steps m : nat) (A : list Qc) : option (list Qc) :=
  match steps with
  | O => Some A
  | S s =>
      let B := 0 :: rev A in
      let num := inner (toep acdata) A (unit m) in
      let den := inner (toep acdata) B B in
      if Qc_eqb den 0 then None
      else lev_loop acdata s (S m) (psub A (scale (num / den) B))
  end.

Definition lev_run (acdata : list Qc) (order : nat) : result (list Qc * Qc) :=
  match lev_loop acdata order 1 [1] with
  | None => Err ParCorError
  | Some A => Ok (A, inner (toep acdata) A A)          (* A.error = inner(A, A) *)
  end.

Definition levinson_durbin (acdata : list Qc) (order : option nat) : result (list Qc * Qc) :=
  match order with
  | None => match acdata with
            | [] => Err IndexError                     (* order = -1: acdata[0] in inner(A, A) *)
            | _ => lev_run acdata (length acdata - 1)
            end
  | Some p => lev_run (if length acdata <=? p then extend acdata p else acdata) p
  end.

(* lpc.kautocor (and its aliases kacorr, kautocorrelation, kauto_correlation) *)
Definition kautocor (blk : list Qc) (order : option nat) : result (list Qc * Qc) :=
  levinson_durbin (acorr blk order) order.

(* ---------------------------------------------------------------- lpc.kcovar *)
Definition phiK (phi : list (list Qc)) : nat -> nat -> Qc := fun i j => nth j (nth i phi []) 0.

(* the "while True" loop; [rem] = order - m (the loop returns when m >= order).
   B and beta are the Python lists of the same names. *)
Fixpoint kcovar_loop (K : nat -> nat -> Qc) (rem m : nat) (A : list Qc)
         (B : list (list Qc)) (beta : list Qc) : result (list Qc * Qc) :=
  let bm := nth (m - 1) beta 0 in
  if Qc_eqb bm 0 then Err ZeroDivisionError          (* "Can't find next coefficient" *)
  else
    let k := - inner K A (unit m) / bm in
    if Qc_leb 1 k || Qc_leb k (- (1)) then Err ValueError   (* "Unstable filter" *)
    else
      let A' := padd A (scale k (nth (m - 1) B [])) in
      match rem with
      | O => Ok (A', inner K A' A')
      | S rem' =>
          (* gamma = [inner(z ** -(m + 1), B[q]) / beta[q] for q in xrange(m)] *)
          if existsb (fun b => Qc_eqb b 0) (firstn m beta) then Err ZeroDivisionError
          else
            let gamma := map (fun q => inner K (unit (S m)) (nth q B []) / nth q beta 0) (seq 0 m) in
            let Bm := psub (unit (S m))
                           (psum (map (fun q => scale (nth q gamma 0) (nth q B [])) (seq 0 m))) in
            kcovar_loop K rem' (S m) A' (B ++ [Bm]) (beta ++ [inner K Bm Bm])
      end.

Definition kcovar (blk : list Qc) (order : option nat) : result (list Qc * Qc) :=
  match lag_matrix blk order with
  | Err e => Err e
  | Ok phi =>
      match length phi with
      | O | S O => Err IndexError                      (* phi[1][1] in beta = [inner(B[0], B[0])] *)
      | S (S rem) =>                                 (* order = len(phi) - 1 = rem + 1 *)
          let K := phiK phi in
          kcovar_loop K rem 1 [1] [unit 1] [inner K (unit 1) (unit 1)]
      end
  end.
