(* C10 - lpc.kautocor: the energy of a convolved with the zero-extended block is the
   Toeplitz quadratic form of the autocorrelation; the Levinson solution therefore
   minimises it among the monic filters of the same order and its stored error is
   that energy. *)
From Coq Require Import List Bool Arith ZArith QArith Qcanon Lia.
From AL Require Import Base.CaseLib C10.Model C10.Spec C10.Proofs_Sum C10.Proofs_Tab C10.Proofs_Lev.
Import ListNotations.
Open Scope Qc_scope.

Definition Kx (x : list Qc) : nat -> nat -> Qc := fun i j => acorr_sum x (dist i j).

Lemma Kx_sym x i j : Kx x i j = Kx x j i.
Proof. unfold Kx. rewrite dist_sym. reflexivity. Qed.

Lemma krow_Kx x a i : krow (Kx x) a i = ac_row x a i.
Proof. unfold krow, ac_row, Kx. apply sumn_ext. intros j _. ring. Qed.

(* ------------------------------------------------------------------ energy = quadratic form *)
Definition hterm (x : list Qc) (i j n : nat) : Qc :=
  (if (i <=? n)%nat then cf x (n - i) else 0) * (if (j <=? n)%nat then cf x (n - j) else 0).

Lemma hsum_le x i j M : (i <= j)%nat -> (j + length x <= M)%nat ->
  sumn (hterm x i j) M = acorr_sum x (j - i).
Proof.
  intros Hij HM.
  rewrite (sumn_ext _ (fun n => if (j <=? n)%nat then cf x (n - i) * cf x (n - j) else 0)).
  2:{ intros n _. unfold hterm. destruct (j <=? n)%nat eqn:E.
      - apply Nat.leb_le in E. replace (i <=? n)%nat with true by (symmetry; apply Nat.leb_le; lia). reflexivity.
      - ring. }
  rewrite sumn_guard_shift. unfold acorr_sum.
  rewrite (sumn_extend _ (length x) (M - j)); [|lia|].
  - apply sumn_ext. intros t _. replace (t + j - j)%nat with t by lia.
    replace (t + j - i)%nat with (t + (j - i))%nat by lia. ring.
  - intros t Ht. replace (t + j - j)%nat with t by lia. rewrite (cf_over x t) by lia. ring.
Qed.

Lemma hsum x i j M : (i + length x <= M)%nat -> (j + length x <= M)%nat ->
  sumn (hterm x i j) M = acorr_sum x (dist i j).
Proof.
  intros Hi Hj. unfold dist. destruct (i <=? j)%nat eqn:E.
  - apply Nat.leb_le in E. apply hsum_le; assumption.
  - apply Nat.leb_gt in E. rewrite (sumn_ext _ (hterm x j i)) by (intros; unfold hterm; ring).
    apply hsum_le; [lia|assumption].
Qed.

Lemma sumn_mul u v n m : sumn u n * sumn v m = sumn (fun i => sumn (fun j => u i * v j) m) n.
Proof. rewrite <- sumn_scale_r. apply sumn_ext. intros i _. rewrite sumn_scale. reflexivity. Qed.

Lemma inner_qform K a : inner K a a = qform K a.
Proof.
  unfold inner, qform. rewrite sum_enum_sumn. apply sumn_ext. intros i _.
  rewrite sum_enum_sumn. apply sumn_ext. intros j _. ring.
Qed.

Lemma energy_full_qform a x : energy_full a x = qform (Kx x) a.
Proof.
  unfold energy_full, qform, conv_at.
  set (L := length a). set (M := (length x + L - 1)%nat).
  rewrite (sumn_ext _ (fun n => sumn (fun i => sumn (fun j => cf a i * cf a j * hterm x i j n) L) L)).
  2:{ intros n _. rewrite sumn_mul. apply sumn_ext. intros i _. apply sumn_ext. intros j _.
      unfold hterm. destruct (i <=? n)%nat; destruct (j <=? n)%nat; ring. }
  rewrite sumn_swap. apply sumn_ext. intros i Hi.
  rewrite sumn_swap. apply sumn_ext. intros j Hj.
  rewrite sumn_scale. rewrite hsum by (unfold M; lia). reflexivity.
Qed.

Lemma energy_full_nonneg a x : 0 <= energy_full a x.
Proof. unfold energy_full. apply sumn_nonneg. intros n _. apply sq_nonneg. Qed.

(* inner only looks at the coefficients *)
Lemma inner_cf_ext K a a' b b' : (forall k, cf a k = cf a' k) -> (forall k, cf b k = cf b' k) ->
  inner K a b = inner K a' b'.
Proof.
  intros Ha Hb.
  set (n := Nat.max (Nat.max (length a) (length a')) (Nat.max (length b) (length b'))).
  rewrite (inner_bil K a b n), (inner_bil K a' b' n) by (unfold n; lia).
  unfold bil. apply sumn_ext. intros i _. apply sumn_ext. intros j _. rewrite Ha, Hb. reflexivity.
Qed.

(* ------------------------------------------------------------------ orthogonality decomposition *)
Section Minimise.
  Variable x : list Qc.
  Variable p : nat.
  Variable a : list Qc.
  Hypothesis Hlen : length a = S p.
  Hypothesis Hmonic : cf a 0 = 1.
  Hypothesis Hrows : forall i, (1 <= i <= p)%nat -> ac_row x a i = 0.

  Lemma energy_is_row0 : energy_full a x = ac_row x a 0.
  Proof.
    rewrite energy_full_qform, <- inner_qform, inner_rows, Hlen.
    rewrite (sumn_single _ (S p) O); [|lia|].
    - rewrite Hmonic, krow_Kx. ring.
    - intros i Hi Hne. rewrite krow_Kx, Hrows by lia. ring.
  Qed.

  Lemma energy_minimal a' : length a' = S p -> cf a' 0 = 1 -> energy_full a x <= energy_full a' x.
  Proof.
    intros Hlen' Hmonic'.
    set (d := psub a' a).
    assert (Hd0 : cf d 0 = 0) by (unfold d; rewrite cf_psub, Hmonic, Hmonic'; ring).
    assert (Hdl : length d = S p) by (unfold d; rewrite length_psub, Hlen, Hlen'; lia).
    assert (Ha' : forall k, cf a' k = cf (padd a d) k).
    { intro k. unfold d. rewrite cf_padd, cf_psub. ring. }
    assert (Hda : inner (Kx x) d a = 0).
    { rewrite inner_rows, Hdl. apply sumn_zero. intros i Hi. destruct i as [|i].
      - rewrite Hd0. ring.
      - rewrite krow_Kx, Hrows by lia. ring. }
    rewrite (energy_full_qform a' x), <- inner_qform.
    rewrite (inner_cf_ext (Kx x) a' (padd a d) a' (padd a d) Ha' Ha').
    rewrite inner_padd_l, !inner_padd_r.
    rewrite (inner_sym (Kx x) a d) by apply Kx_sym. rewrite Hda.
    rewrite !inner_qform, <- !energy_full_qform.
    replace (energy_full a x) with (energy_full a x + 0) at 1 by ring.
    replace (energy_full a x + 0 + (0 + energy_full d x)) with (energy_full a x + energy_full d x) by ring.
    apply Qcplus_le_compat; [apply Qcle_refl|apply energy_full_nonneg].
  Qed.
End Minimise.

(* ------------------------------------------------------------------ kautocor *)
Lemma cf_map_seq (f : nat -> Qc) n k : (k < n)%nat -> cf (map f (seq 0 n)) k = f k.
Proof.
  intro H. unfold cf. rewrite (nth_indep _ 0 (f O)) by (rewrite map_length, seq_length; exact H).
  rewrite (map_nth f (seq 0 n) O k). rewrite seq_nth by exact H. reflexivity.
Qed.

Lemma yw_row_ac_row x r a p i : (forall k, (k <= p)%nat -> cf r k = acorr_sum x k) ->
  length a = S p -> (i <= p)%nat -> yw_row r a i = ac_row x a i.
Proof.
  intros Hr Hlen Hi. unfold yw_row, ac_row. apply sumn_ext. intros j Hj. rewrite Hr; [reflexivity|].
  unfold dist. destruct (i <=? j)%nat; lia.
Qed.

Lemma kac_core x r p a e : (forall k, (k <= p)%nat -> cf r k = acorr_sum x k) ->
  length a = S p /\ cf a 0 = 1 /\ (forall i, (1 <= i <= p)%nat -> yw_row r a i = 0) /\ e = dot a r ->
  length a = S p /\ cf a 0 = 1 /\
  (forall i, (1 <= i <= p)%nat -> ac_row x a i = 0) /\
  e = energy_full a x /\
  (forall a', length a' = S p -> cf a' 0 = 1 -> energy_full a x <= energy_full a' x).
Proof.
  intros Hr (Hlen & Hmonic & Hrows & He).
  assert (Hrows' : forall i, (1 <= i <= p)%nat -> ac_row x a i = 0).
  { intros i Hi. rewrite <- (yw_row_ac_row x r a p i Hr Hlen) by lia. apply Hrows. exact Hi. }
  repeat split; try assumption.
  - rewrite He, <- yw_row_0, (yw_row_ac_row x r a p O Hr Hlen) by lia.
    symmetry. apply (energy_is_row0 x p a Hlen Hmonic Hrows').
  - apply (energy_minimal x p a Hlen Hmonic Hrows').
Qed.

Lemma kautocor_spec x p a e : kautocor x (Some p) = Ok (a, e) ->
  length a = S p /\ cf a 0 = 1 /\
  (forall i, (1 <= i <= p)%nat -> ac_row x a i = 0) /\
  e = energy_full a x /\
  (forall a', length a' = S p -> cf a' 0 = 1 -> energy_full a x <= energy_full a' x).
Proof.
  unfold kautocor. intro H. apply levinson_spec in H.
  apply (kac_core x (acorr x (Some p)) p a e); [|exact H].
  intros k Hk. rewrite acorr_is_sum. apply cf_map_seq. lia.
Qed.

Lemma kautocor_spec_none x a e : kautocor x None = Ok (a, e) ->
  let p := (length x - 1)%nat in
  length a = S p /\ cf a 0 = 1 /\
  (forall i, (1 <= i <= p)%nat -> ac_row x a i = 0) /\
  e = energy_full a x /\
  (forall a', length a' = S p -> cf a' 0 = 1 -> energy_full a x <= energy_full a' x).
Proof.
  destruct x as [|x0 xt]; [intro H; discriminate H|].
  unfold kautocor. intro H. apply levinson_spec_none in H.
  assert (Hl : length (acorr (x0 :: xt) None) = length (x0 :: xt)).
  { rewrite acorr_is_sum, map_length, seq_length. reflexivity. }
  rewrite Hl in H. cbv zeta in *.
  apply (kac_core (x0 :: xt) (acorr (x0 :: xt) None) (length (x0 :: xt) - 1) a e); [|exact H].
  intros k Hk. rewrite acorr_is_sum. apply cf_map_seq. cbn [length] in *. lia.
Qed.
