(* C10 - completeness of the run-time checkers with respect to the model: whenever the implementation's
   observation equals the model's output (corr_* = true) the property checker holds_* is true.  Hence a
   holds_* failure on a run can only come with a broken correspondence, never from the checker itself. *)
From Coq Require Import List Bool Arith ZArith QArith Qcanon Lia String.
From AL Require Import Base.CaseLib C10.Model C10.Spec C10.Check C10.Proofs_Sum C10.Proofs_Tab
  C10.Proofs_Lev C10.Proofs_Kac C10.Proofs_Kcv C10.Proofs_Check.
Import ListNotations.
Open Scope Qc_scope.

Lemma Qc_eqb_refl q : Qc_eqb q q = true.
Proof. apply Qc_eqb_spec. reflexivity. Qed.

Lemma list_Qc_eqb_eq a b : list_eqb Qc_eqb a b = true <-> a = b.
Proof. apply list_eqb_spec. apply Qc_eqb_spec. Qed.

Lemma tab_eqb_eq a b : tab_eqb a b = true <-> a = b.
Proof. unfold tab_eqb. apply list_eqb_spec. apply list_Qc_eqb_eq. Qed.

Lemma fobs_eqb_ok n e m : fobs_eqb (FOk n e) m = true -> exists a, m = Ok (a, e) /\ n = strip0 a.
Proof.
  destruct m as [[a e']|x]; simpl; [|discriminate]. intro H.
  apply andb_true_iff in H as [H1 H2]. apply list_Qc_eqb_eq in H1. apply Qc_eqb_spec in H2.
  exists a. subst. split; reflexivity.
Qed.

Lemma forallb_seq_intro f s n : (forall i, (s <= i < s + n)%nat -> f i = true) -> forallb f (seq s n) = true.
Proof. intro H. apply forallb_forall. intros i Hi. apply in_seq in Hi. apply H. exact Hi. Qed.

Lemma yw_ok_complete r a p e : cf a 0 = 1 -> (List.length a <= S p)%nat ->
  (forall i, (1 <= i <= p)%nat -> yw_row r a i = 0) -> e = dot a r -> yw_ok r a p e = true.
Proof.
  intros H0 Hl Hrows He. unfold yw_ok. rewrite H0, Qc_eqb_refl. cbn [andb].
  replace (List.length a <=? S p)%nat with true by (symmetry; apply Nat.leb_le; exact Hl). cbn [andb].
  rewrite forallb_seq_intro by (intros i Hi; rewrite Hrows by lia; apply Qc_eqb_refl). cbn [andb].
  subst e. apply Qc_eqb_refl.
Qed.

(* from the full-length coefficient list of the model to the numerator the caller sees *)
Lemma strip_transfer r a p e :
  List.length a = S p /\ cf a 0 = 1 /\ (forall i, (1 <= i <= p)%nat -> yw_row r a i = 0) /\ e = dot a r ->
  yw_ok r (strip0 a) p e = true.
Proof.
  intros (HA & H0 & Hrows & He). apply yw_ok_complete.
  - rewrite cf_strip0. exact H0.
  - rewrite <- HA. apply length_strip0.
  - intros i Hi. rewrite <- (Hrows i Hi). apply yw_row_cf_ext. apply cf_strip0.
  - rewrite He. symmetry. apply dot_cf_ext. apply cf_strip0.
Qed.

Lemma ferr_parcor s m : fobs_eqb (FErr s) m = true ->
  (if String.eqb s "ParCorError" then match m with Err ParCorError => true | _ => false end else true) = true.
Proof.
  destruct m as [[a e]|x]; simpl; [discriminate|]. intro H. apply String.eqb_eq in H. subst.
  destruct x; reflexivity.
Qed.

Lemma corr_lev_holds c : corr_lev c = true -> holds_lev c = true.
Proof.
  unfold corr_lev, holds_lev. destruct (l_obs c) as [n e|s]; [|apply ferr_parcor].
  intro H. apply fobs_eqb_ok in H as (a & Hm & ->).
  destruct (l_order c) as [p|].
  - apply strip_transfer. apply levinson_spec. exact Hm.
  - apply strip_transfer. apply (levinson_spec_none _ _ _ Hm).
Qed.

(* ------------------------------------------------------------------ lpc.kautocor *)
Lemma cf_bump_0 d : forall i a, (1 <= i)%nat -> cf (bump d i a) 0 = cf a 0.
Proof. intros i a Hi. destruct i as [|k]; [lia|]. destruct a; reflexivity. Qed.

Lemma length_bump d : forall i a, List.length (bump d i a) = Nat.max (List.length a) (S i).
Proof.
  induction i as [|k IH]; intros [|x t]; cbn [bump List.length]; try rewrite IH; cbn [List.length]; lia.
Qed.

Lemma yw_row_ac_row_le x r a p i : (forall k, (k <= p)%nat -> cf r k = acorr_sum x k) ->
  (List.length a <= S p)%nat -> (i <= p)%nat -> yw_row r a i = ac_row x a i.
Proof.
  intros Hr Hlen Hi. unfold yw_row, ac_row. apply sumn_ext. intros j Hj. rewrite Hr; [reflexivity|].
  unfold dist. destruct (i <=? j)%nat; lia.
Qed.

Lemma kac_complete x p A e :
  List.length A = S p /\ cf A 0 = 1 /\
  (forall i, (1 <= i <= p)%nat -> ac_row x A i = 0) /\
  e = energy_full A x /\
  (forall a', List.length a' = S p -> cf a' 0 = 1 -> energy_full A x <= energy_full a' x) ->
  yw_ok (map (acorr_sum x) (seq 0 (S p))) (strip0 A) p e
  && Qc_eqb e (energy_full (strip0 A) x)
  && ((p =? 0)%nat || Qc_leb e (energy_full (bump 1 1 (strip0 A)) x)
                      && Qc_leb e (energy_full (bump (- (1)) p (strip0 A)) x)) = true.
Proof.
  intros (HA & H0 & Hrows & He & _).
  set (n := strip0 A). set (r := map (acorr_sum x) (seq 0 (S p))).
  assert (Hr : forall k, (k <= p)%nat -> cf r k = acorr_sum x k) by (intros; apply cf_map_seq; lia).
  assert (Hn0 : cf n 0 = 1) by (unfold n; rewrite cf_strip0; exact H0).
  assert (Hnl : (List.length n <= S p)%nat) by (rewrite <- HA; apply length_strip0).
  assert (Hnr : forall i, (i <= p)%nat -> ac_row x n i = ac_row x A i)
    by (intros; apply ac_row_cf_ext; apply cf_strip0).
  assert (Hnrows : forall i, (1 <= i <= p)%nat -> ac_row x n i = 0)
    by (intros i Hi; rewrite Hnr by lia; apply Hrows; exact Hi).
  assert (Hen : energy_full n x = e)
    by (rewrite He; apply energy_full_cf_ext; apply cf_strip0).
  apply andb_true_iff; split; [apply andb_true_iff; split|].
  - apply yw_ok_complete; try assumption.
    + intros i Hi. rewrite (yw_row_ac_row_le x r n p i Hr Hnl) by lia. apply Hnrows. exact Hi.
    + rewrite <- yw_row_0, (yw_row_ac_row_le x r n p O Hr Hnl) by lia. rewrite Hnr by lia.
      rewrite He. apply (energy_is_row0 x p A HA H0 Hrows).
  - rewrite Hen. apply Qc_eqb_refl.
  - destruct (p =? 0)%nat eqn:Ep; [reflexivity|]. apply Nat.eqb_neq in Ep. cbn [orb].
    rewrite <- Hen. apply andb_true_iff; split; apply Qc_leb_spec;
      apply (minimal_le x p n Hnl Hn0 Hnrows); try (rewrite length_bump; lia);
      rewrite cf_bump_0 by lia; exact Hn0.
Qed.

Lemma corr_kac_holds c : corr_kac c = true -> holds_kac c = true.
Proof.
  unfold corr_kac, holds_kac. destruct (a_obs c) as [n e|s]; [|apply ferr_parcor].
  intro H. apply fobs_eqb_ok in H as (a & Hm & ->). cbv zeta.
  destruct (a_order c) as [p|].
  - apply kac_complete. apply kautocor_spec. exact Hm.
  - apply kac_complete. apply (kautocor_spec_none _ _ _ Hm).
Qed.

(* ------------------------------------------------------------------ lpc.kcovar *)
Lemma cov_row_cf_ext x a a' p i : (forall k, cf a k = cf a' k) -> cov_row x a p i = cov_row x a' p i.
Proof.
  intro H. unfold cov_row.
  rewrite <- (sumn_extend _ (List.length a) (Nat.max (List.length a) (List.length a')))
    by (try lia; intros j Hj; rewrite cf_over by lia; ring).
  rewrite <- (sumn_extend _ (List.length a') (Nat.max (List.length a) (List.length a')))
    by (try lia; intros j Hj; rewrite cf_over by lia; ring).
  apply sumn_ext. intros j _. rewrite H. reflexivity.
Qed.

Lemma energy_cov_cf_ext a a' x p : (forall k, cf a k = cf a' k) -> energy_cov a x p = energy_cov a' x p.
Proof. intro H. rewrite !energy_cov_qform, <- !inner_qform. apply inner_cf_ext; exact H. Qed.

Lemma kcv_complete x p A e :
  List.length A = S p /\ cf A 0 = 1 /\
  (forall i, (1 <= i <= p)%nat -> cov_row x A p i = 0) /\ e = energy_cov A x p ->
  Qc_eqb (cf (strip0 A) 0) 1 && (List.length (strip0 A) <=? S p)%nat
  && forallb (fun i => Qc_eqb (cov_row x (strip0 A) p i) 0) (seq 1 p)
  && Qc_eqb e (energy_cov (strip0 A) x p) = true.
Proof.
  intros (HA & H0 & Hrows & He).
  rewrite cf_strip0, H0, Qc_eqb_refl. cbn [andb].
  replace (List.length (strip0 A) <=? S p)%nat with true
    by (symmetry; apply Nat.leb_le; rewrite <- HA; apply length_strip0). cbn [andb].
  rewrite forallb_seq_intro.
  - cbn [andb]. rewrite He, (energy_cov_cf_ext (strip0 A) A) by apply cf_strip0. apply Qc_eqb_refl.
  - intros i Hi. rewrite (cov_row_cf_ext x (strip0 A) A) by apply cf_strip0.
    rewrite Hrows by lia. apply Qc_eqb_refl.
Qed.

Lemma corr_kcv_holds c : corr_kcv c = true -> holds_kcv c = true.
Proof.
  unfold corr_kcv, holds_kcv. destruct (c_obs c) as [n e|s]; [|reflexivity].
  intro H. apply fobs_eqb_ok in H as (a & Hm & ->). cbv zeta.
  destruct (c_order c) as [p|].
  - apply kcv_complete. apply kcovar_spec in Hm. destruct Hm as (_ & Hm). exact Hm.
  - apply kcv_complete. apply kcovar_spec_none in Hm. cbv zeta in Hm. destruct Hm as (_ & Hm). exact Hm.
Qed.

(* ------------------------------------------------------------------ tables *)
Lemma tobs_eqb_ok t m : tobs_eqb (TOk t) m = true -> m = Ok t.
Proof. destruct m as [t'|x]; simpl; [|discriminate]. intro H. apply tab_eqb_eq in H. subst. reflexivity. Qed.

Lemma tobs_eqb_err s m : tobs_eqb (TErr s) m = true -> exists x, m = Err x.
Proof. destruct m as [t'|x]; simpl; [discriminate|]. intros _. exists x. reflexivity. Qed.

Lemma corr_tab_holds c : corr_tab c = true -> holds_tab c = true.
Proof.
  unfold corr_tab, holds_tab. intro H.
  apply andb_true_iff in H as [H H3]. apply andb_true_iff in H as [H1 H2].
  apply list_Qc_eqb_eq in H1. apply tab_eqb_eq in H3. cbv zeta.
  apply andb_true_iff; split; [apply andb_true_iff; split|].
  - apply list_Qc_eqb_eq. rewrite H1. apply acorr_is_sum.
  - destruct (t_lagm c) as [t|s].
    + apply tobs_eqb_ok in H2. apply tab_eqb_eq. destruct (t_lag c) as [m|].
      * rewrite lag_matrix_is_sum in H2. destruct (List.length (t_blk c) <=? m)%nat; [discriminate|].
        inversion H2. replace (S m - 1)%nat with m by lia. reflexivity.
      * rewrite lag_matrix_none_is_sum in H2. inversion H2. reflexivity.
    + apply tobs_eqb_err in H2 as [x H2]. destruct (t_lag c) as [m|].
      * rewrite lag_matrix_is_sum in H2. destruct (List.length (t_blk c) <=? m)%nat eqn:E; [|discriminate].
        apply Nat.leb_le in E. apply Nat.ltb_lt. lia.
      * rewrite lag_matrix_none_is_sum in H2. discriminate.
  - apply tab_eqb_eq. rewrite H3. apply toeplitz_is_table.
Qed.

(* the same through the generated definitions *)
From AL Require Import C10.TabLib C10.Gen_Tables C10.Proofs_Gen.

Lemma corr_tabz_holds c : corr_tabz c = true -> holds_tabz c = true.
Proof.
  unfold corr_tabz, holds_tabz. intro H. destruct (z_lag c) as [z|] eqn:El.
  - destruct (z <? 0)%Z eqn:Ez; [reflexivity|]. apply Z.ltb_ge in Ez.
    apply corr_tab_holds. unfold corr_tab. cbn [t_blk t_lag t_acorr t_lagm t_toep].
    rewrite <- gen_acorr_eq, <- gen_lag_matrix_eq, <- gen_toeplitz_eq. cbn [option_map].
    rewrite Z2Nat.id by exact Ez. exact H.
  - apply corr_tab_holds. unfold corr_tab. cbn [t_blk t_lag t_acorr t_lagm t_toep].
    rewrite <- gen_acorr_eq, <- gen_lag_matrix_eq, <- gen_toeplitz_eq. cbn [option_map]. exact H.
Qed.

(* ------------------------------------------------------------------ call histories *)
(* the specification of a history is per call: a call is judged on its own block contents only *)
Lemma hist_calls_independent c1 c2 :
  corr_hist (c1 ++ c2) = corr_hist c1 && corr_hist c2 /\
  holds_hist (c1 ++ c2) = holds_hist c1 && holds_hist c2.
Proof. unfold corr_hist, holds_hist. rewrite !forallb_app. split; reflexivity. Qed.

Lemma corr_step_holds s : corr_step s = true -> holds_step s = true.
Proof.
  unfold corr_step, holds_step. destruct s as [f x ord o]. cbn [h_fn h_blk h_order h_obs]. cbv zeta.
  destruct f; destruct o as [o|l|t]; try discriminate.
  - apply corr_kac_holds.
  - apply corr_kcv_holds.
  - apply corr_lev_holds.
  - intro H. apply list_Qc_eqb_eq in H. apply list_Qc_eqb_eq. rewrite H. apply acorr_is_sum.
  - intro H. destruct t as [t|e].
    + apply tobs_eqb_ok in H. apply tab_eqb_eq. destruct ord as [m|].
      * rewrite lag_matrix_is_sum in H. destruct (List.length x <=? m)%nat; [discriminate|].
        inversion H. replace (S m - 1)%nat with m by lia. reflexivity.
      * rewrite lag_matrix_none_is_sum in H. inversion H. reflexivity.
    + apply tobs_eqb_err in H as [e' H]. destruct ord as [m|].
      * rewrite lag_matrix_is_sum in H. destruct (List.length x <=? m)%nat eqn:E; [|discriminate].
        apply Nat.leb_le in E. apply Nat.ltb_lt. lia.
      * rewrite lag_matrix_none_is_sum in H. discriminate.
  - destruct t as [t|e]; [|discriminate]. intro H. apply tab_eqb_eq in H. apply tab_eqb_eq.
    rewrite H. apply toeplitz_is_table.
  - reflexivity.
  - reflexivity.
Qed.

Lemma corr_hist_holds c : corr_hist c = true -> holds_hist c = true.
Proof.
  unfold corr_hist, holds_hist. rewrite !forallb_forall. intros H s Hs. apply corr_step_holds. apply H. exact Hs.
Qed.
