(* C10 - soundness of the boolean checkers of Check.v: when [holds_*] evaluates to true on an
   observation of the IMPLEMENTATION, that observation has the stated property (for kautocor this
   includes minimality among all monic filters, through the orthogonality decomposition). *)
From Coq Require Import List Bool Arith ZArith QArith Qcanon Lia.
From AL Require Import Base.CaseLib C10.Model C10.Spec C10.Check C10.Proofs_Sum C10.Proofs_Tab
  C10.Proofs_Lev C10.Proofs_Kac C10.Proofs_Kcv.
Import ListNotations.
Open Scope Qc_scope.

Lemma forallb_seq f s n : forallb f (seq s n) = true -> forall i, (s <= i < s + n)%nat -> f i = true.
Proof. intros H i Hi. rewrite forallb_forall in H. apply H. apply in_seq. exact Hi. Qed.

Lemma yw_ok_sound r a p e : yw_ok r a p e = true ->
  cf a 0 = 1 /\ (length a <= S p)%nat /\ (forall i, (1 <= i <= p)%nat -> yw_row r a i = 0) /\ e = dot a r.
Proof.
  unfold yw_ok. intro H.
  apply andb_true_iff in H as [H H4]. apply andb_true_iff in H as [H H3]. apply andb_true_iff in H as [H1 H2].
  repeat split.
  - apply Qc_eqb_spec. exact H1.
  - apply Nat.leb_le. exact H2.
  - intros i Hi. apply Qc_eqb_spec.
    exact (forallb_seq (fun i => Qc_eqb (yw_row r a i) 0) 1 p H3 i ltac:(lia)).
  - apply Qc_eqb_spec. exact H4.
Qed.

(* ------------------------------------------------------------------ levinson_durbin *)
Lemma holds_lev_sound c a e : holds_lev c = true -> l_obs c = FOk a e ->
  let p := match l_order c with None => (length (l_r c) - 1)%nat | Some p => p end in
  cf a 0 = 1 /\ (length a <= S p)%nat /\
  (forall i, (1 <= i <= p)%nat -> yw_row (l_r c) a i = 0) /\ e = dot a (l_r c).
Proof. unfold holds_lev. intros H Ho. rewrite Ho in H. apply yw_ok_sound. exact H. Qed.

(* ------------------------------------------------------------------ padding to the full order *)
Lemma cf_pad a n k : cf (a ++ repeat 0 n) k = cf a k.
Proof.
  unfold cf. destruct (Nat.lt_ge_cases k (length a)) as [H|H].
  - apply app_nth1. exact H.
  - rewrite app_nth2 by exact H. rewrite nth_repeat. symmetry. apply nth_overflow. exact H.
Qed.

Lemma length_pad a p : (length a <= S p)%nat -> length (a ++ repeat 0 (S p - length a)) = S p.
Proof. intro H. rewrite app_length, repeat_length. lia. Qed.

Lemma energy_full_cf_ext a a' x : (forall k, cf a k = cf a' k) -> energy_full a x = energy_full a' x.
Proof. intro H. rewrite !energy_full_qform, <- !inner_qform. apply inner_cf_ext; exact H. Qed.

Lemma krow_cf_ext K a a' i : (forall k, cf a k = cf a' k) -> krow K a i = krow K a' i.
Proof.
  intro H. rewrite (krow_extend K a i (Nat.max (length a) (length a'))) by lia.
  rewrite (krow_extend K a' i (Nat.max (length a) (length a'))) by lia.
  apply sumn_ext. intros j _. rewrite H. reflexivity.
Qed.

Lemma ac_row_cf_ext x a a' i : (forall k, cf a k = cf a' k) -> ac_row x a i = ac_row x a' i.
Proof. intro H. rewrite <- !krow_Kx. apply krow_cf_ext. exact H. Qed.

(* a filter that passes the normal-equation test is a minimiser among the monic filters of order <= p *)
Lemma minimal_le x p a : (length a <= S p)%nat -> cf a 0 = 1 ->
  (forall i, (1 <= i <= p)%nat -> ac_row x a i = 0) ->
  forall a', (length a' <= S p)%nat -> cf a' 0 = 1 -> energy_full a x <= energy_full a' x.
Proof.
  intros Hl H0 Hrows a' Hl' H0'.
  set (b := a ++ repeat 0 (S p - length a)). set (b' := a' ++ repeat 0 (S p - length a')).
  rewrite (energy_full_cf_ext a b x) by (intro; symmetry; apply cf_pad).
  rewrite (energy_full_cf_ext a' b' x) by (intro; symmetry; apply cf_pad).
  apply (energy_minimal x p b).
  - apply length_pad. exact Hl.
  - unfold b. rewrite cf_pad. exact H0.
  - intros i Hi. rewrite <- (Hrows i Hi). apply ac_row_cf_ext. intro. apply cf_pad.
  - apply length_pad. exact Hl'.
  - unfold b'. rewrite cf_pad. exact H0'.
Qed.

(* ------------------------------------------------------------------ lpc.kautocor *)
Lemma holds_kac_sound c a e : holds_kac c = true -> a_obs c = FOk a e ->
  let x := a_blk c in
  let p := match a_order c with None => (length x - 1)%nat | Some p => p end in
  cf a 0 = 1 /\ (length a <= S p)%nat /\
  (forall i, (1 <= i <= p)%nat -> ac_row x a i = 0) /\
  e = energy_full a x /\
  (forall a', (length a' <= S p)%nat -> cf a' 0 = 1 -> energy_full a x <= energy_full a' x).
Proof.
  unfold holds_kac. intros H Ho. rewrite Ho in H. cbv zeta in *.
  set (x := a_blk c) in *.
  set (p := match a_order c with None => (length x - 1)%nat | Some p => p end) in *.
  apply andb_true_iff in H as [H _]. apply andb_true_iff in H as [H He].
  apply yw_ok_sound in H. destruct H as (H0 & Hl & Hrows & _).
  assert (Hrows' : forall i, (1 <= i <= p)%nat -> ac_row x a i = 0).
  { intros i Hi. rewrite <- (Hrows i Hi). unfold yw_row, ac_row. apply sumn_ext. intros j Hj.
    rewrite cf_map_seq; [reflexivity|]. unfold dist. destruct (i <=? j)%nat; lia. }
  repeat split; try assumption.
  - apply Qc_eqb_spec. exact He.
  - apply (minimal_le x p a Hl H0 Hrows').
Qed.

(* ------------------------------------------------------------------ lpc.kcovar *)
Lemma holds_kcv_sound c a e : holds_kcv c = true -> c_obs c = FOk a e ->
  let x := c_blk c in
  let p := match c_order c with None => (length x - 1)%nat | Some p => p end in
  cf a 0 = 1 /\ (length a <= S p)%nat /\
  (forall i, (1 <= i <= p)%nat -> cov_row x a p i = 0) /\
  e = energy_cov a x p.
Proof.
  unfold holds_kcv. intros H Ho. rewrite Ho in H. cbv zeta in *.
  apply andb_true_iff in H as [H H4]. apply andb_true_iff in H as [H H3]. apply andb_true_iff in H as [H1 H2].
  repeat split.
  - apply Qc_eqb_spec. exact H1.
  - apply Nat.leb_le. exact H2.
  - intros i Hi. apply Qc_eqb_spec.
    exact (forallb_seq _ 1 _ H3 i ltac:(lia)).
  - apply Qc_eqb_spec. exact H4.
Qed.
