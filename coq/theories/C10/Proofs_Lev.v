(* C10 - Levinson-Durbin: by induction on the order, using the reversal symmetry
   of the Toeplitz form, the loop of the model keeps  "A is monic of length m and
   its Yule-Walker rows 1..m-1 vanish"; the stored error is row 0. *)
From Coq Require Import List Bool Arith ZArith QArith Qcanon Lia.
From AL Require Import Base.CaseLib C10.Model C10.Spec C10.Proofs_Sum.
Import ListNotations.
Open Scope Qc_scope.

Lemma toep_cf r i j : toep r i j = cf r (dist i j).
Proof. unfold toep, cf. rewrite absdiff_dist. reflexivity. Qed.

Lemma toep_sym r i j : toep r i j = toep r j i.
Proof. rewrite !toep_cf, dist_sym. reflexivity. Qed.

Lemma krow_toep r a i : krow (toep r) a i = yw_row r a i.
Proof. unfold krow, yw_row. apply sumn_ext. intros j _. rewrite toep_cf. ring. Qed.

Lemma yw_row_extend r a i n : (length a <= n)%nat ->
  yw_row r a i = sumn (fun j => cf a j * cf r (dist i j)) n.
Proof.
  intro H. unfold yw_row. symmetry. apply sumn_extend; [exact H|].
  intros j Hj. rewrite cf_over by lia. ring.
Qed.

Lemma yw_row_ext r r' a i : (forall k, cf r k = cf r' k) -> yw_row r a i = yw_row r' a i.
Proof. intro H. unfold yw_row. apply sumn_ext. intros j _. rewrite H. reflexivity. Qed.

Lemma yw_row_0 r a : yw_row r a 0 = dot a r.
Proof. unfold yw_row, dot. apply sumn_ext. intros j _. unfold dist. simpl. rewrite Nat.sub_0_r. reflexivity. Qed.

Lemma yw_row_cf_ext r a a' i : (forall k, cf a k = cf a' k) -> yw_row r a i = yw_row r a' i.
Proof.
  intro H. rewrite (yw_row_extend r a i (Nat.max (length a) (length a'))) by lia.
  rewrite (yw_row_extend r a' i (Nat.max (length a) (length a'))) by lia.
  apply sumn_ext. intros j _. rewrite H. reflexivity.
Qed.

Lemma dot_cf_ext r a a' : (forall k, cf a k = cf a' k) -> dot a r = dot a' r.
Proof. intro H. rewrite <- !yw_row_0. apply yw_row_cf_ext. exact H. Qed.

(* B = A(1/z) * z**-m has the rows of A in reversed order *)
Lemma yw_row_rev r A m i : length A = m -> (i <= m)%nat ->
  yw_row r (0 :: rev A) i = yw_row r A (m - i).
Proof.
  intros HA Hi. unfold yw_row at 1. cbn [length]. rewrite rev_length, HA.
  rewrite sumn_first. unfold cf at 1. cbn [nth].
  unfold yw_row. rewrite HA. rewrite (sumn_rev _ m).
  replace (0 * cf r (dist i 0)) with 0 by ring. rewrite Qcplus_0_l.
  apply sumn_ext. intros j Hj. rewrite cf_cons, cf_rev by lia. rewrite HA.
  replace (m - 1 - (m - 1 - j))%nat with j by lia.
  f_equal. f_equal. unfold dist.
  destruct (i <=? S (m - 1 - j))%nat eqn:E1; destruct (m - i <=? j)%nat eqn:E2;
    try apply Nat.leb_le in E1; try apply Nat.leb_le in E2;
    try apply Nat.leb_gt in E1; try apply Nat.leb_gt in E2; lia.
Qed.

Definition Inv (r : list Qc) (m : nat) (A : list Qc) : Prop :=
  length A = m /\ cf A 0 = 1 /\ forall i, (1 <= i < m)%nat -> yw_row r A i = 0.

Lemma Inv_init r : Inv r 1 [1].
Proof. repeat split. intros i Hi. lia. Qed.

Lemma lev_num r m A : inner (toep r) A (unit m) = yw_row r A m.
Proof. rewrite inner_sym by apply toep_sym. rewrite inner_unit_l. apply krow_toep. Qed.

Lemma lev_den r m A : (1 <= m)%nat -> Inv r m A ->
  inner (toep r) (0 :: rev A) (0 :: rev A) = yw_row r A 0.
Proof.
  intros Hm (HA & H0 & Hrows). rewrite inner_rows. cbn [length]. rewrite rev_length, HA.
  rewrite (sumn_single _ (S m) m); [| lia |].
  - rewrite krow_toep, (yw_row_rev r A m m HA) by lia.
    assert (Hcm : cf (0 :: rev A) m = 1).
    { destruct m as [|m']; [lia|]. rewrite cf_cons, cf_rev by lia. rewrite HA.
      replace (S m' - 1 - m')%nat with O by lia. exact H0. }
    rewrite Hcm. replace (m - m)%nat with O by lia. ring.
  - intros i Hi Hne. rewrite krow_toep, (yw_row_rev r A m i HA) by lia.
    destruct i as [|i].
    + unfold cf at 1. cbn [nth]. ring.
    + rewrite Hrows by lia. ring.
Qed.

Lemma lev_step r m A c : (1 <= m)%nat -> Inv r m A ->
  c * yw_row r A 0 = yw_row r A m ->
  Inv r (S m) (psub A (scale c (0 :: rev A))).
Proof.
  intros Hm HI Hc. pose proof HI as (HA & H0 & Hrows).
  assert (HB : length (0 :: rev A) = S m) by (cbn [length]; rewrite rev_length; lia).
  split; [|split].
  - rewrite length_psub, length_scale, HB, HA. lia.
  - rewrite cf_psub, cf_scale, H0. unfold cf at 1. cbn [nth]. ring.
  - intros i Hi. rewrite <- krow_toep, krow_psub, krow_scale, !krow_toep.
    rewrite (yw_row_rev r A m i HA) by lia.
    destruct (Nat.eq_dec i m) as [->|Hne].
    + replace (m - m)%nat with O by lia. rewrite Hc. ring.
    + rewrite !Hrows by lia. ring.
Qed.

Lemma lev_loop_inv r : forall steps m A A', (1 <= m)%nat -> Inv r m A ->
  lev_loop r steps m A = Some A' -> Inv r (m + steps) A'.
Proof.
  induction steps as [|s IH]; intros m A A' Hm HI H.
  - simpl in H. inversion H; subst. replace (m + 0)%nat with m by lia. exact HI.
  - cbn [lev_loop] in H.
    destruct (Qc_eqb (inner (toep r) (0 :: rev A) (0 :: rev A)) 0) eqn:E; [discriminate|].
    assert (Hden : inner (toep r) (0 :: rev A) (0 :: rev A) <> 0).
    { intro Hz. apply Qc_eqb_spec in Hz. congruence. }
    apply IH in H; [replace (m + S s)%nat with (S m + s)%nat by lia; exact H|lia|].
    apply lev_step; [exact Hm|exact HI|].
    rewrite lev_num. rewrite (lev_den r m A Hm HI) in *. field. exact Hden.
Qed.

(* the stored error inner(A, A) is row 0 = sum_j a_j r_j *)
Lemma lev_error r m A : (1 <= m)%nat -> Inv r m A -> inner (toep r) A A = dot A r.
Proof.
  intros Hm (HA & H0 & Hrows). rewrite inner_rows, HA.
  rewrite (sumn_single _ m O); [| lia |].
  - rewrite H0, krow_toep, yw_row_0. ring.
  - intros i Hi Hne. rewrite krow_toep, Hrows by lia. ring.
Qed.

Lemma lev_run_spec r p a e : lev_run r p = Ok (a, e) ->
  length a = S p /\ cf a 0 = 1 /\ (forall i, (1 <= i <= p)%nat -> yw_row r a i = 0) /\ e = dot a r.
Proof.
  unfold lev_run. destruct (lev_loop r p 1 [1]) as [A|] eqn:E; [|discriminate].
  intro H. inversion H; subst.
  pose proof (lev_loop_inv r p 1 [1] a (le_n 1) (Inv_init r) E) as HI.
  pose proof HI as (HA & H0 & Hrows).
  repeat split; try assumption.
  - intros i Hi. apply Hrows. lia.
  - apply (lev_error r (1 + p)); [lia|exact HI].
Qed.

Lemma cf_extend r p k : cf (extend r p) k = cf r k.
Proof.
  unfold extend, cf. destruct (Nat.lt_ge_cases k (length r)) as [H|H].
  - apply app_nth1. exact H.
  - rewrite app_nth2 by exact H. rewrite nth_repeat. symmetry. apply nth_overflow. exact H.
Qed.

(* the lags the loop really uses (zero extension when order >= len(acdata)) have the same entries *)
Definition used (r : list Qc) (p : nat) : list Qc := if (length r <=? p)%nat then extend r p else r.

Lemma cf_used r p k : cf (used r p) k = cf r k.
Proof. unfold used. destruct (length r <=? p)%nat; [apply cf_extend|reflexivity]. Qed.

Lemma levinson_spec r p a e : levinson_durbin r (Some p) = Ok (a, e) ->
  length a = S p /\ cf a 0 = 1 /\ (forall i, (1 <= i <= p)%nat -> yw_row r a i = 0) /\ e = dot a r.
Proof.
  cbn [levinson_durbin]. fold (used r p). intro H. apply lev_run_spec in H.
  destruct H as (HA & H0 & Hrows & He). repeat split; try assumption.
  - intros i Hi. rewrite <- (Hrows i Hi). apply yw_row_ext. intro k. symmetry. apply cf_used.
  - rewrite He. rewrite <- !yw_row_0. apply yw_row_ext. apply cf_used.
Qed.

(* order=None: the order is len(acdata) - 1 *)
Lemma levinson_spec_none r a e : levinson_durbin r None = Ok (a, e) ->
  let p := (length r - 1)%nat in
  length a = S p /\ cf a 0 = 1 /\ (forall i, (1 <= i <= p)%nat -> yw_row r a i = 0) /\ e = dot a r.
Proof.
  cbn [levinson_durbin]. destruct r as [|x t]; [discriminate|]. intro H.
  apply lev_run_spec in H. exact H.
Qed.

(* what the caller sees is filt.numerator = the coefficient list without trailing zeros *)
Lemma levinson_numerator_spec r p a e : levinson_durbin r (Some p) = Ok (a, e) ->
  (length (strip0 a) <= S p)%nat /\ cf (strip0 a) 0 = 1 /\
  (forall i, (1 <= i <= p)%nat -> yw_row r (strip0 a) i = 0) /\ e = dot (strip0 a) r.
Proof.
  intro H. apply levinson_spec in H. destruct H as (HA & H0 & Hrows & He).
  split; [|split; [|split]].
  - rewrite <- HA. apply length_strip0.
  - rewrite cf_strip0. exact H0.
  - intros i Hi. rewrite <- (Hrows i Hi). apply yw_row_cf_ext. apply cf_strip0.
  - rewrite He. symmetry. apply dot_cf_ext. apply cf_strip0.
Qed.

(* ------------------------------------------------------------------ the guard, exactly *)
(* the only exception for a given order is ParCorError ... *)
Lemma levinson_only_parcor r p e : levinson_durbin r (Some p) = Err e -> e = ParCorError.
Proof.
  cbn [levinson_durbin]. unfold lev_run. destruct (lev_loop _ p 1 [1]); intro H; inversion H. reflexivity.
Qed.

Lemma inner_toep_ext r r' a b : (forall k, cf r k = cf r' k) -> inner (toep r) a b = inner (toep r') a b.
Proof. intro H. apply inner_ext. intros i j _ _. rewrite !toep_cf. apply H. Qed.

Lemma lev_loop_ext r r' : (forall k, cf r k = cf r' k) ->
  forall steps m A, lev_loop r steps m A = lev_loop r' steps m A.
Proof.
  intro H. induction steps as [|s IH]; intros m A; [reflexivity|].
  cbn [lev_loop]. rewrite !(inner_toep_ext r r' _ _ H). destruct (Qc_eqb _ 0); [reflexivity|apply IH].
Qed.

Lemma lev_loop_S r s m A :
  lev_loop r (S s) m A =
  if Qc_eqb (inner (toep r) (0 :: rev A) (0 :: rev A)) 0 then None
  else lev_loop r s (S m)
         (psub A (scale (inner (toep r) A (unit m) / inner (toep r) (0 :: rev A) (0 :: rev A)) (0 :: rev A))).
Proof. reflexivity. Qed.

Lemma lev_loop_snoc r : forall s m A,
  lev_loop r (S s) m A =
  match lev_loop r s m A with
  | None => None
  | Some A1 => lev_loop r 1 (m + s) A1
  end.
Proof.
  induction s as [|s IH]; intros m A.
  - cbn [lev_loop]. replace (m + 0)%nat with m by lia. reflexivity.
  - rewrite (lev_loop_S r (S s) m A), (lev_loop_S r s m A).
    destruct (Qc_eqb (inner (toep r) (0 :: rev A) (0 :: rev A)) 0); [reflexivity|].
    rewrite IH. replace (S m + s)%nat with (m + S s)%nat by lia. reflexivity.
Qed.

(* ... and it is raised at order p+1 exactly when it is raised at order p or the order-p
   prediction error (the divisor inner(B, B) of the next step) is zero *)
Lemma levinson_guard r p :
  levinson_durbin r (Some (S p)) = Err ParCorError <->
  levinson_durbin r (Some p) = Err ParCorError \/ exists a, levinson_durbin r (Some p) = Ok (a, 0).
Proof.
  cbn [levinson_durbin]. fold (used r (S p)) (used r p). unfold lev_run.
  rewrite (lev_loop_ext (used r (S p)) r) by (intro; apply cf_used).
  rewrite (lev_loop_ext (used r p) r) by (intro; apply cf_used).
  rewrite lev_loop_snoc.
  destruct (lev_loop r p 1 [1]) as [A|] eqn:E.
  - pose proof (lev_loop_inv r p 1 [1] A (le_n 1) (Inv_init r) E) as HI.
    cbn [lev_loop].
    rewrite (lev_den r (1 + p) A) by (try lia; exact HI).
    rewrite (inner_toep_ext (used r p) r A A) by (intro; apply cf_used).
    rewrite (lev_error r (1 + p) A) by (try lia; exact HI).
    rewrite yw_row_0.
    destruct (Qc_eqb (dot A r) 0) eqn:Ez.
    + apply Qc_eqb_spec in Ez. split; [|reflexivity]. intros _. right. exists A. rewrite Ez. reflexivity.
    + split; [discriminate|]. intros [H|[a H]]; [discriminate|].
      inversion H; subst. rewrite H2 in Ez. discriminate.
  - split; [|reflexivity]. intros _. left. reflexivity.
Qed.

Lemma levinson_order0 r : levinson_durbin r (Some O) = Ok ([1], cf r 0).
Proof.
  cbn [levinson_durbin]. fold (used r 0). unfold lev_run. cbn [lev_loop]. f_equal. f_equal.
  rewrite (lev_error (used r 0) 1 [1]) by (try lia; apply Inv_init).
  unfold dot. cbn. rewrite cf_used. unfold cf. cbn. ring.
Qed.

Lemma levinson_monic r p a e : levinson_durbin r (Some p) = Ok (a, e) -> length a = S p /\ cf a 0 = 1.
Proof. intro H. destruct (levinson_spec r p a e H) as (H1 & H2 & _). exact (conj H1 H2). Qed.

Lemma levinson_error r p a e : levinson_durbin r (Some p) = Ok (a, e) -> e = dot a r.
Proof. intro H. destruct (levinson_spec r p a e H) as (_ & _ & _ & H4). exact H4. Qed.

(* deciding "returned exactly this" (Qc carries a canonicity proof: compare by value) *)
Definition res_is (x : result (list Qc * Qc)) (a : list Qc) (e : Qc) : bool :=
  match x with
  | Ok (a', e') => list_eqb Qc_eqb a' a && Qc_eqb e' e
  | Err _ => false
  end.

Lemma res_is_spec x a e : res_is x a e = true -> x = Ok (a, e).
Proof.
  destruct x as [[a' e']|]; simpl; [|discriminate]. intro H.
  apply andb_true_iff in H as [H1 H2].
  apply (list_eqb_spec Qc_eqb Qc_eqb_spec) in H1. apply Qc_eqb_spec in H2. subst. reflexivity.
Qed.

Lemma levinson_example :
  levinson_durbin (map (fun z => qc z 1) [12; 6; 0; -3; -6; -3; 0; 2; 4; 2]%Z) (Some 3%nat)
  = Ok ([1; qc (-5) 8; qc 1 4; qc 1 8], qc 63 8).
Proof. apply res_is_spec. vm_compute. reflexivity. Qed.

Lemma levinson_guard_example :
  levinson_durbin [1; 1] (Some 1%nat) = Ok ([1; - (1)], 0) /\
  levinson_durbin [1; 1] (Some 2%nat) = Err ParCorError.
Proof. split; [apply res_is_spec; vm_compute; reflexivity|vm_compute; reflexivity]. Qed.
