(* C10 - the few Python notions the translator of harness/C10_translate.py emits for the bodies of
   acorr / lag_matrix / toeplitz: integers are Z (so "len(blk) - 1" of an empty block is -1 and a
   negative xrange bound is an empty range), list indexing wraps negative indices as Python does.
   Definitions only (hand-written, fixed); Gen_Tables.v is generated against this vocabulary. *)
From Coq Require Import List Bool ZArith QArith Qcanon.
From AL Require Import Base.CaseLib C10.Model.
Import ListNotations.
Open Scope Z_scope.

Definition zlen (l : list Qc) : Z := Z.of_nat (length l).

(* l[i]; an index outside [-len, len) (IndexError in Python) reads 0 here: Proofs_Gen shows that the three
   translated functions never leave the range with a non-negative index, and the correspondence
   check covers exceptions *)
Definition zidx (l : list Qc) (i : Z) : Qc :=
  if i <? 0 then (if zlen l + i <? 0 then 0%Qc else nth (Z.to_nat (zlen l + i)) l 0%Qc)
  else nth (Z.to_nat i) l 0%Qc.

(* xrange(lo, hi) *)
Definition zrange (lo hi : Z) : list Z := map (fun k => lo + Z.of_nat k) (seq 0 (Z.to_nat (hi - lo))).

(* sum(f(k) for k in l) *)
Definition zsum (f : Z -> Qc) (l : list Z) : Qc := fold_right (fun k acc => (f k + acc)%Qc) 0%Qc l.
