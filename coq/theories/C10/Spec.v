(* C10 - what the property text promises, as defining sums over index
   functions (definitions only).  Nothing here refers to the loops of Model.v. *)
From Coq Require Import List Bool Arith ZArith QArith Qcanon.
From AL Require Import Base.CaseLib.
Import ListNotations.
Open Scope Qc_scope.

(* sum_{i < n} f i *)
Fixpoint sumn (f : nat -> Qc) (n : nat) : Qc :=
  match n with
  | O => 0
  | S k => sumn f k + f k
  end.

(* coefficient / sample number i of a finite list, zero outside *)
Definition cf (a : list Qc) (i : nat) : Qc := nth i a 0.

(* |i - j| written with a comparison (independent of Model.absdiff) *)
Definition dist (i j : nat) : nat := if i <=? j then j - i else i - j.

(* autocorrelation of the zero-extended block: R(tau) = sum_n x(n) x(n+tau) *)
Definition acorr_sum (x : list Qc) (tau : nat) : Qc :=
  sumn (fun n => cf x n * cf x (n + tau)) (length x).

(* covariance ("lag") entry: phi(i,j) = sum_{n = p}^{N-1} x(n-i) x(n-j) *)
Definition lag_sum (x : list Qc) (p i j : nat) : Qc :=
  sumn (fun t => cf x (p + t - i) * cf x (p + t - j)) (length x - p).

(* Yule-Walker row i of the monic filter a against the lags r:  sum_j a_j r_|i-j| *)
Definition yw_row (r a : list Qc) (i : nat) : Qc :=
  sumn (fun j => cf a j * cf r (dist i j)) (length a).

(* sum_j a_j r_j *)
Definition dot (a r : list Qc) : Qc := sumn (fun j => cf a j * cf r j) (length a).

(* (a * x)(n) for the zero-extended block x: sum_j a_j x(n-j) *)
Definition conv_at (a x : list Qc) (n : nat) : Qc :=
  sumn (fun j => if j <=? n then cf a j * cf x (n - j) else 0) (length a).

(* energy of a convolved with the zero-extended block (all the non-zero outputs) *)
Definition energy_full (a x : list Qc) : Qc :=
  sumn (fun n => conv_at a x n * conv_at a x n) (length x + length a - 1).

(* covariance normal equation, row i: sum_j a_j phi(i,j) *)
Definition cov_row (x a : list Qc) (p i : nat) : Qc :=
  sumn (fun j => cf a j * lag_sum x p i j) (length a).

(* residual energy over n >= p: sum_{n=p}^{N-1} (sum_j a_j x(n-j))^2 *)
Definition energy_cov (a x : list Qc) (p : nat) : Qc :=
  sumn (fun t => sumn (fun j => cf a j * cf x (p + t - j)) (length a)
               * sumn (fun j => cf a j * cf x (p + t - j)) (length a)) (length x - p).

(* a table with n rows of m entries: row j, column i holds f j i *)
Definition table (n m : nat) (f : nat -> nat -> Qc) : list (list Qc) :=
  map (fun j => map (fun i => f j i) (seq 0 m)) (seq 0 n).

(* quadratic form sum_i sum_j a_i a_j K(i,j) (what both "inner(A, A)" compute) *)
Definition qform (K : nat -> nat -> Qc) (a : list Qc) : Qc :=
  sumn (fun i => sumn (fun j => cf a i * cf a j * K i j) (length a)) (length a).

(* autocorrelation normal equation, row i, against the defining sums: sum_j a_j R(|i-j|) *)
Definition ac_row (x a : list Qc) (i : nat) : Qc :=
  sumn (fun j => cf a j * acorr_sum x (dist i j)) (length a).
