(* C10 - the property is scale free: multiplying the lags by c <> 0 leaves the Levinson-Durbin coefficients
   (and the ParCorError outcome) unchanged and multiplies the stored error by c; multiplying the block by c
   does the same for lpc.kautocor with the factor c * c. *)
From Coq Require Import List Bool Arith ZArith QArith Qcanon Lia.
From AL Require Import Base.CaseLib C10.Model C10.Spec C10.Proofs_Sum C10.Proofs_Tab C10.Proofs_Lev C10.Proofs_Kac.
Import ListNotations.
Open Scope Qc_scope.

Definition rescale (d : Qc) (x : result (list Qc * Qc)) : result (list Qc * Qc) :=
  match x with Ok (a, e) => Ok (a, d * e) | Err x => Err x end.

Lemma inner_scale_K K K' d a b : (forall i j, K' i j = d * K i j) -> inner K' a b = d * inner K a b.
Proof.
  intro H. unfold inner. rewrite !sum_enum_sumn, <- sumn_scale. apply sumn_ext. intros i _.
  rewrite !sum_enum_sumn, <- sumn_scale. apply sumn_ext. intros j _. rewrite H. ring.
Qed.

Lemma Qc_eqb_scale d x : d <> 0 -> Qc_eqb (d * x) 0 = Qc_eqb x 0.
Proof.
  intro Hd. destruct (Qc_eqb x 0) eqn:E.
  - apply Qc_eqb_spec in E. subst. apply Qc_eqb_spec. ring.
  - destruct (Qc_eqb (d * x) 0) eqn:E2; [|reflexivity]. apply Qc_eqb_spec in E2.
    apply Qcmult_integral in E2 as [E2|E2]; [contradiction|]. subst. rewrite (proj2 (Qc_eqb_spec 0 0) eq_refl) in E. discriminate.
Qed.

Section Scaled.
  Variables (r r' : list Qc) (d : Qc).
  Hypothesis Hd : d <> 0.
  Hypothesis Hr : forall k, cf r' k = d * cf r k.

  Lemma toep_scaled i j : toep r' i j = d * toep r i j.
  Proof. rewrite !toep_cf. apply Hr. Qed.

  Lemma lev_loop_scaled : forall steps m A, lev_loop r' steps m A = lev_loop r steps m A.
  Proof.
    induction steps as [|s IH]; intros m A; [reflexivity|].
    rewrite !lev_loop_S. rewrite !(inner_scale_K (toep r) (toep r') d _ _ toep_scaled).
    rewrite Qc_eqb_scale by exact Hd.
    destruct (Qc_eqb (inner (toep r) (0 :: rev A) (0 :: rev A)) 0) eqn:E; [reflexivity|].
    assert (Hden : inner (toep r) (0 :: rev A) (0 :: rev A) <> 0).
    { intro Hz. apply Qc_eqb_spec in Hz. congruence. }
    rewrite IH. f_equal. f_equal. f_equal. field. split; assumption.
  Qed.

  Lemma lev_run_scaled p : lev_run r' p = rescale d (lev_run r p).
  Proof.
    unfold lev_run. rewrite lev_loop_scaled. destruct (lev_loop r p 1 [1]) as [A|]; [|reflexivity].
    cbn [rescale]. rewrite (inner_scale_K (toep r) (toep r') d _ _ toep_scaled). reflexivity.
  Qed.
End Scaled.

Lemma levinson_scaled_gen r r' d order : d <> 0 -> length r' = length r -> (forall k, cf r' k = d * cf r k) ->
  levinson_durbin r' order = rescale d (levinson_durbin r order).
Proof.
  intros Hd Hl Hr. destruct order as [p|].
  - cbn [levinson_durbin]. fold (used r' p) (used r p). apply lev_run_scaled; [exact Hd|].
    intro k. rewrite !cf_used. apply Hr.
  - cbn [levinson_durbin]. destruct r as [|x t]; destruct r' as [|x' t']; try discriminate; [reflexivity|].
    rewrite Hl. apply lev_run_scaled; assumption.
Qed.

(* levinson_durbin(c * r, p): same coefficients, same ParCorError outcome, error multiplied by c *)
Lemma levinson_scale c r order : c <> 0 ->
  levinson_durbin (scale c r) order = rescale c (levinson_durbin r order).
Proof.
  intro Hc. apply levinson_scaled_gen; [exact Hc|apply length_scale|intro k; apply cf_scale].
Qed.

(* the autocorrelation of c * x is c * c times that of x *)
Lemma acorr_sum_scale c x tau : acorr_sum (scale c x) tau = c * c * acorr_sum x tau.
Proof.
  unfold acorr_sum. rewrite length_scale, <- sumn_scale. apply sumn_ext. intros n _. rewrite !cf_scale. ring.
Qed.

Lemma cf_acorr_scale c x lag k : cf (acorr (scale c x) lag) k = c * c * cf (acorr x lag) k.
Proof.
  rewrite !acorr_is_sum, length_scale.
  set (lags := match lag with Some m => S m | None => length x end).
  destruct (Nat.lt_ge_cases k lags) as [H|H].
  - rewrite !cf_map_seq by exact H. apply acorr_sum_scale.
  - rewrite !cf_over by (rewrite map_length, seq_length; exact H). ring.
Qed.

(* lpc.kautocor(c * x, p): same coefficients, error multiplied by c * c *)
Lemma kautocor_scale c x order : c <> 0 ->
  kautocor (scale c x) order = rescale (c * c) (kautocor x order).
Proof.
  intro Hc. unfold kautocor. apply levinson_scaled_gen.
  - intro H. apply Qcmult_integral in H as [H|H]; contradiction.
  - rewrite !acorr_is_sum, !map_length, !seq_length, length_scale. reflexivity.
  - intro k. apply cf_acorr_scale.
Qed.

(* ------------------------------------------------------------------ lpc.kcovar *)
From AL Require Import C10.Proofs_Kcv.

Lemma div_scale d n b : d <> 0 -> (d * n) / (d * b) = n / b.
Proof.
  intro Hd. destruct (Qc_eq_dec b 0) as [->|Hb].
  - replace (d * 0) with 0 by ring. unfold Qcdiv. replace (/ 0) with 0 by reflexivity. ring.
  - field. split; assumption.
Qed.

Lemma existsb_zero_scale d l : d <> 0 ->
  existsb (fun b => Qc_eqb b 0) (scale d l) = existsb (fun b => Qc_eqb b 0) l.
Proof.
  intro Hd. induction l as [|x t IH]; [reflexivity|]. cbn [scale map existsb]. fold (scale d t).
  rewrite IH, Qc_eqb_scale by exact Hd. reflexivity.
Qed.

Lemma nth_scale d l q : nth q (scale d l) 0 = d * nth q l 0.
Proof. apply cf_scale. Qed.

Section ScaledForm.
  Variables (K K' : nat -> nat -> Qc) (d : Qc).
  Hypothesis Hd : d <> 0.
  Hypothesis HK : forall i j, K' i j = d * K i j.

  Lemma kcovar_loop_scaled : forall rem m A B beta,
    kcovar_loop K' rem m A B (scale d beta) = rescale d (kcovar_loop K rem m A B beta).
  Proof.
    induction rem as [|rem IH]; intros m A B beta; rewrite !kcovar_loop_unfold; cbv zeta;
      rewrite !nth_scale, Qc_eqb_scale by exact Hd;
      destruct (Qc_eqb (nth (m - 1) beta 0) 0); try reflexivity;
      rewrite (inner_scale_K K K' d A (unit m) HK);
      replace (- (d * inner K A (unit m)) / (d * nth (m - 1) beta 0))
        with (- inner K A (unit m) / nth (m - 1) beta 0)
        by (rewrite <- (div_scale d (- inner K A (unit m)) _ Hd); f_equal; ring);
      destruct (Qc_leb 1 (- inner K A (unit m) / nth (m - 1) beta 0)
                || Qc_leb (- inner K A (unit m) / nth (m - 1) beta 0) (- (1))); try reflexivity.
    - cbn [rescale]. rewrite (inner_scale_K K K' d _ _ HK). reflexivity.
    - replace (firstn m (scale d beta)) with (scale d (firstn m beta)) by (unfold scale; symmetry; apply firstn_map).
      rewrite existsb_zero_scale by exact Hd.
      destruct (existsb (fun b => Qc_eqb b 0) (firstn m beta)); [reflexivity|].
      rewrite (map_ext (fun q => inner K' (unit (S m)) (nth q B []) / nth q (scale d beta) 0)
                       (fun q => inner K (unit (S m)) (nth q B []) / nth q beta 0))
        by (intro q; rewrite nth_scale, (inner_scale_K K K' d _ _ HK); apply div_scale; exact Hd).
      rewrite (inner_scale_K K K' d _ _ HK).
      rewrite <- IH. f_equal. unfold scale. rewrite map_app. reflexivity.
  Qed.
End ScaledForm.

Lemma lag_sum_scale c x p i j : lag_sum (scale c x) p i j = c * c * lag_sum x p i j.
Proof.
  unfold lag_sum. rewrite length_scale, <- sumn_scale. apply sumn_ext. intros t _. rewrite !cf_scale. ring.
Qed.

Lemma phiK_table_scale c x n p i j :
  phiK (table n n (fun j i => lag_sum (scale c x) p i j)) i j =
  c * c * phiK (table n n (fun j i => lag_sum x p i j)) i j.
Proof.
  rewrite !phiK_table. destruct ((i <? n)%nat && (j <? n)%nat); [apply lag_sum_scale|ring].
Qed.

(* lpc.kcovar(c * x, p): same coefficients, same exceptions, error multiplied by c * c *)
Lemma kcovar_scale c x order : c <> 0 ->
  kcovar (scale c x) order = rescale (c * c) (kcovar x order).
Proof.
  intro Hc.
  assert (Hd : c * c <> 0) by (intro H; apply Qcmult_integral in H as [H|H]; contradiction).
  unfold kcovar. destruct order as [p|].
  - rewrite !lag_matrix_is_sum, length_scale. destruct (length x <=? p)%nat; [reflexivity|].
    rewrite !table_length. destruct p as [|rem]; [reflexivity|].
    rewrite <- (kcovar_loop_scaled _ _ (c * c) Hd (phiK_table_scale c x (S (S rem)) (S rem))).
    cbn [scale map]. rewrite (inner_scale_K _ _ (c * c) _ _ (phiK_table_scale c x (S (S rem)) (S rem))). reflexivity.
  - rewrite !lag_matrix_none_is_sum, length_scale. rewrite !table_length.
    destruct (length x) as [|[|rem]]; [reflexivity|reflexivity|].
    rewrite <- (kcovar_loop_scaled _ _ (c * c) Hd (phiK_table_scale c x (S (S rem)) (S (S rem) - 1))).
    cbn [scale map]. rewrite (inner_scale_K _ _ (c * c) _ _ (phiK_table_scale c x (S (S rem)) (S (S rem) - 1))). reflexivity.
Qed.
