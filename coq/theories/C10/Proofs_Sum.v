(* C10 - finite sums over Qc, coefficient lists as finitely supported sequences,
   and the bilinearity of the model's "inner". *)
From Coq Require Import List Bool Arith ZArith QArith Qcanon Lia.
From AL Require Import Base.CaseLib C10.Model C10.Spec.
Import ListNotations.
Open Scope Qc_scope.

(* ------------------------------------------------------------------ sumn *)
Lemma sumn_ext f g n : (forall i, (i < n)%nat -> f i = g i) -> sumn f n = sumn g n.
Proof.
  induction n as [|n IH]; intro H; simpl; [reflexivity|].
  rewrite IH by (intros; apply H; lia). rewrite H by lia. reflexivity.
Qed.

Lemma sumn_zero f n : (forall i, (i < n)%nat -> f i = 0) -> sumn f n = 0.
Proof.
  induction n as [|n IH]; intro H; simpl; [reflexivity|].
  rewrite IH by (intros; apply H; lia). rewrite H by lia. ring.
Qed.

Lemma sumn_plus f g n : sumn (fun i => f i + g i) n = sumn f n + sumn g n.
Proof. induction n as [|n IH]; simpl; [ring|]. rewrite IH. ring. Qed.

Lemma sumn_minus f g n : sumn (fun i => f i - g i) n = sumn f n - sumn g n.
Proof. induction n as [|n IH]; simpl; [ring|]. rewrite IH. ring. Qed.

Lemma sumn_scale c f n : sumn (fun i => c * f i) n = c * sumn f n.
Proof. induction n as [|n IH]; simpl; [ring|]. rewrite IH. ring. Qed.

Lemma sumn_scale_r c f n : sumn (fun i => f i * c) n = sumn f n * c.
Proof. induction n as [|n IH]; simpl; [ring|]. rewrite IH. ring. Qed.

Lemma sumn_swap (f : nat -> nat -> Qc) n m :
  sumn (fun i => sumn (fun j => f i j) m) n = sumn (fun j => sumn (fun i => f i j) n) m.
Proof.
  induction n as [|n IH]; simpl.
  - symmetry. apply sumn_zero. reflexivity.
  - rewrite IH. rewrite <- sumn_plus. reflexivity.
Qed.

Lemma sumn_extend f n m : (n <= m)%nat -> (forall i, (n <= i < m)%nat -> f i = 0) ->
  sumn f m = sumn f n.
Proof.
  intro Hle. induction m as [|m IH]; intro H.
  - replace n with O by lia. reflexivity.
  - destruct (Nat.eq_dec n (S m)) as [->|Hne]; [reflexivity|].
    simpl. rewrite IH by (try lia; intros; apply H; lia). rewrite H by lia. ring.
Qed.

Lemma sumn_first f n : sumn f (S n) = f O + sumn (fun i => f (S i)) n.
Proof.
  induction n as [|n IH]; [simpl; ring|].
  change (sumn f (S (S n))) with (sumn f (S n) + f (S n)). rewrite IH. simpl. ring.
Qed.

Lemma sumn_rev f n : sumn f n = sumn (fun i => f (n - 1 - i)%nat) n.
Proof.
  induction n as [|n IH]; [reflexivity|].
  rewrite (sumn_first (fun i => f (S n - 1 - i)%nat)).
  change (sumn f (S n)) with (sumn f n + f n). rewrite IH.
  replace (S n - 1 - 0)%nat with n by lia.
  rewrite Qcplus_comm. f_equal.
  apply sumn_ext. intros i Hi. f_equal. lia.
Qed.

Lemma sumn_single f n k : (k < n)%nat -> (forall i, (i < n)%nat -> i <> k -> f i = 0) ->
  sumn f n = f k.
Proof.
  induction n as [|n IH]; intros Hk H; [lia|]. simpl.
  destruct (Nat.eq_dec k n) as [->|Hne].
  - rewrite sumn_zero by (intros; apply H; lia). ring.
  - rewrite IH by (try lia; intros; apply H; lia). rewrite (H n) by lia. ring.
Qed.

Lemma sumn_nonneg f n : (forall i, (i < n)%nat -> 0 <= f i) -> 0 <= sumn f n.
Proof.
  induction n as [|n IH]; intro H; simpl; [apply Qcle_refl|].
  replace 0 with (0 + 0) by ring. apply Qcplus_le_compat; [apply IH; intros; apply H; lia|apply H; lia].
Qed.

(* sum_{n<M} [j<=n] g n = sum_{t<M-j} g (t+j) *)
Lemma sumn_guard_shift g j M :
  sumn (fun n => if (j <=? n)%nat then g n else 0) M = sumn (fun t => g (t + j)%nat) (M - j).
Proof.
  induction M as [|M IH]; [reflexivity|]. simpl sumn at 1. rewrite IH.
  destruct (j <=? M)%nat eqn:E.
  - apply Nat.leb_le in E. replace (S M - j)%nat with (S (M - j)) by lia. simpl.
    replace (M - j + j)%nat with M by lia. reflexivity.
  - apply Nat.leb_gt in E. replace (S M - j)%nat with O by lia. replace (M - j)%nat with O by lia.
    simpl. ring.
Qed.

Lemma sq_nonneg (q : Qc) : 0 <= q * q.
Proof.
  destruct (Qclt_le_dec q 0) as [H|H].
  - replace (q * q) with ((- q) * (- q)) by ring.
    assert (H' : 0 <= - q). { apply Qclt_le_weak in H. apply Qcopp_le_compat in H. exact H. }
    replace 0 with (0 * - q) by ring. apply Qcmult_le_compat_r; assumption.
  - replace 0 with (0 * q) by ring. apply Qcmult_le_compat_r; assumption.
Qed.

(* ------------------------------------------------------------------ the model's sums *)
Lemma sum_enum_from_sumn (f : nat -> Qc -> Qc) l : forall i,
  sum_enum_from f i l = sumn (fun k => f (i + k)%nat (nth k l 0)) (length l).
Proof.
  induction l as [|x t IH]; intro i; [reflexivity|].
  cbn [sum_enum_from length]. rewrite sumn_first. rewrite IH. cbn [nth].
  replace (i + 0)%nat with i by lia. f_equal.
  apply sumn_ext. intros k _. replace (S i + k)%nat with (i + S k)%nat by lia. reflexivity.
Qed.

Lemma sum_enum_sumn (f : nat -> Qc -> Qc) l :
  sum_enum f l = sumn (fun k => f k (cf l k)) (length l).
Proof. unfold sum_enum. rewrite sum_enum_from_sumn. reflexivity. Qed.

Lemma sum_range_sumn f cnt : forall lo, sum_range f lo cnt = sumn (fun t => f (lo + t)%nat) cnt.
Proof.
  induction cnt as [|c IH]; intro lo; [reflexivity|].
  cbn [sum_range]. rewrite sumn_first, IH. replace (lo + 0)%nat with lo by lia. f_equal.
  apply sumn_ext. intros t _. f_equal. lia.
Qed.

Lemma absdiff_dist i j : absdiff i j = dist i j.
Proof. unfold absdiff, dist. destruct (i <=? j)%nat eqn:E; [apply Nat.leb_le in E|apply Nat.leb_gt in E]; lia. Qed.

Lemma dist_sym i j : dist i j = dist j i.
Proof.
  unfold dist. destruct (i <=? j)%nat eqn:E1; destruct (j <=? i)%nat eqn:E2;
    try apply Nat.leb_le in E1; try apply Nat.leb_le in E2;
    try apply Nat.leb_gt in E1; try apply Nat.leb_gt in E2; lia.
Qed.

(* ------------------------------------------------------------------ coefficient lists *)
Lemma cf_over (a : list Qc) i : (length a <= i)%nat -> cf a i = 0.
Proof. intro H. unfold cf. apply nth_overflow. exact H. Qed.

Lemma cf_padd a : forall b i, cf (padd a b) i = cf a i + cf b i.
Proof.
  unfold cf. induction a as [|x a IH]; intros b i.
  - simpl. destruct i; ring.
  - destruct b as [|y b].
    + simpl. destruct i; ring.
    + destruct i; simpl; [reflexivity|apply IH].
Qed.

Lemma length_padd a : forall b, length (padd a b) = Nat.max (length a) (length b).
Proof.
  induction a as [|x a IH]; intros b; [reflexivity|].
  destruct b as [|y b]; [reflexivity|]. simpl. rewrite IH. reflexivity.
Qed.

Lemma cf_scale c a i : cf (scale c a) i = c * cf a i.
Proof.
  unfold cf, scale. revert i. induction a as [|x a IH]; intro i.
  - simpl. destruct i; ring.
  - destruct i; simpl; [reflexivity|apply IH].
Qed.

Lemma length_scale c a : length (scale c a) = length a.
Proof. apply map_length. Qed.

Lemma cf_popp a i : cf (popp a) i = - cf a i.
Proof.
  unfold cf, popp. revert i. induction a as [|x a IH]; intro i.
  - simpl. destruct i; ring.
  - destruct i; simpl; [reflexivity|apply IH].
Qed.

Lemma cf_psub a b i : cf (psub a b) i = cf a i - cf b i.
Proof. unfold psub. rewrite cf_padd, cf_popp. ring. Qed.

Lemma length_psub a b : length (psub a b) = Nat.max (length a) (length b).
Proof. unfold psub, popp. rewrite length_padd, map_length. reflexivity. Qed.

Lemma length_unit m : length (unit m) = S m.
Proof. unfold unit. rewrite app_length, repeat_length. simpl. lia. Qed.

Lemma cf_unit m i : cf (unit m) i = if (i =? m)%nat then 1 else 0.
Proof.
  unfold cf, unit. destruct (i =? m)%nat eqn:E.
  - apply Nat.eqb_eq in E. subst. rewrite app_nth2; rewrite repeat_length; [|lia].
    replace (m - m)%nat with O by lia. reflexivity.
  - apply Nat.eqb_neq in E. destruct (Nat.lt_ge_cases i m) as [H|H].
    + rewrite app_nth1 by (rewrite repeat_length; exact H).
      apply nth_repeat.
    + apply nth_overflow. rewrite app_length, repeat_length. simpl. lia.
Qed.

Lemma cf_rev a i : (i < length a)%nat -> cf (rev a) i = cf a (length a - 1 - i).
Proof. intro H. unfold cf. rewrite rev_nth by exact H. f_equal. lia. Qed.

Lemma cf_cons x a i : cf (x :: a) (S i) = cf a i.
Proof. reflexivity. Qed.

Lemma cf_strip0 a : forall i, cf (strip0 a) i = cf a i.
Proof.
  unfold cf. induction a as [|x t IH]; intro i; [reflexivity|].
  cbn [strip0]. destruct (strip0 t) as [|y t'] eqn:E.
  - destruct (Qc_eqb x 0) eqn:Ex.
    + apply Qc_eqb_spec in Ex. subst x. destruct i; simpl; [reflexivity|].
      rewrite <- IH. destruct i; reflexivity.
    + destruct i; simpl; [reflexivity|]. rewrite <- IH. destruct i; reflexivity.
  - destruct i; simpl; [reflexivity|]. rewrite <- IH. reflexivity.
Qed.

Lemma length_strip0 a : (length (strip0 a) <= length a)%nat.
Proof.
  induction a as [|x t IH]; [simpl; lia|].
  cbn [strip0]. destruct (strip0 t) as [|y t'] eqn:E.
  - destruct (Qc_eqb x 0); simpl; lia.
  - simpl in *. lia.
Qed.

(* a sum over the coefficients may be taken over any longer range *)
Lemma sumn_cf_extend (a : list Qc) (g : nat -> Qc -> Qc) n :
  (length a <= n)%nat -> (forall i, g i 0 = 0) ->
  sumn (fun i => g i (cf a i)) n = sumn (fun i => g i (cf a i)) (length a).
Proof.
  intros Hn Hg. apply sumn_extend; [exact Hn|].
  intros i Hi. rewrite cf_over by lia. apply Hg.
Qed.

(* ------------------------------------------------------------------ inner *)
(* the double sum over a fixed square *)
Definition bil (K : nat -> nat -> Qc) (n : nat) (a b : list Qc) : Qc :=
  sumn (fun i => sumn (fun j => K i j * cf a i * cf b j) n) n.

Lemma inner_bil K a b n : (length a <= n)%nat -> (length b <= n)%nat -> inner K a b = bil K n a b.
Proof.
  intros Ha Hb. unfold inner, bil. rewrite sum_enum_sumn.
  rewrite <- (sumn_cf_extend a (fun i ai => sum_enum (fun j bj => K i j * ai * bj) b) n Ha).
  - apply sumn_ext. intros i _. rewrite sum_enum_sumn.
    rewrite <- (sumn_cf_extend b (fun j bj => K i j * cf a i * bj) n Hb); [reflexivity|].
    intros; ring.
  - intro i. rewrite sum_enum_sumn. apply sumn_zero. intros; ring.
Qed.

Lemma bil_padd_l K n a b c : bil K n (padd a b) c = bil K n a c + bil K n b c.
Proof.
  unfold bil. rewrite <- sumn_plus. apply sumn_ext. intros i _.
  rewrite <- sumn_plus. apply sumn_ext. intros j _. rewrite cf_padd. ring.
Qed.

Lemma bil_padd_r K n a b c : bil K n c (padd a b) = bil K n c a + bil K n c b.
Proof.
  unfold bil. rewrite <- sumn_plus. apply sumn_ext. intros i _.
  rewrite <- sumn_plus. apply sumn_ext. intros j _. rewrite cf_padd. ring.
Qed.

Lemma bil_scale_l K n k a c : bil K n (scale k a) c = k * bil K n a c.
Proof.
  unfold bil. rewrite <- sumn_scale. apply sumn_ext. intros i _.
  rewrite <- sumn_scale. apply sumn_ext. intros j _. rewrite cf_scale. ring.
Qed.

Lemma bil_scale_r K n k a c : bil K n c (scale k a) = k * bil K n c a.
Proof.
  unfold bil. rewrite <- sumn_scale. apply sumn_ext. intros i _.
  rewrite <- sumn_scale. apply sumn_ext. intros j _. rewrite cf_scale. ring.
Qed.

Lemma bil_sym K n a b : (forall i j, K i j = K j i) -> bil K n a b = bil K n b a.
Proof.
  intro HK. unfold bil. rewrite sumn_swap. apply sumn_ext. intros i _.
  apply sumn_ext. intros j _. rewrite (HK j i). ring.
Qed.

Definition nmax3 (a b c : list Qc) : nat := Nat.max (length a) (Nat.max (length b) (length c)).

Lemma inner_padd_l K a b c : inner K (padd a b) c = inner K a c + inner K b c.
Proof.
  rewrite (inner_bil K (padd a b) c (nmax3 a b c)), (inner_bil K a c (nmax3 a b c)),
    (inner_bil K b c (nmax3 a b c)); unfold nmax3; try rewrite length_padd; try lia.
  apply bil_padd_l.
Qed.

Lemma inner_padd_r K a b c : inner K c (padd a b) = inner K c a + inner K c b.
Proof.
  rewrite (inner_bil K c (padd a b) (nmax3 a b c)), (inner_bil K c a (nmax3 a b c)),
    (inner_bil K c b (nmax3 a b c)); unfold nmax3; try rewrite length_padd; try lia.
  apply bil_padd_r.
Qed.

Lemma inner_scale_l K k a c : inner K (scale k a) c = k * inner K a c.
Proof.
  rewrite (inner_bil K (scale k a) c (Nat.max (length a) (length c))),
    (inner_bil K a c (Nat.max (length a) (length c))); try rewrite length_scale; try lia.
  apply bil_scale_l.
Qed.

Lemma inner_scale_r K k a c : inner K c (scale k a) = k * inner K c a.
Proof.
  rewrite (inner_bil K c (scale k a) (Nat.max (length a) (length c))),
    (inner_bil K c a (Nat.max (length a) (length c))); try rewrite length_scale; try lia.
  apply bil_scale_r.
Qed.

Lemma popp_scale a : popp a = scale (- (1)) a.
Proof. unfold popp, scale. apply map_ext. intro x. ring. Qed.

Lemma inner_psub_l K a b c : inner K (psub a b) c = inner K a c - inner K b c.
Proof. unfold psub. rewrite inner_padd_l, popp_scale, inner_scale_l. ring. Qed.

Lemma inner_psub_r K a b c : inner K c (psub a b) = inner K c a - inner K c b.
Proof. unfold psub. rewrite inner_padd_r, popp_scale, inner_scale_r. ring. Qed.

Lemma inner_sym K a b : (forall i j, K i j = K j i) -> inner K a b = inner K b a.
Proof.
  intro HK.
  rewrite (inner_bil K a b (Nat.max (length a) (length b))),
    (inner_bil K b a (Nat.max (length a) (length b))) by lia.
  apply bil_sym. exact HK.
Qed.

Lemma inner_nil_r K a : inner K a [] = 0.
Proof. unfold inner. rewrite sum_enum_sumn. apply sumn_zero. reflexivity. Qed.

Lemma inner_nil_l K a : inner K [] a = 0.
Proof. reflexivity. Qed.

(* rows: inner(a, b) = sum_i a_i * (sum_j K i j b_j) *)
Definition krow (K : nat -> nat -> Qc) (b : list Qc) (i : nat) : Qc :=
  sumn (fun j => K i j * cf b j) (length b).

Lemma inner_rows K a b : inner K a b = sumn (fun i => cf a i * krow K b i) (length a).
Proof.
  unfold inner. rewrite sum_enum_sumn. apply sumn_ext. intros i _.
  rewrite sum_enum_sumn. unfold krow. rewrite <- sumn_scale. apply sumn_ext. intros j _. ring.
Qed.

Lemma inner_unit_l K m b : inner K (unit m) b = krow K b m.
Proof.
  rewrite inner_rows, length_unit.
  rewrite (sumn_single _ (S m) m); [|lia|].
  - rewrite cf_unit, Nat.eqb_refl. ring.
  - intros i _ Hne. rewrite cf_unit. apply Nat.eqb_neq in Hne. rewrite Hne. ring.
Qed.

Lemma inner_ext K K' a b :
  (forall i j, (i < length a)%nat -> (j < length b)%nat -> K i j = K' i j) ->
  inner K a b = inner K' a b.
Proof.
  intro H. unfold inner. rewrite !sum_enum_sumn. apply sumn_ext. intros i Hi.
  rewrite !sum_enum_sumn. apply sumn_ext. intros j Hj. rewrite H by assumption. reflexivity.
Qed.

Lemma krow_extend K b i n : (length b <= n)%nat -> krow K b i = sumn (fun j => K i j * cf b j) n.
Proof.
  intro H. unfold krow. symmetry. apply sumn_extend; [exact H|].
  intros j Hj. rewrite cf_over by lia. ring.
Qed.

Lemma krow_padd K a b i : krow K (padd a b) i = krow K a i + krow K b i.
Proof.
  rewrite (krow_extend K (padd a b) i (Nat.max (length a) (length b))) by (rewrite length_padd; lia).
  rewrite (krow_extend K a i (Nat.max (length a) (length b))) by lia.
  rewrite (krow_extend K b i (Nat.max (length a) (length b))) by lia.
  rewrite <- sumn_plus. apply sumn_ext. intros j _. rewrite cf_padd. ring.
Qed.

Lemma krow_scale K k a i : krow K (scale k a) i = k * krow K a i.
Proof.
  unfold krow. rewrite length_scale, <- sumn_scale. apply sumn_ext. intros j _. rewrite cf_scale. ring.
Qed.

Lemma krow_psub K a b i : krow K (psub a b) i = krow K a i - krow K b i.
Proof. unfold psub. rewrite krow_padd, popp_scale, krow_scale. ring. Qed.
