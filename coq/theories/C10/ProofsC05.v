(* C10 - the coefficient-list arithmetic of C10/Model.v (padd, psub, scale, the reversal "0 :: rev A",
   division by a scalar) IS the ZFilter / Poly arithmetic of the code, as modelled line by line by C05
   (filters = pairs of C07 polynomials, every operator through the LinearFilter constructor) and C07
   (Poly = ordered dict of (power, coefficient)).  [fir_of f a]: the filter object f is the causal FIR
   filter with coefficient list a (denominator the constant 1).  Each lemma is a simulation step:
   the C05 operator applied to FIR filters returns (never raises) the FIR filter of the list operation. *)
From Coq Require Import List Bool Arith ZArith QArith Qcanon Lia String Permutation.
From AL Require Import Base.CaseLib C07.Model C07.Spec C07.Lib C07.Proofs_Ring
  C05.Model C05.Spec C05.Proofs_Frac C05.Proofs_Norm C05.Proofs_Hom.
From AL Require C10.Model C10.Spec C10.Proofs_Sum C07.Proofs_Lagr.
Import ListNotations.
Open Scope Qc_scope.

Module L := C10.Model.
Notation cf := C10.Spec.cf.

(* coefficient of z^-k read from a list: 0 at negative powers *)
Definition lcoef (a : list Qc) (k : Z) : Qc := if (k <? 0)%Z then 0 else cf a (Z.to_nat k).

Definition fir_of (f : filt) (a : list Qc) : Prop :=
  wf (fnum f) /\ fden f = one_den /\ forall k, coefn (fnum f) k = lcoef a k.

(* the coefficients of powers 0..n-1, what numlist / numerator read *)
Definition coeffs (f : filt) (n : nat) : list Qc := map (fun i => coefn (fnum f) (Z.of_nat i)) (seq 0 n).

Lemma coeffs_fir f a n : fir_of f a -> coeffs f n = map (cf a) (seq 0 n).
Proof.
  intros (_ & _ & H). unfold coeffs. apply map_ext. intro i. rewrite H. unfold lcoef.
  replace (Z.of_nat i <? 0)%Z with false by (symmetry; apply Z.ltb_ge; lia). rewrite Nat2Z.id. reflexivity.
Qed.

(* ------------------------------------------------------------------ concrete facts (closed computations) *)
Lemma pmul_one_den : pmul one_den one_den = one_den. Proof. vm_compute. reflexivity. Qed.
Lemma pconst0_nil : pconst 0 = []. Proof. vm_compute. reflexivity. Qed.
Lemma peq_one_den : peq one_den one_den = true. Proof. vm_compute. reflexivity. Qed.
Lemma wf_one_den : wf one_den. Proof. apply (wf_pconst 1). Qed.

Lemma zf_one n : wf n -> zf n one_den = Ok (Filt n one_den).
Proof. intro W. unfold zf. rewrite (pcopy_id n W). reflexivity. Qed.

Lemma fconst_one c : fconst c = Ok (Filt (pconst c) one_den).
Proof. reflexivity. Qed.

Lemma dot_one_den F : dot one_den F = F 0%Z.
Proof. change one_den with (pconst 1). rewrite dot_pconst. ring. Qed.

Lemma coefn_pmul_const_l c p k : NoDupKeys p -> coefn (pmul (pconst c) p) k = c * coefn p k.
Proof.
  intro Hp. rewrite (coefn_dot _ k (proj1 (wf_pmul _ _))), dot_pmul, dot_pconst.
  rewrite (coefn_dot p k Hp). f_equal.
Qed.

Lemma coefn_pmul_const_r c p k : NoDupKeys p -> coefn (pmul p (pconst c)) k = coefn p k * c.
Proof.
  intro Hp. rewrite (coefn_dot _ k (proj1 (wf_pmul _ _))), dot_pmul.
  rewrite (dot_ext p _ (fun i => c * delta k i)).
  - rewrite dot_scale, (coefn_dot p k Hp). ring.
  - intro i. rewrite dot_pconst. rewrite Z.add_0_r. reflexivity.
Qed.

(* ------------------------------------------------------------------ ZFilter([a0, a1, ...]) *)
Lemma coefn_combine_seq l k : forall s,
  coefn (combine (map Z.of_nat (seq s (List.length l))) l) k =
  if (k <? Z.of_nat s)%Z then 0 else cf l (Z.to_nat k - s).
Proof.
  induction l as [|x t IH]; intro s.
  - cbn. destruct (k <? Z.of_nat s)%Z; [reflexivity|]. unfold cf. destruct (Z.to_nat k - s)%nat; reflexivity.
  - cbn [List.length seq map combine]. rewrite coefn_cons, IH.
    destruct (Z.of_nat s =? k)%Z eqn:E1; [apply Z.eqb_eq in E1|apply Z.eqb_neq in E1].
    + replace (k <? Z.of_nat s)%Z with false by (symmetry; apply Z.ltb_ge; lia).
      replace (Z.to_nat k - s)%nat with O by lia. reflexivity.
    + destruct (k <? Z.of_nat (S s))%Z eqn:E2; [apply Z.ltb_lt in E2|apply Z.ltb_ge in E2].
      * replace (k <? Z.of_nat s)%Z with true by (symmetry; apply Z.ltb_lt; lia). reflexivity.
      * replace (k <? Z.of_nat s)%Z with false by (symmetry; apply Z.ltb_ge; lia).
        replace (Z.to_nat k - s)%nat with (S (Z.to_nat k - S s)) by lia. reflexivity.
Qed.

Lemma NoDupKeys_combine_seq (l : list Qc) s : NoDupKeys (combine (map Z.of_nat (seq s (List.length l))) l).
Proof.
  unfold NoDupKeys, keys. rewrite map_fst_combine_eq || idtac.
  assert (H : map fst (combine (map Z.of_nat (seq s (List.length l))) l) = map Z.of_nat (seq s (List.length l))).
  { revert s. induction l as [|x t IH]; intro s; [reflexivity|]. cbn. f_equal. apply IH. }
  rewrite H. apply FinFun.Injective_map_NoDup; [intros a b; apply Nat2Z.inj|apply seq_NoDup].
Qed.

Lemma coefn_poly_of_list a k : coefn (poly_of_list a) k = lcoef a k.
Proof.
  unfold poly_of_list. rewrite coefn_mk_nd by apply NoDupKeys_combine_seq.
  rewrite coefn_combine_seq. unfold lcoef. cbn [Z.of_nat]. rewrite Nat.sub_0_r. reflexivity.
Qed.

(* ZFilter(list) is the FIR filter of that list *)
Lemma fir_of_list a : feval (FNum a) = Ok (Filt (poly_of_list a) one_den) /\
                      fir_of (Filt (poly_of_list a) one_den) a.
Proof.
  split; [reflexivity|]. split; [apply wf_mk|]. split; [reflexivity|]. apply coefn_poly_of_list.
Qed.

(* ------------------------------------------------------------------ + - and products by a scalar *)
Lemma lcoef_padd a b k : lcoef (L.padd a b) k = lcoef a k + lcoef b k.
Proof. unfold lcoef. destruct (k <? 0)%Z; [ring|apply C10.Proofs_Sum.cf_padd]. Qed.
Lemma lcoef_psub a b k : lcoef (L.psub a b) k = lcoef a k - lcoef b k.
Proof. unfold lcoef. destruct (k <? 0)%Z; [ring|apply C10.Proofs_Sum.cf_psub]. Qed.
Lemma lcoef_scale c a k : lcoef (L.scale c a) k = c * lcoef a k.
Proof. unfold lcoef. destruct (k <? 0)%Z; [ring|apply C10.Proofs_Sum.cf_scale]. Qed.

Lemma sim_fadd f g a b : fir_of f a -> fir_of g b ->
  exists h, fadd f g = Ok h /\ fir_of h (L.padd a b).
Proof.
  intros (Wf & Df & Cf) (Wg & Dg & Cg). exists (Filt (padd (fnum f) (fnum g)) one_den). split.
  - unfold fadd. rewrite Df, Dg, peq_one_den. apply zf_one. apply wf_padd.
  - split; [apply wf_padd|]. split; [reflexivity|]. intro k. cbn [fnum].
    rewrite coefn_padd by (apply Wf || apply Wg). rewrite Cf, Cg, lcoef_padd. reflexivity.
Qed.

Lemma sim_fneg g b : fir_of g b -> exists h, fneg g = Ok h /\ fir_of h (L.popp b).
Proof.
  intros (Wg & Dg & Cg). exists (Filt (pneg (fnum g)) one_den). split.
  - unfold fneg. rewrite Dg. apply zf_one. apply wf_pneg.
  - split; [apply wf_pneg|]. split; [reflexivity|]. intro k. cbn [fnum].
    rewrite coefn_pneg by apply Wg. rewrite Cg. unfold lcoef. destruct (k <? 0)%Z; [ring|].
    symmetry. apply C10.Proofs_Sum.cf_popp.
Qed.

(* A - B is A + (-B) in the code and in the list model alike *)
Lemma sim_fsub f g a b : fir_of f a -> fir_of g b ->
  exists h, fsub f g = Ok h /\ fir_of h (L.psub a b).
Proof.
  intros Hf Hg. destruct (sim_fneg g b Hg) as (n & En & Hn).
  destruct (sim_fadd f n a (L.popp b) Hf Hn) as (h & Eh & Hh).
  exists h. split; [unfold fsub; rewrite En; exact Eh|exact Hh].
Qed.

(* number * filter  (ZFilterMeta.__rbinary__: ZFilter([c]) * filter), the form "k * B" of the code *)
Lemma sim_sfmul c g b : fir_of g b -> exists h, sfmul c g = Ok h /\ fir_of h (L.scale c b).
Proof.
  intros (Wg & Dg & Cg). exists (Filt (pmul (pconst c) (fnum g)) one_den). split.
  - unfold sfmul. rewrite fconst_one. cbn [bind]. unfold fmul. cbn [fnum fden]. rewrite Dg, pmul_one_den.
    apply zf_one. apply wf_pmul.
  - split; [apply wf_pmul|]. split; [reflexivity|]. intro k. cbn [fnum].
    rewrite coefn_pmul_const_l by apply Wg. rewrite Cg, lcoef_scale. reflexivity.
Qed.

(* filter * number *)
Lemma sim_fmuls c g b : fir_of g b -> exists h, fmuls g c = Ok h /\ fir_of h (L.scale c b).
Proof.
  intros (Wg & Dg & Cg). exists (Filt (pmul (fnum g) (pconst c)) one_den). split.
  - unfold fmuls. rewrite Dg. apply zf_one. apply wf_pmul.
  - split; [apply wf_pmul|]. split; [reflexivity|]. intro k. cbn [fnum].
    rewrite coefn_pmul_const_r by apply Wg. rewrite Cg, lcoef_scale. ring.
Qed.

(* filter / number: a zero divisor raises, otherwise the coefficients are divided *)
Lemma sim_fdivs c g b : fir_of g b ->
  (c = 0 -> fdivs g c = Raise "ZeroDivisionError"%string) /\
  (c <> 0 -> exists h, fdivs g c = Ok h /\ fir_of h (L.scale (1 / c) b)).
Proof.
  intro Hg. unfold fdivs. split.
  - intros ->. reflexivity.
  - intro Hc. replace (Qc_eqb c 0) with false by (symmetry; apply Qc_eqb_false; exact Hc).
    apply sim_fmuls. exact Hg.
Qed.

(* Poly / number (C07's pdiv_scalar): the coefficients divided *)
Lemma sim_pdiv_scalar p a c : wf p -> (forall k, coefn p k = lcoef a k) -> c <> 0 ->
  exists q, pdiv_scalar p c = Ok q /\ wf q /\ forall k, coefn q k = lcoef (L.scale (1 / c) a) k.
Proof.
  intros Wp Cp Hc. destruct p as [|e r] eqn:Ep.
  - exists []. split; [reflexivity|]. split; [apply wf_nil|]. intro k. rewrite lcoef_scale, <- Cp, !coefn_nil. ring.
  - rewrite <- Ep in *. exists (pscale_div p c). split.
    + unfold pdiv_scalar. rewrite Ep at 1. replace (Qc_eqb c 0) with false by (symmetry; apply Qc_eqb_false; exact Hc).
      reflexivity.
    + assert (W : wf (pscale_div p c)) by (unfold pscale_div; apply wf_mk).
      split; [exact W|]. intro k.
      rewrite (coefn_dot _ k (proj1 W)).
      rewrite C07.Proofs_Lagr.dot_pscale_div by apply Wp. rewrite <- (coefn_dot p k (proj1 Wp)).
      rewrite lcoef_scale, Cp. field. exact Hc.
Qed.

(* ------------------------------------------------------------------ the reversal A(1 / z) * z ** -m *)
Definition zi : filt := Filt [(1%Z, 1)] one_den.                   (* 1 / z *)
Definition zf0 : filt := Filt [((-1)%Z, 1)] one_den.               (* z *)

Lemma fz_val : fz = Ok zf0. Proof. vm_compute. reflexivity. Qed.
Lemma inv_z : sfdiv 1 zf0 = Ok zi. Proof. vm_compute. reflexivity. Qed.
Lemma fsum_zi_one : fsum zi one_den = Ok (Some (Filt one_den one_den)). Proof. vm_compute. reflexivity. Qed.

Lemma one_nz : (1 : Qc) <> 0. Proof. discriminate. Qed.

Lemma ppow_mono j n : n <> 0%Z -> ppow [(j, 1)] n = [((j * n)%Z, 1)].
Proof. intro Hn. unfold ppow. rewrite (proj2 (Z.eqb_neq n 0) Hn). reflexivity. Qed.

(* a monomial of coefficient 1 raised to any integer power, denominator 1 *)
Lemma fpow_mono j n : fpow (Filt [(j, 1)] one_den) n = Ok (Filt [((j * n)%Z, 1)] one_den).
Proof.
  unfold fpow. cbn [fnum fden]. replace (plen [(j, 1)]) with 1%Z by reflexivity.
  replace (plen one_den) with 1%Z by reflexivity. cbn [Z.leb Z.compare orb]. rewrite andb_false_r.
  unfold fpow_direct. cbn [fnum fden]. destruct (Z.eq_dec n 0) as [->|Hn].
  - rewrite Z.mul_0_r. vm_compute. reflexivity.
  - rewrite (ppow_mono j n Hn). change one_den with [(0%Z, (1 : Qc))]. rewrite (ppow_mono 0 n Hn).
    cbn [Z.mul]. apply zf_one. apply wf_single. exact one_nz.
Qed.

Lemma subst_term_zi k v : subst_term zi (k, v) = Ok (Filt (pmul (pconst v) [((- k)%Z, 1)]) one_den).
Proof.
  unfold subst_term, zi. cbn [fst snd]. rewrite fpow_mono. rewrite Z.mul_1_l. cbn [bind].
  unfold sfmul. rewrite fconst_one. cbn [bind]. unfold fmul. cbn [fnum fden]. rewrite pmul_one_den.
  apply zf_one. apply wf_pmul.
Qed.

(* the numerators accumulated by the sum over the terms *)
Definition Hacc (s : poly) (l : poly) : poly :=
  fold_left (fun s e => padd s (pmul (pconst (snd e)) [((- fst e)%Z, 1)])) l s.

Lemma Hacc_spec l : forall s, wf s ->
  wf (Hacc s l) /\ forall F, dot (Hacc s l) F = dot s F + dot l (fun k => F (- k)%Z).
Proof.
  induction l as [|[k v] r IH]; intros s Ws.
  - split; [exact Ws|]. intro F. rewrite dot_nil. unfold Hacc. cbn [fold_left]. ring.
  - cbn [Hacc fold_left fst snd]. fold (Hacc (padd s (pmul (pconst v) [((- k)%Z, 1)])) r).
    destruct (IH _ (wf_padd s (pmul (pconst v) [((- k)%Z, 1)]))) as [W D]. split; [exact W|].
    intro F. rewrite D, dot_padd by (apply Ws || apply wf_pmul).
    rewrite dot_pmul, dot_pconst, !dot_cons, dot_nil. cbn [Z.add]. ring.
Qed.

Definition fstep (g : filt) := (fun (acc : res (option filt)) e => bind acc (fun a => bind (subst_term g e) (fun t =>
               match a with
               | None => bind (sfadd 0 t) (fun s => Ok (Some s))
               | Some s => bind (fadd s t) (fun s' => Ok (Some s'))
               end))).

Lemma fsum_fold_some l : forall s, wf s ->
  fold_left (fstep zi) l (Ok (Some (Filt s one_den))) = Ok (Some (Filt (Hacc s l) one_den)).
Proof.
  induction l as [|[k v] r IH]; intros s Ws; [reflexivity|].
  cbn [fold_left Hacc fst snd]. unfold fstep at 2. cbn [bind]. rewrite subst_term_zi. cbn [bind].
  unfold fadd. cbn [fnum fden]. rewrite peq_one_den, zf_one by apply wf_padd. cbn [bind].
  apply IH. apply wf_padd.
Qed.

Lemma fsum_zi p : p <> [] ->
  fsum zi p = Ok (Some (Filt (Hacc (pconst 0) (sort_asc p)) one_den)).
Proof.
  intro Hp. unfold fsum. fold (fstep zi).
  destruct (sort_asc p) as [|[k v] r] eqn:E.
  - exfalso. apply Hp. apply Permutation_nil. rewrite <- E. apply sort_asc_perm.
  - cbn [fold_left Hacc fst snd]. unfold fstep at 2. cbn [bind]. rewrite subst_term_zi. cbn [bind].
    unfold sfadd. rewrite fconst_one. cbn [bind]. unfold fadd. cbn [fnum fden].
    rewrite peq_one_den, zf_one by apply wf_padd. cbn [bind].
    apply fsum_fold_some. apply wf_padd.
Qed.

(* the code's  B = A(1 / z) * z ** -m  as C05 operations *)
Definition rev_expr (f : filt) (m : nat) : res filt :=
  bind fz (fun z => bind (sfdiv 1 z) (fun iz => bind (fsubst f iz) (fun t =>
    bind (fpow z (- Z.of_nat m)) (fun zm => fmul t zm)))).

Lemma lcoef_rev a m j : List.length a = m -> lcoef a (Z.of_nat m - j) = lcoef (0 :: rev a) j.
Proof.
  intro Ha. unfold lcoef.
  destruct (j <? 0)%Z eqn:Ej; [apply Z.ltb_lt in Ej|apply Z.ltb_ge in Ej].
  - replace (Z.of_nat m - j <? 0)%Z with false by (symmetry; apply Z.ltb_ge; lia).
    apply C10.Proofs_Sum.cf_over. lia.
  - destruct (Z.of_nat m - j <? 0)%Z eqn:Em; [apply Z.ltb_lt in Em|apply Z.ltb_ge in Em].
    + symmetry. apply C10.Proofs_Sum.cf_over. cbn [List.length]. rewrite rev_length. lia.
    + destruct (Z.to_nat j) as [|j'] eqn:Ejn.
      * unfold cf at 2. cbn [nth]. apply C10.Proofs_Sum.cf_over. lia.
      * rewrite C10.Proofs_Sum.cf_cons, C10.Proofs_Sum.cf_rev by lia. f_equal. lia.
Qed.

Lemma fir_keys_nonneg f a : fir_of f a -> forall k, In k (keys (fnum f)) -> (0 <= k)%Z.
Proof.
  intros (W & _ & C) k Hk. destruct (Z.lt_ge_cases k 0) as [Hneg|]; [|assumption].
  exfalso. apply (key_coefn_nz _ k W Hk). rewrite C. unfold lcoef.
  replace (k <? 0)%Z with true by (symmetry; apply Z.ltb_lt; exact Hneg). reflexivity.
Qed.

Lemma sim_reversal f a m : fir_of f a -> fnum f <> [] -> List.length a = m -> (1 <= m)%nat ->
  exists h, rev_expr f m = Ok h /\ fir_of h (0 :: rev a).
Proof.
  intros Hf Hne Ha Hm. pose proof Hf as (W & D & C).
  set (q := Hacc (pconst 0) (sort_asc (fnum f))).
  destruct (Hacc_spec (sort_asc (fnum f)) (pconst 0) (wf_pconst 0)) as [Wq Dq]. fold q in Wq, Dq.
  set (mm := Z.of_nat m).
  exists (Filt (pmul (pmul q one_den) [(mm, 1)]) one_den). split.
  - unfold rev_expr. rewrite fz_val. cbn [bind]. rewrite inv_z. cbn [bind].
    unfold fsubst. rewrite (fsum_zi _ Hne). cbn [bind]. rewrite D, fsum_zi_one. cbn [bind].
    fold q. unfold fdiv. cbn [fnum fden]. rewrite pmul_one_den, zf_one by apply wf_pmul. cbn [bind].
    unfold zf0. rewrite fpow_mono. cbn [bind]. replace (-1 * - Z.of_nat m)%Z with mm by (unfold mm; lia).
    unfold fmul. cbn [fnum fden]. rewrite pmul_one_den. apply zf_one. apply wf_pmul.
  - split; [apply wf_pmul|]. split; [reflexivity|]. intro j. cbn [fnum].
    rewrite coefn_shift by apply wf_pmul.
    change one_den with (pconst 1). rewrite coefn_pmul_const_r by apply Wq. rewrite Qcmult_1_r.
    rewrite (coefn_dot q _ (proj1 Wq)), Dq. rewrite pconst0_nil, dot_nil, Qcplus_0_l.
    rewrite (dot_perm _ _ _ (sort_asc_perm (fnum f))).
    rewrite (dot_ext (fnum f) _ (delta (mm - j))).
    + rewrite <- (coefn_dot _ _ (proj1 W)), C. unfold mm. apply lcoef_rev. exact Ha.
    + intro k. unfold delta. replace (- k =? j - mm)%Z with (k =? mm - j)%Z; [reflexivity|].
      destruct (k =? mm - j)%Z eqn:E1; [apply Z.eqb_eq in E1; symmetry; apply Z.eqb_eq; lia|
                                          apply Z.eqb_neq in E1; symmetry; apply Z.eqb_neq; lia].
Qed.

(* ------------------------------------------------------------------ all together *)
Theorem list_arith_is_filter_arith :
  (* ZFilter(list) *)
  (forall a, feval (FNum a) = Ok (Filt (poly_of_list a) one_den) /\ fir_of (Filt (poly_of_list a) one_den) a) /\
  (* reading the coefficients of powers 0..n-1 *)
  (forall f a n, fir_of f a -> coeffs f n = map (cf a) (seq 0 n)) /\
  (* A + B, A - B *)
  (forall f g a b, fir_of f a -> fir_of g b -> exists h, fadd f g = Ok h /\ fir_of h (L.padd a b)) /\
  (forall f g a b, fir_of f a -> fir_of g b -> exists h, fsub f g = Ok h /\ fir_of h (L.psub a b)) /\
  (* c * B and B * c *)
  (forall c g b, fir_of g b -> exists h, sfmul c g = Ok h /\ fir_of h (L.scale c b)) /\
  (forall c g b, fir_of g b -> exists h, fmuls g c = Ok h /\ fir_of h (L.scale c b)) /\
  (* B / c (filter) and Poly / c *)
  (forall c g b, fir_of g b -> c <> 0 -> exists h, fdivs g c = Ok h /\ fir_of h (L.scale (1 / c) b)) /\
  (forall p a c, wf p -> (forall k, coefn p k = lcoef a k) -> c <> 0 ->
     exists q, pdiv_scalar p c = Ok q /\ wf q /\ forall k, coefn q k = lcoef (L.scale (1 / c) a) k) /\
  (* B = A(1 / z) * z ** -m for A with m coefficients *)
  (forall f a m, fir_of f a -> fnum f <> [] -> List.length a = m -> (1 <= m)%nat ->
     exists h, rev_expr f m = Ok h /\ fir_of h (0 :: rev a)).
Proof.
  split; [exact fir_of_list|]. split; [exact coeffs_fir|]. split; [exact sim_fadd|]. split; [exact sim_fsub|].
  split; [exact sim_sfmul|]. split; [exact sim_fmuls|].
  split; [intros c g b Hg Hc; exact (proj2 (sim_fdivs c g b Hg) Hc)|].
  split; [exact sim_pdiv_scalar|exact sim_reversal].
Qed.

(* a monic A is not the empty polynomial *)
Lemma fir_monic_nonempty f a : fir_of f a -> cf a 0 <> 0 -> fnum f <> [].
Proof.
  intros (_ & _ & C) H0 E. apply H0. specialize (C 0%Z). rewrite E, coefn_nil in C.
  unfold lcoef in C. cbn in C. symmetry. exact C.
Qed.
