(* C10 - tie BETWEEN MODELS: the coefficient-list arithmetic used by C10/Model.v inside levinson_durbin and
   lpc.kcovar is the ZFilter / Poly arithmetic of the code as modelled by C05 (filters, every operator through
   the LinearFilter constructor) and C07 (Poly).  [fir_of f a]: the filter object f is the causal FIR filter
   whose coefficient of z^-k is the k-th entry of the list a (0 elsewhere), denominator the constant 1.
   Only `Theorem ... exact lemma` here (kept apart from Prop.v because C05/C07 and C10 share names). *)
From Coq Require Import List Bool ZArith QArith Qcanon.
From AL Require Import Base.CaseLib C07.Model C07.Spec C05.Model C10.ProofsC05.
From AL Require C10.Model C10.Spec.
Import ListNotations.
Open Scope Qc_scope.

Theorem C10_list_arith_is_filter_arith :
  (* ZFilter(list) *)
  (forall a, feval (FNum a) = Ok (Filt (poly_of_list a) one_den) /\ fir_of (Filt (poly_of_list a) one_den) a) /\
  (* numlist / numerator: the coefficients of powers 0..n-1 *)
  (forall f a n, fir_of f a -> coeffs f n = map (C10.Spec.cf a) (seq 0 n)) /\
  (* A + B, A - B (the code's A - B is A + (-B)) *)
  (forall f g a b, fir_of f a -> fir_of g b -> exists h, fadd f g = Ok h /\ fir_of h (C10.Model.padd a b)) /\
  (forall f g a b, fir_of f a -> fir_of g b -> exists h, fsub f g = Ok h /\ fir_of h (C10.Model.psub a b)) /\
  (* number * filter (the code's "k * B": ZFilter([k]) * B) and filter * number *)
  (forall c g b, fir_of g b -> exists h, sfmul c g = Ok h /\ fir_of h (C10.Model.scale c b)) /\
  (forall c g b, fir_of g b -> exists h, fmuls g c = Ok h /\ fir_of h (C10.Model.scale c b)) /\
  (* filter / number and Poly / number *)
  (forall c g b, fir_of g b -> c <> 0 -> exists h, fdivs g c = Ok h /\ fir_of h (C10.Model.scale (1 / c) b)) /\
  (forall p a c, wf p -> (forall k, coefn p k = lcoef a k) -> c <> 0 ->
     exists q, pdiv_scalar p c = Ok q /\ wf q /\ forall k, coefn q k = lcoef (C10.Model.scale (1 / c) a) k) /\
  (* B = A(1 / z) * z ** -m  (substitution of the filter 1/z, then the product by z ** -m) for A with m coefficients
     is the list "0 :: rev A" of lev_loop *)
  (forall f a m, fir_of f a -> fnum f <> [] -> List.length a = m -> (1 <= m)%nat ->
     exists h, rev_expr f m = Ok h /\ fir_of h (0 :: rev a)).
Proof. exact list_arith_is_filter_arith. Qed.
Print Assumptions C10_list_arith_is_filter_arith.

(* a monic A (a_0 = 1, as every A of the Levinson loop) is not the empty polynomial *)
Theorem C10_fir_monic_nonempty : forall f a, fir_of f a -> C10.Spec.cf a 0 <> 0 -> fnum f <> [].
Proof. exact fir_monic_nonempty. Qed.
Print Assumptions C10_fir_monic_nonempty.

(* non-vacuity: [1, 1/2, -3] really is an FIR filter object, and its reversal for m = 3 computes *)
Example C10_fir_example :
  fir_of (Filt (poly_of_list [1; Q2Qc (1 # 2); Q2Qc (-3 # 1)]) one_den) [1; Q2Qc (1 # 2); Q2Qc (-3 # 1)].
Proof. exact (proj2 (fir_of_list [1; Q2Qc (1 # 2); Q2Qc (-3 # 1)])). Qed.
Print Assumptions C10_fir_example.
