(* C10 - case records and boolean checkers for the generated case files.
   corr_* : the implementation's observation equals the model's output;
   holds_*: the implementation's observation satisfies the defining sums of
            Spec.v (normal-equation residuals and the reported error are
            evaluated on the IMPLEMENTATION's coefficients). *)
From Coq Require Import List Bool Arith ZArith QArith Qcanon String.
From AL Require Import Base.CaseLib C10.Model C10.Spec C10.TabLib C10.Gen_Tables.
Import ListNotations.
Open Scope Qc_scope.

Definition exn_name (e : exn) : string :=
  match e with
  | ParCorError => "ParCorError"
  | ZeroDivisionError => "ZeroDivisionError"
  | ValueError => "ValueError"
  | IndexError => "IndexError"
  end%string.

(* observation of a filter-returning call: numerator list and error attribute, or the exception name *)
Inductive fobs := FOk (num : list Qc) (err : Qc) | FErr (name : string).
(* observation of a table-returning call *)
Inductive tobs := TOk (t : list (list Qc)) | TErr (name : string).

Definition fobs_eqb (o : fobs) (m : result (list Qc * Qc)) : bool :=
  match o, m with
  | FOk n e, Ok (a, e') => list_eqb Qc_eqb n (strip0 a) && Qc_eqb e e'
  | FErr s, Err x => String.eqb s (exn_name x)
  | _, _ => false
  end.

Definition tab_eqb (a b : list (list Qc)) : bool := list_eqb (list_eqb Qc_eqb) a b.

Definition tobs_eqb (o : tobs) (m : result (list (list Qc))) : bool :=
  match o, m with
  | TOk t, Ok t' => tab_eqb t t'
  | TErr s, Err x => String.eqb s (exn_name x)
  | _, _ => false
  end.

(* ------------------------------------------------------------------ tables *)
Record tcase := TC { t_blk : list Qc; t_lag : option nat;
                     t_acorr : list Qc; t_lagm : tobs; t_toep : list (list Qc) }.

Definition corr_tab (c : tcase) : bool :=
  list_eqb Qc_eqb (t_acorr c) (acorr (t_blk c) (t_lag c))
  && tobs_eqb (t_lagm c) (lag_matrix (t_blk c) (t_lag c))
  && tab_eqb (t_toep c) (toeplitz (t_blk c)).

Definition holds_tab (c : tcase) : bool :=
  let x := t_blk c in
  let n := List.length x in
  let lags := match t_lag c with None => n | Some m => S m end in
  list_eqb Qc_eqb (t_acorr c) (map (acorr_sum x) (seq 0 lags))
  && match t_lagm c with
     | TOk t => let p := (lags - 1)%nat in tab_eqb t (table lags lags (fun j i => lag_sum x p i j))
     | TErr _ => (n <? lags)%nat        (* documented: ValueError when max_lag >= len(blk) *)
     end
  && tab_eqb (t_toep c) (table n n (fun j i => cf x (dist i j))).

(* the same three functions against the definitions GENERATED from their source (Gen_Tables.v), with integer
   max_lag (negative values included): ties the translator's vocabulary (TabLib.v) to the running code *)
Record zcase := ZC { z_blk : list Qc; z_lag : option Z;
                     z_acorr : list Qc; z_lagm : tobs; z_toep : list (list Qc) }.

Definition corr_tabz (c : zcase) : bool :=
  list_eqb Qc_eqb (z_acorr c) (gen_acorr (z_blk c) (z_lag c))
  && tobs_eqb (z_lagm c) (gen_lag_matrix (z_blk c) (z_lag c))
  && tab_eqb (z_toep c) (gen_toeplitz (z_blk c)).

Definition holds_tabz (c : zcase) : bool :=
  match z_lag c with
  | None => holds_tab (TC (z_blk c) None (z_acorr c) (z_lagm c) (z_toep c))
  | Some z => if (z <? 0)%Z then true      (* the text says nothing about a negative max_lag *)
              else holds_tab (TC (z_blk c) (Some (Z.to_nat z)) (z_acorr c) (z_lagm c) (z_toep c))
  end.

(* ------------------------------------------------------------------ levinson_durbin *)
Record lcase := LC { l_r : list Qc; l_order : option nat; l_obs : fobs }.

Definition corr_lev (c : lcase) : bool := fobs_eqb (l_obs c) (levinson_durbin (l_r c) (l_order c)).

(* monic, order at most p, Yule-Walker rows 1..p vanish, error = sum_j a_j r_j *)
Definition yw_ok (r a : list Qc) (p : nat) (e : Qc) : bool :=
  Qc_eqb (cf a 0) 1 && (List.length a <=? S p)%nat
  && forallb (fun i => Qc_eqb (yw_row r a i) 0) (seq 1 p)
  && Qc_eqb e (dot a r).

Definition holds_lev (c : lcase) : bool :=
  match l_obs c with
  | FErr s =>                            (* ParCorError is legitimate only when the recursion does divide by zero
                                            (C10_levinson_guard says exactly when); other exceptions: the text is silent *)
      if String.eqb s "ParCorError"
      then match levinson_durbin (l_r c) (l_order c) with Err ParCorError => true | _ => false end
      else true
  | FOk a e =>
      let p := match l_order c with None => (List.length (l_r c) - 1)%nat | Some p => p end in
      yw_ok (l_r c) a p e
  end.

(* ------------------------------------------------------------------ lpc.kautocor *)
Record acase := AC { a_blk : list Qc; a_order : option nat; a_obs : fobs }.

Definition corr_kac (c : acase) : bool := fobs_eqb (a_obs c) (kautocor (a_blk c) (a_order c)).

(* a with 1 added to / subtracted from coefficient i (another monic filter of the same order, i >= 1) *)
Fixpoint bump (d : Qc) (i : nat) (a : list Qc) : list Qc :=
  match i, a with
  | O, [] => [d]
  | O, x :: t => (x + d) :: t
  | S k, [] => 0 :: bump d k []
  | S k, x :: t => x :: bump d k t
  end.

Definition holds_kac (c : acase) : bool :=
  match a_obs c with
  | FErr s =>
      if String.eqb s "ParCorError"
      then match kautocor (a_blk c) (a_order c) with Err ParCorError => true | _ => false end
      else true
  | FOk a e =>
      let x := a_blk c in
      let p := match a_order c with None => (List.length x - 1)%nat | Some p => p end in
      let r := map (acorr_sum x) (seq 0 (S p)) in
      yw_ok r a p e
      && Qc_eqb e (energy_full a x)
      (* two other monic filters of the same order (first and last predictor coefficient moved by 1) *)
      && ((p =? 0)%nat || Qc_leb e (energy_full (bump 1 1 a) x) && Qc_leb e (energy_full (bump (- (1)) p a) x))
  end.

(* ------------------------------------------------------------------ lpc.kcovar *)
Record ccase := CC { c_blk : list Qc; c_order : option nat; c_obs : fobs }.

Definition corr_kcv (c : ccase) : bool := fobs_eqb (c_obs c) (kcovar (c_blk c) (c_order c)).

Definition holds_kcv (c : ccase) : bool :=
  match c_obs c with
  | FErr _ => true                       (* "when it returns" *)
  | FOk a e =>
      let x := c_blk c in
      let p := match c_order c with None => (List.length x - 1)%nat | Some p => p end in
      Qc_eqb (cf a 0) 1 && (List.length a <=? S p)%nat
      && forallb (fun i => Qc_eqb (cov_row x a p i) 0) (seq 1 p)
      && Qc_eqb e (energy_cov a x p)
  end.

(* ------------------------------------------------------------------ scale, float runs *)
(* The same call on FLOAT inputs and on the inputs multiplied by a power of two c (exact in binary floating point, no
   overflow / underflow in range): every float operation of the code then rounds alike, so the scaled run must
   return the same coefficients bit for bit and the error times c (lags scaled: fs_pow = 1) or c * c (block scaled:
   fs_pow = 2).  That is a statement about the tie (corr); the property text itself only demands that the scaled
   call returns a monic filter whenever the unscaled one does (the recursion divides by zero on neither). *)
Record fscase := FSC { fs_pow : nat; fs_c : Qc; fs_base : fobs; fs_scaled : fobs }.

Definition corr_fs (c : fscase) : bool :=
  match fs_base c, fs_scaled c with
  | FOk n e, FOk n' e' =>
      list_eqb Qc_eqb n n' && Qc_eqb e' ((if (fs_pow c =? 1)%nat then fs_c c else fs_c c * fs_c c) * e)
  | FErr s, FErr s' => String.eqb s s'
  | _, _ => false
  end.

Definition holds_fs (c : fscase) : bool :=
  match fs_base c, fs_scaled c with
  | FOk _ _, FOk n' _ => Qc_eqb (cf n' 0) 1
  | FOk _ _, FErr _ => false
  | FErr _, _ => true
  end.

(* ------------------------------------------------------------------ call histories *)
(* A history is a sequence of calls on block objects that the caller reuses and refills in place between
   calls.  The functions are pure, so the model is per call: every call's result must equal the model (and
   satisfy the property) on the contents the block has AT THE TIME OF THAT CALL, whatever was computed on the
   same object before. *)
(* HUnsized: any of the five functions on a block without len() (generator, iterator, Stream): TypeError;
   HNumpy: lpc(blk, order) default dispatch / the numpy strategies, numpy being absent: ImportError *)
Inductive hfn := HKac | HKcv | HLev | HAcorr | HLagm | HToep | HUnsized | HNumpy.
Inductive hobs := HF (o : fobs) | HL (l : list Qc) | HT (t : tobs).
Record hstep := HS { h_fn : hfn; h_blk : list Qc; h_order : option nat; h_obs : hobs }.

Definition corr_step (s : hstep) : bool :=
  match h_fn s, h_obs s with
  | HKac, HF o => corr_kac (AC (h_blk s) (h_order s) o)
  | HKcv, HF o => corr_kcv (CC (h_blk s) (h_order s) o)
  | HLev, HF o => corr_lev (LC (h_blk s) (h_order s) o)
  | HAcorr, HL l => list_eqb Qc_eqb l (acorr (h_blk s) (h_order s))
  | HLagm, HT t => tobs_eqb t (lag_matrix (h_blk s) (h_order s))
  | HToep, HT (TOk t) => tab_eqb t (toeplitz (h_blk s))
  | HUnsized, HF (FErr e) => String.eqb e "TypeError"
  | HNumpy, HF (FErr e) => String.eqb e "ModuleNotFoundError" || String.eqb e "ImportError"
  | _, _ => false
  end.

Definition holds_step (s : hstep) : bool :=
  let x := h_blk s in
  let n := List.length x in
  let lags := match h_order s with None => n | Some m => S m end in
  match h_fn s, h_obs s with
  | HKac, HF o => holds_kac (AC x (h_order s) o)
  | HKcv, HF o => holds_kcv (CC x (h_order s) o)
  | HLev, HF o => holds_lev (LC x (h_order s) o)
  | HAcorr, HL l => list_eqb Qc_eqb l (map (acorr_sum x) (seq 0 lags))
  | HLagm, HT (TOk t) => tab_eqb t (table lags lags (fun j i => lag_sum x (lags - 1)%nat i j))
  | HLagm, HT (TErr _) => (n <? lags)%nat
  | HToep, HT (TOk t) => tab_eqb t (table n n (fun j i => cf x (dist i j)))
  | HUnsized, _ => true                  (* the text speaks about blocks "with well-defined length" only *)
  | HNumpy, _ => true
  | _, _ => false
  end.

Definition hcase := list hstep.
Definition corr_hist (c : hcase) : bool := forallb corr_step c.
Definition holds_hist (c : hcase) : bool := forallb holds_step c.
