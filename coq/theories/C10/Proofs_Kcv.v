(* C10 - lpc.kcovar: the Gram-Schmidt loop keeps the basis B_q orthogonal for the
   (symmetric) lag-matrix form, with B_q = z^-(q+1) modulo the span of the earlier ones,
   and A orthogonal to every B_q: hence the covariance normal equations; the stored
   error inner(A, A) is the residual energy over n >= p. *)
From Coq Require Import List Bool Arith ZArith QArith Qcanon Lia.
From AL Require Import Base.CaseLib C10.Model C10.Spec C10.Proofs_Sum C10.Proofs_Tab C10.Proofs_Kac.
Import ListNotations.
Open Scope Qc_scope.

(* ------------------------------------------------------------------ psum *)
Lemma inner_psum_seq K v (h : nat -> list Qc) m : forall s,
  inner K v (psum (map h (seq s m))) = sumn (fun t => inner K v (h (s + t)%nat)) m.
Proof.
  induction m as [|m IH]; intro s.
  - cbn. apply inner_nil_r.
  - cbn [seq map psum fold_right]. fold (psum (map h (seq (S s) m))).
    rewrite inner_padd_r, IH, sumn_first. replace (s + 0)%nat with s by lia. f_equal.
    apply sumn_ext. intros t _. replace (S s + t)%nat with (s + S t)%nat by lia. reflexivity.
Qed.

Lemma cf_psum_0 L : (forall b, In b L -> cf b 0 = 0) -> cf (psum L) 0 = 0.
Proof.
  induction L as [|b L IH]; intro H; [reflexivity|].
  cbn [psum fold_right]. fold (psum L). rewrite cf_padd, H by (left; reflexivity).
  rewrite IH by (intros; apply H; right; assumption). ring.
Qed.

Lemma length_psum_le L n : (forall b, In b L -> (length b <= n)%nat) -> (length (psum L) <= n)%nat.
Proof.
  induction L as [|b L IH]; intro H; [simpl; lia|].
  cbn [psum fold_right]. fold (psum L). rewrite length_padd.
  assert (length b <= n)%nat by (apply H; left; reflexivity).
  assert (length (psum L) <= n)%nat by (apply IH; intros; apply H; right; assumption). lia.
Qed.

(* ------------------------------------------------------------------ the loop invariant *)
Section GramSchmidt.
  Variable K : nat -> nat -> Qc.
  Hypothesis Ksym : forall i j, K i j = K j i.

  Notation ip := (inner K).
  Definition Bq (B : list (list Qc)) (q : nat) : list Qc := nth q B [].

  Record J (m : nat) (A : list Qc) (B : list (list Qc)) (beta : list Qc) : Prop := {
    J0 : (1 <= m)%nat;
    J1 : length B = m /\ length beta = m;
    J2 : forall q, (q < m)%nat -> nth q beta 0 = ip (Bq B q) (Bq B q);
    J3 : forall q, (q < m)%nat -> forall v,
           (forall q', (q' < q)%nat -> ip v (Bq B q') = 0) -> ip v (Bq B q) = ip v (unit (S q));
    J4 : forall q q', (q < q' < m)%nat -> ip (Bq B q) (Bq B q') = 0;
    J5 : forall q, (q < m)%nat -> cf (Bq B q) 0 = 0 /\ length (Bq B q) = S (S q);
    J6 : length A = m /\ cf A 0 = 1 /\ forall q, (S q < m)%nat -> ip A (Bq B q) = 0
  }.

  (* A += k * B[m - 1] with k = -inner(A, z ** -m) / beta[m - 1] *)
  Lemma step_A m A B beta : J m A B beta -> nth (m - 1) beta 0 <> 0 ->
    let A' := padd A (scale (- ip A (unit m) / nth (m - 1) beta 0) (Bq B (m - 1))) in
    length A' = S m /\ cf A' 0 = 1 /\ forall q, (q < m)%nat -> ip A' (Bq B q) = 0.
  Proof.
    intros HJ Hb A'. destruct HJ as [H0 [H1a H1b] H2 H3 H4 H5 (H6a & H6b & H6c)].
    destruct (H5 (m - 1)%nat ltac:(lia)) as [Hc Hl].
    split; [|split].
    - unfold A'. rewrite length_padd, length_scale, Hl, H6a. lia.
    - unfold A'. rewrite cf_padd, cf_scale, Hc, H6b. ring.
    - intros q Hq. unfold A'. rewrite inner_padd_l, inner_scale_l.
      destruct (Nat.eq_dec q (m - 1)) as [->|Hne].
      + rewrite <- (H2 (m - 1)%nat) by lia.
        rewrite (H3 (m - 1)%nat ltac:(lia) A) by (intros q' Hq'; apply H6c; lia).
        replace (S (m - 1)) with m by lia. field. exact Hb.
      + rewrite H6c by lia. rewrite (inner_sym K (Bq B (m - 1)) (Bq B q) Ksym), H4 by lia. ring.
  Qed.

  (* from orthogonality to the basis to orthogonality to the delays *)
  Lemma orth_units m A B beta v : J m A B beta ->
    (forall q, (q < m)%nat -> ip v (Bq B q) = 0) ->
    forall i, (1 <= i <= m)%nat -> ip v (unit i) = 0.
  Proof.
    intros HJ Hv i Hi. destruct HJ as [H0 H1 H2 H3 H4 H5 H6].
    replace i with (S (i - 1)) by lia. rewrite <- (H3 (i - 1)%nat ltac:(lia) v).
    - apply Hv. lia.
    - intros q' Hq'. apply Hv. lia.
  Qed.

  Definition gamma_of (m : nat) (B : list (list Qc)) (beta : list Qc) : list Qc :=
    map (fun q => ip (unit (S m)) (nth q B []) / nth q beta 0) (seq 0 m).
  Definition Bm_of (m : nat) (B : list (list Qc)) (beta : list Qc) : list Qc :=
    psub (unit (S m))
         (psum (map (fun q => scale (nth q (gamma_of m B beta) 0) (nth q B [])) (seq 0 m))).

  Lemma nth_gamma m B beta q : (q < m)%nat ->
    nth q (gamma_of m B beta) 0 = ip (unit (S m)) (Bq B q) / nth q beta 0.
  Proof.
    intro Hq. unfold gamma_of.
    rewrite (nth_indep _ 0 (ip (unit (S m)) (nth O B []) / nth O beta 0))
      by (rewrite map_length, seq_length; exact Hq).
    rewrite (map_nth (fun q => ip (unit (S m)) (nth q B []) / nth q beta 0) (seq 0 m) O q).
    rewrite seq_nth by exact Hq. reflexivity.
  Qed.

  Lemma ip_Bm m B beta v :
    ip v (Bm_of m B beta) =
    ip v (unit (S m)) - sumn (fun q => nth q (gamma_of m B beta) 0 * ip v (Bq B q)) m.
  Proof.
    unfold Bm_of. rewrite inner_psub_r, inner_psum_seq. f_equal.
    apply sumn_ext. intros q _. cbn [Nat.add]. rewrite inner_scale_r. reflexivity.
  Qed.

  Lemma Bq_app_old B b q : (q < length B)%nat -> Bq (B ++ [b]) q = Bq B q.
  Proof. intro H. unfold Bq. apply app_nth1. exact H. Qed.

  Lemma Bq_app_new B b : Bq (B ++ [b]) (length B) = b.
  Proof. unfold Bq. rewrite app_nth2 by lia. replace (length B - length B)%nat with O by lia. reflexivity. Qed.

  (* B.append(z ** -(m + 1) - sum(gamma[q] * B[q] ...));  beta.append(inner(B[m], B[m])) *)
  Lemma step_B m A B beta A' : J m A B beta ->
    (forall q, (q < m)%nat -> nth q beta 0 <> 0) ->
    length A' = S m -> cf A' 0 = 1 -> (forall q, (q < m)%nat -> ip A' (Bq B q) = 0) ->
    J (S m) A' (B ++ [Bm_of m B beta]) (beta ++ [ip (Bm_of m B beta) (Bm_of m B beta)]).
  Proof.
    intros HJ Hbeta HA'l HA'0 HA'o.
    destruct HJ as [H0 [H1a H1b] H2 H3 H4 H5 H6].
    set (Bm := Bm_of m B beta).
    assert (Hold : forall q, (q < m)%nat -> Bq (B ++ [Bm]) q = Bq B q)
      by (intros; apply Bq_app_old; lia).
    assert (Hnew : Bq (B ++ [Bm]) m = Bm) by (rewrite <- H1a; apply Bq_app_new).
    (* v orthogonal to the old basis sees Bm as z^-(m+1) *)
    assert (HBm3 : forall v, (forall q', (q' < m)%nat -> ip v (Bq B q') = 0) ->
                   ip v Bm = ip v (unit (S m))).
    { intros v Hv. unfold Bm. rewrite ip_Bm. rewrite sumn_zero; [ring|].
      intros q Hq. rewrite Hv by exact Hq. ring. }
    (* Bm is orthogonal to the old basis *)
    assert (HBm4 : forall q, (q < m)%nat -> ip (Bq B q) Bm = 0).
    { intros q Hq. unfold Bm. rewrite ip_Bm.
      rewrite (sumn_single _ m q Hq).
      - rewrite nth_gamma by exact Hq. rewrite <- (H2 q Hq).
        rewrite (inner_sym K (unit (S m)) _ Ksym). field. apply Hbeta. exact Hq.
      - intros q' Hq' Hne.
        destruct (Nat.lt_ge_cases q q') as [Hlt|Hge].
        + rewrite H4 by lia. ring.
        + rewrite (inner_sym K _ _ Ksym), H4 by lia. ring. }
    constructor.
    - lia.
    - rewrite !app_length. simpl. lia.
    - intros q Hq. destruct (Nat.eq_dec q m) as [->|Hne].
      + rewrite Hnew. rewrite <- H1b at 1. rewrite app_nth2 by lia.
        replace (length beta - length beta)%nat with O by lia. reflexivity.
      + rewrite Hold by lia. rewrite app_nth1 by lia. apply H2. lia.
    - intros q Hq v Hv. destruct (Nat.eq_dec q m) as [->|Hne].
      + rewrite Hnew. apply HBm3. intros q' Hq'. rewrite <- Hold by exact Hq'. apply Hv. exact Hq'.
      + rewrite Hold by lia. apply H3; [lia|].
        intros q' Hq'. rewrite <- Hold by lia. apply Hv. exact Hq'.
    - intros q q' Hqq. destruct (Nat.eq_dec q' m) as [->|Hne].
      + rewrite Hnew, Hold by lia. apply HBm4. lia.
      + rewrite !Hold by lia. apply H4. lia.
    - intros q Hq. destruct (Nat.eq_dec q m) as [->|Hne].
      + rewrite Hnew. unfold Bm, Bm_of. split.
        * rewrite cf_psub, cf_unit. cbn [Nat.eqb]. rewrite cf_psum_0; [ring|].
          intros b Hb. apply in_map_iff in Hb as (q' & <- & Hq'). apply in_seq in Hq'.
          rewrite cf_scale. destruct (H5 q' ltac:(lia)) as [Hc _]. unfold Bq in Hc. rewrite Hc. ring.
        * rewrite length_psub, length_unit.
          assert (length (psum (map (fun q0 => scale (nth q0 (gamma_of m B beta) 0%Qc) (nth q0 B []))
                                    (seq 0 m))) <= S m)%nat.
          { apply length_psum_le. intros b Hb. apply in_map_iff in Hb as (q' & <- & Hq'). apply in_seq in Hq'.
            rewrite length_scale. destruct (H5 q' ltac:(lia)) as [_ Hl]. unfold Bq in Hl. rewrite Hl. lia. }
          lia.
      + rewrite Hold by lia. apply H5. lia.
    - split; [exact HA'l|split; [exact HA'0|]].
      intros q Hq. rewrite Hold by lia. apply HA'o. lia.
  Qed.

  Lemma existsb_zero_false beta m :
    existsb (fun b => Qc_eqb b 0) (firstn m beta) = false -> (m <= length beta)%nat ->
    forall q, (q < m)%nat -> nth q beta 0 <> 0.
  Proof.
    intros He Hm q Hq Hz.
    assert (Hin : In (nth q beta 0) (firstn m beta)).
    { rewrite <- (firstn_skipn m beta) at 1. rewrite app_nth1 by (rewrite firstn_length; lia).
      apply nth_In. rewrite firstn_length. lia. }
    assert (existsb (fun b => Qc_eqb b 0) (firstn m beta) = true).
    { apply existsb_exists. exists (nth q beta 0). split; [exact Hin|]. apply Qc_eqb_spec. exact Hz. }
    congruence.
  Qed.

  Lemma kcovar_loop_unfold rem m A B beta :
    kcovar_loop K rem m A B beta =
    let bm := nth (m - 1) beta 0 in
    if Qc_eqb bm 0 then Err ZeroDivisionError
    else
      let k := - inner K A (unit m) / bm in
      if Qc_leb 1 k || Qc_leb k (- (1)) then Err ValueError
      else
        let A' := padd A (scale k (nth (m - 1) B [])) in
        match rem with
        | O => Ok (A', inner K A' A')
        | S rem' =>
            if existsb (fun b => Qc_eqb b 0) (firstn m beta) then Err ZeroDivisionError
            else
              let gamma := map (fun q => inner K (unit (S m)) (nth q B []) / nth q beta 0) (seq 0 m) in
              let Bm := psub (unit (S m))
                             (psum (map (fun q => scale (nth q gamma 0) (nth q B [])) (seq 0 m))) in
              kcovar_loop K rem' (S m) A' (B ++ [Bm]) (beta ++ [inner K Bm Bm])
        end.
  Proof. destruct rem; reflexivity. Qed.

  Lemma kcovar_loop_spec : forall rem m A B beta a e, J m A B beta ->
    kcovar_loop K rem m A B beta = Ok (a, e) ->
    length a = S (m + rem) /\ cf a 0 = 1 /\
    (forall i, (1 <= i <= m + rem)%nat -> ip a (unit i) = 0) /\ e = ip a a.
  Proof.
    induction rem as [|rem IH]; intros m A B beta a e HJ H; rewrite kcovar_loop_unfold in H; cbv zeta in H;
      destruct (Qc_eqb (nth (m - 1) beta 0) 0) eqn:Eb; try discriminate;
      destruct (Qc_leb 1 (- ip A (unit m) / nth (m - 1) beta 0)
                || Qc_leb (- ip A (unit m) / nth (m - 1) beta 0) (- (1))); try discriminate;
      assert (Hb : nth (m - 1) beta 0 <> 0) by (intro Hz; apply Qc_eqb_spec in Hz; congruence);
      destruct (step_A m A B beta HJ Hb) as (HAl & HA0 & HAo); cbv zeta in HAl, HA0, HAo; fold (Bq B (m - 1)) in H.
    - inversion H; subst. replace (m + 0)%nat with m by lia. repeat split; try assumption.
      apply (orth_units m A B beta _ HJ HAo).
    - destruct (existsb (fun b => Qc_eqb b 0) (firstn m beta)) eqn:Ee; [discriminate|].
      assert (Hbeta : forall q, (q < m)%nat -> nth q beta 0 <> 0).
      { apply existsb_zero_false; [exact Ee|]. destruct HJ as [_ [_ Hl] _ _ _ _ _]. lia. }
      pose proof (step_B m A B beta _ HJ Hbeta HAl HA0 HAo) as HJ'.
      apply (IH _ _ _ _ a e HJ') in H.
      replace (m + S rem)%nat with (S m + rem)%nat by lia. exact H.
  Qed.

  Lemma J_init : J 1 [1] [unit 1] [ip (unit 1) (unit 1)].
  Proof.
    constructor.
    - lia.
    - split; reflexivity.
    - intros q Hq. replace q with O by lia. reflexivity.
    - intros q Hq v _. replace q with O by lia. reflexivity.
    - intros q q' Hqq. lia.
    - intros q Hq. replace q with O by lia. split; reflexivity.
    - split; [reflexivity|split; [reflexivity|]]. intros q Hq. lia.
  Qed.
End GramSchmidt.

(* ------------------------------------------------------------------ the lag matrix as a form *)
Lemma phiK_table n f i j :
  phiK (table n n f) i j = if (i <? n)%nat && (j <? n)%nat then f i j else 0.
Proof.
  unfold phiK. destruct (i <? n)%nat eqn:Ei; [apply Nat.ltb_lt in Ei|apply Nat.ltb_ge in Ei].
  - destruct (j <? n)%nat eqn:Ej; [apply Nat.ltb_lt in Ej|apply Nat.ltb_ge in Ej]; cbn [andb].
    + apply table_nth; assumption.
    + apply nth_overflow. unfold table.
      rewrite (nth_indep _ [] (map (fun i => f 0%nat i) (seq 0 n))) by (rewrite map_length, seq_length; exact Ei).
      rewrite (map_nth (fun j => map (fun i => f j i) (seq 0 n)) (seq 0 n) O i).
      rewrite map_length, seq_length. exact Ej.
  - cbn [andb]. rewrite (nth_overflow (table n n f)) by (rewrite table_length; exact Ei).
    destruct j; reflexivity.
Qed.

Lemma phiK_table_sym n f : (forall i j, f i j = f j i) ->
  forall i j, phiK (table n n f) i j = phiK (table n n f) j i.
Proof.
  intros Hf i j. rewrite !phiK_table, (Hf i j), (andb_comm (i <? n)%nat). reflexivity.
Qed.

(* residual energy over n >= p  =  quadratic form of the lag sums *)
Lemma energy_cov_qform a x p : energy_cov a x p = qform (fun i j => lag_sum x p i j) a.
Proof.
  unfold energy_cov, qform. set (L := length a).
  rewrite (sumn_ext _ (fun t => sumn (fun i => sumn (fun j =>
             cf a i * cf a j * (cf x (p + t - i) * cf x (p + t - j))) L) L)).
  2:{ intros t _. rewrite sumn_mul. apply sumn_ext. intros i _. apply sumn_ext. intros j _. ring. }
  rewrite sumn_swap. apply sumn_ext. intros i _.
  rewrite sumn_swap. apply sumn_ext. intros j _.
  rewrite sumn_scale. reflexivity.
Qed.

Lemma kcovar_core x p phi a e :
  phi = table (S p) (S p) (fun j i => lag_sum x p i j) ->
  match length phi with
  | O | S O => Err IndexError
  | S (S rem) => kcovar_loop (phiK phi) rem 1 [1] [unit 1] [inner (phiK phi) (unit 1) (unit 1)]
  end = Ok (a, e) ->
  (1 <= p)%nat /\ length a = S p /\ cf a 0 = 1 /\
  (forall i, (1 <= i <= p)%nat -> cov_row x a p i = 0) /\
  e = energy_cov a x p.
Proof.
  intros Hphi H. rewrite Hphi, table_length in H. rewrite <- Hphi in H.
  destruct p as [|rem]; [discriminate|].
  assert (Ksym : forall i j, phiK phi i j = phiK phi j i).
  { rewrite Hphi. apply phiK_table_sym. intros i j. apply lag_sum_sym. }
  apply (kcovar_loop_spec (phiK phi) Ksym rem 1 [1] [unit 1] _ a e (J_init (phiK phi))) in H.
  destruct H as (Hl & H0 & Hrows & He). cbn [Nat.add] in *.
  assert (HK : forall i j, (i < S (S rem))%nat -> (j < S (S rem))%nat ->
               phiK phi i j = lag_sum x (S rem) i j).
  { intros i j Hi Hj. rewrite Hphi, phiK_table.
    apply Nat.ltb_lt in Hi, Hj. rewrite Hi, Hj. cbn [andb]. apply lag_sum_sym. }
  split; [lia|]. split; [exact Hl|]. split; [exact H0|]. split.
  - intros i Hi. rewrite <- (Hrows i Hi). rewrite (inner_sym _ _ _ Ksym), inner_unit_l.
    unfold cov_row, krow. apply sumn_ext. intros j Hj. rewrite HK by lia. ring.
  - rewrite He, energy_cov_qform, <- inner_qform. apply inner_ext.
    intros i j Hi Hj. apply HK; lia.
Qed.

Lemma kcovar_spec x p a e : kcovar x (Some p) = Ok (a, e) ->
  (1 <= p < length x)%nat /\ length a = S p /\ cf a 0 = 1 /\
  (forall i, (1 <= i <= p)%nat -> cov_row x a p i = 0) /\
  e = energy_cov a x p.
Proof.
  unfold kcovar. rewrite lag_matrix_is_sum.
  destruct (length x <=? p)%nat eqn:E; [discriminate|]. apply Nat.leb_gt in E.
  intro H. apply (kcovar_core x p _ a e eq_refl) in H.
  destruct H as (H1 & H2). split; [lia|exact H2].
Qed.

(* order omitted: p = len(blk) - 1 *)
Lemma kcovar_spec_none x a e : kcovar x None = Ok (a, e) ->
  let p := (length x - 1)%nat in
  (1 <= p)%nat /\ length a = S p /\ cf a 0 = 1 /\
  (forall i, (1 <= i <= p)%nat -> cov_row x a p i = 0) /\
  e = energy_cov a x p.
Proof.
  unfold kcovar. rewrite lag_matrix_none_is_sum. intro H. cbv zeta.
  destruct (length x) as [|n] eqn:En; [discriminate|].
  set (p := (S n - 1)%nat).
  assert (Hp : S p = S n) by (unfold p; lia).
  rewrite <- Hp in H. replace (S p - 1)%nat with p in H by lia.
  apply (kcovar_core x p _ a e eq_refl) in H. exact H.
Qed.

(* the exceptions of kcovar, as the model has them (all covered by the correspondence):
   ValueError for order >= len(blk); IndexError for order 0 / blocks shorter than 2 with no order;
   ZeroDivisionError when a beta[m-1] is zero; ValueError when a coefficient k leaves (-1, 1). *)
Lemma kcovar_order_too_large x p : (length x <= p)%nat -> kcovar x (Some p) = Err ValueError.
Proof.
  intro H. unfold kcovar. rewrite lag_matrix_is_sum. apply Nat.leb_le in H. rewrite H. reflexivity.
Qed.

Lemma kcovar_error_is_residual_energy x p a e : kcovar x (Some p) = Ok (a, e) -> e = energy_cov a x p.
Proof. intro H. apply kcovar_spec in H. destruct H as (_ & _ & _ & _ & H). exact H. Qed.

Lemma kautocor_error_is_energy x p a e : kautocor x (Some p) = Ok (a, e) -> e = energy_full a x.
Proof. intro H. apply kautocor_spec in H. destruct H as (_ & _ & _ & H & _). exact H. Qed.

Lemma kautocor_example :
  kautocor (map (fun z => qc z 1) [-1; 0; 1; 0; -1; 0; 1; 0; -1; 0; 1; 0; -1; 0; 1; 0]%Z) (Some 2%nat)
  = Ok ([1; 0; qc 7 8], qc 15 8).
Proof. apply Proofs_Lev.res_is_spec. vm_compute. reflexivity. Qed.

Lemma kcovar_example :
  kcovar (map (fun z => qc z 1) [1; 2; 3; -1; 1]%Z) (Some 2%nat)
  = Ok ([1; qc (-8) 171; qc (-46) 171], qc 1681 171).
Proof. apply Proofs_Lev.res_is_spec. vm_compute. reflexivity. Qed.
