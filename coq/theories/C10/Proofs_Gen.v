(* C10 - the definitions GENERATED from the source of acorr / lag_matrix / toeplitz (Gen_Tables.v) equal
   the hand-written table models of Model.v on every input; the hand-written ones are the ones the
   correspondence check runs and all other proofs use.  Recompiled on every check run against the
   regenerated file: an edit of those three function bodies either keeps these proofs or breaks them. *)
From Coq Require Import List Bool Arith ZArith QArith Qcanon Lia.
From AL Require Import Base.CaseLib C10.Model C10.Spec C10.TabLib C10.Gen_Tables C10.Proofs_Sum C10.Proofs_Tab.
Import ListNotations.

Lemma zidx_nat l n : zidx l (Z.of_nat n) = nth n l 0%Qc.
Proof.
  unfold zidx. replace (Z.of_nat n <? 0)%Z with false by (symmetry; apply Z.ltb_ge; lia).
  rewrite Nat2Z.id. reflexivity.
Qed.

Lemma map_shift_seq lo cnt : forall s,
  map (fun k => (Z.of_nat lo + Z.of_nat k)%Z) (seq s cnt) = map Z.of_nat (seq (lo + s) cnt).
Proof.
  induction cnt as [|c IH]; intro s; [reflexivity|].
  cbn [seq map]. f_equal; [lia|]. rewrite IH. replace (lo + S s)%nat with (S (lo + s)) by lia. reflexivity.
Qed.

Lemma zrange_nat lo cnt : zrange (Z.of_nat lo) (Z.of_nat lo + Z.of_nat cnt) = map Z.of_nat (seq lo cnt).
Proof.
  unfold zrange. replace (Z.of_nat lo + Z.of_nat cnt - Z.of_nat lo)%Z with (Z.of_nat cnt) by lia.
  rewrite Nat2Z.id, map_shift_seq. replace (lo + 0)%nat with lo by lia. reflexivity.
Qed.

(* xrange(lo, hi) for any integer hi, negative or not *)
Lemma zrange_to_nat lo hi : zrange (Z.of_nat lo) hi = map Z.of_nat (seq lo (Z.to_nat (hi - Z.of_nat lo))).
Proof.
  destruct (Z.le_gt_cases (Z.of_nat lo) hi) as [H|H].
  - rewrite <- zrange_nat. f_equal. lia.
  - unfold zrange. replace (Z.to_nat (hi - Z.of_nat lo)) with O by lia. reflexivity.
Qed.

Lemma zrange0 hi : zrange 0 hi = map Z.of_nat (seq 0 (Z.to_nat hi)).
Proof. change 0%Z with (Z.of_nat 0). rewrite zrange_to_nat. f_equal. f_equal. cbn. lia. Qed.

Lemma zsum_nat f lo cnt : zsum f (map Z.of_nat (seq lo cnt)) = sum_range (fun n => f (Z.of_nat n)) lo cnt.
Proof.
  revert lo. induction cnt as [|c IH]; intro lo; [reflexivity|].
  cbn [seq map zsum fold_right sum_range]. f_equal. apply IH.
Qed.

Lemma sum_range_ext f g lo cnt : (forall n, (lo <= n < lo + cnt)%nat -> f n = g n) ->
  sum_range f lo cnt = sum_range g lo cnt.
Proof.
  revert lo. induction cnt as [|c IH]; intros lo H; [reflexivity|].
  cbn [sum_range]. rewrite H by lia. f_equal. apply IH. intros n Hn. apply H. lia.
Qed.

Lemma map_seq_ext {T} (f g : nat -> T) lo cnt : (forall n, (lo <= n < lo + cnt)%nat -> f n = g n) ->
  map f (seq lo cnt) = map g (seq lo cnt).
Proof. intro H. apply map_ext_in. intros n Hn. apply in_seq in Hn. apply H. exact Hn. Qed.

(* ------------------------------------------------------------------ acorr *)
Lemma gen_acorr_body_eq blk z : gen_acorr_body blk z = acorr_lags blk (Z.to_nat (z + 1)).
Proof.
  unfold gen_acorr_body, acorr_lags. rewrite zrange0, map_map. apply map_ext. intro tau.
  rewrite zrange0, zsum_nat.
  replace (Z.to_nat (zlen blk - Z.of_nat tau)) with (length blk - tau)%nat by (unfold zlen; lia).
  apply sum_range_ext. intros n _. rewrite <- Nat2Z.inj_add, !zidx_nat. reflexivity.
Qed.

Lemma gen_acorr_eq blk lag : gen_acorr blk (option_map Z.of_nat lag) = acorr blk lag.
Proof.
  unfold gen_acorr, acorr. rewrite gen_acorr_body_eq. destruct lag as [m|]; cbn [option_map]; f_equal.
  - lia.
  - unfold zlen. lia.
Qed.

(* any integer max_lag, negative ones included: max(0, max_lag + 1) defining sums *)
Lemma gen_acorr_is_sum blk z :
  gen_acorr blk (Some z) = map (acorr_sum blk) (seq 0 (Z.to_nat (z + 1))).
Proof. unfold gen_acorr. rewrite gen_acorr_body_eq. apply acorr_lags_is_sum. Qed.

(* ------------------------------------------------------------------ lag_matrix *)
Lemma gen_lag_body_eq blk m : gen_lag_matrix_body blk (Z.of_nat m) = lag_table blk (S m) m.
Proof.
  unfold gen_lag_matrix_body, lag_table. rewrite zrange0.
  replace (Z.to_nat (Z.of_nat m + 1)) with (S m) by lia. rewrite map_map.
  apply map_seq_ext. intros j Hj. rewrite map_map. apply map_seq_ext. intros i Hi.
  rewrite zrange_to_nat, zsum_nat.
  replace (Z.to_nat (zlen blk - Z.of_nat m)) with (length blk - m)%nat by (unfold zlen; lia).
  apply sum_range_ext. intros n Hn.
  rewrite <- !Nat2Z.inj_sub by lia. rewrite !zidx_nat. reflexivity.
Qed.

Lemma gen_lag_matrix_eq blk lag : gen_lag_matrix blk (option_map Z.of_nat lag) = lag_matrix blk lag.
Proof.
  unfold gen_lag_matrix, lag_matrix. destruct lag as [m|]; cbn [option_map].
  - replace (Z.of_nat m >=? zlen blk)%Z with (length blk <=? m)%nat.
    + destruct (length blk <=? m)%nat; [reflexivity|]. rewrite gen_lag_body_eq. reflexivity.
    + unfold zlen. destruct (length blk <=? m)%nat eqn:E.
      * apply Nat.leb_le in E. symmetry. apply Z.geb_le. lia.
      * apply Nat.leb_gt in E. symmetry. rewrite Z.geb_leb. apply Z.leb_gt. lia.
  - f_equal. destruct blk as [|x t]; [reflexivity|].
    replace (zlen (x :: t) - 1)%Z with (Z.of_nat (length t)) by (unfold zlen; cbn [length]; lia).
    rewrite gen_lag_body_eq. cbn [length]. replace (S (length t) - 1)%nat with (length t) by lia. reflexivity.
Qed.

(* a negative max_lag is not rejected by the code: the result is the empty table *)
Lemma gen_lag_matrix_negative blk z : (z < 0)%Z -> gen_lag_matrix blk (Some z) = Ok [].
Proof.
  intro H. unfold gen_lag_matrix. replace (z >=? zlen blk)%Z with false.
  - f_equal. unfold gen_lag_matrix_body. rewrite zrange0. replace (Z.to_nat (z + 1)) with O by lia. reflexivity.
  - symmetry. rewrite Z.geb_leb. apply Z.leb_gt. unfold zlen. lia.
Qed.

(* ------------------------------------------------------------------ toeplitz *)
Lemma gen_toeplitz_eq v : gen_toeplitz v = toeplitz v.
Proof.
  unfold gen_toeplitz, toeplitz. rewrite zrange0. unfold zlen. rewrite Nat2Z.id, map_map.
  apply map_ext. intro j. rewrite map_map. apply map_ext. intro i.
  replace (Z.abs (Z.of_nat i - Z.of_nat j)) with (Z.of_nat (absdiff i j)) by (unfold absdiff; lia).
  apply zidx_nat.
Qed.
