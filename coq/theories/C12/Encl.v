(* C12 - tactic closing the generated enclosure goals  Rabs (spec - v) <= tol  (build/C12/encl_*.v).
   The goals are stated on the real formulas of ModelR.v (spec_re, spec_im, spec_cascade,
   spec_parallel, spec_steady, spec_dft), which ProofsR.spec_c_correct / spec_dft_correct tie to
   the complex specification; [c12_unfold] only unfolds them down to cos / sin / + - * /. *)
From Coq Require Export Reals List ZArith.
From Coquelicot Require Export Complex.
From Interval Require Export Tactic.
From AL Require Export C12.ModelR.
Export ListNotations.

Ltac c12_unfold :=
  cbv [spec_re spec_im spec_c spec_cascade spec_parallel spec_steady spec_dft spec_tree rsum cis
       map fold_right fst snd Cmult Cplus RtoC Z.add Pos.add Pos.succ Pos.add_carry].
(* 80 bits suffice except where a sine is evaluated next to a multiple of pi (w = fl(pi), fl(pi)/2 ...):
   Interval obtains sin from cos there and keeps only half of the working precision *)
Ltac c12_enclose := c12_unfold; try solve [ interval with (i_prec 80) ]; interval with (i_prec 240).
(* for frequencies k*fl(pi)/m: go to the higher precision at once *)
Ltac c12_enclose_hi := c12_unfold; interval with (i_prec 240).
