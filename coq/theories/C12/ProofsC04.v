(* C12 - the FIR slice of LinearFilter.__call__ carried by C12.Model (generated expression with the
   1 / -1 / gain special cases, zero-initialised delay line) computes, on rationals, exactly what the
   full model of C04 (code generator + interpreter of the generated program) computes for
   ZFilter(b, [a0])(xs, zero=zero).  C04 names are written qualified. *)
From Coq Require Import List Bool Arith ZArith QArith Qcanon Lia Field.
From AL Require Import Base.CaseLib C12.Model C12.Spec C12.Proofs.
From AL Require C04.Model C04.Spec C04.ProofsCtor.
Import ListNotations.
Open Scope Qc_scope.

Lemma Qc_field : field_theory (c0 Qc_ops) (c1 Qc_ops) (cadd Qc_ops) (cmul Qc_ops) (csub Qc_ops)
                              (copp Qc_ops) (cdiv Qc_ops) (cinv Qc_ops) eq.
Proof. exact Qcft. Qed.

(* the numerator sum of C12 over the compacted items is C04's dot over the coefficient list *)
Lemma dsum_dot (d : Z -> Qc) (b : list Qc) : forall k0,
  dsum Qc_ops (filter (fun kc => negb (Qc_eqb (snd kc) 0)) (enum_from k0 b)) d = C04.Spec.dot b d k0.
Proof.
  induction b as [|c b IH]; intro k0; simpl; [reflexivity|].
  destruct (Qc_eqb c 0) eqn:E; simpl.
  - apply Qc_eqb_spec in E. subst c. rewrite IH. ring.
  - rewrite IH. reflexivity.
Qed.

Lemma dot_ext (f g : Z -> Qc) (b : list Qc) : forall k0,
  (forall k, (k0 <= k < k0 + Z.of_nat (length b))%Z -> f k = g k) -> C04.Spec.dot b f k0 = C04.Spec.dot b g k0.
Proof.
  induction b as [|c b IH]; intros k0 H; simpl; [reflexivity|].
  rewrite (H k0) by (simpl length; lia). rewrite (IH (k0 + 1)%Z); [reflexivity|].
  intros k Hk. apply H. simpl length. lia.
Qed.

(* the delay line of C12 is the input signal of C04 read backwards *)
Lemma delayed_xsig zero xs n k : (n < length xs)%nat -> (0 <= k)%Z ->
  delayed zero xs n k = C04.Spec.xsig zero xs (Z.of_nat n - k).
Proof.
  intros Hn Hk. unfold delayed, C04.Spec.xsig.
  destruct (Z.of_nat n <? k)%Z eqn:E.
  - apply Z.ltb_lt in E. assert (E2 : (Z.of_nat n - k <? 0)%Z = true) by (apply Z.ltb_lt; lia). rewrite E2. reflexivity.
  - apply Z.ltb_ge in E. assert (E2 : (Z.of_nat n - k <? 0)%Z = false) by (apply Z.ltb_ge; lia). rewrite E2.
    replace (Z.to_nat (Z.of_nat n - k)) with (n - Z.to_nat k)%nat by lia. apply nth_indep. lia.
Qed.

Lemma enumerate_from_c04 (l : list Qc) : forall k, C04.Model.enumerate_from k l = enum_from k l.
Proof. induction l as [|c l IH]; intro k; simpl; [reflexivity|]. rewrite IH. reflexivity. Qed.

Lemma is_polynomial_enum (f : Z * Qc -> bool) (b : list Qc) : forall k0, (0 <= k0)%Z ->
  is_polynomial (filter f (enum_from k0 b)) = true.
Proof.
  induction b as [|c b IH]; intros k0 Hk; simpl; [reflexivity|].
  destruct (f (k0, c)); simpl; [|apply IH; lia].
  rewrite IH by lia. assert (E : (0 <=? k0)%Z = true) by (apply Z.leb_le; lia). rewrite E. reflexivity.
Qed.

Lemma allzero_filter_nil (b : list Qc) : forall k0,
  forallb (fun kv : Z * Qc => Qc_eqb (snd kv) 0) (enum_from k0 b) = true ->
  filter (fun kc : Z * Qc => negb (Qc_eqb (snd kc) 0)) (enum_from k0 b) = [].
Proof.
  induction b as [|c b IH]; intros k0 H; simpl in *; [reflexivity|].
  apply andb_true_iff in H as [H1 H2]. rewrite H1. simpl. apply IH. exact H2.
Qed.

Lemma filter_nil_allzero (b : list Qc) : forall k0,
  forallb (fun kv : Z * Qc => Qc_eqb (snd kv) 0) (enum_from k0 b) = false ->
  filter (fun kc : Z * Qc => negb (Qc_eqb (snd kc) 0)) (enum_from k0 b) <> [].
Proof.
  induction b as [|c b IH]; intros k0 H; simpl in *; [discriminate|].
  destruct (Qc_eqb c 0); simpl in *; [apply IH; exact H|discriminate].
Qed.

Lemma lf_make_gain b a0 : a0 <> 0 -> lf_make Qc_ops b [a0] = Some (poly_of_list Qc_ops b, [(0%Z, a0)]).
Proof.
  intro Ha. assert (E : Qc_eqb a0 0 = false).
  { destruct (Qc_eqb a0 0) eqn:E; [|reflexivity]. apply Qc_eqb_spec in E. contradiction. }
  assert (Hp : poly_of_list Qc_ops [a0] = [(0%Z, a0)]).
  { unfold poly_of_list. cbn [enum_from filter snd ceqb c0 Qc_ops]. rewrite E. reflexivity. }
  unfold lf_make. rewrite Hp. reflexivity.
Qed.

(* list(ZFilter(b, [a0])(xs, zero=zero)): the FIR run of C12.Model is the run of C04.Model *)
Theorem fir_run_is_c04 b a0 zero xs : a0 <> 0 ->
  exists f ys, lf_make Qc_ops b [a0] = Some f /\ fir_run Qc_ops f zero xs = Some ys /\
               C04.Model.run_filter b [a0] C04.Model.MNone zero xs = C04.Model.Ok ys.
Proof.
  intro Ha. pose proof (lf_make_gain b a0 Ha) as Hm.
  destruct (C04.ProofsCtor.lists_diffeq b a0 [] C04.Model.MNone zero xs Ha) as (ys & Hrun & Hlen & Hys).
  set (f := (poly_of_list Qc_ops b, [(0%Z, a0)])) in *.
  set (G := fun n => match fir_expr Qc_ops (fst f) a0 (delayed zero xs n) with Some y => y | None => zero end).
  assert (Hfir : fir_run Qc_ops f zero xs = Some (map G (seq 0 (length xs)))).
  { unfold fir_run, f. cbn [snd fst]. unfold poly_of_list. rewrite is_polynomial_enum by lia. reflexivity. }
  exists f, ys. split; [exact Hm|]. split; [|exact Hrun]. rewrite Hfir. f_equal.
  apply (nth_ext _ _ 0 0); [rewrite map_length, seq_length; symmetry; exact Hlen|].
  rewrite map_length, seq_length. intros n Hn. rewrite (nth_map_seq G (length xs) n 0 Hn).
  unfold G, f. cbn [fst].
  rewrite !enumerate_from_c04 in Hys. unfold C04.Spec.all_zero in Hys.
  change (C04.Spec.feedback [(0%Z, a0)]) with (@nil (Z * Qc)) in Hys. rewrite app_nil_r in Hys.
  destruct (forallb (fun kv : Z * Qc => Qc_eqb (snd kv) 0) (enum_from 0 b)) eqn:Z0.
  - unfold poly_of_list. simpl c0. simpl ceqb. rewrite (allzero_filter_nil b 0 Z0). simpl.
    rewrite Hys. rewrite (nth_indep _ 0 zero) by (rewrite repeat_length; exact Hn). symmetry. apply nth_repeat.
  - pose proof (filter_nil_allzero b 0 Z0) as Hne. specialize (Hys n Hn).
    unfold C04.Spec.diffeq_lists_at, C04.Spec.ysig in Hys. cbn [nth tl] in Hys. cbv beta in Hys.
    assert (E : (Z.of_nat n <? 0)%Z = false) by (apply Z.ltb_ge; lia). rewrite E, Nat2Z.id in Hys.
    simpl C04.Spec.dot in Hys.
    unfold poly_of_list. simpl c0. simpl ceqb.
    destruct (filter (fun kc : Z * Qc => negb (Qc_eqb (snd kc) 0)) (enum_from 0 b)) as [|kc r] eqn:En; [congruence|].
    rewrite (fir_expr_eq Qc_ops Qc_field Qc_eqb_spec kc r a0 _ Ha). rewrite <- En, dsum_dot.
    rewrite (dot_ext _ (fun k => C04.Spec.xsig zero xs (Z.of_nat n - k)) b 0).
    + simpl cdiv. transitivity ((a0 * nth n ys 0) / a0); [rewrite Hys; field; exact Ha|field; exact Ha].
    + intros k Hk. apply delayed_xsig; [exact Hn|lia].
Qed.

(* an all-zero denominator: no filter in either model *)
Theorem fir_zero_den_is_c04 b zero xs :
  lf_make Qc_ops b [0] = None /\
  C04.Model.run_filter b [0] C04.Model.MNone zero xs = C04.Model.Err C04.Model.EmptyDen.
Proof. split; reflexivity. Qed.
