(* C12 - the model instantiated on complex numbers C = R * R (Coquelicot), and the real-number
   formulas used by the enclosure goals.  Definitions only. *)
From Coq Require Import Reals List ZArith.
From Coquelicot Require Import Complex.
From AL Require Import C12.Model C12.Spec.
Import ListNotations.
Open Scope R_scope.

(* e^{jt} *)
Definition cis (t : R) : C := (cos t, sin t).

Definition Ceqb (x y : C) : bool := if Ceq_dec x y then true else false.

Definition CR_ops : cops C := {|
  c0 := RtoC 0; c1 := RtoC 1;
  cadd := Cplus; cmul := Cmult; csub := Cminus; copp := Copp; cdiv := Cdiv; cinv := Cinv;
  cofz := fun z => RtoC (IZR z);
  ceqb := Ceqb
|}.

(* cexp(-1j * n * w) = e^{-j n w};  complex_exp(-1j * w) = CR_cx 1 w *)
Definition CR_cx (n : Z) (w : R) : C := cis (- (IZR n * w)).

(* freq_response of LinearFilter(b, a) at the real frequency w; None = ValueError *)
Definition fr (b a : list C) (w : R) : option (resp C) :=
  option_map (fun f => lf_fr CR_ops CR_cx f w) (lf_make CR_ops b a).

(* the transfer-function sum  sum_k l[k] e^{-jwk} *)
Definition tfsum (l : list C) (w : R) : C := tsum CR_ops CR_cx l w.

(* ---- real formulas for filters with real coefficients (enclosure goals) ---- *)
(* sum_k l[k] f(w k), k counted from k0 *)
Fixpoint rsum (f : R -> R) (l : list R) (w : R) (k : Z) : R :=
  match l with
  | [] => 0
  | c :: t => c * f (w * IZR k) + rsum f t w (k + 1)
  end.
(* real and imaginary part of  B(e^{-jw}) / A(e^{-jw}) *)
Definition spec_re (b a : list R) (w : R) : R :=
  (rsum cos b w 0 * rsum cos a w 0 + rsum sin b w 0 * rsum sin a w 0)
  / ((rsum cos a w 0) ^ 2 + (rsum sin a w 0) ^ 2).
Definition spec_im (b a : list R) (w : R) : R :=
  (rsum cos b w 0 * rsum sin a w 0 - rsum sin b w 0 * rsum cos a w 0)
  / ((rsum cos a w 0) ^ 2 + (rsum sin a w 0) ^ 2).
Definition spec_c (s : list R * list R) (w : R) : C := (spec_re (fst s) (snd s) w, spec_im (fst s) (snd s) w).
(* product / sum over the sections of a cascade / parallel bank *)
Definition spec_cascade (secs : list (list R * list R)) (w : R) : C :=
  fold_right Cmult (RtoC 1) (map (fun s => spec_c s w) secs).
Definition spec_parallel (secs : list (list R * list R)) (w : R) : C :=
  fold_right Cplus (RtoC 0) (map (fun s => spec_c s w) secs).
(* H * e^{jwn}: what a FIR filter makes of the complex exponential once its memory is full *)
Definition spec_steady (b a : list R) (w : R) (n : Z) : C := Cmult (spec_c (b, a) w) (cis (w * IZR n)).
(* dft sum of a real block: sum_k x[k] e^{-jwk} *)
Definition spec_dft (x : list R) (w : R) : C := (rsum cos x w 0, - rsum sin x w 0).

(* nested filter lists with real coefficients (enclosure goals) *)
Inductive rtree := RLin (b a : list R) | RCas (stages : list rtree) | RPar (branches : list rtree).
Fixpoint spec_tree (t : rtree) (w : R) : C :=
  match t with
  | RLin b a => spec_c (b, a) w
  | RCas l => fold_right Cmult (RtoC 1) (map (fun s => spec_tree s w) l)
  | RPar l => fold_right Cplus (RtoC 0) (map (fun s => spec_tree s w) l)
  end.
(* the same tree with its coefficients seen as complex numbers *)
Fixpoint rtree_inj (t : rtree) : @ftree C :=
  match t with
  | RLin b a => TLin (map RtoC b) (map RtoC a)
  | RCas l => TCas (map rtree_inj l)
  | RPar l => TPar (map rtree_inj l)
  end.
