(* C12 - what the property text promises, written independently of the evaluation scheme:
   defining sums, ratio of sums, products / sums of section responses, scaling of a complex
   exponential.  Definitions only.  Generic in the number type (see Model.v); Spec_R.v gives
   the real-number reading on C = R * R with cis. *)
From Coq Require Import List Bool ZArith.
From AL Require Import C12.Model.
Import ListNotations.

Section Spec.
Context {T : Type} (F : cops T).
Context {W : Type} (cx : Z -> W -> T).

Notation "#0" := (c0 F). Notation "#1" := (c1 F).
Infix "+" := (cadd F). Infix "*" := (cmul F). Infix "/" := (cdiv F).

(* sum_k l[k] * e^{-j w (k0 + k)} *)
Fixpoint tsum_from (k0 : Z) (l : list T) (w : W) : T :=
  match l with
  | [] => #0
  | c :: r => c * cx k0 w + tsum_from (k0 + 1) r w
  end.
(* the transfer-function sum  sum_k l[k] e^{-jwk} *)
Definition tsum (l : list T) (w : W) : T := tsum_from 0 l w.

(* sum of the stored terms (power, coefficient) of a Poly at e^{-jw}: the "direct sum" the
   Horner-like scheme of Poly.__call__ has to agree with *)
Fixpoint psum (p : list (Z * T)) (w : W) : T :=
  match p with
  | [] => #0
  | kc :: r => snd kc * cx (fst kc) w + psum r w
  end.

Definition all_zero (a : list T) : bool := forallb (fun c => ceqb F c #0) a.

(* freq_response(w) = B(e^{-jw}) / A(e^{-jw}), nan where the denominator vanishes *)
Definition fr_spec (b a : list T) (w : W) : resp T :=
  if ceqb F (tsum a w) #0 then Nan else Val (tsum b w / tsum a w).

(* product / sum of the section responses (nan as soon as one section is nan) *)
Definition resp_prod (l : list (resp T)) : resp T := fold_right (resp_mul F) (Val #1) l.
Definition resp_sum (l : list (resp T)) : resp T := fold_right (resp_add F) (Val #0) l.

(* a filter needs a non-zero denominator, a cascade / parallel bank at least one section *)
Definition constructible (secs : list (list T * list T)) : bool :=
  forallb (fun s => negb (all_zero (snd s))) secs.

Definition fexpr_spec (e : fexpr) (w : W) : option (resp T) :=
  match e with
  | FSingle b a => if all_zero a then None else Some (fr_spec b a w)
  | FCascade secs =>
      if constructible secs && negb (Nat.eqb (length secs) 0)
      then Some (resp_prod (map (fun s => fr_spec (fst s) (snd s) w) secs)) else None
  | FParallel secs =>
      if constructible secs && negb (Nat.eqb (length secs) 0)
      then Some (resp_sum (map (fun s => fr_spec (fst s) (snd s) w) secs)) else None
  end.

(* nested filter lists: the response of a cascade is the product of the responses of its
   stages, of a parallel bank the sum of the responses of its branches, whatever the stages are *)
Fixpoint tree_spec (t : ftree) (w : W) : option (resp T) :=
  match t with
  | TLin b a => if all_zero a then None else Some (fr_spec b a w)
  | TCas l => match all_some (map (fun s => tree_spec s w) l) with
              | Some (r :: rs) => Some (resp_prod (r :: rs))
              | _ => None
              end
  | TPar l => match all_some (map (fun s => tree_spec s w) l) with
              | Some (r :: rs) => Some (resp_sum (r :: rs))
              | _ => None
              end
  end.

(* the transfer function of a nested filter as a number ... *)
Fixpoint tree_tf (t : ftree) (w : W) : T :=
  match t with
  | TLin b a => tsum b w / tsum a w
  | TCas l => fold_right (cmul F) #1 (map (fun s => tree_tf s w) l)
  | TPar l => fold_right (cadd F) #0 (map (fun s => tree_tf s w) l)
  end.
(* ... defined when no list is empty and no denominator vanishes at w *)
Fixpoint tree_ok (t : ftree) (w : W) : Prop :=
  match t with
  | TLin b a => tsum a w <> #0
  | TCas l => l <> [] /\ fold_right (fun s acc => tree_ok s w /\ acc) True l
  | TPar l => l <> [] /\ fold_right (fun s acc => tree_ok s w /\ acc) True l
  end.

(* dft: the defining sum, divided by the block length in the normalised form *)
Definition dft_spec (blk : list T) (freqs : list W) (normalize : bool) : option (list T) :=
  if normalize then
    match blk, freqs with
    | [], _ :: _ => None
    | _, _ => Some (map (fun w => tsum blk w / cofz F (Z.of_nat (length blk))) freqs)
    end
  else Some (map (tsum blk) freqs).

(* the block  al * xs + be * ys  (equal lengths) *)
Definition lincomb (al be : T) (xs ys : list T) : list T :=
  map (fun xy => al * fst xy + be * snd xy) (combine xs ys).

Fixpoint lsum (l : list T) : T := match l with [] => #0 | x :: r => x + lsum r end.
Definition mean (l : list T) : T := lsum l / cofz F (Z.of_nat (length l)).

(* the complex exponential of frequency w: x[n] = e^{+jwn} = cexp(-1j * (-n) * w) *)
Definition cexp_input (w : W) (len : nat) : list T := map (fun n => cx (- Z.of_nat n) w) (seq 0 len).
(* unit impulse of the given length *)
Definition impulse (len : nat) : list T :=
  match len with O => [] | S k => #1 :: repeat #0 k end.

End Spec.
