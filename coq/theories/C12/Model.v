(* C12 - model of the frequency-response code of AudioLazy, generic in the number type.

   Modelled code (constant, non-Stream coefficients only):
     lazy_poly.py     Poly.__init__ (list argument, "compact zeros"), Poly.__getitem__,
                      Poly.is_polynomial, Poly.terms, Poly.__call__ (Horner scheme with
                      merged steps / general sum of powers), Poly.__mul__ by x ** -power
     lazy_filters.py  LinearFilter.__init__ (power normalisation), LinearFilter.freq_response,
                      CascadeFilter.freq_response, ParallelFilter.freq_response,
                      LinearFilter.__call__ restricted to FIR filters (denominator = gain)
     lazy_analysis.py dft
     lazy_misc.py     elementwise (container kinds)

   The number type T comes with a record of operations [cops]; the two instances are
     CR (Model_R.v) : Coquelicot's C = R * R, the subject of the theorems,
     CQ (below)     : Gaussian rationals Qc * Qc, evaluated by vm_compute against the real
                      implementation run on exact complex rationals.
   [cx n w] stands for  cexp(-1j * n * w)  (complex_exp(-1j * freq) is [cx 1 freq]).
   No proofs in this file. *)
From Coq Require Import List Bool ZArith QArith Qcanon.
From AL Require Import Base.CaseLib.
Import ListNotations.

Record cops (T : Type) := Cops {
  c0 : T; c1 : T;
  cadd : T -> T -> T; cmul : T -> T -> T; csub : T -> T -> T; copp : T -> T;
  cdiv : T -> T -> T; cinv : T -> T;
  cofz : Z -> T;                 (* int -> number, used for  v / len(blk) *)
  ceqb : T -> T -> bool          (* Python == on numbers *)
}.
Arguments c0 {T}. Arguments c1 {T}. Arguments cadd {T}. Arguments cmul {T}. Arguments csub {T}.
Arguments copp {T}. Arguments cdiv {T}. Arguments cinv {T}. Arguments cofz {T}. Arguments ceqb {T}.

(* result of freq_response: float nan or a number *)
Inductive resp (T : Type) := Nan | Val (t : T).
Arguments Nan {T}. Arguments Val {T}.

(* reduce(f, seq) without initial value: TypeError (None) on an empty sequence *)
Definition reduce1 {A : Type} (f : A -> A -> A) (l : list A) : option A :=
  match l with [] => None | x :: r => Some (fold_left f r x) end.

Section Model.
Context {T : Type} (F : cops T).
Context {W : Type} (cx : Z -> W -> T).

Notation "#0" := (c0 F). Notation "#1" := (c1 F).
Infix "+" := (cadd F). Infix "*" := (cmul F). Infix "/" := (cdiv F).

(* value ** n for a Python int n >= 0 *)
Fixpoint cpow (v : T) (n : nat) : T :=
  match n with O => #1 | S k => v * cpow v k end.
(* value ** p for any Python int p *)
Definition cpowz (v : T) (p : Z) : T :=
  if (p <? 0)%Z then cinv F (cpow v (Z.to_nat (- p))) else cpow v (Z.to_nat p).

(* ------------------------------------------------------------------ Poly *)
(* Poly._data for integer powers, kept in ascending power order (the order in which
   terms() yields the items of a Laurent polynomial); keys are distinct. *)
Definition poly := list (Z * T).

Fixpoint enum_from (k : Z) (l : list T) : list (Z * T) :=
  match l with
  | [] => []
  | c :: r => (k, c) :: enum_from (k + 1) r
  end.

(* Poly(list): OrderedDict(enumerate(data)), then every value == zero (0.) is deleted *)
Definition poly_of_list (l : list T) : poly :=
  filter (fun kc => negb (ceqb F (snd kc) #0)) (enum_from 0 l).

(* Poly.__getitem__ *)
Definition pget (p : poly) (k : Z) : T :=
  match find (fun kc => (fst kc =? k)%Z) p with
  | Some kc => snd kc
  | None => #0
  end.

(* Poly.is_polynomial *)
Definition is_polynomial (p : poly) : bool := forallb (fun kc => (0 <=? fst kc)%Z) p.

(* horner_step inside Poly.__call__ *)
Definition horner_step (v : T) (old new : Z * T) : Z * T :=
  let (opower, oresult) := old in
  let (npower, ncoeff) := new in
  let scale := if (opower =? npower + 1)%Z then v else cpowz v (opower - npower) in
  (npower, ncoeff + oresult * scale).

(* Poly.__call__(value) for a number *)
Definition peval (p : poly) (v : T) : T :=
  match p with
  | [] => #0                                     (* empty polynomial: self.zero *)
  | _ :: _ =>
    if ceqb F v #0 then pget p 0                 (* evaluation for x = 0: self[0] *)
    else if is_polynomial p then                 (* horner = "auto" *)
      match rev p with                           (* terms(sort=True, reverse=True) *)
      | [] => #0
      | first :: rest =>
        let (last_power, result) := fold_left (horner_step v) rest first in
        result * cpowz v last_power
      end
    else                                         (* sum(coeff * value ** power ...), from int 0 *)
      fold_left (fun acc kc => acc + snd kc * cpowz v (fst kc)) p #0
  end.

(* ---------------------------------------------------------- LinearFilter *)
(* min(key for key, value in denpoly.terms()); None = ValueError on an empty sequence *)
Definition min_power (p : poly) : option Z :=
  match p with
  | [] => None
  | kc :: r => Some (fold_left Z.min (map fst r) (fst kc))
  end.

(* p * Poly([0, 1]) ** -power : the single term {-power: 1}; every item becomes
   (k - power, v * 1) *)
Definition poly_shift (s : Z) (p : poly) : poly :=
  map (fun kc => ((fst kc - s)%Z, snd kc * #1)) p.

Definition lfilter := (poly * poly)%type.        (* numpoly, denpoly *)

(* LinearFilter(numerator_list, denominator_list) *)
Definition lf_make (b a : list T) : option lfilter :=
  let nb := poly_of_list b in
  let na := poly_of_list a in
  match min_power na with
  | None => None
  | Some s => if (s =? 0)%Z then Some (nb, na) else Some (poly_shift s nb, poly_shift s na)
  end.

(* LinearFilter.freq_response(freq) for a scalar freq *)
Definition lf_fr (f : lfilter) (w : W) : resp T :=
  let z_ := cx 1 w in
  let num := peval (fst f) z_ in
  let den := peval (snd f) z_ in
  if ceqb F den #0 then Nan else Val (num / den).

(* nan * x, x * nan, nan + x ... stay nan *)
Definition resp_mul (a b : resp T) : resp T :=
  match a, b with Val x, Val y => Val (x * y) | _, _ => Nan end.
Definition resp_add (a b : resp T) : resp T :=
  match a, b with Val x, Val y => Val (x + y) | _, _ => Nan end.

(* CascadeFilter.freq_response / ParallelFilter.freq_response *)
Definition cascade_fr (fs : list lfilter) (w : W) : option (resp T) :=
  reduce1 resp_mul (map (fun f => lf_fr f w) fs).
Definition parallel_fr (fs : list lfilter) (w : W) : option (resp T) :=
  reduce1 resp_add (map (fun f => lf_fr f w) fs).

(* a filter expression as the harness builds it *)
Inductive fexpr :=
| FSingle (b a : list T)
| FCascade (secs : list (list T * list T))
| FParallel (secs : list (list T * list T)).

Fixpoint make_all (secs : list (list T * list T)) : option (list lfilter) :=
  match secs with
  | [] => Some []
  | (b, a) :: r =>
    match lf_make b a, make_all r with
    | Some f, Some fs => Some (f :: fs)
    | _, _ => None
    end
  end.

(* None = an exception (ValueError at construction, TypeError of reduce) *)
Definition fexpr_fr (e : fexpr) (w : W) : option (resp T) :=
  match e with
  | FSingle b a => option_map (fun f => lf_fr f w) (lf_make b a)
  | FCascade secs => match make_all secs with Some fs => cascade_fr fs w | None => None end
  | FParallel secs => match make_all secs with Some fs => parallel_fr fs w | None => None end
  end.

(* ------------------------------------------------ nested filter lists *)
(* CascadeFilter / ParallelFilter are lists whose items may again be filter lists.
   FilterList.callables keeps every callable item as it is (a nested list is callable), so
   freq_response recurses: a stage of a cascade that is a parallel bank contributes the SUM of
   its branches as one factor, and the other way round; nothing is flattened across kinds
   (same-kind nesting gives the same value as the flat list only because * and + associate). *)
Inductive ftree :=
| TLin (b a : list T)
| TCas (stages : list ftree)
| TPar (branches : list ftree).

(* every item evaluated without an exception *)
Fixpoint all_some {A : Type} (l : list (option A)) : option (list A) :=
  match l with
  | [] => Some []
  | None :: _ => None
  | Some x :: r => match all_some r with Some xs => Some (x :: xs) | None => None end
  end.

(* freq_response of a (nested) filter; None = an exception anywhere below *)
Fixpoint tree_fr (t : ftree) (w : W) : option (resp T) :=
  match t with
  | TLin b a => option_map (fun f => lf_fr f w) (lf_make b a)
  | TCas l => match all_some (map (fun s => tree_fr s w) l) with
              | Some rs => reduce1 resp_mul rs
              | None => None
              end
  | TPar l => match all_some (map (fun s => tree_fr s w) l) with
              | Some rs => reduce1 resp_add rs
              | None => None
              end
  end.

(* ------------------------------------------------------------------- dft *)
(* sum(xn * cexp(-1j * n * f) for n, xn in enumerate(blk)) *)
Definition dft_sum (blk : list T) (f : W) : T :=
  fold_left (fun acc nx => acc + snd nx * cx (fst nx) f) (enum_from 0 blk) #0.

(* dft(blk, freqs, normalize); None = ZeroDivisionError (v / len(blk) with an empty block) *)
Definition dft (blk : list T) (freqs : list W) (normalize : bool) : option (list T) :=
  let data := map (dft_sum blk) freqs in
  if normalize then
    match blk, freqs with
    | [], _ :: _ => None
    | _, _ => Some (map (fun v => v / cofz F (Z.of_nat (length blk))) data)
    end
  else Some data.

(* ------------------------------------------- FIR filtering (time domain) *)
(* one entry of data_sum for the numerator item (delay, coeff) *)
Definition fir_term (d : Z -> T) (kc : Z * T) : T :=
  if ceqb F (snd kc) #1 then d (fst kc)
  else if ceqb F (snd kc) (copp F #1) then copp F (d (fst kc))
  else snd kc * d (fst kc).

(* the generated expression:  " + ".join(data_sum), then the gain *)
Definition fir_expr (num : poly) (gain : T) (d : Z -> T) : option T :=
  match reduce1 (cadd F) (map (fir_term d) num) with
  | None => None
  | Some e => Some (if ceqb F gain (copp F #1) then copp F e
                    else if ceqb F gain #1 then e else e / gain)
  end.

(* d_k while the n-th input is processed: x[n-k], or zero before the start *)
Definition delayed (zero : T) (xs : list T) (n : nat) (k : Z) : T :=
  if (Z.of_nat n <? k)%Z then zero else nth (n - Z.to_nat k) xs zero.

(* LinearFilter.__call__(xs, zero=zero) for a filter whose denominator is the gain alone.
   None = "Non-causal filter" ValueError, or not a FIR filter (outside this model). *)
Definition fir_run (f : lfilter) (zero : T) (xs : list T) : option (list T) :=
  match snd f with
  | [(0%Z, gain)] =>
    if negb (is_polynomial (fst f)) then None
    else Some (map (fun n => match fir_expr (fst f) gain (delayed zero xs n) with
                             | None => zero            (* len(data_sum) == 0: yield zero *)
                             | Some y => y
                             end) (seq 0 (length xs)))
  | _ => None
  end.

(* ------------------------------------------- histories on one object *)
(* Poly.__setitem__(power, coeff): a coefficient equal to zero deletes the item, any other
   value is stored (the list stays in ascending power order, the order terms() yields) *)
Fixpoint poly_set (p : poly) (k : Z) (v : T) : poly :=
  match p with
  | [] => [(k, v)]
  | (k', c) :: r => if (k =? k')%Z then (k, v) :: r
                    else if (k <? k')%Z then (k, v) :: (k', c) :: r
                    else (k', c) :: poly_set r k v
  end.
Definition poly_setitem (p : poly) (k : Z) (v : T) : poly :=
  if ceqb F v #0 then filter (fun kc => negb (fst kc =? k)%Z) p else poly_set p k v.

(* operations on ONE LinearFilter object: calls (which leave the object unchanged) and
   in-place edits of its polynomials between the calls *)
Inductive hop :=
| HRun (len : nat)              (* list(filt(e^{jwn}, n < len)) *)
| HImp (L : nat)                (* ir = list(filt(impulse of length L)); dft(ir, [w], normalize=False) *)
| HFr                           (* filt.freq_response(w) *)
| HSetNum (k : Z) (v : T)       (* filt.numpoly[k] = v *)
| HSetDen (k : Z) (v : T)       (* filt.denpoly[k] = v *)
| HNewNum (l : list T).         (* filt.numpoly = Poly(l) *)
Inductive hobs :=
| ORun (ys : option (list T))
| OImp (ir : option (list T)) (d : option (list T))
| OFr (r : resp T)
| OEdit.

Definition hop_edit (f : lfilter) (o : hop) : lfilter :=
  match o with
  | HSetNum k v => (poly_setitem (fst f) k v, snd f)
  | HSetDen k v => (fst f, poly_setitem (snd f) k v)
  | HNewNum l => (poly_of_list l, snd f)
  | _ => f
  end.
(* every call is the per-call model on the CURRENT contents of the object *)
Definition hop_obs (f : lfilter) (w : W) (xs : nat -> list T) (imp : nat -> list T) (o : hop) : hobs :=
  match o with
  | HRun len => ORun (fir_run f #0 (xs len))
  | HImp L => let ir := fir_run f #0 (imp L) in
              OImp ir (match ir with Some r => dft r [w] false | None => None end)
  | HFr => OFr (lf_fr f w)
  | _ => OEdit
  end.
Fixpoint hist_run (f : lfilter) (w : W) (xs imp : nat -> list T) (ops : list hop) : list hobs :=
  match ops with
  | [] => []
  | o :: r => hop_obs f w xs imp o :: hist_run (hop_edit f o) w xs imp r
  end.

(* operations on ONE CascadeFilter / ParallelFilter object (a Python list) *)
Inductive lop :=
| LFr                            (* obj.freq_response(w) *)
| LSet (i : nat) (t : ftree)     (* obj[i] = t *)
| LAppend (t : ftree)            (* obj.append(t) *)
| LPop.                          (* obj.pop() *)
Inductive lobs := OLFr (r : option (resp T)) | OLEdit | OLIndexError.

Fixpoint list_set {A : Type} (l : list A) (i : nat) (x : A) : option (list A) :=
  match l, i with
  | [], _ => None
  | _ :: r, O => Some (x :: r)
  | y :: r, S j => match list_set r j x with Some r' => Some (y :: r') | None => None end
  end.
Definition lop_step (cas : bool) (l : list ftree) (w : W) (o : lop) : list ftree * lobs :=
  match o with
  | LFr => (l, OLFr (tree_fr (if cas then TCas l else TPar l) w))
  | LSet i t => match list_set l i t with Some l' => (l', OLEdit) | None => (l, OLIndexError) end
  | LAppend t => (l ++ [t], OLEdit)
  | LPop => match l with [] => (l, OLIndexError) | _ => (removelast l, OLEdit) end
  end.
Fixpoint lhist_run (cas : bool) (l : list ftree) (w : W) (ops : list lop) : list lobs :=
  match ops with
  | [] => []
  | o :: r => let (l', ob) := lop_step cas l w o in ob :: lhist_run cas l' w r
  end.

End Model.

(* ---------------------------------------------------------- elementwise *)
(* kinds of the freq argument the harness passes, and kinds of the result *)
Inductive ikind := IScalar | IList | ITuple | IDeque | IStream | IGen | IMap | IListIter.
Inductive okind := OScalar | OList | OTuple | ODeque | OStream | OGen | ORaise.

(* elementwise: generators (SOME_GEN_TYPES, map is one of them) stay generators, a Stream is
   rebuilt with the Stream constructor, every other iterable with its own type: list, tuple,
   deque; a list_iterator is iterable but its type cannot be called: TypeError *)
Definition elementwise_kind (k : ikind) : okind :=
  match k with
  | IScalar => OScalar | IList => OList | ITuple => OTuple | IDeque => ODeque
  | IStream => OStream | IGen => OGen | IMap => OGen | IListIter => ORaise
  end.
Definition elementwise {A B : Type} (f : A -> B) (k : ikind) (xs : list A) : okind * list B :=
  match elementwise_kind k with
  | ORaise => (ORaise, [])
  | ok => (ok, map f xs)
  end.

(* ------------------------------------------- Gaussian rationals (instance) *)
Definition CQ := (Qc * Qc)%type.
Definition CQ_inv (x : CQ) : CQ :=
  let n := (fst x * fst x + snd x * snd x)%Qc in ((fst x / n)%Qc, (- snd x / n)%Qc).
Definition CQ_mul (x y : CQ) : CQ :=
  ((fst x * fst y - snd x * snd y)%Qc, (fst x * snd y + snd x * fst y)%Qc).
Definition CQ_ops : cops CQ := {|
  c0 := (0%Qc, 0%Qc); c1 := (1%Qc, 0%Qc);
  cadd := fun x y => ((fst x + fst y)%Qc, (snd x + snd y)%Qc);
  cmul := CQ_mul;
  csub := fun x y => ((fst x - fst y)%Qc, (snd x - snd y)%Qc);
  copp := fun x => ((- fst x)%Qc, (- snd x)%Qc);
  cdiv := fun x y => CQ_mul x (CQ_inv y);
  cinv := CQ_inv;
  cofz := fun z => (Q2Qc (inject_Z z), 0%Qc);
  ceqb := fun x y => Qc_eqb (fst x) (fst y) && Qc_eqb (snd x) (snd y)
|}.
(* a frequency is given by the point u = e^{jw} of the unit circle (rational coordinates);
   cexp(-1j * n * w) = conj(u) ** n *)
Definition CQ_cx (n : Z) (u : CQ) : CQ := cpowz CQ_ops (fst u, (- snd u)%Qc) n.

(* ------------------------------------------------- rationals (instance) *)
(* the instance on which this model is proved to be the same function as the models of
   Poly.__call__ in C07 and of LinearFilter.__call__ in C04 (ProofsC07.v, ProofsC04.v) *)
Definition Qc_ops : cops Qc := {|
  c0 := 0%Qc; c1 := 1%Qc;
  cadd := Qcplus; cmul := Qcmult; csub := Qcminus; copp := Qcopp; cdiv := Qcdiv; cinv := Qcinv;
  cofz := fun z => Q2Qc (inject_Z z);
  ceqb := Qc_eqb
|}.
