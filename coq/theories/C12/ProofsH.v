(* C12 - the time domain / frequency domain agreement stated on the CURRENT contents of a filter
   object (any stored polynomials, e.g. after in-place edits), and the history model: every call
   is the per-call model on the state left by the edits before it. *)
From Coq Require Import List Bool ZArith Lia Field.
From AL Require Import C12.Model C12.Spec C12.Proofs.
Import ListNotations.

Section ProofsH.
Context {T : Type} (F : cops T).
Context {W : Type} (cx : Z -> W -> T).
Notation "#0" := (c0 F). Notation "#1" := (c1 F).
Infix "+" := (cadd F). Infix "*" := (cmul F). Infix "/" := (cdiv F).
Hypothesis Fth : field_theory #0 #1 (cadd F) (cmul F) (csub F) (copp F) (cdiv F) (cinv F) eq.
Hypothesis ceqb_spec : forall x y, ceqb F x y = true <-> x = y.
Hypothesis cx_0 : forall w, cx 0 w = #1.
Hypothesis cx_add : forall n m w, cx (n + m) w = cx n w * cx m w.
Add Field FfieldH : Fth.
Notation psum := (psum F cx).

(* freq_response of the object as it is now *)
Theorem lf_fr_now f w :
  lf_fr F cx f w = if ceqb F (psum (snd f) w) #0 then Nan else Val (psum (fst f) w / psum (snd f) w).
Proof. unfold lf_fr. rewrite !(peval_psum F cx Fth ceqb_spec cx_0 cx_add). reflexivity. Qed.

Lemma fir_den_gain f zero xs ys w : fir_run F f zero xs = Some ys ->
  exists gain, snd f = [(0%Z, gain)] /\ psum (snd f) w = gain.
Proof.
  intro H. destruct (fir_run_inv F f zero xs ys H) as (gain & Hd & _ & _).
  exists gain. split; [exact Hd|]. rewrite Hd. simpl. rewrite cx_0. ring.
Qed.

Theorem fir_steady_state_now f w zero len ys n :
  fir_run F f zero (cexp_input cx w len) = Some ys ->
  psum (snd f) w <> #0 ->
  fst f <> [] \/ zero = #0 ->
  (forall kc, In kc (fst f) -> (fst kc <= Z.of_nat n)%Z) -> (n < len)%nat ->
  nth n ys zero = (psum (fst f) w / psum (snd f) w) * cx (- Z.of_nat n) w.
Proof.
  intros Hr Hnz Hz Hk Hn.
  destruct (fir_den_gain f zero _ ys w Hr) as (gain & Hd & Hg). rewrite Hg in *.
  destruct (fir_run_inv F f zero _ ys Hr) as (gain' & Hd' & Hpol & ->).
  assert (gain' = gain) by congruence. subst gain'.
  rewrite (cexp_input_length cx). rewrite nth_map_seq by exact Hn.
  destruct (fst f) as [|kc r] eqn:En.
  - destruct Hz as [Hz| ->]; [congruence|]. simpl. field. exact Hnz.
  - rewrite (fir_expr_eq F Fth ceqb_spec) by exact Hnz. rewrite <- En in Hpol, Hk |- *.
    rewrite (dsum_cexp F cx Fth cx_add); [field; exact Hnz| |exact Hn].
    intros kc' Hin. split; [apply (is_polynomial_in _ Hpol); exact Hin|apply Hk; exact Hin].
Qed.

Theorem fir_dft_impulse_now f w L ir :
  fir_run F f #0 (impulse F L) = Some ir ->
  psum (snd f) w <> #0 ->
  (forall kc, In kc (fst f) -> (fst kc < Z.of_nat L)%Z) ->
  dft F cx ir [w] false = Some [psum (fst f) w / psum (snd f) w].
Proof.
  intros Hr Hnz Hk.
  destruct (fir_den_gain f #0 _ ir w Hr) as (gain & Hd & Hg). rewrite Hg in *.
  destruct (fir_run_inv F f #0 _ ir Hr) as (gain' & Hd' & Hpol & ->).
  assert (gain' = gain) by congruence. subst gain'.
  rewrite (dft_eq_spec F cx Fth). unfold dft_spec. simpl map. do 2 f_equal.
  rewrite (impulse_length F). unfold tsum. rewrite (tsum_from_map_seq F cx _ w L 0).
  rewrite (sumf_ext F _ (fun n => cmul F (cmul F (dsum F (fst f) (delayed #0 (impulse F L) n)) (cx (Z.of_nat n) w)) (cinv F gain))).
  - rewrite (sumf_scale F Fth), (sum_dsum_impulse F cx Fth).
    + field. exact Hnz.
    + intros kc Hin. split; [apply (is_polynomial_in _ Hpol); exact Hin|apply Hk; exact Hin].
  - intros n _. destruct (fst f) as [|kc r].
    + simpl. field. exact Hnz.
    + rewrite (fir_expr_eq F Fth ceqb_spec) by exact Hnz. field. exact Hnz.
Qed.

(* ---- histories: a call never changes the object; the i-th observation is the per-call model
   on the object as the edits before it left it, whatever calls happened in between ---- *)
Definition is_call (o : @hop T) : bool :=
  match o with HRun _ | HImp _ | HFr => true | _ => false end.

Lemma call_keeps_state f o : is_call o = true -> hop_edit F f o = f.
Proof. destruct o; simpl; intro H; try reflexivity; discriminate. Qed.

Lemma state_ignores_calls ops : forall f,
  fold_left (hop_edit F) ops f = fold_left (hop_edit F) (filter (fun o => negb (is_call o)) ops) f.
Proof.
  induction ops as [|o ops IH]; intro f; [reflexivity|]. simpl.
  destruct (is_call o) eqn:E; simpl.
  - rewrite (call_keeps_state f o E). apply IH.
  - apply IH.
Qed.

Theorem hist_calls_independent w xs imp ops : forall f i o,
  nth_error ops i = Some o ->
  nth_error (hist_run F cx f w xs imp ops) i
  = Some (hop_obs F cx (fold_left (hop_edit F) (filter (fun o => negb (is_call o)) (firstn i ops)) f) w xs imp o).
Proof.
  induction ops as [|o' ops IH]; intros f i o H; [destruct i; discriminate|].
  destruct i as [|i]; simpl in *.
  - injection H as ->. reflexivity.
  - rewrite (IH _ _ _ H). f_equal. f_equal.
    destruct (is_call o') eqn:E; simpl; [rewrite (call_keeps_state f o' E)|]; reflexivity.
Qed.
End ProofsH.
