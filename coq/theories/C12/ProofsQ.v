(* C12 - the Gaussian-rational instance (the one evaluated against the implementation) is a
   field with an exponential family, so the generic theorems apply to it: on every generated
   case the model output checked by corr_* is provably the specification checked by holds_*. *)
From Coq Require Import List Bool ZArith QArith Qcanon Lia Lqa Field.
From AL Require Import Base.CaseLib C12.Model C12.Spec C12.Check C12.Proofs C12.ProofsT.
Import ListNotations.

Lemma CQ_ring_eq (x y : CQ) : fst x = fst y -> snd x = snd y -> x = y.
Proof. destruct x, y; simpl; congruence. Qed.

Lemma Qc_sq_sum_zero (a b : Qc) : (a * a + b * b = 0)%Qc -> a = 0%Qc /\ b = 0%Qc.
Proof.
  intro H. apply (f_equal this) in H. unfold Qcplus, Qcmult, Q2Qc in H. cbn [this] in H.
  assert (H' : (this a * this a + this b * this b == 0)%Q).
  { rewrite <- (Qred_correct (this a * this a)), <- (Qred_correct (this b * this b)).
    rewrite <- (Qred_correct (Qred (this a * this a) + Qred (this b * this b))). rewrite H. reflexivity. }
  split; apply Qc_is_canon; simpl; nra.
Qed.

Local Ltac cq_ring := intros; apply CQ_ring_eq; simpl; unfold CQ_mul, CQ_inv; simpl; ring.

Lemma CQ_norm_nz (x : CQ) : x <> c0 CQ_ops -> (fst x * fst x + snd x * snd x)%Qc <> 0%Qc.
Proof.
  intros Hx H. apply Qc_sq_sum_zero in H as [H1 H2]. apply Hx. destruct x; simpl in *; subst. reflexivity.
Qed.

Lemma CQ_field : field_theory (c0 CQ_ops) (c1 CQ_ops) (cadd CQ_ops) (cmul CQ_ops) (csub CQ_ops)
                              (copp CQ_ops) (cdiv CQ_ops) (cinv CQ_ops) eq.
Proof.
  constructor.
  - constructor; try cq_ring.
  - simpl. intro H. injection H as H. discriminate.
  - reflexivity.
  - intros x Hx. pose proof (CQ_norm_nz x Hx) as Hn.
    apply CQ_ring_eq; simpl; unfold CQ_mul, CQ_inv; simpl; field; exact Hn.
Qed.

Lemma CQ_ceqb_spec (x y : CQ) : ceqb CQ_ops x y = true <-> x = y.
Proof.
  simpl. rewrite andb_true_iff, !Qc_eqb_spec. destruct x, y; simpl. split.
  - intros [-> ->]. reflexivity.
  - intro H. injection H as -> ->. split; reflexivity.
Qed.

(* ---- integer powers of a non-zero element of a field form an exponential family ---- *)
Section Pow.
Context {T : Type} (F : cops T).
Notation "#0" := (c0 F). Notation "#1" := (c1 F).
Infix "+" := (cadd F). Infix "*" := (cmul F). Infix "/" := (cdiv F). Infix "-" := (csub F).
Notation "- x" := (copp F x).
Hypothesis Fth : field_theory #0 #1 (cadd F) (cmul F) (csub F) (copp F) (cdiv F) (cinv F) eq.
Add Field Ffield2 : Fth.
Variable v : T.
Hypothesis v_nz : v <> #0.

Lemma cpow_nz n : cpow F v n <> #0.
Proof.
  induction n as [|n IH]; simpl.
  - exact (F_1_neq_0 Fth).
  - intro H. apply IH. transitivity (cinv F v * (v * cpow F v n)); [field; exact v_nz|].
    rewrite H. ring.
Qed.

Lemma cpowz_succ p : cpowz F v (p + 1) = v * cpowz F v p.
Proof.
  unfold cpowz. destruct (p <? 0)%Z eqn:E.
  - apply Z.ltb_lt in E. destruct (p + 1 <? 0)%Z eqn:E2.
    + apply Z.ltb_lt in E2.
      replace (Z.to_nat (- p)) with (S (Z.to_nat (- (p + 1)))) by lia. cbn [cpow].
      pose proof (cpow_nz (Z.to_nat (- (p + 1)))). field. split; assumption.
    + apply Z.ltb_ge in E2. assert (p = (-1)%Z) by lia. subst p. simpl. field. exact v_nz.
  - apply Z.ltb_ge in E. assert (E2 : (p + 1 <? 0)%Z = false) by (apply Z.ltb_ge; lia). rewrite E2.
    replace (Z.to_nat (p + 1)) with (S (Z.to_nat p)) by lia. reflexivity.
Qed.

Lemma cpowz_add_nat p k : cpowz F v (p + Z.of_nat k) = cpow F v k * cpowz F v p.
Proof.
  induction k as [|k IH].
  - simpl. replace (p + 0)%Z with p by lia. ring.
  - replace (p + Z.of_nat (S k))%Z with ((p + Z.of_nat k) + 1)%Z by lia.
    rewrite cpowz_succ, IH. simpl. ring.
Qed.

Lemma cpowz_add n m : cpowz F v (n + m) = cpowz F v n * cpowz F v m.
Proof.
  destruct (Z_lt_le_dec m 0) as [Hm|Hm].
  - pose proof (cpowz_add_nat (n + m) (Z.to_nat (- m))) as H.
    replace (n + m + Z.of_nat (Z.to_nat (- m)))%Z with n in H by lia.
    rewrite H. unfold cpowz at 3. assert (E : (m <? 0)%Z = true) by (apply Z.ltb_lt; lia). rewrite E.
    pose proof (cpow_nz (Z.to_nat (- m))). field. assumption.
  - replace m with (Z.of_nat (Z.to_nat m)) at 1 by lia. rewrite cpowz_add_nat.
    unfold cpowz at 3. assert (E : (m <? 0)%Z = false) by (apply Z.ltb_ge; lia). rewrite E. ring.
Qed.

End Pow.

(* ---- changing the type of frequencies along g : W' -> W ---- *)
Section Transfer.
Context {T : Type} (F : cops T) {W W' : Type} (cx : Z -> W -> T) (g : W' -> W).
Let cx' (n : Z) (w : W') : T := cx n (g w).

Lemma tsum_from_transfer l w : forall k, tsum_from F cx' k l w = tsum_from F cx k l (g w).
Proof. induction l as [|c l IH]; intro k; simpl; [reflexivity|]. rewrite IH. reflexivity. Qed.

Lemma fr_spec_transfer b a w : fr_spec F cx' b a w = fr_spec F cx b a (g w).
Proof. unfold fr_spec, tsum. rewrite !tsum_from_transfer. reflexivity. Qed.

Lemma fexpr_spec_transfer e w : fexpr_spec F cx' e w = fexpr_spec F cx e (g w).
Proof.
  destruct e as [b a|secs|secs]; simpl.
  - rewrite fr_spec_transfer. reflexivity.
  - destruct (constructible F secs && negb (Nat.eqb (length secs) 0)); [|reflexivity].
    do 2 f_equal. apply map_ext. intro s. apply fr_spec_transfer.
  - destruct (constructible F secs && negb (Nat.eqb (length secs) 0)); [|reflexivity].
    do 2 f_equal. apply map_ext. intro s. apply fr_spec_transfer.
Qed.

Lemma fexpr_fr_transfer e w : fexpr_fr F cx' e w = fexpr_fr F cx e (g w).
Proof. destruct e; reflexivity. Qed.
End Transfer.

(* ---- frequencies of the executable instance: non-zero points u (the harness uses |u| = 1) ---- *)
Definition upoint := { u : CQ | u <> c0 CQ_ops }.
Definition CQ_cx' (n : Z) (u : upoint) : CQ := CQ_cx n (proj1_sig u).

Lemma conj_nz (u : CQ) : u <> c0 CQ_ops -> (fst u, (- snd u)%Qc) <> c0 CQ_ops.
Proof.
  destruct u as [a b]. intros Hu H. apply Hu. cbn [fst snd c0 CQ_ops] in *.
  pose proof (f_equal fst H) as H1. pose proof (f_equal snd H) as H2. cbn [fst snd] in H1, H2.
  f_equal; [exact H1|]. rewrite <- (Qcopp_involutive b), H2. ring.
Qed.

Lemma CQ_cx'_0 u : CQ_cx' 0 u = c1 CQ_ops.
Proof. reflexivity. Qed.

Lemma CQ_cx'_add n m u : CQ_cx' (n + m) u = cmul CQ_ops (CQ_cx' n u) (CQ_cx' m u).
Proof.
  unfold CQ_cx', CQ_cx. apply (cpowz_add CQ_ops CQ_field). apply conj_nz. exact (proj2_sig u).
Qed.

(* on the executable instance the model of freq_response is the specification:
   the value compared by corr_fr is the value compared by holds_fr *)
Theorem CQ_fexpr_fr_eq_spec e (u : CQ) : u <> c0 CQ_ops ->
  fexpr_fr CQ_ops CQ_cx e u = fexpr_spec CQ_ops CQ_cx e u.
Proof.
  intro Hu.
  pose proof (fexpr_fr_eq_spec CQ_ops CQ_cx' CQ_field CQ_ceqb_spec CQ_cx'_0 CQ_cx'_add e (exist _ u Hu)) as H.
  transitivity (fexpr_fr CQ_ops CQ_cx' e (exist _ u Hu)).
  - symmetry. exact (fexpr_fr_transfer CQ_ops CQ_cx (@proj1_sig _ _) e (exist _ u Hu)).
  - rewrite H. exact (fexpr_spec_transfer CQ_ops CQ_cx (@proj1_sig _ _) e (exist _ u Hu)).
Qed.

Theorem CQ_corr_fr_iff_holds_fr c : fr_u c <> c0 CQ_ops -> corr_fr c = holds_fr c.
Proof. intro H. unfold corr_fr, holds_fr. rewrite (CQ_fexpr_fr_eq_spec _ _ H). reflexivity. Qed.

Theorem CQ_dft_eq_spec blk freqs norm :
  dft CQ_ops CQ_cx blk freqs norm = dft_spec CQ_ops CQ_cx blk freqs norm.
Proof. exact (dft_eq_spec CQ_ops CQ_cx CQ_field blk freqs norm). Qed.

Theorem CQ_corr_dft_iff_holds_dft c : corr_dft c = holds_dft c.
Proof. unfold corr_dft, holds_dft. rewrite CQ_dft_eq_spec. reflexivity. Qed.

(* ---- nested filter lists on the executable instance ---- *)
Lemma tree_spec_transfer {T W W'} (F : cops T) (cx : Z -> W -> T) (g : W' -> W) t w :
  tree_spec F (fun n w => cx n (g w)) t w = tree_spec F cx t (g w).
Proof.
  induction t as [b a|l IH|l IH] using ftree_ind2.
  - cbn [tree_spec]. rewrite (fr_spec_transfer F cx g). reflexivity.
  - cbn [tree_spec]. rewrite (map_Forall_eq _ _ l IH). reflexivity.
  - cbn [tree_spec]. rewrite (map_Forall_eq _ _ l IH). reflexivity.
Qed.
Lemma tree_fr_transfer {T W W'} (F : cops T) (cx : Z -> W -> T) (g : W' -> W) t w :
  tree_fr F (fun n w => cx n (g w)) t w = tree_fr F cx t (g w).
Proof.
  induction t as [b a|l IH|l IH] using ftree_ind2.
  - reflexivity.
  - cbn [tree_fr]. rewrite (map_Forall_eq _ _ l IH). reflexivity.
  - cbn [tree_fr]. rewrite (map_Forall_eq _ _ l IH). reflexivity.
Qed.

Theorem CQ_tree_fr_eq_spec t (u : CQ) : u <> c0 CQ_ops ->
  tree_fr CQ_ops CQ_cx t u = tree_spec CQ_ops CQ_cx t u.
Proof.
  intro Hu.
  pose proof (tree_fr_eq_spec CQ_ops CQ_cx' CQ_field CQ_ceqb_spec CQ_cx'_0 CQ_cx'_add t (exist _ u Hu)) as H.
  transitivity (tree_fr CQ_ops CQ_cx' t (exist _ u Hu)).
  - symmetry. exact (tree_fr_transfer CQ_ops CQ_cx (@proj1_sig _ _) t (exist _ u Hu)).
  - rewrite H. exact (tree_spec_transfer CQ_ops CQ_cx (@proj1_sig _ _) t (exist _ u Hu)).
Qed.
