(* C12 - nested filter lists: the recursive freq_response equals the specification
   (product over the stages of a cascade, sum over the branches of a bank), by induction on the
   nesting tree.  Generic in the field of numbers, like Proofs.v. *)
From Coq Require Import List Bool ZArith Lia Field.
From AL Require Import C12.Model C12.Spec C12.Proofs.
Import ListNotations.

Section TreeInd.
Context {T : Type}.
Variable P : @ftree T -> Prop.
Hypothesis Hlin : forall b a, P (TLin b a).
Hypothesis Hcas : forall l, Forall P l -> P (TCas l).
Hypothesis Hpar : forall l, Forall P l -> P (TPar l).
Fixpoint ftree_ind2 (t : ftree) : P t :=
  match t with
  | TLin b a => Hlin b a
  | TCas l => Hcas l ((fix go (l : list ftree) : Forall P l :=
                         match l with [] => Forall_nil P | x :: r => Forall_cons x (ftree_ind2 x) (go r) end) l)
  | TPar l => Hpar l ((fix go (l : list ftree) : Forall P l :=
                         match l with [] => Forall_nil P | x :: r => Forall_cons x (ftree_ind2 x) (go r) end) l)
  end.
End TreeInd.

Section ProofsT.
Context {T : Type} (F : cops T).
Context {W : Type} (cx : Z -> W -> T).
Notation "#0" := (c0 F). Notation "#1" := (c1 F).
Hypothesis Fth : field_theory #0 #1 (cadd F) (cmul F) (csub F) (copp F) (cdiv F) (cinv F) eq.
Hypothesis ceqb_spec : forall x y, ceqb F x y = true <-> x = y.
Hypothesis cx_0 : forall w, cx 0 w = #1.
Hypothesis cx_add : forall n m w, cx (n + m) w = cmul F (cx n w) (cx m w).

Lemma map_Forall_eq {A B} (f g : A -> B) l : Forall (fun x => f x = g x) l -> map f l = map g l.
Proof. induction 1 as [|x l Hx _ IH]; simpl; [reflexivity|]. rewrite Hx, IH. reflexivity. Qed.

Lemma reduce1_mul rs : rs <> [] -> reduce1 (resp_mul F) rs = Some (resp_prod F rs).
Proof.
  destruct rs as [|r rs]; [congruence|]. intros _. simpl.
  rewrite (fold_left_right _ (Val #1) (resp_mul_assoc F Fth) (resp_mul_1 F Fth)). reflexivity.
Qed.
Lemma reduce1_add rs : rs <> [] -> reduce1 (resp_add F) rs = Some (resp_sum F rs).
Proof.
  destruct rs as [|r rs]; [congruence|]. intros _. simpl.
  rewrite (fold_left_right _ (Val #0) (resp_add_assoc F Fth) (resp_add_0 F Fth)). reflexivity.
Qed.

(* the recursive model equals the specification, for every nesting *)
Theorem tree_fr_eq_spec t w : tree_fr F cx t w = tree_spec F cx t w.
Proof.
  induction t as [b a|l IH|l IH] using ftree_ind2.
  - simpl. apply (single_fr_spec F cx Fth ceqb_spec cx_0 cx_add).
  - cbn [tree_fr tree_spec]. rewrite (map_Forall_eq _ _ l IH).
    destruct (all_some (map (fun s => tree_spec F cx s w) l)) as [[|r rs]|]; try reflexivity.
    apply reduce1_mul. discriminate.
  - cbn [tree_fr tree_spec]. rewrite (map_Forall_eq _ _ l IH).
    destruct (all_some (map (fun s => tree_spec F cx s w) l)) as [[|r rs]|]; try reflexivity.
    apply reduce1_add. discriminate.
Qed.

Add Field FfieldT : Fth.

Lemma all_some_map_some {A B} (g : A -> B) l : all_some (map (fun x => Some (g x)) l) = Some (map g l).
Proof. induction l as [|x l IH]; simpl; [reflexivity|]. rewrite IH. reflexivity. Qed.

Lemma ok_Forall (l : list ftree) w :
  fold_right (fun s acc => tree_ok F cx s w /\ acc) True l -> Forall (fun s => tree_ok F cx s w) l.
Proof. induction l as [|x l IH]; simpl; intro H; constructor; tauto. Qed.

Lemma resp_prod_map_val {A} (f : A -> T) l :
  resp_prod F (map (fun s => Val (f s)) l) = Val (fold_right (cmul F) #1 (map f l)).
Proof. rewrite <- (map_map f Val). apply resp_prod_vals. Qed.
Lemma resp_sum_map_val {A} (f : A -> T) l :
  resp_sum F (map (fun s => Val (f s)) l) = Val (fold_right (cadd F) #0 (map f l)).
Proof. rewrite <- (map_map f Val). apply resp_sum_vals. Qed.

(* when no list is empty and no denominator vanishes, the response is the number obtained by
   multiplying over cascades and adding over banks, recursively *)
Theorem tree_fr_value t w : tree_ok F cx t w -> tree_fr F cx t w = Some (Val (tree_tf F cx t w)).
Proof.
  rewrite tree_fr_eq_spec.
  induction t as [b a|l IH|l IH] using ftree_ind2; intro Hok.
  - cbn [tree_spec tree_tf tree_ok] in *.
    rewrite (den_nz_constructible F cx Fth ceqb_spec a w Hok), (fr_spec_nz F cx ceqb_spec b a w Hok). reflexivity.
  - cbn [tree_spec tree_tf tree_ok] in *. destruct Hok as [Hne Hok]. apply ok_Forall in Hok.
    assert (E : map (fun s => tree_spec F cx s w) l = map (fun s => Some (Val (tree_tf F cx s w))) l).
    { apply map_Forall_eq. rewrite Forall_forall in *. intros s Hs. apply IH; [exact Hs|]. apply Hok. exact Hs. }
    rewrite E, (all_some_map_some (fun s => Val (tree_tf F cx s w))).
    destruct l as [|s l]; [congruence|].
    rewrite <- (resp_prod_map_val (fun s => tree_tf F cx s w)). reflexivity.
  - cbn [tree_spec tree_tf tree_ok] in *. destruct Hok as [Hne Hok]. apply ok_Forall in Hok.
    assert (E : map (fun s => tree_spec F cx s w) l = map (fun s => Some (Val (tree_tf F cx s w))) l).
    { apply map_Forall_eq. rewrite Forall_forall in *. intros s Hs. apply IH; [exact Hs|]. apply Hok. exact Hs. }
    rewrite E, (all_some_map_some (fun s => Val (tree_tf F cx s w))).
    destruct l as [|s l]; [congruence|].
    rewrite <- (resp_sum_map_val (fun s => tree_tf F cx s w)). reflexivity.
Qed.

(* nesting of the same kind gives the value of the flat list (the code does not flatten; the
   values agree because * and + associate); mixed nesting does not dissolve *)
Lemma fold_mul_app l1 l2 :
  fold_right (cmul F) #1 (l1 ++ l2) = cmul F (fold_right (cmul F) #1 l1) (fold_right (cmul F) #1 l2).
Proof. induction l1 as [|x l1 IH]; simpl; [ring|]. rewrite IH. ring. Qed.
Lemma fold_add_app l1 l2 :
  fold_right (cadd F) #0 (l1 ++ l2) = cadd F (fold_right (cadd F) #0 l1) (fold_right (cadd F) #0 l2).
Proof. induction l1 as [|x l1 IH]; simpl; [ring|]. rewrite IH. ring. Qed.

Lemma tree_tf_cas l w : tree_tf F cx (TCas l) w = fold_right (cmul F) #1 (map (fun s => tree_tf F cx s w) l).
Proof. reflexivity. Qed.
Lemma tree_tf_par l w : tree_tf F cx (TPar l) w = fold_right (cadd F) #0 (map (fun s => tree_tf F cx s w) l).
Proof. reflexivity. Qed.

Theorem same_kind_nesting_flattens pre inner post w :
  tree_tf F cx (TCas (pre ++ TCas inner :: post)) w = tree_tf F cx (TCas (pre ++ inner ++ post)) w /\
  tree_tf F cx (TPar (pre ++ TPar inner :: post)) w = tree_tf F cx (TPar (pre ++ inner ++ post)) w.
Proof.
  rewrite !tree_tf_cas, !tree_tf_par, !map_app, !map_cons, !tree_tf_cas, !tree_tf_par.
  rewrite !fold_mul_app, !fold_add_app. cbn [fold_right]. split; ring.
Qed.
End ProofsT.
