(* C12 - proofs, generic in the field of numbers. *)
From Coq Require Import List Bool ZArith Lia Ring Field.
From AL Require Import C12.Model C12.Spec.
Import ListNotations.

Section Proofs.
Context {T : Type} (F : cops T).
Context {W : Type} (cx : Z -> W -> T).

Notation "#0" := (c0 F). Notation "#1" := (c1 F).
Infix "+" := (cadd F). Infix "*" := (cmul F). Infix "/" := (cdiv F). Infix "-" := (csub F).
Notation "- x" := (copp F x).

Hypothesis Fth : field_theory #0 #1 (cadd F) (cmul F) (csub F) (copp F) (cdiv F) (cinv F) eq.
Hypothesis ceqb_spec : forall x y, ceqb F x y = true <-> x = y.
Hypothesis cx_0 : forall w, cx 0 w = #1.
Hypothesis cx_add : forall n m w, cx (n + m) w = cx n w * cx m w.

Add Field Ffield : Fth.

Lemma one_neq_zero : #1 <> #0.
Proof. exact (F_1_neq_0 Fth). Qed.

Lemma ceqb_false x y : ceqb F x y = false <-> x <> y.
Proof.
  split; intro H.
  - intro E. apply ceqb_spec in E. congruence.
  - destruct (ceqb F x y) eqn:E; [|reflexivity]. apply ceqb_spec in E. contradiction.
Qed.

Lemma mul_eq_one_nz x y : x * y = #1 -> x <> #0.
Proof. intros H E. subst x. apply one_neq_zero. rewrite <- H. ring. Qed.

Lemma cx_nz n w : cx n w <> #0.
Proof.
  apply (mul_eq_one_nz _ (cx (- n) w)). rewrite <- cx_add.
  replace (n + - n)%Z with 0%Z by lia. apply cx_0.
Qed.

Lemma cx_neg n w : cinv F (cx n w) = cx (- n) w.
Proof.
  assert (H : cx n w * cx (- n) w = #1).
  { rewrite <- cx_add. replace (n + - n)%Z with 0%Z by lia. apply cx_0. }
  pose proof (cx_nz n w) as Hn.
  transitivity (cinv F (cx n w) * (cx n w * cx (- n) w)).
  - rewrite H. ring.
  - field. exact Hn.
Qed.

(* value ** p for value = e^{-jw} is e^{-jwp}, for every integer p *)
Lemma cpow_cx w n : cpow F (cx 1 w) n = cx (Z.of_nat n) w.
Proof.
  induction n as [|n IH].
  - simpl. symmetry. apply cx_0.
  - cbn [cpow]. rewrite IH, <- cx_add. f_equal. lia.
Qed.

Lemma cpowz_cx w p : cpowz F (cx 1 w) p = cx p w.
Proof.
  unfold cpowz. destruct (p <? 0)%Z eqn:E.
  - rewrite cpow_cx, cx_neg. f_equal. lia.
  - rewrite cpow_cx. f_equal. lia.
Qed.

(* ---------------------------------------------------------------- Poly *)
Notation psum := (psum F cx).

Lemma psum_app p q w : psum (p ++ q) w = psum p w + psum q w.
Proof. induction p as [|kc p IH]; simpl; [ring|]. rewrite IH. ring. Qed.

Lemma psum_rev p w : psum (rev p) w = psum p w.
Proof. induction p as [|kc p IH]; simpl; [reflexivity|]. rewrite psum_app, IH. simpl. ring. Qed.

Lemma horner_fold w rest : forall acc,
  let (lp, r) := fold_left (horner_step F (cx 1 w)) rest acc in
  r * cx lp w = snd acc * cx (fst acc) w + psum rest w.
Proof.
  induction rest as [|[np nc] rest IH]; intros [op or_].
  - simpl. ring.
  - cbn [fold_left]. specialize (IH (horner_step F (cx 1 w) (op, or_) (np, nc))).
    destruct (fold_left _ rest _) as [lp r]. rewrite IH. clear IH.
    cbn [horner_step fst snd psum].
    assert (Hs : (if (op =? np + 1)%Z then cx 1 w else cpowz F (cx 1 w) (op - np)) = cx (op - np) w).
    { destruct (op =? np + 1)%Z eqn:E.
      - apply Z.eqb_eq in E. f_equal. lia.
      - apply cpowz_cx. }
    rewrite Hs. replace (cx op w) with (cx ((op - np) + np) w) by (f_equal; lia).
    rewrite cx_add. ring.
Qed.

Lemma direct_fold w p : forall acc,
  fold_left (fun acc kc => acc + snd kc * cpowz F (cx 1 w) (fst kc)) p acc = acc + psum p w.
Proof.
  induction p as [|kc p IH]; intro acc; simpl; [ring|].
  rewrite IH, cpowz_cx. ring.
Qed.

(* Poly.__call__ at e^{-jw}: the Horner-like scheme with merged steps and the general sum
   both give the plain sum of the terms *)
Lemma peval_psum p w : peval F p (cx 1 w) = psum p w.
Proof.
  unfold peval. destruct p as [|kc p]; [reflexivity|].
  assert (E : ceqb F (cx 1 w) #0 = false) by (apply ceqb_false, cx_nz). rewrite E.
  destruct (is_polynomial (kc :: p)).
  - rewrite <- (psum_rev (kc :: p)).
    destruct (rev (kc :: p)) as [|first rest] eqn:R.
    + reflexivity.
    + pose proof (horner_fold w rest first) as H.
      destruct (fold_left _ rest first) as [lp r]. rewrite cpowz_cx, H. destruct first; reflexivity.
  - rewrite direct_fold. ring.
Qed.

Lemma psum_poly_of_list_from l w : forall k,
  psum (filter (fun kc => negb (ceqb F (snd kc) #0)) (enum_from k l)) w = tsum_from F cx k l w.
Proof.
  induction l as [|c l IH]; intro k; simpl; [reflexivity|].
  destruct (ceqb F c #0) eqn:E; simpl.
  - apply ceqb_spec in E. subst c. rewrite IH. ring.
  - rewrite IH. reflexivity.
Qed.

Lemma psum_poly_of_list l w : psum (poly_of_list F l) w = tsum F cx l w.
Proof. apply psum_poly_of_list_from. Qed.

Lemma psum_shift s p w : psum (poly_shift F s p) w = cx (- s) w * psum p w.
Proof.
  induction p as [|[k c] p IH]; simpl; [ring|]. rewrite IH.
  replace (k - s)%Z with (- s + k)%Z by lia. rewrite cx_add. ring.
Qed.

Lemma poly_of_list_nil l : poly_of_list F l = [] <-> all_zero F l = true.
Proof.
  unfold poly_of_list, all_zero. generalize 0%Z. induction l as [|c l IH]; intro k; simpl.
  - tauto.
  - destruct (ceqb F c #0); simpl.
    + apply IH.
    + split; discriminate.
Qed.

Lemma min_power_none (p : list (Z * T)) : min_power p = None <-> p = [].
Proof. destruct p; simpl; split; congruence. Qed.

(* ------------------------------------------------------- LinearFilter *)
Lemma lf_make_none b a : lf_make F b a = None <-> all_zero F a = true.
Proof.
  unfold lf_make. rewrite <- poly_of_list_nil, <- min_power_none.
  destruct (min_power (poly_of_list F a)) as [s|]; [|tauto].
  destruct (s =? 0)%Z; split; congruence.
Qed.

Lemma lf_make_psum b a f : lf_make F b a = Some f ->
  exists s, forall w, psum (fst f) w = cx (- s) w * tsum F cx b w /\
                      psum (snd f) w = cx (- s) w * tsum F cx a w.
Proof.
  unfold lf_make. destruct (min_power (poly_of_list F a)) as [s|]; [|discriminate].
  destruct (s =? 0)%Z eqn:E; intro H; injection H as <-.
  - exists 0%Z. intro w. cbn [fst snd]. rewrite !psum_poly_of_list. simpl. rewrite cx_0. split; ring.
  - exists s. intro w. cbn [fst snd]. rewrite !psum_shift, !psum_poly_of_list. split; reflexivity.
Qed.

(* freq_response of a constructed filter is the ratio of the transfer-function sums,
   nan exactly where the denominator sum vanishes *)
Lemma lf_fr_spec b a f w : lf_make F b a = Some f -> lf_fr F cx f w = fr_spec F cx b a w.
Proof.
  intro H. destruct (lf_make_psum _ _ _ H) as [s Hs]. destruct (Hs w) as [Hn Hd].
  unfold lf_fr, fr_spec. rewrite !peval_psum, Hn, Hd.
  pose proof (cx_nz (- s) w) as Hk.
  destruct (ceqb F (tsum F cx a w) #0) eqn:E.
  - apply ceqb_spec in E. rewrite E.
    assert (E2 : ceqb F (cx (- s) w * #0) #0 = true) by (apply ceqb_spec; ring).
    rewrite E2. reflexivity.
  - apply ceqb_false in E.
    assert (E2 : ceqb F (cx (- s) w * tsum F cx a w) #0 = false).
    { apply ceqb_false. intro Z0. apply E.
      transitivity (cinv F (cx (- s) w) * (cx (- s) w * tsum F cx a w)).
      - field. exact Hk.
      - rewrite Z0. ring. }
    rewrite E2. f_equal. field. split; assumption.
Qed.

Lemma single_fr_spec b a w :
  option_map (fun f => lf_fr F cx f w) (lf_make F b a)
  = if all_zero F a then None else Some (fr_spec F cx b a w).
Proof.
  destruct (lf_make F b a) as [f|] eqn:E.
  - simpl. rewrite (lf_fr_spec _ _ _ _ E).
    destruct (all_zero F a) eqn:Z; [|reflexivity].
    apply lf_make_none with (b := b) in Z. congruence.
  - apply lf_make_none in E. rewrite E. reflexivity.
Qed.

(* ------------------------------------------------ cascade / parallel *)
Lemma resp_mul_assoc x y z : resp_mul F (resp_mul F x y) z = resp_mul F x (resp_mul F y z).
Proof. destruct x, y, z; simpl; try reflexivity. f_equal. ring. Qed.
Lemma resp_mul_1 x : resp_mul F x (Val #1) = x.
Proof. destruct x; simpl; [reflexivity|]. f_equal. ring. Qed.
Lemma resp_add_assoc x y z : resp_add F (resp_add F x y) z = resp_add F x (resp_add F y z).
Proof. destruct x, y, z; simpl; try reflexivity. f_equal. ring. Qed.
Lemma resp_add_0 x : resp_add F x (Val #0) = x.
Proof. destruct x; simpl; [reflexivity|]. f_equal. ring. Qed.

Lemma fold_left_right {A} (f : A -> A -> A) (e : A) :
  (forall x y z, f (f x y) z = f x (f y z)) -> (forall x, f x e = x) ->
  forall r x, fold_left f r x = f x (fold_right f e r).
Proof.
  intros Ha He r. induction r as [|y r IH]; intro x; simpl.
  - symmetry. apply He.
  - rewrite IH. apply Ha.
Qed.

Lemma make_all_spec secs :
  match make_all F secs with
  | Some fs => constructible F secs = true /\ length fs = length secs /\
               forall w, map (fun f => lf_fr F cx f w) fs = map (fun s => fr_spec F cx (fst s) (snd s) w) secs
  | None => constructible F secs = false
  end.
Proof.
  induction secs as [|[b a] secs IH]; simpl.
  - repeat split; reflexivity.
  - destruct (lf_make F b a) as [f|] eqn:E.
    + assert (Z : all_zero F a = false).
      { destruct (all_zero F a) eqn:Z; [|reflexivity]. apply lf_make_none with (b := b) in Z. congruence. }
      rewrite Z. simpl. destruct (make_all F secs) as [fs|].
      * destruct IH as (Hc & Hl & Hm). repeat split; [exact Hc|simpl; congruence|].
        intro w. simpl. rewrite Hm, (lf_fr_spec _ _ _ _ E). reflexivity.
      * exact IH.
    + apply lf_make_none in E. rewrite E. reflexivity.
Qed.

(* the model of freq_response (single filter, cascade, parallel bank) equals the specification *)
Theorem fexpr_fr_eq_spec e w : fexpr_fr F cx e w = fexpr_spec F cx e w.
Proof.
  destruct e as [b a|secs|secs]; simpl.
  - apply single_fr_spec.
  - pose proof (make_all_spec secs) as H. destruct (make_all F secs) as [fs|].
    + destruct H as (Hc & Hl & Hm). rewrite Hc. unfold cascade_fr. rewrite Hm. simpl.
      destruct secs as [|s secs]; simpl; [reflexivity|].
      rewrite (fold_left_right _ (Val #1) resp_mul_assoc resp_mul_1). reflexivity.
    + rewrite H. reflexivity.
  - pose proof (make_all_spec secs) as H. destruct (make_all F secs) as [fs|].
    + destruct H as (Hc & Hl & Hm). rewrite Hc. unfold parallel_fr. rewrite Hm. simpl.
      destruct secs as [|s secs]; simpl; [reflexivity|].
      rewrite (fold_left_right _ (Val #0) resp_add_assoc resp_add_0). reflexivity.
    + rewrite H. reflexivity.
Qed.

(* ------------------------------------------------------------------ dft *)
Lemma dft_fold blk w : forall k acc,
  fold_left (fun acc nx => acc + snd nx * cx (fst nx) w) (enum_from k blk) acc
  = acc + tsum_from F cx k blk w.
Proof.
  induction blk as [|x blk IH]; intros k acc; simpl; [ring|]. rewrite IH. simpl. ring.
Qed.

Lemma dft_sum_tsum blk w : dft_sum F cx blk w = tsum F cx blk w.
Proof. unfold dft_sum, tsum. rewrite dft_fold. ring. Qed.

(* dft is the defining sum (divided by the block length when normalised) *)
Theorem dft_eq_spec blk freqs norm : dft F cx blk freqs norm = dft_spec F cx blk freqs norm.
Proof.
  unfold dft, dft_spec. destruct norm.
  - destruct blk as [|x blk], freqs as [|w freqs]; try reflexivity;
      rewrite map_map; f_equal; apply map_ext; intro; rewrite dft_sum_tsum; reflexivity.
  - f_equal. apply map_ext. intro. apply dft_sum_tsum.
Qed.

Lemma tsum_from_lincomb al be w xs : forall ys k, length xs = length ys ->
  tsum_from F cx k (lincomb F al be xs ys) w
  = al * tsum_from F cx k xs w + be * tsum_from F cx k ys w.
Proof.
  induction xs as [|x xs IH]; intros [|y ys] k Hl; simpl in Hl; try discriminate.
  - simpl. ring.
  - unfold lincomb in *. simpl. rewrite IH by congruence. ring.
Qed.

Lemma lincomb_length al be xs ys : length xs = length ys -> length (lincomb F al be xs ys) = length xs.
Proof. intro H. unfold lincomb. rewrite map_length, combine_length, <- H. apply Nat.min_id. Qed.

Lemma lincomb_map {A} al be (f g : A -> T) l :
  lincomb F al be (map f l) (map g l) = map (fun x => al * f x + be * g x) l.
Proof. unfold lincomb. induction l as [|x l IH]; simpl; [reflexivity|]. rewrite IH. reflexivity. Qed.

(* dft is linear in the block *)
Theorem dft_linear al be xs ys freqs norm : length xs = length ys ->
  dft F cx (lincomb F al be xs ys) freqs norm
  = match dft F cx xs freqs norm, dft F cx ys freqs norm with
    | Some X, Some Y => Some (lincomb F al be X Y)
    | _, _ => None
    end.
Proof.
  intro Hl. rewrite !dft_eq_spec. unfold dft_spec.
  pose proof (lincomb_length al be xs ys Hl) as Hll.
  destruct norm.
  - destruct xs as [|x xs], ys as [|y ys]; simpl in Hl; try discriminate.
    + destruct freqs; reflexivity.
    + assert (E : exists z zs, lincomb F al be (x :: xs) (y :: ys) = z :: zs) by (unfold lincomb; simpl; eauto).
      destruct E as (z & zs & E). rewrite E in *. rewrite lincomb_map. rewrite <- E. f_equal.
      apply map_ext. intro w. unfold tsum. rewrite tsum_from_lincomb by (simpl; congruence).
      rewrite E, Hll. simpl length. rewrite <- Hl.
      rewrite !(Fdiv_def Fth). ring.
  - rewrite lincomb_map. f_equal. apply map_ext. intro w. unfold tsum. apply tsum_from_lincomb. exact Hl.
Qed.

Lemma tsum_from_dc w0 : (forall n, cx n w0 = #1) -> forall blk k, tsum_from F cx k blk w0 = lsum F blk.
Proof.
  intros H0 blk. induction blk as [|x blk IH]; intro k; simpl; [reflexivity|]. rewrite IH, H0. ring.
Qed.

(* the DC bin of the normalised dft is the block mean *)
Theorem dft_dc_is_mean w0 blk : (forall n, cx n w0 = #1) -> blk <> [] ->
  dft F cx blk [w0] true = Some [mean F blk].
Proof.
  intros H0 Hne. rewrite dft_eq_spec. unfold dft_spec, mean, tsum. destruct blk as [|x blk]; [congruence|].
  cbn [map]. rewrite (tsum_from_dc w0 H0). reflexivity.
Qed.

(* ------------------------------------------- FIR filtering (time domain) *)
Fixpoint dsum (num : list (Z * T)) (d : Z -> T) : T :=
  match num with
  | [] => #0
  | kc :: r => snd kc * d (fst kc) + dsum r d
  end.

Lemma fir_term_eq d kc : fir_term F d kc = snd kc * d (fst kc).
Proof.
  unfold fir_term. destruct (ceqb F (snd kc) #1) eqn:E1.
  - apply ceqb_spec in E1. rewrite E1. ring.
  - destruct (ceqb F (snd kc) (- #1)) eqn:E2; [|reflexivity].
    apply ceqb_spec in E2. rewrite E2. ring.
Qed.

Lemma fir_fold d r : forall acc, fold_left (cadd F) (map (fir_term F d) r) acc = acc + dsum r d.
Proof.
  induction r as [|kc r IH]; intro acc; simpl; [ring|]. rewrite IH, fir_term_eq. ring.
Qed.

Lemma opp_one_nz : - #1 <> #0.
Proof.
  intro H. apply one_neq_zero. transitivity (- (- #1)); [ring|]. rewrite H. ring.
Qed.

Lemma fir_expr_eq kc r gain d : gain <> #0 ->
  fir_expr F (kc :: r) gain d = Some (dsum (kc :: r) d / gain).
Proof.
  intro Hg. unfold fir_expr. cbn [map reduce1]. rewrite fir_fold, fir_term_eq. f_equal.
  cbn [dsum].
  destruct (ceqb F gain (- #1)) eqn:E1.
  - apply ceqb_spec in E1. rewrite E1. field. exact opp_one_nz.
  - destruct (ceqb F gain #1) eqn:E2; [|reflexivity].
    apply ceqb_spec in E2. rewrite E2. field. exact one_neq_zero.
Qed.

Lemma enum_from_in (l : list T) : forall k0 kc, In kc (enum_from k0 l) ->
  (k0 <= fst kc < k0 + Z.of_nat (length l))%Z.
Proof.
  induction l as [|c l IH]; intros k0 kc H; simpl in H; [contradiction|].
  destruct H as [<-|H].
  - simpl. lia.
  - apply IH in H. simpl length. lia.
Qed.

Lemma poly_of_list_in l kc : In kc (poly_of_list F l) -> (0 <= fst kc < Z.of_nat (length l))%Z.
Proof.
  unfold poly_of_list. intro H. apply filter_In in H as [H _]. apply enum_from_in in H. lia.
Qed.

Lemma fold_min_nonneg l : forall x, (0 <= x)%Z -> (forall y, In y l -> (0 <= y)%Z) ->
  (0 <= fold_left Z.min l x)%Z.
Proof.
  induction l as [|y l IH]; intros x Hx Hl; simpl; [exact Hx|].
  apply IH.
  - specialize (Hl y (or_introl eq_refl)). lia.
  - intros z Hz. apply Hl. right. exact Hz.
Qed.

Lemma min_power_nonneg (p : list (Z * T)) s : (forall kc, In kc p -> (0 <= fst kc)%Z) ->
  min_power p = Some s -> (0 <= s)%Z.
Proof.
  intros Hp. destruct p as [|kc p]; simpl; [discriminate|]. intro H. injection H as <-.
  apply fold_min_nonneg.
  - apply Hp. left. reflexivity.
  - intros y Hy. apply in_map_iff in Hy as (kc' & <- & Hin). apply Hp. right. exact Hin.
Qed.

Lemma lf_make_keys b a f : lf_make F b a = Some f ->
  forall kc, In kc (fst f) -> (fst kc < Z.of_nat (length b))%Z.
Proof.
  unfold lf_make. destruct (min_power (poly_of_list F a)) as [s|] eqn:M; [|discriminate].
  assert (Hs : (0 <= s)%Z).
  { apply (min_power_nonneg _ _ (fun kc H => proj1 (poly_of_list_in a kc H)) M). }
  destruct (s =? 0)%Z; intro H; injection H as <-; intros kc Hin; cbn [fst] in Hin.
  - apply poly_of_list_in in Hin. lia.
  - unfold poly_shift in Hin. apply in_map_iff in Hin as (kc' & <- & Hin).
    apply poly_of_list_in in Hin. cbn [fst]. lia.
Qed.

Lemma lf_make_num_nil b a f : lf_make F b a = Some f -> fst f = [] -> all_zero F b = true.
Proof.
  unfold lf_make. destruct (min_power (poly_of_list F a)) as [s|]; [|discriminate].
  destruct (s =? 0)%Z; intro H; injection H as <-; cbn [fst]; intro E.
  - apply poly_of_list_nil. exact E.
  - apply poly_of_list_nil. unfold poly_shift in E. apply map_eq_nil in E. exact E.
Qed.

(* what fir_run computes: every output is  (sum_k c_k d_k) / gain *)
Lemma fir_run_inv f zero xs ys : fir_run F f zero xs = Some ys ->
  exists gain, snd f = [(0%Z, gain)] /\ is_polynomial (fst f) = true /\
    ys = map (fun n => match fir_expr F (fst f) gain (delayed zero xs n) with
                       | None => zero | Some y => y end) (seq 0 (length xs)).
Proof.
  unfold fir_run. destruct (snd f) as [|[k gain] [|? ?]]; try discriminate.
  - destruct k; try discriminate.
    destruct (is_polynomial (fst f)); simpl; [|discriminate].
    intro H. injection H as <-. exists gain. auto.
  - destruct k; discriminate.
Qed.

Lemma nth_map_seq {A} (G : nat -> A) len n d : (n < len)%nat -> nth n (map G (seq 0 len)) d = G n.
Proof.
  intro H. rewrite (nth_indep _ d (G 0%nat)) by (rewrite map_length, seq_length; exact H).
  rewrite map_nth. rewrite seq_nth by exact H. reflexivity.
Qed.

Lemma cexp_input_length w len : length (cexp_input cx w len) = len.
Proof. unfold cexp_input. rewrite map_length, seq_length. reflexivity. Qed.

Lemma dsum_cexp num w zero len n :
  (forall kc, In kc num -> (0 <= fst kc <= Z.of_nat n)%Z) -> (n < len)%nat ->
  dsum num (delayed zero (cexp_input cx w len) n) = cx (- Z.of_nat n) w * psum num w.
Proof.
  intros Hk Hn. induction num as [|[k c] num IH]; simpl; [ring|].
  rewrite IH by (intros kc H; apply Hk; right; exact H).
  specialize (Hk (k, c) (or_introl eq_refl)). cbn [fst] in Hk.
  unfold delayed. assert (E : (Z.of_nat n <? k)%Z = false) by (apply Z.ltb_ge; lia). rewrite E.
  unfold cexp_input. rewrite nth_map_seq by lia.
  replace (- Z.of_nat (n - Z.to_nat k))%Z with (- Z.of_nat n + k)%Z by lia.
  rewrite cx_add. ring.
Qed.

Lemma is_polynomial_in (p : list (Z * T)) : is_polynomial p = true -> forall kc, In kc p -> (0 <= fst kc)%Z.
Proof.
  unfold is_polynomial. rewrite forallb_forall. intros H kc Hin. apply H in Hin. apply Z.leb_le. exact Hin.
Qed.

Lemma fr_spec_val b a w h : fr_spec F cx b a w = Val h ->
  tsum F cx a w <> #0 /\ h = tsum F cx b w / tsum F cx a w.
Proof.
  unfold fr_spec. destruct (ceqb F (tsum F cx a w) #0) eqn:E; [discriminate|].
  intro H. injection H as <-. split; [apply ceqb_false; exact E|reflexivity].
Qed.

(* gain and transfer function of a FIR filter in terms of the stored polynomials *)
Lemma fir_gain_h b a f w h gain : lf_make F b a = Some f -> snd f = [(0%Z, gain)] ->
  fr_spec F cx b a w = Val h -> gain <> #0 /\ h = psum (fst f) w / gain.
Proof.
  intros Hm Hd Hh. apply fr_spec_val in Hh as [Hnz ->].
  destruct (lf_make_psum _ _ _ Hm) as [s Hs]. destruct (Hs w) as [Hn Hd'].
  rewrite Hd in Hd'. simpl in Hd'. rewrite cx_0 in Hd'.
  assert (Hg : gain = cx (- s) w * tsum F cx a w) by (rewrite <- Hd'; ring).
  pose proof (cx_nz (- s) w) as Hk.
  assert (Hgnz : gain <> #0).
  { rewrite Hg. intro Z0. apply Hnz.
    transitivity (cinv F (cx (- s) w) * (cx (- s) w * tsum F cx a w)); [field; exact Hk|].
    rewrite Z0. ring. }
  split; [exact Hgnz|]. rewrite Hn, Hg. field. split; assumption.
Qed.

(* a complex exponential through a FIR filter is scaled by freq_response(w)
   once the filter memory is full *)
Theorem fir_steady_state b a f w zero len ys h n :
  lf_make F b a = Some f ->
  fir_run F f zero (cexp_input cx w len) = Some ys ->
  fr_spec F cx b a w = Val h ->
  all_zero F b = false \/ zero = #0 ->
  (length b - 1 <= n)%nat -> (n < len)%nat ->
  nth n ys zero = h * cx (- Z.of_nat n) w.
Proof.
  intros Hm Hr Hh Hz Hord Hn.
  apply fir_run_inv in Hr as (gain & Hd & Hpol & ->).
  rewrite cexp_input_length. rewrite nth_map_seq by exact Hn.
  destruct (fir_gain_h _ _ _ _ _ _ Hm Hd Hh) as [Hg ->].
  destruct (fst f) as [|kc r] eqn:En.
  - simpl. pose proof (lf_make_num_nil _ _ _ Hm En) as Hb.
    destruct Hz as [Hz| ->]; [congruence|]. field. exact Hg.
  - rewrite fir_expr_eq by exact Hg. rewrite <- En in Hpol |- *.
    rewrite dsum_cexp; [field; exact Hg| |exact Hn].
    intros kc' Hin. split.
    + apply (is_polynomial_in _ Hpol). exact Hin.
    + pose proof (lf_make_keys _ _ _ Hm kc' Hin). lia.
Qed.

(* sums over index lists *)
Fixpoint sumf (f : nat -> T) (l : list nat) : T :=
  match l with [] => #0 | n :: r => f n + sumf f r end.

Lemma sumf_ext f g l : (forall n, In n l -> f n = g n) -> sumf f l = sumf g l.
Proof.
  induction l as [|n l IH]; intro H; simpl; [reflexivity|].
  rewrite (H n (or_introl eq_refl)), IH; [reflexivity|]. intros m Hm. apply H. right. exact Hm.
Qed.

Lemma sumf_lin c f g h l :
  sumf (fun n => (c * f n + g n) * h n) l = c * sumf (fun n => f n * h n) l + sumf (fun n => g n * h n) l.
Proof. induction l as [|n l IH]; simpl; [ring|]. rewrite IH. ring. Qed.

Lemma sumf_scale c f l : sumf (fun n => f n * c) l = sumf f l * c.
Proof. induction l as [|n l IH]; simpl; [ring|]. rewrite IH. ring. Qed.

Lemma sumf_zero l : sumf (fun _ => #0) l = #0.
Proof. induction l as [|n l IH]; simpl; [reflexivity|]. rewrite IH. ring. Qed.

Lemma tsum_from_map_seq (G : nat -> T) w len : forall s,
  tsum_from F cx (Z.of_nat s) (map G (seq s len)) w
  = sumf (fun n => G n * cx (Z.of_nat n) w) (seq s len).
Proof.
  induction len as [|len IH]; intro s; simpl; [reflexivity|].
  replace (Z.of_nat s + 1)%Z with (Z.of_nat (S s)) by lia. rewrite IH. reflexivity.
Qed.

Lemma sum_delta w k len : forall s,
  sumf (fun n => (if (Z.of_nat n =? k)%Z then #1 else #0) * cx (Z.of_nat n) w) (seq s len)
  = if ((Z.of_nat s <=? k) && (k <? Z.of_nat (s + len)))%Z then cx k w else #0.
Proof.
  induction len as [|len IH]; intro s; simpl.
  - destruct (Z.of_nat s <=? k)%Z eqn:A, (k <? Z.of_nat (s + 0))%Z eqn:B; simpl; try reflexivity.
    apply Z.leb_le in A. apply Z.ltb_lt in B. lia.
  - rewrite IH. destruct (Z.of_nat s =? k)%Z eqn:E.
    + apply Z.eqb_eq in E.
      assert (A : (Z.of_nat (S s) <=? k)%Z = false) by (apply Z.leb_gt; lia). rewrite A.
      assert (B : (Z.of_nat s <=? k)%Z = true) by (apply Z.leb_le; lia). rewrite B.
      assert (C : (k <? Z.of_nat (s + S len))%Z = true) by (apply Z.ltb_lt; lia). rewrite C.
      simpl. rewrite E. ring.
    + apply Z.eqb_neq in E.
      replace (S s + len)%nat with (s + S len)%nat by lia.
      destruct (k <? Z.of_nat (s + S len))%Z; rewrite ?andb_false_r, ?andb_true_r.
      * destruct (Z.of_nat (S s) <=? k)%Z eqn:A, (Z.of_nat s <=? k)%Z eqn:B; try ring.
        -- apply Z.leb_le in A. apply Z.leb_gt in B. lia.
        -- apply Z.leb_gt in A. apply Z.leb_le in B. lia.
      * ring.
Qed.

Lemma nth_impulse L j : nth j (impulse F L) #0 = if (Nat.eqb j 0 && negb (Nat.eqb L 0))%bool then #1 else #0.
Proof.
  destruct L as [|L]; simpl.
  - destruct j; reflexivity.
  - destruct j as [|j]; simpl; [reflexivity|]. apply nth_repeat.
Qed.

Lemma delayed_impulse L n k : (0 <= k)%Z -> (n < L)%nat ->
  delayed #0 (impulse F L) n k = if (Z.of_nat n =? k)%Z then #1 else #0.
Proof.
  intros Hk Hn. unfold delayed. destruct (Z.of_nat n <? k)%Z eqn:E.
  - apply Z.ltb_lt in E. assert (E2 : (Z.of_nat n =? k)%Z = false) by (apply Z.eqb_neq; lia).
    rewrite E2. reflexivity.
  - apply Z.ltb_ge in E. rewrite nth_impulse.
    assert (HL : Nat.eqb L 0 = false) by (apply Nat.eqb_neq; lia). rewrite HL. simpl. rewrite andb_true_r.
    destruct (Z.of_nat n =? k)%Z eqn:E2.
    + apply Z.eqb_eq in E2. assert (E3 : Nat.eqb (n - Z.to_nat k) 0 = true) by (apply Nat.eqb_eq; lia).
      rewrite E3. reflexivity.
    + apply Z.eqb_neq in E2. assert (E3 : Nat.eqb (n - Z.to_nat k) 0 = false) by (apply Nat.eqb_neq; lia).
      rewrite E3. reflexivity.
Qed.

Lemma impulse_length L : length (impulse F L) = L.
Proof. destruct L; simpl; [reflexivity|]. rewrite repeat_length. reflexivity. Qed.

Lemma sum_dsum_impulse num w L : (forall kc, In kc num -> (0 <= fst kc < Z.of_nat L)%Z) ->
  sumf (fun n => dsum num (delayed #0 (impulse F L) n) * cx (Z.of_nat n) w) (seq 0 L) = psum num w.
Proof.
  induction num as [|[k c] num IH]; intro Hk.
  - simpl. rewrite (sumf_ext _ (fun _ => #0)); [apply sumf_zero|]. intros; ring.
  - cbn [dsum psum fst snd]. rewrite sumf_lin. rewrite IH by (intros kc H; apply Hk; right; exact H).
    specialize (Hk (k, c) (or_introl eq_refl)). cbn [fst] in Hk.
    rewrite (sumf_ext _ (fun n => (if (Z.of_nat n =? k)%Z then #1 else #0) * cx (Z.of_nat n) w)).
    + rewrite sum_delta.
      assert (A : ((Z.of_nat 0 <=? k) && (k <? Z.of_nat (0 + L)))%Z = true).
      { apply andb_true_iff. split; [apply Z.leb_le|apply Z.ltb_lt]; lia. }
      rewrite A. reflexivity.
    + intros n Hn. apply in_seq in Hn. rewrite delayed_impulse by lia. reflexivity.
Qed.

(* the unnormalised dft of a FIR filter's impulse response at w is freq_response(w) *)
Theorem fir_dft_impulse_eq_fr b a f w L ir h :
  lf_make F b a = Some f ->
  fir_run F f #0 (impulse F L) = Some ir ->
  fr_spec F cx b a w = Val h ->
  (length b <= L)%nat ->
  dft F cx ir [w] false = Some [h].
Proof.
  intros Hm Hr Hh HL.
  apply fir_run_inv in Hr as (gain & Hd & Hpol & ->).
  destruct (fir_gain_h _ _ _ _ _ _ Hm Hd Hh) as [Hg ->].
  rewrite dft_eq_spec. unfold dft_spec. simpl map. do 2 f_equal.
  rewrite impulse_length. unfold tsum. rewrite (tsum_from_map_seq _ w L 0).
  rewrite (sumf_ext _ (fun n => (dsum (fst f) (delayed #0 (impulse F L) n) * cx (Z.of_nat n) w) * cinv F gain)).
  - rewrite sumf_scale, sum_dsum_impulse.
    + field. exact Hg.
    + intros kc Hin. split.
      * apply (is_polynomial_in _ Hpol). exact Hin.
      * pose proof (lf_make_keys _ _ _ Hm kc Hin). lia.
  - intros n _. destruct (fst f) as [|kc r].
    + simpl. field. exact Hg.
    + rewrite fir_expr_eq by exact Hg. field. exact Hg.
Qed.

(* ------------------------------------------- corollaries in product form *)
Lemma tsum_from_all_zero l w : all_zero F l = true -> forall k, tsum_from F cx k l w = #0.
Proof.
  unfold all_zero. induction l as [|c l IH]; intros H k; simpl in *; [reflexivity|].
  apply andb_true_iff in H as [H1 H2]. apply ceqb_spec in H1. rewrite H1, IH by exact H2. ring.
Qed.

Lemma den_nz_constructible a w : tsum F cx a w <> #0 -> all_zero F a = false.
Proof.
  intro H. destruct (all_zero F a) eqn:E; [|reflexivity].
  exfalso. apply H. apply tsum_from_all_zero. exact E.
Qed.

Lemma fr_spec_nz b a w : tsum F cx a w <> #0 -> fr_spec F cx b a w = Val (tsum F cx b w / tsum F cx a w).
Proof. intro H. unfold fr_spec. apply ceqb_false in H. rewrite H. reflexivity. Qed.

Lemma fr_spec_nan_iff b a w : fr_spec F cx b a w = Nan <-> tsum F cx a w = #0.
Proof.
  unfold fr_spec. destruct (ceqb F (tsum F cx a w) #0) eqn:E.
  - apply ceqb_spec in E. tauto.
  - apply ceqb_false in E. split; [discriminate|contradiction].
Qed.

Definition tf (s : list T * list T) (w : W) : T := tsum F cx (fst s) w / tsum F cx (snd s) w.

Lemma secs_all_val secs w : (forall s, In s secs -> tsum F cx (snd s) w <> #0) ->
  constructible F secs = true /\
  map (fun s => fr_spec F cx (fst s) (snd s) w) secs = map (fun s => Val (tf s w)) secs.
Proof.
  induction secs as [|s secs IH]; intro H; simpl; [split; reflexivity|].
  destruct IH as [Hc Hm]; [intros s' Hs; apply H; right; exact Hs|].
  pose proof (H s (or_introl eq_refl)) as Hs.
  rewrite (den_nz_constructible _ _ Hs), Hc, Hm, (fr_spec_nz _ _ _ Hs). split; reflexivity.
Qed.

Lemma resp_prod_vals l : resp_prod F (map Val l) = Val (fold_right (cmul F) #1 l).
Proof. unfold resp_prod. induction l as [|x l IH]; simpl; [reflexivity|]. rewrite IH. reflexivity. Qed.
Lemma resp_sum_vals l : resp_sum F (map Val l) = Val (fold_right (cadd F) #0 l).
Proof. unfold resp_sum. induction l as [|x l IH]; simpl; [reflexivity|]. rewrite IH. reflexivity. Qed.

(* the response of a cascade is the product of the section transfer functions *)
Theorem cascade_fr_product secs w : secs <> [] ->
  (forall s, In s secs -> tsum F cx (snd s) w <> #0) ->
  fexpr_fr F cx (FCascade secs) w = Some (Val (fold_right (cmul F) #1 (map (fun s => tf s w) secs))).
Proof.
  intros Hne H. rewrite fexpr_fr_eq_spec. simpl. destruct (secs_all_val secs w H) as [Hc Hm].
  rewrite Hc, Hm. destruct secs; [congruence|]. cbn [length Nat.eqb negb andb].
  rewrite <- resp_prod_vals, map_map. reflexivity.
Qed.

(* the response of a parallel bank is the sum of the section transfer functions *)
Theorem parallel_fr_sum secs w : secs <> [] ->
  (forall s, In s secs -> tsum F cx (snd s) w <> #0) ->
  fexpr_fr F cx (FParallel secs) w = Some (Val (fold_right (cadd F) #0 (map (fun s => tf s w) secs))).
Proof.
  intros Hne H. rewrite fexpr_fr_eq_spec. simpl. destruct (secs_all_val secs w H) as [Hc Hm].
  rewrite Hc, Hm. destruct secs; [congruence|]. cbn [length Nat.eqb negb andb].
  rewrite <- resp_sum_vals, map_map. reflexivity.
Qed.

(* one vanishing section denominator makes the whole cascade / bank nan *)
Lemma resp_prod_nan l : In Nan l -> resp_prod F l = Nan.
Proof.
  induction l as [|x l IH]; intro H; [contradiction|]. destruct H as [-> | H]; [reflexivity|].
  unfold resp_prod in *. simpl. rewrite IH by exact H. destruct x; reflexivity.
Qed.
Lemma resp_sum_nan l : In Nan l -> resp_sum F l = Nan.
Proof.
  induction l as [|x l IH]; intro H; [contradiction|]. destruct H as [-> | H]; [reflexivity|].
  unfold resp_sum in *. simpl. rewrite IH by exact H. destruct x; reflexivity.
Qed.

Theorem cascade_parallel_nan secs w s : constructible F secs = true -> In s secs ->
  tsum F cx (snd s) w = #0 ->
  fexpr_fr F cx (FCascade secs) w = Some Nan /\ fexpr_fr F cx (FParallel secs) w = Some Nan.
Proof.
  intros Hc Hin Hz. rewrite !fexpr_fr_eq_spec. simpl. rewrite Hc.
  assert (Hl : negb (Nat.eqb (length secs) 0) = true) by (destruct secs; [contradiction|reflexivity]).
  rewrite Hl. simpl.
  assert (HN : In Nan (map (fun s => fr_spec F cx (fst s) (snd s) w) secs)).
  { apply in_map_iff. exists s. split; [|exact Hin]. apply fr_spec_nan_iff. exact Hz. }
  rewrite (resp_prod_nan _ HN), (resp_sum_nan _ HN). split; reflexivity.
Qed.

End Proofs.
