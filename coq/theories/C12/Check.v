(* C12 - case records and boolean checkers of the exact families (Gaussian rationals).
   corr_* : the implementation's observation equals the model's output
   holds_*: the implementation's observation satisfies the specification *)
From Coq Require Import List Bool ZArith QArith Qcanon.
From AL Require Import Base.CaseLib C12.Model C12.Spec.
Import ListNotations.

Definition cq (n1 : Z) (d1 : positive) (n2 : Z) (d2 : positive) : CQ := (qc n1 d1, qc n2 d2).
Definition cq_eqb : CQ -> CQ -> bool := ceqb CQ_ops.

(* observed result of freq_response: nan, a number, or an exception *)
Inductive oresp := ONan | OVal (v : CQ) | OExc.
Definition oresp_eqb (a b : oresp) : bool :=
  match a, b with
  | ONan, ONan => true
  | OVal x, OVal y => cq_eqb x y
  | OExc, OExc => true
  | _, _ => false
  end.
Definition oresp_of (m : option (resp CQ)) : oresp :=
  match m with None => OExc | Some Nan => ONan | Some (Val v) => OVal v end.

(* ---- freq_response of a single filter, a cascade, a parallel bank ---- *)
Record frcase := FRC { fr_e : @fexpr CQ; fr_u : CQ; fr_obs : oresp }.
Definition corr_fr (c : frcase) : bool :=
  oresp_eqb (fr_obs c) (oresp_of (fexpr_fr CQ_ops CQ_cx (fr_e c) (fr_u c))).
Definition holds_fr (c : frcase) : bool :=
  oresp_eqb (fr_obs c) (oresp_of (fexpr_spec CQ_ops CQ_cx (fr_e c) (fr_u c))).

(* ---- containers of frequencies ---- *)
Definition okind_eqb (a b : okind) : bool :=
  match a, b with
  | OScalar, OScalar | OList, OList | OTuple, OTuple | ODeque, ODeque
  | OStream, OStream | OGen, OGen | ORaise, ORaise => true
  | _, _ => false
  end.
(* k_each: the responses of the separate scalar calls, one per frequency;
   k_okind / k_vals: kind and content of the result of the single container call *)
Record kcase := KC { k_kind : ikind; k_each : list oresp; k_okind : okind; k_vals : list oresp }.
Definition corr_kind (c : kcase) : bool :=
  let m := elementwise (fun x : oresp => x) (k_kind c) (k_each c) in
  okind_eqb (k_okind c) (fst m) && list_eqb oresp_eqb (k_vals c) (snd m).
(* the text: applied per element; list, tuple, deque, Stream keep their kind, generators
   (and map objects) give generators; nothing is promised for a bare list iterator *)
Definition holds_kind (c : kcase) : bool :=
  match k_kind c with
  | IListIter => true
  | k =>
    okind_eqb (k_okind c)
      (match k with IScalar => OScalar | IList => OList | ITuple => OTuple | IDeque => ODeque
                  | IStream => OStream | _ => OGen end)
    && list_eqb oresp_eqb (k_vals c) (k_each c)
  end.

(* ---- dft ---- *)
Record dcase := DC { d_blk : list CQ; d_freqs : list CQ; d_norm : bool; d_obs : option (list CQ) }.
Definition corr_dft (c : dcase) : bool :=
  option_eqb (list_eqb cq_eqb) (d_obs c) (dft CQ_ops CQ_cx (d_blk c) (d_freqs c) (d_norm c)).
Definition holds_dft (c : dcase) : bool :=
  option_eqb (list_eqb cq_eqb) (d_obs c) (dft_spec CQ_ops CQ_cx (d_blk c) (d_freqs c) (d_norm c)).

(* ---- FIR filters in the time domain ----
   f_ys : output for the input e^{jwn}, n < f_len;  f_ir : output for the unit impulse of
   length f_ilen;  f_dft : dft(f_ir, [w], normalize=False).  None = an exception. *)
Record fcase := FC { f_b : list CQ; f_a : list CQ; f_u : CQ; f_len : nat; f_ilen : nat;
                     f_ys : option (list CQ); f_ir : option (list CQ); f_dft : option (list CQ) }.
Definition olist_eqb := option_eqb (list_eqb cq_eqb).
Definition corr_fir (c : fcase) : bool :=
  match lf_make CQ_ops (f_b c) (f_a c) with
  | None => olist_eqb (f_ys c) None && olist_eqb (f_ir c) None
  | Some f =>
    olist_eqb (f_ys c) (fir_run CQ_ops f (c0 CQ_ops) (cexp_input CQ_cx (f_u c) (f_len c)))
    && olist_eqb (f_ir c) (fir_run CQ_ops f (c0 CQ_ops) (impulse CQ_ops (f_ilen c)))
    && match f_ir c with
       | Some ir => olist_eqb (f_dft c) (dft CQ_ops CQ_cx ir [f_u c] false)
       | None => olist_eqb (f_dft c) None
       end
  end.
(* "memory full": from the index of the last non-zero numerator coefficient on *)
Fixpoint last_nz (k : nat) (l : list CQ) (acc : nat) : nat :=
  match l with
  | [] => acc
  | c :: r => last_nz (S k) r (if cq_eqb c (c0 CQ_ops) then acc else k)
  end.
Definition holds_fir (c : fcase) : bool :=
  match fr_spec CQ_ops CQ_cx (f_b c) (f_a c) (f_u c) with
  | Nan => true
  | Val h =>
    let ord := last_nz 0 (f_b c) 0 in
    let xs := cexp_input CQ_cx (f_u c) (f_len c) in
    match f_ys c with
    | None => true
    | Some ys =>
      Nat.eqb (length ys) (f_len c) &&
      forallb (fun n => cq_eqb (nth n ys (c0 CQ_ops)) (cmul CQ_ops h (nth n xs (c0 CQ_ops))))
              (seq ord (f_len c - ord))
    end
    && match f_dft c with
       | None => true
       | Some d => if Nat.ltb ord (f_ilen c) then list_eqb cq_eqb d [h] else true
       end
  end.

(* ---- nested cascades / parallel banks ---- *)
Record tcase := TC { t_e : @ftree CQ; t_u : CQ; t_obs : oresp }.
Definition corr_tree (c : tcase) : bool :=
  oresp_eqb (t_obs c) (oresp_of (tree_fr CQ_ops CQ_cx (t_e c) (t_u c))).
Definition holds_tree (c : tcase) : bool :=
  oresp_eqb (t_obs c) (oresp_of (tree_spec CQ_ops CQ_cx (t_e c) (t_u c))).

(* ---- histories on one LinearFilter object (calls and in-place edits) ---- *)
Definition resp_eqb (a b : resp CQ) : bool :=
  match a, b with Nan, Nan => true | Val x, Val y => cq_eqb x y | _, _ => false end.
Definition hobs_eqb (a b : @hobs CQ) : bool :=
  match a, b with
  | ORun x, ORun y => olist_eqb x y
  | OImp x d, OImp y e => olist_eqb x y && olist_eqb d e
  | OFr x, OFr y => resp_eqb x y
  | OEdit, OEdit => true
  | _, _ => false
  end.
(* h_b / h_a: the constructor arguments; h_ops: the history; h_obs: one observation per op *)
Record hcase := HC { h_b : list CQ; h_a : list CQ; h_u : CQ; h_ops : list (@hop CQ); h_obs : list (@hobs CQ) }.
Definition corr_hist (c : hcase) : bool :=
  match lf_make CQ_ops (h_b c) (h_a c) with
  | None => false
  | Some f => list_eqb hobs_eqb (h_obs c)
                (hist_run CQ_ops CQ_cx f (h_u c) (cexp_input CQ_cx (h_u c)) (impulse CQ_ops) (h_ops c))
  end.

(* the text, on the CURRENT contents of the object: freq_response is the ratio of the sums of
   the stored terms; the time domain agrees with it *)
Definition h_now (f : @lfilter CQ) (u : CQ) : resp CQ :=
  let d := psum CQ_ops CQ_cx (snd f) u in
  if cq_eqb d (c0 CQ_ops) then Nan else Val (cdiv CQ_ops (psum CQ_ops CQ_cx (fst f) u) d).
Definition max_pow (p : list (Z * CQ)) : Z := fold_left Z.max (map fst p) 0%Z.
Definition hop_holds (f : @lfilter CQ) (u : CQ) (o : @hop CQ) (ob : @hobs CQ) : bool :=
  match o, ob with
  | HRun len, ORun None => true
  | HRun len, ORun (Some ys) =>
      match h_now f u with
      | Nan => true
      | Val h =>
        let ord := Z.to_nat (max_pow (fst f)) in
        let xs := cexp_input CQ_cx u len in
        Nat.eqb (length ys) len &&
        forallb (fun n => cq_eqb (nth n ys (c0 CQ_ops)) (cmul CQ_ops h (nth n xs (c0 CQ_ops)))) (seq ord (len - ord))
      end
  | HImp L, OImp _ None => true
  | HImp L, OImp _ (Some d) =>
      match h_now f u with
      | Nan => true
      | Val h => if (max_pow (fst f) <? Z.of_nat L)%Z then list_eqb cq_eqb d [h] else true
      end
  | HFr, OFr r => resp_eqb r (h_now f u)
  | HSetNum _ _, OEdit | HSetDen _ _, OEdit | HNewNum _, OEdit => true
  | _, _ => false
  end.
Fixpoint hist_holds (f : @lfilter CQ) (u : CQ) (ops : list (@hop CQ)) (obs : list (@hobs CQ)) : bool :=
  match ops, obs with
  | [], [] => true
  | o :: r, ob :: s => hop_holds f u o ob && hist_holds (hop_edit CQ_ops f o) u r s
  | _, _ => false
  end.
Definition holds_hist (c : hcase) : bool :=
  match lf_make CQ_ops (h_b c) (h_a c) with
  | None => false
  | Some f => hist_holds f (h_u c) (h_ops c) (h_obs c)
  end.

(* ---- histories on one CascadeFilter / ParallelFilter object ---- *)
Inductive olobs := BLFr (r : oresp) | BLEdit | BLIndexError.
Definition lobs_eqb (a : olobs) (b : @lobs CQ) : bool :=
  match a, b with
  | BLFr x, OLFr y => oresp_eqb x (oresp_of y)
  | BLEdit, OLEdit => true
  | BLIndexError, OLIndexError => true
  | _, _ => false
  end.
Fixpoint list_eqb2 {A B : Type} (e : A -> B -> bool) (a : list A) (b : list B) : bool :=
  match a, b with
  | [], [] => true
  | x :: a', y :: b' => e x y && list_eqb2 e a' b'
  | _, _ => false
  end.
Record lcase := LC { l_cas : bool; l_items : list (@ftree CQ); l_u : CQ; l_ops : list (@lop CQ); l_obs : list olobs }.
Definition corr_lhist (c : lcase) : bool :=
  list_eqb2 lobs_eqb (l_obs c) (lhist_run CQ_ops CQ_cx (l_cas c) (l_items c) (l_u c) (l_ops c)).
Fixpoint lhist_holds (cas : bool) (l : list (@ftree CQ)) (u : CQ) (ops : list (@lop CQ)) (obs : list olobs) : bool :=
  match ops, obs with
  | [], [] => true
  | o :: r, ob :: s =>
    let (l', m) := lop_step CQ_ops CQ_cx cas l u o in
    match o, ob with
    | LFr, BLFr x => oresp_eqb x (oresp_of (tree_spec CQ_ops CQ_cx (if cas then TCas l else TPar l) u))
    | _, _ => lobs_eqb ob m
    end && lhist_holds cas l' u r s
  | _, _ => false
  end.
Definition holds_lhist (c : lcase) : bool := lhist_holds (l_cas c) (l_items c) (l_u c) (l_ops c) (l_obs c).

(* ---- several dft calls sharing their frequency objects ---- *)
Record dhcase := DH { dh_freqs : list CQ; dh_calls : list (list CQ * bool * option (list CQ)) }.
Definition corr_dhist (c : dhcase) : bool :=
  forallb (fun x => match x with (blk, norm, ob) =>
             option_eqb (list_eqb cq_eqb) ob (dft CQ_ops CQ_cx blk (dh_freqs c) norm) end) (dh_calls c).
Definition holds_dhist (c : dhcase) : bool :=
  forallb (fun x => match x with (blk, norm, ob) =>
             option_eqb (list_eqb cq_eqb) ob (dft_spec CQ_ops CQ_cx blk (dh_freqs c) norm) end) (dh_calls c).
