(* C12 - the copy of Poly(list) / __getitem__ / Poly.__call__ carried by C12.Model (generic over
   [cops T]) is, at T = Qc, the same function as the model of C07 (the one tied to the real Poly by
   C07's correspondence).  Only C12.Model is imported; C07 names are written qualified. *)
From Coq Require Import List Bool ZArith QArith Qcanon Lia Sorted.
From AL Require Import Base.CaseLib C12.Model.
From AL Require C07.Model C07.Spec C07.Lib C07.Proofs_Ring.
Import ListNotations.
Open Scope Qc_scope.

Notation P7 := AL.C07.Model.poly.

(* ---------------- value ** n ---------------- *)
Lemma cpow_qpow v n : cpow Qc_ops v n = C07.Model.qpow v (Z.of_nat n).
Proof.
  induction n as [|n IH].
  - simpl. symmetry. apply C07.Lib.qpow_0_r.
  - cbn [cpow]. rewrite IH. replace (Z.of_nat (S n)) with (Z.of_nat n + 1)%Z by lia.
    rewrite C07.Lib.qpow_succ by lia. simpl. ring.
Qed.

Lemma cpowz_qpow v n : cpowz Qc_ops v n = C07.Model.qpow v n.
Proof.
  unfold cpowz. destruct (n <? 0)%Z eqn:E.
  - apply Z.ltb_lt in E. rewrite cpow_qpow. replace (Z.of_nat (Z.to_nat (- n))) with (- n)%Z by lia.
    simpl cinv. destruct (Qc_eq_dec v 0) as [->|Hv].
    + rewrite !C07.Lib.qpow_0_l by lia. reflexivity.
    + pose proof (C07.Lib.qpow_nz v (- n) Hv) as Hnz.
      pose proof (C07.Lib.qpow_add v (- n) n Hv) as H.
      replace (- n + n)%Z with 0%Z in H by lia. rewrite C07.Lib.qpow_0_r in H.
      transitivity (/ C07.Model.qpow v (- n) * (C07.Model.qpow v (- n) * C07.Model.qpow v n)).
      * rewrite <- H. ring.
      * field. exact Hnz.
  - apply Z.ltb_ge in E. rewrite cpow_qpow. f_equal. lia.
Qed.

(* ---------------- Poly(list): compaction ---------------- *)
Definition nzb (e : Z * Qc) : bool := negb (Qc_eqb (snd e) 0).
Notation keys := AL.C07.Spec.keys.

Lemma od_del_notin (d : P7) k : ~ In k (keys d) -> C07.Model.od_del d k = d.
Proof.
  unfold C07.Model.od_del. induction d as [|[m c] d IH]; simpl; intro H; [reflexivity|].
  destruct (m =? k)%Z eqn:E.
  - apply Z.eqb_eq in E. exfalso. apply H. left. exact E.
  - simpl. rewrite IH; [reflexivity|]. intro Hin. apply H. right. exact Hin.
Qed.

Lemma od_del_mid (pre r : P7) k v : ~ In k (keys pre) -> ~ In k (keys r) ->
  C07.Model.od_del (pre ++ (k, v) :: r) k = pre ++ r.
Proof.
  intros H1 H2. unfold C07.Model.od_del. rewrite filter_app. simpl. rewrite Z.eqb_refl. simpl.
  fold (C07.Model.od_del pre k). fold (C07.Model.od_del r k).
  rewrite (od_del_notin pre k H1), (od_del_notin r k H2). reflexivity.
Qed.

Lemma compact_loop_filter (s : P7) : forall pre, NoDup (keys (pre ++ s)) ->
  C07.Model.compact_loop (map (fun e => (fst e, false, snd e)) s) (pre ++ s) = pre ++ filter nzb s.
Proof.
  induction s as [|[k v] r IH]; intros pre Hnd; simpl; [reflexivity|].
  unfold keys in Hnd. rewrite map_app in Hnd. simpl in Hnd.
  assert (Hk : ~ In k (keys pre) /\ ~ In k (keys r)).
  { apply NoDup_remove_2 in Hnd. split; intro H; apply Hnd; apply in_or_app; [left|right]; exact H. }
  unfold nzb at 1. simpl. destruct (Qc_eqb v 0) eqn:E; simpl.
  - rewrite (od_del_mid pre r k v (proj1 Hk) (proj2 Hk)). apply IH.
    unfold keys. rewrite map_app. apply NoDup_remove_1 in Hnd. exact Hnd.
  - replace (pre ++ (k, v) :: r) with ((pre ++ [(k, v)]) ++ r) by (rewrite <- app_assoc; reflexivity).
    rewrite IH.
    + rewrite <- app_assoc. reflexivity.
    + unfold keys. rewrite !map_app. simpl. rewrite <- app_assoc. exact Hnd.
Qed.

Lemma compact_filter (d : P7) : NoDup (keys d) -> C07.Model.compact d = filter nzb d.
Proof. intro H. exact (compact_loop_filter d [] H). Qed.

Lemma combine_enum (l : list Qc) : forall s,
  combine (map Z.of_nat (seq s (length l))) l = enum_from (Z.of_nat s) l.
Proof.
  induction l as [|c l IH]; intro s; simpl; [reflexivity|].
  rewrite IH. do 2 f_equal. lia.
Qed.

Lemma enum_keys_ge (l : list Qc) : forall k0 k, In k (keys (enum_from k0 l)) -> (k0 <= k)%Z.
Proof.
  induction l as [|c l IH]; intros k0 k H; simpl in H; [contradiction|].
  destruct H as [<-|H]; [lia|]. apply IH in H. lia.
Qed.

Lemma enum_keys_nodup (l : list Qc) : forall k0, NoDup (keys (enum_from k0 l)).
Proof.
  induction l as [|c l IH]; intro k0; simpl; constructor; [|apply IH].
  intro H. apply enum_keys_ge in H. lia.
Qed.

(* Poly([a0, a1, ...]) is the same list of (power, coefficient) items in both models *)
Theorem poly_of_list_c07 (l : list Qc) : poly_of_list Qc_ops l = C07.Model.poly_of_list l.
Proof.
  unfold C07.Model.poly_of_list, C07.Model.mk, poly_of_list.
  rewrite (combine_enum l 0). simpl Z.of_nat.
  rewrite (C07.Proofs_Ring.od_of_pairs_id _ (enum_keys_nodup l 0)).
  rewrite (compact_filter _ (enum_keys_nodup l 0)). reflexivity.
Qed.

(* Poly.__getitem__ *)
Theorem pget_c07 (p : P7) k : pget Qc_ops p k = C07.Model.coefn p k.
Proof.
  unfold pget, C07.Model.coefn. induction p as [|[m c] p IH]; simpl; [reflexivity|].
  destruct (m =? k)%Z; [reflexivity|exact IH].
Qed.

(* ---------------- Poly.__call__ ---------------- *)
(* C12 keeps the items in ascending power order (what terms() yields); C07 keeps the insertion
   order and sorts inside __call__.  On ascending lists the sorts are the identity / the reversal. *)
Definition asc (p : P7) : Prop := StronglySorted (fun a b => (fst a < fst b)%Z) p.

Lemma sort_asc_id p : asc p -> C07.Model.sort_asc p = p.
Proof.
  unfold C07.Model.sort_asc, C07.Model.sort_by. induction 1 as [|e r Hs IH Hall]; simpl; [reflexivity|].
  rewrite IH. destruct r as [|h t]; simpl; [reflexivity|].
  inversion Hall as [|? ? Hlt _]; subst.
  assert (E : (fst e <=? fst h)%Z = true) by (apply Z.leb_le; lia). rewrite E. reflexivity.
Qed.

Lemma insert_desc_end e (l : P7) : Forall (fun x => (fst e < fst x)%Z) l ->
  C07.Model.insert_by Z.geb e l = l ++ [e].
Proof.
  induction 1 as [|h t Hlt _ IH]; simpl; [reflexivity|].
  assert (E : (fst e >=? fst h)%Z = false) by (rewrite Z.geb_leb; apply Z.leb_gt; lia). rewrite E, IH. reflexivity.
Qed.

Lemma sort_desc_rev p : asc p -> C07.Model.sort_desc p = rev p.
Proof.
  unfold C07.Model.sort_desc, C07.Model.sort_by. induction 1 as [|e r Hs IH Hall]; simpl; [reflexivity|].
  rewrite IH. apply insert_desc_end. apply Forall_rev. exact Hall.
Qed.

Lemma horner_step_c07 v old new : horner_step Qc_ops v old new = C07.Model.horner_step v old new.
Proof. destruct old, new. simpl. rewrite cpowz_qpow. reflexivity. Qed.

Lemma fold_ext2 {A B} (f g : A -> B -> A) l : (forall a b, f a b = g a b) -> forall a, fold_left f l a = fold_left g l a.
Proof. intro H. induction l as [|b l IH]; intro a; simpl; [reflexivity|]. rewrite H. apply IH. Qed.

(* the evaluation: same special cases, same Horner steps with merged powers, same general sum *)
Theorem peval_c07 p v : asc p -> peval Qc_ops p v = C07.Model.peval C07.Model.HAuto p v.
Proof.
  intro Ha. unfold peval, C07.Model.peval. destruct p as [|e p]; [reflexivity|].
  simpl ceqb. simpl c0. destruct (Qc_eqb v 0); [apply pget_c07|].
  change (is_polynomial (e :: p)) with (C07.Model.is_polynomial (e :: p)).
  destruct (C07.Model.is_polynomial (e :: p)).
  - unfold C07.Model.peval_horner. rewrite (sort_desc_rev _ Ha).
    destruct (rev (e :: p)) as [|h t]; [reflexivity|].
    rewrite (fold_ext2 _ _ t (horner_step_c07 v)).
    destruct (fold_left (C07.Model.horner_step v) t h) as [lp r]. rewrite cpowz_qpow. reflexivity.
  - unfold C07.Model.peval_direct. rewrite (sort_asc_id _ Ha).
    apply fold_ext2. intros a b. rewrite cpowz_qpow. reflexivity.
Qed.

Lemma asc_enum_filter (f : Z * Qc -> bool) (l : list Qc) : forall k0, asc (filter f (enum_from k0 l)).
Proof.
  induction l as [|c l IH]; intro k0; simpl; [constructor|].
  assert (Hall : Forall (fun x => (fst (k0, c) < fst x)%Z) (filter f (enum_from (k0 + 1) l))).
  { apply Forall_forall. intros x Hx. apply filter_In in Hx as [Hx _].
    assert (Hk : In (fst x) (keys (enum_from (k0 + 1) l))) by (apply in_map; exact Hx).
    apply enum_keys_ge in Hk. simpl. lia. }
  destruct (f (k0, c)); [constructor; [apply IH|exact Hall]|apply IH].
Qed.

Lemma asc_poly_of_list l : asc (poly_of_list Qc_ops l).
Proof. apply asc_enum_filter. Qed.

Lemma asc_shift s p : asc p -> asc (poly_shift Qc_ops s p).
Proof.
  unfold poly_shift. induction 1 as [|e r Hs IH Hall]; simpl; constructor; [exact IH|].
  apply Forall_forall. intros x Hx. apply in_map_iff in Hx as (y & <- & Hy).
  rewrite Forall_forall in Hall. specialize (Hall y Hy). simpl. lia.
Qed.

(* Poly(l)(v): the two models are the same function of the coefficient list and the value *)
Theorem eval_scheme_is_c07 l v :
  peval Qc_ops (poly_of_list Qc_ops l) v = C07.Model.peval C07.Model.HAuto (C07.Model.poly_of_list l) v.
Proof. rewrite <- poly_of_list_c07. apply peval_c07, asc_poly_of_list. Qed.

(* ... also for the polynomials a LinearFilter stores after its power normalisation (Laurent path) *)
Theorem eval_scheme_is_c07_filter b a f v : lf_make Qc_ops b a = Some f ->
  peval Qc_ops (fst f) v = C07.Model.peval C07.Model.HAuto (fst f) v /\
  peval Qc_ops (snd f) v = C07.Model.peval C07.Model.HAuto (snd f) v.
Proof.
  unfold lf_make. destruct (min_power (poly_of_list Qc_ops a)) as [s|]; [|discriminate].
  destruct (s =? 0)%Z; intro H; injection H as <-; simpl; split; apply peval_c07;
    try apply asc_shift; apply asc_poly_of_list.
Qed.
