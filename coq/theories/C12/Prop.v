(* C12 - the proved statements; every proof is [exact] on a lemma of Proofs.v / ProofsR.v.
   Numbers are complex numbers C = R * R (Coquelicot), cis t = (cos t, sin t),
   tfsum l w = sum_k l[k] * cis (-(k w))  (C12_tfsum_unfold),
   fr b a w  = the model of LinearFilter(b, a).freq_response(w): Poly construction with zero
   compaction, power normalisation, Horner-like evaluation with merged steps at
   complex_exp(-1j*w) = cis (-w), nan test, division.
   The theorems hold for all coefficient lists (complex coefficients, any length) and all real
   frequencies.  The same statements are proved generically over any field with an
   exponential family cx (Proofs.v); the Gaussian-rational instance is the one evaluated
   against the implementation. *)
From Coq Require Import Reals List ZArith Bool.
From Coquelicot Require Import Complex.
From AL Require Import Base.CaseLib C12.Model C12.Spec C12.ModelR C12.Check C12.Proofs C12.ProofsT C12.ProofsH C12.ProofsR C12.ProofsQ C12.ProofsC07 C12.ProofsC04.
From AL Require C07.Model C04.Model.
Import ListNotations.

(* the sums of the statement, spelled out *)
Theorem C12_tfsum_unfold : forall c l w k,
  tsum_from CR_ops CR_cx k (c :: l) w
  = Cplus (Cmult c (cis (- (IZR k * w)))) (tsum_from CR_ops CR_cx (k + 1) l w)
  /\ tsum_from CR_ops CR_cx k [] w = RtoC 0
  /\ tfsum l w = tsum_from CR_ops CR_cx 0 l w.
Proof. intros. repeat split. Qed.
Print Assumptions C12_tfsum_unfold.

Theorem C12_cis_pow : forall t n, cpow CR_ops (cis t) n = cis (INR n * t).
Proof. exact cis_pow. Qed.
Print Assumptions C12_cis_pow.

(* Poly.__call__ at e^{-jw} (Horner-like scheme with merged steps for polynomials, general sum of
   powers for Laurent polynomials) equals the direct sum of the stored terms *)
Theorem C12_horner_eq_direct_sum : forall p w, peval CR_ops p (cis (- w)) = psum CR_ops CR_cx p w.
Proof. exact horner_eq_direct_sum. Qed.
Print Assumptions C12_horner_eq_direct_sum.

(* freq_response(w) = sum_k b[k]e^{-jwk} / sum_k a[k]e^{-jwk}, nan where the denominator sum
   vanishes; constructing the filter fails (ValueError) exactly for an all-zero denominator *)
Theorem C12_fr_formula : forall b a w,
  fr b a w = if all_zero CR_ops a then None
             else Some (if Ceqb (tfsum a w) (RtoC 0) then Nan else Val (Cdiv (tfsum b w) (tfsum a w))).
Proof. exact fr_formula. Qed.
Print Assumptions C12_fr_formula.

Theorem C12_fr_value : forall b a w,
  tfsum a w <> RtoC 0 -> fr b a w = Some (Val (Cdiv (tfsum b w) (tfsum a w))).
Proof. exact fr_value. Qed.
Print Assumptions C12_fr_value.

Theorem C12_fr_nan_iff_den_zero : forall b a w,
  fr b a w = Some Nan <-> (all_zero CR_ops a = false /\ tfsum a w = RtoC 0).
Proof. exact fr_nan_iff_den_zero. Qed.
Print Assumptions C12_fr_nan_iff_den_zero.

Theorem C12_fr_error_iff : forall b a w,
  (fr b a w = None <-> all_zero CR_ops a = true) /\
  (all_zero CR_ops a = true <-> Forall (fun c => c = RtoC 0) a).
Proof. intros b a w. split; [exact (fr_none_iff b a w)|exact (all_zero_Forall a)]. Qed.
Print Assumptions C12_fr_error_iff.

(* single filters, cascades and parallel banks: the model equals the specification
   (ratio of sums; product / sum of the section ratios, nan absorbing; errors) *)
Theorem C12_freq_response_model_eq_spec : forall e w,
  fexpr_fr CR_ops CR_cx e w = fexpr_spec CR_ops CR_cx e w.
Proof. exact R_fexpr_fr_eq_spec. Qed.
Print Assumptions C12_freq_response_model_eq_spec.

Theorem C12_cascade_fr_product : forall secs w, secs <> [] ->
  (forall s, In s secs -> tfsum (snd s) w <> RtoC 0) ->
  fexpr_fr CR_ops CR_cx (FCascade secs) w
  = Some (Val (fold_right Cmult (RtoC 1) (map (fun s => Cdiv (tfsum (fst s) w) (tfsum (snd s) w)) secs))).
Proof. exact R_cascade_fr_product. Qed.
Print Assumptions C12_cascade_fr_product.

Theorem C12_parallel_fr_sum : forall secs w, secs <> [] ->
  (forall s, In s secs -> tfsum (snd s) w <> RtoC 0) ->
  fexpr_fr CR_ops CR_cx (FParallel secs) w
  = Some (Val (fold_right Cplus (RtoC 0) (map (fun s => Cdiv (tfsum (fst s) w) (tfsum (snd s) w)) secs))).
Proof. exact R_parallel_fr_sum. Qed.
Print Assumptions C12_parallel_fr_sum.

Theorem C12_cascade_parallel_nan : forall secs w s,
  constructible CR_ops secs = true -> In s secs -> tfsum (snd s) w = RtoC 0 ->
  fexpr_fr CR_ops CR_cx (FCascade secs) w = Some Nan /\
  fexpr_fr CR_ops CR_cx (FParallel secs) w = Some Nan.
Proof. exact R_cascade_parallel_nan. Qed.
Print Assumptions C12_cascade_parallel_nan.

(* containers of frequencies: applied per element, the container kind is kept
   (generators and map objects give generators) *)
Theorem C12_fr_elementwise : forall (f : R -> option (resp C)) k ws, k <> IListIter ->
  elementwise f k ws =
  (match k with IScalar => OScalar | IList => OList | ITuple => OTuple | IDeque => ODeque
              | IStream => OStream | _ => OGen end, map f ws).
Proof. exact (@elementwise_spec R (option (resp C))). Qed.
Print Assumptions C12_fr_elementwise.

(* dft is the defining sum *)
Theorem C12_dft_is_sum : forall blk freqs,
  dft CR_ops CR_cx blk freqs false = Some (map (tfsum blk) freqs) /\
  (blk <> [] -> dft CR_ops CR_cx blk freqs true
                = Some (map (fun w => Cdiv (tfsum blk w) (RtoC (IZR (Z.of_nat (length blk))))) freqs)) /\
  forall norm, dft CR_ops CR_cx blk freqs norm = dft_spec CR_ops CR_cx blk freqs norm.
Proof.
  intros blk freqs.
  exact (conj (dft_unnormalised blk freqs) (conj (dft_normalised blk freqs) (R_dft_eq_spec blk freqs))).
Qed.
Print Assumptions C12_dft_is_sum.

(* ... linear in the block *)
Theorem C12_dft_linear : forall al be xs ys freqs norm, length xs = length ys ->
  dft CR_ops CR_cx (lincomb CR_ops al be xs ys) freqs norm
  = match dft CR_ops CR_cx xs freqs norm, dft CR_ops CR_cx ys freqs norm with
    | Some X, Some Y => Some (lincomb CR_ops al be X Y)
    | _, _ => None
    end.
Proof. exact R_dft_linear. Qed.
Print Assumptions C12_dft_linear.

(* ... and the DC bin of the normalised form is the block mean *)
Theorem C12_dft_dc_is_mean : forall blk, blk <> [] ->
  dft CR_ops CR_cx blk [0%R] true = Some [mean CR_ops blk].
Proof. exact dft_dc_is_mean_R. Qed.
Print Assumptions C12_dft_dc_is_mean.

(* the unnormalised DFT of a FIR filter's impulse response at w equals freq_response(w) *)
Theorem C12_fir_dft_impulse_eq_fr : forall b a f w L ir h,
  lf_make CR_ops b a = Some f ->
  fir_run CR_ops f (RtoC 0) (impulse CR_ops L) = Some ir ->
  fr b a w = Some (Val h) ->
  (length b <= L)%nat ->
  dft CR_ops CR_cx ir [w] false = Some [h].
Proof. exact fir_dft_impulse_eq_fr_R. Qed.
Print Assumptions C12_fir_dft_impulse_eq_fr.

(* a complex exponential of frequency w through a FIR filter is scaled by freq_response(w)
   once the filter memory is full (n >= order) *)
Theorem C12_fir_steady_state : forall b a f w zero len ys h n,
  lf_make CR_ops b a = Some f ->
  fir_run CR_ops f zero (map (fun n => cis (w * INR n)) (seq 0 len)) = Some ys ->
  fr b a w = Some (Val h) ->
  all_zero CR_ops b = false \/ zero = RtoC 0 ->
  (length b - 1 <= n)%nat -> (n < len)%nat ->
  nth n ys zero = Cmult h (cis (w * INR n)).
Proof. exact fir_steady_state_R. Qed.
Print Assumptions C12_fir_steady_state.

(* the real formulas of the enclosure goals are the real and imaginary parts of the
   specification for real coefficient lists *)
Theorem C12_enclosure_formulas : forall b a x w,
  Cdiv (tfsum (map RtoC b) w) (tfsum (map RtoC a) w) = (spec_re b a w, spec_im b a w) /\
  tfsum (map RtoC x) w = spec_dft x w.
Proof. intros b a x w. exact (conj (spec_c_correct b a w) (spec_dft_correct x w)). Qed.
Print Assumptions C12_enclosure_formulas.

(* the executable instance (Gaussian rationals, frequencies as non-zero points u, |u| = 1 in the
   harness) satisfies the same theorem: what corr_fr / corr_dft compare with the implementation
   is provably what holds_fr / holds_dft compare *)
Theorem C12_exact_instance_model_eq_spec : forall e (u : CQ), u <> c0 CQ_ops ->
  fexpr_fr CQ_ops CQ_cx e u = fexpr_spec CQ_ops CQ_cx e u.
Proof. exact CQ_fexpr_fr_eq_spec. Qed.
Print Assumptions C12_exact_instance_model_eq_spec.

Theorem C12_exact_instance_dft : forall blk freqs norm,
  dft CQ_ops CQ_cx blk freqs norm = dft_spec CQ_ops CQ_cx blk freqs norm.
Proof. exact CQ_dft_eq_spec. Qed.
Print Assumptions C12_exact_instance_dft.

(* nested filter lists (a stage is a LinearFilter, a cascade or a parallel bank, any depth):
   the recursive freq_response equals the specification - the response of a cascade is the
   product of its stages' responses, of a bank the sum of its branches', nan absorbing, an
   exception anywhere below propagating *)
Theorem C12_nested_model_eq_spec : forall t w, tree_fr CR_ops CR_cx t w = tree_spec CR_ops CR_cx t w.
Proof. exact R_tree_fr_eq_spec. Qed.
Print Assumptions C12_nested_model_eq_spec.

(* in numbers: no empty list, no vanishing denominator -> multiply over cascades, add over banks *)
Theorem C12_nested_fr_value : forall t w, tree_ok CR_ops CR_cx t w ->
  tree_fr CR_ops CR_cx t w = Some (Val (tree_tf CR_ops CR_cx t w)).
Proof. exact R_tree_fr_value. Qed.
Print Assumptions C12_nested_fr_value.

Theorem C12_nested_tf_unfold : forall l b a w,
  tree_tf CR_ops CR_cx (TCas l) w = fold_right Cmult (RtoC 1) (map (fun s => tree_tf CR_ops CR_cx s w) l) /\
  tree_tf CR_ops CR_cx (TPar l) w = fold_right Cplus (RtoC 0) (map (fun s => tree_tf CR_ops CR_cx s w) l) /\
  tree_tf CR_ops CR_cx (TLin b a) w = Cdiv (tfsum b w) (tfsum a w).
Proof. intros. repeat split. Qed.
Print Assumptions C12_nested_tf_unfold.

(* a cascade inside a cascade (bank inside a bank) has the value of the flat list *)
Theorem C12_same_kind_nesting_flattens : forall pre inner post w,
  tree_tf CR_ops CR_cx (TCas (pre ++ TCas inner :: post)) w = tree_tf CR_ops CR_cx (TCas (pre ++ inner ++ post)) w /\
  tree_tf CR_ops CR_cx (TPar (pre ++ TPar inner :: post)) w = tree_tf CR_ops CR_cx (TPar (pre ++ inner ++ post)) w.
Proof. exact R_same_kind_nesting_flattens. Qed.
Print Assumptions C12_same_kind_nesting_flattens.

Theorem C12_nested_enclosure_formula : forall t w, tree_tf CR_ops CR_cx (rtree_inj t) w = spec_tree t w.
Proof. exact spec_tree_correct. Qed.
Print Assumptions C12_nested_enclosure_formula.

Theorem C12_exact_instance_nested : forall t (u : CQ), u <> c0 CQ_ops ->
  tree_fr CQ_ops CQ_cx t u = tree_spec CQ_ops CQ_cx t u.
Proof. exact CQ_tree_fr_eq_spec. Qed.
Print Assumptions C12_exact_instance_nested.

(* mixed nesting is not dissolved: (1 || 1) -> 1 is 2, not 1 * 1 * 1 *)
Example C12_example_mixed_nesting :
  oresp_of (tree_fr CQ_ops CQ_cx (TCas [TPar [TLin [cq 1 1 0 1] [cq 1 1 0 1]; TLin [cq 1 1 0 1] [cq 1 1 0 1]];
                                        TLin [cq 1 1 0 1] [cq 1 1 0 1]]) (cq 3 5 4 5))
  = OVal (cq 2 1 0 1).
Proof. vm_compute. reflexivity. Qed.
Print Assumptions C12_example_mixed_nesting.

(* the same agreement on the CURRENT contents of a filter object, whatever its stored
   polynomials are (e.g. after filt.numpoly[k] = v): freq_response is the ratio of the sums of the
   stored terms, the dft of the impulse response equals it, a complex exponential is scaled by it *)
Theorem C12_fr_of_current_object : forall f w,
  lf_fr CR_ops CR_cx f w
  = if Ceqb (psum CR_ops CR_cx (snd f) w) (RtoC 0) then Nan
    else Val (Cdiv (psum CR_ops CR_cx (fst f) w) (psum CR_ops CR_cx (snd f) w)).
Proof. exact R_lf_fr_now. Qed.
Print Assumptions C12_fr_of_current_object.

Theorem C12_fir_dft_impulse_of_current_object : forall f w L ir,
  fir_run CR_ops f (RtoC 0) (impulse CR_ops L) = Some ir ->
  psum CR_ops CR_cx (snd f) w <> RtoC 0 ->
  (forall kc, In kc (fst f) -> (fst kc < Z.of_nat L)%Z) ->
  dft CR_ops CR_cx ir [w] false = Some [Cdiv (psum CR_ops CR_cx (fst f) w) (psum CR_ops CR_cx (snd f) w)].
Proof. exact R_fir_dft_impulse_now. Qed.
Print Assumptions C12_fir_dft_impulse_of_current_object.

Theorem C12_fir_steady_state_of_current_object : forall f w zero len ys n,
  fir_run CR_ops f zero (map (fun n => cis (w * INR n)) (seq 0 len)) = Some ys ->
  psum CR_ops CR_cx (snd f) w <> RtoC 0 ->
  fst f <> [] \/ zero = RtoC 0 ->
  (forall kc, In kc (fst f) -> (fst kc <= Z.of_nat n)%Z) -> (n < len)%nat ->
  nth n ys zero = Cmult (Cdiv (psum CR_ops CR_cx (fst f) w) (psum CR_ops CR_cx (snd f) w)) (cis (w * INR n)).
Proof. exact fir_steady_state_now_R. Qed.
Print Assumptions C12_fir_steady_state_of_current_object.

(* histories on one object: the i-th observation is the per-call model applied to the object
   as the edits before it left it - calls leave no trace *)
Theorem C12_hist_calls_independent : forall w xs imp ops f i o,
  nth_error ops i = Some o ->
  nth_error (hist_run CR_ops CR_cx f w xs imp ops) i
  = Some (hop_obs CR_ops CR_cx
            (fold_left (hop_edit CR_ops) (filter (fun o => negb (is_call o)) (firstn i ops)) f) w xs imp o).
Proof. exact R_hist_calls_independent. Qed.
Print Assumptions C12_hist_calls_independent.

(* ---- the tie between models: on rationals (the instance Qc_ops of the generic model) ---- *)
(* Poly([a0, a1, ...])(v): the evaluation scheme of C12.Model (empty polynomial, x = 0, Horner with
   merged steps, general sum of powers) is the same function as C07.Model.peval, the model that C07's
   correspondence ties to the real Poly *)
Theorem C12_eval_scheme_is_c07 : forall l v,
  peval Qc_ops (poly_of_list Qc_ops l) v
  = AL.C07.Model.peval AL.C07.Model.HAuto (AL.C07.Model.poly_of_list l) v.
Proof. exact eval_scheme_is_c07. Qed.
Print Assumptions C12_eval_scheme_is_c07.

(* construction from a list (zero compaction), __getitem__ and value ** int agree as well *)
Theorem C12_poly_functions_are_c07 :
  (forall l, poly_of_list Qc_ops l = AL.C07.Model.poly_of_list l) /\
  (forall p k, pget Qc_ops p k = AL.C07.Model.coefn p k) /\
  (forall v n, cpowz Qc_ops v n = AL.C07.Model.qpow v n).
Proof. exact (conj poly_of_list_c07 (conj pget_c07 cpowz_qpow)). Qed.
Print Assumptions C12_poly_functions_are_c07.

(* ... and on the polynomials a LinearFilter stores after its power normalisation *)
Theorem C12_eval_scheme_is_c07_filter : forall b a f v, lf_make Qc_ops b a = Some f ->
  peval Qc_ops (fst f) v = AL.C07.Model.peval AL.C07.Model.HAuto (fst f) v /\
  peval Qc_ops (snd f) v = AL.C07.Model.peval AL.C07.Model.HAuto (snd f) v.
Proof. exact eval_scheme_is_c07_filter. Qed.
Print Assumptions C12_eval_scheme_is_c07_filter.

(* list(ZFilter(b, [a0])(xs, zero=zero)): the FIR run of C12.Model is C04.Model.run_filter (code generator
   + interpreter of the generated program); an all-zero denominator gives no filter in either model *)
Theorem C12_fir_run_is_c04 : forall b a0 zero xs,
  (a0 <> c0 Qc_ops -> exists f ys, lf_make Qc_ops b [a0] = Some f /\ fir_run Qc_ops f zero xs = Some ys /\
     AL.C04.Model.run_filter b [a0] AL.C04.Model.MNone zero xs = AL.C04.Model.Ok ys) /\
  (lf_make Qc_ops b [c0 Qc_ops] = None /\
   AL.C04.Model.run_filter b [c0 Qc_ops] AL.C04.Model.MNone zero xs = AL.C04.Model.Err AL.C04.Model.EmptyDen).
Proof. intros b a0 zero xs. exact (conj (fir_run_is_c04 b a0 zero xs) (fir_zero_den_is_c04 b zero xs)). Qed.
Print Assumptions C12_fir_run_is_c04.

(* non-vacuity: 1 + z^-1 satisfies every hypothesis above at every frequency *)
Example C12_example_nonvacuous : forall w, exists f ys h,
  lf_make CR_ops [RtoC 1; RtoC 1] [RtoC 1] = Some f /\
  fir_run CR_ops f (RtoC 0) (map (fun n => cis (w * INR n)) (seq 0 8)) = Some ys /\
  fr [RtoC 1; RtoC 1] [RtoC 1] w = Some (Val h) /\
  nth 5 ys (RtoC 0) = Cmult h (cis (w * INR 5)).
Proof. exact example_nonvacuous. Qed.
Print Assumptions C12_example_nonvacuous.

(* the executable instance: (1 + z^-1) / (2 z^-1 + z^-2) at e^{jw} = (3 + 4j)/5, and the nan of
   1 / (1 - z^-1) at w = 0, both as the implementation returns them *)
Example C12_example_exact :
  corr_fr (FRC (FSingle [cq 1 1 0 1; cq 1 1 0 1] [cq 0 1 0 1; cq 2 1 0 1; cq 1 1 0 1]) (cq 3 5 4 5)
               (OVal (cq 88 185 84 185))) = true /\
  holds_fr (FRC (FSingle [cq 1 1 0 1] [cq 1 1 0 1; cq (-1) 1 0 1]) (cq 1 1 0 1) ONan) = true.
Proof. split; vm_compute; reflexivity. Qed.
Print Assumptions C12_example_exact.
