(* C12 - the generic proofs instantiated on C = R * R, and the real formulas of the
   enclosure goals tied to the complex specification. *)
From Coq Require Import Reals List ZArith Lia Lra.
From Coquelicot Require Import Complex.
From AL Require Import C12.Model C12.Spec C12.ModelR C12.Proofs C12.ProofsT C12.ProofsH.
Import ListNotations.
Open Scope R_scope.

Lemma Ceqb_spec (x y : C) : Ceqb x y = true <-> x = y.
Proof. unfold Ceqb. destruct (Ceq_dec x y); split; congruence. Qed.

Lemma CR_field : field_theory (c0 CR_ops) (c1 CR_ops) (cadd CR_ops) (cmul CR_ops) (csub CR_ops)
                              (copp CR_ops) (cdiv CR_ops) (cinv CR_ops) eq.
Proof. exact C_field_theory. Qed.

Lemma CR_cx_0 w : CR_cx 0 w = c1 CR_ops.
Proof. unfold CR_cx, cis. simpl. rewrite Rmult_0_l, Ropp_0, cos_0, sin_0. reflexivity. Qed.

Lemma cis_plus s t : cis (s + t) = Cmult (cis s) (cis t).
Proof. unfold cis, Cmult. simpl. rewrite cos_plus, sin_plus. f_equal. ring. Qed.

Lemma CR_cx_add n m w : CR_cx (n + m) w = cmul CR_ops (CR_cx n w) (CR_cx m w).
Proof.
  unfold CR_cx. simpl. rewrite <- cis_plus. f_equal. rewrite plus_IZR. ring.
Qed.

(* cis t ^ n = cis (n t) *)
Lemma cis_pow t n : cpow CR_ops (cis t) n = cis (INR n * t).
Proof.
  induction n as [|n IH].
  - simpl. unfold cis. rewrite Rmult_0_l, cos_0, sin_0. reflexivity.
  - cbn [cpow]. rewrite IH. simpl cmul. rewrite <- cis_plus. f_equal. rewrite S_INR. ring.
Qed.

Lemma CR_cx_1 w : CR_cx 1 w = cis (- w).
Proof. unfold CR_cx. f_equal. ring. Qed.

Lemma CR_cx_neg n w : CR_cx (- Z.of_nat n) w = cis (w * INR n).
Proof. unfold CR_cx. f_equal. rewrite opp_IZR, <- INR_IZR_INZ. ring. Qed.

Lemma CR_cx_dc n : CR_cx n 0 = c1 CR_ops.
Proof. unfold CR_cx, cis. rewrite Rmult_0_r, Ropp_0, cos_0, sin_0. reflexivity. Qed.

(* ---- instances of the generic theorems ---- *)
Definition R_peval_psum := peval_psum CR_ops CR_cx CR_field Ceqb_spec CR_cx_0 CR_cx_add.
Definition R_lf_make_none := lf_make_none CR_ops.
Definition R_lf_fr_spec := lf_fr_spec CR_ops CR_cx CR_field Ceqb_spec CR_cx_0 CR_cx_add.
Definition R_fexpr_fr_eq_spec := fexpr_fr_eq_spec CR_ops CR_cx CR_field Ceqb_spec CR_cx_0 CR_cx_add.
Definition R_fr_spec_nan_iff := fr_spec_nan_iff CR_ops CR_cx Ceqb_spec.
Definition R_cascade_fr_product := cascade_fr_product CR_ops CR_cx CR_field Ceqb_spec CR_cx_0 CR_cx_add.
Definition R_parallel_fr_sum := parallel_fr_sum CR_ops CR_cx CR_field Ceqb_spec CR_cx_0 CR_cx_add.
Definition R_cascade_parallel_nan := cascade_parallel_nan CR_ops CR_cx CR_field Ceqb_spec CR_cx_0 CR_cx_add.
Definition R_dft_eq_spec := dft_eq_spec CR_ops CR_cx CR_field.
Definition R_dft_linear := dft_linear CR_ops CR_cx CR_field.
Definition R_dft_dc_is_mean := dft_dc_is_mean CR_ops CR_cx CR_field.
Definition R_fir_steady_state := fir_steady_state CR_ops CR_cx CR_field Ceqb_spec CR_cx_0 CR_cx_add.
Definition R_fir_dft_impulse_eq_fr := fir_dft_impulse_eq_fr CR_ops CR_cx CR_field Ceqb_spec CR_cx_0 CR_cx_add.

(* ---- real formulas (real coefficients) against the complex specification ---- *)
Lemma tsum_from_real l w : forall k,
  tsum_from CR_ops CR_cx k (map RtoC l) w = (rsum cos l w k, - rsum sin l w k).
Proof.
  induction l as [|c l IH]; intro k; simpl.
  - unfold RtoC. f_equal. ring.
  - rewrite IH. unfold CR_cx, cis, Cplus, Cmult, RtoC. simpl.
    replace (- (IZR k * w)) with (- (w * IZR k)) by ring.
    rewrite cos_neg, sin_neg. f_equal; ring.
Qed.

Lemma tfsum_real l w : tfsum (map RtoC l) w = (rsum cos l w 0, - rsum sin l w 0).
Proof. apply tsum_from_real. Qed.

Lemma spec_c_correct b a w :
  Cdiv (tfsum (map RtoC b) w) (tfsum (map RtoC a) w) = spec_c (b, a) w.
Proof.
  rewrite !tfsum_real. unfold spec_c, spec_re, spec_im, Cdiv, Cmult, Cinv. simpl.
  set (cb := rsum cos b w 0). set (sb := rsum sin b w 0).
  set (ca := rsum cos a w 0). set (sa := rsum sin a w 0).
  replace (ca * (ca * 1) + - sa * (- sa * 1)) with (ca * (ca * 1) + sa * (sa * 1)) by ring.
  unfold Rdiv. f_equal; ring.
Qed.

Lemma spec_dft_correct x w : tfsum (map RtoC x) w = spec_dft x w.
Proof. apply tfsum_real. Qed.

(* ---- statements in the vocabulary of ModelR (fr, tfsum, cis) ---- *)
Lemma horner_eq_direct_sum p w : peval CR_ops p (cis (- w)) = psum CR_ops CR_cx p w.
Proof. rewrite <- CR_cx_1. apply R_peval_psum. Qed.

Lemma fr_formula b a w :
  fr b a w = if all_zero CR_ops a then None
             else Some (if Ceqb (tfsum a w) (RtoC 0) then Nan else Val (Cdiv (tfsum b w) (tfsum a w))).
Proof. exact (R_fexpr_fr_eq_spec (FSingle b a) w). Qed.

Lemma fr_none_iff b a w : fr b a w = None <-> all_zero CR_ops a = true.
Proof. rewrite fr_formula. destruct (all_zero CR_ops a); split; congruence. Qed.

Lemma all_zero_Forall a : all_zero CR_ops a = true <-> Forall (fun c => c = RtoC 0) a.
Proof.
  unfold all_zero. rewrite forallb_forall, Forall_forall.
  split; intros H x Hx; apply (Ceqb_spec x (RtoC 0)), H, Hx.
Qed.

Lemma fr_value b a w : tfsum a w <> RtoC 0 -> fr b a w = Some (Val (Cdiv (tfsum b w) (tfsum a w))).
Proof.
  intro H. rewrite fr_formula.
  rewrite (den_nz_constructible CR_ops CR_cx CR_field Ceqb_spec a w H).
  destruct (Ceqb (tfsum a w) (RtoC 0)) eqn:E; [|reflexivity].
  apply Ceqb_spec in E. contradiction.
Qed.

Lemma fr_nan_iff_den_zero b a w :
  fr b a w = Some Nan <-> (all_zero CR_ops a = false /\ tfsum a w = RtoC 0).
Proof.
  rewrite fr_formula. destruct (all_zero CR_ops a).
  - split; [discriminate|intros [? _]; discriminate].
  - destruct (Ceqb (tfsum a w) (RtoC 0)) eqn:E.
    + apply Ceqb_spec in E. split; auto.
    + split; [discriminate|]. intros [_ H]. apply Ceqb_spec in H. congruence.
Qed.

Lemma fr_some_val b a f w h : lf_make CR_ops b a = Some f ->
  fr b a w = Some (Val h) -> fr_spec CR_ops CR_cx b a w = Val h.
Proof.
  intros Hm H. unfold fr in H. rewrite Hm in H. simpl in H.
  rewrite (R_lf_fr_spec b a f w Hm) in H. congruence.
Qed.

Lemma cexp_input_cis w len : cexp_input CR_cx w len = map (fun n => cis (w * INR n)) (seq 0 len).
Proof. unfold cexp_input. apply map_ext. intro n. apply CR_cx_neg. Qed.

Lemma fir_steady_state_R b a f w zero len ys h n :
  lf_make CR_ops b a = Some f ->
  fir_run CR_ops f zero (map (fun n => cis (w * INR n)) (seq 0 len)) = Some ys ->
  fr b a w = Some (Val h) ->
  all_zero CR_ops b = false \/ zero = RtoC 0 ->
  (length b - 1 <= n)%nat -> (n < len)%nat ->
  nth n ys zero = Cmult h (cis (w * INR n)).
Proof.
  intros Hm Hr Hh Hz H1 H2. rewrite <- cexp_input_cis in Hr.
  rewrite <- CR_cx_neg.
  exact (R_fir_steady_state b a f w zero len ys h n Hm Hr (fr_some_val _ _ _ _ _ Hm Hh) Hz H1 H2).
Qed.

Lemma fir_dft_impulse_eq_fr_R b a f w L ir h :
  lf_make CR_ops b a = Some f ->
  fir_run CR_ops f (RtoC 0) (impulse CR_ops L) = Some ir ->
  fr b a w = Some (Val h) ->
  (length b <= L)%nat ->
  dft CR_ops CR_cx ir [w] false = Some [h].
Proof.
  intros Hm Hr Hh HL.
  exact (R_fir_dft_impulse_eq_fr b a f w L ir h Hm Hr (fr_some_val _ _ _ _ _ Hm Hh) HL).
Qed.

Lemma dft_unnormalised blk freqs : dft CR_ops CR_cx blk freqs false = Some (map (tfsum blk) freqs).
Proof. exact (R_dft_eq_spec blk freqs false). Qed.

Lemma dft_normalised blk freqs : blk <> [] ->
  dft CR_ops CR_cx blk freqs true
  = Some (map (fun w => Cdiv (tfsum blk w) (RtoC (IZR (Z.of_nat (length blk))))) freqs).
Proof. intro H. rewrite R_dft_eq_spec. destruct blk; [congruence|reflexivity]. Qed.

Lemma dft_dc_is_mean_R blk : blk <> [] -> dft CR_ops CR_cx blk [0] true = Some [mean CR_ops blk].
Proof. apply R_dft_dc_is_mean. exact CR_cx_dc. Qed.

Lemma elementwise_spec {A B} (f : A -> B) k xs : k <> IListIter ->
  elementwise f k xs =
  (match k with IScalar => OScalar | IList => OList | ITuple => OTuple | IDeque => ODeque
              | IStream => OStream | _ => OGen end, map f xs).
Proof. destruct k; intro H; try reflexivity. congruence. Qed.

(* ---- a concrete instance: 1 + z^-1 over 1 (non-vacuity of the hypotheses) ---- *)
Lemma Ceqb_1_0 : Ceqb (RtoC 1) (RtoC 0) = false.
Proof.
  destruct (Ceqb (RtoC 1) (RtoC 0)) eqn:E; [|reflexivity].
  apply Ceqb_spec in E. injection E as E. lra.
Qed.
Lemma Ceqb_refl x : Ceqb x x = true.
Proof. apply Ceqb_spec. reflexivity. Qed.

Definition ex_f : lfilter (T := C) := ([(0%Z, RtoC 1); (1%Z, RtoC 1)], [(0%Z, RtoC 1)]).
Lemma ex_make : lf_make CR_ops [RtoC 1; RtoC 1] [RtoC 1] = Some ex_f.
Proof.
  unfold lf_make, poly_of_list. cbn [enum_from filter snd c0 CR_ops ceqb].
  rewrite !Ceqb_1_0. reflexivity.
Qed.
Lemma ex_den w : tfsum [RtoC 1] w <> RtoC 0.
Proof.
  unfold tfsum, tsum. simpl. rewrite (CR_cx_0 w). simpl.
  unfold Cplus, Cmult, RtoC. simpl. intro H. injection H as H _. lra.
Qed.
Lemma ex_run w len : exists ys,
  fir_run CR_ops ex_f (RtoC 0) (map (fun n => cis (w * INR n)) (seq 0 len)) = Some ys.
Proof. unfold fir_run, ex_f. cbn [snd fst is_polynomial forallb Z.leb Z.compare negb andb]. eauto. Qed.
Lemma example_nonvacuous w : exists f ys h,
  lf_make CR_ops [RtoC 1; RtoC 1] [RtoC 1] = Some f /\
  fir_run CR_ops f (RtoC 0) (map (fun n => cis (w * INR n)) (seq 0 8)) = Some ys /\
  fr [RtoC 1; RtoC 1] [RtoC 1] w = Some (Val h) /\
  nth 5 ys (RtoC 0) = Cmult h (cis (w * INR 5)).
Proof.
  destruct (ex_run w 8) as [ys Hys]. exists ex_f, ys, (Cdiv (tfsum [RtoC 1; RtoC 1] w) (tfsum [RtoC 1] w)).
  pose proof (fr_value [RtoC 1; RtoC 1] [RtoC 1] w (ex_den w)) as Hv.
  repeat split; [exact ex_make|exact Hys|exact Hv|].
  apply (fir_steady_state_R [RtoC 1; RtoC 1] [RtoC 1] ex_f w (RtoC 0) 8 ys _ 5%nat ex_make Hys Hv).
  - right. reflexivity.
  - simpl. lia.
  - lia.
Qed.

(* ---- nested filter lists ---- *)
Definition R_tree_fr_eq_spec := tree_fr_eq_spec CR_ops CR_cx CR_field Ceqb_spec CR_cx_0 CR_cx_add.
Definition R_tree_fr_value := tree_fr_value CR_ops CR_cx CR_field Ceqb_spec CR_cx_0 CR_cx_add.
Definition R_same_kind_nesting_flattens := same_kind_nesting_flattens CR_ops CR_cx CR_field.

Section RtreeInd.
Variable P : rtree -> Prop.
Hypothesis Hlin : forall b a, P (RLin b a).
Hypothesis Hcas : forall l, Forall P l -> P (RCas l).
Hypothesis Hpar : forall l, Forall P l -> P (RPar l).
Fixpoint rtree_ind2 (t : rtree) : P t :=
  match t with
  | RLin b a => Hlin b a
  | RCas l => Hcas l ((fix go (l : list rtree) : Forall P l :=
                         match l with [] => Forall_nil P | x :: r => Forall_cons x (rtree_ind2 x) (go r) end) l)
  | RPar l => Hpar l ((fix go (l : list rtree) : Forall P l :=
                         match l with [] => Forall_nil P | x :: r => Forall_cons x (rtree_ind2 x) (go r) end) l)
  end.
End RtreeInd.

(* the real formula of the enclosure goals is the transfer function of the nested filter *)
Lemma spec_tree_correct t w : tree_tf CR_ops CR_cx (rtree_inj t) w = spec_tree t w.
Proof.
  induction t as [b a|l IH|l IH] using rtree_ind2.
  - exact (spec_c_correct b a w).
  - cbn [rtree_inj spec_tree]. rewrite (tree_tf_cas CR_ops CR_cx), map_map. f_equal.
    apply map_Forall_eq. exact IH.
  - cbn [rtree_inj spec_tree]. rewrite (tree_tf_par CR_ops CR_cx), map_map. f_equal.
    apply map_Forall_eq. exact IH.
Qed.

(* ---- the object as it is now (after in-place edits), and histories ---- *)
Definition R_lf_fr_now := lf_fr_now CR_ops CR_cx CR_field Ceqb_spec CR_cx_0 CR_cx_add.
Definition R_fir_dft_impulse_now := fir_dft_impulse_now CR_ops CR_cx CR_field Ceqb_spec CR_cx_0.
Definition R_hist_calls_independent := hist_calls_independent CR_ops CR_cx.

Lemma fir_steady_state_now_R f w zero len ys n :
  fir_run CR_ops f zero (map (fun n => cis (w * INR n)) (seq 0 len)) = Some ys ->
  psum CR_ops CR_cx (snd f) w <> RtoC 0 ->
  fst f <> [] \/ zero = RtoC 0 ->
  (forall kc, In kc (fst f) -> (fst kc <= Z.of_nat n)%Z) -> (n < len)%nat ->
  nth n ys zero = Cmult (Cdiv (psum CR_ops CR_cx (fst f) w) (psum CR_ops CR_cx (snd f) w)) (cis (w * INR n)).
Proof.
  intros Hr Hnz Hz Hk Hn. rewrite <- cexp_input_cis in Hr. rewrite <- CR_cx_neg.
  exact (fir_steady_state_now CR_ops CR_cx CR_field Ceqb_spec CR_cx_0 CR_cx_add f w zero len ys n Hr Hnz Hz Hk Hn).
Qed.
