(* C19 - executable model of the signal generators of audiolazy/lazy_synth.py and of
   lazy_poly.resample.  Every function follows the Python code branch by branch; errors
   are explicit (ERaise "ZeroDivisionError" ...).  Endless generators take the number
   [k] of outputs that are pulled (itertools.islice(gen, k)).  No proofs here. *)
From Coq Require Import String List Bool Arith ZArith QArith Qcanon.
From AL Require Import Base.CaseLib C19.Lib.
Import ListNotations.
Open Scope string_scope.
Open Scope list_scope.
Open Scope Qc_scope.

(* how an observed prefix ends: generator exhausted / cut by islice / exception *)
Inductive ending := EStop | EMore | ERaise (e : string).
Definition res := (list Qc * ending)%type.

Definition rcons (x : Qc) (r : res) : res := (x :: fst r, snd r).
(* itertools.islice(gen, k): the (k+1)-th pull never happens *)
Definition take_res (k : nat) (r : res) : res :=
  if (k <=? length (fst r))%nat then (firstn k (fst r), EMore) else r.

Definition zde : ending := ERaise "ZeroDivisionError".
Definition half : Qc := qc 1 2.

(* a generator argument: a number or an iterable *)
Inductive arg := Num (q : Qc) | Str (l : list Qc).

(* ------------------------------------------------------------------ modulo_counter *)
(* c % m % m *)
Definition pymod2 (c m : Qc) : option Qc :=
  if Qc_is0 m then None else Some (qmod (qmod c m) m).

(* start, modulo and step are iterables:  for p, m, s in xzip(start, modulo, step) *)
Fixpoint mc_sss (c lastp : Qc) (ps ms ss : list Qc) : res :=
  match ps, ms, ss with
  | p :: ps', m :: ms', s :: ss' =>
      match pymod2 (c + (p - lastp)) m with
      | None => ([], zde)
      | Some c2 => rcons c2 (mc_sss (c2 + s) p ps' ms' ss')
      end
  | _, _, _ => ([], EStop)
  end.

(* start, step iterables; modulo a number *)
Fixpoint mc_sns (c lastp : Qc) (ps : list Qc) (m : Qc) (ss : list Qc) : res :=
  match ps, ss with
  | p :: ps', s :: ss' =>
      match pymod2 (c + (p - lastp)) m with
      | None => ([], zde)
      | Some c2 => rcons c2 (mc_sns (c2 + s) p ps' m ss')
      end
  | _, _ => ([], EStop)
  end.

(* start, modulo iterables; step a number *)
Fixpoint mc_ssn (c lastp : Qc) (ps ms : list Qc) (s : Qc) : res :=
  match ps, ms with
  | p :: ps', m :: ms' =>
      match pymod2 (c + (p - lastp)) m with
      | None => ([], zde)
      | Some c2 => rcons c2 (mc_ssn (c2 + s) p ps' ms' s)
      end
  | _, _ => ([], EStop)
  end.

(* only start is iterable: three sub-branches *)
Fixpoint mc_snn_zero (ps : list Qc) (m : Qc) : res :=       (* step == 0 *)
  match ps with
  | p :: ps' => match pymod2 p m with
                | None => ([], zde)
                | Some v => rcons v (mc_snn_zero ps' m)
                end
  | [] => ([], EStop)
  end.

Fixpoint mc_snn_fast (steps : Z) (c lastp : Qc) (n : Z) (ps : list Qc) (m s : Qc) : res :=
  match ps with
  | p :: ps' =>
      let c1 := c + (p - lastp) in
      match pymod2 (c1 + zq n * s) m with
      | None => ([], zde)
      | Some v =>
          let n1 := (n + 1)%Z in
          if (n1 =? steps)%Z then
            match pymod2 (c1 + zq steps * s) m with
            | None => ([v], zde)
            | Some c2 => rcons v (mc_snn_fast steps c2 p 0 ps' m s)
            end
          else rcons v (mc_snn_fast steps c1 p n1 ps' m s)
      end
  | [] => ([], EStop)
  end.

Fixpoint mc_snn_slow (c lastp : Qc) (ps : list Qc) (m s : Qc) : res :=
  match ps with
  | p :: ps' =>
      match pymod2 (c + (p - lastp)) m with
      | None => ([], zde)
      | Some c2 => rcons c2 (mc_snn_slow (c2 + s) p ps' m s)
      end
  | [] => ([], EStop)
  end.

Definition mc_snn (ps : list Qc) (m s : Qc) : res :=
  if Qc_is0 s then mc_snn_zero ps m
  else let steps := qtrunc (m / s) in
       if (1 <? steps)%Z then mc_snn_fast steps 0 0 0 ps m s
       else mc_snn_slow 0 0 ps m s.

(* start a number *)
Fixpoint mc_nss (c : Qc) (ms ss : list Qc) : res :=
  match ms, ss with
  | m :: ms', s :: ss' =>
      match pymod2 c m with
      | None => ([], zde)
      | Some c2 => rcons c2 (mc_nss (c2 + s) ms' ss')
      end
  | _, _ => ([], EStop)
  end.

Fixpoint mc_nns (c : Qc) (m : Qc) (ss : list Qc) : res :=
  match ss with
  | s :: ss' =>
      match pymod2 c m with
      | None => ([], zde)
      | Some c2 => rcons c2 (mc_nns (c2 + s) m ss')
      end
  | [] => ([], EStop)
  end.

Fixpoint mc_nsn (c : Qc) (ms : list Qc) (s : Qc) : res :=
  match ms with
  | m :: ms' =>
      match pymod2 c m with
      | None => ([], zde)
      | Some c2 => rcons c2 (mc_nsn (c2 + s) ms' s)
      end
  | [] => ([], EStop)
  end.

(* nothing is iterable: endless, [k] outputs are pulled *)
Definition mc_nnn_zero (start m : Qc) (k : nat) : res :=
  match k with
  | O => ([], EMore)
  | _ => match pymod2 start m with
         | None => ([], zde)
         | Some c => (repeat c k, EMore)
         end
  end.

(* (the re-basing modulo cannot fail: steps > 1 implies modulo <> 0; islice never runs the
   code after the k-th yield, which take_res accounts for) *)
Fixpoint mc_nnn_fast (steps : Z) (c : Qc) (n : Z) (m s : Qc) (k : nat) : res :=
  match k with
  | O => ([], EMore)
  | S k' =>
      match pymod2 (c + zq n * s) m with
      | None => ([], zde)
      | Some v =>
          let n1 := (n + 1)%Z in
          if (n1 =? steps)%Z then
            match pymod2 (c + zq steps * s) m with
            | None => ([v], zde)
            | Some c2 => rcons v (mc_nnn_fast steps c2 0 m s k')
            end
          else rcons v (mc_nnn_fast steps c n1 m s k')
      end
  end.

Fixpoint mc_nnn_slow (c m s : Qc) (k : nat) : res :=
  match k with
  | O => ([], EMore)
  | S k' =>
      match pymod2 c m with
      | None => ([], zde)
      | Some c2 => rcons c2 (mc_nnn_slow (c2 + s) m s k')
      end
  end.

Definition mc_nnn (start m s : Qc) (k : nat) : res :=
  if Qc_is0 s then mc_nnn_zero start m k
  else let steps := qtrunc (m / s) in
       if (1 <? steps)%Z then take_res k (mc_nnn_fast steps start 0 m s k)
       else mc_nnn_slow start m s k.

Definition modulo_counter (start modulo step : arg) (k : nat) : res :=
  match start, modulo, step with
  | Str ps, Str ms, Str ss => take_res k (mc_sss 0 0 ps ms ss)
  | Str ps, Num m, Str ss => take_res k (mc_sns 0 0 ps m ss)
  | Str ps, Str ms, Num s => take_res k (mc_ssn 0 0 ps ms s)
  | Str ps, Num m, Num s => take_res k (mc_snn ps m s)
  | Num p, Str ms, Str ss => take_res k (mc_nss p ms ss)
  | Num p, Num m, Str ss => take_res k (mc_nns p m ss)
  | Num p, Str ms, Num s => take_res k (mc_nsn p ms s)
  | Num p, Num m, Num s => mc_nnn p m s k
  end.

(* ------------------------------------------------------------------ durations *)
Inductive dur := DFin (q : Qc) | DPInf | DNInf | DNone.

(* xrange(int(x)) *)
Definition range_len (x : Qc) : nat := Z.to_nat (qtrunc x).
Definition idxs (n : nat) : list Qc := map nq (seq 0 n).

(* line(dur, begin, end, finish) *)
Definition line (d : dur) (b e : Qc) (finish : bool) : res :=
  match d with
  | DFin dq =>
      let den := dq - (if finish then 1 else 0) in
      if Qc_is0 den then ([], zde)
      else let m := (e - b) / den in
           (map (fun i => b + i * m) (idxs (range_len (dq + half))), EStop)
  | DPInf | DNInf => ([], ERaise "OverflowError")   (* int(inf + .5) *)
  | DNone => ([], ERaise "TypeError")
  end.
Definition fadein (d : dur) : res := line d 0 1 false.
Definition fadeout (d : dur) : res := line d 1 0 false.

(* ones / zeros *)
Definition const_gen (v : Qc) (d : dur) (k : nat) : res :=
  match d with
  | DNone | DPInf => (repeat v k, EMore)
  | DFin dq => take_res k (repeat v (range_len (half + dq)), EStop)
  | DNInf => match k with O => ([], EMore) | _ => ([], ERaise "OverflowError") end
  end.
Definition ones := const_gen 1.
Definition zeros := const_gen 0.

(* impulse(dur, one, zero) *)
Definition impulse (d : dur) (one zero : Qc) (k : nat) : res :=
  match d with
  | DNone | DPInf => (firstn k (one :: repeat zero k), EMore)
  | DFin dq =>
      if Qc_leb half dq
      then take_res k (one :: repeat zero (range_len (dq - half)), EStop)
      else take_res k ([], EStop)
  | DNInf => take_res k ([], EStop)
  end.

(* lazy_misc.rint(x) with step = 1: nearest integer, halves away from zero *)
Definition rint (x : Qc) : Z :=
  let d := qfloor x in
  let md := x - zq d in
  if Qc_leb 0 x then (if Qc_leb 1 (md + md) then d + 1 else d)%Z
  else (if Qc_ltb 1 (md + md) then d + 1 else d)%Z.

(* white_noise / gauss_noise: the random source is an oracle  lo hi i |-> value *)
Definition noise (oracle : Qc -> Qc -> nat -> Qc) (d : dur) (lo hi : Qc) (k : nat) : res :=
  match d with
  | DNone | DPInf => (map (oracle lo hi) (seq 0 k), EMore)
  | DFin dq => take_res k (map (oracle lo hi) (seq 0 (Z.to_nat (rint dq))), EStop)
  | DNInf => match k with O => ([], EMore) | _ => ([], ERaise "ValueError") end
  end.

(* adsr(dur, a, d, s, r) *)
Definition adsr (dq a d s r : Qc) : res :=
  if Qc_is0 a then ([], zde) else
  if Qc_is0 d then ([], zde) else
  if Qc_is0 r then ([], zde) else
  let m_a := 1 / a in
  let m_d := (s - 1) / d in
  let m_r := - s * 1 / r in
  let len_a := qtrunc (a + half) in
  let len_d := qtrunc (d + half) in
  let len_r := qtrunc (r + half) in
  let len_s := (qtrunc (dq + half) - len_a - len_d - len_r)%Z in
  (map (fun i => i * m_a) (idxs (Z.to_nat len_a)) ++
   map (fun i => 1 + i * m_d) (idxs (Z.to_nat len_d)) ++
   repeat s (Z.to_nat len_s) ++
   map (fun i => s + i * m_r) (idxs (Z.to_nat len_r)), EStop).

(* attack(a, d, s): s a number (endless sustain) or an iterable *)
Definition attack (a d : Qc) (s : arg) (k : nat) : res :=
  let go (s0 : Qc) (tail : res) : res :=
    if Qc_is0 a then ([], zde) else
    if Qc_is0 d then ([], zde) else
    let m_a := 1 / a in
    let m_d := (s0 - 1) / d in
    let pre := map (fun i => i * m_a) (idxs (range_len (a + half))) ++
               map (fun i => 1 + i * m_d) (idxs (range_len (d + half))) in
    take_res k (pre ++ fst tail, snd tail) in
  match k with O => ([], EMore) | _ =>
  match s with
  | Num s0 => go s0 (repeat s0 k, EMore)
  | Str [] => ([], ERaise "RuntimeError")       (* next() of an empty sustain inside a generator *)
  | Str (s0 :: rest) => go s0 (rest, EStop)
  end end.

(* ------------------------------------------------------------------ TableLookup *)
(* Python list indexing with negative wrap; None = IndexError *)
Definition py_nth (tbl : list Qc) (i : Z) : option Qc :=
  let n := Z.of_nat (length tbl) in
  if (i <? - n)%Z then None
  else if (i <? 0)%Z then nth_error tbl (Z.to_nat (n + i))
  else nth_error tbl (Z.to_nat i).

Definition lerp_call (tbl : list Qc) (idx : Qc) : option Qc :=
  let i := qtrunc idx in
  let fr := idx - zq i in
  match py_nth tbl i, py_nth tbl (qceil idx - Z.of_nat (length tbl)) with
  | Some a, Some b => Some (a * (1 - fr) + b * fr)
  | _, _ => None
  end.

(* map an element function over a result; an element failure raises [err] *)
Fixpoint res_map_aux (f : Qc -> option Qc) (err : string) (l : list Qc) (e : ending) : res :=
  match l with
  | [] => ([], e)
  | x :: l' => match f x with
               | None => ([], ERaise err)
               | Some y => rcons y (res_map_aux f err l' e)
               end
  end.
Definition res_map f err (r : res) : res := res_map_aux f err (fst r) (snd r).

Definition scale_arg (c : Qc) (a : arg) : arg :=
  match a with Num q => Num (c * q) | Str l => Str (map (fun x => x * c) l) end.

(* fl(2*pi) = 0x1.921fb54442d18p+2 *)
Definition two_pi_fl : Qc := qc 7074237752028440 1125899906842624.
Definition pi_fl : Qc := qc 3537118876014220 1125899906842624.

(* TableLookup(tbl, cycles)(freq, phase) with the cycle length constant  cl = len / (cycles * 2 * pi)
   given: exact when [cycles] is an exact rational, the rounded float for int / float cycles (then it is
   supplied by the harness like the other baked-in float constants) *)
Definition table_call_cl (tbl : list Qc) (cl : Qc) (freq phase : arg) (k : nat) : res :=
  res_map (lerp_call tbl) "IndexError"
          (modulo_counter (scale_arg cl phase) (Num (nq (length tbl))) (scale_arg cl freq) k).

(* [cycles] an exact rational: the constant is computed without rounding *)
Definition table_call (tbl : list Qc) (cycles : Qc) (freq phase : arg) (k : nat) : res :=
  let den := cycles * (1 + 1) * pi_fl in
  if Qc_is0 den then ([], zde) else table_call_cl tbl (nq (length tbl) / den) freq phase k.

(* TableLookup.__getitem__(idx) *)
Definition table_getitem (tbl : list Qc) (idx : Qc) : option Qc :=
  let n := Z.of_nat (length tbl) in
  if (n =? 0)%Z then None      (* int % 0 *)
  else
    let i := qtrunc idx in
    let fr := idx - zq i in
    match nth_error tbl (Z.to_nat (i mod n)), nth_error tbl (Z.to_nat (qceil idx mod n)) with
    | Some a, Some b => Some (a * (1 - fr) + b * fr)
    | _, _ => None
    end.

(* operators *)
Inductive binop := OAdd | OSub | OMul | ODiv | OFloorDiv | OMod.
Definition apply_binop (o : binop) (a b : Qc) : option Qc :=
  match o with
  | OAdd => Some (a + b)
  | OSub => Some (a - b)
  | OMul => Some (a * b)
  | ODiv => if Qc_is0 b then None else Some (a / b)
  | OFloorDiv => if Qc_is0 b then None else Some (zq (qfloor (a / b)))
  | OMod => if Qc_is0 b then None else Some (qmod a b)
  end.

Inductive tres := TOk (tbl : list Qc) (cycles : Qc) | TRaise (e : string).

Fixpoint map_opt {A B} (f : A -> option B) (l : list A) : option (list B) :=
  match l with
  | [] => Some []
  | x :: l' => match f x, map_opt f l' with
               | Some y, Some r => Some (y :: r)
               | _, _ => None
               end
  end.

Definition tbl_result (o : option (list Qc)) (cycles : Qc) : tres :=
  match o with Some t => TOk t cycles | None => TRaise "ZeroDivisionError" end.

Definition table_binop_tt (o : binop) (t1 : list Qc) (c1 : Qc) (t2 : list Qc) (c2 : Qc) : tres :=
  if negb (Qc_eqb c1 c2) then TRaise "ValueError"
  else if negb (length t1 =? length t2)%nat then TRaise "ValueError"
  else tbl_result (map_opt (fun p => apply_binop o (fst p) (snd p)) (combine t1 t2)) c1.
Definition table_binop_ts (o : binop) (t1 : list Qc) (c1 : Qc) (x : Qc) : tres :=
  tbl_result (map_opt (fun a => apply_binop o a x) t1) c1.
Definition table_binop_st (o : binop) (x : Qc) (t1 : list Qc) (c1 : Qc) : tres :=
  tbl_result (map_opt (fun a => apply_binop o x a) t1) c1.
Definition table_neg (t1 : list Qc) (c1 : Qc) : tres := TOk (map Qcopp t1) c1.
Definition table_pos (t1 : list Qc) (c1 : Qc) : tres := TOk t1 c1.

(* max(table, key=abs): the first element of maximal absolute value *)
Definition Qc_abs (x : Qc) : Qc := if Qc_ltb x 0 then - x else x.
Fixpoint max_abs_from (best : Qc) (l : list Qc) : Qc :=
  match l with
  | [] => best
  | x :: l' => max_abs_from (if Qc_ltb (Qc_abs best) (Qc_abs x) then x else best) l'
  end.
Definition table_normalize (t1 : list Qc) (c1 : Qc) : tres :=
  match t1 with
  | [] => TRaise "ValueError"
  | x :: l => let mx := max_abs_from x l in
              if Qc_is0 mx then TRaise "ValueError"
              else table_binop_ts ODiv t1 c1 mx
  end.

(* harmonize: sum over (partial, amplitude) of cycle(table[::partial+1]) * amplitude *)
Fixpoint every_nth_aux (fuel : nat) (stepm1 : nat) (l : list Qc) : list Qc :=
  match fuel with
  | O => []
  | S f => match l with
           | [] => []
           | x :: l' => x :: every_nth_aux f stepm1 (skipn stepm1 l')
           end
  end.
Definition every_nth (partial : nat) (l : list Qc) : list Qc := every_nth_aux (length l) partial l.
Definition cyc_nth (l : list Qc) (i : nat) : Qc := nth (i mod length l) l 0.
Definition table_harmonize (t1 : list Qc) (c1 : Qc) (h : list (nat * Qc)) : tres :=
  match h with
  | [] => TRaise "AttributeError"     (* sum of nothing is the int 0 *)
  | _ => TOk (map (fun i => fold_right (fun pa acc => cyc_nth (every_nth (fst pa) t1) i * snd pa + acc) 0 h)
                  (seq 0 (length t1))) c1
  end.

(* ------------------------------------------------------------------ sinusoid *)
(* the arguments handed to math.sin *)
Definition sinusoid_args (freq phase : arg) (k : nat) : res :=
  modulo_counter phase (Num two_pi_fl) freq k.

(* ------------------------------------------------------------------ resample *)
(* lagrange.func(enumerate(data))(x): nodes 0 .. len-1 *)
Definition lag_basis (n j : nat) (x : Qc) : Qc :=
  fold_right (fun i acc => if (i =? j)%nat then acc else (x - nq i) / (nq j - nq i) * acc) 1 (seq 0 n).
Definition lagrange_at (data : list Qc) (x : Qc) : Qc :=
  fold_right (fun j acc => nth j data 0 * lag_basis (length data) j x + acc) 0 (seq 0 (length data)).

(* deque(maxlen).append *)
Definition push (data : list Qc) (x : Qc) : list Qc := tl data ++ [x].

(* while idx > threshold: data.append(next(isig)); idx -= 1     (None = StopIteration) *)
Fixpoint rs_advance (thr idx : Qc) (data rest : list Qc) : option (Qc * list Qc * list Qc) :=
  if Qc_ltb thr idx then
    match rest with
    | [] => None
    | x :: rest' => rs_advance thr (idx - 1) (push data x) rest'
    end
  else Some (idx, data, rest).

Definition next_step (step : arg) : option (Qc * arg) :=
  match step with
  | Num s => Some (s, step)
  | Str [] => None
  | Str (s :: l) => Some (s, Str l)
  end.

Fixpoint rs_loop (k : nat) (thr idx : Qc) (data rest : list Qc) (step : arg) : res :=
  match k with
  | O => ([], EMore)
  | S k' =>
      let y := lagrange_at data idx in
      match next_step step with
      | None => ([y], EStop)
      | Some (s, step') =>
          match rs_advance thr (idx + s) data rest with
          | None => ([y], EStop)
          | Some (idx', data', rest') => rcons y (rs_loop k' thr idx' data' rest' step')
          end
      end
  end.

(* resample(sig, old, new, order, zero); [new] a number, [old] a number or a stream *)
Definition resample (sig : list Qc) (old : arg) (new : Qc) (order : nat) (zero : Qc) (k : nat) : res :=
  match k with O => ([], EMore) | _ =>
  let thr := half * nq (order + 1) in
  if Qc_is0 new then ([], zde) else
  let step := match old with Num o => Num (o / new) | Str l => Str (map (fun o => o / new) l) end in
  let nfirst := Z.to_nat (rint thr) in
  let first := firstn nfirst sig in
  if (length first <? nfirst)%nat then ([], EStop)
  else
    let data := skipn (length first) (repeat zero (order + 1) ++ first) in
    take_res k (rs_loop k thr (zq (qtrunc thr)) data (skipn nfirst sig) step)
  end.

(* ------------------------------------------------------------------ karplus_strong *)
(* comb.tau(2*pi/freq, tau).linearize()(zeros(), memory): den = 1 - alpha z^-delay, linearised;
   [alpha] = e ** (-delay / tau) enters as an oracle value.  Precondition: freq > 0. *)
Definition ks_delay (freq : Qc) : Qc := two_pi_fl / freq.
Definition ks_exponent (freq tau : Qc) : Qc := - ks_delay freq / tau.
(* denominator coefficient of z^-k after linearize *)
Definition ks_den (delay alpha : Qc) (k : Z) : Qc :=
  let left := qtrunc delay in
  let wr := delay - zq left in
  (if (k =? 0)%Z then 1 else 0) +
  (if (k =? left)%Z then - alpha * (1 - wr) else 0) +
  (if (k =? left + 1)%Z then - alpha * wr else 0).
Definition ks_lm (delay : Qc) : nat := Z.to_nat (qceil delay).
(* memory list of size exactly lm: first lm items; a shorter memory is zero padded on the LEFT
   (zero_pad(memory, lm - actual_len) pads before) *)
Definition ks_memory (lm : nat) (mem : list Qc) : list Qc :=
  repeat 0 (lm - length (firstn lm mem)) ++ firstn lm mem.
(* one output: m0 = (d0 + sum -(a_k) * m_k) / a_0, then shift *)
Fixpoint ks_run (k : nat) (delay alpha : Qc) (mem : list Qc) : list Qc :=
  match k with
  | O => []
  | S k' =>
      let acc := fold_right (fun i a => - ks_den delay alpha (Z.of_nat (S i)) * nth i mem 0 + a) 0
                            (seq 0 (length mem)) in
      let y := (0 + acc) / ks_den delay alpha 0 in
      y :: ks_run k' delay alpha (firstn (length mem) (y :: mem))
  end.
Definition karplus_strong (freq alpha : Qc) (mem : list Qc) (k : nat) : res :=
  let delay := ks_delay freq in
  if Qc_is0 (ks_den delay alpha 0) then ([], zde)
  else (ks_run k delay alpha (ks_memory (ks_lm delay) mem), EMore).
