(* C19 - model-to-model ties: the filter inside karplus_strong is C04's verified model of LinearFilter.__call__,
   and "order-p Lagrange interpolation" in resample is literally C07's verified model of lagrange.func.
   (qualified requires: C04 / C07 constructor names clash with C19's) *)
From Coq Require Import String List Bool Arith ZArith QArith Qcanon.
From AL Require C04.Model C07.Model.
From AL Require Import Base.CaseLib C19.Lib C19.Model C19.Spec C19.Proofs_RS C19.ProofsC04 C19.ProofsC07.
Import ListNotations.
Open Scope list_scope.
Open Scope Qc_scope.

(* karplus_strong(freq, tau, memory) = comb.tau(2 pi/freq, tau).linearize()(zeros(), memory=memory): for freq > 0,
   a non-zero oracle value alpha of e**(-delay/tau) and a non-zero gain, the k outputs of the C19 model are exactly
   what C04.Model.run_filter (code generator + interpreter of the generated loop, proved in C04 to satisfy the
   difference equation with y[-j] = j-th memory item) returns for numerator [1], the linearised denominator
   [den 0; ...; den ceil(delay)], the memory AS GIVEN (C04 does the truncation / left zero padding) and k zeros. *)
Theorem C19_karplus_run_is_c04_filter : forall freq alpha mem k,
  0 < freq -> ks_den (ks_delay freq) alpha 0 <> 0 -> alpha <> 0 ->
  AL.C04.Model.run_filter [1] (ks_coeffs (ks_delay freq) alpha) (AL.C04.Model.MIter mem) 0 (repeat 0 k)
  = AL.C04.Model.Ok (fst (karplus_strong freq alpha mem k)).
Proof. exact karplus_run_is_c04_filter. Qed.
Print Assumptions C19_karplus_run_is_c04_filter.

(* resample: (1) what the implementation model computes for each output, lagrange(enumerate(data))(idx), is
   C07.Model.lagrange_func on the points (0, data_0) .. (p, data_p); (2) the specification's sample at position pos
   is C07.Model.lagrange_func on the p+1 neighbouring (index, zero-extended sample) points; (3) in general the
   index-based interpolation through distinct nodes is C07's.  With C19_resample_is_lagrange: every resample output
   is C07's lagrange_func of its window, evaluated at m*old/new. *)
Theorem C19_resample_lagrange_is_c07 :
  (forall data x,
     lagrange_at data x = AL.C07.Model.lagrange_func (combine (map nq (seq 0 (length data))) data) x) /\
  (forall sig zero order pos,
     rs_sample sig zero order pos
     = AL.C07.Model.lagrange_func
         (combine (xs_at order (rs_base order pos)) (win sig zero order (rs_base order pos))) pos) /\
  (forall xs ys x, NoDup xs -> length ys = length xs ->
     lagrange_nodes xs ys x = AL.C07.Model.lagrange_func (combine xs ys) x).
Proof. exact (conj lagrange_at_is_c07 (conj rs_sample_is_c07 lagrange_nodes_is_c07)). Qed.
Print Assumptions C19_resample_lagrange_is_c07.

(* non-vacuity: delay 7/2, alpha 1/2, memory [1;2;3;4]: both sides give [7/4; 5/4; 3/4] *)
Example C19_ties_example :
  match AL.C04.Model.run_filter [1] (ks_coeffs (ks_delay (two_pi_fl / qc 7 2)) (qc 1 2))
          (AL.C04.Model.MIter [qc 1 1; qc 2 1; qc 3 1; qc 4 1]) 0 (repeat 0 3) with
  | AL.C04.Model.Ok ys => list_eqb Qc_eqb ys [qc 7 4; qc 5 4; qc 3 4]
  | _ => false
  end
  && Qc_eqb (AL.C07.Model.lagrange_func [(0, qc 1 1); (1, qc 2 1); (qc 2 1, qc 4 1); (qc 3 1, qc 8 1)] (qc 5 2))
            (lagrange_at [qc 1 1; qc 2 1; qc 4 1; qc 8 1] (qc 5 2)) = true.
Proof. vm_compute. reflexivity. Qed.
Print Assumptions C19_ties_example.
