(* C19 - resample: the deque / idx / threshold loop computes, for non-negative steps, the Lagrange
   interpolation of the order+1 neighbouring samples at the accumulated position, and stops with the input. *)
From Coq Require Import String List Bool Arith ZArith QArith Qcanon Lia Lqa.
From AL Require Import Base.CaseLib C19.Lib C19.Model C19.Spec C19.Proofs_MC C19.Proofs_Env.
Import ListNotations.
Open Scope list_scope.
Open Scope Qc_scope.

Lemma fold_right_ext_in {A B} (f g : A -> B -> B) l a :
  (forall x acc, In x l -> f x acc = g x acc) -> fold_right f a l = fold_right g a l.
Proof.
  induction l as [|x l IH]; intro H; [reflexivity|]. cbn [fold_right].
  rewrite IH by (intros; apply H; right; assumption). apply H. left. reflexivity.
Qed.

Lemma zq_add_nat b i : zq (b + Z.of_nat i) = zq b + nq i.
Proof. unfold nq. apply zq_add. Qed.

Lemma nq_inj i j : nq i = nq j -> i = j.
Proof. unfold nq. intro H. apply zq_inj in H. lia. Qed.

(* ------------------------------------------------------------------ Lagrange facts *)
Definition xs_at (order : nat) (b : Z) : list Qc := map (fun i => zq (b + Z.of_nat i)) (seq 0 (order + 1)).
Definition win (sig : list Qc) (zero : Qc) (order : nat) (b : Z) : list Qc :=
  map (fun i => sig_ext sig zero (b + Z.of_nat i)) (seq 0 (order + 1)).

Lemma xs_at_length order b : length (xs_at order b) = (order + 1)%nat.
Proof. unfold xs_at. rewrite map_length, seq_length. reflexivity. Qed.
Lemma win_length sig zero order b : length (win sig zero order b) = (order + 1)%nat.
Proof. unfold win. rewrite map_length, seq_length. reflexivity. Qed.
Lemma xs_at_nth order b i : (i < order + 1)%nat -> nth i (xs_at order b) 0 = zq b + nq i.
Proof. intro H. unfold xs_at. rewrite nth_map_seq by exact H. apply zq_add_nat. Qed.
Lemma win_nth sig zero order b i : (i < order + 1)%nat ->
  nth i (win sig zero order b) 0 = sig_ext sig zero (b + Z.of_nat i).
Proof. intro H. unfold win. rewrite nth_map_seq by exact H. reflexivity. Qed.

(* translation invariance: nodes b .. b+order at x  =  nodes 0 .. order at x - b *)
Lemma lag_basis_shift order b j x : (j < order + 1)%nat ->
  lag_basis_nodes (xs_at order b) j x = lag_basis (order + 1) j (x - zq b).
Proof.
  intro Hj. unfold lag_basis_nodes, lag_basis. rewrite xs_at_length.
  apply fold_right_ext_in. intros i acc Hi. apply in_seq in Hi.
  destruct (i =? j)%nat; [reflexivity|].
  rewrite !xs_at_nth by lia. f_equal. f_equal; ring.
Qed.

Lemma lagrange_shift order b ys x : length ys = (order + 1)%nat ->
  lagrange_nodes (xs_at order b) ys x = lagrange_at ys (x - zq b).
Proof.
  intro H. unfold lagrange_nodes, lagrange_at. rewrite xs_at_length, H.
  apply fold_right_ext_in. intros j acc Hj. apply in_seq in Hj.
  rewrite lag_basis_shift by lia. reflexivity.
Qed.

(* at a node the interpolator returns the node's value *)
Lemma lag_basis_self : forall l j, fold_right (fun i acc => if (i =? j)%nat then acc
     else (nq j - nq i) / (nq j - nq i) * acc) 1 l = 1.
Proof.
  induction l as [|i l IH]; intro j; [reflexivity|]. cbn [fold_right]. rewrite IH.
  destruct (i =? j)%nat eqn:E; [reflexivity|]. apply Nat.eqb_neq in E.
  field. intro H. apply E. symmetry. apply nq_inj.
  assert (G : nq j = nq i) by (rewrite <- (Qcplus_0_r (nq i)), <- H; ring). exact G.
Qed.

Lemma lag_basis_other : forall l i j, i <> j -> In j l ->
  fold_right (fun t acc => if (t =? i)%nat then acc else (nq j - nq t) / (nq i - nq t) * acc) 1 l = 0.
Proof.
  induction l as [|t l IH]; intros i j Hij Hin; [destruct Hin|]. cbn [fold_right].
  destruct Hin as [->|Hin].
  - replace (j =? i)%nat with false by (symmetry; apply Nat.eqb_neq; lia).
    unfold Qcdiv. ring.
  - rewrite (IH i j Hij Hin). destruct (t =? i)%nat; [reflexivity|ring].
Qed.

Lemma sum_delta (f : nat -> Qc) j v : forall n a, (a <= j < a + n)%nat ->
  (forall i, i <> j -> f i = 0) -> f j = v ->
  fold_right (fun i acc => f i + acc) 0 (seq a n) = v.
Proof.
  induction n as [|n IH]; intros a Hj H0 Hv; [lia|]. cbn [seq fold_right].
  destruct (Nat.eq_dec a j) as [->|Ne].
  - rewrite Hv.
    assert (Z : forall m b, (j < b)%nat -> fold_right (fun i acc => f i + acc) 0 (seq b m) = 0).
    { induction m as [|m IHm]; intros b Hb; [reflexivity|]. cbn [seq fold_right].
      rewrite IHm by lia. rewrite H0 by lia. ring. }
    rewrite Z by lia. ring.
  - rewrite (H0 a Ne), IH by (try lia; assumption). ring.
Qed.

Theorem lagrange_at_node data j : (j < length data)%nat -> lagrange_at data (nq j) = nth j data 0.
Proof.
  intro H. unfold lagrange_at.
  apply (sum_delta (fun i => nth i data 0 * lag_basis (length data) i (nq j)) j).
  - lia.
  - intros i Hi. unfold lag_basis. rewrite (lag_basis_other _ i j Hi); [ring|].
    apply in_seq. lia.
  - unfold lag_basis. rewrite lag_basis_self. ring.
Qed.

(* ------------------------------------------------------------------ window and threshold facts *)
Definition thr_of (order : nat) : Qc := half * nq (order + 1).

Lemma rs_base_unique order pos b :
  thr_of order - 1 < pos - zq b -> pos - zq b <= thr_of order -> rs_base order pos = b.
Proof.
  intros H1 H2. unfold rs_base. fold (thr_of order). apply qceil_unique; qc_lra.
Qed.

Lemma push_win sig zero order b n :
  (b + Z.of_nat order + 1 = Z.of_nat n)%Z ->
  push (win sig zero order b) (nth n sig 0) = win sig zero order (b + 1).
Proof.
  intro Hn. unfold push, win.
  set (f := fun i : nat => sig_ext sig zero (b + Z.of_nat i)).
  set (g := fun i : nat => sig_ext sig zero (b + 1 + Z.of_nat i)).
  assert (L : tl (map f (seq 0 (order + 1))) = map g (seq 0 order)).
  { rewrite Nat.add_1_r. cbn [seq map tl]. rewrite <- seq_shift, map_map.
    apply map_ext. intro i. unfold f, g. f_equal. lia. }
  assert (R : map g (seq 0 (order + 1)) = map g (seq 0 order) ++ [g order]).
  { rewrite seq_app, map_app. reflexivity. }
  rewrite L, R. f_equal. f_equal. unfold g, sig_ext.
  replace (b + 1 + Z.of_nat order <? 0)%Z with false by (symmetry; apply Z.ltb_ge; lia).
  f_equal. lia.
Qed.

(* the loop invariant: window [b, b+order], n = b+order+1 samples consumed, idx = pos - b in (thr-1, thr] *)
Definition rs_inv (sig : list Qc) (zero : Qc) (order : nat) (idx : Qc) (data rest : list Qc) (pos : Qc) : Prop :=
  exists (b : Z) (n : nat),
    data = win sig zero order b /\ rest = skipn n sig /\ (b + Z.of_nat order + 1 = Z.of_nat n)%Z /\
    (n <= length sig)%nat /\ idx = pos - zq b /\ thr_of order - 1 < idx /\ idx <= thr_of order.

Lemma skipn_cons_nth (sig : list Qc) : forall n x rest, skipn n sig = x :: rest ->
  x = nth n sig 0 /\ rest = skipn (S n) sig /\ (S n <= length sig)%nat.
Proof.
  induction sig as [|y sig IH]; intros n x rest H.
  - destruct n; discriminate.
  - destruct n as [|n].
    + cbn [skipn] in H. inversion H; subst. cbn [nth skipn length]. repeat split. lia.
    + cbn [skipn] in H. apply IH in H as [H1 [H2 H3]]. cbn [nth skipn length]. repeat split; try assumption. lia.
Qed.

Lemma skipn_nil_len (sig : list Qc) n : skipn n sig = [] -> (length sig <= n)%nat.
Proof.
  revert n. induction sig as [|y sig IH]; intros n H; [cbn; lia|].
  destruct n as [|n]; [discriminate|]. cbn [skipn] in H. apply IH in H. cbn [length]. lia.
Qed.

Lemma rs_advance_eq thr idx data rest :
  rs_advance thr idx data rest =
  if Qc_ltb thr idx then
    match rest with [] => None | x :: rest' => rs_advance thr (idx - 1) (push data x) rest' end
  else Some (idx, data, rest).
Proof. destruct rest; reflexivity. Qed.

Lemma rs_advance_inv sig zero order pos : forall rest idx data b n,
  data = win sig zero order b -> rest = skipn n sig -> (b + Z.of_nat order + 1 = Z.of_nat n)%Z ->
  (n <= length sig)%nat -> idx = pos - zq b -> thr_of order - 1 < idx ->
  match rs_advance (thr_of order) idx data rest with
  | None => rs_avail sig order pos = false
  | Some (idx', data', rest') => rs_inv sig zero order idx' data' rest' pos
  end.
Proof.
  induction rest as [|x rest IH]; intros idx data b n Hd Hr Hn Hl Hi Ht; rewrite rs_advance_eq.
  - destruct (Qc_ltb (thr_of order) idx) eqn:E.
    + apply Qc_ltb_spec in E. symmetry in Hr. apply skipn_nil_len in Hr.
      unfold rs_avail. apply Z.ltb_ge.
      pose proof (qceil_ge (pos - half * nq (order + 1))) as C. fold (thr_of order) in C.
      assert (A : zq b < zq (rs_base order pos)) by (unfold rs_base; fold (thr_of order); qc_lra).
      apply zq_lt in A. lia.
    + exists b, n. repeat split; try assumption.
      destruct (Qc_leb idx (thr_of order)) eqn:L; [apply Qc_leb_spec in L; exact L|].
      unfold Qc_ltb in E. rewrite L in E. discriminate.
  - destruct (Qc_ltb (thr_of order) idx) eqn:E.
    + apply Qc_ltb_spec in E. symmetry in Hr. apply skipn_cons_nth in Hr as [Hx [Hr' Hl']].
      apply (IH (idx - 1) (push data x) (b + 1)%Z (S n)).
      * subst data x. apply push_win. exact Hn.
      * exact Hr'.
      * lia.
      * exact Hl'.
      * rewrite Hi, zq_add, zq_1. ring.
      * qc_lra.
    + exists b, n. repeat split; try assumption.
      destruct (Qc_leb idx (thr_of order)) eqn:L; [apply Qc_leb_spec in L; exact L|].
      unfold Qc_ltb in E. rewrite L in E. discriminate.
Qed.

Lemma rs_inv_sample sig zero order idx data rest pos :
  rs_inv sig zero order idx data rest pos ->
  lagrange_at data idx = rs_sample sig zero order pos /\ rs_avail sig order pos = true.
Proof.
  intros [b [n [Hd [Hr [Hn [Hl [Hi [H1 H2]]]]]]]].
  assert (B : rs_base order pos = b) by (apply rs_base_unique; rewrite <- Hi; assumption).
  split.
  - unfold rs_sample. rewrite B. fold (xs_at order b). fold (win sig zero order b).
    rewrite lagrange_shift by apply win_length. rewrite Hd, Hi. reflexivity.
  - unfold rs_avail. rewrite B. apply Z.ltb_lt. lia.
Qed.

Definition step_nonneg (a : arg) : Prop :=
  match a with Num q => 0 <= q | Str l => Forall (fun q => 0 <= q) l end.
Lemma next_step_nonneg step s step' : step_nonneg step -> next_step step = Some (s, step') ->
  0 <= s /\ step_nonneg step'.
Proof.
  destruct step as [q|[|q l]]; cbn; intros H E; inversion E; subst.
  - split; assumption.
  - inversion H; subst. split; assumption.
Qed.

(* the loop, from any state that satisfies the invariant *)
Theorem rs_loop_spec sig zero order : forall k idx data rest pos step,
  step_nonneg step -> rs_inv sig zero order idx data rest pos ->
  take_res k (rs_loop k (thr_of order) idx data rest step)
  = take_res k (rs_spec_loop k sig zero order pos step).
Proof.
  induction k as [|k IH]; intros idx data rest pos step Hs Hinv; [reflexivity|].
  cbn [rs_loop rs_spec_loop].
  destruct (rs_inv_sample _ _ _ _ _ _ _ Hinv) as [Hy Ha]. rewrite Ha, Hy.
  destruct (next_step step) as [[s step']|] eqn:En; [|reflexivity].
  destruct (next_step_nonneg _ _ _ Hs En) as [Hs0 Hs'].
  destruct Hinv as [b [n [Hd [Hr [Hn [Hl [Hi [H1 H2]]]]]]]].
  pose proof (rs_advance_inv sig zero order (pos + s) rest (idx + s) data b n Hd Hr Hn Hl) as A.
  assert (Hi' : idx + s = pos + s - zq b) by (rewrite Hi; ring).
  assert (Ht' : thr_of order - 1 < idx + s) by qc_lra.
  specialize (A Hi' Ht').
  destruct (rs_advance (thr_of order) (idx + s) data rest) as [[[idx' data'] rest']|].
  - rewrite !take_res_rcons. f_equal. apply IH; assumption.
  - change ([rs_sample sig zero order pos], EStop) with (rcons (rs_sample sig zero order pos) ([], EStop)).
    rewrite !take_res_rcons. f_equal.
    destruct k as [|k]; [reflexivity|]. cbn [rs_spec_loop]. rewrite A. reflexivity.
Qed.

(* ------------------------------------------------------------------ the initial state *)
Lemma nq_add a b : nq (a + b) = nq a + nq b.
Proof. unfold nq. rewrite Nat2Z.inj_add. apply zq_add. Qed.

Lemma half_double x : half * (x + x) = x.
Proof. rewrite <- (Qcmult_1_l x) at 3. rewrite <- half_half. ring. Qed.

Lemma qfloor_nq q : qfloor (nq q) = Z.of_nat q.
Proof. unfold nq. apply qfloor_zq. Qed.
Lemma qfloor_nq_half q : qfloor (nq q + half) = Z.of_nat q.
Proof.
  pose proof half_half as HH. pose proof half_pos as HP.
  apply qfloor_unique; fold (nq q); qc_lra.
Qed.
Lemma rint_nq q : rint (nq q) = Z.of_nat q.
Proof.
  unfold rint. rewrite qfloor_nq. fold (nq q).
  replace (Qc_leb 0 (nq q)) with true by (symmetry; apply Qc_leb_spec; apply nq_nonneg).
  destruct (Qc_leb 1 (nq q - nq q + (nq q - nq q))) eqn:E; [|reflexivity].
  apply Qc_leb_spec in E. exfalso. qc_lra.
Qed.
Lemma rint_nq_half q : rint (nq q + half) = (Z.of_nat q + 1)%Z.
Proof.
  pose proof half_half as HH. pose proof half_pos as HP. pose proof (nq_nonneg q) as Hn.
  unfold rint. rewrite qfloor_nq_half. fold (nq q).
  replace (Qc_leb 0 (nq q + half)) with true by (symmetry; apply Qc_leb_spec; qc_lra).
  replace (Qc_leb 1 (nq q + half - nq q + (nq q + half - nq q))) with true; [reflexivity|].
  symmetry. apply Qc_leb_spec. qc_lra.
Qed.

(* threshold (order+1)/2: int() and rint() of it split order+1 *)
Lemma thr_facts order :
  let F := qtrunc (thr_of order) in let R := rint (thr_of order) in
  (0 <= F)%Z /\ (1 <= R)%Z /\ (F + R = Z.of_nat (order + 1))%Z /\
  thr_of order - 1 < zq F /\ zq F <= thr_of order.
Proof.
  cbv zeta. unfold thr_of.
  pose proof half_half as HH. pose proof half_pos as HP.
  destruct (Nat.Even_or_Odd (order + 1)) as [[q Hq]|[q Hq]]; rewrite Hq; pose proof (nq_nonneg q) as Hn.
  - replace (2 * q)%nat with (q + q)%nat by lia. rewrite nq_add, half_double.
    rewrite qtrunc_nonneg by exact Hn. rewrite qfloor_nq, rint_nq. fold (nq q).
    repeat split; try lia; qc_lra.
  - replace (2 * q + 1)%nat with (q + q + 1)%nat by lia.
    assert (T : half * nq (q + q + 1) = nq q + half).
    { rewrite !nq_add. change (nq 1) with (zq 1). rewrite zq_1.
      replace (half * (nq q + nq q + 1)) with (half * (nq q + nq q) + half) by ring.
      rewrite half_double. reflexivity. }
    rewrite T.
    assert (P : 0 <= nq q + half) by qc_lra.
    rewrite qtrunc_nonneg by exact P. rewrite qfloor_nq_half, rint_nq_half. fold (nq q).
    repeat split; try lia; qc_lra.
Qed.

Lemma skipn_repeat (x : Qc) : forall n k, skipn k (repeat x n) = repeat x (n - k).
Proof.
  induction n as [|n IH]; intro k; [destruct k; reflexivity|].
  destruct k as [|k]; [reflexivity|]. cbn [repeat skipn]. rewrite IH. reflexivity.
Qed.

Lemma firstn_map_nth (sig : list Qc) : forall n, (n <= length sig)%nat ->
  firstn n sig = map (fun j => nth j sig 0) (seq 0 n).
Proof.
  induction sig as [|y sig IH]; intros n H.
  - cbn [length] in H. replace n with O by lia. reflexivity.
  - destruct n as [|n]; [reflexivity|]. cbn [firstn seq map nth]. f_equal.
    rewrite IH by (cbn [length] in H; lia). rewrite <- seq_shift, map_map. reflexivity.
Qed.

Lemma rs_init_inv sig zero order :
  let thr := thr_of order in
  let nfirst := Z.to_nat (rint thr) in
  (nfirst <= length sig)%nat ->
  rs_inv sig zero order (zq (qtrunc thr))
         (skipn (length (firstn nfirst sig)) (repeat zero (order + 1) ++ firstn nfirst sig))
         (skipn nfirst sig) 0.
Proof.
  cbv zeta. intro Hlen.
  destruct (thr_facts order) as [HF [HR [HS [H1 H2]]]].
  set (F := qtrunc (thr_of order)) in *. set (R := rint (thr_of order)) in *.
  exists (- F)%Z, (Z.to_nat R). repeat split; try assumption.
  - rewrite firstn_length_le by exact Hlen.
    rewrite skipn_app, skipn_repeat, repeat_length.
    replace (Z.to_nat R - (order + 1))%nat with O by lia. cbn [skipn].
    unfold win. replace (order + 1)%nat with (Z.to_nat F + Z.to_nat R)%nat at 2 by lia.
    rewrite seq_app, map_app. f_equal.
    + replace (order + 1 - Z.to_nat R)%nat with (Z.to_nat F) by lia.
      rewrite repeat_map_seq. apply map_ext_in. intros i Hi. apply in_seq in Hi.
      unfold sig_ext. replace (- F + Z.of_nat i <? 0)%Z with true by (symmetry; apply Z.ltb_lt; lia).
      reflexivity.
    + cbn [plus]. rewrite (map_seq_shift _ (Z.to_nat F) (Z.to_nat R)).
      rewrite firstn_map_nth by exact Hlen. apply map_ext_in. intros i Hi. apply in_seq in Hi.
      unfold sig_ext.
      replace (- F + Z.of_nat (Z.to_nat F + i) <? 0)%Z with false by (symmetry; apply Z.ltb_ge; lia).
      f_equal. lia.
  - lia.
  - rewrite zq_opp. ring.
Qed.

Lemma rs_base_0 order : rs_base order 0 = (- qtrunc (thr_of order))%Z.
Proof.
  destruct (thr_facts order) as [HF [HR [HS [H1 H2]]]].
  apply rs_base_unique; rewrite zq_opp.
  - replace (0 - - zq (qtrunc (thr_of order))) with (zq (qtrunc (thr_of order))) by ring. exact H1.
  - replace (0 - - zq (qtrunc (thr_of order))) with (zq (qtrunc (thr_of order))) by ring. exact H2.
Qed.

(* resample_is_lagrange: for every input, order, zero, number of pulls, and every non-negative step
   (number or stream), the implementation model equals the closed-form specification *)
Theorem resample_is_lagrange sig old new order zero k :
  new <> 0 -> step_nonneg (step_of old new) ->
  resample sig old new order zero k = resample_spec sig old new order zero k.
Proof.
  intros Hnew Hs. unfold resample, resample_spec.
  destruct k as [|k']; [reflexivity|]. set (k := S k').
  rewrite (proj2 (Qc_is0_false new) Hnew).
  fold (thr_of order). fold (step_of old new).
  destruct (thr_facts order) as [HF [HR [HS [H1 H2]]]].
  set (nfirst := Z.to_nat (rint (thr_of order))).
  destruct (length (firstn nfirst sig) <? nfirst)%nat eqn:E.
  - apply Nat.ltb_lt in E. rewrite firstn_length in E.
    assert (A : rs_avail sig order 0 = false).
    { unfold rs_avail. rewrite rs_base_0. apply Z.ltb_ge. unfold nfirst in E. lia. }
    unfold k. cbn [rs_spec_loop]. rewrite A. reflexivity.
  - apply Nat.ltb_ge in E. rewrite firstn_length in E.
    apply rs_loop_spec; [exact Hs|]. apply rs_init_inv. fold nfirst. lia.
Qed.

(* resample_integer_positions: at an integer position the output is the input sample itself
   (the zero-extension for negative positions) *)
Theorem resample_integer_positions sig zero order t :
  rs_sample sig zero order (zq t) = sig_ext sig zero t.
Proof.
  destruct (thr_facts order) as [HF [HR [HS [H1 H2]]]].
  set (F := qtrunc (thr_of order)) in *.
  assert (B : rs_base order (zq t) = (t - F)%Z).
  { apply rs_base_unique; rewrite zq_sub.
    - replace (zq t - (zq t - zq F)) with (zq F) by ring. exact H1.
    - replace (zq t - (zq t - zq F)) with (zq F) by ring. exact H2. }
  unfold rs_sample. rewrite B. fold (xs_at order (t - F)). fold (win sig zero order (t - F)).
  rewrite lagrange_shift by apply win_length.
  replace (zq t - zq (t - F)) with (nq (Z.to_nat F)).
  2:{ unfold nq. rewrite Z2Nat.id by exact HF. rewrite zq_sub. ring. }
  rewrite lagrange_at_node by (rewrite win_length; lia).
  rewrite win_nth by lia. f_equal. lia.
Qed.

(* resample_ends_with_input: an output exists exactly while its window's last sample exists;
   too short an input (fewer than rint((order+1)/2) samples) yields nothing *)
Theorem resample_ends_with_input sig zero order pos step k :
  rs_avail sig order pos = false -> rs_spec_loop (S k) sig zero order pos step = ([], EStop).
Proof. intro H. cbn [rs_spec_loop]. rewrite H. reflexivity. Qed.

Theorem resample_short_input sig old new order zero k :
  new <> 0 -> (length sig < Z.to_nat (rint (thr_of order)))%nat ->
  resample sig old new order zero (S k) = ([], EStop).
Proof.
  intros Hnew H. unfold resample. rewrite (proj2 (Qc_is0_false new) Hnew). fold (thr_of order).
  replace (length (firstn _ sig) <? _)%nat with true; [reflexivity|].
  symmetry. apply Nat.ltb_lt. rewrite firstn_length. lia.
Qed.

(* position of output m for a constant step: m * old / new *)
Lemma rs_spec_positions sig zero order : forall k pos s,
  fst (rs_spec_loop k sig zero order pos (Num s)) =
  map (fun m => rs_sample sig zero order (pos + nq m * s))
      (seq 0 (length (fst (rs_spec_loop k sig zero order pos (Num s))))).
Proof.
  induction k as [|k IH]; intros pos s; [reflexivity|]. cbn [rs_spec_loop next_step].
  destruct (rs_avail sig order pos); [|reflexivity].
  unfold rcons. cbn [fst length seq map]. f_equal.
  - rewrite nq_0. f_equal. ring.
  - rewrite IH at 1. rewrite <- seq_shift, map_map. apply map_ext. intro m.
    f_equal. rewrite nq_S. ring.
Qed.
