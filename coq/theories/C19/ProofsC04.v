(* C19 - tie to C04: the karplus_strong model's output is what C04's model of LinearFilter.__call__
   (code generator + interpreter of the generated loop) returns for the linearised comb's coefficient lists,
   the given memory and a zero input.  Through C04's difference-equation theorem and uniqueness of the solution. *)
From Coq Require Import String List Bool Arith ZArith QArith Qcanon Lia.
From AL Require C04.Model C04.Spec C04.ProofsCtor.
From AL Require Import Base.CaseLib C19.Lib C19.Model C19.Spec C19.Proofs_Env C19.Proofs_RS C19.Proofs_Tab C19.Proofs_KS.
Import ListNotations.
Open Scope list_scope.
Open Scope Qc_scope.

Module M4 := AL.C04.Model.
Module S4 := AL.C04.Spec.

(* ------------------------------------------------------------------ C04's signals and dot products *)
Lemma ysig_nat pst ys n : S4.ysig pst ys (Z.of_nat n) = nth n ys 0.
Proof.
  unfold S4.ysig. replace (Z.of_nat n <? 0)%Z with false by (symmetry; apply Z.ltb_ge; lia).
  rewrite Nat2Z.id. reflexivity.
Qed.
Lemma ysig_neg pst ys m : (m < 0)%Z -> S4.ysig pst ys m = pst (Z.to_nat (- m)).
Proof. intro H. unfold S4.ysig. apply Z.ltb_lt in H. rewrite H. reflexivity. Qed.

Lemma dot_ext_ge l : forall s F G, (forall k, (s <= k)%Z -> F k = G k) -> S4.dot l F s = S4.dot l G s.
Proof.
  induction l as [|c r IH]; intros s F G H; [reflexivity|].
  cbn [S4.dot]. rewrite (H s) by lia. f_equal. apply IH. intros k Hk. apply H. lia.
Qed.
Lemma dot_ext_range l : forall s F G,
  (forall k, (s <= k < s + Z.of_nat (length l))%Z -> F k = G k) -> S4.dot l F s = S4.dot l G s.
Proof.
  induction l as [|c r IH]; intros s F G H; [reflexivity|].
  cbn [S4.dot]. rewrite (H s) by (cbn [length]; lia). f_equal. apply IH.
  intros k Hk. apply H. cbn [length]. lia.
Qed.
Lemma dot_map_seq (g : nat -> Qc) F : forall n s,
  S4.dot (map g (seq s n)) F (Z.of_nat s + 1)
  = fold_right (fun i acc => g i * F (Z.of_nat i + 1)%Z + acc) 0 (seq s n).
Proof.
  induction n as [|n IH]; intro s; [reflexivity|]. cbn [seq map S4.dot fold_right]. f_equal.
  replace (Z.of_nat s + 1 + 1)%Z with (Z.of_nat (S s) + 1)%Z by lia. apply IH.
Qed.

(* uniqueness of the solution of a difference equation with a0 <> 0 *)
Section Unique.
Variables (b ar : list Qc) (a0 : Qc) (X : Z -> Qc) (pst : nat -> Qc).
Hypothesis Ha0 : a0 <> 0.
Definition solves (ys : list Qc) : Prop :=
  forall n, (n < length ys)%nat ->
    a0 * S4.ysig pst ys (Z.of_nat n)
    = S4.dot b (fun k => X (Z.of_nat n - k)%Z) 0
      - S4.dot ar (fun k => S4.ysig pst ys (Z.of_nat n - k)%Z) 1.

Lemma solves_unique ys ys' : length ys = length ys' -> solves ys -> solves ys' -> ys = ys'.
Proof.
  intros HL H1 H2.
  assert (Hn : forall n, (n < length ys)%nat -> nth n ys 0 = nth n ys' 0).
  { induction n as [n IH] using lt_wf_ind. intro Hlt.
    pose proof (H1 n Hlt) as E1. pose proof (H2 n ltac:(lia)) as E2.
    rewrite !ysig_nat in E1, E2.
    assert (EF : S4.dot ar (fun k => S4.ysig pst ys (Z.of_nat n - k)%Z) 1
                 = S4.dot ar (fun k => S4.ysig pst ys' (Z.of_nat n - k)%Z) 1).
    { apply dot_ext_ge. intros k Hk.
      destruct (Z_lt_dec (Z.of_nat n - k) 0) as [Hneg|Hpos].
      - rewrite !ysig_neg by exact Hneg. reflexivity.
      - replace (Z.of_nat n - k)%Z with (Z.of_nat (Z.to_nat (Z.of_nat n - k))) by lia.
        rewrite !ysig_nat. apply IH; lia. }
    rewrite EF in E1. rewrite <- E2 in E1.
    apply (f_equal (fun v => / a0 * v)) in E1.
    rewrite !Qcmult_assoc, (Qcmult_comm (/ a0)), Qcmult_inv_r in E1 by exact Ha0.
    rewrite !Qcmult_1_l in E1. exact E1. }
  apply (nth_ext ys ys' 0 0 HL). exact Hn.
Qed.
End Unique.

(* C04's "order" (highest power with a non-zero coefficient) of a coefficient list whose last entry is non-zero *)
Lemma order_last : forall l c s, (0 <= s)%Z -> c <> 0 ->
  fold_right (fun kv m => if Qc_eqb (snd kv) 0 then m else Z.max m (fst kv)) 0%Z
             (M4.enumerate_from s (l ++ [c])) = (s + Z.of_nat (length l))%Z.
Proof.
  induction l as [|x l IH]; intros c s Hs Hc.
  - cbn [app M4.enumerate_from fold_right snd fst length].
    replace (Qc_eqb c 0) with false.
    + lia.
    + symmetry. destruct (Qc_eqb c 0) eqn:E; [apply Qc_eqb_spec in E; contradiction|reflexivity].
  - cbn [app M4.enumerate_from fold_right snd fst length].
    rewrite IH by (try lia; exact Hc). destruct (Qc_eqb x 0); lia.
Qed.

(* ------------------------------------------------------------------ the linearised comb's coefficient lists *)
(* denominator coefficients of z^0 .. z^-lm  (numerator [1]) *)
Definition ks_coeffs (D alpha : Qc) : list Qc :=
  map (fun k => ks_den D alpha (Z.of_nat k)) (seq 0 (S (ks_lm D))).
Definition ks_ar (D alpha : Qc) : list Qc :=
  map (fun i => ks_den D alpha (Z.of_nat (S i))) (seq 0 (ks_lm D)).

Lemma ks_coeffs_cons D alpha : ks_coeffs D alpha = ks_den D alpha 0 :: ks_ar D alpha.
Proof.
  unfold ks_coeffs, ks_ar. cbn [seq map]. f_equal. rewrite <- seq_shift, map_map. reflexivity.
Qed.

Lemma fold_neg (g h : nat -> Qc) l :
  fold_right (fun i a => - g i * h i + a) 0 l = - fold_right (fun i a => g i * h i + a) 0 l.
Proof.
  induction l as [|x l IH].
  - cbn [fold_right]. ring.
  - cbn [fold_right]. rewrite IH. ring.
Qed.

Lemma nth_repeat0 n m : nth n (repeat (0 : Qc) m) 0 = 0.
Proof. revert n. induction m as [|m IH]; intro n; destruct n; cbn [repeat nth]; try reflexivity. apply IH. Qed.

(* my history function is C04's y signal with C04's reading of the memory argument *)
Lemma hist_ysig lm mem out t : (- Z.of_nat lm <= t)%Z ->
  ks_hist (ks_memory lm mem) out t = S4.ysig (S4.past lm 0 (M4.MIter mem)) out t.
Proof.
  intro Ht. unfold ks_hist, S4.ysig. destruct (t <? 0)%Z eqn:E; [|reflexivity].
  apply Z.ltb_lt in E. cbn [S4.past]. unfold S4.past_of_list, ks_memory.
  set (k := Z.to_nat (- t)). replace (Z.to_nat (- t - 1)) with (k - 1)%nat by lia.
  assert (Hk : (1 <= k <= lm)%nat) by lia.
  destruct (le_lt_dec lm (length mem)) as [G|G].
  - rewrite firstn_length_le by exact G. replace (lm - lm)%nat with O by lia. cbn [repeat app].
    replace (lm - length mem)%nat with O by lia.
    replace (k <=? 0)%nat with false by (symmetry; apply Nat.leb_gt; lia).
    rewrite nth_firstn_lt by lia. f_equal. lia.
  - rewrite firstn_all2 by lia.
    destruct (k <=? lm - length mem)%nat eqn:L.
    + apply Nat.leb_le in L. rewrite app_nth1 by (rewrite repeat_length; lia). apply nth_repeat0.
    + apply Nat.leb_gt in L. rewrite app_nth2 by (rewrite repeat_length; lia).
      rewrite repeat_length. f_equal; lia.
Qed.

(* the filter loop's outputs solve the difference equation (in terms of my history function) *)
Lemma ks_run_solves D alpha mem0 : ks_den D alpha 0 <> 0 -> length mem0 = ks_lm D -> forall k pre,
  let out := pre ++ ks_run k D alpha (ks_state D mem0 pre) in
  forall n, (length pre <= n < length pre + k)%nat ->
    ks_den D alpha 0 * nth n out 0
    = 0 - S4.dot (ks_ar D alpha) (fun j => ks_hist mem0 out (Z.of_nat n - j)) 1.
Proof.
  intros Ha0 Hm. induction k as [|k IH]; intros pre out n Hn; [lia|].
  unfold out. cbn [ks_run]. rewrite (ks_state_length D mem0 pre Hm).
  set (mem := ks_state D mem0 pre).
  set (y := (0 + fold_right _ 0 (seq 0 (ks_lm D))) / ks_den D alpha 0).
  assert (Hmem' : firstn (ks_lm D) (y :: mem) = ks_state D mem0 (pre ++ [y])).
  { unfold mem, ks_state. rewrite rev_app_distr. cbn [rev app]. apply firstn_cons_firstn. }
  rewrite Hmem'.
  replace (pre ++ y :: ks_run k D alpha (ks_state D mem0 (pre ++ [y])))
    with ((pre ++ [y]) ++ ks_run k D alpha (ks_state D mem0 (pre ++ [y]))) by (rewrite <- app_assoc; reflexivity).
  destruct (Nat.eq_dec n (length pre)) as [->|Nn].
  2:{ apply IH. rewrite app_length. cbn [length]. lia. }
  set (rest := ks_run k D alpha (ks_state D mem0 (pre ++ [y]))).
  rewrite <- app_assoc. cbn [app]. rewrite app_nth2 by lia. rewrite Nat.sub_diag. cbn [nth].
  unfold ks_ar. rewrite (dot_map_seq _ _ (ks_lm D) 0).
  assert (Hy : ks_den D alpha 0 * y
               = - fold_right (fun i a => ks_den D alpha (Z.of_nat (S i)) * nth i mem 0 + a) 0 (seq 0 (ks_lm D))).
  { unfold y. rewrite fold_neg. field. exact Ha0. }
  rewrite Hy. unfold Qcminus at 1. rewrite Qcplus_0_l. f_equal.
  apply fold_right_ext_in. intros i a Hi. apply in_seq in Hi. f_equal. f_equal.
  replace i with (S i - 1)%nat at 1 by lia. unfold mem.
  rewrite (ks_state_nth D mem0 pre (y :: rest) (S i)) by (try lia; exact Hm).
  f_equal. lia.
Qed.

(* the highest coefficient of the linearised comb is not zero (alpha <> 0), and there is at least one *)
Lemma ks_top_coeff D alpha : 0 < D -> alpha <> 0 ->
  exists i, ks_lm D = S i /\ ks_den D alpha (Z.of_nat (S i)) <> 0.
Proof.
  intros HD Ha. pose proof (ks_L_nonneg D HD) as HL.
  destruct (ks_lm_cases D HD) as [[Hf Hlm]|[Hf Hlm]].
  - assert (HLpos : (0 < qfloor D)%Z).
    { apply zq_lt. rewrite zq_0. replace (zq (qfloor D)) with D; [exact HD|].
      rewrite <- (Qcplus_0_r (zq (qfloor D))), <- Hf. ring. }
    exists (Z.to_nat (qfloor D) - 1)%nat. split; [lia|].
    intro E. pose proof (ks_den_S D alpha HD (Z.to_nat (qfloor D) - 1)) as HS. rewrite E in HS.
    replace (S (Z.to_nat (qfloor D) - 1) =? Z.to_nat (qfloor D))%nat with true in HS
      by (symmetry; apply Nat.eqb_eq; lia).
    replace (Z.to_nat (qfloor D) - 1 =? Z.to_nat (qfloor D))%nat with false in HS
      by (symmetry; apply Nat.eqb_neq; lia).
    rewrite Hf in HS. apply Ha. replace alpha with (alpha * (1 - 0) + 0) by ring. rewrite <- HS. ring.
  - exists (Z.to_nat (qfloor D)). split; [exact Hlm|].
    intro E. pose proof (ks_den_S D alpha HD (Z.to_nat (qfloor D))) as HS. rewrite E in HS.
    replace (S (Z.to_nat (qfloor D)) =? Z.to_nat (qfloor D))%nat with false in HS
      by (symmetry; apply Nat.eqb_neq; lia).
    rewrite Nat.eqb_refl in HS.
    assert (P : alpha * (D - zq (qfloor D)) = 0) by (rewrite <- (Qcplus_0_l (alpha * _)), <- HS; ring).
    apply Qcmult_integral in P as [P|P]; [contradiction|].
    rewrite P in Hf. apply (Qclt_not_eq _ _ Hf). reflexivity.
Qed.

Lemma ks_order D alpha : 0 < D -> alpha <> 0 ->
  S4.order (M4.enumerate_from 0 (ks_coeffs D alpha)) = ks_lm D.
Proof.
  intros HD Ha. destruct (ks_top_coeff D alpha HD Ha) as [i [Hlm Hc]].
  unfold S4.order, ks_coeffs. rewrite Hlm.
  set (g := fun k : nat => ks_den D alpha (Z.of_nat k)).
  assert (E : map g (seq 0 (S (S i))) = map g (seq 0 (S i)) ++ [g (S i)]).
  { replace (S (S i)) with (S i + 1)%nat by lia. rewrite seq_app, map_app. reflexivity. }
  rewrite E. rewrite order_last by (try lia; exact Hc). rewrite map_length, seq_length. lia.
Qed.

Lemma ks_run_length : forall k D alpha m, length (ks_run k D alpha m) = k.
Proof. induction k as [|k IH]; intros; [reflexivity|]. cbn [ks_run length]. rewrite IH. reflexivity. Qed.

(* karplus_run_is_c04_filter: comb.tau(2 pi/freq, tau).linearize()(zeros(), memory) - the model's k outputs are
   C04's run_filter on numerator [1], the linearised denominator, the memory as given, and k zeros *)
Theorem karplus_run_is_c04_filter freq alpha mem k :
  0 < freq -> ks_den (ks_delay freq) alpha 0 <> 0 -> alpha <> 0 ->
  M4.run_filter [1] (ks_coeffs (ks_delay freq) alpha) (M4.MIter mem) 0 (repeat 0 k)
  = M4.Ok (fst (karplus_strong freq alpha mem k)).
Proof.
  intros Hf Ha0 Ha. set (D := ks_delay freq) in *.
  assert (HD : 0 < D) by (unfold D, ks_delay; apply Qcdiv_pos; [unfold Qclt; reflexivity|exact Hf]).
  unfold karplus_strong. fold D. rewrite (proj2 (Qc_is0_false _) Ha0). cbn [fst].
  rewrite ks_coeffs_cons.
  destruct (AL.C04.ProofsCtor.lists_diffeq [1] (ks_den D alpha 0) (ks_ar D alpha) (M4.MIter mem) 0 (repeat 0 k) Ha0)
    as [ys [Hrun [Hlen Hd]]].
  rewrite Hrun. f_equal.
  assert (Hall : S4.all_zero (M4.enumerate_from 0 [1]) (M4.enumerate_from 0 (ks_den D alpha 0 :: ks_ar D alpha)) = false).
  { unfold S4.all_zero. cbn [M4.enumerate_from app forallb snd].
    replace (Qc_eqb 1 0) with false by reflexivity. reflexivity. }
  rewrite Hall in Hd. rewrite <- ks_coeffs_cons, (ks_order D alpha HD Ha), repeat_length in Hd.
  rewrite repeat_length in Hlen.
  set (mem0 := ks_memory (ks_lm D) mem).
  assert (X0 : forall t, S4.xsig 0 (repeat 0 k) t = 0).
  { intro t. unfold S4.xsig. destruct (t <? 0)%Z; [reflexivity|apply nth_repeat0]. }
  apply (solves_unique [1] (ks_ar D alpha) (ks_den D alpha 0) (S4.xsig 0 (repeat 0 k))
                       (S4.past (ks_lm D) 0 (M4.MIter mem)) Ha0).
  - rewrite ks_run_length. exact Hlen.
  - intros n Hn. rewrite Hlen in Hn. specialize (Hd n Hn). unfold S4.diffeq_lists_at in Hd.
    rewrite ks_coeffs_cons in Hd. cbn [nth tl] in Hd. exact Hd.
  - intros n Hn. rewrite ks_run_length in Hn.
    pose proof (ks_run_solves D alpha mem0 Ha0 (ks_memory_length _ _) k [] n) as HS.
    cbn [app length] in HS. unfold ks_state in HS. cbn [rev app] in HS.
    rewrite firstn_all2 in HS by (unfold mem0; rewrite ks_memory_length; lia).
    specialize (HS ltac:(lia)).
    rewrite ysig_nat. rewrite HS. cbn [S4.dot]. rewrite X0.
    replace (1 * 0 + 0) with 0 by ring. f_equal.
    apply dot_ext_range. intros j Hj. unfold ks_ar in Hj. rewrite map_length, seq_length in Hj.
    unfold mem0. apply hist_ysig. lia.
Qed.
