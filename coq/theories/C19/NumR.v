(* C19 - numeric companion of PropR.v, NOT registered in PROP_FILES: the interval tactic computes with the
   kernel's primitive integers (their specifications are axioms) and coqchk over the Interval library takes
   more than half an hour, which the thorough tier cannot afford.  Compiled by make like any other file. *)
From Coq Require Import ZArith QArith Qcanon Qreals Reals.
From AL Require Import Base.CaseLib C19.Lib C19.Model C19.Spec C19.ProofsR.
From Interval Require Import Tactic.
Open Scope R_scope.

Lemma qr_two_pi_fl : qr two_pi_fl = 7074237752028440 / 1125899906842624.
Proof.
  unfold qr, two_pi_fl, qc. rewrite (Qeq_eqR _ _ (this_Q2Qc _)). unfold Q2R. cbn [Qnum Qden]. reflexivity.
Qed.

Theorem two_pi_fl_error : Rabs (2 * PI - qr two_pi_fl) <= 25 / 100000000000000000.
Proof. rewrite qr_two_pi_fl. interval with (i_prec 90). Qed.

Print Assumptions two_pi_fl_error.
