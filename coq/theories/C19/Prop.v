(* C19 - the proved statements; each is closed by [exact] on a lemma of Proofs_*.v and
   followed by Print Assumptions.  Statements mention Model.v / Spec.v / Lib.v only. *)
From Coq Require Import String List Bool Arith ZArith QArith Qcanon.
From AL Require Import Base.CaseLib C19.Lib C19.Model C19.Spec C19.Check C19.Proofs_MC C19.Proofs_Env
  C19.Proofs_RS C19.Proofs_Tab C19.Proofs_KS.
Import ListNotations.
Open Scope list_scope.
Open Scope Qc_scope.

(* ===================================================================== modulo_counter *)
(* Python's % on exact rationals: the result lies in [0, m) for m > 0 and adding any integer multiple
   of m does not change it (what "no drift in exact arithmetic" rests on). *)
Theorem C19_qmod_range : forall x m, 0 < m -> 0 <= qmod x m /\ qmod x m < m.
Proof. exact qmod_range_pos. Qed.
Print Assumptions C19_qmod_range.
Theorem C19_qmod_add_mult : forall x m k, m <> 0 -> qmod (x + zq k * m) m = qmod x m.
Proof. exact qmod_add_mult. Qed.
Print Assumptions C19_qmod_add_mult.

(* mc_general: with three iterables the counter yields the general recurrence
   c_0 = p_0 mod m_0, c_n = (c_{n-1} + s_{n-1} + p_n - p_{n-1}) mod m_n, for as long as all inputs last. *)
Theorem C19_mc_general : forall ps ms ss,
  Forall (fun m => m <> 0) ms ->
  mc_sss 0 0 ps ms ss
  = (map (mc_rec (seqf ps) (seqf ms) (seqf ss)) (seq 0 (min3 (length ps) (length ms) (length ss))), EStop).
Proof. exact mc_general. Qed.
Print Assumptions C19_mc_general.

(* mc_closed_form: for a constant modulo the recurrence is the running sum of start and all
   earlier steps, reduced into [0, modulo). *)
Theorem C19_mc_closed_form : forall p s m n,
  m <> 0 -> mc_rec p (fun _ => m) s n = qmod (p n + sumq s n) m.
Proof. exact mc_closed_form. Qed.
Print Assumptions C19_mc_closed_form.
Theorem C19_mc_closed_range : forall p s m n,
  0 < m -> 0 <= mc_closed p s m n /\ mc_closed p s m n < m.
Proof. exact mc_closed_range. Qed.
Print Assumptions C19_mc_closed_range.

(* mc_branches_agree: each of the other seven argument-kind branches is the all-iterables branch
   run on constant sequences in place of its numbers - for arbitrary streams in the remaining
   positions, for every exact start / modulo / step (negative, zero, multiples of the modulo, zero
   modulo included: both sides then raise at the same output). *)
Theorem C19_mc_sns_agrees : forall ps c l m ss,
  mc_sns c l ps m ss = mc_sss c l ps (repeat m (length ps)) ss.
Proof. exact mc_sns_sss. Qed.
Print Assumptions C19_mc_sns_agrees.
Theorem C19_mc_ssn_agrees : forall ps c l ms s,
  mc_ssn c l ps ms s = mc_sss c l ps ms (repeat s (length ps)).
Proof. exact mc_ssn_sss. Qed.
Print Assumptions C19_mc_ssn_agrees.
(* only start iterable: the step == 0 branch, the batched fast path (steps = int(modulo/step) > 1,
   counter n, re-basing of c) and the plain loop all give the same stream *)
Theorem C19_mc_snn_agrees : forall ps m s,
  mc_snn ps m s = mc_sss 0 0 ps (repeat m (length ps)) (repeat s (length ps)).
Proof. exact mc_snn_sss. Qed.
Print Assumptions C19_mc_snn_agrees.
Theorem C19_mc_nss_agrees : forall ms p ss,
  mc_nss p ms ss = mc_sss 0 0 (repeat p (length ms)) ms ss.
Proof. intros. apply mc_nss_sss. ring. Qed.
Print Assumptions C19_mc_nss_agrees.
Theorem C19_mc_nns_agrees : forall ss c m, mc_nns c m ss = mc_nss c (repeat m (length ss)) ss.
Proof. exact mc_nns_nss. Qed.
Print Assumptions C19_mc_nns_agrees.
Theorem C19_mc_nsn_agrees : forall ms c s, mc_nsn c ms s = mc_nss c ms (repeat s (length ms)).
Proof. exact mc_nsn_nss. Qed.
Print Assumptions C19_mc_nsn_agrees.
(* nothing iterable (k outputs pulled): step == 0 branch, batched fast path and plain loop *)
Theorem C19_mc_nnn_agrees : forall p m s k,
  mc_nnn p m s k = take_res k (mc_sss 0 0 (repeat p k) (repeat m k) (repeat s k)).
Proof. exact mc_nnn_sss. Qed.
Print Assumptions C19_mc_nnn_agrees.
(* the fast paths in isolation, for ANY batch size and any congruent state *)
Theorem C19_mc_fast_path_stream : forall ps steps c c' l n m s,
  qcong m (c + zq n * s) c' -> mc_snn_fast steps c l n ps m s = mc_snn_slow c' l ps m s.
Proof. exact mc_snn_fast_slow. Qed.
Print Assumptions C19_mc_fast_path_stream.
Theorem C19_mc_fast_path_numbers : forall k steps c c' n m s,
  qcong m (c + zq n * s) c' -> mc_nnn_fast steps c n m s k = mc_nnn_slow c' m s k.
Proof. exact mc_nnn_fast_slow. Qed.
Print Assumptions C19_mc_fast_path_numbers.

(* constant start / modulo / step: output n is (start + n*step) mod modulo - no drift *)
Theorem C19_mc_const_closed : forall p m s k,
  m <> 0 ->
  mc_sss 0 0 (repeat p k) (repeat m k) (repeat s k) = (map (fun n => qmod (p + nq n * s) m) (seq 0 k), EStop).
Proof. exact mc_const_closed. Qed.
Print Assumptions C19_mc_const_closed.

(* the all-numbers call against the specification used by the check (mc_spec): for EVERY start, modulo, step
   and number of pulls - zero modulo (ZeroDivisionError on the first pull), negative modulo, step 0, negative
   steps and multiples of the modulo included - output n is (start + n*step) mod modulo *)
Theorem C19_mc_numbers_spec : forall p m s k,
  modulo_counter (Num p) (Num m) (Num s) k = mc_spec (Num p) (Num m) (Num s) k.
Proof. exact mc_numbers_spec. Qed.
Print Assumptions C19_mc_numbers_spec.

(* non-vacuity: negative step, batched path (steps = 5) re-basing twice; a step that is a multiple of the modulo *)
Example C19_mc_example :
  res_eqb (modulo_counter (Num (qc 1 3)) (Num (qc 5 2)) (Num (qc (-1) 2)) 8)
          ([qc 1 3; qc 7 3; qc 11 6; qc 4 3; qc 5 6; qc 1 3; qc 7 3; qc 11 6], EMore)
  && res_eqb (modulo_counter (Str [qc 1 3; qc 1 3; qc 1 3; qc 1 3; qc 1 3; qc 1 3; qc 1 3]) (Num (qc 5 2)) (Num (qc 1 2)) 12)
          ([qc 1 3; qc 5 6; qc 4 3; qc 11 6; qc 7 3; qc 1 3; qc 5 6], EStop)
  && res_eqb (modulo_counter (Num (qc 1 3)) (Num (qc 5 2)) (Num (qc 5 1)) 3) ([qc 1 3; qc 1 3; qc 1 3], EMore)
  && res_eqb (modulo_counter (Num (qc 1 3)) (Num 0) (Num 1) 3) ([], ERaise "ZeroDivisionError") = true.
Proof. vm_compute. reflexivity. Qed.
Print Assumptions C19_mc_example.

(* ===================================================================== line, fades, ones, zeros, impulse, adsr, attack, noise *)
(* int(dur + .5) is dur rounded to the nearest integer (halves up); durations below 1/2 give no sample *)
Theorem C19_nearest_len_round : forall d, 0 <= d + half ->
  d - half < nq (nearest_len d) /\ nq (nearest_len d) <= d + half.
Proof. exact nearest_len_round. Qed.
Print Assumptions C19_nearest_len_round.
Theorem C19_nearest_len_small : forall d, d < half -> nearest_len d = O.
Proof. exact nearest_len_small. Qed.
Print Assumptions C19_nearest_len_small.

(* line_spec *)
Theorem C19_line_spec : forall d b e (fin : bool),
  d - (if fin then 1 else 0) <> 0 -> line (DFin d) b e fin = (line_spec d b e fin, EStop).
Proof. exact line_is_spec. Qed.
Print Assumptions C19_line_spec.
Theorem C19_line_length : forall d b e (fin : bool), length (line_spec d b e fin) = nearest_len d.
Proof. exact line_length. Qed.
Print Assumptions C19_line_length.
Theorem C19_line_nth : forall d b e (fin : bool) i, (i < nearest_len d)%nat ->
  nth i (line_spec d b e fin) 0 = b + nq i * ((e - b) / (d - (if fin then 1 else 0))).
Proof. exact line_nth. Qed.
Print Assumptions C19_line_nth.
(* known finding C19-line-zero-division: dur - finish = 0 raises although int(dur+.5) samples are specified *)
Theorem C19_line_zero_dur_refuted : exists d b e fin,
  nearest_len d = O /\ line (DFin d) b e fin <> (line_spec d b e fin, EStop).
Proof. exists 0, 0, 1, false. split; [reflexivity|]. rewrite line_zero_division by reflexivity. discriminate. Qed.
Print Assumptions C19_line_zero_dur_refuted.
Theorem C19_line_zero_division : forall d b e (fin : bool),
  d - (if fin then 1 else 0) = 0 -> line (DFin d) b e fin = ([], ERaise "ZeroDivisionError").
Proof. exact line_zero_division. Qed.
Print Assumptions C19_line_zero_division.
Theorem C19_fade_spec : forall d, fadein d = line d 0 1 false /\ fadeout d = line d 1 0 false.
Proof. intro d. split; reflexivity. Qed.
Print Assumptions C19_fade_spec.

(* ones_zeros_spec *)
Theorem C19_ones_zeros_spec : forall v d k,
  const_gen v (DFin d) k = take_res k (repeat v (nearest_len d), EStop)
  /\ const_gen v DPInf k = (repeat v k, EMore) /\ const_gen v DNone k = (repeat v k, EMore).
Proof. intros. split; [apply const_gen_finite|apply const_gen_endless]. Qed.
Print Assumptions C19_ones_zeros_spec.

(* impulse_spec: one "one" followed by zeros, int(dur + .5) samples in all *)
Theorem C19_impulse_spec : forall d one zero k,
  impulse (DFin d) one zero k
  = take_res k (match nearest_len d with O => [] | S n => one :: repeat zero n end, EStop).
Proof. exact impulse_spec. Qed.
Print Assumptions C19_impulse_spec.
Theorem C19_impulse_endless : forall one zero k,
  impulse DPInf one zero k = (firstn k (one :: repeat zero k), EMore)
  /\ impulse DNone one zero k = (firstn k (one :: repeat zero k), EMore).
Proof. exact impulse_endless. Qed.
Print Assumptions C19_impulse_endless.

(* adsr_spec: piecewise-linear envelope; documented duration when the segments fit *)
Theorem C19_adsr_spec : forall dq a d s r,
  0 < a -> 0 < d -> 0 < r -> adsr dq a d s r = (adsr_spec dq a d s r, EStop).
Proof. exact adsr_is_spec. Qed.
Print Assumptions C19_adsr_spec.
Theorem C19_adsr_length : forall dq a d s r,
  (nearest_len a + nearest_len d + nearest_len r <= nearest_len dq)%nat ->
  length (adsr_spec dq a d s r) = nearest_len dq.
Proof. exact adsr_length. Qed.
Print Assumptions C19_adsr_length.
Theorem C19_adsr_zero_segment_raises : forall dq a d s r,
  a = 0 \/ d = 0 \/ r = 0 -> adsr dq a d s r = ([], ERaise "ZeroDivisionError").
Proof. exact adsr_zero_segment. Qed.
Print Assumptions C19_adsr_zero_segment_raises.
Example C19_adsr_example :
  res_eqb (adsr (qc 10 1) (qc 2 1) (qc 5 2) (qc 1 2) (qc 3 1))
          ([0; qc 1 2; 1; qc 4 5; qc 3 5; qc 1 2; qc 1 2; qc 1 2; qc 1 3; qc 1 6], EStop) = true.
Proof. vm_compute. reflexivity. Qed.
Print Assumptions C19_adsr_example.

(* attack_spec (number sustain): attack and decay segments, then the sustain level for ever *)
Theorem C19_attack_spec : forall a d s0 k i,
  a <> 0 -> d <> 0 -> (i < k)%nat ->
  snd (attack a d (Num s0) k) = EMore /\ length (fst (attack a d (Num s0) k)) = k /\
  nth i (fst (attack a d (Num s0) k)) 0 = attack_sample a d s0 (nearest_len a) (nearest_len d) (fun _ => s0) i.
Proof. exact attack_is_spec. Qed.
Print Assumptions C19_attack_spec.

(* noise: rint(dur) samples (nearest integer), each taken from the random source; uniform noise stays in range *)
Theorem C19_noise_length : forall o d lo hi k,
  length (fst (noise o (DFin d) lo hi k)) = Nat.min k (Z.to_nat (rint d)).
Proof. exact noise_length. Qed.
Print Assumptions C19_noise_length.
Theorem C19_rint_nearest : forall x, x - half <= zq (rint x) /\ zq (rint x) <= x + half.
Proof. exact rint_nearest. Qed.
Print Assumptions C19_rint_nearest.
Theorem C19_white_noise_range : forall o d lo hi k,
  (forall i, lo <= o lo hi i /\ o lo hi i <= hi) ->
  Forall (fun v => lo <= v /\ v <= hi) (fst (noise o d lo hi k)).
Proof. exact white_noise_range. Qed.
Print Assumptions C19_white_noise_range.

(* ===================================================================== TableLookup *)
(* table_lookup_is_cyclic_lerp: every sample of table(freq, phase) - numbers or streams - is the cyclic
   linear interpolation of the table at the position yielded by the phase counter
   modulo_counter(len/(cycles*2*pi)*phase, len, len/(cycles*2*pi)*freq), which the modulo_counter theorems
   above put in closed form; the counter stays in [0, len). *)
Theorem C19_table_lookup_is_cyclic_lerp : forall tbl cycles freq phase k,
  tbl <> [] -> cycles * (1 + 1) * pi_fl <> 0 ->
  let len := nq (length tbl) in
  let cl := len / (cycles * (1 + 1) * pi_fl) in
  let pos := modulo_counter (scale_arg cl phase) (Num len) (scale_arg cl freq) k in
  table_call tbl cycles freq phase k = (map (cyc_lerp tbl) (fst pos), snd pos).
Proof. exact table_lookup_is_cyclic_lerp. Qed.
Print Assumptions C19_table_lookup_is_cyclic_lerp.
Theorem C19_modulo_counter_range : forall start m step k,
  0 < m -> Forall (fun v => 0 <= v /\ v < m) (fst (modulo_counter start (Num m) step k)).
Proof. exact modulo_counter_range. Qed.
Print Assumptions C19_modulo_counter_range.
Theorem C19_getitem_is_cyclic_lerp : forall tbl idx,
  tbl <> [] -> 0 <= idx -> table_getitem tbl idx = Some (cyc_lerp tbl idx).
Proof. exact getitem_is_cyclic_lerp. Qed.
Print Assumptions C19_getitem_is_cyclic_lerp.
(* outside the property text: for a negative index __getitem__ does not interpolate (int() truncates
   towards zero, so both taps are table[ceil(idx)]) *)
Theorem C19_getitem_negative_degenerate : forall tbl idx,
  tbl <> [] -> idx < 0 -> table_getitem tbl idx = Some (cyc_get tbl (qceil idx)).
Proof. exact getitem_negative_degenerate. Qed.
Print Assumptions C19_getitem_negative_degenerate.
Theorem C19_table_ops_pointwise : forall o t1 c1 t2 c2 r cr,
  table_binop_tt o t1 c1 t2 c2 = TOk r cr ->
  c1 = c2 /\ cr = c1 /\ length t1 = length t2 /\ length r = length t1 /\
  forall i, (i < length t1)%nat -> apply_binop o (nth i t1 0) (nth i t2 0) = Some (nth i r 0).
Proof. exact table_ops_pointwise. Qed.
Print Assumptions C19_table_ops_pointwise.
Theorem C19_table_scalar_ops_pointwise : forall o t1 c1 x,
  (forall r cr, table_binop_ts o t1 c1 x = TOk r cr ->
     cr = c1 /\ length r = length t1 /\
     forall i, (i < length t1)%nat -> apply_binop o (nth i t1 0) x = Some (nth i r 0)) /\
  (forall r cr, table_binop_st o x t1 c1 = TOk r cr ->
     cr = c1 /\ length r = length t1 /\
     forall i, (i < length t1)%nat -> apply_binop o x (nth i t1 0) = Some (nth i r 0)).
Proof. exact table_scalar_ops_pointwise. Qed.
Print Assumptions C19_table_scalar_ops_pointwise.
Theorem C19_table_ops_mismatch : forall o t1 c1 t2 c2,
  c1 <> c2 \/ length t1 <> length t2 -> table_binop_tt o t1 c1 t2 c2 = TRaise "ValueError".
Proof. exact table_ops_mismatch. Qed.
Print Assumptions C19_table_ops_mismatch.
(* normalize_spec_partial: the result is the table divided by an entry of maximal absolute value (so
   all values lie in [-1, 1] and one of them is +-1); missing: the |x / mx| <= 1 step is not spelled out.
   harmonize has no theorem (checked by correspondence and by holds_table against harm_sample only). *)
Theorem C19_normalize_spec_partial : forall t1 c1 r cr,
  table_normalize t1 c1 = TOk r cr ->
  exists mx, In mx t1 /\ mx <> 0 /\ (forall x, In x t1 -> Qc_abs x <= Qc_abs mx) /\
             cr = c1 /\ r = map (fun x => x / mx) t1.
Proof. exact normalize_spec. Qed.
Print Assumptions C19_normalize_spec_partial.
Example C19_table_example :
  tobs_eqb (run_tcall (TCall [qc 1 1; qc 3 1; qc (-2) 1] (1 / ((1 + 1) * pi_fl)) (Num (qc 1 2)) (Num 0) 4))
           (ORes [qc 1 1; qc 1 2; qc 1 1; qc 1 2] EMore)
  && tobs_eqb (run_tcall (TGet [qc 1 1; qc 3 1; qc (-2) 1] (qc 7 2))) (OVal (qc 2 1)) = true.
Proof. vm_compute. reflexivity. Qed.
Print Assumptions C19_table_example.

(* ===================================================================== sinusoid *)
(* sinusoid_phase: the argument handed to sin is (phase + n*freq) mod fl(2 pi); streams of freq / phase
   are covered by the modulo_counter theorems (sinusoid_args is modulo_counter by definition).
   sinusoid_partial: the bound |sin c_n - sin(phase + n*freq)| <= wraps * |2 pi - fl(2 pi)| over the reals
   is NOT proved here; sin itself is outside the exact domain (the check observes its argument). *)
Theorem C19_sinusoid_phase_partial : forall freq phase k,
  sinusoid_args (Num freq) (Num phase) k
  = take_res k (map (fun n => qmod (phase + nq n * freq) two_pi_fl) (seq 0 k), EStop).
Proof. exact sinusoid_phase. Qed.
Print Assumptions C19_sinusoid_phase_partial.

(* ===================================================================== karplus_strong *)
(* karplus_is_linearised_comb: with delay D = fl(2 pi)/freq > 0, L = floor D, f = D - L, every output satisfies
   y[n] = alpha * ((1-f) * y[n-L] + f * y[n-L-1]) where y[-j] is the j-th entry of the memory
   (first ceil(D) items, a shorter memory zero-padded on the left); alpha = e**(-D/tau) is an oracle value. *)
Theorem C19_karplus_is_linearised_comb : forall freq alpha mem k,
  0 < freq -> ks_den (ks_delay freq) alpha 0 <> 0 ->
  let delay := ks_delay freq in
  let out := fst (karplus_strong freq alpha mem k) in
  snd (karplus_strong freq alpha mem k) = EMore /\ length out = k /\
  forall n, (n < k)%nat -> ks_holds_at delay alpha (ks_memory (ks_lm delay) mem) out n = true.
Proof. exact karplus_is_linearised_comb. Qed.
Print Assumptions C19_karplus_is_linearised_comb.
Example C19_karplus_example :
  (* delay 7/2: y[n] = alpha/2 * (y[n-3] + y[n-4]) *)
  res_eqb (karplus_strong (two_pi_fl / qc 7 2) (qc 1 2) [qc 1 1; qc 2 1; qc 3 1; qc 4 1] 3)
          ([qc 7 4; qc 5 4; qc 3 4], EMore) = true.
Proof. vm_compute. reflexivity. Qed.
Print Assumptions C19_karplus_example.

(* ===================================================================== resample *)
(* resample_is_lagrange: for every input, order, zero, number of pulls and every non-negative step old/new
   (a number or a stream of numbers) the deque / idx / threshold loop equals the closed form: output m is the
   order-p Lagrange interpolation (lagrange_nodes) of the p+1 samples of the zero-extended input at indices
   ceil(pos - (p+1)/2) .. + p, evaluated at pos = sum of the first m steps (= m*old/new for a constant step);
   outputs stop at the first window that needs a sample the input does not have. *)
Theorem C19_resample_is_lagrange : forall sig old new order zero k,
  new <> 0 -> step_nonneg (step_of old new) ->
  resample sig old new order zero k = resample_spec sig old new order zero k.
Proof. exact resample_is_lagrange. Qed.
Print Assumptions C19_resample_is_lagrange.
Theorem C19_resample_positions : forall sig zero order k pos s,
  fst (rs_spec_loop k sig zero order pos (Num s)) =
  map (fun m => rs_sample sig zero order (pos + nq m * s))
      (seq 0 (length (fst (rs_spec_loop k sig zero order pos (Num s))))).
Proof. exact rs_spec_positions. Qed.
Print Assumptions C19_resample_positions.
(* resample_integer_positions: at an integer position the interpolation returns the input sample *)
Theorem C19_resample_integer_positions : forall sig zero order t,
  rs_sample sig zero order (zq t) = sig_ext sig zero t.
Proof. exact resample_integer_positions. Qed.
Print Assumptions C19_resample_integer_positions.
Theorem C19_lagrange_at_node : forall data j, (j < length data)%nat -> lagrange_at data (nq j) = nth j data 0.
Proof. exact lagrange_at_node. Qed.
Print Assumptions C19_lagrange_at_node.
(* resample_ends_with_input: no output once the window would need a sample beyond the input; an input
   shorter than rint((order+1)/2) samples yields nothing *)
Theorem C19_resample_ends_with_input : forall sig zero order pos step k,
  rs_avail sig order pos = false -> rs_spec_loop (S k) sig zero order pos step = ([], EStop).
Proof. exact resample_ends_with_input. Qed.
Print Assumptions C19_resample_ends_with_input.
Theorem C19_resample_short_input : forall sig old new order zero k,
  new <> 0 -> (length sig < Z.to_nat (rint (thr_of order)))%nat ->
  resample sig old new order zero (S k) = ([], EStop).
Proof. exact resample_short_input. Qed.
Print Assumptions C19_resample_short_input.
Example C19_resample_example :
  res_eqb (resample [qc 1 1; qc 2 1; qc 4 1; qc 8 1; qc 16 1] (Num 1) (qc 2 1) 3 0 40)
          ([qc 1 1; qc 23 16; qc 2 1; qc 45 16; qc 4 1; qc 45 8; qc 8 1], EStop)
  && res_eqb (resample_spec [qc 1 1; qc 2 1; qc 4 1; qc 8 1; qc 16 1] (Num 1) (qc 2 1) 3 0 40)
          ([qc 1 1; qc 23 16; qc 2 1; qc 45 16; qc 4 1; qc 45 8; qc 8 1], EStop)
  && res_eqb (resample [qc 5 1] (Num 1) 1 3 0 40) ([], EStop) = true.
Proof. vm_compute. reflexivity. Qed.
Print Assumptions C19_resample_example.
