(* C19 - the proved statements; each is closed by [exact] on lemmas of Proofs_*.v (small lemmas are grouped
   into conjunctions) and followed by Print Assumptions.  Statements mention Model.v / Spec.v / Lib.v only.
   This file and everything it imports is free of axioms; the real-number statement lives in PropR.v. *)
From Coq Require Import String List Bool Arith ZArith QArith Qcanon.
From AL Require Import Base.CaseLib C19.Lib C19.Model C19.Spec C19.Check C19.Proofs_MC C19.Proofs_Env
  C19.Proofs_RS C19.Proofs_Tab C19.Proofs_KS C19.Proofs_Glue.
Import ListNotations.
Open Scope list_scope.
Open Scope Qc_scope.

(* ===================================================================== modulo_counter *)
(* Python's % on exact rationals: result in [0, m) for m > 0; adding an integer multiple of m changes nothing *)
Theorem C19_qmod :
  (forall x m, 0 < m -> 0 <= qmod x m /\ qmod x m < m) /\
  (forall x m k, m <> 0 -> qmod (x + zq k * m) m = qmod x m).
Proof. exact (conj qmod_range_pos qmod_add_mult). Qed.
Print Assumptions C19_qmod.

(* THE modulo_counter theorem: for every one of the eight numbers-vs-streams call kinds, every exact start /
   modulo / step (negative and zero steps, steps that are multiples of the modulo, negative and zero moduli,
   varying streams of unequal length) and every number k of pulls, whichever internal branch or batched fast
   path runs, the outputs and the way the stream ends are those of mc_spec: output n is
   (p_n + sum_{j<n} s_j) mod m for a number modulo (general recurrence for a modulo stream), the stream ends
   with its shortest iterable, a zero modulo raises ZeroDivisionError when it is reached. *)
Theorem C19_modulo_counter_is_spec : forall start modulo step k,
  modulo_counter start modulo step k = mc_spec start modulo step k.
Proof. exact modulo_counter_is_spec. Qed.
Print Assumptions C19_modulo_counter_is_spec.

(* mc_general: three iterables give c_0 = p_0 mod m_0, c_n = (c_{n-1} + s_{n-1} + p_n - p_{n-1}) mod m_n *)
Theorem C19_mc_general : forall ps ms ss,
  Forall (fun m => m <> 0) ms ->
  mc_sss 0 0 ps ms ss
  = (map (mc_rec (seqf ps) (seqf ms) (seqf ss)) (seq 0 (min3 (length ps) (length ms) (length ss))), EStop).
Proof. exact mc_general. Qed.
Print Assumptions C19_mc_general.

(* mc_closed_form: constant modulo: running sum of start and all earlier steps, reduced into [0, modulo) *)
Theorem C19_mc_closed_form :
  (forall p s m n, m <> 0 -> mc_rec p (fun _ => m) s n = qmod (p n + sumq s n) m) /\
  (forall p s m n, 0 < m -> 0 <= mc_closed p s m n /\ mc_closed p s m n < m).
Proof. exact (conj mc_closed_form mc_closed_range). Qed.
Print Assumptions C19_mc_closed_form.

(* mc_branches_agree: each of the other seven branches (with their step == 0 sub-branch, batched fast path and
   plain loop) is the all-iterables branch run on constant sequences in place of its numbers *)
Theorem C19_mc_branches_agree :
  (forall ps c l m ss, mc_sns c l ps m ss = mc_sss c l ps (repeat m (length ps)) ss) /\
  (forall ps c l ms s, mc_ssn c l ps ms s = mc_sss c l ps ms (repeat s (length ps))) /\
  (forall ps m s, mc_snn ps m s = mc_sss 0 0 ps (repeat m (length ps)) (repeat s (length ps))) /\
  (forall ms c c' l p ss, c = c' + (p - l) -> mc_nss c ms ss = mc_sss c' l (repeat p (length ms)) ms ss) /\
  (forall ss c m, mc_nns c m ss = mc_nss c (repeat m (length ss)) ss) /\
  (forall ms c s, mc_nsn c ms s = mc_nss c ms (repeat s (length ms))) /\
  (forall p m s k, mc_nnn p m s k = take_res k (mc_sss 0 0 (repeat p k) (repeat m k) (repeat s k))).
Proof.
  exact (conj mc_sns_sss (conj mc_ssn_sss (conj mc_snn_sss (conj mc_nss_sss (conj mc_nns_nss
        (conj mc_nsn_nss mc_nnn_sss)))))).
Qed.
Print Assumptions C19_mc_branches_agree.

(* the fast paths in isolation, for ANY batch size and any congruent state *)
Theorem C19_mc_fast_paths :
  (forall ps steps c c' l n m s,
     qcong m (c + zq n * s) c' -> mc_snn_fast steps c l n ps m s = mc_snn_slow c' l ps m s) /\
  (forall k steps c c' n m s,
     qcong m (c + zq n * s) c' -> mc_nnn_fast steps c n m s k = mc_nnn_slow c' m s k).
Proof. exact (conj mc_snn_fast_slow mc_nnn_fast_slow). Qed.
Print Assumptions C19_mc_fast_paths.

(* constant start / modulo / step: output n is (start + n*step) mod modulo - no drift *)
Theorem C19_mc_const_closed : forall p m s k,
  m <> 0 ->
  mc_sss 0 0 (repeat p k) (repeat m k) (repeat s k) = (map (fun n => qmod (p + nq n * s) m) (seq 0 k), EStop).
Proof. exact mc_const_closed. Qed.
Print Assumptions C19_mc_const_closed.

Theorem C19_modulo_counter_range : forall start m step k,
  0 < m -> Forall (fun v => 0 <= v /\ v < m) (fst (modulo_counter start (Num m) step k)).
Proof. exact modulo_counter_range. Qed.
Print Assumptions C19_modulo_counter_range.

(* non-vacuity: negative step, batched path (steps = 5) re-basing twice; a step that is a multiple of the modulo *)
Example C19_mc_example :
  res_eqb (modulo_counter (Num (qc 1 3)) (Num (qc 5 2)) (Num (qc (-1) 2)) 8)
          ([qc 1 3; qc 7 3; qc 11 6; qc 4 3; qc 5 6; qc 1 3; qc 7 3; qc 11 6], EMore)
  && res_eqb (modulo_counter (Str [qc 1 3; qc 1 3; qc 1 3; qc 1 3; qc 1 3; qc 1 3; qc 1 3]) (Num (qc 5 2)) (Num (qc 1 2)) 12)
          ([qc 1 3; qc 5 6; qc 4 3; qc 11 6; qc 7 3; qc 1 3; qc 5 6], EStop)
  && res_eqb (modulo_counter (Num (qc 1 3)) (Num (qc 5 2)) (Num (qc 5 1)) 3) ([qc 1 3; qc 1 3; qc 1 3], EMore)
  && res_eqb (modulo_counter (Num (qc 1 3)) (Num 0) (Num 1) 3) ([], ERaise "ZeroDivisionError") = true.
Proof. vm_compute. reflexivity. Qed.
Print Assumptions C19_mc_example.

(* ===================================================================== line, fades, ones, zeros, impulse, adsr, attack, noise *)
(* int(dur + .5) is dur rounded to the nearest integer (halves up); durations below 1/2 give no sample *)
Theorem C19_nearest_len :
  (forall d, 0 <= d + half -> d - half < nq (nearest_len d) /\ nq (nearest_len d) <= d + half) /\
  (forall d, d < half -> nearest_len d = O).
Proof. exact (conj nearest_len_round nearest_len_small). Qed.
Print Assumptions C19_nearest_len.

(* line_spec: int(dur+.5) samples begin + i*(end-begin)/(dur-finish) *)
Theorem C19_line_spec :
  (forall d b e (fin : bool),
     d - (if fin then 1 else 0) <> 0 -> line (DFin d) b e fin = (line_spec d b e fin, EStop)) /\
  (forall d b e (fin : bool), length (line_spec d b e fin) = nearest_len d) /\
  (forall d b e (fin : bool) i, (i < nearest_len d)%nat ->
     nth i (line_spec d b e fin) 0 = b + nq i * ((e - b) / (d - (if fin then 1 else 0)))).
Proof. exact (conj line_is_spec (conj line_length line_nth)). Qed.
Print Assumptions C19_line_spec.

(* known finding C19-line-zero-division: dur - finish = 0, or a zero-length a / d / r segment, raises
   although int(dur+.5) samples (resp. an envelope with an empty segment) are specified *)
Theorem C19_line_zero_dur_refuted : exists d b e fin,
  nearest_len d = O /\ line (DFin d) b e fin <> (line_spec d b e fin, EStop).
Proof. exact line_zero_dur_refuted. Qed.
Print Assumptions C19_line_zero_dur_refuted.
Theorem C19_zero_division_raises :
  (forall d b e (fin : bool),
     d - (if fin then 1 else 0) = 0 -> line (DFin d) b e fin = ([], ERaise "ZeroDivisionError")) /\
  (forall dq a d s r, a = 0 \/ d = 0 \/ r = 0 -> adsr dq a d s r = ([], ERaise "ZeroDivisionError")).
Proof. exact (conj line_zero_division adsr_zero_segment). Qed.
Print Assumptions C19_zero_division_raises.

(* fades are lines; ones / zeros have int(dur+.5) samples (endless for inf / None) *)
Theorem C19_fade_ones_zeros_spec :
  (forall d, fadein d = line d 0 1 false /\ fadeout d = line d 1 0 false) /\
  (forall v d k, const_gen v (DFin d) k = take_res k (repeat v (nearest_len d), EStop)) /\
  (forall v k, const_gen v DPInf k = (repeat v k, EMore) /\ const_gen v DNone k = (repeat v k, EMore)).
Proof. exact (conj (fun d => conj (fadein_is_line d) (fadeout_is_line d)) (conj const_gen_finite const_gen_endless)). Qed.
Print Assumptions C19_fade_ones_zeros_spec.

(* impulse_spec: one "one" followed by zeros, int(dur + .5) samples in all (1 + int(dur-.5) = int(dur+.5)) *)
Theorem C19_impulse_spec :
  (forall d one zero k, impulse (DFin d) one zero k
     = take_res k (match nearest_len d with O => [] | S n => one :: repeat zero n end, EStop)) /\
  (forall d, half <= d -> nearest_len d = S (range_len (d - half))) /\
  (forall one zero k, impulse DPInf one zero k = (firstn k (one :: repeat zero k), EMore)
                      /\ impulse DNone one zero k = (firstn k (one :: repeat zero k), EMore)).
Proof. exact (conj impulse_spec (conj impulse_length_identity impulse_endless)). Qed.
Print Assumptions C19_impulse_spec.

(* adsr_spec: piecewise-linear envelope; documented duration when the segments fit *)
Theorem C19_adsr_spec :
  (forall dq a d s r, 0 < a -> 0 < d -> 0 < r -> adsr dq a d s r = (adsr_spec dq a d s r, EStop)) /\
  (forall dq a d s r, (nearest_len a + nearest_len d + nearest_len r <= nearest_len dq)%nat ->
     length (adsr_spec dq a d s r) = nearest_len dq).
Proof. exact (conj adsr_is_spec adsr_length). Qed.
Print Assumptions C19_adsr_spec.
Example C19_adsr_example :
  res_eqb (adsr (qc 10 1) (qc 2 1) (qc 5 2) (qc 1 2) (qc 3 1))
          ([0; qc 1 2; 1; qc 4 5; qc 3 5; qc 1 2; qc 1 2; qc 1 2; qc 1 3; qc 1 6], EStop) = true.
Proof. vm_compute. reflexivity. Qed.
Print Assumptions C19_adsr_example.

(* attack_spec: attack and decay segments, then the sustain: a number for ever, or the items of an iterable
   (its first item is the decay target; an empty one raises RuntimeError) *)
Theorem C19_attack_spec :
  (forall a d s0 k i, a <> 0 -> d <> 0 -> (i < k)%nat ->
     snd (attack a d (Num s0) k) = EMore /\ length (fst (attack a d (Num s0) k)) = k /\
     nth i (fst (attack a d (Num s0) k)) 0 = attack_sample a d s0 (nearest_len a) (nearest_len d) (fun _ => s0) i) /\
  (forall a d s0 rest k, a <> 0 -> d <> 0 ->
     attack a d (Str (s0 :: rest)) (S k)
     = take_res (S k) (map (attack_sample a d s0 (nearest_len a) (nearest_len d) (fun i => nth i rest 0))
                           (seq 0 (nearest_len a + nearest_len d + length rest)), EStop)) /\
  (forall a d k, attack a d (Str []) (S k) = ([], ERaise "RuntimeError")).
Proof. exact (conj attack_is_spec (conj attack_stream_spec attack_empty_sustain)). Qed.
Print Assumptions C19_attack_spec.

(* noise: rint(dur) samples (nearest integer), each taken from the random source; uniform noise stays in range *)
Theorem C19_noise_spec :
  (forall o d lo hi k, length (fst (noise o (DFin d) lo hi k)) = Nat.min k (Z.to_nat (rint d))) /\
  (forall x, x - half <= zq (rint x) /\ zq (rint x) <= x + half) /\
  (forall o d lo hi k, (forall i, lo <= o lo hi i /\ o lo hi i <= hi) ->
     Forall (fun v => lo <= v /\ v <= hi) (fst (noise o d lo hi k))).
Proof. exact (conj noise_length (conj rint_nearest white_noise_range)). Qed.
Print Assumptions C19_noise_spec.

(* ===================================================================== TableLookup *)
(* table_lookup_is_cyclic_lerp: every sample of table(freq, phase) - numbers or streams - is the cyclic linear
   interpolation of the table at the position yielded by modulo_counter(cl*phase, len, cl*freq), which
   C19_modulo_counter_is_spec puts in closed form.  [cl] is the cycle length constant len/(cycles*2*pi) as the
   implementation computed it (exact for rational cycles, the rounded float for int / float cycles). *)
Theorem C19_table_lookup_is_cyclic_lerp : forall tbl cl freq phase k,
  tbl <> [] ->
  let pos := modulo_counter (scale_arg cl phase) (Num (nq (length tbl))) (scale_arg cl freq) k in
  table_call_cl tbl cl freq phase k = (map (cyc_lerp tbl) (fst pos), snd pos).
Proof. exact table_lookup_is_cyclic_lerp. Qed.
Print Assumptions C19_table_lookup_is_cyclic_lerp.
Theorem C19_table_call_exact_cycles : forall tbl cycles freq phase k,
  cycles * (1 + 1) * pi_fl <> 0 ->
  table_call tbl cycles freq phase k
  = table_call_cl tbl (nq (length tbl) / (cycles * (1 + 1) * pi_fl)) freq phase k.
Proof. exact table_call_exact_cycles. Qed.
Print Assumptions C19_table_call_exact_cycles.

(* getitem_is_cyclic_lerp for idx >= 0; outside the property text: for a negative index __getitem__ does not
   interpolate (int() truncates towards zero, so both taps are table[ceil(idx)]) *)
Theorem C19_getitem_is_cyclic_lerp :
  (forall tbl idx, tbl <> [] -> 0 <= idx -> table_getitem tbl idx = Some (cyc_lerp tbl idx)) /\
  (forall tbl idx, tbl <> [] -> idx < 0 -> table_getitem tbl idx = Some (cyc_get tbl (qceil idx))).
Proof. exact (conj getitem_is_cyclic_lerp getitem_negative_degenerate). Qed.
Print Assumptions C19_getitem_is_cyclic_lerp.

(* table_ops_pointwise: table-table, table-scalar and scalar-table operators; mismatching tables are rejected *)
Theorem C19_table_ops_pointwise :
  (forall o t1 c1 t2 c2 r cr, table_binop_tt o t1 c1 t2 c2 = TOk r cr ->
     c1 = c2 /\ cr = c1 /\ length t1 = length t2 /\ length r = length t1 /\
     forall i, (i < length t1)%nat -> apply_binop o (nth i t1 0) (nth i t2 0) = Some (nth i r 0)) /\
  (forall o t1 c1 x,
     (forall r cr, table_binop_ts o t1 c1 x = TOk r cr ->
        cr = c1 /\ length r = length t1 /\
        forall i, (i < length t1)%nat -> apply_binop o (nth i t1 0) x = Some (nth i r 0)) /\
     (forall r cr, table_binop_st o x t1 c1 = TOk r cr ->
        cr = c1 /\ length r = length t1 /\
        forall i, (i < length t1)%nat -> apply_binop o x (nth i t1 0) = Some (nth i r 0))) /\
  (forall o t1 c1 t2 c2,
     c1 <> c2 \/ length t1 <> length t2 -> table_binop_tt o t1 c1 t2 c2 = TRaise "ValueError").
Proof. exact (conj table_ops_pointwise (conj table_scalar_ops_pointwise table_ops_mismatch)). Qed.
Print Assumptions C19_table_ops_pointwise.

(* normalize_spec: a table with a non-zero entry is divided by its first entry mx of maximal magnitude, so every
   value lies in [-1, 1] and the value 1 is reached; an empty or all-zero table raises ValueError *)
Theorem C19_normalize_spec :
  (forall t1 c1, (exists x, In x t1 /\ x <> 0) ->
     exists mx, In mx t1 /\ mx <> 0 /\ (forall x, In x t1 -> Qc_abs x <= Qc_abs mx) /\
       table_normalize t1 c1 = TOk (map (fun x => x / mx) t1) c1 /\
       (forall y, In y (map (fun x => x / mx) t1) -> - (1) <= y /\ y <= 1) /\
       In 1 (map (fun x => x / mx) t1)) /\
  (forall t1 c1, (forall x, In x t1 -> x = 0) -> table_normalize t1 c1 = TRaise "ValueError").
Proof. exact (conj normalize_full normalize_zero). Qed.
Print Assumptions C19_normalize_spec.

(* harmonize_spec: sample i = sum over (partial p, amplitude a) of a * table[(i mod ceil(len/(p+1))) * (p+1)];
   an empty dictionary raises AttributeError (sum() of nothing is the int 0) *)
Theorem C19_harmonize_spec :
  (forall t1 c1 h, h <> [] -> table_harmonize t1 c1 h = TOk (map (harm_sample t1 h) (seq 0 (length t1))) c1) /\
  (forall t1 c1, table_harmonize t1 c1 [] = TRaise "AttributeError").
Proof. exact (conj harmonize_spec harmonize_empty). Qed.
Print Assumptions C19_harmonize_spec.

Example C19_table_example :
  tobs_eqb (run_tcall (TCall [qc 1 1; qc 3 1; qc (-2) 1] (1 / ((1 + 1) * pi_fl)) (Num (qc 1 2)) (Num 0) 4))
           (ORes [qc 1 1; qc 1 2; qc 1 1; qc 1 2] EMore)
  && tobs_eqb (run_tcall (TGet [qc 1 1; qc 3 1; qc (-2) 1] (qc 7 2))) (OVal (qc 2 1))
  && tobs_eqb (run_tcall (TNorm [qc 1 1; qc (-4) 1; qc 2 1] 1)) (OTbl [qc (-1) 4; qc 1 1; qc (-1) 2] 1)
  && tobs_eqb (run_tcall (THarm [qc 1 1; qc 3 1; qc (-6) 1] 1 [(0%nat, qc 1 1); (1%nat, qc 1 2)]))
              (OTbl [qc 3 2; qc 0 1; qc (-11) 2] 1) = true.
Proof. vm_compute. reflexivity. Qed.
Print Assumptions C19_table_example.

(* ===================================================================== sinusoid *)
(* sinusoid_phase: the arguments handed to sin are modulo_counter(phase, fl(2 pi), freq) by definition, hence
   (C19_modulo_counter_is_spec) (phase_n + sum of the earlier freqs) mod fl(2 pi) for numbers or streams; for
   numbers (phase + n*freq) mod fl(2 pi).  The real-number error bound is C19_sinusoid_real in PropR.v. *)
Theorem C19_sinusoid_phase :
  (forall freq phase k, sinusoid_args freq phase k = mc_spec phase (Num two_pi_fl) freq k) /\
  (forall freq phase k, sinusoid_args (Num freq) (Num phase) k
     = take_res k (map (fun n => qmod (phase + nq n * freq) two_pi_fl) (seq 0 k), EStop)).
Proof. exact (conj (fun f p k => modulo_counter_is_spec p (Num two_pi_fl) f k) sinusoid_phase). Qed.
Print Assumptions C19_sinusoid_phase.

(* ===================================================================== karplus_strong *)
(* karplus_is_linearised_comb: with delay D = fl(2 pi)/freq > 0, L = floor D, f = D - L, every output satisfies
   y[n] = alpha * ((1-f) * y[n-L] + f * y[n-L-1]) where y[-j] is the j-th entry of the memory
   (first ceil(D) items, a shorter memory zero-padded on the left); alpha = e**(-D/tau) is an oracle value. *)
Theorem C19_karplus_is_linearised_comb : forall freq alpha mem k,
  0 < freq -> ks_den (ks_delay freq) alpha 0 <> 0 ->
  let delay := ks_delay freq in
  let out := fst (karplus_strong freq alpha mem k) in
  snd (karplus_strong freq alpha mem k) = EMore /\ length out = k /\
  forall n, (n < k)%nat -> ks_holds_at delay alpha (ks_memory (ks_lm delay) mem) out n = true.
Proof. exact karplus_is_linearised_comb. Qed.
Print Assumptions C19_karplus_is_linearised_comb.
Example C19_karplus_example :
  (* delay 7/2: y[n] = alpha/2 * (y[n-3] + y[n-4]) *)
  res_eqb (karplus_strong (two_pi_fl / qc 7 2) (qc 1 2) [qc 1 1; qc 2 1; qc 3 1; qc 4 1] 3)
          ([qc 7 4; qc 5 4; qc 3 4], EMore) = true.
Proof. vm_compute. reflexivity. Qed.
Print Assumptions C19_karplus_example.

(* ===================================================================== resample *)
(* resample_is_lagrange: for every input, order, zero, number of pulls and every non-negative step old/new
   (a number or a stream of numbers) the deque / idx / threshold loop equals the closed form: output m is the
   order-p Lagrange interpolation (lagrange_nodes) of the p+1 samples of the zero-extended input at indices
   ceil(pos - (p+1)/2) .. + p, evaluated at pos = sum of the first m steps (= m*old/new for a constant step);
   outputs stop at the first window that needs a sample the input does not have. *)
Theorem C19_resample_is_lagrange : forall sig old new order zero k,
  new <> 0 -> step_nonneg (step_of old new) ->
  resample sig old new order zero k = resample_spec sig old new order zero k.
Proof. exact resample_is_lagrange. Qed.
Print Assumptions C19_resample_is_lagrange.

(* positions m*old/new; resample_integer_positions: at an integer position the interpolation returns the
   input sample itself (Lagrange interpolation reproduces its nodes) *)
Theorem C19_resample_integer_positions :
  (forall sig zero order k pos s,
     fst (rs_spec_loop k sig zero order pos (Num s)) =
     map (fun m => rs_sample sig zero order (pos + nq m * s))
         (seq 0 (length (fst (rs_spec_loop k sig zero order pos (Num s)))))) /\
  (forall sig zero order t, rs_sample sig zero order (zq t) = sig_ext sig zero t) /\
  (forall data j, (j < length data)%nat -> lagrange_at data (nq j) = nth j data 0).
Proof. exact (conj rs_spec_positions (conj resample_integer_positions lagrange_at_node)). Qed.
Print Assumptions C19_resample_integer_positions.

(* resample_ends_with_input: no output once the window would need a sample beyond the input; an input
   shorter than rint((order+1)/2) samples yields nothing *)
Theorem C19_resample_ends_with_input :
  (forall sig zero order pos step k,
     rs_avail sig order pos = false -> rs_spec_loop (S k) sig zero order pos step = ([], EStop)) /\
  (forall sig old new order zero k,
     new <> 0 -> (length sig < Z.to_nat (rint (thr_of order)))%nat ->
     resample sig old new order zero (S k) = ([], EStop)).
Proof. exact (conj resample_ends_with_input resample_short_input). Qed.
Print Assumptions C19_resample_ends_with_input.

Example C19_resample_example :
  res_eqb (resample [qc 1 1; qc 2 1; qc 4 1; qc 8 1; qc 16 1] (Num 1) (qc 2 1) 3 0 40)
          ([qc 1 1; qc 23 16; qc 2 1; qc 45 16; qc 4 1; qc 45 8; qc 8 1], EStop)
  && res_eqb (resample_spec [qc 1 1; qc 2 1; qc 4 1; qc 8 1; qc 16 1] (Num 1) (qc 2 1) 3 0 40)
          ([qc 1 1; qc 23 16; qc 2 1; qc 45 16; qc 4 1; qc 45 8; qc 8 1], EStop)
  && res_eqb (resample [qc 5 1] (Num 1) 1 3 0 40) ([], EStop) = true.
Proof. vm_compute. reflexivity. Qed.
Print Assumptions C19_resample_example.
