(* C19 - arithmetic library: Python's floor / int() / ceil / % on exact rationals,
   integer injection, and a linear-arithmetic tactic for Qc (through Q and lra). *)
From Coq Require Import ZArith QArith Qcanon Qround Lia Lqa List Bool.
From AL Require Import Base.CaseLib.
Import ListNotations.
Open Scope Qc_scope.

(* ------------------------------------------------------------------ Qc -> Q *)
Lemma this_Q2Qc q : (this (Q2Qc q) == q)%Q.
Proof. unfold Q2Qc. cbn [this]. apply Qred_correct. Qed.
Lemma this_plus x y : (this (x + y) == this x + this y)%Q.
Proof. unfold Qcplus. apply this_Q2Qc. Qed.
Lemma this_mult x y : (this (x * y) == this x * this y)%Q.
Proof. unfold Qcmult. apply this_Q2Qc. Qed.
Lemma this_opp x : (this (- x) == - this x)%Q.
Proof. unfold Qcopp. apply this_Q2Qc. Qed.
Lemma this_minus x y : (this (x - y) == this x - this y)%Q.
Proof. unfold Qcminus. rewrite this_plus, this_opp. reflexivity. Qed.
Lemma this_0 : (this 0 == 0)%Q. Proof. reflexivity. Qed.
Lemma this_1 : (this 1 == 1)%Q. Proof. reflexivity. Qed.
Lemma Qc_eq_this x y : x = y <-> (this x == this y)%Q.
Proof. split; intro H; [subst; reflexivity | apply Qc_is_canon; exact H]. Qed.
Lemma Qc_neq_this x y : x <> y <-> ~ (this x == this y)%Q.
Proof. rewrite Qc_eq_this. tauto. Qed.

(* linear arithmetic on Qc: products of non-constants are atoms *)
Ltac qc2q :=
  repeat match goal with
  | H : @eq Qc _ _ |- _ => apply Qc_eq_this in H
  | H : ~ @eq Qc _ _ |- _ => apply Qc_neq_this in H
  | |- @eq Qc _ _ => apply Qc_eq_this
  | |- ~ @eq Qc _ _ => apply Qc_neq_this
  end;
  unfold Qcle, Qclt in *;
  repeat (rewrite ?this_plus, ?this_minus, ?this_mult, ?this_opp, ?this_Q2Qc in * ).
Ltac qc_lra := qc2q; lra.

(* ------------------------------------------------------------------ integers in Qc *)
Definition zq (z : Z) : Qc := Q2Qc (inject_Z z).
Lemma this_zq z : (this (zq z) == inject_Z z)%Q.
Proof. unfold zq. apply this_Q2Qc. Qed.
Lemma zq_add a b : zq (a + b) = zq a + zq b.
Proof. apply Qc_eq_this. rewrite this_plus, !this_zq, inject_Z_plus. reflexivity. Qed.
Lemma zq_mul a b : zq (a * b) = zq a * zq b.
Proof. apply Qc_eq_this. rewrite this_mult, !this_zq, inject_Z_mult. reflexivity. Qed.
Lemma zq_opp a : zq (- a) = - zq a.
Proof. apply Qc_eq_this. rewrite this_opp, !this_zq, inject_Z_opp. reflexivity. Qed.
Lemma zq_sub a b : zq (a - b) = zq a - zq b.
Proof. unfold Z.sub, Qcminus. rewrite zq_add, zq_opp. reflexivity. Qed.
Lemma zq_0 : zq 0 = 0. Proof. apply Qc_is_canon. reflexivity. Qed.
Lemma zq_1 : zq 1 = 1. Proof. apply Qc_is_canon. reflexivity. Qed.
Lemma zq_le a b : (a <= b)%Z <-> zq a <= zq b.
Proof. unfold Qcle. rewrite !this_zq, Zle_Qle. reflexivity. Qed.
Lemma zq_lt a b : (a < b)%Z <-> zq a < zq b.
Proof. unfold Qclt. rewrite !this_zq, Zlt_Qlt. reflexivity. Qed.
Lemma zq_inj a b : zq a = zq b -> a = b.
Proof.
  intro H. apply Qc_eq_this in H. rewrite !this_zq in H.
  apply Z.le_antisymm; rewrite Zle_Qle; rewrite H; apply Qle_refl.
Qed.
Definition nq (n : nat) : Qc := zq (Z.of_nat n).
Lemma nq_S n : nq (S n) = nq n + 1.
Proof. unfold nq. rewrite Nat2Z.inj_succ. unfold Z.succ. rewrite zq_add, zq_1. reflexivity. Qed.
Lemma nq_0 : nq 0 = 0. Proof. exact zq_0. Qed.
Lemma nq_nonneg n : 0 <= nq n.
Proof. unfold nq. pose proof (proj1 (zq_le 0 (Z.of_nat n)) (Nat2Z.is_nonneg n)) as H. rewrite zq_0 in H. exact H. Qed.

(* ------------------------------------------------------------------ floor, ceil, int() *)
Definition qfloor (x : Qc) : Z := Qfloor (this x).
Definition qceil (x : Qc) : Z := Qceiling (this x).
(* Python's int(x) / math.trunc: towards zero *)
Definition qtrunc (x : Qc) : Z := if Qc_ltb x 0 then qceil x else qfloor x.

Lemma qfloor_le x : zq (qfloor x) <= x.
Proof. unfold Qcle. rewrite this_zq. apply Qfloor_le. Qed.
Lemma qfloor_lt x : x < zq (qfloor x) + 1.
Proof.
  unfold Qclt. rewrite this_plus, this_zq. change (this 1) with (inject_Z 1).
  rewrite <- inject_Z_plus. apply Qlt_floor.
Qed.
Lemma qfloor_unique x z : zq z <= x -> x < zq z + 1 -> qfloor x = z.
Proof.
  intros H1 H2. pose proof (qfloor_le x) as F1. pose proof (qfloor_lt x) as F2.
  assert (A : zq z < zq (qfloor x) + 1) by qc_lra.
  assert (B : zq (qfloor x) < zq z + 1) by qc_lra.
  rewrite <- zq_1, <- zq_add in A, B. apply zq_lt in A. apply zq_lt in B. lia.
Qed.
Lemma qfloor_add_int x k : qfloor (x + zq k) = (qfloor x + k)%Z.
Proof.
  apply qfloor_unique; rewrite zq_add.
  - pose proof (qfloor_le x). qc_lra.
  - pose proof (qfloor_lt x). qc_lra.
Qed.
Lemma qfloor_zq z : qfloor (zq z) = z.
Proof. apply qfloor_unique; qc_lra. Qed.
Lemma qceil_opp x : qceil x = (- qfloor (- x))%Z.
Proof.
  unfold qceil, qfloor, Qceiling. f_equal. apply Qfloor_comp.
  symmetry. apply this_opp.
Qed.
Lemma qceil_ge x : x <= zq (qceil x).
Proof. rewrite qceil_opp, zq_opp. pose proof (qfloor_le (- x)). qc_lra. Qed.
Lemma qceil_lt x : zq (qceil x) < x + 1.
Proof. rewrite qceil_opp, zq_opp. pose proof (qfloor_lt (- x)). qc_lra. Qed.
Lemma qceil_unique x z : x <= zq z -> zq z < x + 1 -> qceil x = z.
Proof.
  intros H1 H2. rewrite qceil_opp.
  rewrite (qfloor_unique (- x) (- z)); [lia| |]; rewrite zq_opp; qc_lra.
Qed.
Lemma qtrunc_nonneg x : 0 <= x -> qtrunc x = qfloor x.
Proof.
  intro H. unfold qtrunc. destruct (Qc_ltb x 0) eqn:E; [|reflexivity].
  apply Qc_ltb_spec in E. exfalso. qc_lra.
Qed.
Lemma qtrunc_neg x : x < 0 -> qtrunc x = qceil x.
Proof.
  intro H. unfold qtrunc. destruct (Qc_ltb x 0) eqn:E; [reflexivity|].
  apply Qc_ltb_spec in H. congruence.
Qed.
Lemma qfloor_nonneg x : 0 <= x -> (0 <= qfloor x)%Z.
Proof.
  intro H. pose proof (qfloor_lt x) as F.
  assert (A : zq 0 < zq (qfloor x) + 1) by (rewrite zq_0; qc_lra).
  rewrite <- zq_1, <- zq_add in A. apply zq_lt in A. lia.
Qed.

(* ------------------------------------------------------------------ Python's % *)
(* a % b = a - b * floor(a / b): result has the sign of the divisor.  Total here;
   the models test the divisor against 0 first (ZeroDivisionError). *)
Definition qmod (x m : Qc) : Qc := x - m * zq (qfloor (x / m)).

Lemma Qc_div_mul x m : m <> 0 -> x / m * m = x.
Proof. intro H. field. exact H. Qed.

Lemma qmod_range_pos x m : 0 < m -> 0 <= qmod x m /\ qmod x m < m.
Proof.
  intro Hm. unfold qmod.
  assert (Hm0 : m <> 0) by (intro E; subst; apply (Qclt_not_eq _ _ Hm); reflexivity).
  pose proof (qfloor_le (x / m)) as F1. pose proof (qfloor_lt (x / m)) as F2.
  apply (Qcmult_le_compat_r _ _ m) in F1; [|apply Qclt_le_weak; exact Hm].
  apply (Qcmult_lt_compat_r _ _ m Hm) in F2.
  rewrite Qc_div_mul in F1, F2 by exact Hm0.
  set (k := zq (qfloor (x / m))) in *.
  replace ((k + 1) * m) with (m * k + m) in F2 by ring.
  replace (k * m) with (m * k) in F1 by ring.
  split; qc_lra.
Qed.

Lemma qmod_range_neg x m : m < 0 -> m < qmod x m /\ qmod x m <= 0.
Proof.
  intro Hm. unfold qmod.
  assert (Hm0 : m <> 0) by (intro E; subst; apply (Qclt_not_eq _ _ Hm); reflexivity).
  assert (Hn : 0 < - m) by qc_lra.
  pose proof (qfloor_le (x / m)) as F1. pose proof (qfloor_lt (x / m)) as F2.
  apply (Qcmult_le_compat_r _ _ (- m)) in F1; [|apply Qclt_le_weak; exact Hn].
  apply (Qcmult_lt_compat_r _ _ (- m) Hn) in F2.
  replace (x / m * - m) with (- (x / m * m)) in F1, F2 by ring.
  rewrite Qc_div_mul in F1, F2 by exact Hm0.
  set (k := zq (qfloor (x / m))) in *.
  replace ((k + 1) * - m) with (- (m * k) - m) in F2 by ring.
  replace (k * - m) with (- (m * k)) in F1 by ring.
  split; qc_lra.
Qed.

(* adding an integer multiple of the modulus does not change the residue *)
Lemma qmod_add_mult x m k : m <> 0 -> qmod (x + zq k * m) m = qmod x m.
Proof.
  intro Hm. unfold qmod.
  replace ((x + zq k * m) / m) with (x / m + zq k) by (field; exact Hm).
  rewrite qfloor_add_int, zq_add. ring.
Qed.

Lemma qmod_eq_shift x m : exists k, qmod x m = x + zq k * m.
Proof. exists (- qfloor (x / m))%Z. unfold qmod. rewrite zq_opp. ring. Qed.

Lemma qmod_mod_add x y m : m <> 0 -> qmod (qmod x m + y) m = qmod (x + y) m.
Proof.
  intro Hm. destruct (qmod_eq_shift x m) as [k Hk]. rewrite Hk.
  replace (x + zq k * m + y) with (x + y + zq k * m) by ring.
  apply qmod_add_mult. exact Hm.
Qed.

Lemma qmod_idem x m : m <> 0 -> qmod (qmod x m) m = qmod x m.
Proof.
  intro Hm. replace (qmod x m) with (qmod x m + 0) at 1 by ring.
  rewrite qmod_mod_add by exact Hm. f_equal. ring.
Qed.

(* congruence modulo m *)
Definition qcong (m x y : Qc) : Prop := exists k : Z, x = y + zq k * m.
Lemma qcong_refl m x : qcong m x x.
Proof. exists 0%Z. rewrite zq_0. ring. Qed.
Lemma qmod_cong m x y : m <> 0 -> qcong m x y -> qmod x m = qmod y m.
Proof. intros Hm [k ->]. apply qmod_add_mult. exact Hm. Qed.
Lemma qcong_mod m x : qcong m (qmod x m) x.
Proof. destruct (qmod_eq_shift x m) as [k Hk]. exists k. exact Hk. Qed.
Lemma qcong_add m x y a b : qcong m x y -> qcong m a b -> qcong m (x + a) (y + b).
Proof. intros [k ->] [j ->]. exists (k + j)%Z. rewrite zq_add. ring. Qed.
Lemma qcong_trans m x y z : qcong m x y -> qcong m y z -> qcong m x z.
Proof. intros [k ->] [j ->]. exists (k + j)%Z. rewrite zq_add. ring. Qed.
Lemma qcong_sym m x y : qcong m x y -> qcong m y x.
Proof. intros [k ->]. exists (- k)%Z. rewrite zq_opp. ring. Qed.
Lemma qcong_mult m k : qcong m (zq k * m) 0.
Proof. exists k. ring. Qed.

Lemma qmod_unique_pos x m r : 0 < m -> qcong m r x -> 0 <= r -> r < m -> qmod x m = r.
Proof.
  intros Hm [k0 Hk] H0 H1.
  assert (Hm0 : m <> 0) by (intro E; subst; apply (Qclt_not_eq _ _ Hm); reflexivity).
  assert (E : x = r + zq (- k0) * m) by (rewrite Hk, zq_opp; ring).
  rewrite E, qmod_add_mult by exact Hm0. unfold qmod.
  pose proof (qmod_range_pos r m Hm) as [R0 R1]. unfold qmod in *.
  set (k := qfloor (r / m)) in *.
  assert (F : k = 0%Z).
  { destruct (Z.eq_dec k 0) as [|N]; [assumption|exfalso].
    destruct (Z_lt_le_dec k 0) as [L|G].
    - assert (A : zq k <= zq (-1)) by (apply (proj1 (zq_le _ _)); lia).
      apply (Qcmult_le_compat_r _ _ m) in A; [|apply Qclt_le_weak; exact Hm].
      replace (zq (-1)) with (- (1)) in A by (apply Qc_is_canon; reflexivity).
      replace (- (1) * m) with (- m) in A by ring.
      replace (zq k * m) with (m * zq k) in A by ring. qc_lra.
    - assert (A : zq 1 <= zq k) by (apply (proj1 (zq_le _ _)); lia). rewrite zq_1 in A.
      apply (Qcmult_le_compat_r _ _ m) in A; [|apply Qclt_le_weak; exact Hm].
      replace (1 * m) with m in A by ring.
      replace (zq k * m) with (m * zq k) in A by ring. qc_lra. }
  rewrite F, zq_0. ring.
Qed.

(* boolean helpers *)
Definition Qc_is0 (x : Qc) : bool := Qc_eqb x 0.
Lemma Qc_is0_spec x : Qc_is0 x = true <-> x = 0.
Proof. apply Qc_eqb_spec. Qed.
Lemma Qc_is0_false x : Qc_is0 x = false <-> x <> 0.
Proof.
  unfold Qc_is0. destruct (Qc_eqb x 0) eqn:E.
  - apply Qc_eqb_spec in E. split; [discriminate|congruence].
  - split; [|reflexivity]. intros _ H. apply Qc_eqb_spec in H. congruence.
Qed.

(* from here on the linear-arithmetic tactic also sees through the integer injections *)
Ltac qc_lra ::= unfold nq, zq in *; qc2q; lra.
