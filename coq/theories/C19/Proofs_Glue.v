(* C19 - modulo_counter = mc_spec for all eight numbers-vs-streams call kinds. *)
From Coq Require Import String List Bool Arith ZArith QArith Qcanon Lia.
From AL Require Import Base.CaseLib C19.Lib C19.Model C19.Spec C19.Proofs_MC.
Import ListNotations.
Open Scope list_scope.
Open Scope Qc_scope.

(* ------------------------------------------------------------------ first_bad *)
Lemma first_bad_shift (b b' : nat -> bool) : (forall j, b (S j) = b' j) ->
  forall n i, first_bad b (S i) n = option_map S (first_bad b' i n).
Proof.
  intros H n. induction n as [|n IH]; intro i; cbn [first_bad]; [reflexivity|].
  rewrite H. destruct (b' i); [reflexivity|]. apply IH.
Qed.

Lemma first_bad_ge b : forall n a i, first_bad b a n = Some i -> (a <= i)%nat.
Proof.
  induction n as [|n IH]; intros a i H; cbn [first_bad] in H; [discriminate|].
  destruct (b a); [inversion H; lia|]. apply IH in H. lia.
Qed.

Lemma first_bad_lt b : forall n a i, first_bad b a n = Some i -> (i < a + n)%nat.
Proof.
  induction n as [|n IH]; intros a i H; cbn [first_bad] in H; [discriminate|].
  destruct (b a); [inversion H; lia|]. apply IH in H. lia.
Qed.

Lemma first_bad_ext b b' : forall n a, (forall j, (a <= j < a + n)%nat -> b j = b' j) ->
  first_bad b a n = first_bad b' a n.
Proof.
  induction n as [|n IH]; intros a H; cbn [first_bad]; [reflexivity|].
  rewrite <- (H a) by lia. destruct (b a); [reflexivity|]. apply IH. intros j Hj. apply H. lia.
Qed.

Lemma first_bad_min b : forall k N a,
  first_bad b a (Nat.min k N) =
  match first_bad b a N with Some i => if (i <? a + k)%nat then Some i else None | None => None end.
Proof.
  induction k as [|k IH]; intros N a.
  - cbn [Nat.min first_bad]. destruct (first_bad b a N) as [i|] eqn:E; [|reflexivity].
    apply first_bad_ge in E. replace (i <? a + 0)%nat with false; [reflexivity|].
    symmetry. apply Nat.ltb_ge. lia.
  - destruct N as [|N]; [reflexivity|]. cbn [Nat.min first_bad].
    destruct (b a).
    + replace (a <? a + S k)%nat with true; [reflexivity|]. symmetry. apply Nat.ltb_lt. lia.
    + rewrite IH. replace (S a + k)%nat with (a + S k)%nat by lia. reflexivity.
Qed.

Lemma firstn_map_seq {A} (f : nat -> A) k n : (k <= n)%nat -> firstn k (map f (seq 0 n)) = map f (seq 0 k).
Proof.
  intro H. replace n with (k + (n - k))%nat by lia. rewrite seq_app, map_app.
  rewrite firstn_app, map_length, seq_length, Nat.sub_diag. cbn [firstn].
  rewrite firstn_all2 by (rewrite map_length, seq_length; lia). apply app_nil_r.
Qed.

(* ------------------------------------------------------------------ the generic closed form *)
Definition gen_spec (p m s : nat -> Qc) (N k : nat) : res :=
  let n := Nat.min k N in
  match first_bad (fun i => Qc_is0 (m i)) 0 n with
  | Some i => (map (mc_rec p m s) (seq 0 i), zde)
  | None => (map (mc_rec p m s) (seq 0 n), if (k <=? N)%nat then EMore else EStop)
  end.

Lemma take_res_gen (f : nat -> Qc) (b : nat -> bool) N k :
  take_res k (match first_bad b 0 N with
              | Some i => (map f (seq 0 i), zde)
              | None => (map f (seq 0 N), EStop) end)
  = match first_bad b 0 (Nat.min k N) with
    | Some i => (map f (seq 0 i), zde)
    | None => (map f (seq 0 (Nat.min k N)), if (k <=? N)%nat then EMore else EStop)
    end.
Proof.
  rewrite first_bad_min. cbn [plus]. destruct (first_bad b 0 N) as [i|] eqn:E.
  - pose proof (first_bad_lt _ _ _ _ E) as Hi. unfold take_res. cbn [fst snd].
    rewrite map_length, seq_length. destruct (i <? k)%nat eqn:L.
    + apply Nat.ltb_lt in L. replace (k <=? i)%nat with false by (symmetry; apply Nat.leb_gt; lia). reflexivity.
    + apply Nat.ltb_ge in L. replace (k <=? i)%nat with true by (symmetry; apply Nat.leb_le; lia).
      replace (k <=? N)%nat with true by (symmetry; apply Nat.leb_le; lia).
      rewrite firstn_map_seq by lia. replace (Nat.min k N) with k by lia. reflexivity.
  - unfold take_res. cbn [fst snd]. rewrite map_length, seq_length.
    destruct (k <=? N)%nat eqn:L.
    + apply Nat.leb_le in L. rewrite firstn_map_seq by lia. replace (Nat.min k N) with k by lia. reflexivity.
    + apply Nat.leb_gt in L. replace (Nat.min k N) with N by lia. reflexivity.
Qed.

(* ------------------------------------------------------------------ the all-streams branch, zero moduli included *)
Lemma mc_sss_full : forall ps ms ss c l,
  mc_sss c l ps ms ss =
  match first_bad (fun i => Qc_is0 (seqf ms i)) 0 (min3 (length ps) (length ms) (length ss)) with
  | Some i => (map (mc_rec0 c l (seqf ps) (seqf ms) (seqf ss)) (seq 0 i), zde)
  | None => (map (mc_rec0 c l (seqf ps) (seqf ms) (seqf ss))
                 (seq 0 (min3 (length ps) (length ms) (length ss))), EStop)
  end.
Proof.
  induction ps as [|p ps IH]; intros ms ss c l; [reflexivity|].
  destruct ms as [|m ms]; [reflexivity|]. destruct ss as [|s ss].
  - unfold min3. cbn [mc_sss length].
    assert (E : forall a b, Nat.min (S a) (Nat.min (S b) 0) = 0%nat) by (intros; lia).
    rewrite E. reflexivity.
  - assert (EN : min3 (length (p :: ps)) (length (m :: ms)) (length (s :: ss))
                 = S (min3 (length ps) (length ms) (length ss))) by (unfold min3; cbn [length]; lia).
    rewrite EN. cbn [mc_sss first_bad]. change (seqf (m :: ms) 0) with m.
    destruct (Qc_is0 m) eqn:Em.
    + apply Qc_is0_spec in Em. rewrite pymod2_none by exact Em. reflexivity.
    + apply Qc_is0_false in Em. rewrite pymod2_some by exact Em.
      rewrite (first_bad_shift _ (fun i => Qc_is0 (seqf ms i))) by (intro j; reflexivity).
      rewrite IH. destruct (first_bad _ 0 _) as [i|]; cbn [option_map]; unfold rcons; cbn [fst snd seq map];
        f_equal; f_equal; rewrite <- seq_shift, map_map; apply map_ext; intro j; symmetry; apply mc_rec0_shift.
Qed.

Lemma mc_list_gen ps ms ss k :
  take_res k (mc_sss 0 0 ps ms ss)
  = gen_spec (seqf ps) (seqf ms) (seqf ss) (min3 (length ps) (length ms) (length ss)) k.
Proof.
  rewrite mc_sss_full. unfold gen_spec.
  rewrite (take_res_gen (mc_rec0 0 0 (seqf ps) (seqf ms) (seqf ss))).
  destruct (first_bad _ 0 _); f_equal; apply map_ext; intro j; symmetry; apply mc_rec_rec0.
Qed.

Lemma gen_spec_ext p m s p' m' s' N k :
  (forall j, (j < N)%nat -> p j = p' j) -> (forall j, (j < N)%nat -> m j = m' j) ->
  (forall j, (j < N)%nat -> s j = s' j) -> gen_spec p m s N k = gen_spec p' m' s' N k.
Proof.
  intros Hp Hm Hs. unfold gen_spec.
  rewrite (first_bad_ext _ (fun i => Qc_is0 (m' i))) by (intros j Hj; cbn beta; rewrite Hm by lia; reflexivity).
  assert (R : forall n, (n <= Nat.min k N)%nat ->
            map (mc_rec p m s) (seq 0 n) = map (mc_rec p' m' s') (seq 0 n)).
  { intros n Hn. apply map_ext_in. intros j Hj. apply in_seq in Hj.
    apply mc_rec_ext; intros i Hi; [apply Hp|apply Hm|apply Hs]; lia. }
  destruct (first_bad _ 0 _) as [i|] eqn:E.
  - apply first_bad_lt in E. rewrite R by lia. reflexivity.
  - rewrite R by lia. reflexivity.
Qed.

(* the specification in the generic form; a number modulo uses the closed form *)
Definition avail_of (a b c : arg) (k : nat) : nat :=
  match omin (arg_len a) (omin (arg_len b) (arg_len c)) with Some L => L | None => k end.

Lemma mc_spec_gen a b c k :
  mc_spec a b c k = gen_spec (arg_nth a) (arg_nth b) (arg_nth c) (avail_of a b c k) k.
Proof.
  unfold mc_spec, gen_spec, avail_of.
  set (av := omin (arg_len a) (omin (arg_len b) (arg_len c))).
  assert (En : match av with None => k | Some L => Nat.min k L end
               = Nat.min k match av with Some L => L | None => k end)
    by (destruct av; lia).
  rewrite En. set (n := Nat.min k _).
  assert (Ee : match av with None => EMore | Some L => if (k <=? L)%nat then EMore else EStop end
               = if (k <=? match av with Some L => L | None => k end)%nat then EMore else EStop).
  { destruct av; [reflexivity|]. rewrite Nat.leb_refl. reflexivity. }
  rewrite Ee.
  destruct b as [m|ms]; [|reflexivity].
  (* number modulo: closed form = recurrence unless the modulo is zero *)
  change (arg_nth (Num m)) with (fun _ : nat => m). cbn beta.
  destruct (Qc_is0 m) eqn:Em.
  - destruct n as [|n']; [reflexivity|]. cbn [first_bad]. reflexivity.
  - apply Qc_is0_false in Em.
    assert (R : forall j, mc_val a (Num m) c j = mc_rec (arg_nth a) (fun _ => m) (arg_nth c) j).
    { intro j. unfold mc_val. symmetry. apply mc_closed_form. exact Em. }
    destruct (first_bad _ 0 n); f_equal; apply map_ext; exact R.
Qed.

Lemma glue P M S a b c k :
  min3 (length P) (length M) (length S) = avail_of a b c k ->
  (forall j, (j < avail_of a b c k)%nat -> seqf P j = arg_nth a j) ->
  (forall j, (j < avail_of a b c k)%nat -> seqf M j = arg_nth b j) ->
  (forall j, (j < avail_of a b c k)%nat -> seqf S j = arg_nth c j) ->
  take_res k (mc_sss 0 0 P M S) = mc_spec a b c k.
Proof.
  intros HN Hp Hm Hs. rewrite mc_list_gen, mc_spec_gen, HN. apply gen_spec_ext; assumption.
Qed.

Ltac glue_side := unfold avail_of, min3; cbn [arg_len omin]; rewrite ?repeat_length; try lia.
Ltac glue_rep := intros j Hj; first [reflexivity | apply seqf_repeat; revert Hj; glue_side].

(* modulo_counter = mc_spec: every numbers-vs-streams combination, every exact input, every number of pulls *)
Theorem modulo_counter_is_spec start modulo step k :
  modulo_counter start modulo step k = mc_spec start modulo step k.
Proof.
  destruct start as [p|ps]; destruct modulo as [m|ms]; destruct step as [s|ss]; cbn [modulo_counter].
  - (* nnn *) rewrite mc_nnn_sss. apply glue; [glue_side|glue_rep|glue_rep|glue_rep].
  - (* nns *) rewrite mc_nns_nss, (mc_nss_sss _ p 0 0 p) by ring.
    apply glue; [glue_side|glue_rep|glue_rep|glue_rep].
  - (* nsn *) rewrite mc_nsn_nss, (mc_nss_sss _ p 0 0 p) by ring.
    apply glue; [glue_side|glue_rep|glue_rep|glue_rep].
  - (* nss *) rewrite (mc_nss_sss _ p 0 0 p) by ring.
    apply glue; [glue_side|glue_rep|glue_rep|glue_rep].
  - (* snn *) rewrite mc_snn_sss. apply glue; [glue_side|glue_rep|glue_rep|glue_rep].
  - (* sns *) rewrite mc_sns_sss. apply glue; [glue_side|glue_rep|glue_rep|glue_rep].
  - (* ssn *) rewrite mc_ssn_sss. apply glue; [glue_side|glue_rep|glue_rep|glue_rep].
  - (* sss *) apply glue; [glue_side|glue_rep|glue_rep|glue_rep].
Qed.
