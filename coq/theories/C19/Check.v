(* C19 - case records and boolean checkers for the generated case files:
   corr_* = "the implementation's observation equals the model's output",
   holds_* = "the implementation's observation satisfies the closed-form spec". *)
From Coq Require Import String List Bool Arith ZArith QArith Qcanon.
From AL Require Import Base.CaseLib C19.Lib C19.Model C19.Spec.
Import ListNotations.
Open Scope string_scope.
Open Scope list_scope.
Open Scope Qc_scope.

Definition ending_eqb (a b : ending) : bool :=
  match a, b with
  | EStop, EStop | EMore, EMore => true
  | ERaise x, ERaise y => String.eqb x y
  | _, _ => false
  end.
Definition res_eqb (a b : res) : bool :=
  list_eqb Qc_eqb (fst a) (fst b) && ending_eqb (snd a) (snd b).

(* ------------------------------------------------------------------ modulo_counter *)
Record mc_case := MCC { mc_start : arg; mc_modulo : arg; mc_step : arg; mc_k : nat;
                        mc_obs : list Qc; mc_end : ending }.
Definition corr_mc (c : mc_case) : bool :=
  res_eqb (modulo_counter (mc_start c) (mc_modulo c) (mc_step c) (mc_k c)) (mc_obs c, mc_end c).
Definition holds_mc (c : mc_case) : bool :=
  res_eqb (mc_spec (mc_start c) (mc_modulo c) (mc_step c) (mc_k c)) (mc_obs c, mc_end c)
  && match mc_modulo c with        (* reduced into [0, modulo) *)
     | Num m => if Qc_ltb 0 m then forallb (fun v => Qc_leb 0 v && Qc_ltb v m) (mc_obs c) else true
     | Str _ => true
     end.

(* ------------------------------------------------------------------ durations / envelopes *)
Inductive dcall :=
| CLine (d : dur) (b e : Qc) (fin : bool)
| CFadein (d : dur) | CFadeout (d : dur)
| COnes (d : dur) | CZeros (d : dur)
| CImpulse (d : dur) (one zero : Qc)
| CWhite (d : dur) (lo hi : Qc)
| CGauss (d : dur) (mu sigma : Qc)
| CAdsr (dq a d s r : Qc)
| CAttack (a d : Qc) (s : arg).
(* us: the recorded unit random numbers; the patched random.uniform(lo, hi) returns lo + (hi - lo) * u_i,
   the patched random.gauss(mu, sigma) returns mu + sigma * u_i *)
Record d_case := DC { d_call : dcall; d_k : nat; d_us : list Qc; d_obs : list Qc; d_end : ending }.

Definition uni_oracle (us : list Qc) (lo hi : Qc) (i : nat) : Qc := lo + (hi - lo) * nth i us 0.
Definition gauss_oracle (us : list Qc) (mu sigma : Qc) (i : nat) : Qc := mu + sigma * nth i us 0.

Definition run_dcall (c : dcall) (k : nat) (us : list Qc) : res :=
  match c with
  | CLine d b e fin => take_res k (line d b e fin)
  | CFadein d => take_res k (fadein d)
  | CFadeout d => take_res k (fadeout d)
  | COnes d => ones d k
  | CZeros d => zeros d k
  | CImpulse d one zero => impulse d one zero k
  | CWhite d lo hi => noise (uni_oracle us) d lo hi k
  | CGauss d mu sigma => noise (gauss_oracle us) d mu sigma k
  | CAdsr dq a d s r => take_res k (adsr dq a d s r)
  | CAttack a d s => attack a d s k
  end.
Definition corr_dur (c : d_case) : bool :=
  res_eqb (run_dcall (d_call c) (d_k c) (d_us c)) (d_obs c, d_end c).

Definition fin_res (k : nat) (l : list Qc) : res := take_res k (l, EStop).
Definition nonneg3 (a d r : Qc) : bool := Qc_leb 0 a && Qc_leb 0 d && Qc_leb 0 r.
Definition in_range (lo hi : Qc) (l : list Qc) : bool := forallb (fun v => Qc_leb lo v && Qc_leb v hi) l.

(* what the text states, evaluated on the observation; where the text is silent (infinite
   duration of a finite generator, negative segment times, an empty sustain) nothing is demanded *)
Definition holds_dur (c : d_case) : bool :=
  let k := d_k c in let o := (d_obs c, d_end c) in
  match d_call c with
  | CLine (DFin d) b e fin => res_eqb (fin_res k (line_spec d b e fin)) o
  | CFadein (DFin d) => res_eqb (fin_res k (line_spec d 0 1 false)) o
  | CFadeout (DFin d) => res_eqb (fin_res k (line_spec d 1 0 false)) o
  | COnes (DFin d) => res_eqb (fin_res k (repeat 1 (nearest_len d))) o
  | CZeros (DFin d) => res_eqb (fin_res k (repeat 0 (nearest_len d))) o
  | COnes DPInf | COnes DNone => res_eqb (repeat 1 k, EMore) o
  | CZeros DPInf | CZeros DNone => res_eqb (repeat 0 k, EMore) o
  | CImpulse (DFin d) one zero =>
      res_eqb (fin_res k (match nearest_len d with O => [] | S n => one :: repeat zero n end)) o
  | CImpulse DPInf one zero | CImpulse DNone one zero => res_eqb (firstn k (one :: repeat zero k), EMore) o
  | CWhite (DFin d) lo hi =>
      (length (d_obs c) =? Nat.min k (Z.to_nat (rint d)))%nat
      && ending_eqb (d_end c) (if (k <=? Z.to_nat (rint d))%nat then EMore else EStop)
      && (if forallb (fun u => Qc_leb 0 u && Qc_leb u 1) (d_us c) && Qc_leb lo hi
          then in_range lo hi (d_obs c) else true)
  | CWhite DPInf lo hi | CWhite DNone lo hi =>
      (length (d_obs c) =? k)%nat && ending_eqb (d_end c) EMore
      && (if forallb (fun u => Qc_leb 0 u && Qc_leb u 1) (d_us c) && Qc_leb lo hi
          then in_range lo hi (d_obs c) else true)
  | CGauss (DFin d) _ _ =>
      (length (d_obs c) =? Nat.min k (Z.to_nat (rint d)))%nat
      && ending_eqb (d_end c) (if (k <=? Z.to_nat (rint d))%nat then EMore else EStop)
  | CGauss DPInf _ _ | CGauss DNone _ _ => (length (d_obs c) =? k)%nat && ending_eqb (d_end c) EMore
  | CAdsr dq a d s r =>
      if nonneg3 a d r then res_eqb (fin_res k (adsr_spec dq a d s r)) o else true
  | CAttack a d s =>
      if Qc_leb 0 a && Qc_leb 0 d then
        match s with
        | Num s0 => res_eqb (map (attack_sample a d s0 (nearest_len a) (nearest_len d) (fun _ => s0)) (seq 0 k), EMore) o
        | Str (s0 :: rest) =>
            let n := (nearest_len a + nearest_len d + length rest)%nat in
            res_eqb (fin_res k (map (attack_sample a d s0 (nearest_len a) (nearest_len d) (fun i => nth i rest 0)) (seq 0 n))) o
        | Str [] => true
        end
      else true
  | _ => true
  end.

(* ------------------------------------------------------------------ TableLookup *)
Inductive tcall :=
| TCall (tbl : list Qc) (cycles : Qc) (freq phase : arg) (k : nat)
| TCallF (tbl : list Qc) (cycles cl : Qc) (freq phase : arg) (k : nat)   (* int / float cycles: cl observed *)
| TGet (tbl : list Qc) (idx : Qc)
| TBinTT (o : binop) (t1 : list Qc) (c1 : Qc) (t2 : list Qc) (c2 : Qc)
| TBinTS (o : binop) (t1 : list Qc) (c1 : Qc) (x : Qc)
| TBinST (o : binop) (x : Qc) (t1 : list Qc) (c1 : Qc)
| TNeg (t1 : list Qc) (c1 : Qc) | TPos (t1 : list Qc) (c1 : Qc)
| TEq (t1 : list Qc) (c1 : Qc) (t2 : list Qc) (c2 : Qc)      (* __eq__ / __ne__: 1 = equal *)
| TNorm (t1 : list Qc) (c1 : Qc)
| THarm (t1 : list Qc) (c1 : Qc) (h : list (nat * Qc)).
Inductive tobs := ORes (l : list Qc) (e : ending) | OVal (q : Qc) | OTbl (t : list Qc) (c : Qc) | OErr (e : string).
Record t_case := TC { t_call : tcall; t_obs : tobs }.

Definition tres_obs (r : tres) : tobs := match r with TOk t c => OTbl t c | TRaise e => OErr e end.
Definition tobs_eqb (a b : tobs) : bool :=
  match a, b with
  | ORes l e, ORes l' e' => res_eqb (l, e) (l', e')
  | OVal q, OVal q' => Qc_eqb q q'
  | OTbl t c, OTbl t' c' => list_eqb Qc_eqb t t' && Qc_eqb c c'
  | OErr e, OErr e' => String.eqb e e'
  | _, _ => false
  end.
Definition run_tcall (c : tcall) : tobs :=
  match c with
  | TCall tbl cycles freq phase k => let r := table_call tbl cycles freq phase k in ORes (fst r) (snd r)
  | TCallF tbl cycles cl freq phase k => let r := table_call_cl tbl cl freq phase k in ORes (fst r) (snd r)
  | TGet tbl idx => match table_getitem tbl idx with
                    | Some v => OVal v
                    | None => OErr (if (length tbl =? 0)%nat then "ZeroDivisionError" else "IndexError")
                    end
  | TBinTT o t1 c1 t2 c2 => tres_obs (table_binop_tt o t1 c1 t2 c2)
  | TBinTS o t1 c1 x => tres_obs (table_binop_ts o t1 c1 x)
  | TBinST o x t1 c1 => tres_obs (table_binop_st o x t1 c1)
  | TNeg t1 c1 => tres_obs (table_neg t1 c1)
  | TEq t1 c1 t2 c2 => OVal (if Qc_eqb c1 c2 && list_eqb Qc_eqb t1 t2 then 1 else 0)
  | TPos t1 c1 => tres_obs (table_pos t1 c1)
  | TNorm t1 c1 => tres_obs (table_normalize t1 c1)
  | THarm t1 c1 h => tres_obs (table_harmonize t1 c1 h)
  end.
(* the observed float constant is len/(cycles*2*pi) up to the rounding of one float product and one float
   quotient (relative 2^-50 is generous) *)
Definition cl_plausible (tbl : list Qc) (cycles cl : Qc) : bool :=
  let len := nq (length tbl) in
  let den := cycles * (1 + 1) * pi_fl in
  Qc_leb (Qc_abs (cl * den - len)) (len * qc 1 1125899906842624).
Definition corr_table (c : t_case) : bool :=
  tobs_eqb (run_tcall (t_call c)) (t_obs c)
  && match t_call c with TCallF tbl cycles cl _ _ _ => cl_plausible tbl cycles cl | _ => true end.

(* pointwise check of a binary operator result (None entries = the operator raised) *)
Fixpoint pointwise (f : nat -> option Qc) (i : nat) (r : list Qc) : bool :=
  match r with
  | [] => true
  | y :: r' => match f i with Some v => Qc_eqb v y | None => false end && pointwise f (S i) r'
  end.
Definition maxabs_is (l : list Qc) (b : Qc) : bool :=
  forallb (fun v => Qc_leb (Qc_abs v) b) l && existsb (fun v => Qc_eqb (Qc_abs v) b) l.

Definition holds_table (c : t_case) : bool :=
  match t_call c, t_obs c with
  | TCall tbl cycles freq phase k, ORes l e =>
      if Qc_is0 (cycles * (1 + 1) * pi_fl) then true
      else res_eqb (table_call_spec tbl cycles freq phase k) (l, e)
  | TCallF tbl cycles cl freq phase k, ORes l e =>
      cl_plausible tbl cycles cl && res_eqb (table_call_spec_cl tbl cl freq phase k) (l, e)
  | TGet tbl idx, OVal v =>
      if Qc_leb 0 idx then Qc_eqb v (cyc_lerp tbl idx) else true
  | TGet tbl idx, OErr _ => (length tbl =? 0)%nat
  | TBinTT o t1 c1 t2 c2, OTbl r cr =>
      Qc_eqb c1 c2 && Qc_eqb cr c1 && (length t1 =? length t2)%nat && (length r =? length t1)%nat
      && pointwise (fun i => apply_binop o (nth i t1 0) (nth i t2 0)) 0 r
  | TBinTS o t1 c1 x, OTbl r cr =>
      Qc_eqb cr c1 && (length r =? length t1)%nat && pointwise (fun i => apply_binop o (nth i t1 0) x) 0 r
  | TBinST o x t1 c1, OTbl r cr =>
      Qc_eqb cr c1 && (length r =? length t1)%nat && pointwise (fun i => apply_binop o x (nth i t1 0)) 0 r
  | TEq t1 c1 t2 c2, OVal v => Qc_eqb v (if Qc_eqb c1 c2 && list_eqb Qc_eqb t1 t2 then 1 else 0)
  | TNeg t1 c1, OTbl r cr =>
      Qc_eqb cr c1 && (length r =? length t1)%nat && pointwise (fun i => Some (- nth i t1 0)) 0 r
  | TPos t1 c1, OTbl r cr => Qc_eqb cr c1 && list_eqb Qc_eqb r t1
  | TNorm t1 c1, OTbl r cr =>
      (* values range from -1 to 1, reaching one of them, and r is t1 divided by one of its entries *)
      Qc_eqb cr c1 && (length r =? length t1)%nat && maxabs_is r 1
      && existsb (fun mx => negb (Qc_is0 mx) && pointwise (fun i => Some (nth i t1 0 / mx)) 0 r) t1
  | TNorm t1 c1, OErr _ => forallb Qc_is0 t1          (* no data, or only zeros *)
  | THarm t1 c1 h, OTbl r cr =>
      Qc_eqb cr c1 && (length r =? length t1)%nat && pointwise (fun i => Some (harm_sample t1 h i)) 0 r
  | _, _ => true
  end.

(* ------------------------------------------------------------------ resample *)
Record r_case := RC { r_sig : list Qc; r_old : arg; r_new : Qc; r_order : nat; r_zero : Qc; r_k : nat;
                      r_obs : list Qc; r_end : ending }.
Definition corr_resample (c : r_case) : bool :=
  res_eqb (resample (r_sig c) (r_old c) (r_new c) (r_order c) (r_zero c) (r_k c)) (r_obs c, r_end c).
(* output m = Lagrange interpolation of the order+1 neighbouring samples at position sum of the steps
   (= m*old/new); the output ends with the input.  Demanded for non-negative steps. *)
Definition holds_resample (c : r_case) : bool :=
  if Qc_is0 (r_new c) then true
  else if negb (arg_nonneg (step_of (r_old c) (r_new c))) then true
  else if (r_k c =? 0)%nat then true
  else res_eqb (resample_spec (r_sig c) (r_old c) (r_new c) (r_order c) (r_zero c) (r_k c)) (r_obs c, r_end c).

(* ------------------------------------------------------------------ sinusoid, karplus_strong *)
Inductive ocall :=
| OSin (freq phase : arg) (k : nat)
| OKarplus (freq tau alpha : Qc) (mem : list Qc) (k : nat) (expo : Qc) (ncalls : option nat).
Record o_case := OC { o_call : ocall; o_obs : list Qc; o_end : ending }.
Definition corr_osc (c : o_case) : bool :=
  match o_call c with
  | OSin freq phase k => res_eqb (sinusoid_args freq phase k) (o_obs c, o_end c)
  | OKarplus freq tau alpha mem k expo ncalls =>
      res_eqb (karplus_strong freq alpha mem k) (o_obs c, o_end c)
      && Qc_eqb expo (ks_exponent freq tau)
      && match ncalls with None => true | Some n => (n =? ks_lm (ks_delay freq))%nat end
  end.
Definition holds_osc (c : o_case) : bool :=
  match o_call c with
  | OSin freq phase k =>
      (* the argument handed to sin is (phase_n + sum of the earlier freqs) mod fl(2 pi) *)
      res_eqb (mc_spec phase (Num two_pi_fl) freq k) (o_obs c, o_end c)
  | OKarplus freq tau alpha mem k expo ncalls =>
      let delay := two_pi_fl / freq in
      Qc_eqb expo (- delay / tau)
      && match o_end c with
         | EMore => (length (o_obs c) =? k)%nat
                    && forallb (ks_holds_at delay alpha (ks_memory (ks_lm delay) mem) (o_obs c)) (seq 0 k)
         | _ => Qc_is0 (ks_den delay alpha 0)
         end
  end.

(* ------------------------------------------------------------------ histories *)
(* several calls made in one process on shared / mutated objects: every call is recorded with the CURRENT
   public contents of its arguments and must satisfy the per-call checkers *)
Inductive any_case :=
| AMc (c : mc_case) | ADur (c : d_case) | ATab (c : t_case) | ARs (c : r_case) | AOsc (c : o_case)
| ABad (what : string).      (* an observation the harness could not classify: never accepted *)
Definition corr_any (a : any_case) : bool :=
  match a with
  | AMc c => corr_mc c | ADur c => corr_dur c | ATab c => corr_table c | ARs c => corr_resample c
  | AOsc c => corr_osc c | ABad _ => false
  end.
Definition holds_any (a : any_case) : bool :=
  match a with
  | AMc c => holds_mc c | ADur c => holds_dur c | ATab c => holds_table c | ARs c => holds_resample c
  | AOsc c => holds_osc c | ABad _ => false
  end.
Definition corr_hist (h : list any_case) : bool := forallb corr_any h.
Definition holds_hist (h : list any_case) : bool := forallb holds_any h.

(* ------------------------------------------------------------------ machine floats (inexact arithmetic) *)
(* The implementation is run on plain Python floats.  Its outputs (exact rationals of the observed floats) must
   (1) lie in [0, modulo) AS SUCH - no tolerance: "reduced into [0, modulo)" - and (2) agree with the exact closed
   form as points of the circle up to the stated rounding tolerance; so all branches / fast paths also agree with
   each other.  corr compares with the exact model the same way. *)
Definition circ_close (m tol a b : Qc) : bool :=
  let d := Qc_abs (a - b) in Qc_leb d tol || Qc_leb (Qc_abs m - d) tol.
Fixpoint close_list (ms : nat -> Qc) (tol : Qc) (i : nat) (a b : list Qc) : bool :=
  match a, b with
  | [], [] => true
  | x :: a', y :: b' => circ_close (ms i) tol x y && close_list ms tol (S i) a' b'
  | _, _ => false
  end.
Definition in_range_mod (m v : Qc) : bool :=
  if Qc_ltb 0 m then Qc_leb 0 v && Qc_ltb v m
  else if Qc_ltb m 0 then Qc_ltb m v && Qc_leb v 0 else true.
Fixpoint range_list (ms : nat -> Qc) (i : nat) (l : list Qc) : bool :=
  match l with [] => true | v :: l' => in_range_mod (ms i) v && range_list ms (S i) l' end.

Record fmc_case := FMC { f_start : arg; f_modulo : arg; f_step : arg; f_k : nat; f_tol : Qc;
                         f_obs : list Qc; f_end : ending }.
Definition corr_fmc (c : fmc_case) : bool :=
  let r := modulo_counter (f_start c) (f_modulo c) (f_step c) (f_k c) in
  ending_eqb (snd r) (f_end c) && close_list (arg_nth (f_modulo c)) (f_tol c) 0 (fst r) (f_obs c).
Definition holds_fmc (c : fmc_case) : bool :=
  let r := mc_spec (f_start c) (f_modulo c) (f_step c) (f_k c) in
  ending_eqb (snd r) (f_end c) && close_list (arg_nth (f_modulo c)) (f_tol c) 0 (fst r) (f_obs c)
  && range_list (arg_nth (f_modulo c)) 0 (f_obs c).

(* float TableLookup oscillator: value tolerance (the cyclic interpolation is continuous on the circle) *)
Fixpoint near_list (tol : Qc) (a b : list Qc) : bool :=
  match a, b with
  | [], [] => true
  | x :: a', y :: b' => Qc_leb (Qc_abs (x - y)) tol && near_list tol a' b'
  | _, _ => false
  end.
Record ftab_case := FT { ft_tbl : list Qc; ft_cycles : Qc; ft_cl : Qc; ft_freq : arg; ft_phase : arg; ft_k : nat;
                         ft_tol : Qc; ft_obs : list Qc; ft_end : ending }.
Definition corr_ftab (c : ftab_case) : bool :=
  let r := table_call_cl (ft_tbl c) (ft_cl c) (ft_freq c) (ft_phase c) (ft_k c) in
  cl_plausible (ft_tbl c) (ft_cycles c) (ft_cl c)
  && ending_eqb (snd r) (ft_end c) && near_list (ft_tol c) (fst r) (ft_obs c).
Definition holds_ftab (c : ftab_case) : bool :=
  let r := table_call_spec_cl (ft_tbl c) (ft_cl c) (ft_freq c) (ft_phase c) (ft_k c) in
  cl_plausible (ft_tbl c) (ft_cycles c) (ft_cl c)
  && ending_eqb (snd r) (ft_end c) && near_list (ft_tol c) (fst r) (ft_obs c).
