(* C19 - what the property text promises, as closed forms that do not mention the
   models' internal state (counters, re-basing, deque, idx).  Definitions only. *)
From Coq Require Import String List Bool Arith ZArith QArith Qcanon.
From AL Require Import Base.CaseLib C19.Lib C19.Model.
Import ListNotations.
Open Scope string_scope.
Open Scope list_scope.
Open Scope Qc_scope.

(* ------------------------------------------------------------------ sequences *)
Definition arg_nth (a : arg) (n : nat) : Qc :=
  match a with Num q => q | Str l => nth n l 0 end.
Definition arg_len (a : arg) : option nat :=
  match a with Num _ => None | Str l => Some (length l) end.
Definition omin (a b : option nat) : option nat :=
  match a, b with
  | None, x | x, None => x
  | Some x, Some y => Some (Nat.min x y)
  end.
Fixpoint sumq (f : nat -> Qc) (n : nat) : Qc :=
  match n with O => 0 | S n' => sumq f n' + f n' end.

(* first index i < n with bad i *)
Fixpoint first_bad (bad : nat -> bool) (i n : nat) : option nat :=
  match n with
  | O => None
  | S n' => if bad i then Some i else first_bad bad (S i) n'
  end.

(* ------------------------------------------------------------------ modulo_counter *)
(* general recurrence: c_0 = p_0 mod m_0,  c_n = (c_{n-1} + s_{n-1} + p_n - p_{n-1}) mod m_n *)
Fixpoint mc_rec (p m s : nat -> Qc) (n : nat) : Qc :=
  match n with
  | O => qmod (p O) (m O)
  | S n' => qmod (mc_rec p m s n' + s n' + (p (S n') - p n')) (m (S n'))
  end.
(* constant modulo: running sum of start and all earlier steps, reduced *)
Definition mc_closed (p s : nat -> Qc) (m : Qc) (n : nat) : Qc := qmod (p n + sumq s n) m.

Definition mc_val (start modulo step : arg) (n : nat) : Qc :=
  match modulo with
  | Num m => mc_closed (arg_nth start) (arg_nth step) m n
  | Str _ => mc_rec (arg_nth start) (arg_nth modulo) (arg_nth step) n
  end.

(* the stream ends with its shortest iterable argument; a zero modulo raises when reached *)
Definition mc_spec (start modulo step : arg) (k : nat) : res :=
  let avail := omin (arg_len start) (omin (arg_len modulo) (arg_len step)) in
  let n := match avail with None => k | Some L => Nat.min k L end in
  match first_bad (fun i => Qc_is0 (arg_nth modulo i)) 0 n with
  | Some i => (map (mc_val start modulo step) (seq 0 i), zde)
  | None => (map (mc_val start modulo step) (seq 0 n),
             match avail with
             | None => EMore
             | Some L => if (k <=? L)%nat then EMore else EStop
             end)
  end.

(* ------------------------------------------------------------------ durations and envelopes *)
(* int(dur + .5) *)
Definition nearest_len (d : Qc) : nat := Z.to_nat (qtrunc (d + half)).

Definition line_spec (d b e : Qc) (finish : bool) : list Qc :=
  map (fun i => b + nq i * ((e - b) / (d - (if finish then 1 else 0)))) (seq 0 (nearest_len d)).

Definition adsr_sample (a d s r : Qc) (la ld ls : nat) (i : nat) : Qc :=
  if (i <? la)%nat then nq i / a
  else if (i <? la + ld)%nat then 1 + nq (i - la) * ((s - 1) / d)
  else if (i <? la + ld + ls)%nat then s
  else s - nq (i - la - ld - ls) * (s / r).
Definition adsr_lens (dq a d r : Qc) : nat * nat * nat * nat :=
  let la := nearest_len a in let ld := nearest_len d in let lr := nearest_len r in
  (la, ld, (nearest_len dq - la - ld - lr)%nat, lr).
Definition adsr_spec (dq a d s r : Qc) : list Qc :=
  let '(la, ld, ls, lr) := adsr_lens dq a d r in
  map (adsr_sample a d s r la ld ls) (seq 0 (la + ld + ls + lr)).

(* attack: attack and decay segments, then the sustain values *)
Definition attack_sample (a d s0 : Qc) (la ld : nat) (sustain : nat -> Qc) (i : nat) : Qc :=
  if (i <? la)%nat then nq i / a
  else if (i <? la + ld)%nat then 1 + nq (i - la) * ((s0 - 1) / d)
  else sustain (i - la - ld)%nat.

(* ------------------------------------------------------------------ TableLookup *)
(* cyclic linear interpolation of the table at a real position x *)
Definition cyc_get (tbl : list Qc) (i : Z) : Qc :=
  nth (Z.to_nat (i mod Z.of_nat (length tbl))) tbl 0.
Definition cyc_lerp (tbl : list Qc) (x : Qc) : Qc :=
  let i := qfloor x in
  let fr := x - zq i in
  cyc_get tbl i * (1 - fr) + cyc_get tbl (i + 1) * fr.

(* oscillator: position of sample j is  cl * (phase_j + sum_{i<j} freq_i)  mod len,  cl = len/(cycles*2*pi) *)
Definition table_call_spec_cl (tbl : list Qc) (cl : Qc) (freq phase : arg) (k : nat) : res :=
  let r := mc_spec (scale_arg cl phase) (Num (nq (length tbl))) (scale_arg cl freq) k in
  (map (cyc_lerp tbl) (fst r), snd r).
Definition table_call_spec (tbl : list Qc) (cycles : Qc) (freq phase : arg) (k : nat) : res :=
  table_call_spec_cl tbl (nq (length tbl) / (cycles * (1 + 1) * pi_fl)) freq phase k.

(* harmonize: partial p contributes  amplitude * T_p[i mod |T_p|],  T_p[j] = table[j*(p+1)] *)
Definition harm_sample (tbl : list Qc) (h : list (nat * Qc)) (i : nat) : Qc :=
  fold_right (fun pa acc =>
     let st := S (fst pa) in
     let lp := ((length tbl + fst pa) / st)%nat in       (* ceil(len / (p+1)) *)
     nth ((i mod lp) * st) tbl 0 * snd pa + acc) 0 h.

(* ------------------------------------------------------------------ resample *)
(* Lagrange interpolation through the points (xs_j, ys_j) *)
Definition lag_basis_nodes (xs : list Qc) (j : nat) (x : Qc) : Qc :=
  fold_right (fun i acc => if (i =? j)%nat then acc
                           else (x - nth i xs 0) / (nth j xs 0 - nth i xs 0) * acc) 1 (seq 0 (length xs)).
Definition lagrange_nodes (xs ys : list Qc) (x : Qc) : Qc :=
  fold_right (fun j acc => nth j ys 0 * lag_basis_nodes xs j x + acc) 0 (seq 0 (length xs)).

(* the input, zero-extended on the left *)
Definition sig_ext (sig : list Qc) (zero : Qc) (t : Z) : Qc :=
  if (t <? 0)%Z then zero else nth (Z.to_nat t) sig 0.

(* window of order+1 neighbouring samples around position pos: first index ceil(pos - (order+1)/2) *)
Definition rs_base (order : nat) (pos : Qc) : Z := qceil (pos - half * nq (order + 1)).
Definition rs_sample (sig : list Qc) (zero : Qc) (order : nat) (pos : Qc) : Qc :=
  let b := rs_base order pos in
  lagrange_nodes (map (fun i => zq (b + Z.of_nat i)) (seq 0 (order + 1)))
                 (map (fun i => sig_ext sig zero (b + Z.of_nat i)) (seq 0 (order + 1))) pos.
(* output m exists while the window's last sample exists *)
Definition rs_avail (sig : list Qc) (order : nat) (pos : Qc) : bool :=
  (rs_base order pos + Z.of_nat order <? Z.of_nat (length sig))%Z.

Fixpoint rs_spec_loop (k : nat) (sig : list Qc) (zero : Qc) (order : nat) (pos : Qc) (step : arg) : res :=
  match k with
  | O => ([], EMore)
  | S k' =>
      if rs_avail sig order pos then
        match next_step step with
        | None => ([rs_sample sig zero order pos], EStop)
        | Some (s, step') => rcons (rs_sample sig zero order pos)
                                   (rs_spec_loop k' sig zero order (pos + s) step')
        end
      else ([], EStop)
  end.
Definition step_of (old : arg) (new : Qc) : arg :=
  match old with Num o => Num (o / new) | Str l => Str (map (fun o => o / new) l) end.
Definition resample_spec (sig : list Qc) (old : arg) (new : Qc) (order : nat) (zero : Qc) (k : nat) : res :=
  take_res k (rs_spec_loop k sig zero order 0 (step_of old new)).

Definition arg_nonneg (a : arg) : bool :=
  match a with Num q => Qc_leb 0 q | Str l => forallb (Qc_leb 0) l end.

(* ------------------------------------------------------------------ karplus_strong *)
(* linearised feedback comb on its memory: with D = delay, L = floor D, f = D - L
     y[n] = alpha * ((1 - f) * y[n - L] + f * y[n - L - 1]),   y[-j] = memory[j-1] (0 beyond) *)
Definition ks_hist (mem out : list Qc) (t : Z) : Qc :=
  if (t <? 0)%Z then nth (Z.to_nat (- t - 1)) mem 0 else nth (Z.to_nat t) out 0.
Definition ks_holds_at (delay alpha : Qc) (mem out : list Qc) (n : nat) : bool :=
  let L := qfloor delay in
  let f := delay - zq L in
  Qc_eqb (ks_hist mem out (Z.of_nat n))
         (alpha * ((1 - f) * ks_hist mem out (Z.of_nat n - L) + f * ks_hist mem out (Z.of_nat n - L - 1))).
