(* C19 - karplus_strong: the filter loop run on its memory satisfies the linearised feedback comb
   y[n] = alpha * ((1 - f) * y[n - L] + f * y[n - L - 1]),  L = floor(delay), f = delay - L. *)
From Coq Require Import String List Bool Arith ZArith QArith Qcanon Lia Lqa.
From AL Require Import Base.CaseLib C19.Lib C19.Model C19.Spec C19.Proofs_MC C19.Proofs_Env C19.Proofs_RS C19.Proofs_Tab.
Import ListNotations.
Open Scope list_scope.
Open Scope Qc_scope.

Lemma sum_zero (g : nat -> Qc) : forall n a, (forall i, (a <= i < a + n)%nat -> g i = 0) ->
  fold_right (fun i acc => g i + acc) 0 (seq a n) = 0.
Proof.
  induction n as [|n IH]; intros a H; [reflexivity|]. cbn [seq fold_right].
  rewrite H by lia. rewrite IH by (intros; apply H; lia). ring.
Qed.

Lemma sum_split (g h : nat -> Qc) l :
  fold_right (fun i acc => (g i + h i) + acc) 0 l
  = fold_right (fun i acc => g i + acc) 0 l + fold_right (fun i acc => h i + acc) 0 l.
Proof. induction l as [|x l IH]; cbn [fold_right]; [ring|]. rewrite IH. ring. Qed.

Lemma firstn_cons_firstn (y : Qc) l n : firstn n (y :: firstn n l) = firstn n (y :: l).
Proof.
  destruct n as [|n]; [reflexivity|]. rewrite !firstn_cons. f_equal.
  rewrite firstn_firstn. f_equal. lia.
Qed.

Section KS.
Variables (D alpha : Qc).
Hypothesis HD : 0 < D.

Let L := qfloor D.
Let fr := D - zq L.
Let lm := ks_lm D.
Let Ln := Z.to_nat L.

Lemma ks_L_nonneg : (0 <= L)%Z.
Proof. apply qfloor_nonneg. apply Qclt_le_weak. exact HD. Qed.

Lemma ks_trunc : qtrunc D = L.
Proof. apply qtrunc_nonneg. apply Qclt_le_weak. exact HD. Qed.

Lemma ks_lm_cases : (fr = 0 /\ lm = Ln) \/ (0 < fr /\ lm = S Ln).
Proof.
  pose proof ks_L_nonneg as HL. unfold lm, ks_lm, fr, Ln.
  pose proof (qceil_cases D) as QC. fold L in QC. destruct QC as [[E C]|[Lt C]]; rewrite C.
  - left. split; [rewrite <- E; ring|reflexivity].
  - right. split; [qc_lra|lia].
Qed.

(* the denominator coefficients of z^-(i+1) *)
Lemma ks_den_S i :
  - ks_den D alpha (Z.of_nat (S i))
  = (if (S i =? Ln)%nat then alpha * (1 - fr) else 0) + (if (i =? Ln)%nat then alpha * fr else 0).
Proof.
  pose proof ks_L_nonneg as HL. unfold ks_den. rewrite ks_trunc. fold fr.
  replace (Z.of_nat (S i) =? 0)%Z with false by (symmetry; apply Z.eqb_neq; lia).
  replace (Z.of_nat (S i) =? L)%Z with (S i =? Ln)%nat.
  2:{ unfold Ln. destruct (S i =? Z.to_nat L)%nat eqn:E.
      - apply Nat.eqb_eq in E. symmetry. apply Z.eqb_eq. lia.
      - apply Nat.eqb_neq in E. symmetry. apply Z.eqb_neq. lia. }
  replace (Z.of_nat (S i) =? L + 1)%Z with (i =? Ln)%nat.
  2:{ unfold Ln. destruct (i =? Z.to_nat L)%nat eqn:E.
      - apply Nat.eqb_eq in E. symmetry. apply Z.eqb_eq. lia.
      - apply Nat.eqb_neq in E. symmetry. apply Z.eqb_neq. lia. }
  destruct (S i =? Ln)%nat; destruct (i =? Ln)%nat; ring.
Qed.

Lemma ks_den_0 : ks_den D alpha 0 = 1 - (if (Ln =? 0)%nat then alpha * (1 - fr) else 0).
Proof.
  pose proof ks_L_nonneg as HL. unfold ks_den. rewrite ks_trunc. fold fr.
  replace (0 =? 0)%Z with true by reflexivity.
  replace (0 =? L + 1)%Z with false by (symmetry; apply Z.eqb_neq; lia).
  replace (0 =? L)%Z with (Ln =? 0)%nat.
  2:{ unfold Ln. destruct (Z.to_nat L =? 0)%nat eqn:E.
      - apply Nat.eqb_eq in E. symmetry. apply Z.eqb_eq. lia.
      - apply Nat.eqb_neq in E. symmetry. apply Z.eqb_neq. lia. }
  destruct (Ln =? 0)%nat; ring.
Qed.

(* one output of the filter loop: the weighted sum over the memory is the two-tap feedback *)
Lemma ks_step_sum mem : length mem = lm ->
  fold_right (fun i a => - ks_den D alpha (Z.of_nat (S i)) * nth i mem 0 + a) 0 (seq 0 (length mem))
  = alpha * (1 - fr) * (if (Ln =? 0)%nat then 0 else nth (Ln - 1) mem 0) + alpha * fr * nth Ln mem 0.
Proof.
  intro Hl. rewrite Hl.
  rewrite (fold_right_ext_in _
     (fun i a => ((if (S i =? Ln)%nat then alpha * (1 - fr) * nth i mem 0 else 0)
                 + (if (i =? Ln)%nat then alpha * fr * nth i mem 0 else 0)) + a)).
  2:{ intros i a _. rewrite ks_den_S. destruct (S i =? Ln)%nat; destruct (i =? Ln)%nat; ring. }
  rewrite (sum_split (fun i => if (S i =? Ln)%nat then alpha * (1 - fr) * nth i mem 0 else 0)
                     (fun i => if (i =? Ln)%nat then alpha * fr * nth i mem 0 else 0)).
  f_equal.
  - destruct (Ln =? 0)%nat eqn:E0.
    + apply Nat.eqb_eq in E0. rewrite sum_zero; [ring|]. intros i _.
      replace (S i =? Ln)%nat with false by (symmetry; apply Nat.eqb_neq; lia). reflexivity.
    + apply Nat.eqb_neq in E0.
      apply (sum_delta _ (Ln - 1)%nat).
      * destruct ks_lm_cases as [[_ H]|[_ H]]; lia.
      * intros i Hi. replace (S i =? Ln)%nat with false by (symmetry; apply Nat.eqb_neq; lia). reflexivity.
      * replace (S (Ln - 1) =? Ln)%nat with true by (symmetry; apply Nat.eqb_eq; lia). reflexivity.
  - destruct ks_lm_cases as [[Hf H]|[Hf H]].
    + rewrite Hf. rewrite sum_zero; [ring|]. intros i _. destruct (i =? Ln)%nat; ring.
    + apply (sum_delta _ Ln).
      * lia.
      * intros i Hi. replace (i =? Ln)%nat with false by (symmetry; apply Nat.eqb_neq; lia). reflexivity.
      * rewrite Nat.eqb_refl. reflexivity.
Qed.

(* history: outputs so far (newest last) in front of the initial memory *)
Definition ks_state (mem0 pre : list Qc) : list Qc := firstn lm (rev pre ++ mem0).

Lemma ks_state_nth mem0 pre out j : (1 <= j <= lm)%nat -> length mem0 = lm ->
  nth (j - 1) (ks_state mem0 pre) 0 = ks_hist mem0 (pre ++ out) (Z.of_nat (length pre) - Z.of_nat j).
Proof.
  intros Hj Hm. unfold ks_state. rewrite nth_firstn_lt by lia. unfold ks_hist.
  destruct (Z.of_nat (length pre) - Z.of_nat j <? 0)%Z eqn:E.
  - apply Z.ltb_lt in E. rewrite app_nth2 by (rewrite rev_length; lia). rewrite rev_length.
    f_equal. lia.
  - apply Z.ltb_ge in E. rewrite app_nth1 by (rewrite rev_length; lia).
    rewrite rev_nth by lia. rewrite app_nth1 by lia. f_equal. lia.
Qed.

Lemma ks_state_length mem0 pre : length mem0 = lm -> length (ks_state mem0 pre) = lm.
Proof. intro H. unfold ks_state. rewrite firstn_length, app_length. lia. Qed.

Hypothesis Ha0 : ks_den D alpha 0 <> 0.

Lemma ks_run_holds mem0 : length mem0 = lm -> forall k pre,
  let out := pre ++ ks_run k D alpha (ks_state mem0 pre) in
  forall n, (length pre <= n < length pre + k)%nat -> ks_holds_at D alpha mem0 out n = true.
Proof.
  intros Hm. induction k as [|k IH]; intros pre out n Hn; [lia|].
  unfold out. cbn [ks_run].
  rewrite (ks_state_length mem0 pre Hm).
  set (mem := ks_state mem0 pre).
  set (y := (0 + fold_right _ 0 (seq 0 lm)) / ks_den D alpha 0).
  assert (Hmem' : firstn lm (y :: mem) = ks_state mem0 (pre ++ [y])).
  { unfold mem, ks_state. rewrite rev_app_distr. cbn [rev app]. apply firstn_cons_firstn. }
  rewrite Hmem'.
  replace (pre ++ y :: ks_run k D alpha (ks_state mem0 (pre ++ [y])))
    with ((pre ++ [y]) ++ ks_run k D alpha (ks_state mem0 (pre ++ [y]))) by (rewrite <- app_assoc; reflexivity).
  destruct (Nat.eq_dec n (length pre)) as [->|Nn].
  2:{ apply IH. rewrite app_length. cbn [length]. lia. }
  (* the output produced now *)
  set (rest := ks_run k D alpha (ks_state mem0 (pre ++ [y]))).
  unfold ks_holds_at. fold L. fold fr. apply Qc_eqb_spec.
  assert (Hy : ks_hist mem0 ((pre ++ [y]) ++ rest) (Z.of_nat (length pre)) = y).
  { unfold ks_hist. replace (Z.of_nat (length pre) <? 0)%Z with false by (symmetry; apply Z.ltb_ge; lia).
    rewrite Nat2Z.id, <- app_assoc. cbn [app]. rewrite app_nth2 by lia. rewrite Nat.sub_diag. reflexivity. }
  rewrite Hy.
  assert (Hsum : ks_den D alpha 0 * y
                 = alpha * (1 - fr) * (if (Ln =? 0)%nat then 0 else nth (Ln - 1) mem 0) + alpha * fr * nth Ln mem 0).
  { unfold y. rewrite <- (ks_state_length mem0 pre Hm) at 1. fold mem.
    rewrite (ks_step_sum mem (ks_state_length mem0 pre Hm)). field. exact Ha0. }
  pose proof ks_L_nonneg as HL.
  assert (ZL : Z.of_nat Ln = L) by (unfold Ln; lia).
  (* tap at distance L+1 *)
  assert (T2 : fr * nth Ln mem 0 = fr * ks_hist mem0 ((pre ++ [y]) ++ rest) (Z.of_nat (length pre) - L - 1)).
  { destruct ks_lm_cases as [[Hf H]|[Hf H]]; [rewrite Hf; ring|].
    f_equal. replace Ln with (S Ln - 1)%nat at 1 by lia. unfold mem.
    rewrite (ks_state_nth mem0 pre ([y] ++ rest)) by (try lia; exact Hm).
    rewrite <- app_assoc. f_equal. lia. }
  (* tap at distance L *)
  destruct (Ln =? 0)%nat eqn:E0.
  - apply Nat.eqb_eq in E0. assert (L0 : L = 0%Z) by lia.
    rewrite ks_den_0 in Hsum. replace (Ln =? 0)%nat with true in Hsum by (symmetry; apply Nat.eqb_eq; exact E0).
    rewrite L0 at 1. replace (Z.of_nat (length pre) - 0)%Z with (Z.of_nat (length pre)) by lia.
    rewrite Hy. rewrite <- T2.
    replace (alpha * ((1 - fr) * y + fr * nth Ln mem 0))
      with (alpha * (1 - fr) * y + (alpha * (1 - fr) * 0 + alpha * fr * nth Ln mem 0)) by ring.
    rewrite <- Hsum. ring.
  - apply Nat.eqb_neq in E0.
    rewrite ks_den_0 in Hsum. replace (Ln =? 0)%nat with false in Hsum by (symmetry; apply Nat.eqb_neq; exact E0).
    assert (T1 : nth (Ln - 1) mem 0 = ks_hist mem0 ((pre ++ [y]) ++ rest) (Z.of_nat (length pre) - L)).
    { unfold mem. rewrite (ks_state_nth mem0 pre ([y] ++ rest)).
      - rewrite <- app_assoc. f_equal. lia.
      - destruct ks_lm_cases as [[_ H]|[_ H]]; lia.
      - exact Hm. }
    rewrite <- T1, <- T2.
    replace y with ((1 - 0) * y) by ring. rewrite Hsum. ring.
Qed.

End KS.

Lemma Qcdiv_pos x y : 0 < x -> 0 < y -> 0 < x / y.
Proof.
  intros Hx Hy. apply Qcnot_le_lt. intro H.
  apply (Qcmult_le_compat_r _ _ y) in H; [|apply Qclt_le_weak; exact Hy].
  rewrite Qc_div_mul in H by (intro E; subst; apply (Qclt_not_eq _ _ Hy); reflexivity).
  replace (0 * y) with 0 in H by ring. apply (Qclt_not_le _ _ Hx). exact H.
Qed.

Lemma ks_memory_length lm mem : length (ks_memory lm mem) = lm.
Proof.
  unfold ks_memory. rewrite app_length, repeat_length, firstn_length. lia.
Qed.

(* karplus_is_linearised_comb: every output of karplus_strong (freq > 0, alpha the oracle value of
   e ** (-delay/tau), any memory) satisfies the linearised comb recurrence on its zero-padded memory *)
Theorem karplus_is_linearised_comb freq alpha mem k :
  0 < freq -> ks_den (ks_delay freq) alpha 0 <> 0 ->
  let delay := ks_delay freq in
  let out := fst (karplus_strong freq alpha mem k) in
  snd (karplus_strong freq alpha mem k) = EMore /\ length out = k /\
  forall n, (n < k)%nat -> ks_holds_at delay alpha (ks_memory (ks_lm delay) mem) out n = true.
Proof.
  intros Hf Ha. cbv zeta. unfold karplus_strong. rewrite (proj2 (Qc_is0_false _) Ha). cbn [fst snd].
  assert (HD : 0 < ks_delay freq).
  { unfold ks_delay. apply Qcdiv_pos; [unfold Qclt; reflexivity|exact Hf]. }
  split; [reflexivity|]. split.
  - generalize (ks_memory (ks_lm (ks_delay freq)) mem). induction k as [|k IH]; intro m; [reflexivity|].
    cbn [ks_run length]. rewrite IH. reflexivity.
  - intros n Hn.
    pose proof (ks_run_holds (ks_delay freq) alpha HD Ha (ks_memory (ks_lm (ks_delay freq)) mem)
                  (ks_memory_length _ _) k [] n) as H.
    cbn [app length rev] in H. unfold ks_state in H. cbn [rev app] in H.
    rewrite firstn_all2 in H by (rewrite ks_memory_length; lia).
    apply H. lia.
Qed.
