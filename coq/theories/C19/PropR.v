(* C19 - statements over the reals (Coq Reals: classical axioms allow-listed in harness/C19.py).
   Prop.v stays axiom-free. *)
From Coq Require Import ZArith QArith Qcanon Qreals Reals.
From AL Require Import Base.CaseLib C19.Lib C19.Model C19.Spec C19.ProofsR.
Open Scope R_scope.

(* sinusoid_phase over R: the argument c_n handed to sin (Prop.v: C19_sinusoid_phase, c_n = (phase + n*freq) mod M,
   M = fl(2 pi) as an exact rational) equals phase + n*freq - w_n*M for the integer w_n of wraps (w_n >= 0 when
   phase + n*freq >= 0), hence sin c_n is within w_n * |2 pi - M| of sin(phase + n*freq): sin is 1-Lipschitz
   and 2 pi periodic.  This is the "tolerance only for sin" of the property text, as a theorem. *)
Theorem C19_sinusoid_real : forall freq phase n,
  let c := qmod (phase + nq n * freq)%Qc two_pi_fl in
  let x := qr phase + INR n * qr freq in
  let w := wraps (phase + nq n * freq)%Qc two_pi_fl in
  qr c = x - IZR w * qr two_pi_fl /\
  ((0 <= phase + nq n * freq)%Qc -> (0 <= w)%Z) /\
  Rabs (sin (qr c) - sin x) <= Rabs (IZR w) * Rabs (2 * PI - qr two_pi_fl).
Proof. exact sinusoid_real. Qed.
Print Assumptions C19_sinusoid_real.

