(* C19 - line / fades / ones / zeros / impulse / adsr / noise: lengths and piecewise-linear shapes. *)
From Coq Require Import String List Bool Arith ZArith QArith Qcanon Lia Lqa.
From AL Require Import Base.CaseLib C19.Lib C19.Model C19.Spec.
Import ListNotations.
Open Scope list_scope.
Open Scope Qc_scope.

Lemma half_half : half + half = 1.
Proof. apply Qc_is_canon. reflexivity. Qed.
Lemma half_pos : 0 < half.
Proof. unfold Qclt. reflexivity. Qed.

(* int(d + .5) is the nearest integer (halves go up) for d >= -1/2 ... *)
Theorem nearest_len_round d : 0 <= d + half ->
  d - half < nq (nearest_len d) /\ nq (nearest_len d) <= d + half.
Proof.
  intro H. unfold nearest_len, nq. rewrite qtrunc_nonneg by exact H.
  pose proof (qfloor_nonneg _ H) as Hn. rewrite Z2Nat.id by exact Hn.
  pose proof (qfloor_le (d + half)) as F1. pose proof (qfloor_lt (d + half)) as F2.
  pose proof half_half as HH. split; qc_lra.
Qed.
(* ... and no sample at all for a duration below 1/2 (zero and negative durations included) *)
Theorem nearest_len_small d : d < half -> nearest_len d = O.
Proof.
  intro H. unfold nearest_len. unfold qtrunc. destruct (Qc_ltb (d + half) 0) eqn:E.
  - apply Qc_ltb_spec in E. pose proof (qceil_lt (d + half)) as C.
    assert (A : zq (qceil (d + half)) < zq 1) by (rewrite zq_1; qc_lra).
    apply zq_lt in A. lia.
  - assert (F : qfloor (d + half) = 0%Z).
    { apply qfloor_unique; rewrite zq_0.
      - destruct (Qc_leb 0 (d + half)) eqn:L; [apply Qc_leb_spec in L; exact L|].
        unfold Qc_ltb in E. rewrite L in E. discriminate.
      - pose proof half_half. qc_lra. }
    rewrite F. reflexivity.
Qed.

Lemma nth_firstn_lt {A} (l : list A) d : forall k i, (i < k)%nat -> nth i (firstn k l) d = nth i l d.
Proof.
  induction l as [|x l IH]; intros k i H.
  - rewrite firstn_nil. reflexivity.
  - destruct k as [|k]; [lia|]. destruct i as [|i]; [reflexivity|]. cbn [firstn nth]. apply IH. lia.
Qed.

Lemma nth_map_seq {A} (f : nat -> A) n i d : (i < n)%nat -> nth i (map f (seq 0 n)) d = f i.
Proof.
  intro H. rewrite (nth_indep _ d (f O)) by (rewrite map_length, seq_length; exact H).
  rewrite map_nth, seq_nth by exact H. reflexivity.
Qed.

(* ------------------------------------------------------------------ line *)
Theorem line_is_spec d b e (fin : bool) :
  d - (if fin then 1 else 0) <> 0 -> line (DFin d) b e fin = (line_spec d b e fin, EStop).
Proof.
  intro H. unfold line. apply Qc_is0_false in H. rewrite H. f_equal.
  unfold line_spec, idxs, range_len, nearest_len. rewrite map_map. reflexivity.
Qed.

Theorem line_length d b e (fin : bool) : length (line_spec d b e fin) = nearest_len d.
Proof. unfold line_spec. rewrite map_length, seq_length. reflexivity. Qed.

Theorem line_nth d b e (fin : bool) i : (i < nearest_len d)%nat ->
  nth i (line_spec d b e fin) 0 = b + nq i * ((e - b) / (d - (if fin then 1 else 0))).
Proof.
  intro H. unfold line_spec. rewrite nth_map_seq by exact H. reflexivity.
Qed.

(* the known finding C19-line-zero-division, stated on the faithful model *)
Theorem line_zero_division d b e (fin : bool) :
  d - (if fin then 1 else 0) = 0 -> line (DFin d) b e fin = ([], zde).
Proof. intro H. unfold line. apply Qc_is0_spec in H. rewrite H. reflexivity. Qed.

Theorem fadein_is_line d : fadein d = line d 0 1 false.
Proof. reflexivity. Qed.
Theorem fadeout_is_line d : fadeout d = line d 1 0 false.
Proof. reflexivity. Qed.

(* ------------------------------------------------------------------ ones / zeros *)
Theorem const_gen_finite v d k :
  const_gen v (DFin d) k = take_res k (repeat v (nearest_len d), EStop).
Proof.
  unfold const_gen, range_len, nearest_len. rewrite (Qcplus_comm half d). reflexivity.
Qed.
Theorem const_gen_endless v k :
  const_gen v DPInf k = (repeat v k, EMore) /\ const_gen v DNone k = (repeat v k, EMore).
Proof. split; reflexivity. Qed.

(* ------------------------------------------------------------------ impulse *)
Theorem impulse_length_identity d : half <= d ->
  nearest_len d = S (range_len (d - half)).
Proof.
  intro H. unfold nearest_len, range_len.
  assert (H0 : 0 <= d - half) by qc_lra.
  assert (H1 : 0 <= d + half) by (pose proof half_pos; qc_lra).
  rewrite !qtrunc_nonneg by assumption.
  replace (d + half) with (d - half + zq 1) by (rewrite zq_1, <- half_half; ring).
  rewrite qfloor_add_int. pose proof (qfloor_nonneg _ H0). lia.
Qed.

Theorem impulse_spec d one zero k :
  impulse (DFin d) one zero k
  = take_res k (match nearest_len d with O => [] | S n => one :: repeat zero n end, EStop).
Proof.
  unfold impulse. destruct (Qc_leb half d) eqn:E.
  - apply Qc_leb_spec in E. rewrite (impulse_length_identity d E). reflexivity.
  - rewrite nearest_len_small; [reflexivity|].
    destruct (Qc_ltb d half) eqn:L; [apply Qc_ltb_spec in L; exact L|].
    unfold Qc_ltb in L. rewrite E in L. discriminate.
Qed.

Theorem impulse_endless one zero k :
  impulse DPInf one zero k = (firstn k (one :: repeat zero k), EMore)
  /\ impulse DNone one zero k = (firstn k (one :: repeat zero k), EMore).
Proof. split; reflexivity. Qed.

(* ------------------------------------------------------------------ adsr *)
Lemma map_seq_shift {A} (f : nat -> A) a n : map f (seq a n) = map (fun j => f (a + j)%nat) (seq 0 n).
Proof.
  revert a. induction n as [|n IH]; intro a; [reflexivity|].
  cbn [seq map]. rewrite Nat.add_0_r. f_equal.
  rewrite IH, <- seq_shift, map_map. apply map_ext. intro j. f_equal. lia.
Qed.

Lemma repeat_map_seq (x : Qc) n : repeat x n = map (fun _ => x) (seq 0 n).
Proof.
  induction n as [|n IHn]; [reflexivity|]. cbn [repeat seq map]. rewrite IHn, <- seq_shift, map_map. reflexivity.
Qed.

Lemma adsr_shape a d s r la ld ls lr :
  map (fun i => i * (1 / a)) (idxs la) ++ map (fun i => 1 + i * ((s - 1) / d)) (idxs ld) ++
  repeat s ls ++ map (fun i => s + i * (- s * 1 / r)) (idxs lr)
  = map (adsr_sample a d s r la ld ls) (seq 0 (la + ld + ls + lr)).
Proof.
  rewrite !seq_app, !map_app, <- !app_assoc. unfold idxs. rewrite !map_map.
  f_equal; [|f_equal; [|f_equal]].
  - apply map_ext_in. intros i Hi. apply in_seq in Hi. unfold adsr_sample.
    replace (i <? la)%nat with true by (symmetry; apply Nat.ltb_lt; lia).
    unfold Qcdiv. ring.
  - cbn [plus]. rewrite (map_seq_shift _ la ld). apply map_ext_in. intros i Hi. apply in_seq in Hi.
    unfold adsr_sample.
    replace (la + i <? la)%nat with false by (symmetry; apply Nat.ltb_ge; lia).
    replace (la + i <? la + ld)%nat with true by (symmetry; apply Nat.ltb_lt; lia).
    replace (la + i - la)%nat with i by lia. reflexivity.
  - cbn [plus]. rewrite (map_seq_shift _ (la + ld) ls).
    rewrite repeat_map_seq. apply map_ext_in. intros i Hi. apply in_seq in Hi. unfold adsr_sample.
    replace (la + ld + i <? la)%nat with false by (symmetry; apply Nat.ltb_ge; lia).
    replace (la + ld + i <? la + ld)%nat with false by (symmetry; apply Nat.ltb_ge; lia).
    replace (la + ld + i <? la + ld + ls)%nat with true by (symmetry; apply Nat.ltb_lt; lia).
    reflexivity.
  - cbn [plus]. rewrite (map_seq_shift _ (la + ld + ls) lr). apply map_ext_in. intros i Hi. apply in_seq in Hi.
    unfold adsr_sample.
    replace (la + ld + ls + i <? la)%nat with false by (symmetry; apply Nat.ltb_ge; lia).
    replace (la + ld + ls + i <? la + ld)%nat with false by (symmetry; apply Nat.ltb_ge; lia).
    replace (la + ld + ls + i <? la + ld + ls)%nat with false by (symmetry; apply Nat.ltb_ge; lia).
    replace (la + ld + ls + i - la - ld - ls)%nat with i by lia.
    unfold Qcdiv. ring.
Qed.

Lemma to_nat_sub3 zt za zd zr : (0 <= za)%Z -> (0 <= zd)%Z -> (0 <= zr)%Z ->
  Z.to_nat (zt - za - zd - zr) = (Z.to_nat zt - Z.to_nat za - Z.to_nat zd - Z.to_nat zr)%nat.
Proof. lia. Qed.

Lemma qtrunc_half_nonneg a : 0 < a -> (0 <= qtrunc (a + half))%Z.
Proof.
  intro H. pose proof half_pos as HP.
  assert (P : 0 <= a + half) by qc_lra.
  rewrite qtrunc_nonneg by exact P. apply qfloor_nonneg. exact P.
Qed.

Theorem adsr_is_spec dq a d s r :
  0 < a -> 0 < d -> 0 < r ->
  adsr dq a d s r = (adsr_spec dq a d s r, EStop).
Proof.
  intros Ha Hd Hr. unfold adsr.
  assert (Na : a <> 0) by (intro E; subst; apply (Qclt_not_eq _ _ Ha); reflexivity).
  assert (Nd : d <> 0) by (intro E; subst; apply (Qclt_not_eq _ _ Hd); reflexivity).
  assert (Nr : r <> 0) by (intro E; subst; apply (Qclt_not_eq _ _ Hr); reflexivity).
  rewrite (proj2 (Qc_is0_false a) Na), (proj2 (Qc_is0_false d) Nd), (proj2 (Qc_is0_false r) Nr).
  f_equal. unfold adsr_spec, adsr_lens, nearest_len.
  rewrite to_nat_sub3 by (apply qtrunc_half_nonneg; assumption).
  apply adsr_shape.
Qed.

(* documented duration: int(dur + .5) samples as soon as the segments fit *)
Theorem adsr_length dq a d s r :
  (nearest_len a + nearest_len d + nearest_len r <= nearest_len dq)%nat ->
  length (adsr_spec dq a d s r) = nearest_len dq.
Proof.
  intro H. unfold adsr_spec, adsr_lens. rewrite map_length, seq_length. lia.
Qed.

(* a zero-length segment: ZeroDivisionError (known finding C19-line-zero-division) *)
Theorem adsr_zero_segment dq a d s r : a = 0 \/ d = 0 \/ r = 0 -> adsr dq a d s r = ([], zde).
Proof.
  intros [H|[H|H]]; unfold adsr; subst.
  - reflexivity.
  - destruct (Qc_is0 a); reflexivity.
  - destruct (Qc_is0 a); [reflexivity|]. destruct (Qc_is0 d); reflexivity.
Qed.

(* ------------------------------------------------------------------ attack (number sustain) *)
Theorem attack_is_spec a d s0 k i :
  a <> 0 -> d <> 0 -> (i < k)%nat ->
  snd (attack a d (Num s0) k) = EMore /\ length (fst (attack a d (Num s0) k)) = k /\
  nth i (fst (attack a d (Num s0) k)) 0
  = attack_sample a d s0 (nearest_len a) (nearest_len d) (fun _ => s0) i.
Proof.
  intros Na Nd Hi. unfold attack. destruct k as [|k']; [lia|]. set (k := S k') in *.
  rewrite (proj2 (Qc_is0_false a) Na), (proj2 (Qc_is0_false d) Nd).
  unfold range_len. fold (nearest_len a). fold (nearest_len d).
  set (la := nearest_len a). set (ld := nearest_len d).
  set (pre := map (fun i => i * (1 / a)) (idxs la) ++ map (fun i => 1 + i * ((s0 - 1) / d)) (idxs ld)). cbn [fst snd]. unfold take_res. cbn [fst snd].
  assert (Lp : length pre = (la + ld)%nat).
  { unfold pre, idxs. rewrite app_length, !map_length, !seq_length. reflexivity. }
  assert (Lk : (k <=? length (pre ++ repeat s0 k))%nat = true).
  { apply Nat.leb_le. rewrite app_length, repeat_length. lia. }
  rewrite Lk. cbn [fst snd]. split; [reflexivity|]. split.
  - rewrite firstn_length, app_length, repeat_length. lia.
  - rewrite nth_firstn_lt by exact Hi.
    unfold attack_sample. destruct (i <? la)%nat eqn:E1.
    + apply Nat.ltb_lt in E1. rewrite app_nth1 by lia. unfold pre.
      rewrite app_nth1 by (unfold idxs; rewrite !map_length, seq_length; exact E1).
      unfold idxs. rewrite map_map, nth_map_seq by exact E1. unfold Qcdiv. ring.
    + apply Nat.ltb_ge in E1. destruct (i <? la + ld)%nat eqn:E2.
      * apply Nat.ltb_lt in E2. rewrite app_nth1 by lia. unfold pre.
        rewrite app_nth2 by (unfold idxs; rewrite !map_length, seq_length; exact E1).
        unfold idxs. rewrite !map_length, seq_length, map_map, nth_map_seq by lia. reflexivity.
      * apply Nat.ltb_ge in E2. rewrite app_nth2 by lia.
        rewrite (nth_indep _ 0 s0) by (rewrite repeat_length; lia). apply nth_repeat.
Qed.

(* ------------------------------------------------------------------ noise *)
Theorem noise_length o d lo hi k :
  length (fst (noise o (DFin d) lo hi k)) = Nat.min k (Z.to_nat (rint d)).
Proof.
  unfold noise, take_res. cbn [fst snd]. rewrite map_length, seq_length.
  destruct (k <=? Z.to_nat (rint d))%nat eqn:E; cbn [fst].
  - apply Nat.leb_le in E. rewrite firstn_length, map_length, seq_length. lia.
  - apply Nat.leb_gt in E. rewrite map_length, seq_length. lia.
Qed.

Theorem noise_endless o lo hi k :
  noise o DPInf lo hi k = (map (o lo hi) (seq 0 k), EMore) /\ noise o DNone lo hi k = (map (o lo hi) (seq 0 k), EMore).
Proof. split; reflexivity. Qed.

(* rint is the nearest integer *)
Theorem rint_nearest x : x - half <= zq (rint x) /\ zq (rint x) <= x + half.
Proof.
  unfold rint. pose proof (qfloor_le x) as F1. pose proof (qfloor_lt x) as F2. pose proof half_half as HH.
  set (dd := qfloor x) in *.
  destruct (Qc_leb 0 x).
  - destruct (Qc_leb 1 (x - zq dd + (x - zq dd))) eqn:E.
    + apply Qc_leb_spec in E. rewrite zq_add, zq_1. split; qc_lra.
    + assert (L : x - zq dd + (x - zq dd) < 1).
      { destruct (Qc_ltb (x - zq dd + (x - zq dd)) 1) eqn:T; [apply Qc_ltb_spec in T; exact T|].
        unfold Qc_ltb in T. rewrite E in T. discriminate. }
      split; qc_lra.
  - destruct (Qc_ltb 1 (x - zq dd + (x - zq dd))) eqn:E.
    + apply Qc_ltb_spec in E. rewrite zq_add, zq_1. split; qc_lra.
    + assert (L : x - zq dd + (x - zq dd) <= 1).
      { destruct (Qc_leb (x - zq dd + (x - zq dd)) 1) eqn:T; [apply Qc_leb_spec in T; exact T|].
        unfold Qc_ltb in E. rewrite T in E. discriminate. }
      split; qc_lra.
Qed.

(* uniform noise stays within [low, high] whenever the random source does *)
Theorem white_noise_range o d lo hi k :
  (forall i, lo <= o lo hi i /\ o lo hi i <= hi) ->
  Forall (fun v => lo <= v /\ v <= hi) (fst (noise o d lo hi k)).
Proof.
  intro H.
  assert (G : forall n, Forall (fun v => lo <= v /\ v <= hi) (map (o lo hi) (seq 0 n))).
  { intro n. apply Forall_forall. intros v Hv. apply in_map_iff in Hv as [i [<- _]]. apply H. }
  destruct d as [dq| | |]; unfold noise; cbn [fst]; try apply G.
  - unfold take_res. cbn [fst snd]. destruct (k <=? _)%nat; cbn [fst]; [|apply G].
    apply Forall_forall. intros v Hv.
    pose proof (G (Z.to_nat (rint dq))) as G'. rewrite Forall_forall in G'. apply G'.
    rewrite <- (firstn_skipn k). apply in_or_app. left. exact Hv.
  - destruct k; constructor.
Qed.

(* ------------------------------------------------------------------ attack with an iterable sustain *)
Lemma attack_shape a d s0 la ld (rest : list Qc) :
  (map (fun i => i * (1 / a)) (idxs la) ++ map (fun i => 1 + i * ((s0 - 1) / d)) (idxs ld)) ++ rest
  = map (attack_sample a d s0 la ld (fun i => nth i rest 0)) (seq 0 (la + ld + length rest)).
Proof.
  rewrite !seq_app, !map_app. unfold idxs. rewrite !map_map. f_equal; [f_equal|].
  - apply map_ext_in. intros i Hi. apply in_seq in Hi. unfold attack_sample.
    replace (i <? la)%nat with true by (symmetry; apply Nat.ltb_lt; lia). unfold Qcdiv. ring.
  - cbn [plus]. rewrite (map_seq_shift _ la ld). apply map_ext_in. intros i Hi. apply in_seq in Hi.
    unfold attack_sample.
    replace (la + i <? la)%nat with false by (symmetry; apply Nat.ltb_ge; lia).
    replace (la + i <? la + ld)%nat with true by (symmetry; apply Nat.ltb_lt; lia).
    replace (la + i - la)%nat with i by lia. reflexivity.
  - cbn [plus]. rewrite (map_seq_shift _ (la + ld) (length rest)).
    assert (R : rest = map (fun j => nth j rest 0) (seq 0 (length rest))).
    { clear. induction rest as [|x r IH]; [reflexivity|]. cbn [length seq map nth]. f_equal.
      rewrite <- seq_shift, map_map. exact IH. }
    rewrite R at 1. apply map_ext_in. intros i Hi. apply in_seq in Hi. unfold attack_sample.
    replace (la + ld + i <? la)%nat with false by (symmetry; apply Nat.ltb_ge; lia).
    replace (la + ld + i <? la + ld)%nat with false by (symmetry; apply Nat.ltb_ge; lia).
    f_equal. lia.
Qed.

(* the first item of the sustain is the decay target, the remaining items follow the decay; the envelope
   ends with the sustain; an empty sustain raises (next() inside a generator) *)
Theorem attack_stream_spec a d s0 rest k :
  a <> 0 -> d <> 0 ->
  attack a d (Str (s0 :: rest)) (S k)
  = take_res (S k) (map (attack_sample a d s0 (nearest_len a) (nearest_len d) (fun i => nth i rest 0))
                        (seq 0 (nearest_len a + nearest_len d + length rest)), EStop).
Proof.
  intros Na Nd. unfold attack.
  rewrite (proj2 (Qc_is0_false a) Na), (proj2 (Qc_is0_false d) Nd). cbn [fst snd].
  unfold range_len. fold (nearest_len a). fold (nearest_len d). rewrite attack_shape. reflexivity.
Qed.

Theorem attack_empty_sustain a d k : attack a d (Str []) (S k) = ([], ERaise "RuntimeError").
Proof. reflexivity. Qed.

Theorem line_zero_dur_refuted : exists d b e fin,
  nearest_len d = O /\ line (DFin d) b e fin <> (line_spec d b e fin, EStop).
Proof.
  exists 0, 0, 1, false. split; [reflexivity|]. rewrite line_zero_division by reflexivity. discriminate.
Qed.
