(* C19 - sinusoid over the reals: the reduced phase handed to sin differs from phase + n*freq by an
   integer number w of wraps of M = fl(2 pi); sin is 1-Lipschitz and 2 pi periodic. *)
From Coq Require Import ZArith QArith Qcanon Qreals Reals Lra Lia.
From AL Require Import Base.CaseLib C19.Lib C19.Model C19.Spec.
Open Scope R_scope.

Definition qr (x : Qc) : R := Q2R (this x).

Lemma qr_plus x y : qr (x + y)%Qc = qr x + qr y.
Proof. unfold qr. rewrite (Qeq_eqR _ _ (this_plus x y)). apply Q2R_plus. Qed.
Lemma qr_minus x y : qr (x - y)%Qc = qr x - qr y.
Proof. unfold qr. rewrite (Qeq_eqR _ _ (this_minus x y)). apply Q2R_minus. Qed.
Lemma qr_mult x y : qr (x * y)%Qc = qr x * qr y.
Proof. unfold qr. rewrite (Qeq_eqR _ _ (this_mult x y)). apply Q2R_mult. Qed.
Lemma qr_zq z : qr (zq z) = IZR z.
Proof.
  unfold qr. rewrite (Qeq_eqR _ _ (this_zq z)). unfold Q2R, inject_Z. cbn [Qnum Qden].
  rewrite Rinv_1. ring.
Qed.
Lemma qr_nq n : qr (nq n) = INR n.
Proof. unfold nq. rewrite qr_zq. symmetry. apply INR_IZR_INZ. Qed.

(* number of wraps *)
Definition wraps (x m : Qc) : Z := qfloor (x / m).

Lemma qmod_real x m : qr (qmod x m) = qr x - IZR (wraps x m) * qr m.
Proof. unfold qmod, wraps. rewrite qr_minus, qr_mult, qr_zq. ring. Qed.

Lemma wraps_nonneg x m : (0 < m)%Qc -> (0 <= x)%Qc -> (0 <= wraps x m)%Z.
Proof.
  intros Hm Hx. unfold wraps. apply qfloor_nonneg.
  apply Qcnot_lt_le. intro H.
  apply (Qcmult_lt_compat_r _ _ m Hm) in H.
  rewrite Qc_div_mul in H by (intro E; subst; apply (Qclt_not_eq _ _ Hm); reflexivity).
  replace (0 * m)%Qc with 0%Qc in H by ring. apply (Qclt_not_le _ _ H). exact Hx.
Qed.

(* sin is 1-Lipschitz *)
Lemma sin_lipschitz a b : Rabs (sin b - sin a) <= Rabs (b - a).
Proof.
  destruct (MVT_abs sin cos a b) as [c [Hc _]].
  - intros c _. apply derivable_pt_lim_sin.
  - rewrite Hc. rewrite <- (Rmult_1_l (Rabs (b - a))) at 2.
    apply Rmult_le_compat_r; [apply Rabs_pos|].
    apply Rabs_le. pose proof (COS_bound c). lra.
Qed.

(* sin has period 2 pi, for any integer number of periods *)
Lemma sin_period_Z x w : sin (x + IZR w * (2 * PI)) = sin x.
Proof.
  destruct (Z_le_gt_dec 0 w) as [H|H].
  - rewrite <- (Z2Nat.id w H), <- INR_IZR_INZ.
    replace (x + INR (Z.to_nat w) * (2 * PI)) with (x + 2 * INR (Z.to_nat w) * PI) by ring.
    apply sin_period.
  - assert (Hn : (0 <= - w)%Z) by lia.
    rewrite <- (sin_period (x + IZR w * (2 * PI)) (Z.to_nat (- w))).
    rewrite INR_IZR_INZ, (Z2Nat.id _ Hn), opp_IZR. f_equal. ring.
Qed.

(* the central estimate *)
Theorem sin_wrap_error x c w M :
  c = x - IZR w * M -> Rabs (sin c - sin x) <= Rabs (IZR w) * Rabs (2 * PI - M).
Proof.
  intros ->. rewrite <- (sin_period_Z x (- w)).
  eapply Rle_trans; [apply sin_lipschitz|].
  rewrite <- Rabs_mult. rewrite opp_IZR.
  replace (x - IZR w * M - (x + - IZR w * (2 * PI))) with (IZR w * (2 * PI - M)) by ring.
  apply Rle_refl.
Qed.

(* sinusoid: argument c_n handed to sin vs the ideal phase x_n = phase + n*freq *)
Theorem sinusoid_real freq phase n :
  let c := qmod (phase + nq n * freq)%Qc two_pi_fl in
  let x := qr phase + INR n * qr freq in
  let w := wraps (phase + nq n * freq)%Qc two_pi_fl in
  qr c = x - IZR w * qr two_pi_fl /\
  ((0 <= phase + nq n * freq)%Qc -> (0 <= w)%Z) /\
  Rabs (sin (qr c) - sin x) <= Rabs (IZR w) * Rabs (2 * PI - qr two_pi_fl).
Proof.
  cbv zeta.
  assert (E : qr (qmod (phase + nq n * freq)%Qc two_pi_fl)
              = qr phase + INR n * qr freq - IZR (wraps (phase + nq n * freq)%Qc two_pi_fl) * qr two_pi_fl).
  { rewrite qmod_real, qr_plus, qr_mult, qr_nq. reflexivity. }
  split; [exact E|]. split.
  - apply wraps_nonneg. unfold Qclt. reflexivity.
  - apply sin_wrap_error. exact E.
Qed.
