(* C19 - TableLookup: the oscillator and __getitem__ are the cyclic linear interpolation of the
   table; operators act pointwise; sinusoid's sin argument is the reduced phase. *)
From Coq Require Import String List Bool Arith ZArith QArith Qcanon Lia Lqa.
From AL Require Import Base.CaseLib C19.Lib C19.Model C19.Spec C19.Proofs_MC C19.Proofs_Env.
Import ListNotations.
Open Scope list_scope.
Open Scope Qc_scope.

Lemma nth_error_nth0 (l : list Qc) i : (i < length l)%nat -> nth_error l i = Some (nth i l 0).
Proof.
  revert i. induction l as [|x l IH]; intros i H; [cbn in H; lia|].
  destruct i as [|i]; [reflexivity|]. cbn [nth_error nth]. apply IH. cbn [length] in H. lia.
Qed.

(* floor / ceil of a position inside [0, n) *)
Lemma floor_bounds idx n : 0 <= idx -> idx < nq n -> (0 <= qfloor idx < Z.of_nat n)%Z.
Proof.
  intros H0 H1. split; [apply qfloor_nonneg; exact H0|].
  pose proof (qfloor_le idx) as F. apply zq_lt. fold (nq n). qc_lra.
Qed.

Lemma qceil_cases idx :
  (idx = zq (qfloor idx) /\ qceil idx = qfloor idx) \/
  (zq (qfloor idx) < idx /\ qceil idx = (qfloor idx + 1)%Z).
Proof.
  pose proof (qfloor_le idx) as F1. pose proof (qfloor_lt idx) as F2.
  destruct (Qc_eqb idx (zq (qfloor idx))) eqn:E.
  - left. apply Qc_eqb_spec in E. split; [exact E|].
    apply qceil_unique; rewrite <- E; qc_lra.
  - right. assert (N : idx <> zq (qfloor idx)).
    { intro H. apply Qc_eqb_spec in H. congruence. }
    assert (L : zq (qfloor idx) < idx).
    { destruct (Qc_ltb (zq (qfloor idx)) idx) eqn:T; [apply Qc_ltb_spec in T; exact T|].
      exfalso. apply N. unfold Qc_ltb in T. apply negb_false_iff in T. apply Qc_leb_spec in T.
      apply Qcle_antisym; assumption. }
    split; [exact L|]. apply qceil_unique; rewrite zq_add, zq_1; qc_lra.
Qed.

Lemma cyc_get_small tbl i : (0 <= i < Z.of_nat (length tbl))%Z -> cyc_get tbl i = nth (Z.to_nat i) tbl 0.
Proof. intro H. unfold cyc_get. rewrite Z.mod_small by exact H. reflexivity. Qed.

(* the oscillator's element function, on a position in [0, len) *)
Theorem lerp_call_is_cyc_lerp tbl idx :
  0 <= idx -> idx < nq (length tbl) -> lerp_call tbl idx = Some (cyc_lerp tbl idx).
Proof.
  intros H0 H1. pose proof (floor_bounds idx _ H0 H1) as [B0 B1].
  unfold lerp_call, cyc_lerp. rewrite qtrunc_nonneg by exact H0.
  set (i := qfloor idx) in *. set (n := Z.of_nat (length tbl)) in *.
  assert (P1 : py_nth tbl i = Some (nth (Z.to_nat i) tbl 0)).
  { unfold py_nth. fold n.
    replace (i <? - n)%Z with false by (symmetry; apply Z.ltb_ge; lia).
    replace (i <? 0)%Z with false by (symmetry; apply Z.ltb_ge; lia).
    apply nth_error_nth0. lia. }
  rewrite P1, (cyc_get_small tbl i) by (fold n; lia).
  pose proof (qceil_cases idx) as QC. fold i in QC. destruct QC as [[E C]|[L C]]; rewrite C.
  - assert (P2 : py_nth tbl (i - n) = Some (nth (Z.to_nat i) tbl 0)).
    { unfold py_nth. fold n.
      replace (i - n <? - n)%Z with false by (symmetry; apply Z.ltb_ge; lia).
      replace (i - n <? 0)%Z with true by (symmetry; apply Z.ltb_lt; lia).
      replace (n + (i - n))%Z with i by lia. apply nth_error_nth0. lia. }
    rewrite P2. f_equal. rewrite <- E. ring.
  - destruct (Z.eq_dec (i + 1) n) as [En|Nn].
    + replace (i + 1 - n)%Z with 0%Z by lia.
      assert (P2 : py_nth tbl 0 = Some (nth 0 tbl 0)).
      { unfold py_nth. fold n.
        replace (0 <? - n)%Z with false by (symmetry; apply Z.ltb_ge; lia).
        cbn [Z.ltb Z.compare Z.to_nat]. apply nth_error_nth0. lia. }
      rewrite P2. f_equal. f_equal. f_equal. unfold cyc_get. fold n. rewrite En, Z.mod_same by lia. reflexivity.
    + assert (P2 : py_nth tbl (i + 1 - n) = Some (nth (Z.to_nat (i + 1)) tbl 0)).
      { unfold py_nth. fold n.
        replace (i + 1 - n <? - n)%Z with false by (symmetry; apply Z.ltb_ge; lia).
        replace (i + 1 - n <? 0)%Z with true by (symmetry; apply Z.ltb_lt; lia).
        replace (n + (i + 1 - n))%Z with (i + 1)%Z by lia. apply nth_error_nth0. lia. }
      rewrite P2, (cyc_get_small tbl (i + 1)) by (fold n; lia). reflexivity.
Qed.

(* ------------------------------------------------------------------ modulo_counter stays in [0, modulo) *)
Definition in_mod (m v : Qc) : Prop := 0 <= v /\ v < m.

Lemma pymod2_range c m v : 0 < m -> pymod2 c m = Some v -> in_mod m v.
Proof.
  intros Hm H. apply pymod2_inv in H as [_ ->]. apply qmod_range_pos. exact Hm.
Qed.

Lemma mc_sss_range m : 0 < m -> forall ps ms ss c l,
  (forall x, In x ms -> x = m) -> Forall (in_mod m) (fst (mc_sss c l ps ms ss)).
Proof.
  intros Hm. induction ps as [|p ps IH]; intros ms ss c l Hms; [constructor|].
  destruct ms as [|m' ms]; [constructor|]. destruct ss as [|s ss]; [constructor|].
  cbn [mc_sss]. assert (m' = m) by (apply Hms; left; reflexivity). subst m'.
  destruct (pymod2 (c + (p - l)) m) as [v|] eqn:E; [|constructor].
  cbn [rcons fst]. constructor; [eapply pymod2_range; eassumption|].
  apply IH. intros x Hx. apply Hms. right. exact Hx.
Qed.

Lemma Forall_take_res (P : Qc -> Prop) k r : Forall P (fst r) -> Forall P (fst (take_res k r)).
Proof.
  intro H. unfold take_res. destruct (k <=? length (fst r))%nat; [|exact H]. cbn [fst].
  rewrite Forall_forall in *. intros x Hx. apply H.
  rewrite <- (firstn_skipn k). apply in_or_app. left. exact Hx.
Qed.

Theorem modulo_counter_range start m step k :
  0 < m -> Forall (in_mod m) (fst (modulo_counter start (Num m) step k)).
Proof.
  intro Hm.
  assert (R : forall n x, In x (repeat m n) -> x = m) by (intros n x Hx; apply repeat_spec in Hx; exact Hx).
  destruct start as [p|ps]; destruct step as [s|ss]; cbn [modulo_counter].
  - rewrite mc_nnn_sss. apply Forall_take_res. apply mc_sss_range; [exact Hm|apply R].
  - apply Forall_take_res. rewrite mc_nns_nss. rewrite (mc_nss_sss _ p 0 0 p) by ring.
    apply mc_sss_range; [exact Hm|apply R].
  - apply Forall_take_res. rewrite mc_snn_sss. apply mc_sss_range; [exact Hm|apply R].
  - apply Forall_take_res. rewrite mc_sns_sss. apply mc_sss_range; [exact Hm|apply R].
Qed.

(* ------------------------------------------------------------------ the oscillator *)
Lemma res_map_all_some f g err : forall l e,
  Forall (fun x => f x = Some (g x)) l -> res_map_aux f err l e = (map g l, e).
Proof.
  induction l as [|x l IH]; intros e H; [reflexivity|].
  inversion H as [|? ? Hx Hl]; subst. cbn [res_map_aux map]. rewrite Hx, IH by exact Hl. reflexivity.
Qed.

(* table_lookup_is_cyclic_lerp: every output of table(freq, phase) is the cyclic linear
   interpolation of the table at the position produced by the phase counter *)
Theorem table_lookup_is_cyclic_lerp tbl cl freq phase k :
  tbl <> [] ->
  let pos := modulo_counter (scale_arg cl phase) (Num (nq (length tbl))) (scale_arg cl freq) k in
  table_call_cl tbl cl freq phase k = (map (cyc_lerp tbl) (fst pos), snd pos).
Proof.
  intros Ht. cbv zeta. unfold table_call_cl, res_map. apply res_map_all_some.
  assert (Hlen : 0 < nq (length tbl)).
  { destruct tbl as [|x t]; [congruence|]. cbn [length]. rewrite nq_S. pose proof (nq_nonneg (length t)). qc_lra. }
  pose proof (modulo_counter_range (scale_arg cl phase) (nq (length tbl)) (scale_arg cl freq) k Hlen) as R.
  eapply Forall_impl; [|exact R]. intros v [V0 V1]. apply lerp_call_is_cyc_lerp; assumption.
Qed.

Theorem table_call_exact_cycles tbl cycles freq phase k :
  cycles * (1 + 1) * pi_fl <> 0 ->
  table_call tbl cycles freq phase k
  = table_call_cl tbl (nq (length tbl) / (cycles * (1 + 1) * pi_fl)) freq phase k.
Proof. intro H. unfold table_call. rewrite (proj2 (Qc_is0_false _) H). reflexivity. Qed.

(* ------------------------------------------------------------------ __getitem__ *)
Theorem getitem_is_cyclic_lerp tbl idx :
  tbl <> [] -> 0 <= idx -> table_getitem tbl idx = Some (cyc_lerp tbl idx).
Proof.
  intros Ht H0. unfold table_getitem, cyc_lerp.
  assert (Hn : (0 < Z.of_nat (length tbl))%Z) by (destruct tbl; [congruence|cbn [length]; lia]).
  set (n := Z.of_nat (length tbl)) in *.
  replace (n =? 0)%Z with false by (symmetry; apply Z.eqb_neq; lia).
  rewrite qtrunc_nonneg by exact H0. set (i := qfloor idx).
  assert (G : forall j, nth_error tbl (Z.to_nat (j mod n)) = Some (cyc_get tbl j)).
  { intro j. unfold cyc_get. fold n. apply nth_error_nth0.
    pose proof (Z.mod_pos_bound j n Hn). lia. }
  rewrite G. pose proof (qceil_cases idx) as QC. fold i in QC. destruct QC as [[E C]|[L C]]; rewrite C, G.
  - f_equal. rewrite <- E. ring.
  - reflexivity.
Qed.

(* for a negative non-integer index the code does NOT interpolate (int() truncates towards zero) *)
Theorem getitem_negative_degenerate tbl idx :
  tbl <> [] -> idx < 0 -> table_getitem tbl idx = Some (cyc_get tbl (qceil idx)).
Proof.
  intros Ht H0. unfold table_getitem.
  assert (Hn : (0 < Z.of_nat (length tbl))%Z) by (destruct tbl; [congruence|cbn [length]; lia]).
  set (n := Z.of_nat (length tbl)) in *.
  replace (n =? 0)%Z with false by (symmetry; apply Z.eqb_neq; lia).
  rewrite qtrunc_neg by exact H0.
  assert (G : forall j, nth_error tbl (Z.to_nat (j mod n)) = Some (cyc_get tbl j)).
  { intro j. unfold cyc_get. fold n. apply nth_error_nth0.
    pose proof (Z.mod_pos_bound j n Hn). lia. }
  rewrite G. f_equal. ring.
Qed.

(* ------------------------------------------------------------------ operators act pointwise *)
Lemma map_opt_spec {A} (f : A -> option Qc) (dA : A) : forall l r,
  map_opt f l = Some r ->
  length r = length l /\ forall i, (i < length l)%nat -> f (nth i l dA) = Some (nth i r 0).
Proof.
  induction l as [|x l IH]; intros r H.
  - inversion H; subst. split; [reflexivity|]. intros i Hi. cbn in Hi. lia.
  - cbn [map_opt] in H. destruct (f x) as [y|] eqn:Ex; [|discriminate].
    destruct (map_opt f l) as [r'|] eqn:Er; [|discriminate]. inversion H; subst.
    destruct (IH r' eq_refl) as [L N]. split; [cbn [length]; lia|].
    intros [|i] Hi; [exact Ex|]. cbn [nth]. apply N. cbn [length] in Hi. lia.
Qed.

Theorem table_ops_pointwise o t1 c1 t2 c2 r cr :
  table_binop_tt o t1 c1 t2 c2 = TOk r cr ->
  c1 = c2 /\ cr = c1 /\ length t1 = length t2 /\ length r = length t1 /\
  forall i, (i < length t1)%nat -> apply_binop o (nth i t1 0) (nth i t2 0) = Some (nth i r 0).
Proof.
  unfold table_binop_tt. destruct (Qc_eqb c1 c2) eqn:Ec; [|discriminate]. cbn [negb].
  destruct (length t1 =? length t2)%nat eqn:El; [|discriminate]. cbn [negb].
  apply Qc_eqb_spec in Ec. apply Nat.eqb_eq in El.
  destruct (map_opt _ (combine t1 t2)) as [t|] eqn:E; [|discriminate]. cbn [tbl_result].
  intro H. inversion H; subst.
  destruct (map_opt_spec _ (0, 0) _ _ E) as [L N]. rewrite combine_length, <- El, Nat.min_id in L, N.
  repeat split; try assumption; try reflexivity.
  intros i Hi. specialize (N i Hi). rewrite combine_nth in N by exact El. exact N.
Qed.

Theorem table_scalar_ops_pointwise o t1 c1 x :
  (forall r cr, table_binop_ts o t1 c1 x = TOk r cr ->
     cr = c1 /\ length r = length t1 /\
     forall i, (i < length t1)%nat -> apply_binop o (nth i t1 0) x = Some (nth i r 0)) /\
  (forall r cr, table_binop_st o x t1 c1 = TOk r cr ->
     cr = c1 /\ length r = length t1 /\
     forall i, (i < length t1)%nat -> apply_binop o x (nth i t1 0) = Some (nth i r 0)).
Proof.
  split; intros r cr; unfold table_binop_ts, table_binop_st;
    destruct (map_opt _ t1) as [t|] eqn:E; try discriminate; cbn [tbl_result];
    intro H; inversion H; subst;
    destruct (map_opt_spec _ 0 _ _ E) as [L N]; repeat split; assumption.
Qed.

(* mismatching tables are rejected *)
Theorem table_ops_mismatch o t1 c1 t2 c2 :
  c1 <> c2 \/ length t1 <> length t2 -> table_binop_tt o t1 c1 t2 c2 = TRaise "ValueError".
Proof.
  intros [H|H]; unfold table_binop_tt.
  - destruct (Qc_eqb c1 c2) eqn:E; [apply Qc_eqb_spec in E; congruence|reflexivity].
  - destruct (Qc_eqb c1 c2); [|reflexivity]. cbn [negb].
    destruct (length t1 =? length t2)%nat eqn:E; [apply Nat.eqb_eq in E; congruence|reflexivity].
Qed.

(* normalize divides by the first entry of maximal absolute value *)
Lemma max_abs_from_in : forall l best, In (max_abs_from best l) (best :: l).
Proof.
  induction l as [|x l IH]; intro best; [left; reflexivity|]. cbn [max_abs_from].
  destruct (IH (if Qc_ltb (Qc_abs best) (Qc_abs x) then x else best)) as [H|H].
  - destruct (Qc_ltb (Qc_abs best) (Qc_abs x)); [right; left|left]; exact H.
  - right. right. exact H.
Qed.

Lemma max_abs_from_ge : forall l best x, In x (best :: l) -> Qc_abs x <= Qc_abs (max_abs_from best l).
Proof.
  assert (Mono : forall l best, Qc_abs best <= Qc_abs (max_abs_from best l)).
  { induction l as [|y l IH]; intro best; [apply Qcle_refl|]. cbn [max_abs_from].
    destruct (Qc_ltb (Qc_abs best) (Qc_abs y)) eqn:E; [|apply IH].
    apply Qc_ltb_spec in E. eapply Qcle_trans; [apply Qclt_le_weak; exact E|apply IH]. }
  induction l as [|y l IH]; intros best x Hx.
  - destruct Hx as [->|[]]. apply Qcle_refl.
  - cbn [max_abs_from]. destruct Hx as [->|[->|Hx]].
    + destruct (Qc_ltb (Qc_abs x) (Qc_abs y)) eqn:E; [|apply Mono].
      apply Qc_ltb_spec in E. eapply Qcle_trans; [apply Qclt_le_weak; exact E|apply Mono].
    + destruct (Qc_ltb (Qc_abs best) (Qc_abs x)) eqn:E; [apply Mono|].
      unfold Qc_ltb in E. apply negb_false_iff in E. apply Qc_leb_spec in E.
      eapply Qcle_trans; [exact E|apply Mono].
    + apply IH. right. exact Hx.
Qed.

Theorem normalize_spec t1 c1 r cr :
  table_normalize t1 c1 = TOk r cr ->
  exists mx, In mx t1 /\ mx <> 0 /\ (forall x, In x t1 -> Qc_abs x <= Qc_abs mx) /\
             cr = c1 /\ r = map (fun x => x / mx) t1.
Proof.
  unfold table_normalize. destruct t1 as [|x l]; [discriminate|].
  set (mx := max_abs_from x l). destruct (Qc_is0 mx) eqn:E; [discriminate|].
  apply Qc_is0_false in E. unfold table_binop_ts.
  assert (M : forall t, map_opt (fun a => apply_binop ODiv a mx) t = Some (map (fun a => a / mx) t)).
  { induction t as [|a t IH]; [reflexivity|]. cbn [map_opt map]. rewrite IH.
    unfold apply_binop. rewrite (proj2 (Qc_is0_false mx) E). reflexivity. }
  rewrite M. cbn [tbl_result]. intro H. inversion H; subst.
  exists mx. repeat split; try assumption; try reflexivity.
  - apply max_abs_from_in.
  - intros y Hy. apply max_abs_from_ge. exact Hy.
Qed.

(* ------------------------------------------------------------------ sinusoid *)
(* the argument handed to sin: constant freq and phase give (phase + n*freq) mod fl(2 pi) *)
Theorem sinusoid_phase freq phase k :
  sinusoid_args (Num freq) (Num phase) k
  = take_res k (map (fun n => qmod (phase + nq n * freq) two_pi_fl) (seq 0 k), EStop).
Proof.
  unfold sinusoid_args. cbn [modulo_counter]. rewrite mc_nnn_sss.
  rewrite mc_const_closed; [reflexivity|]. intro H. apply Qc_eq_this in H. vm_compute in H. discriminate.
Qed.

(* ------------------------------------------------------------------ normalize, in full *)
Lemma Qc_abs_bound x b : Qc_abs x <= b -> - b <= x /\ x <= b.
Proof.
  unfold Qc_abs. destruct (Qc_ltb x 0) eqn:E; intro H.
  - apply Qc_ltb_spec in E. split; qc_lra.
  - assert (P : 0 <= x).
    { destruct (Qc_leb 0 x) eqn:L; [apply Qc_leb_spec in L; exact L|]. unfold Qc_ltb in E. rewrite L in E. discriminate. }
    split; qc_lra.
Qed.
Lemma Qc_abs_nonneg x : 0 <= Qc_abs x.
Proof.
  unfold Qc_abs. destruct (Qc_ltb x 0) eqn:E.
  - apply Qc_ltb_spec in E. qc_lra.
  - destruct (Qc_leb 0 x) eqn:L; [apply Qc_leb_spec in L; exact L|]. unfold Qc_ltb in E. rewrite L in E. discriminate.
Qed.
Lemma Qc_abs_zero x : Qc_abs x = 0 -> x = 0.
Proof.
  unfold Qc_abs. destruct (Qc_ltb x 0) eqn:E; intro H; [|exact H].
  apply Qc_ltb_spec in E. exfalso. qc_lra.
Qed.

Lemma div_unit_pos x d : 0 < d -> - d <= x -> x <= d -> - (1) <= x / d /\ x / d <= 1.
Proof.
  intros Hd H1 H2.
  assert (Nd : d <> 0) by (intro E; subst; apply (Qclt_not_eq _ _ Hd); reflexivity).
  split; apply (Qcmult_lt_0_le_reg_r _ _ d Hd); rewrite Qc_div_mul by exact Nd.
  - replace (- (1) * d) with (- d) by ring. exact H1.
  - replace (1 * d) with d by ring. exact H2.
Qed.

Lemma div_opp x d : d <> 0 -> (- x) / (- d) = x / d.
Proof.
  intro H. field. repeat split; try exact H; intro Hc; apply H; qc_lra.
Qed.

Lemma div_unit x d : d <> 0 -> Qc_abs x <= Qc_abs d -> - (1) <= x / d /\ x / d <= 1.
Proof.
  intros Nd H. apply Qc_abs_bound in H as [H1 H2]. unfold Qc_abs in H1, H2.
  destruct (Qc_ltb d 0) eqn:E.
  - apply Qc_ltb_spec in E. rewrite <- (div_opp x d Nd).
    apply div_unit_pos; qc_lra.
  - assert (P : 0 < d).
    { destruct (Qc_leb d 0) eqn:L.
      - apply Qc_leb_spec in L. exfalso. apply Nd. apply Qcle_antisym; [exact L|].
        destruct (Qc_leb 0 d) eqn:L2; [apply Qc_leb_spec in L2; exact L2|]. unfold Qc_ltb in E. rewrite L2 in E. discriminate.
      - apply Qc_ltb_spec. unfold Qc_ltb. rewrite L. reflexivity. }
    apply div_unit_pos; assumption.
Qed.

(* an empty or all-zero table cannot be normalized: ValueError *)
Theorem normalize_zero t1 c1 : (forall x, In x t1 -> x = 0) -> table_normalize t1 c1 = TRaise "ValueError".
Proof.
  intro H. unfold table_normalize. destruct t1 as [|x l]; [reflexivity|].
  rewrite (H _ (max_abs_from_in l x)). reflexivity.
Qed.

(* otherwise: division by the first entry mx of maximal magnitude; all values in [-1, 1], the value 1 is reached *)
Theorem normalize_full t1 c1 : (exists x, In x t1 /\ x <> 0) ->
  exists mx, In mx t1 /\ mx <> 0 /\ (forall x, In x t1 -> Qc_abs x <= Qc_abs mx) /\
    table_normalize t1 c1 = TOk (map (fun x => x / mx) t1) c1 /\
    (forall y, In y (map (fun x => x / mx) t1) -> - (1) <= y /\ y <= 1) /\
    In 1 (map (fun x => x / mx) t1).
Proof.
  intros [x0 [Hin Hx0]]. destruct t1 as [|x l]; [destruct Hin|].
  set (mx := max_abs_from x l).
  assert (Hge : forall y, In y (x :: l) -> Qc_abs y <= Qc_abs mx) by (intros; apply max_abs_from_ge; assumption).
  assert (Nmx : mx <> 0).
  { intro E. specialize (Hge x0 Hin). rewrite E in Hge. apply Hx0. apply Qc_abs_zero.
    apply Qcle_antisym; [exact Hge|apply Qc_abs_nonneg]. }
  exists mx. split; [apply max_abs_from_in|]. split; [exact Nmx|]. split; [exact Hge|]. split; [|split].
  - destruct (table_normalize (x :: l) c1) as [r cr|e] eqn:E.
    + destruct (normalize_spec _ _ _ _ E) as [mx' [_ [_ [_ [Hc Hr]]]]].
      unfold table_normalize in E. fold mx in E. rewrite (proj2 (Qc_is0_false mx) Nmx) in E.
      unfold table_binop_ts in E.
      assert (M : forall t, map_opt (fun a => apply_binop ODiv a mx) t = Some (map (fun a => a / mx) t)).
      { induction t as [|a t IH]; [reflexivity|]. cbn [map_opt map]. rewrite IH.
        unfold apply_binop. rewrite (proj2 (Qc_is0_false mx) Nmx). reflexivity. }
      rewrite M in E. cbn [tbl_result] in E. symmetry. exact E.
    + exfalso. unfold table_normalize in E. fold mx in E. rewrite (proj2 (Qc_is0_false mx) Nmx) in E.
      unfold table_binop_ts in E.
      assert (M : forall t, map_opt (fun a => apply_binop ODiv a mx) t = Some (map (fun a => a / mx) t)).
      { induction t as [|a t IH]; [reflexivity|]. cbn [map_opt map]. rewrite IH.
        unfold apply_binop. rewrite (proj2 (Qc_is0_false mx) Nmx). reflexivity. }
      rewrite M in E. discriminate.
  - intros y Hy. apply in_map_iff in Hy as [z [<- Hz]]. apply div_unit; [exact Nmx|apply Hge; exact Hz].
  - apply in_map_iff. exists mx. split; [field; exact Nmx|apply max_abs_from_in].
Qed.

(* ------------------------------------------------------------------ harmonize *)
Lemma nth_nil_0 j : nth j (@nil Qc) 0 = 0.
Proof. destruct j; reflexivity. Qed.

Lemma nth_skipn0 (l : list Qc) : forall n i, nth i (skipn n l) 0 = nth (n + i) l 0.
Proof.
  induction l as [|x l IH]; intros n i.
  - rewrite skipn_nil, !nth_nil_0. reflexivity.
  - destruct n as [|n]; [reflexivity|]. cbn [skipn plus nth]. apply IH.
Qed.

Lemma every_nth_aux_nth p : forall fuel l j, (length l <= fuel)%nat ->
  nth j (every_nth_aux fuel p l) 0 = nth (j * S p) l 0.
Proof.
  induction fuel as [|f IH]; intros l j H.
  - destruct l; [|cbn [length] in H; lia]. cbn [every_nth_aux]. rewrite !nth_nil_0. reflexivity.
  - destruct l as [|x l]; [cbn [every_nth_aux]; rewrite !nth_nil_0; reflexivity|].
    cbn [every_nth_aux]. destruct j as [|j]; [reflexivity|].
    cbn [nth]. rewrite IH by (rewrite skipn_length; cbn [length] in H; lia).
    rewrite nth_skipn0. replace (S j * S p)%nat with (S (p + j * S p)) by lia. reflexivity.
Qed.

Lemma every_nth_aux_length p : forall fuel l, (length l <= fuel)%nat ->
  length (every_nth_aux fuel p l) = ((length l + p) / S p)%nat.
Proof.
  induction fuel as [|f IH]; intros l H.
  - destruct l; [|cbn [length] in H; lia]. cbn [every_nth_aux length]. symmetry. apply Nat.div_small. lia.
  - destruct l as [|x l]; [cbn [every_nth_aux length]; symmetry; apply Nat.div_small; lia|].
    cbn [every_nth_aux length]. rewrite IH by (rewrite skipn_length; cbn [length] in H; lia).
    rewrite skipn_length.
    replace (S (length l) + p)%nat with (length l + 1 * S p)%nat by lia.
    rewrite Nat.div_add by lia.
    destruct (le_lt_dec p (length l)) as [G|G].
    + replace (length l - p + p)%nat with (length l) by lia. lia.
    + replace (length l - p + p)%nat with p by lia.
      rewrite (Nat.div_small p) by lia. rewrite (Nat.div_small (length l)) by lia. reflexivity.
Qed.

Lemma cyc_every_nth p t i :
  cyc_nth (every_nth p t) i = nth ((i mod ((length t + p) / S p)) * S p) t 0.
Proof.
  unfold cyc_nth, every_nth. rewrite every_nth_aux_length by lia.
  apply every_nth_aux_nth. lia.
Qed.

(* harmonize_spec: sample i of the new table is  sum over (partial p, amplitude a) of
   a * table[((i mod ceil(len/(p+1))) * (p+1))]  - the cycled every-(p+1)-th-sample sub-table *)
Theorem harmonize_spec t1 c1 h : h <> [] ->
  table_harmonize t1 c1 h = TOk (map (harm_sample t1 h) (seq 0 (length t1))) c1.
Proof.
  intro Hh. unfold table_harmonize. destruct h as [|pa h']; [congruence|].
  f_equal. apply map_ext. intro i. unfold harm_sample.
  generalize (pa :: h'). intro h. induction h as [|[p a] h IH]; [reflexivity|].
  cbn [fold_right fst snd]. rewrite IH, cyc_every_nth. reflexivity.
Qed.

Theorem harmonize_empty t1 c1 : table_harmonize t1 c1 [] = TRaise "AttributeError".
Proof. reflexivity. Qed.
