(* C19 - tie to C07: the Lagrange interpolation used by the resample model and by its specification IS
   C07.Model.lagrange_func (the function C07 verifies against the real lagrange.func) on the same points. *)
From Coq Require Import String List Bool Arith ZArith QArith Qcanon Lia.
From AL Require C07.Model C07.Spec C07.Proofs_Lagr.
From AL Require Import Base.CaseLib C19.Lib C19.Model C19.Spec C19.Proofs_Env C19.Proofs_RS.
Import ListNotations.
Open Scope list_scope.
Open Scope Qc_scope.

Module M7 := AL.C07.Model.
Module S7 := AL.C07.Spec.

Lemma fold_right_map' {A B C} (f : B -> C -> C) (g : A -> B) c l :
  fold_right f c (map g l) = fold_right (fun x acc => f (g x) acc) c l.
Proof. induction l as [|x l IH]; [reflexivity|]. cbn [map fold_right]. rewrite IH. reflexivity. Qed.

(* a fold over a list is the fold over its indices *)
Lemma fold_index {A B} (f : A -> B -> B) (c : B) (d : A) : forall l,
  fold_right f c l = fold_right (fun i acc => f (nth i l d) acc) c (seq 0 (length l)).
Proof.
  induction l as [|x l IH]; [reflexivity|]. cbn [length seq fold_right nth].
  rewrite <- seq_shift, fold_right_map'. cbn [nth]. rewrite <- IH. reflexivity.
Qed.

Lemma NoDup_nth_eqb (xs : list Qc) i j : NoDup xs -> (i < length xs)%nat -> (j < length xs)%nat ->
  Qc_eqb (nth j xs 0) (nth i xs 0) = (i =? j)%nat.
Proof.
  intros Hn Hi Hj. destruct (i =? j)%nat eqn:E.
  - apply Nat.eqb_eq in E. subst. apply Qc_eqb_spec. reflexivity.
  - apply Nat.eqb_neq in E. destruct (Qc_eqb (nth j xs 0) (nth i xs 0)) eqn:Q; [|reflexivity].
    apply Qc_eqb_spec in Q. exfalso. apply E. symmetry.
    apply (proj1 (NoDup_nth xs 0) Hn j i Hj Hi Q).
Qed.

(* interpolation through distinct nodes: the index formulation equals C07's value formulation *)
Lemma lag_basis_nodes_c07 xs j x : NoDup xs -> (j < length xs)%nat ->
  lag_basis_nodes xs j x = S7.lag_basis xs (nth j xs 0) x.
Proof.
  intros Hn Hj. unfold lag_basis_nodes, S7.lag_basis.
  rewrite (fold_index _ 1 0 xs). apply fold_right_ext_in. intros i acc Hi. apply in_seq in Hi.
  rewrite NoDup_nth_eqb by (try assumption; lia).
  destruct (i =? j)%nat; ring.
Qed.

Theorem lagrange_nodes_is_c07 xs ys x : NoDup xs -> length ys = length xs ->
  lagrange_nodes xs ys x = M7.lagrange_func (combine xs ys) x.
Proof.
  intros Hn Hl. rewrite AL.C07.Proofs_Lagr.lagrange_func_spec. unfold lagrange_nodes, S7.lag_spec.
  assert (Hf : map fst (combine xs ys) = xs).
  { clear Hn. revert ys Hl. induction xs as [|a xs IH]; intros [|b ys] Hl; try reflexivity; try discriminate.
    cbn [combine map fst]. f_equal. apply IH. cbn [length] in Hl. lia. }
  rewrite Hf, (fold_index _ 0 (0, 0) (combine xs ys)), combine_length, Hl, Nat.min_id.
  apply fold_right_ext_in. intros j acc Hj. apply in_seq in Hj.
  rewrite combine_nth by (symmetry; exact Hl). cbn [fst snd].
  rewrite lag_basis_nodes_c07 by (try assumption; lia). reflexivity.
Qed.

Lemma NoDup_map_inj {A B} (f : A -> B) l : (forall a b, f a = f b -> a = b) -> NoDup l -> NoDup (map f l).
Proof.
  intros Hf Hn. induction Hn as [|a l Hin Hn IH]; [constructor|]. cbn [map]. constructor; [|exact IH].
  intro H. apply in_map_iff in H as [b [E Hb]]. apply Hf in E. subst. contradiction.
Qed.

Lemma xs_at_NoDup order b : NoDup (xs_at order b).
Proof.
  unfold xs_at. apply NoDup_map_inj; [|apply seq_NoDup].
  intros i j H. apply zq_inj in H. lia.
Qed.

(* the model's per-output computation: lagrange(enumerate(data))(idx) *)
Theorem lagrange_at_is_c07 data x :
  lagrange_at data x = M7.lagrange_func (combine (map nq (seq 0 (length data))) data) x.
Proof.
  rewrite <- lagrange_nodes_is_c07.
  - unfold lagrange_at, lagrange_nodes. rewrite map_length, seq_length.
    apply fold_right_ext_in. intros j acc Hj. apply in_seq in Hj. f_equal. f_equal.
    unfold lag_basis, lag_basis_nodes. rewrite map_length, seq_length.
    apply fold_right_ext_in. intros i a Hi. apply in_seq in Hi.
    rewrite !nth_map_seq by lia. reflexivity.
  - apply NoDup_map_inj; [apply nq_inj|apply seq_NoDup].
  - rewrite map_length, seq_length. reflexivity.
Qed.

(* the specification's sample: C07's interpolation through the order+1 neighbouring (index, sample) points *)
Theorem rs_sample_is_c07 sig zero order pos :
  rs_sample sig zero order pos
  = M7.lagrange_func (combine (xs_at order (rs_base order pos)) (win sig zero order (rs_base order pos))) pos.
Proof.
  unfold rs_sample. fold (xs_at order (rs_base order pos)). fold (win sig zero order (rs_base order pos)).
  apply lagrange_nodes_is_c07; [apply xs_at_NoDup|]. rewrite xs_at_length, win_length. reflexivity.
Qed.
