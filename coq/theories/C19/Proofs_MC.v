(* C19 - modulo_counter: every branch and both batched fast paths compute the general
   recurrence; for a constant modulo the recurrence is the running sum reduced. *)
From Coq Require Import String List Bool Arith ZArith QArith Qcanon Lia.
From AL Require Import Base.CaseLib C19.Lib C19.Model C19.Spec.
Import ListNotations.
Open Scope list_scope.
Open Scope Qc_scope.

(* ------------------------------------------------------------------ pymod2 *)
Lemma pymod2_some c m : m <> 0 -> pymod2 c m = Some (qmod c m).
Proof.
  intro H. unfold pymod2. apply Qc_is0_false in H. rewrite H.
  apply Qc_is0_false in H. rewrite qmod_idem by exact H. reflexivity.
Qed.
Lemma pymod2_none c m : m = 0 -> pymod2 c m = None.
Proof. intro H. unfold pymod2. apply Qc_is0_spec in H. rewrite H. reflexivity. Qed.
Lemma pymod2_inv c m v : pymod2 c m = Some v -> m <> 0 /\ v = qmod c m.
Proof.
  unfold pymod2. destruct (Qc_is0 m) eqn:E; [discriminate|].
  apply Qc_is0_false in E. intro H. inversion H. split; [exact E|]. apply qmod_idem. exact E.
Qed.
Lemma pymod2_cong c c' m : qcong m c c' -> pymod2 c m = pymod2 c' m.
Proof.
  intro H. unfold pymod2. destruct (Qc_is0 m) eqn:E; [reflexivity|].
  apply Qc_is0_false in E. rewrite (qmod_cong m c c' E H). reflexivity.
Qed.
Lemma pymod2_eq c c' m : c = c' -> pymod2 c m = pymod2 c' m.
Proof. intros ->. reflexivity. Qed.

Lemma take_res_rcons k x r : take_res (S k) (rcons x r) = rcons x (take_res k r).
Proof.
  unfold take_res, rcons. destruct r as [l e]. cbn [fst snd length].
  change (S k <=? S (length l))%nat with (k <=? length l)%nat.
  destruct (k <=? length l)%nat; reflexivity.
Qed.
Lemma take_res_0 r : take_res 0 r = ([], EMore).
Proof. reflexivity. Qed.
Lemma take_res_nil_raise k e : take_res (S k) ([], ERaise e) = ([], ERaise e).
Proof. reflexivity. Qed.

(* ------------------------------------------------------------------ branches with a constant in place of a stream *)
Lemma mc_sns_sss : forall ps c l m ss,
  mc_sns c l ps m ss = mc_sss c l ps (repeat m (length ps)) ss.
Proof.
  induction ps as [|p ps IH]; intros c l m ss; [reflexivity|].
  cbn [length repeat mc_sns mc_sss]. destruct ss as [|s ss]; [reflexivity|].
  destruct (pymod2 (c + (p - l)) m); [|reflexivity]. rewrite IH. reflexivity.
Qed.

Lemma mc_ssn_sss : forall ps c l ms s,
  mc_ssn c l ps ms s = mc_sss c l ps ms (repeat s (length ps)).
Proof.
  induction ps as [|p ps IH]; intros c l ms s; [reflexivity|].
  cbn [length repeat mc_ssn mc_sss]. destruct ms as [|m ms]; [reflexivity|].
  destruct (pymod2 (c + (p - l)) m); [|reflexivity]. rewrite IH. reflexivity.
Qed.

Lemma mc_snn_slow_sss : forall ps c l m s,
  mc_snn_slow c l ps m s = mc_sss c l ps (repeat m (length ps)) (repeat s (length ps)).
Proof.
  induction ps as [|p ps IH]; intros c l m s; [reflexivity|].
  cbn [length repeat mc_snn_slow mc_sss].
  destruct (pymod2 (c + (p - l)) m); [|reflexivity]. rewrite IH. reflexivity.
Qed.

(* the batched fast path: c + n*step is congruent to the slow path's c *)
Lemma mc_snn_fast_slow : forall ps steps c c' l n m s,
  qcong m (c + zq n * s) c' ->
  mc_snn_fast steps c l n ps m s = mc_snn_slow c' l ps m s.
Proof.
  induction ps as [|p ps IH]; intros steps c c' l n m s H; [reflexivity|].
  cbn [mc_snn_fast mc_snn_slow].
  assert (E : pymod2 (c + (p - l) + zq n * s) m = pymod2 (c' + (p - l)) m).
  { apply pymod2_cong. destruct H as [k Hk]. exists k.
    replace (c + (p - l) + zq n * s) with (c + zq n * s + (p - l)) by ring. rewrite Hk. ring. }
  rewrite E. destruct (pymod2 (c' + (p - l)) m) as [v|] eqn:Ev; [|reflexivity].
  apply pymod2_inv in Ev as [Hm Hv].
  assert (Cv : qcong m v (c + (p - l) + zq n * s)).
  { rewrite Hv. eapply qcong_trans; [apply qcong_mod|].
    destruct H as [k Hk]. exists (- k)%Z. rewrite zq_opp.
    replace (c + (p - l) + zq n * s) with (c + zq n * s + (p - l)) by ring. rewrite Hk. ring. }
  destruct (n + 1 =? steps)%Z eqn:En.
  - apply Z.eqb_eq in En. rewrite pymod2_some by exact Hm. f_equal. apply IH.
    rewrite zq_0. subst steps. rewrite zq_add, zq_1.
    destruct Cv as [k Hk]. eapply qcong_trans; [|exists (- k)%Z; rewrite Hk, zq_opp; ring_simplify; reflexivity].
    replace (qmod (c + (p - l) + (zq n + 1) * s) m + 0 * s) with (qmod (c + (p - l) + (zq n + 1) * s) m) by ring.
    eapply qcong_trans; [apply qcong_mod|]. exists 0%Z. rewrite zq_0. ring.
  - f_equal. apply IH. rewrite zq_add, zq_1.
    destruct Cv as [k Hk]. exists (- k)%Z. rewrite Hk, zq_opp. ring.
Qed.

Lemma mc_snn_zero_slow : forall ps c l m,
  qcong m c l -> mc_snn_zero ps m = mc_snn_slow c l ps m 0.
Proof.
  induction ps as [|p ps IH]; intros c l m H; [reflexivity|].
  cbn [mc_snn_zero mc_snn_slow].
  assert (E : pymod2 p m = pymod2 (c + (p - l)) m).
  { apply pymod2_cong. destruct H as [k Hk]. exists (- k)%Z. rewrite Hk, zq_opp. ring. }
  rewrite E. destruct (pymod2 (c + (p - l)) m) as [v|] eqn:Ev; [|reflexivity].
  f_equal. apply IH. apply pymod2_inv in Ev as [Hm Hv]. rewrite Hv.
  replace (qmod (c + (p - l)) m + 0) with (qmod (c + (p - l)) m) by ring.
  eapply qcong_trans; [apply qcong_mod|].
  destruct H as [k Hk]. exists k. rewrite Hk. ring.
Qed.

(* only start is a stream: whichever sub-branch is taken *)
Theorem mc_snn_sss ps m s :
  mc_snn ps m s = mc_sss 0 0 ps (repeat m (length ps)) (repeat s (length ps)).
Proof.
  unfold mc_snn. rewrite <- mc_snn_slow_sss.
  destruct (Qc_is0 s) eqn:Es.
  - apply Qc_is0_spec in Es. subst s. apply mc_snn_zero_slow. apply qcong_refl.
  - destruct (1 <? qtrunc (m / s))%Z; [|reflexivity].
    apply mc_snn_fast_slow. rewrite zq_0. exists 0%Z. rewrite zq_0. ring.
Qed.

(* start a number *)
Lemma mc_nss_sss : forall ms c c' l p ss,
  c = c' + (p - l) ->
  mc_nss c ms ss = mc_sss c' l (repeat p (length ms)) ms ss.
Proof.
  induction ms as [|m ms IH]; intros c c' l p ss H; [reflexivity|].
  cbn [length repeat mc_nss mc_sss]. destruct ss as [|s ss]; [reflexivity|].
  rewrite <- H. destruct (pymod2 c m) as [v|]; [|reflexivity].
  f_equal. apply IH. ring.
Qed.

Lemma mc_nns_nss : forall ss c m, mc_nns c m ss = mc_nss c (repeat m (length ss)) ss.
Proof.
  induction ss as [|s ss IH]; intros c m; [reflexivity|].
  cbn [length repeat mc_nns mc_nss]. destruct (pymod2 c m); [|reflexivity]. rewrite IH. reflexivity.
Qed.

Lemma mc_nsn_nss : forall ms c s, mc_nsn c ms s = mc_nss c ms (repeat s (length ms)).
Proof.
  induction ms as [|m ms IH]; intros c s; [reflexivity|].
  cbn [length repeat mc_nsn mc_nss]. destruct (pymod2 c m); [|reflexivity]. rewrite IH. reflexivity.
Qed.

Lemma mc_nnn_slow_nss : forall k c m s,
  mc_nnn_slow c m s k = take_res k (mc_nss c (repeat m k) (repeat s k)).
Proof.
  induction k as [|k IH]; intros c m s; [reflexivity|].
  cbn [repeat mc_nnn_slow mc_nss]. destruct (pymod2 c m) as [v|]; [|reflexivity].
  rewrite take_res_rcons, IH. reflexivity.
Qed.

Lemma mc_nnn_fast_slow : forall k steps c c' n m s,
  qcong m (c + zq n * s) c' ->
  mc_nnn_fast steps c n m s k = mc_nnn_slow c' m s k.
Proof.
  induction k as [|k IH]; intros steps c c' n m s H; [reflexivity|].
  cbn [mc_nnn_fast mc_nnn_slow].
  rewrite (pymod2_cong _ _ _ H).
  destruct (pymod2 c' m) as [v|] eqn:Ev; [|reflexivity].
  apply pymod2_inv in Ev as [Hm Hv].
  assert (Cv : qcong m v (c + zq n * s)).
  { rewrite Hv. eapply qcong_trans; [apply qcong_mod|]. apply qcong_sym. exact H. }
  destruct (n + 1 =? steps)%Z eqn:En.
  - apply Z.eqb_eq in En. rewrite pymod2_some by exact Hm. f_equal. apply IH.
    rewrite zq_0. subst steps. rewrite zq_add, zq_1.
    replace (qmod (c + (zq n + 1) * s) m + 0 * s) with (qmod (c + (zq n + 1) * s) m) by ring.
    eapply qcong_trans; [apply qcong_mod|].
    destruct Cv as [j Hj]. exists (- j)%Z. rewrite Hj, zq_opp. ring.
  - f_equal. apply IH. rewrite zq_add, zq_1.
    destruct Cv as [j Hj]. exists (- j)%Z. rewrite Hj, zq_opp. ring.
Qed.

Lemma take_res_idem k r : take_res k (take_res k r) = take_res k r.
Proof.
  unfold take_res. destruct (k <=? length (fst r))%nat eqn:E; cbn [fst snd].
  - apply Nat.leb_le in E. rewrite firstn_length_le by exact E. rewrite Nat.leb_refl.
    rewrite firstn_firstn, Nat.min_id. reflexivity.
  - rewrite E. reflexivity.
Qed.

Lemma mc_nnn_zero_slow k p m : mc_nnn_zero p m k = mc_nnn_slow p m 0 k.
Proof.
  destruct k as [|k]; [reflexivity|]. unfold mc_nnn_zero. cbn [mc_nnn_slow].
  destruct (pymod2 p m) as [v|] eqn:Ev; [|reflexivity].
  apply pymod2_inv in Ev as [Hm Hv].
  assert (Fv : qmod v m = v) by (rewrite Hv; apply qmod_idem; exact Hm).
  assert (G : forall j, mc_nnn_slow v m 0 j = (repeat v j, EMore)).
  { induction j as [|j IHj]; [reflexivity|]. cbn [mc_nnn_slow repeat].
    rewrite pymod2_some by exact Hm. rewrite Fv.
    replace (v + 0) with v by ring. rewrite IHj. reflexivity. }
  cbn [repeat]. replace (v + 0) with v by ring. rewrite G. reflexivity.
Qed.

(* nothing is a stream: whichever sub-branch is taken *)
Theorem mc_nnn_sss p m s k :
  mc_nnn p m s k = take_res k (mc_sss 0 0 (repeat p k) (repeat m k) (repeat s k)).
Proof.
  assert (S : mc_nnn_slow p m s k = take_res k (mc_sss 0 0 (repeat p k) (repeat m k) (repeat s k))).
  { rewrite mc_nnn_slow_nss. f_equal.
    rewrite (mc_nss_sss (repeat m k) p 0 0 p) by ring. rewrite repeat_length. reflexivity. }
  unfold mc_nnn. destruct (Qc_is0 s) eqn:Es.
  - apply Qc_is0_spec in Es. subst s. rewrite mc_nnn_zero_slow. exact S.
  - destruct (1 <? qtrunc (m / s))%Z; [|exact S].
    rewrite (mc_nnn_fast_slow k _ p p 0 m s).
    + rewrite S. apply take_res_idem.
    + rewrite zq_0. exists 0%Z. rewrite zq_0. ring.
Qed.

(* ------------------------------------------------------------------ the general recurrence *)
Definition seqf (l : list Qc) : nat -> Qc := fun j => nth j l 0.

(* recurrence started from the state (c, lastp) *)
Fixpoint mc_rec0 (c l : Qc) (p m s : nat -> Qc) (n : nat) : Qc :=
  match n with
  | O => qmod (c + (p O - l)) (m O)
  | S n' => qmod (mc_rec0 c l p m s n' + s n' + (p (S n') - p n')) (m (S n'))
  end.

Lemma mc_rec0_S c l p m s n :
  mc_rec0 c l p m s (S n) = qmod (mc_rec0 c l p m s n + s n + (p (S n) - p n)) (m (S n)).
Proof. reflexivity. Qed.

Lemma mc_rec0_shift : forall j c l p ps m ms s ss,
  mc_rec0 c l (seqf (p :: ps)) (seqf (m :: ms)) (seqf (s :: ss)) (S j)
  = mc_rec0 (qmod (c + (p - l)) m + s) p (seqf ps) (seqf ms) (seqf ss) j.
Proof.
  induction j as [|j IH]; intros c l p ps m ms s ss.
  - cbn [mc_rec0 seqf nth]. reflexivity.
  - rewrite (mc_rec0_S c l _ _ _ (S j)), IH, (mc_rec0_S _ _ _ _ _ j). reflexivity.
Qed.

Definition min3 (a b c : nat) : nat := Nat.min a (Nat.min b c).

Lemma mc_sss_rec : forall ps ms ss c l,
  Forall (fun m => m <> 0) ms ->
  mc_sss c l ps ms ss
  = (map (mc_rec0 c l (seqf ps) (seqf ms) (seqf ss)) (seq 0 (min3 (length ps) (length ms) (length ss))), EStop).
Proof.
  induction ps as [|p ps IH]; intros ms ss c l Hm; [reflexivity|].
  destruct ms as [|m ms]; [reflexivity|]. destruct ss as [|s ss].
  - unfold min3. cbn [mc_sss length].
    assert (E : forall a b, Nat.min (S a) (Nat.min (S b) 0) = 0%nat) by (intros; lia).
    rewrite E. reflexivity.
  - inversion Hm as [|? ? Hm1 Hm2]; subst.
    cbn [mc_sss]. rewrite pymod2_some by exact Hm1. rewrite IH by exact Hm2.
    unfold rcons, min3. cbn [fst snd length]. rewrite <- !Nat.succ_min_distr.
    cbn [seq map]. f_equal. f_equal.
    rewrite <- seq_shift, map_map. apply map_ext. intro j. symmetry. apply mc_rec0_shift.
Qed.

Lemma mc_rec_rec0 p m s n : mc_rec p m s n = mc_rec0 0 0 p m s n.
Proof.
  induction n as [|n IH]; cbn [mc_rec mc_rec0].
  - f_equal. ring.
  - rewrite IH. reflexivity.
Qed.

(* mc_general: the all-streams branch yields the general recurrence, as long as its inputs last *)
Theorem mc_general ps ms ss :
  Forall (fun m => m <> 0) ms ->
  mc_sss 0 0 ps ms ss
  = (map (mc_rec (seqf ps) (seqf ms) (seqf ss)) (seq 0 (min3 (length ps) (length ms) (length ss))), EStop).
Proof.
  intro H. rewrite mc_sss_rec by exact H. f_equal. apply map_ext. intro j.
  symmetry. apply mc_rec_rec0.
Qed.

(* a zero modulo raises ZeroDivisionError when it is reached: outputs before it are unaffected *)
Lemma mc_sss_zero_mod : forall ps ms ss c l,
  mc_sss c l ps (0 :: ms) ss = (fst (mc_sss c l ps (0 :: ms) ss), if (match ps, ss with _ :: _, _ :: _ => true | _, _ => false end) then zde else EStop)
  /\ fst (mc_sss c l ps (0 :: ms) ss) = [].
Proof.
  intros ps ms ss c l. destruct ps as [|p ps]; [split; reflexivity|].
  destruct ss as [|s ss]; [split; reflexivity|].
  cbn [mc_sss]. rewrite pymod2_none by reflexivity. split; reflexivity.
Qed.

(* ------------------------------------------------------------------ closed form for a constant modulo *)
Theorem mc_closed_form p s m n :
  m <> 0 -> mc_rec p (fun _ => m) s n = mc_closed p s m n.
Proof.
  intro Hm. unfold mc_closed. induction n as [|n IH]; cbn [mc_rec sumq].
  - f_equal. ring.
  - rewrite IH. replace (qmod (p n + sumq s n) m + s n + (p (S n) - p n))
      with (qmod (p n + sumq s n) m + (s n + (p (S n) - p n))) by ring.
    rewrite qmod_mod_add by exact Hm. f_equal. ring.
Qed.

Theorem mc_closed_range p s m n : 0 < m -> 0 <= mc_closed p s m n /\ mc_closed p s m n < m.
Proof. intro H. apply qmod_range_pos. exact H. Qed.

Theorem mc_closed_range_neg p s m n : m < 0 -> m < mc_closed p s m n /\ mc_closed p s m n <= 0.
Proof. intro H. apply qmod_range_neg. exact H. Qed.

Lemma seqf_repeat x n j : (j < n)%nat -> seqf (repeat x n) j = x.
Proof.
  revert j. induction n as [|n IH]; intros j H; [lia|].
  destruct j as [|j]; [reflexivity|]. cbn [repeat seqf nth]. apply IH. lia.
Qed.

Lemma mc_rec_ext : forall n p p' m m' s s',
  (forall j, (j <= n)%nat -> p j = p' j) -> (forall j, (j <= n)%nat -> m j = m' j) ->
  (forall j, (j < n)%nat -> s j = s' j) -> mc_rec p m s n = mc_rec p' m' s' n.
Proof.
  induction n as [|n IH]; intros p p' m m' s s' Hp Hm Hs; cbn [mc_rec].
  - rewrite Hp, Hm by lia. reflexivity.
  - rewrite (IH p p' m m' s s'); [|intros; apply Hp; lia|intros; apply Hm; lia|intros; apply Hs; lia].
    rewrite (Hp (S n)), (Hp n), (Hm (S n)), (Hs n) by lia. reflexivity.
Qed.

(* constant start, modulo and step (numbers, or constant streams of any length >= k):
   all eight branches and both fast paths yield  (start + n*step) mod modulo *)
Lemma sumq_const s n : sumq (fun _ => s) n = nq n * s.
Proof.
  induction n as [|n IH]; cbn [sumq].
  - rewrite nq_0. ring.
  - rewrite IH, nq_S. ring.
Qed.

Theorem mc_const_closed p m s k :
  m <> 0 ->
  mc_sss 0 0 (repeat p k) (repeat m k) (repeat s k)
  = (map (fun n => qmod (p + nq n * s) m) (seq 0 k), EStop).
Proof.
  intro Hm. rewrite mc_general.
  - rewrite !repeat_length. unfold min3. rewrite !Nat.min_id. f_equal.
    apply map_ext_in. intros n Hn. apply in_seq in Hn.
    rewrite (mc_rec_ext n _ (fun _ => p) _ (fun _ => m) _ (fun _ => s));
      try (intros j Hj; apply seqf_repeat; lia).
    rewrite mc_closed_form by exact Hm. unfold mc_closed. rewrite sumq_const. reflexivity.
  - apply Forall_forall. intros x Hx. apply repeat_spec in Hx. subst x. exact Hm.
Qed.

(* ------------------------------------------------------------------ all-numbers call against the specification *)
Lemma first_bad_const_false (b : nat -> bool) : (forall i, b i = false) -> forall n i, first_bad b i n = None.
Proof. intros H n. induction n as [|n IH]; intro i; cbn [first_bad]; [reflexivity|]. rewrite H. apply IH. Qed.

Theorem mc_numbers_spec p m s k :
  modulo_counter (Num p) (Num m) (Num s) k = mc_spec (Num p) (Num m) (Num s) k.
Proof.
  cbn [modulo_counter]. rewrite mc_nnn_sss. unfold mc_spec. cbn [arg_len omin arg_nth].
  destruct (Qc_is0 m) eqn:Em.
  - apply Qc_is0_spec in Em. subst m. destruct k as [|k]; [reflexivity|].
    cbn [repeat mc_sss first_bad]. rewrite pymod2_none by reflexivity.
    replace (Qc_is0 0) with true by reflexivity. reflexivity.
  - rewrite (first_bad_const_false (fun _ => false)) by reflexivity.
    apply Qc_is0_false in Em. rewrite mc_const_closed by exact Em.
    unfold take_res. cbn [fst snd]. rewrite map_length, seq_length, Nat.leb_refl.
    rewrite firstn_all2 by (rewrite map_length, seq_length; lia).
    f_equal. apply map_ext. intro n. unfold mc_val, mc_closed.
    change (arg_nth (Num s)) with (fun _ : nat => s). change (arg_nth (Num p) n) with p.
    rewrite sumq_const. reflexivity.
Qed.
