(* C04 - case records and boolean checkers for the generated case files. *)
From Coq Require Import String List Bool Arith ZArith QArith Qcanon.
From AL Require Import Base.CaseLib C04.Model C04.Spec.
Import ListNotations.

(* ---- boolean equality of generated programs (captured text vs codegen) *)
Definition term_eqb (a b : term) : bool :=
  match a, b with
  | D i, D j => Nat.eqb i j
  | NegD i, NegD j => Nat.eqb i j
  | CoefD c i, CoefD e j => Qc_eqb c e && Nat.eqb i j
  | M i, M j => Nat.eqb i j
  | NegM i, NegM j => Nat.eqb i j
  | NegCoefM c i, NegCoefM e j => Qc_eqb c e && Nat.eqb i j
  | _, _ => false
  end.
Definition gain_eqb (a b : gainform) : bool :=
  match a, b with
  | GOne, GOne => true
  | GNeg, GNeg => true
  | GDiv c, GDiv e => Qc_eqb c e
  | _, _ => false
  end.
Definition natpair_eqb (a b : nat * nat) : bool := Nat.eqb (fst a) (fst b) && Nat.eqb (snd a) (snd b).
Definition prog_eqb (p q : prog term) : bool :=
  list_eqb Nat.eqb (p_mvars p) (p_mvars q) && list_eqb Nat.eqb (p_dvars p) (p_dvars q) &&
  list_eqb term_eqb (p_terms p) (p_terms q) && gain_eqb (p_gain p) (p_gain q) &&
  list_eqb natpair_eqb (p_mshift p) (p_mshift q) && list_eqb natpair_eqb (p_dshift p) (p_dshift q).
Definition gen_prog_eqb (a b : gen_prog) : bool :=
  match a, b with
  | PZero x, PZero y => Qc_eqb x y
  | PGen p, PGen q => prog_eqb p q
  | _, _ => false
  end.

Definition obs_eqb (a b : obs) : bool :=
  match a, b with
  | OOut x, OOut y => list_eqb Qc_eqb x y
  | ORaise s e, ORaise s' e' => Nat.eqb s s' && String.eqb e e'
  | _, _ => false
  end.

(* one call of the filter: arguments, the program text _exec_eval received
   (None: it was not reached) and what list(filt(xs, memory, zero)) did *)
Inductive captured :=
| NoProg                          (* _exec_eval was not called *)
| Captured (g : gen_prog)         (* the text it received, parsed *)
| Unparsed.                       (* text outside the grammar of the generator (or several calls) *)
Definition captured_is (c : captured) (g : gen_prog) : bool :=
  match c with Captured g' => gen_prog_eqb g' g | _ => false end.

Record run1 := Run { r_mem : memarg; r_zero : Qc; r_xs : list Qc;
                     r_prog : captured; r_obs : obs }.

(* a filter (constructor arguments + item assignments) and calls on it;
   c_init: the exception raised by the constructor, if any *)
Record ccase := CC { c_num : carg; c_den : carg; c_tamper : list tamper;
                     c_init : option string; c_runs : list run1 }.

Definition exn_name (e : exn) : string :=
  match e with
  | NonCausal => "ValueError"
  | ZeroGain => "ZeroDivisionError"
  | EmptyDen => "ValueError"
  end.

(* correspondence: same generated program, same outputs / same refusal *)
Definition corr_run (f : filt) (r : run1) : bool :=
  match codegen f (r_zero r) with
  | Err e => match r_prog r with NoProg => true | _ => false end &&
             obs_eqb (r_obs r) (ORaise 1 (exn_name e))
  | Ok g => captured_is (r_prog r) g &&
            obs_eqb (r_obs r)
                    (OOut (run_gen g (normalise_memory (mem_size f) (r_zero r) (r_mem r)) (r_zero r) (r_xs r)))
  end.

Definition corr_call (c : ccase) : bool :=
  match build (c_num c) (c_den c) (c_tamper c) with
  | Err e => option_eqb String.eqb (c_init c) (Some (exn_name e))
  | Ok f => match c_init c with None => forallb (corr_run f) (c_runs c) | Some _ => false end
  end.

(* the property on the implementation's observation: spec tables only *)
Definition holds_call (c : ccase) : bool :=
  match constructed (c_num c) (c_den c) with
  | None => true                                   (* no filter: the text is silent *)
  | Some nd =>
      match c_init c with
      | Some _ => false                            (* a filter exists but the constructor raised *)
      | None =>
          let nd' := fold_left tampered (c_tamper c) nd in
          forallb (fun r => sat_b (fst nd') (snd nd') (r_mem r) (r_zero r) (r_xs r) (r_obs r)) (c_runs c)
      end
  end.

(* the callable memories used by the harness: asked for n items, such a callable
   returns the n + more - less items  base + 10 n + i  (i = 0, 1, ...) *)
Definition qnat (n : nat) : Qc := Q2Qc (inject_Z (Z.of_nat n)).
Definition ramp (base : Qc) (more less : nat) (n : nat) : list Qc :=
  map (fun i => (base + qnat 10 * qnat n + qnat i)%Qc) (seq 0 (n + more - less)).

(* a history: several filters alive in one process, their calls and the consumption of their results
   interleaved by the harness, argument objects possibly shared between calls.  The code is pure per call,
   so every call must equal the per-call model on the contents its arguments had when the call was made
   (the harness snapshots them), and no argument object may have been changed by the library. *)
Record hcase := HC { h_cases : list ccase; h_args_intact : bool }.
Definition corr_hist (h : hcase) : bool := h_args_intact h && forallb corr_call (h_cases h).
Definition holds_hist (h : hcase) : bool := forallb holds_call (h_cases h).
