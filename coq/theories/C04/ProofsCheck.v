(* C04 - an observation that agrees with the model satisfies the property checker. *)
From Coq Require Import String List Bool Arith ZArith QArith Qcanon Lia Permutation FinFun.
From AL Require Import Base.CaseLib C04.Model C04.Spec C04.Check C04.Lib C04.ProofsLoop C04.ProofsCall C04.ProofsBuild
  C04.ProofsSpec C04.ProofsCtor C04.ProofsPerm.
Import ListNotations.
Open Scope list_scope.
Open Scope Qc_scope.


Lemma obs_eqb_eq a b : obs_eqb a b = true -> a = b.
Proof.
  destruct a as [x|s e], b as [y|s' e']; simpl; try discriminate.
  - intro H. apply (list_eqb_spec Qc_eqb Qc_eqb_spec) in H. congruence.
  - rewrite andb_true_iff, Nat.eqb_eq, String.eqb_eq. intros [-> ->]. reflexivity.
Qed.

Lemma corr_run_obs f r : corr_run f r = true ->
  r_obs r = obs_of (call f (r_mem r) (r_zero r) (r_xs r)).
Proof.
  unfold corr_run, call. rewrite codegen_unfold.
  destruct (any_negative f).
  { rewrite andb_true_iff. intros [_ H]. apply obs_eqb_eq in H. exact H. }
  destruct (Qc_eqb (getitem (f_den f) 0) 0).
  { rewrite andb_true_iff. intros [_ H]. apply obs_eqb_eq in H. exact H. }
  destruct (data_sum f); rewrite andb_true_iff; intros [_ H]; apply obs_eqb_eq in H; exact H.
Qed.

(* Soundness of the two-checker protocol: an observation that agrees with the model (program text and
   outputs / refusal) satisfies the property as the boolean checker of Spec states it. *)
Theorem corr_implies_holds c : carg_ok (c_num c) -> carg_ok (c_den c) ->
  corr_call c = true -> holds_call c = true.
Proof.
  intros Hn Hd. unfold corr_call, holds_call.
  destruct (constructed (c_num c) (c_den c)) as [nd|] eqn:E; [|reflexivity].
  destruct (build_call_sat _ _ (c_tamper c) nd Hn Hd E) as [f [B S]]. rewrite B.
  destruct (c_init c); [discriminate|].
  rewrite !forallb_forall. intros H r Hin. specialize (H r Hin).
  apply sat_b_spec. rewrite (corr_run_obs f r H). apply S.
Qed.

(* histories: the model is per call and pure, so a history of calls (any interleaving, shared argument
   objects snapshotted when each call is made) satisfies the property as soon as every call agrees with it *)
Theorem calls_independent h :
  Forall (fun c => carg_ok (c_num c) /\ carg_ok (c_den c)) (h_cases h) ->
  corr_hist h = true -> holds_hist h = true.
Proof.
  intros Hok. unfold corr_hist, holds_hist. rewrite andb_true_iff. intros [_ H].
  rewrite forallb_forall in *. intros c Hin. rewrite Forall_forall in Hok.
  destruct (Hok c Hin) as [Hn Hd]. apply corr_implies_holds; auto.
Qed.
