(* C04 - the same code generator and generated program over Gaussian rationals (complex coefficients,
   samples, memories and zero values).  LinearFilter.__call__ does not look at the kind of number: the tests
   are "coeff == 1", "coeff == -1", "coeff != 0", "gain == -1", "gain != 1".  The filter is given by the
   tables of its numpoly / denpoly as they are after construction.  No proofs in this file: complex cases are
   judged directly by the difference equation (CheckC.holds_cplx), this model ties the program text. *)
From Coq Require Import List Bool Arith ZArith QArith Qcanon.
From AL Require Import Base.CaseLib C04.Model.
Import ListNotations.
Open Scope Qc_scope.

Definition cq := (Qc * Qc)%type.
Definition c0 : cq := (0, 0).
Definition c1 : cq := (1, 0).
Definition cm1 : cq := (- (1), 0).
Definition cadd (a b : cq) : cq := (fst a + fst b, snd a + snd b).
Definition cneg (a : cq) : cq := (- fst a, - snd a).
Definition csub (a b : cq) : cq := cadd a (cneg b).
Definition cmul (a b : cq) : cq := (fst a * fst b - snd a * snd b, fst a * snd b + snd a * fst b).
Definition cdiv (a b : cq) : cq :=
  let n := fst b * fst b + snd b * snd b in
  ((fst a * fst b + snd a * snd b) / n, (snd a * fst b - fst a * snd b) / n).
Definition ceqb (a b : cq) : bool := Qc_eqb (fst a) (fst b) && Qc_eqb (snd a) (snd b).

Definition cdata := list (Z * cq).

Fixpoint cinsert (kv : Z * cq) (l : cdata) : cdata :=
  match l with
  | [] => [kv]
  | h :: t => if (fst kv <=? fst h)%Z then kv :: l else h :: cinsert kv t
  end.
Definition cterms (d : cdata) : cdata := fold_right cinsert [] d.

Definition cgetitem (d : cdata) (k : Z) : cq :=
  match find (fun kv => (fst kv =? k)%Z) d with Some kv => snd kv | None => c0 end.

Definition cdense_len (d : cdata) : nat :=
  match d with
  | [] => 0%nat
  | kv :: r => S (Z.to_nat (fold_left (fun m kv' => Z.max m (fst kv')) r (fst kv)))
  end.

Inductive cterm :=
| CD (k : nat) | CNegD (k : nat) | CCoefD (c : cq) (k : nat)
| CM (k : nat) | CNegM (k : nat) | CNegCoefM (c : cq) (k : nat).
Inductive cgain := CGOne | CGNeg | CGDiv (g : cq).
Inductive cgen :=
| CPZero (z : cq)
| CPGen (p : prog cterm) (g : cgain).    (* the record of Model.v with its own gain form beside it *)

Definition cnum_term (kv : Z * cq) : list cterm :=
  let k := Z.to_nat (fst kv) in
  let c := snd kv in
  if ceqb c c1 then [CD k] else if ceqb c cm1 then [CNegD k]
  else if negb (ceqb c c0) then [CCoefD c k] else [].

Definition cden_term (kv : Z * cq) : list cterm :=
  let k := Z.to_nat (fst kv) in
  let c := snd kv in
  if (fst kv =? 0)%Z then []
  else if ceqb c cm1 then [CM k] else if ceqb c c1 then [CNegM k]
  else if negb (ceqb c c0) then [CNegCoefM c k] else [].

Definition cgain_form (g : cq) : cgain :=
  if ceqb g cm1 then CGNeg else if negb (ceqb g c1) then CGDiv g else CGOne.

Definition ccodegen (num den : cdata) (zero : cq) : result cgen :=
  if existsb (fun kv => (fst kv <? 0)%Z) (cterms num ++ cterms den) then Err NonCausal
  else if ceqb (cgetitem den 0) c0 then Err ZeroGain
  else
    let la := cdense_len den in
    let lb := cdense_len num in
    let data_sum := flat_map cnum_term (cterms num) ++ flat_map cden_term (cterms den) in
    match data_sum with
    | [] => Ok (CPZero zero)
    | _ => Ok (CPGen (Prog (seq 1 (la - 1)) (seq 1 (lb - 1)) data_sum GOne
                           (shift_lines (la - 1)) (shift_lines (lb - 1)))
                     (cgain_form (cgetitem den 0)))
    end.

(* ---- interpreter *)
Definition cenv := nat -> cq.
Definition cupd (e : cenv) (i : nat) (v : cq) : cenv := fun j => if Nat.eqb j i then v else e j.

Fixpoint cunpack (vars : list nat) (vals : list cq) (e : cenv) : cenv :=
  match vars, vals with
  | v :: vs, q :: qs => cunpack vs qs (cupd e v q)
  | _, _ => e
  end.
Definition cassign_all (vars : list nat) (z : cq) (e : cenv) : cenv := fold_left (fun e v => cupd e v z) vars e.
Definition cexec_shifts (lines : list (nat * nat)) (e : cenv) : cenv :=
  fold_left (fun e ij => cupd e (fst ij) (e (snd ij))) lines e.

Definition ceval_term (m d : cenv) (t : cterm) : cq :=
  match t with
  | CD k => d k | CNegD k => cneg (d k) | CCoefD c k => cmul c (d k)
  | CM k => m k | CNegM k => cneg (m k) | CNegCoefM c k => cmul (cneg c) (m k)
  end.
Definition ceval_sum (m d : cenv) (ts : list cterm) : cq :=
  match ts with
  | [] => c0
  | t :: r => fold_left (fun acc t' => cadd acc (ceval_term m d t')) r (ceval_term m d t)
  end.
Definition capply_gain (g : cgain) (e : cq) : cq :=
  match g with CGOne => e | CGNeg => cneg e | CGDiv c => cdiv e c end.

Fixpoint cloop (p : prog cterm) (g : cgain) (m d : cenv) (xs : list cq) : list cq :=
  match xs with
  | [] => []
  | x :: r =>
      let d0 := cupd d 0 x in
      let m0 := capply_gain g (ceval_sum m d0 (p_terms p)) in
      m0 :: cloop p g (cexec_shifts (p_mshift p) (cupd m 0 m0)) (cexec_shifts (p_dshift p) d0) r
  end.

(* memory: None, or the items an iterable delivers (first lm, left-padded with zero) *)
Definition cnormalise (lm : nat) (zero : cq) (mem : option (list cq)) : list cq :=
  match mem with
  | None => repeat zero lm
  | Some l => let got := firstn lm l in repeat zero (lm - length got) ++ got
  end.

Definition ccall (num den : cdata) (mem : option (list cq)) (zero : cq) (xs : list cq) : result (list cq) :=
  match ccodegen num den zero with
  | Err e => Err e
  | Ok (CPZero z) => Ok (map (fun _ => z) xs)
  | Ok (CPGen p g) =>
      let memory := cnormalise (cdense_len den - 1) zero mem in
      Ok (cloop p g (cunpack (p_mvars p) memory (fun _ => c0)) (cassign_all (p_dvars p) zero (fun _ => c0)) xs)
  end.
