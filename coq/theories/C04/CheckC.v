(* C04 - complex (Gaussian rational) cases: the property's difference equation evaluated in exact complex
   arithmetic on the implementation's outputs (holds_cplx: independent of ModelC), and the correspondence
   with ModelC (program text and outputs). *)
From Coq Require Import String List Bool Arith ZArith QArith Qcanon.
From AL Require Import Base.CaseLib C04.Model C04.ModelC.
Import ListNotations.
Open Scope Qc_scope.

(* ---- the property over complex signals *)
Definition cxsig (zero : cq) (x : list cq) (n : Z) : cq :=
  if (n <? 0)%Z then zero else nth (Z.to_nat n) x c0.
Definition cysig (past : nat -> cq) (y : list cq) (n : Z) : cq :=
  if (n <? 0)%Z then past (Z.to_nat (- n)) else nth (Z.to_nat n) y c0.
Definition cpsum (p : cdata) (f : Z -> cq) : cq :=
  fold_right (fun kv acc => cadd (cmul (snd kv) (f (fst kv))) acc) c0 p.
Definition ccoef (p : cdata) (k : Z) : cq := cpsum p (fun j => if (j =? k)%Z then c1 else c0).
Definition cfeedback (den : cdata) : cdata := filter (fun kv => negb (fst kv =? 0)%Z) den.
Definition corder (d : cdata) : nat :=
  Z.to_nat (fold_right (fun kv m => if ceqb (snd kv) c0 then m else Z.max m (fst kv)) 0%Z d).
Definition ccausal (num den : cdata) : bool :=
  forallb (fun kv => ceqb (snd kv) c0 || (0 <=? fst kv)%Z) (num ++ den).
Definition call_zero (num den : cdata) : bool :=
  forallb (fun kv => ceqb (snd kv) c0) (num ++ cfeedback den).
Definition cpast (ord : nat) (zero : cq) (mem : option (list cq)) (k : nat) : cq :=
  match mem with
  | None => zero
  | Some l => let missing := (ord - length l)%nat in
              if (k <=? missing)%nat then zero else nth (k - 1 - missing) l c0
  end.
Definition cmem_sufficient (ord : nat) (mem : option (list cq)) : bool :=
  match mem with None => true | Some l => (ord <=? length l)%nat end.

(* a0 * y[n] = sum_k b[k] x[n-k] - sum_{k>=1} a[k] y[n-k]   in C: two rational equations *)
Definition cdiffeq_b (num den : cdata) (X Y : Z -> cq) (n : Z) : bool :=
  ceqb (cmul (ccoef den 0) (Y n))
       (csub (cpsum num (fun k => X (n - k)%Z)) (cpsum (cfeedback den) (fun k => Y (n - k)%Z))).

Inductive cobs := COut (y : list cq) | CRaise (stage : nat) (exn : string).

Definition csat_b (num den : cdata) (mem : option (list cq)) (zero : cq) (x : list cq) (o : cobs) : bool :=
  if negb (ccausal num den) then
    match o with
    | CRaise s e => (Nat.eqb s 1 || Nat.eqb s 2) && String.eqb e "ValueError"
    | _ => false
    end
  else if ceqb (ccoef den 0) c0 then true
  else if negb (cmem_sufficient (corder den) mem) then true
  else match o with
       | COut y =>
           if call_zero num den then list_eqb ceqb y (repeat zero (length x))
           else Nat.eqb (length y) (length x) &&
                forallb (fun n => cdiffeq_b num den (cxsig zero x) (cysig (cpast (corder den) zero mem) y) (Z.of_nat n))
                        (seq 0 (length x))
       | _ => false
       end.

(* ---- cases *)
Definition cterm_eqb (a b : cterm) : bool :=
  match a, b with
  | CD i, CD j | CNegD i, CNegD j | CM i, CM j | CNegM i, CNegM j => Nat.eqb i j
  | CCoefD c i, CCoefD e j | CNegCoefM c i, CNegCoefM e j => ceqb c e && Nat.eqb i j
  | _, _ => false
  end.
Definition cgain_eqb (a b : cgain) : bool :=
  match a, b with
  | CGOne, CGOne | CGNeg, CGNeg => true
  | CGDiv c, CGDiv e => ceqb c e
  | _, _ => false
  end.
Definition npair_eqb (a b : nat * nat) : bool := Nat.eqb (fst a) (fst b) && Nat.eqb (snd a) (snd b).
Definition cgen_eqb (a b : cgen) : bool :=
  match a, b with
  | CPZero x, CPZero y => ceqb x y
  | CPGen p g, CPGen q h =>
      list_eqb Nat.eqb (p_mvars p) (p_mvars q) && list_eqb Nat.eqb (p_dvars p) (p_dvars q) &&
      list_eqb cterm_eqb (p_terms p) (p_terms q) && cgain_eqb g h &&
      list_eqb npair_eqb (p_mshift p) (p_mshift q) && list_eqb npair_eqb (p_dshift p) (p_dshift q)
  | _, _ => false
  end.
Inductive ccaptured := CNoProg | CCaptured (g : cgen) | CUnparsed.
Definition cobs_eqb (a b : cobs) : bool :=
  match a, b with
  | COut x, COut y => list_eqb ceqb x y
  | CRaise s e, CRaise s' e' => Nat.eqb s s' && String.eqb e e'
  | _, _ => false
  end.

Record xrun := XRun { x_mem : option (list cq); x_zero : cq; x_xs : list cq; x_prog : ccaptured; x_obs : cobs }.
Record xcase := XC { x_num : cdata; x_den : cdata; x_runs : list xrun }.

Definition cexn_name (e : exn) : string :=
  match e with NonCausal => "ValueError" | ZeroGain => "ZeroDivisionError" | EmptyDen => "ValueError" end.

Definition corr_xrun (num den : cdata) (r : xrun) : bool :=
  match ccodegen num den (x_zero r) with
  | Err e => match x_prog r with CNoProg => true | _ => false end && cobs_eqb (x_obs r) (CRaise 1 (cexn_name e))
  | Ok g => match x_prog r with CCaptured g' => cgen_eqb g' g | _ => false end &&
            match ccall num den (x_mem r) (x_zero r) (x_xs r) with
            | Ok y => cobs_eqb (x_obs r) (COut y)
            | Err _ => false
            end
  end.
Definition corr_cplx (c : xcase) : bool := forallb (corr_xrun (x_num c) (x_den c)) (x_runs c).
Definition holds_cplx (c : xcase) : bool :=
  forallb (fun r => csat_b (x_num c) (x_den c) (x_mem r) (x_zero r) (x_xs r) (x_obs r)) (x_runs c).
