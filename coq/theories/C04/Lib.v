(* C04 - lemmas on coefficient tables (psum, coef, terms), on the generated expression and on the register files. *)
From Coq Require Import String List Bool Arith ZArith QArith Qcanon Lia Permutation.
From AL Require Import Base.CaseLib C04.Model C04.Spec.
Import ListNotations.
Open Scope list_scope.
Open Scope Qc_scope.


(* ------------------------------------------------------------ Qc helpers *)
Lemma Qc_eqb_false a b : Qc_eqb a b = false <-> a <> b.
Proof.
  split; intro H.
  - intro E. apply Qc_eqb_spec in E. congruence.
  - destruct (Qc_eqb a b) eqn:E; [|reflexivity]. apply Qc_eqb_spec in E. contradiction.
Qed.

Lemma nonzero_true c : nonzero c = true <-> c <> 0.
Proof. unfold nonzero. rewrite negb_true_iff. apply Qc_eqb_false. Qed.

(* ------------------------------------------------------------------ psum *)
Lemma psum_ext_in p f g :
  (forall kv, In kv p -> f (fst kv) = g (fst kv)) -> psum p f = psum p g.
Proof.
  induction p as [|kv r IH]; intro H; simpl; [reflexivity|].
  rewrite (H kv (or_introl eq_refl)), IH; [reflexivity|].
  intros kv' Hin. apply H. right. exact Hin.
Qed.

Lemma psum_ext p f g : (forall k, f k = g k) -> psum p f = psum p g.
Proof. intro H. apply psum_ext_in. intros. apply H. Qed.

Lemma psum_perm p q f : Permutation p q -> psum p f = psum q f.
Proof.
  induction 1; simpl; try congruence. ring.
Qed.

Lemma psum_app p q f : psum (p ++ q) f = psum p f + psum q f.
Proof. induction p as [|kv r IH]; simpl; [ring|]. rewrite IH. ring. Qed.

Lemma insert_perm kv l : Permutation (insert kv l) (kv :: l).
Proof.
  induction l as [|h t IH]; simpl; [reflexivity|].
  destruct (fst kv <=? fst h)%Z; [reflexivity|].
  rewrite IH. apply perm_swap.
Qed.

Lemma terms_perm d : Permutation (terms d) d.
Proof.
  unfold terms. induction d as [|kv r IH]; simpl; [reflexivity|].
  rewrite insert_perm. constructor. exact IH.
Qed.

Lemma psum_feedback p f :
  psum (feedback p) f = psum p (fun k => if (k =? 0)%Z then 0 else f k).
Proof.
  induction p as [|kv r IH]; simpl; [reflexivity|].
  destruct (fst kv =? 0)%Z eqn:E; simpl; rewrite IH; [ring|reflexivity].
Qed.

Lemma feedback_terms_psum d f : psum (feedback (terms d)) f = psum (feedback d) f.
Proof. rewrite !psum_feedback. apply psum_perm, terms_perm. Qed.

Lemma coef_perm p q k : Permutation p q -> coef p k = coef q k.
Proof. apply psum_perm. Qed.

(* keys *)
Definition keys (d : pdata) : list Z := map fst d.
Definition nozero (d : pdata) : Prop := forall kv, In kv d -> snd kv <> 0.
Definition wf_pdata (d : pdata) : Prop := NoDup (keys d) /\ nozero d.
Definition wf (f : filt) : Prop := wf_pdata (f_num f) /\ wf_pdata (f_den f).

Lemma coef_absent p k : ~ In k (keys p) -> coef p k = 0.
Proof.
  unfold coef. induction p as [|kv r IH]; simpl; intro H; [reflexivity|].
  destruct (fst kv =? k)%Z eqn:E.
  - exfalso. apply H. left. apply Z.eqb_eq. exact E.
  - rewrite IH; [ring|]. intro Hin. apply H. right. exact Hin.
Qed.

Lemma getitem_coef p k : NoDup (keys p) -> getitem p k = coef p k.
Proof.
  unfold getitem. induction p as [|kv r IH]; intro ND; [reflexivity|].
  inversion ND as [|? ? Hnin ND']; subst. simpl find. unfold coef. simpl psum.
  destruct (fst kv =? k)%Z eqn:E.
  - apply Z.eqb_eq in E. subst k. fold (coef r (fst kv)). rewrite coef_absent by exact Hnin. ring.
  - fold (coef r k). rewrite <- IH by exact ND'. ring.
Qed.

Lemma gain_of_coef_aux l : NoDup (keys l) -> forall g0,
  fold_left (fun g kv => if (fst kv =? 0)%Z then snd kv else g) l g0
  = if existsb (fun kv => (fst kv =? 0)%Z) l then coef l 0 else g0.
Proof.
  induction l as [|kv r IH]; intros ND g0; [reflexivity|].
  inversion ND as [|? ? Hnin ND']; subst. simpl fold_left. simpl existsb.
  rewrite IH by exact ND'. unfold coef at 2. simpl psum. fold (coef r 0).
  destruct (fst kv =? 0)%Z eqn:E; simpl.
  - apply Z.eqb_eq in E. rewrite E in Hnin.
    destruct (existsb (fun kv0 => (fst kv0 =? 0)%Z) r) eqn:Ex.
    + exfalso. apply existsb_exists in Ex as [kv' [Hin Hk]]. apply Z.eqb_eq in Hk.
      apply Hnin. rewrite <- Hk. apply in_map. exact Hin.
    + rewrite coef_absent by exact Hnin. ring.
  - destruct (existsb _ r); [ring|reflexivity].
Qed.

Lemma keys_perm p q : Permutation p q -> Permutation (keys p) (keys q).
Proof. apply Permutation_map. Qed.

Lemma gain_of_terms den : NoDup (keys den) -> coef den 0 <> 0 -> gain_of (terms den) = coef den 0.
Proof.
  intros ND Hg. unfold gain_of. rewrite gain_of_coef_aux.
  - rewrite (coef_perm _ _ 0 (terms_perm den)).
    destruct (existsb _ (terms den)) eqn:Ex; [reflexivity|].
    exfalso. apply Hg. apply coef_absent. intro Hin. apply in_map_iff in Hin as [kv [Hk Hin]].
    assert (existsb (fun kv => (fst kv =? 0)%Z) (terms den) = true) as Ht.
    { apply existsb_exists. exists kv. split.
      - apply (Permutation_in _ (Permutation_sym (terms_perm den))). exact Hin.
      - apply Z.eqb_eq. exact Hk. }
    congruence.
  - apply (Permutation_NoDup (Permutation_sym (keys_perm _ _ (terms_perm den)))). exact ND.
Qed.


(* ------------------------------------------- the generated expression *)
Definition lsum {T} (ev : T -> Qc) (ts : list T) : Qc := fold_right (fun t acc => ev t + acc) 0 ts.

Lemma fold_left_plus {T} (ev : T -> Qc) ts a :
  fold_left (fun acc t => acc + ev t) ts a = a + lsum ev ts.
Proof.
  revert a. induction ts as [|t r IH]; intro a; simpl; [ring|]. rewrite IH. ring.
Qed.

Lemma eval_sum_lsum {T} (ev : T -> Qc) ts : eval_sum ev ts = lsum ev ts.
Proof.
  destruct ts as [|t r]; [reflexivity|]. unfold eval_sum. rewrite fold_left_plus. reflexivity.
Qed.

Lemma lsum_app {T} (ev : T -> Qc) a b : lsum ev (a ++ b) = lsum ev a + lsum ev b.
Proof. induction a as [|t r IH]; simpl; [ring|]. rewrite IH. ring. Qed.

Lemma num_terms_sum m d l :
  lsum (eval_term m d) (flat_map num_term l) = psum l (fun k => d (Z.to_nat k)).
Proof.
  induction l as [|kv r IH]; [reflexivity|].
  simpl flat_map. rewrite lsum_app, IH. simpl psum. f_equal.
  unfold num_term.
  destruct (Qc_eqb (snd kv) 1) eqn:E1.
  { apply Qc_eqb_spec in E1. rewrite E1. simpl. ring. }
  destruct (Qc_eqb (snd kv) (- (1))) eqn:E2.
  { apply Qc_eqb_spec in E2. rewrite E2. simpl. ring. }
  destruct (nonzero (snd kv)) eqn:E3.
  { simpl. ring. }
  unfold nonzero in E3. apply negb_false_iff in E3. apply Qc_eqb_spec in E3. rewrite E3. simpl. ring.
Qed.

Lemma den_terms_sum m d l :
  lsum (eval_term m d) (flat_map den_term l) = - psum (feedback l) (fun k => m (Z.to_nat k)).
Proof.
  induction l as [|kv r IH]; [simpl; ring|].
  simpl flat_map. rewrite lsum_app, IH. simpl feedback.
  unfold den_term.
  destruct (fst kv =? 0)%Z eqn:E0; simpl negb; cbv iota.
  { simpl. ring. }
  simpl psum.
  destruct (Qc_eqb (snd kv) (- (1))) eqn:E2.
  { apply Qc_eqb_spec in E2. rewrite E2. simpl. ring. }
  destruct (Qc_eqb (snd kv) 1) eqn:E1.
  { apply Qc_eqb_spec in E1. rewrite E1. simpl. ring. }
  destruct (nonzero (snd kv)) eqn:E3.
  { simpl. ring. }
  unfold nonzero in E3. apply negb_false_iff in E3. apply Qc_eqb_spec in E3. rewrite E3. simpl. ring.
Qed.

Lemma data_sum_value f m d :
  eval_sum (eval_term m d) (flat_map num_term (terms (f_num f)) ++ flat_map den_term (terms (f_den f)))
  = psum (f_num f) (fun k => d (Z.to_nat k)) - psum (feedback (f_den f)) (fun k => m (Z.to_nat k)).
Proof.
  rewrite eval_sum_lsum, lsum_app, num_terms_sum, den_terms_sum, feedback_terms_psum.
  rewrite (psum_perm _ _ _ (terms_perm (f_num f))). ring.
Qed.

Lemma apply_gain_form g e : g <> 0 -> g * apply_gain (gain_form g) e = e.
Proof.
  intro Hg. unfold gain_form.
  destruct (Qc_eqb g (- (1))) eqn:E1.
  { apply Qc_eqb_spec in E1. subst g. simpl. ring. }
  destruct (Qc_eqb g 1) eqn:E2; simpl.
  { apply Qc_eqb_spec in E2. subst g. ring. }
  field. exact Hg.
Qed.

(* ------------------------------------------------------- register files *)
Lemma upd_same e i v : upd e i v i = v.
Proof. unfold upd. rewrite Nat.eqb_refl. reflexivity. Qed.
Lemma upd_other e i v j : j <> i -> upd e i v j = e j.
Proof. unfold upd. intro H. apply Nat.eqb_neq in H. rewrite H. reflexivity. Qed.

Lemma shift_lines_S n : shift_lines (S n) = (S n, n) :: shift_lines n.
Proof.
  unfold shift_lines, down_to_1. rewrite seq_S, rev_app_distr. simpl.
  rewrite Nat.sub_0_r. reflexivity.
Qed.

(* "r{n} = r{n-1}; ...; r1 = r0": every register 1..n receives its lower neighbour *)
Lemma exec_shifts_spec n : forall e k,
  exec_shifts (shift_lines n) e k = if (1 <=? k)%nat && (k <=? n)%nat then e (k - 1)%nat else e k.
Proof.
  induction n as [|n IH]; intros e k.
  - simpl. destruct k; reflexivity.
  - rewrite shift_lines_S. unfold exec_shifts. simpl fold_left. fold (exec_shifts (shift_lines n)).
    rewrite IH.
    destruct (1 <=? k)%nat eqn:E1; simpl.
    + destruct (k <=? n)%nat eqn:E2.
      * apply Nat.leb_le in E1, E2. assert (k <=? S n = true)%nat as -> by (apply Nat.leb_le; lia).
        apply upd_other. lia.
      * apply Nat.leb_le in E1. apply Nat.leb_gt in E2.
        destruct (k <=? S n)%nat eqn:E3.
        -- apply Nat.leb_le in E3. assert (k = S n) as -> by lia. rewrite upd_same. simpl.
           rewrite Nat.sub_0_r. reflexivity.
        -- apply Nat.leb_gt in E3. apply upd_other. lia.
    + apply Nat.leb_gt in E1. apply upd_other. lia.
Qed.

Lemma unpack_spec : forall n s vals e k,
  length vals = n -> (s <= k < s + n)%nat ->
  unpack (seq s n) vals e k = nth (k - s) vals 0.
Proof.
  induction n as [|n IH]; intros s vals e k Hl Hk; [lia|].
  destruct vals as [|v vs]; [discriminate|]. simpl in Hl. injection Hl as Hl.
  simpl seq. simpl unpack.
  destruct (Nat.eq_dec k s) as [->|Hne].
  - rewrite Nat.sub_diag. simpl.
    (* later assignments do not touch s *)
    assert (forall n' s' vals' e', (s < s')%nat -> unpack (seq s' n') vals' e' s = e' s) as Hskip.
    { induction n' as [|n' IH']; intros s' vals' e' Hlt; [reflexivity|].
      destruct vals' as [|v' vs']; [reflexivity|]. simpl. rewrite IH' by lia. apply upd_other. lia. }
    rewrite Hskip by lia. apply upd_same.
  - rewrite IH by (try exact Hl; lia).
    replace (k - s)%nat with (S (k - S s)) by lia. reflexivity.
Qed.

Lemma assign_all_spec vars z : forall e k,
  assign_all vars z e k = if existsb (Nat.eqb k) vars then z else e k.
Proof.
  unfold assign_all. induction vars as [|v r IH]; intros e k; [reflexivity|].
  simpl. rewrite IH. destruct (existsb (Nat.eqb k) r) eqn:Er.
  - rewrite orb_true_r. reflexivity.
  - rewrite orb_false_r. unfold upd. destruct (k =? v)%nat; reflexivity.
Qed.

Lemma assign_all_seq n z e k : (1 <= k <= n)%nat -> assign_all (seq 1 n) z e k = z.
Proof.
  intro Hk. rewrite assign_all_spec.
  assert (existsb (Nat.eqb k) (seq 1 n) = true) as ->; [|reflexivity].
  apply existsb_exists. exists k. split; [apply in_seq; lia|apply Nat.eqb_refl].
Qed.
