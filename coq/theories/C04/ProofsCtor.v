(* C04 - LinearFilter.__init__ against Spec.constructed (denominator shift); coefficient lists. *)
From Coq Require Import String List Bool Arith ZArith QArith Qcanon Lia Permutation FinFun.
From AL Require Import Base.CaseLib C04.Model C04.Spec C04.Lib C04.ProofsLoop C04.ProofsCall C04.ProofsBuild C04.ProofsSpec.
Import ListNotations.
Open Scope list_scope.
Open Scope Qc_scope.


(* ------------------------------------------------ the constructor against Spec.constructed *)
Lemma enumerate_combine l : forall n,
  combine (map Z.of_nat (seq n (length l))) l = enumerate_from (Z.of_nat n) l.
Proof.
  induction l as [|c r IH]; intro n; [reflexivity|]. simpl. rewrite IH. do 2 f_equal. lia.
Qed.

Lemma table_of_list l : table_of (AList l) = enumerate_from 0 l.
Proof. apply (enumerate_combine l 0). Qed.

Lemma poly_of_table a : poly_of a = compact (table_of a).
Proof. destruct a; simpl; [rewrite (enumerate_combine l 0)|..]; reflexivity. Qed.

Definition minr (l : pdata) : option Z :=
  fold_right (fun kv m => match m with None => Some (fst kv) | Some p => Some (Z.min p (fst kv)) end) None l.

Lemma fold_left_min r : forall a,
  fold_left (fun m (kv' : Z * Qc) => Z.min m (fst kv')) r a = match minr r with None => a | Some p => Z.min a p end.
Proof.
  induction r as [|h t IH]; intro a; [reflexivity|]. simpl. rewrite IH.
  destruct (minr t); lia.
Qed.

Lemma min_power_minr l : min_power l = minr l.
Proof.
  destruct l as [|kv r]; [reflexivity|]. simpl. rewrite fold_left_min.
  destruct (minr r); f_equal; lia.
Qed.

Lemma lowest_minr d : lowest d = minr (compact d).
Proof.
  induction d as [|kv r IH]; [reflexivity|]. simpl. unfold nonzero.
  destruct (Qc_eqb (snd kv) 0); simpl; rewrite IH; reflexivity.
Qed.

Lemma min_power_compact d : min_power (compact d) = lowest d.
Proof. rewrite min_power_minr, lowest_minr. reflexivity. Qed.

Lemma compact_map_compact (g : Z * Qc -> Z * Qc) d :
  (forall kv, nonzero (snd (g kv)) = nonzero (snd kv)) ->
  compact (map g (compact d)) = compact (map g d).
Proof.
  intro Hg. induction d as [|kv r IH]; [reflexivity|]. simpl.
  destruct (nonzero (snd kv)) eqn:E; simpl; rewrite Hg, E, IH; reflexivity.
Qed.

Lemma pshift_compact p d : pshift (- p) (compact d) = compact (moved p d).
Proof.
  unfold pshift. rewrite compact_map_compact.
  - f_equal. apply map_ext. intro kv. f_equal; try lia; ring.
  - intro kv. simpl. f_equal. ring.
Qed.

Lemma moved_0 d : moved 0 d = d.
Proof.
  unfold moved. rewrite <- (map_id d) at 2. apply map_ext. intros [k v]. simpl. f_equal. lia.
Qed.

Theorem mk_filter_constructed num den :
  match constructed num den with
  | None => mk_filter num den = Err EmptyDen
  | Some nd => mk_filter num den = Ok (Filt (compact (fst nd)) (compact (snd nd)))
  end.
Proof.
  unfold constructed, mk_filter.
  set (ds := match den with ANone => [(0%Z, 1)] | _ => table_of den end).
  assert (match den with ANone => [(0%Z, 1)] | _ => poly_of den end = compact ds) as ->.
  { unfold ds. destruct den; try apply poly_of_table. reflexivity. }
  rewrite min_power_compact, poly_of_table.
  destruct (lowest ds) as [p|]; [|reflexivity]. simpl fst. simpl snd.
  destruct (p =? 0)%Z eqn:E.
  - apply Z.eqb_eq in E. subst p. rewrite !moved_0. reflexivity.
  - rewrite !pshift_compact. reflexivity.
Qed.

(* what "constructed" means: both tables move by the denominator's lowest power, which becomes 0 *)
Lemma coef_moved p d k : coef (moved p d) k = coef d (k + p)%Z.
Proof.
  unfold coef. induction d as [|kv r IH]; [reflexivity|]. simpl. rewrite IH.
  destruct (fst kv - p =? k)%Z eqn:E1; destruct (fst kv =? k + p)%Z eqn:E2; try reflexivity; exfalso;
    rewrite ?Z.eqb_eq, ?Z.eqb_neq in *; lia.
Qed.

Lemma lowest_moved p d : lowest (moved p d) = option_map (fun m => (m - p)%Z) (lowest d).
Proof.
  induction d as [|kv r IH]; [reflexivity|]. simpl. rewrite IH.
  destruct (Qc_eqb (snd kv) 0); [reflexivity|]. destruct (lowest r); simpl; f_equal; lia.
Qed.

Theorem den_normalised num den n' d' :
  constructed num den = Some (n', d') ->
  exists p, lowest (match den with ANone => [(0%Z, 1)] | _ => table_of den end) = Some p /\
    (forall k, coef n' k = coef (table_of num) (k + p)%Z) /\
    (forall k, coef d' k = coef (match den with ANone => [(0%Z, 1)] | _ => table_of den end) (k + p)%Z) /\
    lowest d' = Some 0%Z.
Proof.
  unfold constructed. destruct (lowest _) as [p|] eqn:E; [|discriminate].
  intro H. injection H as <- <-. exists p. split; [reflexivity|].
  split; [intro k; apply coef_moved|]. split; [intro k; apply coef_moved|].
  rewrite lowest_moved, E. simpl. f_equal. lia.
Qed.

(* a filter exists exactly when the denominator is not identically zero, and then every call on it
   satisfies the property with respect to the constructed tables *)
Theorem constructed_call_sat num den n' d' : carg_ok num -> carg_ok den ->
  constructed num den = Some (n', d') ->
  exists f, mk_filter num den = Ok f /\
    forall mem zero xs, sat n' d' mem zero xs (obs_of (call f mem zero xs)).
Proof.
  intros Hn Hd E. pose proof (mk_filter_constructed num den) as H. rewrite E in H. simpl in H.
  eexists. split; [exact H|]. intros mem zero xs.
  apply sat_compact. apply (call_sat (Filt (compact n') (compact d'))).
  apply (mk_filter_wf num den); assumption.
Qed.

Theorem no_filter_when_den_zero num den :
  constructed num den = None -> mk_filter num den = Err EmptyDen.
Proof. intro E. pose proof (mk_filter_constructed num den) as H. rewrite E in H. exact H. Qed.


(* ------------------------------------------------ coefficient lists b = [b0; b1; ...], a = [a0; a1; ...] *)
Lemma psum_enumerate l F : forall i, psum (enumerate_from i l) F = dot l F i.
Proof. induction l as [|c r IH]; intro i; [reflexivity|]. simpl. rewrite IH. reflexivity. Qed.

Lemma lowest_ge d c p : (forall k, In k (keys d) -> (c <= k)%Z) -> lowest d = Some p -> (c <= p)%Z.
Proof.
  revert p. induction d as [|kv r IH]; intros p Hk; [discriminate|]. simpl.
  assert (forall k, In k (keys r) -> (c <= k)%Z) as Hr by (intros k Hin; apply Hk; right; exact Hin).
  assert (c <= fst kv)%Z as H0 by (apply Hk; left; reflexivity).
  destruct (Qc_eqb (snd kv) 0); [apply IH; exact Hr|].
  destruct (lowest r) as [q|] eqn:E; intro H; injection H as <-; [|exact H0].
  specialize (IH q Hr eq_refl). lia.
Qed.

Lemma constructed_lists b a0 ar : a0 <> 0 ->
  constructed (AList b) (AList (a0 :: ar)) = Some (enumerate_from 0 b, enumerate_from 0 (a0 :: ar)).
Proof.
  intro Ha. unfold constructed. rewrite !table_of_list.
  assert (lowest (enumerate_from 0 (a0 :: ar)) = Some 0%Z) as ->.
  { simpl. apply Qc_eqb_false in Ha. rewrite Ha.
    destruct (lowest (enumerate_from 1 ar)) as [q|] eqn:E; [|reflexivity].
    apply (lowest_ge _ 1%Z) in E; [f_equal; lia|]. intros k Hin. apply enumerate_keys_ge in Hin. lia. }
  rewrite !moved_0. reflexivity.
Qed.

Lemma coef_enumerate_head a0 ar : coef (enumerate_from 0 (a0 :: ar)) 0 = a0.
Proof.
  change (coef (enumerate_from 0 (a0 :: ar)) 0) with (a0 * 1 + coef (enumerate_from 1 ar) 0).
  rewrite coef_absent; [ring|].
  intro Hin. apply enumerate_keys_ge in Hin. lia.
Qed.

Lemma feedback_enumerate a0 ar F : psum (feedback (enumerate_from 0 (a0 :: ar))) F = dot ar F 1.
Proof.
  rewrite psum_feedback. simpl. rewrite <- psum_enumerate.
  rewrite (psum_ext_in (enumerate_from 1 ar) (fun k => if (k =? 0)%Z then 0 else F k) F); [ring|].
  intros kv Hin. assert (1 <= fst kv)%Z as H.
  { apply (enumerate_keys_ge ar 1). apply in_map. exact Hin. }
  destruct (fst kv =? 0)%Z eqn:E; [apply Z.eqb_eq in E; lia|reflexivity].
Qed.

Lemma causal_enumerate b a : causal (enumerate_from 0 b) (enumerate_from 0 a) = true.
Proof.
  unfold causal. apply forallb_forall. intros kv Hin. apply orb_true_iff. right. apply Z.leb_le.
  apply in_app_or in Hin as [Hin|Hin]; eapply enumerate_keys_ge; apply in_map; exact Hin.
Qed.

(* The property for coefficient lists, in its own words:
     a0 * y[n] = (b0 x[n] + b1 x[n-1] + ...) - (a1 y[n-1] + a2 y[n-2] + ...) *)
Theorem lists_diffeq b a0 ar mem zero xs : a0 <> 0 ->
  let a := a0 :: ar in
  exists ys, run_filter b a mem zero xs = Ok ys /\ length ys = length xs /\
    if all_zero (enumerate_from 0 b) (enumerate_from 0 a) then ys = repeat zero (length xs)
    else forall n, (n < length xs)%nat ->
           diffeq_lists_at b a (xsig zero xs) (ysig (past (order (enumerate_from 0 a)) zero mem) ys) (Z.of_nat n).
Proof.
  intros Ha a. unfold run_filter.
  pose proof (mk_filter_constructed (AList b) (AList a)) as Hmk.
  unfold a in Hmk. rewrite (constructed_lists b a0 ar Ha) in Hmk. cbn [fst snd] in Hmk.
  fold a in Hmk. rewrite Hmk. cbv iota beta.
  set (f := Filt (compact (enumerate_from 0 b)) (compact (enumerate_from 0 a))).
  assert (wf f) as W by (apply (mk_filter_wf (AList b) (AList a)); simpl; auto).
  assert (causal (f_num f) (f_den f) = true) as Hc by (unfold f; cbn [f_num f_den]; rewrite causal_compact; apply causal_enumerate).
  assert (coef (f_den f) 0 = a0) as Hg0 by (unfold f; cbn [f_num f_den]; rewrite coef_compact; apply coef_enumerate_head).
  assert (coef (f_den f) 0 <> 0) as Hg by (rewrite Hg0; exact Ha).
  assert (all_zero (f_num f) (f_den f) = all_zero (enumerate_from 0 b) (enumerate_from 0 a)) as Hz
    by (unfold f; cbn [f_num f_den]; apply all_zero_compact).
  destruct (all_zero (enumerate_from 0 b) (enumerate_from 0 a)) eqn:Ez.
  - rewrite (allzero_outputs_zero f mem zero xs W Hc Hg Hz). eexists. split; [reflexivity|].
    split; [apply repeat_length|reflexivity].
  - destruct (gen_satisfies_diffeq f mem zero xs W Hc Hg Hz) as [ys [E [Hl Hd]]].
    exists ys. split; [exact E|]. split; [exact Hl|]. intros n Hn. specialize (Hd n Hn).
    unfold diffeq_at in Hd. unfold diffeq_lists_at.
    unfold f in Hd. cbn [f_num f_den] in Hd.
    rewrite order_compact, coef_compact, feedback_compact, !psum_compact in Hd.
    unfold a in Hd at 1 3. rewrite coef_enumerate_head, feedback_enumerate, psum_enumerate in Hd.
    exact Hd.
Qed.
