(* C04 - the property as a statement about signals: no registers, no generated
   program.  A filter is a pair of coefficient tables (power k of z^-1 -> value);
   the input and the output are lists, extended to all integer times by the zero
   value (input) and by the given memory (output). Definitions only. *)
From Coq Require Import String List Bool Arith ZArith QArith Qcanon.
From AL Require Import Base.CaseLib C04.Model.   (* data types only: pdata, carg, memarg, tamper *)
Import ListNotations.
Open Scope string_scope.
Open Scope Qc_scope.

(* x[n] : the input, and the zero value before time 0 *)
Definition xsig (zero : Qc) (x : list Qc) (n : Z) : Qc :=
  if (n <? 0)%Z then zero else nth (Z.to_nat n) x 0.

(* y[n] : the output, and past k = y[-k] before time 0 *)
Definition ysig (past : nat -> Qc) (y : list Qc) (n : Z) : Qc :=
  if (n <? 0)%Z then past (Z.to_nat (- n)) else nth (Z.to_nat n) y 0.

(* sum over the table:  sum_k c_k * f k *)
Definition psum (p : pdata) (f : Z -> Qc) : Qc :=
  fold_right (fun kv acc => snd kv * f (fst kv) + acc) 0 p.

(* the coefficient of power k *)
Definition coef (p : pdata) (k : Z) : Qc := psum p (fun j => if (j =? k)%Z then 1 else 0).

(* the terms with k >= 1 of the denominator *)
Definition feedback (den : pdata) : pdata := filter (fun kv => negb (fst kv =? 0)%Z) den.

(* a[0]*y[n] = sum_k b[k]*x[n-k] - sum_{k>=1} a[k]*y[n-k] *)
Definition diffeq_at (num den : pdata) (X Y : Z -> Qc) (n : Z) : Prop :=
  coef den 0 * Y n = psum num (fun k => X (n - k)%Z) - psum (feedback den) (fun k => Y (n - k)%Z).
Definition diffeq_b (num den : pdata) (X Y : Z -> Qc) (n : Z) : bool :=
  Qc_eqb (coef den 0 * Y n)
         (psum num (fun k => X (n - k)%Z) - psum (feedback den) (fun k => Y (n - k)%Z)).

(* the same equation for coefficient lists b = [b0; b1; ...], a = [a0; a1; ...] *)
Fixpoint dot (l : list Qc) (f : Z -> Qc) (start : Z) : Qc :=
  match l with
  | [] => 0
  | c :: r => c * f start + dot r f (start + 1)%Z
  end.
Definition diffeq_lists_at (b a : list Qc) (X Y : Z -> Qc) (n : Z) : Prop :=
  nth 0 a 0 * Y n = dot b (fun k => X (n - k)%Z) 0 - dot (tl a) (fun k => Y (n - k)%Z) 1.

(* highest power with a non-zero coefficient = number of past outputs needed *)
Definition order (d : pdata) : nat :=
  Z.to_nat (fold_right (fun kv m => if Qc_eqb (snd kv) 0 then m else Z.max m (fst kv)) 0%Z d).

(* y[-k], 1 <= k <= ord, from the memory argument: no memory = the zero value; an
   iterable gives its first ord items, item k being y[-k]; a callable is asked for
   ord items.  (Beyond the property text, which speaks of memories of sufficient
   length: when fewer than ord items come, they are taken as the OLDEST outputs
   y[-ord].. and the newer ones are the zero value.) *)
Definition past_of_list (ord : nat) (zero : Qc) (l : list Qc) (k : nat) : Qc :=
  let missing := (ord - length l)%nat in
  if (k <=? missing)%nat then zero else nth (k - 1 - missing) l 0.
Definition past (ord : nat) (zero : Qc) (m : memarg) (k : nat) : Qc :=
  match m with
  | MNone => zero
  | MIter l => past_of_list ord zero l k
  | MCall f => past_of_list ord zero (f ord) k
  end.

(* negative delay somewhere *)
Definition causal (num den : pdata) : bool :=
  forallb (fun kv => Qc_eqb (snd kv) 0 || (0 <=? fst kv)%Z) (num ++ den).

(* the all-zero filter: no input term and no feedback term *)
Definition all_zero (num den : pdata) : bool :=
  forallb (fun kv => Qc_eqb (snd kv) 0) (num ++ feedback den).

(* what a call was observed to do: the outputs of list(filt(x, memory, zero)), or an
   exception; stage 0 = in the constructor, 1 = in filt(...) itself (nothing can have
   been output), 2 = while iterating, before the first output, 3 = after an output *)
Inductive obs := OOut (y : list Qc) | ORaise (stage : nat) (exn : string).

(* "memories of sufficient length" *)
Definition mem_sufficient (ord : nat) (m : memarg) : bool :=
  match m with
  | MNone => true
  | MIter l => (ord <=? length l)%nat
  | MCall f => (ord <=? length (f ord))%nat
  end.

(* what the property promises about one call of an existing filter (num, den).
   Where the text is silent (a[0] = 0, a memory that is too short) nothing is demanded. *)
Definition sat (num den : pdata) (mem : memarg) (zero : Qc) (x : list Qc) (o : obs) : Prop :=
  if negb (causal num den) then o = ORaise 1 "ValueError" \/ o = ORaise 2 "ValueError"
  else if Qc_eqb (coef den 0) 0 then True
  else if negb (mem_sufficient (order den) mem) then True
  else exists y, o = OOut y /\
       if all_zero num den then y = repeat zero (length x)
       else length y = length x /\
            forall n, (n < length x)%nat ->
              diffeq_at num den (xsig zero x) (ysig (past (order den) zero mem) y) (Z.of_nat n).

Definition sat_b (num den : pdata) (mem : memarg) (zero : Qc) (x : list Qc) (o : obs) : bool :=
  if negb (causal num den) then
    match o with
    | ORaise s e => (Nat.eqb s 1 || Nat.eqb s 2) && String.eqb e "ValueError"
    | _ => false
    end
  else if Qc_eqb (coef den 0) 0 then true
  else if negb (mem_sufficient (order den) mem) then true
  else match o with
       | OOut y =>
           if all_zero num den then list_eqb Qc_eqb y (repeat zero (length x))
           else Nat.eqb (length y) (length x) &&
                forallb (fun n => diffeq_b num den (xsig zero x)
                                           (ysig (past (order den) zero mem) y) (Z.of_nat n))
                        (seq 0 (length x))
       | _ => false
       end.

(* ---- what the constructor means: the transfer function num/den is kept and
   the denominator's lowest power becomes 0 (both tables move by that power) *)
Definition table_of (a : carg) : pdata :=
  match a with
  | AList l => combine (map Z.of_nat (seq 0 (length l))) l
  | ADict d => d
  | ANone => []
  end.

Definition lowest (d : pdata) : option Z :=
  fold_right (fun kv m => if Qc_eqb (snd kv) 0 then m
                          else match m with None => Some (fst kv) | Some p => Some (Z.min p (fst kv)) end)
             None d.

Definition moved (p : Z) (d : pdata) : pdata := map (fun kv => ((fst kv - p)%Z, snd kv)) d.

(* None: the denominator is identically zero, no filter exists *)
Definition constructed (num den : carg) : option (pdata * pdata) :=
  let d := match den with ANone => [(0%Z, 1)] | _ => table_of den end in
  match lowest d with
  | None => None
  | Some p => Some (moved p (table_of num), moved p d)
  end.

(* assigning a coefficient afterwards replaces it *)
Definition assigned (d : pdata) (k : Z) (v : Qc) : pdata :=
  (k, v) :: filter (fun kv => negb (fst kv =? k)%Z) d.
Definition tampered (nd : pdata * pdata) (t : tamper) : pdata * pdata :=
  match t with
  | SetNum k v => (assigned (fst nd) k v, snd nd)
  | SetDen k v => (fst nd, assigned (snd nd) k v)
  end.
