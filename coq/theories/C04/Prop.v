(* C04 - A constant-coefficient filter computes its difference equation.
   The proved statements, each closed by [exact] on a lemma of Proofs*.v.

   Vocabulary (Model.v / Spec.v):
     filt            numpoly / denpoly of a LinearFilter: tables (power of z^-1, coefficient) in dict order
     wf f            what every Python Poly satisfies: distinct keys, no stored zero coefficient
                     (C04_build_wf: every filter made by the constructor and by item assignments is wf)
     call f mem zero xs   = list(f(xs, memory=mem, zero=zero)): the code generator [codegen] followed by the
                     interpreter [run_gen] of the generated program; Err NonCausal = ValueError,
                     Err ZeroGain = ZeroDivisionError
     psum p F        sum over the table p of  coefficient * F power;   coef p k  the coefficient of power k
     xsig zero xs    the input extended by the zero value before time 0
     ysig past ys    the output extended by  y[-k] = past k  before time 0
     past ord zero mem k   the k-th item of the memory argument (None: zero; callable: asked for ord items) *)
From Coq Require Import String List Bool Arith ZArith QArith Qcanon.
From AL Require Import Base.CaseLib C04.Model C04.Spec C04.Lib C04.ProofsLoop C04.ProofsCall C04.ProofsBuild
  C04.ProofsSpec C04.ProofsCtor C04.Check C04.ProofsPerm C04.ProofsCheck.
Import ListNotations.
Open Scope list_scope.
Open Scope Qc_scope.

(* Central theorem. For EVERY coefficient table pair (any order, any sparsity, coefficients 1 / -1 / other,
   a0 = 1 / -1 / other: all special cases of the string builder are inside [codegen]), every memory argument,
   zero value and input: the program generated for the filter outputs one sample per input and
     a0 * y[n] = sum_k b[k] * x[n-k] - sum_{k>=1} a[k] * y[n-k]       for every n. *)
Theorem C04_gen_satisfies_diffeq : forall f mem zero xs, wf f ->
  causal (f_num f) (f_den f) = true -> coef (f_den f) 0 <> 0 -> all_zero (f_num f) (f_den f) = false ->
  exists ys, call f mem zero xs = Ok ys /\ length ys = length xs /\
    forall n, (n < length xs)%nat ->
      coef (f_den f) 0 * ysig (past (order (f_den f)) zero mem) ys (Z.of_nat n)
      = psum (f_num f) (fun k => xsig zero xs (Z.of_nat n - k))
        - psum (feedback (f_den f)) (fun k => ysig (past (order (f_den f)) zero mem) ys (Z.of_nat n - k)).
Proof. exact gen_satisfies_diffeq. Qed.
Print Assumptions C04_gen_satisfies_diffeq.

Theorem C04_one_output_per_input : forall f mem zero xs ys, wf f ->
  call f mem zero xs = Ok ys -> length ys = length xs.
Proof. exact one_output_per_input. Qed.
Print Assumptions C04_one_output_per_input.

(* any negative delay (in the numerator or in the denominator): ValueError, raised by __call__ itself,
   whatever the gain, the memory and the input - so before any output *)
Theorem C04_noncausal_rejected : forall f mem zero xs, wf f ->
  causal (f_num f) (f_den f) = false -> call f mem zero xs = Err NonCausal.
Proof. exact noncausal_rejected. Qed.
Print Assumptions C04_noncausal_rejected.

Theorem C04_zero_gain_rejected : forall f mem zero xs, wf f ->
  causal (f_num f) (f_den f) = true -> coef (f_den f) 0 = 0 -> call f mem zero xs = Err ZeroGain.
Proof. exact zero_gain_rejected. Qed.
Print Assumptions C04_zero_gain_rejected.

(* the all-zero filter (no input term, no feedback term) outputs the zero value once per input *)
Theorem C04_allzero_outputs_zero : forall f mem zero xs, wf f ->
  causal (f_num f) (f_den f) = true -> coef (f_den f) 0 <> 0 -> all_zero (f_num f) (f_den f) = true ->
  call f mem zero xs = Ok (repeat zero (length xs)).
Proof. exact allzero_outputs_zero. Qed.
Print Assumptions C04_allzero_outputs_zero.

(* every filter object is well formed: constructor (lists, dicts with distinct keys, None), then any number of
   numpoly[k] = v / denpoly[k] = v assignments *)
Theorem C04_build_wf : forall num den ts f,
  carg_ok num -> carg_ok den -> build num den ts = Ok f -> wf f.
Proof. exact build_wf. Qed.
Print Assumptions C04_build_wf.

(* all of the above in one statement: what the call does satisfies the property as Spec.sat words it *)
Theorem C04_call_sat : forall f mem zero xs, wf f ->
  sat (f_num f) (f_den f) mem zero xs (obs_of (call f mem zero xs)).
Proof. exact call_sat. Qed.
Print Assumptions C04_call_sat.

(* the boolean checker evaluated on every observed case (Check.holds_call) decides [sat] *)
Theorem C04_sat_b_spec : forall num den mem zero x o,
  sat_b num den mem zero x o = true <-> sat num den mem zero x o.
Proof. exact sat_b_spec. Qed.
Print Assumptions C04_sat_b_spec.

(* LinearFilter.__init__ : the model's constructor is Spec.constructed (both tables move by the lowest
   denominator power) followed by the deletion of zero coefficients; no filter iff the denominator is zero *)
Theorem C04_mk_filter_constructed : forall num den,
  match constructed num den with
  | None => mk_filter num den = Err EmptyDen
  | Some nd => mk_filter num den = Ok (Filt (compact (fst nd)) (compact (snd nd)))
  end.
Proof. exact mk_filter_constructed. Qed.
Print Assumptions C04_mk_filter_constructed.

(* den_normalised: numerator and denominator are multiplied by the same power of z (the transfer function
   is kept) and the lowest denominator power becomes 0 *)
Theorem C04_den_normalised : forall num den n' d',
  constructed num den = Some (n', d') ->
  exists p, lowest (match den with ANone => [(0%Z, 1)] | _ => table_of den end) = Some p /\
    (forall k, coef n' k = coef (table_of num) (k + p)%Z) /\
    (forall k, coef d' k = coef (match den with ANone => [(0%Z, 1)] | _ => table_of den end) (k + p)%Z) /\
    lowest d' = Some 0%Z.
Proof. exact den_normalised. Qed.
Print Assumptions C04_den_normalised.

(* constructor + call, against the spec-side tables (no model notion in the conclusion but [call]) *)
Theorem C04_constructed_call_sat : forall num den n' d', carg_ok num -> carg_ok den ->
  constructed num den = Some (n', d') ->
  exists f, mk_filter num den = Ok f /\
    forall mem zero xs, sat n' d' mem zero xs (obs_of (call f mem zero xs)).
Proof. exact constructed_call_sat. Qed.
Print Assumptions C04_constructed_call_sat.

(* The property in its own words, for coefficient lists b = [b0; b1; ...] and a = [a0; a1; ...], a0 <> 0:
     a0 * y[n] = (b0 x[n] + b1 x[n-1] + ...) - (a1 y[n-1] + a2 y[n-2] + ...),
   one output per input; the all-zero filter outputs the zero value. *)
Theorem C04_lists_diffeq : forall b a0 ar mem zero xs, a0 <> 0 ->
  exists ys, run_filter b (a0 :: ar) mem zero xs = Ok ys /\ length ys = length xs /\
    if all_zero (enumerate_from 0 b) (enumerate_from 0 (a0 :: ar)) then ys = repeat zero (length xs)
    else forall n, (n < length xs)%nat ->
           a0 * ysig (past (order (enumerate_from 0 (a0 :: ar))) zero mem) ys (Z.of_nat n)
           = dot b (fun k => xsig zero xs (Z.of_nat n - k)) 0
             - dot ar (fun k => ysig (past (order (enumerate_from 0 (a0 :: ar))) zero mem) ys (Z.of_nat n - k)) 1.
Proof. exact lists_diffeq. Qed.
Print Assumptions C04_lists_diffeq.

(* ---- non-vacuity: (1 - z^-1 + 2 z^-2) / (2 - 1/2 z^-1 + z^-2), memory [10; 20], zero 5/3, four inputs.
   y0 = (1 - 5/3 + 10/3 + 5 - 20)/2 = -37/6, ... *)
Definition C04_ex_b : list Qc := [qc 1 1; qc (-1) 1; qc 2 1].
Definition C04_ex_a : list Qc := [qc 2 1; qc (-1) 2; qc 1 1].
Example C04_example_run :
  run_filter C04_ex_b C04_ex_a (MIter [qc 10 1; qc 20 1]) (qc 5 3) [qc 1 1; qc 0 1; qc 3 1; qc (-2) 1]
  = Ok [qc (-37) 6; qc (-43) 8; qc 407 96; qc 479 384].
Proof. vm_compute. reflexivity. Qed.
Print Assumptions C04_example_run.

(* the hypotheses of the central theorem hold of that filter, and its program has every kind of term *)
Example C04_example_hyps :
  exists f, mk_filter (AList C04_ex_b) (AList C04_ex_a) = Ok f /\ wf f /\
    causal (f_num f) (f_den f) = true /\ coef (f_den f) 0 <> 0 /\ all_zero (f_num f) (f_den f) = false /\
    codegen f 0 = Ok (PGen (Prog [1; 2]%nat [1; 2]%nat
                        [D 0; NegD 1; CoefD (qc 2 1) 2; NegCoefM (qc (-1) 2) 1; NegM 2] (GDiv (qc 2 1))
                        [(2, 1); (1, 0)]%nat [(2, 1); (1, 0)]%nat)).
Proof.
  eexists. split; [vm_compute; reflexivity|]. split.
  - apply (mk_filter_wf (AList C04_ex_b) (AList C04_ex_a)); simpl; auto.
  - repeat split; try (vm_compute; reflexivity). vm_compute. discriminate.
Qed.
Print Assumptions C04_example_hyps.

(* z (one sample of advance) refuses to run; 1 / (z^-1 + z^-2) = z / (1 + z^-1) as well *)
Example C04_example_noncausal :
  (exists f, mk_filter (ADict [((-1)%Z, qc 1 1)]) ANone = Ok f /\ causal (f_num f) (f_den f) = false /\
             call f MNone 0 [qc 1 1] = Err NonCausal) /\
  (exists f, mk_filter (AList [qc 1 1]) (AList [0; qc 1 1; qc 1 1]) = Ok f /\
             f_den f = [(0%Z, qc 1 1 * 1); (1%Z, qc 1 1 * 1)] /\ call f MNone 0 [qc 1 1] = Err NonCausal).
Proof.
  split; eexists; (split; [vm_compute; reflexivity|]); split; vm_compute; reflexivity.
Qed.
Print Assumptions C04_example_noncausal.

(* constructor, then ANY number of item assignments numpoly[k] = v / denpoly[k] = v, then the call:
   the observation satisfies the property stated on the spec-side tables (Spec.constructed, Spec.tampered) *)
Theorem C04_build_call_sat : forall num den ts nd, carg_ok num -> carg_ok den ->
  constructed num den = Some nd ->
  exists f, build num den ts = Ok f /\
    forall mem zero xs,
      sat (fst (fold_left tampered ts nd)) (snd (fold_left tampered ts nd)) mem zero xs (obs_of (call f mem zero xs)).
Proof. exact build_call_sat. Qed.
Print Assumptions C04_build_call_sat.

(* Soundness of the verdict protocol for this property: whatever the implementation was observed to do
   (captured program text, outputs or exception, for every run of the case), if it agrees with the model
   (Check.corr_call) then it satisfies the property's boolean checker (Check.holds_call). *)
Theorem C04_corr_implies_holds : forall c, carg_ok (c_num c) -> carg_ok (c_den c) ->
  corr_call c = true -> holds_call c = true.
Proof. exact corr_implies_holds. Qed.
Print Assumptions C04_corr_implies_holds.

(* ---- non-vacuity of the remaining hypotheses *)
(* a0 deleted by an assignment: ZeroDivisionError; the all-zero filter yields the zero value 5/3 *)
Example C04_example_zero_gain_and_allzero :
  (exists f, build (AList [qc 1 1; qc 1 1]) (AList [qc 1 1; qc (-1) 1]) [SetDen 0 0] = Ok f /\
             causal (f_num f) (f_den f) = true /\ coef (f_den f) 0 = 0 /\
             call f MNone 0 [qc 1 1; qc 2 1] = Err ZeroGain) /\
  (exists f, mk_filter (AList [0; 0]) (AList [qc 5 1]) = Ok f /\
             all_zero (f_num f) (f_den f) = true /\
             call f (MIter [qc 9 1]) (qc 5 3) [qc 1 1; qc 2 1] = Ok [qc 5 3; qc 5 3]).
Proof.
  split; eexists; (split; [vm_compute; reflexivity|]); repeat split; vm_compute; reflexivity.
Qed.
Print Assumptions C04_example_zero_gain_and_allzero.

(* a case as the harness writes it (dict constructor with a late denominator, one assignment, a callable
   memory, captured program): it agrees with the model, hence C04_corr_implies_holds applies to it *)
Definition C04_example_case : ccase :=
  CC (ADict [(3%Z, qc 2 1); (1%Z, qc 1 1)]) (ADict [(2%Z, qc (-1) 1); (1%Z, qc 4 1)]) [SetNum 1 (qc (-1) 1)]
     None
     [Run (MCall (ramp (qc 1 2) 0 0)) (qc 5 3) [qc 1 1; qc 2 1; qc 3 1]
          (Captured (PGen (Prog [1]%nat [1; 2]%nat [D 0; NegD 1; CoefD (qc 2 1) 2; M 1] (GDiv (qc 4 1))
                                [(1, 0)]%nat [(2, 1); (1, 0)]%nat)))
          (OOut [qc 79 24; qc 61 32; qc 157 128])].
Example C04_example_case_corr :
  carg_ok (c_num C04_example_case) /\ carg_ok (c_den C04_example_case) /\
  corr_call C04_example_case = true /\ holds_call C04_example_case = true.
Proof.
  split; [|split].
  - simpl. repeat constructor; simpl; intuition discriminate.
  - simpl. repeat constructor; simpl; intuition discriminate.
  - split; vm_compute; reflexivity.
Qed.
Print Assumptions C04_example_case_corr.

(* histories of calls (several live filters, interleaved consumption, shared argument objects): each call
   is judged by the per-call model on the contents its arguments had when it was made *)
Theorem C04_calls_independent : forall h,
  Forall (fun c => carg_ok (c_num c) /\ carg_ok (c_den c)) (h_cases h) ->
  corr_hist h = true -> holds_hist h = true.
Proof. exact calls_independent. Qed.
Print Assumptions C04_calls_independent.
