(* C04 - A constant-coefficient filter computes its difference equation.
   The proved statements, each closed by [exact] on a lemma of Proofs*.v.

   Vocabulary (Model.v / Spec.v):
     filt            numpoly / denpoly of a LinearFilter: tables (power of z^-1, coefficient) in dict order
     wf f            what every Python Poly satisfies: distinct keys, no stored zero coefficient
                     (C04_build_wf: every filter made by the constructor and by item assignments is wf)
     call f mem zero xs   = list(f(xs, memory=mem, zero=zero)): the code generator [codegen] followed by the
                     interpreter [run_gen] of the generated program; Err NonCausal = ValueError,
                     Err ZeroGain = ZeroDivisionError
     psum p F        sum over the table p of  coefficient * F power;   coef p k  the coefficient of power k
     xsig zero xs    the input extended by the zero value before time 0
     ysig past ys    the output extended by  y[-k] = past k  before time 0
     past ord zero mem k   the k-th item of the memory argument (None: zero; callable: asked for ord items) *)
From Coq Require Import String List Bool Arith ZArith QArith Qcanon.
From AL Require Import Base.CaseLib C04.Model C04.Spec C04.Lib C04.ProofsLoop C04.ProofsCall C04.ProofsBuild.
Import ListNotations.
Open Scope list_scope.
Open Scope Qc_scope.

(* Central theorem. For EVERY coefficient table pair (any order, any sparsity, coefficients 1 / -1 / other,
   a0 = 1 / -1 / other: all special cases of the string builder are inside [codegen]), every memory argument,
   zero value and input: the program generated for the filter outputs one sample per input and
     a0 * y[n] = sum_k b[k] * x[n-k] - sum_{k>=1} a[k] * y[n-k]       for every n. *)
Theorem C04_gen_satisfies_diffeq : forall f mem zero xs, wf f ->
  causal (f_num f) (f_den f) = true -> coef (f_den f) 0 <> 0 -> all_zero (f_num f) (f_den f) = false ->
  exists ys, call f mem zero xs = Ok ys /\ length ys = length xs /\
    forall n, (n < length xs)%nat ->
      coef (f_den f) 0 * ysig (past (order (f_den f)) zero mem) ys (Z.of_nat n)
      = psum (f_num f) (fun k => xsig zero xs (Z.of_nat n - k))
        - psum (feedback (f_den f)) (fun k => ysig (past (order (f_den f)) zero mem) ys (Z.of_nat n - k)).
Proof. exact gen_satisfies_diffeq. Qed.
Print Assumptions C04_gen_satisfies_diffeq.

Theorem C04_one_output_per_input : forall f mem zero xs ys, wf f ->
  call f mem zero xs = Ok ys -> length ys = length xs.
Proof. exact one_output_per_input. Qed.
Print Assumptions C04_one_output_per_input.

(* any negative delay (in the numerator or in the denominator): ValueError, raised by __call__ itself,
   whatever the gain, the memory and the input - so before any output *)
Theorem C04_noncausal_rejected : forall f mem zero xs, wf f ->
  causal (f_num f) (f_den f) = false -> call f mem zero xs = Err NonCausal.
Proof. exact noncausal_rejected. Qed.
Print Assumptions C04_noncausal_rejected.

Theorem C04_zero_gain_rejected : forall f mem zero xs, wf f ->
  causal (f_num f) (f_den f) = true -> coef (f_den f) 0 = 0 -> call f mem zero xs = Err ZeroGain.
Proof. exact zero_gain_rejected. Qed.
Print Assumptions C04_zero_gain_rejected.

(* the all-zero filter (no input term, no feedback term) outputs the zero value once per input *)
Theorem C04_allzero_outputs_zero : forall f mem zero xs, wf f ->
  causal (f_num f) (f_den f) = true -> coef (f_den f) 0 <> 0 -> all_zero (f_num f) (f_den f) = true ->
  call f mem zero xs = Ok (repeat zero (length xs)).
Proof. exact allzero_outputs_zero. Qed.
Print Assumptions C04_allzero_outputs_zero.

(* every filter object is well formed: constructor (lists, dicts with distinct keys, None), then any number of
   numpoly[k] = v / denpoly[k] = v assignments *)
Theorem C04_build_wf : forall num den ts f,
  carg_ok num -> carg_ok den -> build num den ts = Ok f -> wf f.
Proof. exact build_wf. Qed.
Print Assumptions C04_build_wf.

(* all of the above in one statement: what the call does satisfies the property as Spec.sat words it *)
Theorem C04_call_sat : forall f mem zero xs, wf f ->
  sat (f_num f) (f_den f) mem zero xs (obs_of (call f mem zero xs)).
Proof. exact call_sat. Qed.
Print Assumptions C04_call_sat.
