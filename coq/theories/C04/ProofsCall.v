(* C04 - LinearFilter.__call__ as a whole: tests, memory normalisation, generated program. *)
From Coq Require Import String List Bool Arith ZArith QArith Qcanon Lia Permutation.
From AL Require Import Base.CaseLib C04.Model C04.Spec C04.Lib C04.ProofsLoop.
Import ListNotations.
Open Scope list_scope.
Open Scope Qc_scope.


(* ---------------------------------------------------------- key bounds *)
Definition mxk (d : pdata) : Z := fold_right (fun kv m => Z.max m (fst kv)) 0%Z d.

Lemma mxk_nonneg d : (0 <= mxk d)%Z.
Proof. induction d as [|kv r IH]; simpl; lia. Qed.

Lemma mxk_bound d kv : In kv d -> (fst kv <= mxk d)%Z.
Proof.
  induction d as [|h r IH]; simpl; [tauto|]. intros [->|Hin]; [lia|]. specialize (IH Hin). lia.
Qed.

Definition frm (a : Z) (t : pdata) : Z := fold_right (fun kv m => Z.max m (fst kv)) a t.
Lemma frm_ge t b : (b <= frm b t)%Z.
Proof. unfold frm. induction t as [|h' t' IH']; simpl; lia. Qed.
Lemma frm_max t b c : frm (Z.max b c) t = Z.max c (frm b t).
Proof. unfold frm. induction t as [|h' t' IH']; simpl; [lia|]. rewrite IH'. lia. Qed.

Lemma fold_left_max r : forall a,
  fold_left (fun m (kv' : Z * Qc) => Z.max m (fst kv')) r a = Z.max a (frm a r).
Proof.
  induction r as [|h t IH]; intro a; simpl; [lia|]. rewrite IH.
  fold (frm a t). rewrite frm_max. pose proof (frm_ge t a). lia.
Qed.

Lemma dense_len_mxk d : (forall kv, In kv d -> 0 <= fst kv)%Z ->
  Z.of_nat (dense_len d - 1) = mxk d.
Proof.
  intro Hk. destruct d as [|kv r]; [reflexivity|].
  unfold dense_len. rewrite fold_left_max.
  assert (0 <= fst kv)%Z as H0 by (apply Hk; left; reflexivity).
  assert (forall a, (0 <= a)%Z -> Z.max a (frm a r) = Z.max a (mxk r)) as Hr.
  { clear Hk H0. intros a Ha. unfold mxk, frm. induction r as [|h t IH]; simpl; lia. }
  rewrite Hr by exact H0. simpl mxk. pose proof (mxk_nonneg r). lia.
Qed.

Lemma order_mxk d : nozero d -> order d = Z.to_nat (mxk d).
Proof.
  intro Hnz. unfold order. f_equal. induction d as [|kv r IH]; [reflexivity|].
  simpl. assert (Qc_eqb (snd kv) 0 = false) as ->.
  { apply Qc_eqb_false. apply Hnz. left. reflexivity. }
  rewrite IH; [reflexivity|]. intros kv' Hin. apply Hnz. right. exact Hin.
Qed.

(* ------------------------------------------------------ causality tests *)
Lemma causal_keys num den : causal num den = true -> nozero num -> nozero den ->
  (forall kv, In kv num -> 0 <= fst kv)%Z /\ (forall kv, In kv den -> 0 <= fst kv)%Z.
Proof.
  unfold causal. rewrite forallb_forall. intros H Hn Hd.
  split; intros kv Hin.
  - specialize (H kv (in_or_app _ _ _ (or_introl Hin))). apply orb_true_iff in H as [H|H].
    + apply Qc_eqb_spec in H. exfalso. exact (Hn kv Hin H).
    + apply Z.leb_le. exact H.
  - specialize (H kv (in_or_app _ _ _ (or_intror Hin))). apply orb_true_iff in H as [H|H].
    + apply Qc_eqb_spec in H. exfalso. exact (Hd kv Hin H).
    + apply Z.leb_le. exact H.
Qed.

Lemma any_negative_causal f : nozero (f_num f) -> nozero (f_den f) ->
  any_negative f = negb (causal (f_num f) (f_den f)).
Proof.
  intros Hn Hd. unfold any_negative, causal.
  destruct (forallb _ (f_num f ++ f_den f)) eqn:E; simpl.
  - destruct (existsb _ _) eqn:Ex; [|reflexivity]. exfalso.
    apply existsb_exists in Ex as [kv [Hin Hneg]]. apply Z.ltb_lt in Hneg.
    rewrite forallb_forall in E.
    assert (In kv (f_num f ++ f_den f)) as Hin'.
    { apply in_app_or in Hin as [Hin|Hin]; apply in_or_app; [left|right];
        apply (Permutation_in _ (terms_perm _)); exact Hin. }
    specialize (E kv Hin'). apply orb_true_iff in E as [E|E].
    + apply Qc_eqb_spec in E. apply in_app_or in Hin' as [H|H]; [exact (Hn kv H E)|exact (Hd kv H E)].
    + apply Z.leb_le in E. lia.
  - apply existsb_exists.
    assert (exists kv, In kv (f_num f ++ f_den f) /\ (Qc_eqb (snd kv) 0 || (0 <=? fst kv)%Z) = false) as [kv [Hin Hb]].
    { clear Hn Hd. induction (f_num f ++ f_den f) as [|h t IH]; [discriminate|].
      simpl in E. apply andb_false_iff in E as [E|E].
      - exists h. split; [left; reflexivity|exact E].
      - destruct (IH E) as [kv [Hin Hb]]. exists kv. split; [right; exact Hin|exact Hb]. }
    apply orb_false_iff in Hb as [_ Hb]. apply Z.leb_gt in Hb.
    exists kv. split; [|apply Z.ltb_lt; exact Hb].
    apply in_app_or in Hin as [Hin|Hin]; apply in_or_app; [left|right];
      apply (Permutation_in _ (Permutation_sym (terms_perm _))); exact Hin.
Qed.

(* -------------------------------------------------- the all-zero filter *)
Lemma num_term_nil kv : num_term kv = [] <-> snd kv = 0.
Proof.
  unfold num_term. destruct (Qc_eqb (snd kv) 1) eqn:E1.
  { apply Qc_eqb_spec in E1. rewrite E1. split; [discriminate|]. intro H. discriminate. }
  destruct (Qc_eqb (snd kv) (- (1))) eqn:E2.
  { apply Qc_eqb_spec in E2. rewrite E2. split; [discriminate|]. intro H. discriminate. }
  destruct (nonzero (snd kv)) eqn:E3.
  { apply nonzero_true in E3. split; [discriminate|]. intro H. contradiction. }
  unfold nonzero in E3. apply negb_false_iff in E3. apply Qc_eqb_spec in E3. tauto.
Qed.

Lemma den_term_nil kv : den_term kv = [] <-> (fst kv = 0%Z \/ snd kv = 0).
Proof.
  unfold den_term. destruct (fst kv =? 0)%Z eqn:E0.
  { apply Z.eqb_eq in E0. tauto. }
  apply Z.eqb_neq in E0.
  destruct (Qc_eqb (snd kv) (- (1))) eqn:E2.
  { apply Qc_eqb_spec in E2. rewrite E2. split; [discriminate|]. intros [H|H]; [contradiction|discriminate]. }
  destruct (Qc_eqb (snd kv) 1) eqn:E1.
  { apply Qc_eqb_spec in E1. rewrite E1. split; [discriminate|]. intros [H|H]; [contradiction|discriminate]. }
  destruct (nonzero (snd kv)) eqn:E3.
  { apply nonzero_true in E3. split; [discriminate|]. intros [H|H]; contradiction. }
  unfold nonzero in E3. apply negb_false_iff in E3. apply Qc_eqb_spec in E3. tauto.
Qed.

Lemma flat_map_nil {A B} (f : A -> list B) l : flat_map f l = [] <-> forall x, In x l -> f x = [].
Proof.
  induction l as [|h t IH]; simpl; [tauto|]. split.
  - intro H. apply app_eq_nil in H as [H1 H2]. intros x [->|Hin]; [exact H1|]. apply IH; assumption.
  - intro H. rewrite (H h (or_introl eq_refl)). apply IH. intros x Hin. apply H. right. exact Hin.
Qed.

Definition data_sum (f : filt) : list term :=
  flat_map num_term (terms (f_num f)) ++ flat_map den_term (terms (f_den f)).

Lemma data_sum_nil f : data_sum f = [] <-> all_zero (f_num f) (f_den f) = true.
Proof.
  unfold data_sum, all_zero. rewrite forallb_forall. split.
  - intro H. apply app_eq_nil in H as [H1 H2].
    rewrite flat_map_nil in H1. rewrite flat_map_nil in H2.
    intros kv Hin. apply Qc_eqb_spec. apply in_app_or in Hin as [Hin|Hin].
    + apply num_term_nil. apply H1. apply (Permutation_in _ (Permutation_sym (terms_perm _))). exact Hin.
    + unfold feedback in Hin. apply filter_In in Hin as [Hin Hk]. apply negb_true_iff, Z.eqb_neq in Hk.
      assert (den_term kv = []) as Hd.
      { apply H2. apply (Permutation_in _ (Permutation_sym (terms_perm _))). exact Hin. }
      apply den_term_nil in Hd as [Hd|Hd]; [contradiction|exact Hd].
  - intro H.
    assert (flat_map num_term (terms (f_num f)) = []) as ->.
    { apply flat_map_nil. intros kv Hin. apply num_term_nil. apply Qc_eqb_spec. apply H.
      apply in_or_app. left. apply (Permutation_in _ (terms_perm _)). exact Hin. }
    apply flat_map_nil. intros kv Hin. apply den_term_nil.
    destruct (Z.eq_dec (fst kv) 0) as [E|E]; [left; exact E|right].
    apply Qc_eqb_spec. apply H. apply in_or_app. right. unfold feedback. apply filter_In. split.
    + apply (Permutation_in _ (terms_perm _)). exact Hin.
    + apply negb_true_iff, Z.eqb_neq. exact E.
Qed.

(* ------------------------------------------------------------- memory *)
Lemma nth_repeat_lt (z : Qc) n i : (i < n)%nat -> nth i (repeat z n) 0 = z.
Proof. revert i. induction n as [|n IH]; intros i Hi; [lia|]. destruct i; simpl; [reflexivity|]. apply IH. lia. Qed.

Lemma nth_firstn_lt (l : list Qc) : forall n i, (i < n)%nat -> nth i (firstn n l) 0 = nth i l 0.
Proof.
  induction l as [|h t IH]; intros n i Hi.
  - rewrite firstn_nil. reflexivity.
  - destruct n; [lia|]. destruct i; simpl; [reflexivity|]. apply IH. lia.
Qed.

Lemma take_pad_length lm zero l : length (take_pad lm zero l) = lm.
Proof.
  unfold take_pad. rewrite app_length, repeat_length, firstn_length. lia.
Qed.

Lemma normalise_memory_length lm zero mem : length (normalise_memory lm zero mem) = lm.
Proof.
  destruct mem; simpl; [apply repeat_length|apply take_pad_length|apply take_pad_length].
Qed.

Lemma take_pad_past lm zero l k : (1 <= k <= lm)%nat ->
  nth (k - 1) (take_pad lm zero l) 0 = past_of_list lm zero l k.
Proof.
  intro Hk. unfold take_pad, past_of_list. rewrite firstn_length.
  replace (lm - Nat.min lm (length l))%nat with (lm - length l)%nat by lia.
  destruct (k <=? lm - length l)%nat eqn:E.
  - apply Nat.leb_le in E. rewrite app_nth1 by (rewrite repeat_length; lia).
    apply nth_repeat_lt. lia.
  - apply Nat.leb_gt in E. rewrite app_nth2 by (rewrite repeat_length; lia).
    rewrite repeat_length. apply nth_firstn_lt. lia.
Qed.

Lemma normalise_memory_past lm zero mem k : (1 <= k <= lm)%nat ->
  nth (k - 1) (normalise_memory lm zero mem) 0 = past lm zero mem k.
Proof.
  intro Hk. destruct mem; simpl.
  - apply nth_repeat_lt. lia.
  - apply take_pad_past. exact Hk.
  - apply take_pad_past. exact Hk.
Qed.


(* the three tests of __call__, in the order of the code *)
Lemma codegen_unfold f zero :
  codegen f zero =
  if any_negative f then Err NonCausal
  else if Qc_eqb (getitem (f_den f) 0) 0 then Err ZeroGain
  else match data_sum f with
       | [] => Ok (PZero zero)
       | _ => Ok (PGen (Prog (seq 1 (dense_len (f_den f) - 1)) (seq 1 (dense_len (f_num f) - 1)) (data_sum f)
                             (gain_form (gain_of (terms (f_den f))))
                             (shift_lines (dense_len (f_den f) - 1)) (shift_lines (dense_len (f_num f) - 1))))
       end.
Proof. reflexivity. Qed.

Lemma noncausal_rejected f mem zero xs : wf f ->
  causal (f_num f) (f_den f) = false -> call f mem zero xs = Err NonCausal.
Proof.
  intros [[_ Hn] [_ Hd]] Hc. unfold call. rewrite codegen_unfold, any_negative_causal, Hc by assumption.
  reflexivity.
Qed.

Lemma zero_gain_rejected f mem zero xs : wf f ->
  causal (f_num f) (f_den f) = true -> coef (f_den f) 0 = 0 -> call f mem zero xs = Err ZeroGain.
Proof.
  intros [[_ Hn] [NDd Hd]] Hc Hg. unfold call.
  rewrite codegen_unfold, any_negative_causal, Hc, getitem_coef, Hg by assumption. reflexivity.
Qed.

Lemma allzero_outputs_zero f mem zero xs : wf f ->
  causal (f_num f) (f_den f) = true -> coef (f_den f) 0 <> 0 -> all_zero (f_num f) (f_den f) = true ->
  call f mem zero xs = Ok (repeat zero (length xs)).
Proof.
  intros [[_ Hn] [NDd Hd]] Hc Hg Hz. unfold call.
  rewrite codegen_unfold, any_negative_causal, Hc, getitem_coef by assumption. simpl negb. cbv iota.
  apply Qc_eqb_false in Hg. rewrite Hg.
  apply data_sum_nil in Hz. rewrite Hz. simpl. f_equal.
  induction xs as [|x r IH]; simpl; [reflexivity|]. rewrite IH. reflexivity.
Qed.

Theorem gen_satisfies_diffeq f mem zero xs : wf f ->
  causal (f_num f) (f_den f) = true -> coef (f_den f) 0 <> 0 -> all_zero (f_num f) (f_den f) = false ->
  exists ys, call f mem zero xs = Ok ys /\ length ys = length xs /\
    forall n, (n < length xs)%nat ->
      diffeq_at (f_num f) (f_den f) (xsig zero xs) (ysig (past (order (f_den f)) zero mem) ys) (Z.of_nat n).
Proof.
  intros [[_ Hn] [NDd Hd]] Hc Hg Hz. unfold call.
  rewrite codegen_unfold, any_negative_causal, Hc, getitem_coef by assumption. simpl negb. cbv iota.
  pose proof Hg as Hgb. apply Qc_eqb_false in Hgb. rewrite Hgb.
  destruct (data_sum f) as [|t ts] eqn:Eds.
  { apply data_sum_nil in Eds. congruence. }
  rewrite <- Eds. clear t ts Eds.
  destruct (causal_keys _ _ Hc Hn Hd) as [Kn Kd].
  set (lm := (dense_len (f_den f) - 1)%nat). set (ld := (dense_len (f_num f) - 1)%nat).
  set (p := Prog (seq 1 lm) (seq 1 ld) (data_sum f) (gain_form (gain_of (terms (f_den f))))
                 (shift_lines lm) (shift_lines ld)).
  assert (order (f_den f) = lm) as Hord.
  { rewrite order_mxk by exact Hd. unfold lm. rewrite <- dense_len_mxk by exact Kd. apply Nat2Z.id. }
  assert (mem_size f = lm) as Hms by reflexivity.
  eexists. split; [reflexivity|]. unfold run_gen, run_prog.
  change (p_mvars p) with (seq 1 lm). change (p_dvars p) with (seq 1 ld).
  rewrite Hms.
  pose proof (loop_diffeq (f_num f) (f_den f) (coef (f_den f) 0) lm ld p) as L.
  assert (forall m d, coef (f_den f) 0 * apply_gain (p_gain p) (eval_sum (eval_term m d) (p_terms p))
          = psum (f_num f) (fun k => d (Z.to_nat k)) - psum (feedback (f_den f)) (fun k => m (Z.to_nat k))) as Hexpr.
  { intros m d. simpl p_gain. simpl p_terms. rewrite gain_of_terms by assumption.
    rewrite apply_gain_form by exact Hg. apply data_sum_value. }
  specialize (L Hexpr eq_refl eq_refl).
  assert (forall kv, In kv (f_num f) -> (0 <= fst kv <= Z.of_nat ld)%Z) as Bn.
  { intros kv Hin. split; [apply Kn; exact Hin|]. unfold ld. rewrite dense_len_mxk by exact Kn.
    apply mxk_bound. exact Hin. }
  assert (forall kv, In kv (f_den f) -> (0 <= fst kv <= Z.of_nat lm)%Z) as Bd.
  { intros kv Hin. split; [apply Kd; exact Hin|]. unfold lm. rewrite dense_len_mxk by exact Kd.
    apply mxk_bound. exact Hin. }
  specialize (L Bn Bd xs
    (unpack (seq 1 lm) (normalise_memory lm zero mem) empty_env) (assign_all (seq 1 ld) zero empty_env)
    (fun _ => zero) (past lm zero mem)).
  cbv zeta in L. rewrite Hord.
  apply L.
  - intros k Hk. rewrite unpack_spec by (try apply normalise_memory_length; lia).
    apply normalise_memory_past. exact Hk.
  - intros k Hk. apply assign_all_seq. exact Hk.
Qed.
