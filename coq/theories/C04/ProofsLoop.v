(* C04 - the loop of the generated function: register-file invariant => difference equation. *)
From Coq Require Import String List Bool Arith ZArith QArith Qcanon Lia Permutation.
From AL Require Import Base.CaseLib C04.Model C04.Spec C04.Lib.
Import ListNotations.
Open Scope list_scope.
Open Scope Qc_scope.


(* a signal with its past: ysig H (v :: l) is ysig (v pushed on H) l, one step later *)
Definition push (v : Qc) (H : nat -> Qc) (k : nat) : Qc := if (k =? 1)%nat then v else H (k - 1)%nat.

Lemma ysig_shift H v l i : ysig (push v H) l i = ysig H (v :: l) (i + 1)%Z.
Proof.
  unfold ysig, push.
  destruct (i <? 0)%Z eqn:E.
  - apply Z.ltb_lt in E.
    destruct (Z.to_nat (- i) =? 1)%nat eqn:E1.
    + apply Nat.eqb_eq in E1. assert (i = -1)%Z as -> by lia. reflexivity.
    + apply Nat.eqb_neq in E1. assert (i + 1 <? 0 = true)%Z as -> by (apply Z.ltb_lt; lia).
      f_equal. lia.
  - apply Z.ltb_ge in E. assert (i + 1 <? 0 = false)%Z as -> by (apply Z.ltb_ge; lia).
    replace (Z.to_nat (i + 1)) with (S (Z.to_nat i)) by lia. reflexivity.
Qed.

Lemma xsig_ysig zero x n : xsig zero x n = ysig (fun _ => zero) x n.
Proof. reflexivity. Qed.

Section LoopInvariant.
  Variables (num den : pdata) (g : Qc) (lm ld : nat) (p : prog term).
  Hypothesis Hg : g <> 0.
  Hypothesis Hexpr : forall m d,
    g * apply_gain (p_gain p) (eval_sum (eval_term m d) (p_terms p))
    = psum num (fun k => d (Z.to_nat k)) - psum (feedback den) (fun k => m (Z.to_nat k)).
  Hypothesis Hms : p_mshift p = shift_lines lm.
  Hypothesis Hds : p_dshift p = shift_lines ld.
  Hypothesis Hnum_keys : forall kv, In kv num -> (0 <= fst kv <= Z.of_nat ld)%Z.
  Hypothesis Hden_keys : forall kv, In kv den -> (0 <= fst kv <= Z.of_nat lm)%Z.

  Lemma loop_diffeq : forall xs m d HX HY,
    (forall k, (1 <= k <= lm)%nat -> m k = HY k) ->
    (forall k, (1 <= k <= ld)%nat -> d k = HX k) ->
    let ys := loop eval_const p tt m d xs in
    length ys = length xs /\
    forall n, (n < length xs)%nat ->
      g * ysig HY ys (Z.of_nat n)
      = psum num (fun k => ysig HX xs (Z.of_nat n - k)) - psum (feedback den) (fun k => ysig HY ys (Z.of_nat n - k)).
  Proof.
    induction xs as [|x r IH]; intros m d HX HY Hm Hd; cbv zeta.
    - split; [reflexivity|]. simpl. intros n Hn. lia.
    - simpl loop.
      set (d0 := upd d 0 x).
      set (m0 := apply_gain (p_gain p) (eval_sum (eval_term m d0) (p_terms p))).
      rewrite Hms, Hds.
      set (m' := exec_shifts (shift_lines lm) (upd m 0 m0)).
      set (d' := exec_shifts (shift_lines ld) d0).
      specialize (IH m' d' (push x HX) (push m0 HY)).
      assert (forall k, (1 <= k <= lm)%nat -> m' k = push m0 HY k) as Hm'.
      { intros k Hk. unfold m'. rewrite exec_shifts_spec.
        assert ((1 <=? k)%nat && (k <=? lm)%nat = true) as ->.
        { apply andb_true_iff; split; apply Nat.leb_le; lia. }
        unfold push. destruct (k =? 1)%nat eqn:E.
        - apply Nat.eqb_eq in E. subst k. apply upd_same.
        - apply Nat.eqb_neq in E. rewrite upd_other by lia. apply Hm. lia. }
      assert (forall k, (1 <= k <= ld)%nat -> d' k = push x HX k) as Hd'.
      { intros k Hk. unfold d'. rewrite exec_shifts_spec.
        assert ((1 <=? k)%nat && (k <=? ld)%nat = true) as ->.
        { apply andb_true_iff; split; apply Nat.leb_le; lia. }
        unfold push, d0. destruct (k =? 1)%nat eqn:E.
        - apply Nat.eqb_eq in E. subst k. apply upd_same.
        - apply Nat.eqb_neq in E. rewrite upd_other by lia. apply Hd. lia. }
      specialize (IH Hm' Hd'). cbv zeta in IH. destruct IH as [IHlen IHeq].
      split; [simpl; rewrite IHlen; reflexivity|].
      intros n Hn. destruct n as [|n].
      + (* the sample computed now *)
        change (ysig HY (m0 :: loop eval_const p tt m' d' r) (Z.of_nat 0)) with m0.
        unfold m0. rewrite Hexpr. f_equal.
        * apply psum_ext_in. intros kv Hin. specialize (Hnum_keys kv Hin).
          unfold ysig, d0. simpl Z.of_nat.
          destruct (0 - fst kv <? 0)%Z eqn:E.
          -- apply Z.ltb_lt in E. rewrite upd_other by lia.
             replace (Z.to_nat (- (0 - fst kv))) with (Z.to_nat (fst kv)) by lia. apply Hd. lia.
          -- apply Z.ltb_ge in E. assert (fst kv = 0)%Z as -> by lia. reflexivity.
        * rewrite !psum_feedback. apply psum_ext_in. intros kv Hin. specialize (Hden_keys kv Hin).
          destruct (fst kv =? 0)%Z eqn:E0; [reflexivity|]. apply Z.eqb_neq in E0.
          unfold ysig. simpl Z.of_nat.
          assert (0 - fst kv <? 0 = true)%Z as -> by (apply Z.ltb_lt; lia).
          replace (Z.to_nat (- (0 - fst kv))) with (Z.to_nat (fst kv)) by lia. apply Hm. lia.
      + simpl in Hn. specialize (IHeq n ltac:(lia)).
        replace (Z.of_nat (S n)) with (Z.of_nat n + 1)%Z by lia.
        rewrite <- ysig_shift, IHeq. f_equal.
        * apply psum_ext. intro k. rewrite ysig_shift. f_equal. lia.
        * apply psum_ext. intro k. rewrite ysig_shift. f_equal. lia.
  Qed.
End LoopInvariant.
