(* C04 - sat is insensitive to the order of the tables; item assignment (model) vs Spec.assigned. *)
From Coq Require Import String List Bool Arith ZArith QArith Qcanon Lia Permutation FinFun.
From AL Require Import Base.CaseLib C04.Model C04.Spec C04.Lib C04.ProofsLoop C04.ProofsCall C04.ProofsBuild
  C04.ProofsSpec C04.ProofsCtor.
Import ListNotations.
Open Scope list_scope.
Open Scope Qc_scope.


(* ------------------------------------------------ [sat] does not depend on the order of the tables *)
Lemma forallb_perm {A} (P : A -> bool) l l' : Permutation l l' -> forallb P l = forallb P l'.
Proof.
  induction 1; simpl; try congruence.
  destruct (P x), (P y); reflexivity.
Qed.

Lemma filter_perm {A} (P : A -> bool) l l' : Permutation l l' -> Permutation (filter P l) (filter P l').
Proof.
  induction 1; simpl.
  - constructor.
  - destruct (P x); [constructor|]; assumption.
  - destruct (P x), (P y); try reflexivity. apply perm_swap.
  - etransitivity; eassumption.
Qed.

Lemma order_perm d d' : Permutation d d' -> order d = order d'.
Proof.
  intro H. unfold order. f_equal. induction H; simpl; try congruence.
  - rewrite IHPermutation. reflexivity.
  - destruct (Qc_eqb (snd x) 0), (Qc_eqb (snd y) 0); lia.
Qed.

Lemma sat_perm n n' d d' mem zero x o : Permutation n n' -> Permutation d d' ->
  sat n d mem zero x o <-> sat n' d' mem zero x o.
Proof.
  intros Hn Hd. unfold sat.
  assert (causal n d = causal n' d') as -> by (apply forallb_perm, Permutation_app; assumption).
  rewrite (coef_perm d d' 0 Hd), (order_perm d d' Hd).
  assert (all_zero n d = all_zero n' d') as ->.
  { apply forallb_perm, Permutation_app; [assumption|]. apply filter_perm. assumption. }
  destruct (negb (causal n' d')); [tauto|]. destruct (Qc_eqb (coef d' 0) 0); [tauto|].
  destruct (negb (mem_sufficient (order d') mem)); [tauto|].
  assert (forall X Y k, diffeq_at n d X Y k <-> diffeq_at n' d' X Y k) as Hq.
  { intros X Y k. unfold diffeq_at.
    rewrite (coef_perm d d' 0 Hd), (psum_perm n n' _ Hn), (psum_perm (feedback d) (feedback d') _ (filter_perm _ _ _ Hd)).
    tauto. }
  split; intros [y [E H]]; exists y; (split; [exact E|]); destruct (all_zero n' d'); try exact H;
    destruct H as [Hl H]; (split; [exact Hl|]); intros k Hk; apply Hq, H, Hk.
Qed.

(* ------------------------------------------------ item assignment: model vs spec *)
Lemma filter_key_absent (d : pdata) k : ~ In k (keys d) -> filter (fun kv => negb (fst kv =? k)%Z) d = d.
Proof.
  induction d as [|kv r IH]; intro H; [reflexivity|]. simpl.
  destruct (fst kv =? k)%Z eqn:E.
  - exfalso. apply H. left. apply Z.eqb_eq. exact E.
  - simpl. rewrite IH; [reflexivity|]. intro Hin. apply H. right. exact Hin.
Qed.

Lemma has_key_in d k : has_key d k = true <-> In k (keys d).
Proof.
  unfold has_key. rewrite existsb_exists. unfold keys. rewrite in_map_iff. split.
  - intros [kv [Hin E]]. exists kv. split; [apply Z.eqb_eq; exact E|exact Hin].
  - intros [kv [E Hin]]. exists kv. split; [exact Hin|apply Z.eqb_eq; exact E].
Qed.

Lemma replace_present_perm d k v : NoDup (keys d) -> In k (keys d) ->
  Permutation (map (fun kv => if (fst kv =? k)%Z then (k, v) else kv) d)
              ((k, v) :: filter (fun kv => negb (fst kv =? k)%Z) d).
Proof.
  induction d as [|kv r IH]; intros ND Hin; [destruct Hin|].
  inversion ND as [|? ? Hnin ND']; subst. simpl.
  destruct (fst kv =? k)%Z eqn:E; simpl.
  - apply Z.eqb_eq in E. rewrite E in Hnin. rewrite (filter_key_absent r k Hnin).
    assert (map (fun kv0 => if (fst kv0 =? k)%Z then (k, v) else kv0) r = r) as ->; [|reflexivity].
    rewrite <- (map_id r) at 2. apply map_ext_in. intros kv' Hin'.
    destruct (fst kv' =? k)%Z eqn:E'; [|reflexivity]. exfalso. apply Hnin.
    apply Z.eqb_eq in E'. rewrite <- E'. apply in_map. exact Hin'.
  - destruct Hin as [Hin|Hin]; [apply Z.eqb_neq in E; simpl in Hin; contradiction|].
    rewrite (IH ND' Hin). apply perm_swap.
Qed.

Lemma compact_filter (P : Z * Qc -> bool) d : compact (filter P d) = filter P (compact d).
Proof.
  unfold compact. induction d as [|kv r IH]; [reflexivity|]. simpl.
  destruct (P kv) eqn:E1; destruct (nonzero (snd kv)) eqn:E2; simpl; rewrite ?E1, ?E2, IH; reflexivity.
Qed.

Lemma setitem_assigned m s k v : NoDup (keys m) -> Permutation m (compact s) ->
  Permutation (setitem m k v) (compact (assigned s k v)).
Proof.
  intros ND HP. unfold setitem, assigned. simpl compact. rewrite compact_filter.
  pose proof (filter_perm (fun kv => negb (fst kv =? k)%Z) _ _ HP) as HF.
  destruct (nonzero v) eqn:Ev; simpl snd; rewrite ?Ev; [|exact HF].
  destruct (has_key m k) eqn:Hk.
  - apply has_key_in in Hk. rewrite (replace_present_perm m k v ND Hk). constructor. exact HF.
  - assert (~ In k (keys m)) as Hnin by (intro H; apply has_key_in in H; congruence).
    rewrite <- HF, (filter_key_absent m k Hnin). symmetry. apply Permutation_cons_append.
Qed.

Definition related (f : filt) (nd : pdata * pdata) : Prop :=
  Permutation (f_num f) (compact (fst nd)) /\ Permutation (f_den f) (compact (snd nd)).

Lemma tamper_related f nd t : wf f -> related f nd -> related (apply_tamper f t) (tampered nd t).
Proof.
  intros [[NDn _] [NDd _]] [Rn Rd]. destruct t; split; simpl; try assumption; apply setitem_assigned; assumption.
Qed.

Lemma tampers_related ts : forall f nd, wf f -> related f nd ->
  wf (fold_left apply_tamper ts f) /\ related (fold_left apply_tamper ts f) (fold_left tampered ts nd).
Proof.
  induction ts as [|t r IH]; intros f nd W R; [split; assumption|].
  simpl. apply IH; [apply apply_tamper_wf; exact W|apply tamper_related; assumption].
Qed.

(* constructor, item assignments, call: the observation satisfies the property stated on the spec tables *)
Theorem build_call_sat num den ts nd : carg_ok num -> carg_ok den ->
  constructed num den = Some nd ->
  exists f, build num den ts = Ok f /\
    forall mem zero xs,
      sat (fst (fold_left tampered ts nd)) (snd (fold_left tampered ts nd)) mem zero xs (obs_of (call f mem zero xs)).
Proof.
  intros Hn Hd E. pose proof (mk_filter_constructed num den) as H. rewrite E in H.
  unfold build. rewrite H.
  set (f0 := Filt (compact (fst nd)) (compact (snd nd))).
  assert (wf f0) as W0 by (apply (mk_filter_wf num den); assumption).
  assert (related f0 nd) as R0 by (split; reflexivity).
  destruct (tampers_related ts f0 nd W0 R0) as [W [Rn Rd]].
  eexists. split; [reflexivity|]. intros mem zero xs.
  apply sat_compact. apply (sat_perm _ _ _ _ mem zero xs _ Rn Rd). apply call_sat. exact W.
Qed.
