(* C04 - filters produced by the constructor (and by item assignment) are well formed; the whole call satisfies [sat]. *)
From Coq Require Import String List Bool Arith ZArith QArith Qcanon Lia Permutation FinFun.
From AL Require Import Base.CaseLib C04.Model C04.Spec C04.Lib C04.ProofsLoop C04.ProofsCall.
Import ListNotations.
Open Scope list_scope.
Open Scope Qc_scope.


(* ------------------------------------------------ constructed filters are well formed *)
Lemma compact_nozero d : nozero (compact d).
Proof. intros kv Hin. apply filter_In in Hin as [_ H]. apply nonzero_true. exact H. Qed.

Lemma keys_filter_incl (P : Z * Qc -> bool) d k : In k (keys (filter P d)) -> In k (keys d).
Proof.
  unfold keys. rewrite !in_map_iff. intros [kv [E Hin]]. apply filter_In in Hin as [Hin _].
  exists kv. split; assumption.
Qed.

Lemma filter_keys_NoDup (P : Z * Qc -> bool) d : NoDup (keys d) -> NoDup (keys (filter P d)).
Proof.
  induction d as [|kv r IH]; intro ND; [constructor|].
  inversion ND as [|? ? Hnin ND']; subst. simpl. destruct (P kv); [|apply IH; exact ND'].
  simpl. constructor; [|apply IH; exact ND']. intro Hin. apply Hnin. eapply keys_filter_incl. exact Hin.
Qed.

Lemma compact_wf d : NoDup (keys d) -> wf_pdata (compact d).
Proof. intro ND. split; [apply filter_keys_NoDup; exact ND|apply compact_nozero]. Qed.

Lemma enumerate_keys_ge l : forall i k, In k (keys (enumerate_from i l)) -> (i <= k)%Z.
Proof.
  induction l as [|c r IH]; intros i k; simpl; [tauto|]. intros [<-|Hin]; [lia|].
  specialize (IH _ _ Hin). lia.
Qed.

Lemma enumerate_NoDup l : forall i, NoDup (keys (enumerate_from i l)).
Proof.
  induction l as [|c r IH]; intro i; simpl; constructor; [|apply IH].
  intro Hin. apply enumerate_keys_ge in Hin. lia.
Qed.

(* a dict has distinct keys *)
Definition carg_ok (a : carg) : Prop := match a with ADict d => NoDup (keys d) | _ => True end.

Lemma poly_of_wf a : carg_ok a -> wf_pdata (poly_of a).
Proof.
  destruct a as [l|d|]; simpl; intro H.
  - apply compact_wf, enumerate_NoDup.
  - apply compact_wf, H.
  - split; [constructor|]. intros kv [].
Qed.

Lemma pshift_wf s d : NoDup (keys d) -> wf_pdata (pshift s d).
Proof.
  intro ND. unfold pshift. apply compact_wf. unfold keys. rewrite map_map. simpl.
  rewrite <- (map_map fst (fun k => (k + s)%Z)). apply Injective_map_NoDup; [|exact ND].
  intros x y H. lia.
Qed.

Lemma mk_filter_wf num den f : carg_ok num -> carg_ok den -> mk_filter num den = Ok f -> wf f.
Proof.
  intros Hn Hd. unfold mk_filter.
  assert (wf_pdata (match den with ANone => [(0%Z, 1)] | _ => poly_of den end)) as Wd.
  { destruct den; try (apply poly_of_wf; exact Hd).
    split; [repeat constructor; simpl; tauto|]. intros kv [<-|[]]. simpl. discriminate. }
  pose proof (poly_of_wf num Hn) as Wn.
  destruct (min_power _) as [p|]; [|discriminate].
  destruct (p =? 0)%Z; intro E; injection E as <-; split; simpl; try assumption.
  - apply pshift_wf, Wn.
  - apply pshift_wf, Wd.
Qed.

Lemma setitem_wf d k v : wf_pdata d -> wf_pdata (setitem d k v).
Proof.
  intros [ND NZ]. unfold setitem. destruct (nonzero v) eqn:Ev.
  - apply nonzero_true in Ev. destruct (has_key d k) eqn:Hk.
    + split.
      * assert (keys (map (fun kv => if (fst kv =? k)%Z then (k, v) else kv) d) = keys d) as ->; [|exact ND].
        unfold keys. rewrite map_map. apply map_ext. intro kv.
        destruct (fst kv =? k)%Z eqn:E; [apply Z.eqb_eq in E; simpl; congruence|reflexivity].
      * intros kv Hin. apply in_map_iff in Hin as [kv' [E Hin]].
        destruct (fst kv' =? k)%Z; subst kv; [exact Ev|apply NZ; exact Hin].
    + split.
      * unfold keys. rewrite map_app. simpl.
        apply (Permutation_NoDup (Permutation_cons_append _ _)). constructor; [|exact ND].
        intro Hin. apply in_map_iff in Hin as [kv [E Hin]].
        assert (has_key d k = true); [|congruence].
        apply existsb_exists. exists kv. split; [exact Hin|apply Z.eqb_eq; exact E].
      * intros kv Hin. apply in_app_or in Hin as [Hin|[<-|[]]]; [apply NZ; exact Hin|exact Ev].
  - split; [apply filter_keys_NoDup; exact ND|].
    intros kv Hin. apply filter_In in Hin as [Hin _]. apply NZ. exact Hin.
Qed.

Lemma apply_tamper_wf f t : wf f -> wf (apply_tamper f t).
Proof.
  intros [Wn Wd]. destruct t; split; simpl; try assumption; apply setitem_wf; assumption.
Qed.

Lemma build_wf num den ts f : carg_ok num -> carg_ok den -> build num den ts = Ok f -> wf f.
Proof.
  intros Hn Hd. unfold build. destruct (mk_filter num den) as [f0|] eqn:E; [|discriminate].
  apply mk_filter_wf in E; try assumption. intro H. injection H as <-.
  revert f0 E. induction ts as [|t r IH]; intros f0 W; [exact W|].
  simpl. apply IH. apply apply_tamper_wf. exact W.
Qed.

(* -------------------------------------------------- the whole call satisfies [sat] *)
Definition obs_of (r : result (list Qc)) : obs :=
  match r with
  | Ok y => OOut y
  | Err NonCausal => ORaise 1 "ValueError"
  | Err ZeroGain => ORaise 1 "ZeroDivisionError"
  | Err EmptyDen => ORaise 0 "ValueError"
  end.

Theorem call_sat f mem zero xs : wf f ->
  sat (f_num f) (f_den f) mem zero xs (obs_of (call f mem zero xs)).
Proof.
  intro W. unfold sat.
  destruct (causal (f_num f) (f_den f)) eqn:Hc; simpl negb; cbv iota.
  2:{ rewrite noncausal_rejected by assumption. left. reflexivity. }
  destruct (Qc_eqb (coef (f_den f) 0) 0) eqn:Hg; [exact I|]. apply Qc_eqb_false in Hg.
  destruct (mem_sufficient _ mem); simpl negb; cbv iota; [|exact I].
  destruct (all_zero (f_num f) (f_den f)) eqn:Hz.
  - rewrite allzero_outputs_zero by assumption. eexists. split; reflexivity.
  - destruct (gen_satisfies_diffeq f mem zero xs W Hc Hg Hz) as [ys [E [Hl Hd]]].
    rewrite E. exists ys. split; [reflexivity|]. split; assumption.
Qed.

(* one output per input, whenever the filter runs at all *)
Theorem one_output_per_input f mem zero xs ys : wf f ->
  call f mem zero xs = Ok ys -> length ys = length xs.
Proof.
  intros W E.
  destruct (causal (f_num f) (f_den f)) eqn:Hc.
  2:{ rewrite noncausal_rejected in E by assumption. discriminate. }
  destruct (Qc_eqb (coef (f_den f) 0) 0) eqn:Hg.
  { apply Qc_eqb_spec in Hg. rewrite zero_gain_rejected in E by assumption. discriminate. }
  apply Qc_eqb_false in Hg.
  destruct (all_zero (f_num f) (f_den f)) eqn:Hz.
  - rewrite allzero_outputs_zero in E by assumption. injection E as <-. apply repeat_length.
  - destruct (gen_satisfies_diffeq f mem zero xs W Hc Hg Hz) as [ys' [E' [Hl _]]]. congruence.
Qed.
