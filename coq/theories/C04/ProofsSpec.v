(* C04 - the boolean checker sat_b decides sat; sat ignores explicit zero coefficients. *)
From Coq Require Import String List Bool Arith ZArith QArith Qcanon Lia Permutation FinFun.
From AL Require Import Base.CaseLib C04.Model C04.Spec C04.Lib C04.ProofsLoop C04.ProofsCall C04.ProofsBuild.
Import ListNotations.
Open Scope list_scope.
Open Scope Qc_scope.


(* ------------------------------------------- the boolean checker decides [sat] *)
Lemma diffeq_b_spec num den X Y n : diffeq_b num den X Y n = true <-> diffeq_at num den X Y n.
Proof. unfold diffeq_b, diffeq_at. apply Qc_eqb_spec. Qed.

Lemma sat_b_spec num den mem zero x o : sat_b num den mem zero x o = true <-> sat num den mem zero x o.
Proof.
  unfold sat_b, sat.
  destruct (negb (causal num den)).
  { destruct o as [y|s e].
    - split; [discriminate|]. intros [H|H]; discriminate.
    - rewrite andb_true_iff, orb_true_iff, !Nat.eqb_eq, String.eqb_eq. split.
      + intros [[->| ->] ->]; [left|right]; reflexivity.
      + intros [H|H]; injection H as -> ->; split; auto. }
  destruct (Qc_eqb (coef den 0) 0); [tauto|].
  destruct (negb (mem_sufficient (order den) mem)); [tauto|].
  destruct o as [y|s e].
  2:{ split; [discriminate|]. intros [y [H _]]. discriminate. }
  destruct (all_zero num den).
  - rewrite (list_eqb_spec Qc_eqb Qc_eqb_spec). split.
    + intro H. exists y. split; [reflexivity|exact H].
    + intros [y' [E H]]. injection E as <-. exact H.
  - rewrite andb_true_iff, Nat.eqb_eq, forallb_forall. split.
    + intros [Hl H]. exists y. split; [reflexivity|]. split; [exact Hl|].
      intros n Hn. apply diffeq_b_spec. apply H. apply in_seq. lia.
    + intros [y' [E [Hl H]]]. injection E as <-. split; [exact Hl|].
      intros n Hn. apply in_seq in Hn. apply diffeq_b_spec. apply H. lia.
Qed.

(* ----------------------------- compacting a table (dropping zero coefficients) changes nothing in [sat] *)
Lemma psum_compact d F : psum (compact d) F = psum d F.
Proof.
  induction d as [|kv r IH]; [reflexivity|]. simpl.
  destruct (nonzero (snd kv)) eqn:E; simpl; rewrite IH; [reflexivity|].
  unfold nonzero in E. apply negb_false_iff, Qc_eqb_spec in E. rewrite E. ring.
Qed.

Lemma coef_compact d k : coef (compact d) k = coef d k.
Proof. apply psum_compact. Qed.

Lemma feedback_compact d : feedback (compact d) = compact (feedback d).
Proof.
  unfold feedback, compact. induction d as [|kv r IH]; [reflexivity|]. simpl.
  destruct (nonzero (snd kv)) eqn:E1; destruct (negb (fst kv =? 0)%Z) eqn:E2; simpl;
    rewrite ?E1, ?E2, IH; reflexivity.
Qed.

Lemma forallb_zero_or_compact (P : Z * Qc -> bool) d :
  forallb (fun kv => Qc_eqb (snd kv) 0 || P kv) (compact d) = forallb (fun kv => Qc_eqb (snd kv) 0 || P kv) d.
Proof.
  induction d as [|kv r IH]; [reflexivity|]. simpl. unfold nonzero at 1.
  destruct (Qc_eqb (snd kv) 0) eqn:E; simpl; rewrite ?E; simpl; rewrite IH; reflexivity.
Qed.

Lemma compact_app a b : compact (a ++ b) = compact a ++ compact b.
Proof. apply filter_app. Qed.

Lemma causal_compact n d : causal (compact n) (compact d) = causal n d.
Proof. unfold causal. rewrite <- compact_app. apply (forallb_zero_or_compact (fun kv => (0 <=? fst kv)%Z)). Qed.

Lemma forallb_zero_compact d :
  forallb (fun kv : Z * Qc => Qc_eqb (snd kv) 0) (compact d) = forallb (fun kv => Qc_eqb (snd kv) 0) d.
Proof.
  induction d as [|kv r IH]; [reflexivity|]. simpl. unfold nonzero at 1.
  destruct (Qc_eqb (snd kv) 0) eqn:E; simpl; rewrite ?E; simpl; rewrite ?IH; reflexivity.
Qed.

Lemma all_zero_compact n d : all_zero (compact n) (compact d) = all_zero n d.
Proof. unfold all_zero. rewrite feedback_compact, <- compact_app. apply forallb_zero_compact. Qed.

Lemma order_compact d : order (compact d) = order d.
Proof.
  unfold order. f_equal. induction d as [|kv r IH]; [reflexivity|]. simpl. unfold nonzero.
  destruct (Qc_eqb (snd kv) 0) eqn:E; simpl; rewrite ?E, IH; reflexivity.
Qed.

Lemma sat_compact n d mem zero x o : sat (compact n) (compact d) mem zero x o <-> sat n d mem zero x o.
Proof.
  unfold sat. rewrite causal_compact, coef_compact, order_compact, all_zero_compact.
  destruct (negb (causal n d)); [tauto|]. destruct (Qc_eqb (coef d 0) 0); [tauto|].
  destruct (negb (mem_sufficient (order d) mem)); [tauto|].
  assert (forall X Y k, diffeq_at (compact n) (compact d) X Y k <-> diffeq_at n d X Y k) as Hd.
  { intros X Y k. unfold diffeq_at. rewrite coef_compact, feedback_compact, !psum_compact. tauto. }
  split; intros [y [E H]]; exists y; (split; [exact E|]); destruct (all_zero n d); try exact H;
    destruct H as [Hl H]; (split; [exact Hl|]); intros k Hk; apply Hd, H, Hk.
Qed.
