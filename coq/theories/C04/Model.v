(* C04 - model of audiolazy.lazy_filters.LinearFilter.__init__ / __call__ for
   constant (non-Stream) coefficients.  The code is a compiler: __call__ builds
   the text of a generator function and executes it.  Hence two layers:
     codegen  : the string builder, returning the AST of the generated text;
     run_gen  : an interpreter running that AST as CPython runs the text.
   No proofs in this file. *)
From Coq Require Import List Bool Arith ZArith QArith Qcanon.
From AL Require Import Base.CaseLib.
Import ListNotations.
Open Scope Qc_scope.

(* ------------------------------------------------------------------ Poly *)
(* Poly._data : (power, coefficient) items in insertion order (a dict: keys are
   distinct).  Only integer powers are modelled. *)
Definition pdata := list (Z * Qc).

Definition nonzero (c : Qc) : bool := negb (Qc_eqb c 0).

(* Poly.__init__ "Compact zeros": every item whose value == 0. is deleted *)
Definition compact (d : pdata) : pdata := filter (fun kv => nonzero (snd kv)) d.

(* OrderedDict(enumerate(data)) *)
Fixpoint enumerate_from (i : Z) (l : list Qc) : pdata :=
  match l with
  | [] => []
  | c :: r => (i, c) :: enumerate_from (i + 1) r
  end.

(* constructor arguments: a list, a dict (items in insertion order) or None *)
Inductive carg := AList (l : list Qc) | ADict (d : pdata) | ANone.

Definition poly_of (a : carg) : pdata :=
  match a with
  | AList l => compact (enumerate_from 0 l)
  | ADict d => compact d
  | ANone => []
  end.

(* Poly.terms(): sorted(self._data) when all powers are integers *)
Fixpoint insert (kv : Z * Qc) (l : pdata) : pdata :=
  match l with
  | [] => [kv]
  | h :: t => if (fst kv <=? fst h)%Z then kv :: l else h :: insert kv t
  end.
Definition terms (d : pdata) : pdata := fold_right insert [] d.

(* Poly.__getitem__ : the stored value, or the Poly's zero *)
Definition getitem (d : pdata) (k : Z) : Qc :=
  match find (fun kv => (fst kv =? k)%Z) d with
  | Some kv => snd kv
  | None => 0
  end.

Definition has_key (d : pdata) (k : Z) : bool := existsb (fun kv => (fst kv =? k)%Z) d.

(* Poly.__setitem__ : a zero value deletes the item, a present key keeps its place *)
Definition setitem (d : pdata) (k : Z) (v : Qc) : pdata :=
  if nonzero v then
    if has_key d k then map (fun kv => if (fst kv =? k)%Z then (k, v) else kv) d
    else d ++ [(k, v)]
  else filter (fun kv => negb (fst kv =? k)%Z) d.

(* Poly * Poly({s: 1}) : every power moves by s, every value is multiplied by 1,
   and the result goes through Poly.__init__ again *)
Definition pshift (s : Z) (d : pdata) : pdata :=
  compact (map (fun kv => ((fst kv + s)%Z, snd kv * 1)) d).

(* min(key for key, value in poly.terms()) : None = ValueError (empty) *)
Definition min_power (d : pdata) : option Z :=
  match d with
  | [] => None
  | kv :: r => Some (fold_left (fun m kv' => Z.min m (fst kv')) r (fst kv))
  end.

(* len(list(poly.values())) : nothing for the empty Poly, powers 0..order otherwise *)
Definition dense_len (d : pdata) : nat :=
  match d with
  | [] => 0%nat
  | kv :: r => S (Z.to_nat (fold_left (fun m kv' => Z.max m (fst kv')) r (fst kv)))
  end.

(* ---------------------------------------------------------- constructor *)
Inductive exn := NonCausal | ZeroGain | EmptyDen.
Inductive result (A : Type) := Ok (a : A) | Err (e : exn).
Arguments Ok {A} a.
Arguments Err {A} e.

Record filt := Filt { f_num : pdata; f_den : pdata }.

(* LinearFilter.__init__ from coefficients: the denominator's lowest power
   becomes 0 ("power = min(...); if power != 0: numpoly *= delta; denpoly *= delta") *)
Definition mk_filter (num den : carg) : result filt :=
  let n := poly_of num in
  let d := match den with ANone => [(0%Z, 1)] | _ => poly_of den end in
  match min_power d with
  | None => Err EmptyDen                       (* min() of an empty sequence *)
  | Some p => if (p =? 0)%Z then Ok (Filt n d)
              else Ok (Filt (pshift (- p) n) (pshift (- p) d))
  end.

(* filt.numpoly[k] = v / filt.denpoly[k] = v after construction (Poly is mutable) *)
Inductive tamper := SetNum (k : Z) (v : Qc) | SetDen (k : Z) (v : Qc).
Definition apply_tamper (f : filt) (t : tamper) : filt :=
  match t with
  | SetNum k v => Filt (setitem (f_num f) k v) (f_den f)
  | SetDen k v => Filt (f_num f) (setitem (f_den f) k v)
  end.

(* ------------------------------------------------- the generated program *)
Inductive term :=
| D (k : nat)                    (* "d{k}"            coeff == 1  *)
| NegD (k : nat)                 (* "-d{k}"           coeff == -1 *)
| CoefD (c : Qc) (k : nat)       (* "({c}) * d{k}"                *)
| M (k : nat)                    (* "m{k}"            coeff == -1 *)
| NegM (k : nat)                 (* "-m{k}"           coeff == 1  *)
| NegCoefM (c : Qc) (k : nat).   (* "-({c}) * m{k}"               *)

Inductive gainform :=
| GOne                           (* gain == 1 : the sum itself    *)
| GNeg                           (* gain == -1: "-({expr})"       *)
| GDiv (g : Qc).                 (* "({expr}) / ({gain})"         *)

(* One field per group of generated lines.  The term type is a parameter so that
   a property about time-varying coefficients can add "next(b{k}) * d{k}" terms. *)
Record prog (T : Type) := Prog {
  p_mvars : list nat;            (* "m1 , m2 , = memory"   ([] : line absent)      *)
  p_dvars : list nat;            (* "d1 = d2 = zero"       ([] : line absent)      *)
  p_terms : list T;              (* the summands of "m0 = ..." joined by " + "     *)
  p_gain : gainform;
  p_mshift : list (nat * nat);   (* "m{i} = m{j}" lines after the yield, in order: (i, j) *)
  p_dshift : list (nat * nat)    (* "d{i} = d{j}" lines, in order: (i, j)                 *)
}.
Arguments Prog {T}.
Arguments p_mvars {T}. Arguments p_dvars {T}. Arguments p_terms {T}.
Arguments p_gain {T}. Arguments p_mshift {T}. Arguments p_dshift {T}.

Inductive gen_prog :=
| PZero (z : Qc)                 (* "for unused in seq: yield {zero}" *)
| PGen (p : prog term).

Definition num_term (kv : Z * Qc) : list term :=
  let k := Z.to_nat (fst kv) in
  let c := snd kv in
  if Qc_eqb c 1 then [D k]
  else if Qc_eqb c (-(1)) then [NegD k]
  else if nonzero c then [CoefD c k]
  else [].

Definition den_term (kv : Z * Qc) : list term :=
  let k := Z.to_nat (fst kv) in
  let c := snd kv in
  if (fst kv =? 0)%Z then []                    (* "gain = coeff" *)
  else if Qc_eqb c (-(1)) then [M k]
  else if Qc_eqb c 1 then [NegM k]
  else if nonzero c then [NegCoefM c k]
  else [].

(* the value left in the variable "gain" by the loop over dendict *)
Definition gain_of (den : pdata) : Qc :=
  fold_left (fun g kv => if (fst kv =? 0)%Z then snd kv else g) den 0.

Definition gain_form (gain : Qc) : gainform :=
  if Qc_eqb gain (-(1)) then GNeg
  else if negb (Qc_eqb gain 1) then GDiv gain
  else GOne.

Definition any_negative (f : filt) : bool :=
  existsb (fun kv => (fst kv <? 0)%Z) (terms (f_num f) ++ terms (f_den f)).

Definition mem_size (f : filt) : nat := (dense_len (f_den f) - 1)%nat.

(* range(lm, 0, -1) *)
Definition down_to_1 (n : nat) : list nat := rev (seq 1 n).
(* ["r{idx} = r{idxold}".format(idx=idx, idxold=idx - 1) for idx in xrange(n, 0, -1)] *)
Definition shift_lines (n : nat) : list (nat * nat) := map (fun i => (i, (i - 1)%nat)) (down_to_1 n).

Definition codegen (f : filt) (zero : Qc) : result gen_prog :=
  if any_negative f then Err NonCausal
  else if Qc_eqb (getitem (f_den f) 0) 0 then Err ZeroGain
  else
    let la := dense_len (f_den f) in
    let lb := dense_len (f_num f) in
    let lm := (la - 1)%nat in
    let data_sum := flat_map num_term (terms (f_num f)) ++ flat_map den_term (terms (f_den f)) in
    match data_sum with
    | [] => Ok (PZero zero)
    | _ => Ok (PGen (Prog (seq 1 (la - 1)) (seq 1 (lb - 1)) data_sum
                          (gain_form (gain_of (terms (f_den f))))
                          (shift_lines lm) (shift_lines (lb - 1))))
    end.

(* ---------------------------------------------------------------- memory *)
Inductive memarg :=
| MNone                           (* memory=None                          *)
| MIter (l : list Qc)             (* any iterable (list, generator, ...)  *)
| MCall (f : nat -> list Qc).     (* a callable, called with the size     *)

(* "tw = takewhile(idx < lm, enumerate(memory)); if actual_len < lm:
    memory = list(zero_pad(memory, lm - actual_len, zero=zero))"  (second
   positional argument of zero_pad is LEFT) *)
Definition take_pad (lm : nat) (zero : Qc) (l : list Qc) : list Qc :=
  let got := firstn lm l in
  repeat zero (lm - length got) ++ got.

Definition normalise_memory (lm : nat) (zero : Qc) (m : memarg) : list Qc :=
  match m with
  | MNone => repeat zero lm
  | MIter l => take_pad lm zero l
  | MCall f => take_pad lm zero (f lm)
  end.

(* ----------------------------------------------------------- interpreter *)
(* The local variables m0, m1, ... and d0, d1, ... of the generated function. *)
Definition env := nat -> Qc.
Definition upd (e : env) (i : nat) (v : Qc) : env := fun j => if Nat.eqb j i then v else e j.
Definition empty_env : env := fun _ => 0.

(* "m1 , m2 , = memory" *)
Fixpoint unpack (vars : list nat) (vals : list Qc) (e : env) : env :=
  match vars, vals with
  | v :: vs, q :: qs => unpack vs qs (upd e v q)
  | _, _ => e
  end.

(* "d1 = d2 = zero" *)
Definition assign_all (vars : list nat) (z : Qc) (e : env) : env :=
  fold_left (fun e v => upd e v z) vars e.

(* the lines "r{i} = r{j}", executed one after the other *)
Definition exec_shifts (lines : list (nat * nat)) (e : env) : env :=
  fold_left (fun e ij => upd e (fst ij) (e (snd ij))) lines e.

Definition eval_term (m d : env) (t : term) : Qc :=
  match t with
  | D k => d k
  | NegD k => - d k
  | CoefD c k => c * d k
  | M k => m k
  | NegM k => - m k
  | NegCoefM c k => (- c) * m k          (* unary minus binds tighter than "*" *)
  end.

(* "t1 + t2 + ... + tn" : left associative *)
Definition eval_sum {T} (ev : T -> Qc) (ts : list T) : Qc :=
  match ts with
  | [] => 0
  | t :: r => fold_left (fun acc t' => acc + ev t') r (ev t)
  end.

Definition apply_gain (g : gainform) (e : Qc) : Qc :=
  match g with
  | GOne => e
  | GNeg => - e
  | GDiv c => e / c
  end.

Section Loop.
  (* S: state of the coefficient iterators (unit for constant coefficients);
     eval_m0 returning None models StopIteration caught around "m0 = ..." *)
  Context {T S : Type}.
  Variable eval_m0 : S -> list T -> gainform -> env -> env -> option (Qc * S).

  (* "for d0 in seq: m0 = expr; yield m0; shifts" *)
  Fixpoint loop (p : prog T) (s : S) (m d : env) (xs : list Qc) : list Qc :=
    match xs with
    | [] => []
    | x :: r =>
        let d0 := upd d 0 x in
        match eval_m0 s (p_terms p) (p_gain p) m d0 with
        | None => []
        | Some (m0, s') =>
            let m' := upd m 0 m0 in
            m0 :: loop p s' (exec_shifts (p_mshift p) m') (exec_shifts (p_dshift p) d0) r
        end
    end.

  Definition run_prog (p : prog T) (s : S) (memory : list Qc) (zero : Qc) (xs : list Qc) : list Qc :=
    loop p s (unpack (p_mvars p) memory empty_env) (assign_all (p_dvars p) zero empty_env) xs.
End Loop.

Definition eval_const (_ : unit) (ts : list term) (g : gainform) (m d : env) : option (Qc * unit) :=
  Some (apply_gain g (eval_sum (eval_term m d) ts), tt).

Definition run_gen (g : gen_prog) (memory : list Qc) (zero : Qc) (xs : list Qc) : list Qc :=
  match g with
  | PZero z => map (fun _ => z) xs
  | PGen p => run_prog eval_const p tt memory zero xs
  end.

(* ------------------------------------------------------------ whole call *)
Definition call (f : filt) (mem : memarg) (zero : Qc) (xs : list Qc) : result (list Qc) :=
  match codegen f zero with
  | Err e => Err e
  | Ok g => Ok (run_gen g (normalise_memory (mem_size f) zero mem) zero xs)
  end.

(* construction followed by item assignments on numpoly / denpoly *)
Definition build (num den : carg) (ts : list tamper) : result filt :=
  match mk_filter num den with
  | Err e => Err e
  | Ok f => Ok (fold_left apply_tamper ts f)
  end.

(* list(ZFilter(b, a)(xs, memory=mem, zero=zero)) for coefficient lists *)
Definition run_filter (b a : list Qc) (mem : memarg) (zero : Qc) (xs : list Qc) : result (list Qc) :=
  match mk_filter (AList b) (AList a) with
  | Err e => Err e
  | Ok f => call f mem zero xs
  end.
